import DFV.Lemmas.C06Chain
/-!
# C06 — integrals and means are cell sums times cell measure, consistent across axes

Property theorems about the model of `Field.integrate`, `Field.mean`, `Mesh.sel(dim)` and
`Mesh.dV` (`DFV/Model/C06.lean`).  Number of dimensions, shape, cell sizes, position of the
mesh, number of components, data, direction and order of directions are universally
quantified.  `WF f` = the mesh satisfies `Mesh.Inv` and the value array has the mesh's shape.
`cget a i c` is component `c` of cell `i`; `sumTo n x = x 0 + … + x (n-1)`;
`nestSum shape g` is the sum of `g` over all multi-indices of the shape.
-/
namespace DFV.C06
open DFV

/-! ## The integral over all directions -/

/-- `integrate()` is, per component, the cell volume times the sum of all cell values
(the model sums NumPy's flat buffer; the theorem turns it into the sum over all
multi-indices, for every shape). -/
theorem integrate_all (f : Fld) :
    integrate f .none false
      = .ok (.vals (tab f.nvdim fun c => dV f.mesh * nestSum f.data.shape fun i => cget f.data i c)) := by
  unfold integrate
  simp only [Bool.false_eq_true, if_false]
  congr 2
  apply tab_congr
  intro c _
  unfold sumAll NDA.toList
  rw [List.map_map, lsum_indicesC, mul_comm]
  rfl

/-- the cell volume is the product over the axes of edge length / cell count -/
theorem dV_eq (m : Mesh) : dV m = ratProd (tab m.ndim fun a => m.region.edge a / (m.nAt a : Rat)) := rfl

/-- cell volume × number of cells = volume of the region -/
theorem dV_times_cells (m : Mesh) (hm : m.Inv) :
    dV m * (natProd m.n : Rat) = ratProd m.region.edges := dV_mul_count m hm

/-! ## Directional integrals live on the mesh with that axis removed -/

/-- `integrate(d)` (more than one dimension): the result lives on the mesh with the axis of
`d` removed — corners, dims, units and cell counts of the remaining axes unchanged — keeps
labels and mapping, drops the unit, is valid everywhere, and its value at the reduced index
`i` is the cell length of that axis times the sum along that axis. -/
theorem integrate_dir (f : Fld) (hf : WF f) (d : String) (g : Fld)
    (h : integrate f (.name d) false = .ok (.field g)) :
    ∃ ax, f.mesh.region.dim2index d = .ok ax ∧ ax < f.mesh.ndim ∧
      g.mesh.region.pmin = removeAt f.mesh.region.pmin ax ∧
      g.mesh.region.pmax = removeAt f.mesh.region.pmax ax ∧
      g.mesh.region.dims = removeAt f.mesh.region.dims ax ∧
      g.mesh.region.units = removeAt f.mesh.region.units ax ∧
      g.mesh.n = removeAt f.mesh.n ax ∧ g.data.shape = removeAt f.mesh.n ax ∧
      g.nvdim = f.nvdim ∧ g.vdims = f.vdims ∧ g.vmap = f.vmap ∧ g.unit = none ∧
      (∀ i, g.valid.get i = true) ∧
      ∀ i c, inRange (removeAt f.mesh.n ax) i = true → c < f.nvdim →
        cget g.data i c = f.mesh.cellAt ax * sumTo (f.mesh.nAt ax) fun j => cget f.data (insertAt i ax j) c :=
  integrate_dir_spec f hf d g h

/-- on a 1-d mesh `integrate(d)` returns the bare array: cell length × sum of the cells -/
theorem integrate_dir_1d (f : Fld) (hf : WF f) (d : String) (v : List Rat)
    (h : integrate f (.name d) false = .ok (.vals v)) :
    f.mesh.ndim = 1 ∧ f.mesh.region.dim2index d = .ok 0 ∧
    v = tab f.nvdim fun c => f.mesh.cellAt 0 * sumTo (f.mesh.nAt 0) fun j => cget f.data [j] c := by
  obtain ⟨ax, hax, h1, hv⟩ := integrate_dir_1d_unpack f d v h
  obtain ⟨haxlt, _⟩ := dim2index_ok _ _ _ hax
  have hdl : f.mesh.region.dims.length = f.mesh.ndim := hf.1.1.2.2.1
  have hax0 : ax = 0 := by omega
  subst hax0
  refine ⟨h1, hax, ?_⟩
  rw [hv]
  simp only [scaleBy, sumAxis]
  apply tab_congr
  intro c hc
  simp only [cget]
  rw [getD_tab _ _ _ _ hc, mul_comm, hf.2]
  rfl

/-! ## Fubini: any order of directions gives the volume integral -/

/-- Integrating direction by direction, in ANY order `ds` of all the directions (each step on
the mesh the previous step returned, the last step on a 1-d mesh returning the bare array),
gives exactly `integrate()`.  Induction over the list of directions; each step removes one
axis of the nested sum and one factor of the cell volume. -/
theorem fubini (f : Fld) (hf : WF f) (ds : List String) (hlen : ds.length = f.mesh.ndim) (r : Res)
    (h : integrateSeq f ds = .ok r) : integrate f .none false = .ok r := by
  induction ds generalizing f with
  | nil =>
    have := hf.1.1.1
    have h0 : f.mesh.ndim = f.mesh.region.pmin.length := rfl
    simp at hlen; omega
  | cons d ds ih =>
    unfold integrateSeq at h
    split at h
    · cases h
    · rename_i v hv
      split at h
      · injection h with h; subst h
        obtain ⟨h1, hax0, hvv⟩ := integrate_dir_1d f hf d v hv
        rw [integrate_all, hvv]
        congr 2
        apply tab_congr
        intro c _
        have hlen1 : f.mesh.n.length = 1 := by rw [hf.1.2.1]; exact h1
        have hcell : f.mesh.cell = [f.mesh.cellAt 0] := by
          unfold Mesh.cell; rw [h1]; rfl
        unfold dV
        rw [hcell, hf.2]
        match hn : f.mesh.n, hlen1 with
        | [k], _ =>
          have : f.mesh.nAt 0 = k := by unfold Mesh.nAt; rw [hn]; rfl
          rw [this]
          simp [nestSum, ratProd]
      · cases h
    · rename_i g hg
      obtain ⟨ax, m', hax, _, hsel, hshape, hgeq⟩ := integrate_dir_unpack f d g hg
      obtain ⟨ax', hax', haxlt, hpmin, _, _, _, hn, hgshape, hnv, _, _, _, _, hval⟩ := integrate_dir f hf d g hg
      rw [hax] at hax'; injection hax' with hax'; subst hax'
      have hgm : g.mesh = m' := by rw [hgeq]
      have hwf : WF g := ⟨by rw [hgm]; exact sel_inv f.mesh hf.1 d m' hsel, by rw [hgshape, hn]⟩
      have hlen' : ds.length = g.mesh.ndim := by
        have h1 : g.mesh.ndim = g.mesh.region.pmin.length := rfl
        have h2 : f.mesh.ndim = f.mesh.region.pmin.length := rfl
        rw [h1, hpmin, removeAt_length _ _ (by rw [← h2]; exact haxlt), ← h2, ← hlen]; simp
      have := ih g hwf hlen' h
      rw [← this, integrate_all, integrate_all, hnv]
      congr 2
      apply tab_congr
      intro c hc
      rw [hgshape, sel_dV f.mesh hf.1 d m' hsel ax hax, hgm]
      rw [nestSum_congr _ _ _ (fun i hi => hval i c hi hc), nestSum_mul_left, hf.2,
        ← nestSum_removeAt f.mesh.n ax (by rw [hf.1.2.1]; exact haxlt)]
      unfold Mesh.nAt
      ring

/-! ## The cumulative integral -/

/-- `integrate(d, cumulative=True)`: same mesh, and the entry at cell `i` is the cell length
times (the sum of the cells before it along the axis plus half its own value). -/
theorem cumulative_formula (f : Fld) (d : String) (r : Res)
    (h : integrate f (.name d) true = .ok r) :
    ∃ ax g, f.mesh.region.dim2index d = .ok ax ∧ r = .field g ∧ g.mesh = f.mesh ∧
      g.data.shape = f.data.shape ∧ g.nvdim = f.nvdim ∧ g.unit = none ∧
      ∀ i c, inRange f.data.shape i = true → c < f.nvdim →
        cget g.data i c = f.mesh.cellAt ax *
          (sumTo (i.getD ax 0) (fun l => cget f.data (setAt i ax l) c) + cget f.data i c / 2) := by
  obtain ⟨ax, hax, _, hr⟩ := integrate_cum_unpack f d r h
  refine ⟨ax, _, hax, hr, rfl, rfl, rfl, rfl, ?_⟩
  intro i c hi hc
  simp only
  rw [cget_force (cumAxis f.nvdim (f.mesh.cellAt ax) f.data ax) i c hi, cget_cumAxis _ _ _ _ _ _ hc]
  split
  · rename_i h0
    rw [h0]; simp only [sumTo]; ring
  · rename_i h0
    rw [cumTo_eq]
    have : i.getD ax 0 - 1 + 1 = i.getD ax 0 := by omega
    rw [this]; ring

/-- The last cumulative entry plus half the last cell is the directional integral. -/
theorem cumulative_last (f : Fld) (hf : WF f) (d : String) (gc gd : Fld)
    (hc : integrate f (.name d) true = .ok (.field gc))
    (hd : integrate f (.name d) false = .ok (.field gd)) :
    ∃ ax, f.mesh.region.dim2index d = .ok ax ∧
      ∀ i c, inRange f.mesh.n i = true → i.getD ax 0 = f.mesh.nAt ax - 1 → c < f.nvdim →
        cget gc.data i c + f.mesh.cellAt ax * (cget f.data i c / 2) = cget gd.data (removeAt i ax) c := by
  obtain ⟨ax, g, hax, hr, _, _, _, _, hcum⟩ := cumulative_formula f d _ hc
  injection hr with hr; subst hr
  obtain ⟨ax', hax', haxlt, _, _, _, _, _, _, _, _, _, _, _, hdir⟩ := integrate_dir f hf d gd hd
  rw [hax] at hax'; injection hax' with hax'; subst hax'
  refine ⟨ax, hax, ?_⟩
  intro i c hi hlast hcn
  have hilen : i.length = f.mesh.n.length := inRange_length _ _ hi
  have haxi : ax < i.length := by rw [hilen, hf.1.2.1]; exact haxlt
  have hnpos : 0 < f.mesh.nAt ax := hf.1.2.2 ax haxlt
  rw [hcum i c (by rw [hf.2]; exact hi) hcn, hdir (removeAt i ax) c (inRange_removeAt _ _ _ hi) hcn]
  have hsplit : f.mesh.nAt ax = i.getD ax 0 + 1 := by omega
  rw [hsplit]
  simp only [sumTo]
  rw [insertAt_removeAt i ax _ haxi, setAt_getD_self]
  have hcong : sumTo (i.getD ax 0) (fun j => cget f.data (insertAt (removeAt i ax) ax j) c)
      = sumTo (i.getD ax 0) (fun l => cget f.data (setAt i ax l) c) :=
    sumTo_congr _ _ _ fun j _ => by rw [insertAt_removeAt i ax j haxi]
  rw [hcong]; ring

/-- 1-d form: the bare array returned by `integrate(d)` is the last cumulative entry plus
half the last cell. -/
theorem cumulative_last_1d (f : Fld) (hf : WF f) (d : String) (gc : Fld) (v : List Rat)
    (hc : integrate f (.name d) true = .ok (.field gc))
    (hd : integrate f (.name d) false = .ok (.vals v)) (c : Nat) (hcn : c < f.nvdim) :
    cget gc.data [f.mesh.nAt 0 - 1] c + f.mesh.cellAt 0 * (cget f.data [f.mesh.nAt 0 - 1] c / 2) = v.getD c 0 := by
  obtain ⟨h1, hax0, hv⟩ := integrate_dir_1d f hf d v hd
  obtain ⟨ax, g, hax, hr, _, _, _, _, hcum⟩ := cumulative_formula f d _ hc
  injection hr with hr; subst hr
  rw [hax0] at hax; injection hax with hax; subst hax
  have hnpos : 0 < f.mesh.nAt 0 := hf.1.2.2 0 (by omega)
  have hlen : f.mesh.n.length = 1 := by rw [hf.1.2.1]; exact h1
  have hin : inRange f.data.shape [f.mesh.nAt 0 - 1] = true := by
    rw [hf.2]
    match hn : f.mesh.n, hlen with
    | [k], _ =>
      have : f.mesh.nAt 0 = k := by unfold Mesh.nAt; rw [hn]; rfl
      simp [inRange]; omega
  rw [hcum _ c hin hcn, hv, getD_tab _ _ _ _ hcn]
  have hsplit : f.mesh.nAt 0 = (f.mesh.nAt 0 - 1) + 1 := by omega
  conv_rhs => rw [hsplit]
  simp only [sumTo, List.getD_cons_zero, setAt]
  ring

/-! ## Means are integrals divided by the integrated extent -/

/-- `mean()` is the integral over all directions divided by the volume of the region. -/
theorem mean_all_eq (f : Fld) (hf : WF f) :
    mean f .none = .ok (.vals (tab f.nvdim fun c =>
      (dV f.mesh * nestSum f.data.shape fun i => cget f.data i c) / ratProd f.mesh.region.edges)) := by
  unfold mean
  simp only
  congr 2
  unfold meanAll
  apply tab_congr
  intro c _
  unfold sumAll NDA.toList
  rw [List.map_map, lsum_indicesC, ← dV_mul_count f.mesh hf.1, hf.2]
  have hd := dV_pos f.mesh hf.1
  have hn : (0 : Rat) < (natProd f.mesh.n : Rat) := by
    have : 0 < natProd f.mesh.n := by
      apply natProd_pos
      intro k hk
      obtain ⟨a, ha, rfl⟩ := List.getElem_of_mem hk
      have := hf.1.2.2 a (by show a < f.mesh.region.ndim; rw [← hf.1.2.1]; exact ha)
      unfold Mesh.nAt at this
      simpa [List.getD_eq_getElem?_getD, ha] using this
    exact_mod_cast this
  have e : ((fun v : List Rat => v.getD c 0) ∘ f.data.get) = fun i => cget f.data i c := rfl
  rw [e]
  field_simp

/-- `mean(d)` is `integrate(d)` divided by the edge length along `d`, on the same reduced
mesh; the unit is kept. -/
theorem mean_dir_eq (f : Fld) (hf : WF f) (d : String) (gi : Fld) (r : Res)
    (hi : integrate f (.name d) false = .ok (.field gi)) (hm : mean f (.name d) = .ok r) :
    ∃ ax gm, f.mesh.region.dim2index d = .ok ax ∧ r = .field gm ∧ gm.mesh = gi.mesh ∧
      gm.data.shape = gi.data.shape ∧ gm.unit = f.unit ∧ gm.vdims = f.vdims ∧ gm.vmap = f.vmap ∧
      ∀ i c, inRange (removeAt f.mesh.n ax) i = true → c < f.nvdim →
        cget gm.data i c = cget gi.data i c / f.mesh.region.edge ax := by
  obtain ⟨ax, m', hax, _, hsel, hshape, hg⟩ := integrate_dir_unpack f d gi hi
  obtain ⟨ax', m'', hax', hsel', _, hr⟩ := mean_name_unpack f d r hm
  rw [hax] at hax'; injection hax' with hax'; subst hax'
  rw [hsel] at hsel'; injection hsel' with hsel'; subst hsel'
  obtain ⟨_, _, haxlt, _⟩ := sel_spec f.mesh hf.1 d m' hsel
  have haxlt : ax < f.mesh.ndim := by
    obtain ⟨ax2, hax2, hlt, _⟩ := sel_spec f.mesh hf.1 d m' hsel
    rw [hax] at hax2; injection hax2 with hax2; subst hax2; exact hlt
  subst hg
  refine ⟨ax, _, hax, hr, rfl, rfl, rfl, rfl, rfl, ?_⟩
  intro i c hin hc
  have hi1 : inRange (removeAt f.data.shape ax) i = true := by rw [hf.2]; exact hin
  simp only
  rw [cget_force _ _ _ (by exact hi1), cget_force _ _ _ (by exact hi1), cget_divBy _ _ _ _ _ hc,
    cget_scaleBy _ _ _ _ _ hc, hf.2, ← cells_cover f.mesh hf.1 ax haxlt]
  have hn : ((f.mesh.nAt ax : Nat) : Rat) ≠ 0 := by
    exact_mod_cast (Nat.pos_iff_ne_zero.mp (hf.1.2.2 ax haxlt))
  have hcp := cell_pos' f.mesh hf.1 ax haxlt
  show _ / ((f.mesh.nAt ax : Nat) : Rat) = _
  field_simp

/-- `sorted(a) == sorted(b)` holds exactly for permutations -/
theorem sameMultiset_iff_perm (a b : List String) : sameMultiset a b = true ↔ a.Perm b := by
  unfold sameMultiset
  rw [List.perm_iff_count]
  simp only [Bool.and_eq_true, List.all_eq_true, beq_iff_eq]
  constructor
  · intro ⟨h1, h2⟩ x
    by_cases hxa : x ∈ a
    · exact h1 x hxa
    · by_cases hxb : x ∈ b
      · exact h2 x hxb
      · rw [List.count_eq_zero_of_not_mem hxa, List.count_eq_zero_of_not_mem hxb]
  · intro h
    exact ⟨fun x _ => h x, fun x _ => h x⟩

/-- Listing all directions, in any order, is the mean over everything: the integral over all
directions divided by the volume of the region. -/
theorem mean_all_named (f : Fld) (hf : WF f) (ds : List String) (hp : ds.Perm f.mesh.region.dims) :
    mean f (.names ds) = mean f .none := by
  have hnd : ds.Nodup := hp.nodup_iff.mpr (nodup_of_hasDup _ hf.1.1.2.2.2.2.1)
  have hdup : hasDup ds = false := hasDup_of_nodup ds hnd
  unfold mean
  simp only [hdup, Bool.false_eq_true, if_false, (sameMultiset_iff_perm _ _).mpr hp, if_true]

/-- `mean(list of directions)` (a proper subset, in any order) is the result of integrating
over those directions one after the other — in that order — divided by the product of their
edge lengths; both live on the same reduced mesh. -/
theorem mean_dirs_eq (f : Fld) (hf : WF f) (ds : List String) (gm gi : Fld)
    (hm : mean f (.names ds) = .ok (.field gm)) (hi : integrateSeq f ds = .ok (.field gi)) :
    gm.mesh = gi.mesh ∧ gm.data.shape = gi.data.shape ∧ gm.nvdim = f.nvdim ∧ gm.unit = f.unit ∧
    ∀ i c, inRange gi.data.shape i = true → c < f.nvdim →
      cget gm.data i c = cget gi.data i c / extent f.mesh.region ds := by
  obtain ⟨_, m', axes, hselm, hax, hshape, hgm⟩ := mean_names_unpack f ds gm hm
  obtain ⟨axes', C', hax', hselm', hinv, hprod⟩ := chain f hf ds f _ 1 gi (chainInv_init f hf) hi
  rw [hax] at hax'; injection hax' with hax'; subst hax'
  rw [hselm] at hselm'; injection hselm' with hselm'
  rw [← keepMask_eq_foldl, dropProd_allTrue] at hprod
  rw [← keepMask_eq_foldl] at hinv
  obtain ⟨hwgi, _, _, hCpos, _, _, _, hn, hval⟩ := hinv
  have hgish : gi.data.shape = gi.mesh.n := hwgi.2
  subst hgm
  refine ⟨hselm', ?_, rfl, rfl, ?_⟩
  · show (meanAxes f.nvdim f.data axes).shape = _
    rw [hshape, hselm', hgish]
  · intro i c hin hc
    have hin' : inRange (meanAxes f.nvdim f.data axes).shape i = true := by
      rw [hshape, hselm', ← hgish]; exact hin
    simp only
    rw [cget_force _ _ _ hin', cget_meanAxes _ _ _ _ _ hc, hval i c (by rw [← hgish]; exact hin) hc, hf.2]
    have hD : (0 : Rat) < (dropProd (keepMask f.mesh.n.length axes) f.mesh.n : Rat) := by
      have : 0 < dropProd (keepMask f.mesh.n.length axes) f.mesh.n := by
        apply dropProd_pos
        intro k hk
        obtain ⟨a, ha, rfl⟩ := List.getElem_of_mem hk
        have := hf.1.2.2 a (by show a < f.mesh.region.ndim; rw [← hf.1.2.1]; exact ha)
        unfold Mesh.nAt at this
        simpa [List.getD_eq_getElem?_getD, ha] using this
      exact_mod_cast this
    have hprod' : extent f.mesh.region ds = C' * (dropProd (keepMask f.mesh.n.length axes) f.mesh.n : Rat) := by
      rw [hprod]; ring
    rw [hprod']
    field_simp

/-! ## Every form at once; linear, per component, independent of the mesh position -/

/-- every successful `integrate` returns the spec values on the spec shape -/
theorem integrate_vals (f : Fld) (hf : WF f) (dir : Dir) (cum : Bool) (r : Res)
    (h : integrate f dir cum = .ok r) :
    r.nv = f.nvdim ∧ r.shape = ishape f dir cum ∧
    ∀ i c, inRange r.shape i = true → c < f.nvdim → r.cval i c = ival f dir cum i c := by
  cases dir with
  | none =>
    cases cum with
    | true => cases h
    | false =>
      rw [integrate_all] at h
      injection h with h; subst h
      refine ⟨by simp [Res.nv], rfl, ?_⟩
      intro i c _ hc
      simp only [Res.cval, ival]
      rw [getD_tab _ _ _ _ hc]
  | name d =>
    cases cum with
    | true =>
      obtain ⟨ax, g, hax, hr, _, hs, hnv, _, hval⟩ := cumulative_formula f d r h
      subst hr
      refine ⟨hnv, ?_, ?_⟩
      · simp only [Res.shape, ishape, hax, if_true]; rw [hs, hf.2]
      · intro i c hi hc
        simp only [Res.cval, ival, hax, if_true]
        exact hval i c (by simpa [Res.shape, hs] using hi) hc
    | false =>
      cases r with
      | vals v =>
        obtain ⟨h1, hax, hv⟩ := integrate_dir_1d f hf d v h
        have hlen1 : f.mesh.n.length = 1 := by rw [hf.1.2.1]; exact h1
        refine ⟨by rw [hv]; simp [Res.nv], ?_, ?_⟩
        · simp only [Res.shape, ishape, hax, Bool.false_eq_true, if_false]
          match hn : f.mesh.n, hlen1 with
          | [k], _ => rfl
        · intro i c hi hc
          have := inRange_nil_iff i hi
          subst this
          simp only [Res.cval, ival, hax, Bool.false_eq_true, if_false, insertAt_zero]
          rw [hv, getD_tab _ _ _ _ hc]
      | field g =>
        obtain ⟨ax, hax, _, _, _, _, _, _, hs, hnv, _, _, _, _, hval⟩ := integrate_dir f hf d g h
        refine ⟨hnv, ?_, ?_⟩
        · simp only [Res.shape, ishape, hax, Bool.false_eq_true, if_false]; exact hs
        · intro i c hi hc
          simp only [Res.cval, ival, hax, Bool.false_eq_true, if_false]
          exact hval i c (by simpa [Res.shape, hs] using hi) hc
  | names ds => cases h
  | other => cases h

/-- whether `integrate` succeeds, and on which mesh the result lives, depends only on the
mesh and the shape of the value array -/
theorem integrate_frame (f f' : Fld) (hm : f'.mesh = f.mesh) (hs : f'.data.shape = f.data.shape)
    (dir : Dir) (cum : Bool) (r : Res) (h : integrate f dir cum = .ok r) :
    ∃ r', integrate f' dir cum = .ok r' ∧ r'.mesh? = r.mesh? := by
  cases dir with
  | none =>
    cases cum with
    | true => cases h
    | false =>
      unfold integrate at h
      simp only [Bool.false_eq_true, if_false] at h
      injection h with h; subst h
      exact ⟨_, rfl, rfl⟩
  | name d =>
    cases cum with
    | true =>
      obtain ⟨ax, hax, hshape, hr⟩ := integrate_cum_unpack f d r h
      subst hr
      refine ⟨.field { mesh := f.mesh, nvdim := f'.nvdim,
                       data := (cumAxis f'.nvdim (f.mesh.cellAt ax) f'.data ax).force [],
                       valid := NDA.const f.mesh.n true, vdims := f'.vdims, vmap := f'.vmap, unit := none }, ?_, rfl⟩
      unfold integrate
      simp only [hm, hax, if_true]
      have : mkFld f.mesh f'.nvdim (cumAxis f'.nvdim (f.mesh.cellAt ax) f'.data ax) f'.vdims f'.vmap none
          = .ok { mesh := f.mesh, nvdim := f'.nvdim,
                  data := (cumAxis f'.nvdim (f.mesh.cellAt ax) f'.data ax).force [],
                  valid := NDA.const f.mesh.n true, vdims := f'.vdims, vmap := f'.vmap, unit := none } := by
        unfold mkFld
        have : (cumAxis f'.nvdim (f.mesh.cellAt ax) f'.data ax).shape = f.mesh.n := by
          show f'.data.shape = _
          rw [hs, hshape]
        simp [this]
      rw [this]
    | false =>
      cases r with
      | vals v =>
        obtain ⟨ax, hax, h1, _⟩ := integrate_dir_1d_unpack f d v h
        refine ⟨.vals ((scaleBy f'.nvdim (f.mesh.cellAt ax) (sumAxis f'.nvdim f'.data ax)).get []), ?_, rfl⟩
        unfold integrate
        simp only [hm, hax, Bool.false_eq_true, if_false, h1, if_true]
      | field g =>
        obtain ⟨ax, m', hax, hne1, hsel, hshape, hg⟩ := integrate_dir_unpack f d g h
        subst hg
        refine ⟨.field { mesh := m', nvdim := f'.nvdim,
                         data := (scaleBy f'.nvdim (f.mesh.cellAt ax) (sumAxis f'.nvdim f'.data ax)).force [],
                         valid := NDA.const m'.n true, vdims := f'.vdims, vmap := f'.vmap, unit := none }, ?_, rfl⟩
        unfold integrate
        simp only [hm, hax, Bool.false_eq_true, if_false, hne1, hsel]
        have : mkFld m' f'.nvdim (scaleBy f'.nvdim (f.mesh.cellAt ax) (sumAxis f'.nvdim f'.data ax)) f'.vdims f'.vmap none
            = .ok { mesh := m', nvdim := f'.nvdim,
                    data := (scaleBy f'.nvdim (f.mesh.cellAt ax) (sumAxis f'.nvdim f'.data ax)).force [],
                    valid := NDA.const m'.n true, vdims := f'.vdims, vmap := f'.vmap, unit := none } := by
          unfold mkFld
          have : (scaleBy f'.nvdim (f.mesh.cellAt ax) (sumAxis f'.nvdim f'.data ax)).shape = m'.n := by
            show removeAt f'.data.shape ax = _
            rw [hs, hshape]
          simp [this]
        rw [this]
  | names ds => cases h
  | other => cases h

/-- All forms of `integrate` are linear in the field: for two fields on the same mesh the
integral of `α·f + β·g` exists whenever those of `f` and `g` do, lives on the same mesh and
equals `α·∫f + β·∫g` entry by entry. -/
theorem integrate_linear (α β : Rat) (f g : Fld) (hf : WF f) (hm : g.mesh = f.mesh)
    (hn : g.nvdim = f.nvdim) (hs : g.data.shape = f.data.shape) (dir : Dir) (cum : Bool) (rf rg : Res)
    (h1 : integrate f dir cum = .ok rf) (h2 : integrate g dir cum = .ok rg) :
    ∃ r, integrate (lin α f β g) dir cum = .ok r ∧ r.mesh? = rf.mesh? ∧ r.shape = rf.shape ∧
      ∀ i c, inRange r.shape i = true → c < f.nvdim →
        r.cval i c = α * rf.cval i c + β * rg.cval i c := by
  obtain ⟨r, hr, hmesh⟩ := integrate_frame f (lin α f β g) rfl rfl dir cum rf h1
  have hwl : WF (lin α f β g) := ⟨hf.1, hf.2⟩
  have hwg : WF g := ⟨by rw [hm]; exact hf.1, by rw [hs, hm]; exact hf.2⟩
  obtain ⟨_, hsl, hvl⟩ := integrate_vals _ hwl dir cum r hr
  obtain ⟨_, hsf, hvf⟩ := integrate_vals f hf dir cum rf h1
  obtain ⟨_, hsg, hvg⟩ := integrate_vals g hwg dir cum rg h2
  have hss : r.shape = rf.shape := by rw [hsl, hsf]; rfl
  have hsg' : rg.shape = rf.shape := by rw [hsg, hsf]; unfold ishape; rw [hm]
  refine ⟨r, hr, hmesh, hss, ?_⟩
  intro i c hi hc
  rw [hvl i c hi hc, hvf i c (by rw [← hss]; exact hi) hc,
    hvg i c (by rw [hsg', ← hss]; exact hi) (by rw [hn]; exact hc)]
  exact ival_lin α β f g hm hs dir cum i c hc

/-- All forms of `integrate` act per component: integrating the scalar field of component
`c` gives component `c` of the integral, on the same mesh. -/
theorem integrate_componentwise (f : Fld) (hf : WF f) (c : Nat) (hc : c < f.nvdim) (dir : Dir) (cum : Bool)
    (rf : Res) (h : integrate f dir cum = .ok rf) :
    ∃ r, integrate (compFld f c) dir cum = .ok r ∧ r.mesh? = rf.mesh? ∧ r.shape = rf.shape ∧ r.nv = 1 ∧
      ∀ i, inRange r.shape i = true → r.cval i 0 = rf.cval i c := by
  obtain ⟨r, hr, hmesh⟩ := integrate_frame f (compFld f c) rfl rfl dir cum rf h
  have hwc : WF (compFld f c) := ⟨hf.1, hf.2⟩
  obtain ⟨hnv, hsl, hvl⟩ := integrate_vals _ hwc dir cum r hr
  obtain ⟨_, hsf, hvf⟩ := integrate_vals f hf dir cum rf h
  have hss : r.shape = rf.shape := by rw [hsl, hsf]; rfl
  refine ⟨r, hr, hmesh, hss, hnv, ?_⟩
  intro i hi
  rw [hvl i 0 hi (by show 0 < 1; omega), hvf i c (by rw [← hss]; exact hi) hc]
  exact ival_comp f c dir cum i

/-- The values of every form of `integrate` do not depend on where the mesh sits: moving the
region (and its subregions) by any vector `t` leaves shape and values unchanged. -/
theorem integrate_translation_invariant (t : List Rat) (f : Fld) (hf : WF f) (dir : Dir) (cum : Bool)
    (r r' : Res) (h : integrate f dir cum = .ok r) (h' : integrate (translate t f) dir cum = .ok r') :
    r'.shape = r.shape ∧
    ∀ i c, inRange r.shape i = true → c < f.nvdim → r'.cval i c = r.cval i c := by
  obtain ⟨_, hs, hv⟩ := integrate_vals f hf dir cum r h
  obtain ⟨_, hs', hv'⟩ := integrate_vals _ (translate_wf t f hf) dir cum r' h'
  have hss : r'.shape = r.shape := by rw [hs, hs']; rfl
  refine ⟨hss, ?_⟩
  intro i c hi hc
  rw [hv' i c (by rw [hss]; exact hi) hc, hv i c hi hc]
  exact ival_translate t f hf.1 dir cum i c

/-- … and the integral over all directions of the moved field is literally the same. -/
theorem integrate_all_translation_invariant (t : List Rat) (f : Fld) (hf : WF f) :
    integrate (translate t f) .none false = integrate f .none false := by
  rw [integrate_all, integrate_all]
  have : dV (translate t f).mesh = dV f.mesh := translate_dV t f hf.1
  rw [this]
  rfl

/-- `mean()` is linear in the field (two fields on one mesh). -/
theorem mean_all_linear (α β : Rat) (f g : Fld) (hf : WF f) (hm : g.mesh = f.mesh)
    (hn : g.nvdim = f.nvdim) (hs : g.data.shape = f.data.shape) :
    ∃ vf vg, mean f .none = .ok (.vals vf) ∧ mean g .none = .ok (.vals vg) ∧
      mean (lin α f β g) .none = .ok (.vals (tab f.nvdim fun c => α * vf.getD c 0 + β * vg.getD c 0)) := by
  have hwl : WF (lin α f β g) := ⟨hf.1, hf.2⟩
  have hwg : WF g := ⟨by rw [hm]; exact hf.1, by rw [hs, hm]; exact hf.2⟩
  refine ⟨_, _, mean_all_eq f hf, mean_all_eq g hwg, ?_⟩
  rw [mean_all_eq _ hwl]
  congr 2
  apply tab_congr
  intro c hc
  have hc : c < f.nvdim := hc
  rw [getD_tab f.nvdim _ c 0 hc, getD_tab g.nvdim _ c 0 (by rw [hn]; exact hc), hm, hs]
  show dV f.mesh * nestSum f.data.shape (fun i => cget (lin α f β g).data i c) / ratProd f.mesh.region.edges = _
  rw [nestSum_congr _ _ _ (fun i _ => cget_lin α β f g i c hc), nestSum_add, nestSum_mul_left, nestSum_mul_left]
  ring

/-- `mean()` does not look at the mesh position at all. -/
theorem mean_all_translation_invariant (t : List Rat) (f : Fld) :
    mean (translate t f) .none = mean f .none := rfl

/-! ## The successful branches are reached (total correctness without subregions) -/

/-- `integrate(d)` succeeds for every direction of a well-formed field without subregions:
a field on the reduced mesh for two or more dimensions, the bare array in 1-d. -/
theorem integrate_dir_ok (f : Fld) (hf : WF f) (hsubs : f.mesh.subs = []) (d : String)
    (hd : d ∈ f.mesh.region.dims) :
    (2 ≤ f.mesh.ndim → ∃ g, integrate f (.name d) false = .ok (.field g) ∧ g.mesh.subs = []) ∧
    (f.mesh.ndim = 1 → ∃ v, integrate f (.name d) false = .ok (.vals v)) := by
  obtain ⟨ax, hax⟩ := dim2index_of_mem _ _ hd
  constructor
  · intro h2
    obtain ⟨m', hsel, hms⟩ := sel_ok f.mesh hf.1 hsubs h2 d ax hax
    obtain ⟨ax', hax', _, _, _, _, _, _, _, hn, _, _⟩ := sel_spec f.mesh hf.1 d m' hsel
    rw [hax] at hax'; injection hax' with hax'; subst hax'
    have hne1 : ¬ f.mesh.ndim = 1 := by omega
    have hshape : (scaleBy f.nvdim (f.mesh.cellAt ax) (sumAxis f.nvdim f.data ax)).shape = m'.n := by
      show removeAt f.data.shape ax = _
      rw [hf.2, hn]
    unfold integrate
    simp only [hax, Bool.false_eq_true, if_false, hne1, hsel, mkFld, hshape, ne_eq, not_true_eq_false]
    exact ⟨_, rfl, hms⟩
  · intro h1
    unfold integrate
    simp only [hax, Bool.false_eq_true, if_false, h1, if_true]
    exact ⟨_, rfl⟩

/-- Integrating direction by direction succeeds for every ordering `ds` of the directions
(no repetition, every entry a direction of the mesh, all directions used) of a well-formed
field without subregions — and then gives `integrate()` (theorem `fubini`). -/
theorem fubini_total (f : Fld) (hf : WF f) (hsubs : f.mesh.subs = []) (ds : List String)
    (hnd : ds.Nodup) (hmem : ∀ d ∈ ds, d ∈ f.mesh.region.dims) (hlen : ds.length = f.mesh.ndim) :
    integrateSeq f ds = integrate f .none false := by
  suffices hok : ∃ r, integrateSeq f ds = .ok r by
    obtain ⟨r, hr⟩ := hok
    rw [hr, fubini f hf ds hlen r hr]
  induction ds generalizing f with
  | nil =>
    have := hf.1.1.1
    have h0 : f.mesh.ndim = f.mesh.region.pmin.length := rfl
    simp at hlen; omega
  | cons d ds ih =>
    have hd := hmem d (by simp)
    obtain ⟨hA, hB⟩ := integrate_dir_ok f hf hsubs d hd
    by_cases h1 : f.mesh.ndim = 1
    · obtain ⟨v, hv⟩ := hB h1
      have hds : ds = [] := by
        have : ds.length = 0 := by simp at hlen; omega
        exact List.eq_nil_of_length_eq_zero this
      subst hds
      unfold integrateSeq
      simp only [hv, List.isEmpty_nil, if_true]
      exact ⟨_, rfl⟩
    · have h2 : 2 ≤ f.mesh.ndim := by
        have := hf.1.1.1
        have h0 : f.mesh.ndim = f.mesh.region.pmin.length := rfl
        omega
      obtain ⟨g, hg, hgs⟩ := hA h2
      obtain ⟨ax, m', hax, _, hsel, hshape, hgeq⟩ := integrate_dir_unpack f d g hg
      obtain ⟨ax', hax', haxlt, hpmin, _, hdims, _, hn, hgshape, _⟩ := integrate_dir f hf d g hg
      rw [hax] at hax'; injection hax' with hax'; subst hax'
      have hgm : g.mesh = m' := by rw [hgeq]
      have hwf : WF g := ⟨by rw [hgm]; exact sel_inv f.mesh hf.1 d m' hsel, by rw [hgshape, hn]⟩
      have hlen' : ds.length = g.mesh.ndim := by
        have h1' : g.mesh.ndim = g.mesh.region.pmin.length := rfl
        have h2' : f.mesh.ndim = f.mesh.region.pmin.length := rfl
        rw [h1', hpmin, removeAt_length _ _ (by rw [← h2']; exact haxlt), ← h2', ← hlen]; simp
      obtain ⟨_, hdname⟩ := dim2index_ok _ _ _ hax
      have hmem' : ∀ d' ∈ ds, d' ∈ g.mesh.region.dims := by
        intro d' hd'
        rw [hdims]
        apply mem_removeAt _ _ _ (hmem d' (by simp [hd']))
        rw [hdname]
        intro heq
        subst heq
        exact (List.nodup_cons.mp hnd).1 hd'
      obtain ⟨r, hr⟩ := ih g hwf hgs (List.nodup_cons.mp hnd).2 hmem' hlen'
      unfold integrateSeq
      simp only [hg]
      exact ⟨r, hr⟩

/-- the cumulative integral succeeds for every direction of a well-formed field (any
number of dimensions, subregions or not) -/
theorem integrate_cum_ok (f : Fld) (hf : WF f) (d : String) (hd : d ∈ f.mesh.region.dims) :
    ∃ g, integrate f (.name d) true = .ok (.field g) := by
  obtain ⟨ax, hax⟩ := dim2index_of_mem _ _ hd
  have hshape : (cumAxis f.nvdim (f.mesh.cellAt ax) f.data ax).shape = f.mesh.n := hf.2
  unfold integrate
  simp only [hax, if_true, mkFld, hshape, ne_eq, not_true_eq_false, if_false]
  exact ⟨_, rfl⟩

/-- `mean(d)` succeeds for every direction of a well-formed field without subregions that
has at least two dimensions -/
theorem mean_dir_ok (f : Fld) (hf : WF f) (hsubs : f.mesh.subs = []) (h2 : 2 ≤ f.mesh.ndim) (d : String)
    (hd : d ∈ f.mesh.region.dims) : ∃ g, mean f (.name d) = .ok (.field g) := by
  obtain ⟨ax, hax⟩ := dim2index_of_mem _ _ hd
  obtain ⟨m', hsel, _⟩ := sel_ok f.mesh hf.1 hsubs h2 d ax hax
  obtain ⟨ax', hax', _, _, _, _, _, _, _, hn, _, _⟩ := sel_spec f.mesh hf.1 d m' hsel
  rw [hax] at hax'; injection hax' with hax'; subst hax'
  have hshape : (divBy f.nvdim ((f.data.shape.getD ax 0 : Nat) : Rat) (sumAxis f.nvdim f.data ax)).shape = m'.n := by
    show removeAt f.data.shape ax = _
    rw [hf.2, hn]
  unfold mean
  simp only [hax, hsel, mkFld, hshape, ne_eq, not_true_eq_false, if_false]
  exact ⟨_, rfl⟩

/-- one step of a direction-by-direction integration succeeds and keeps everything needed
for the next step -/
theorem step_ok (f : Fld) (hf : WF f) (hsubs : f.mesh.subs = []) (h2 : 2 ≤ f.mesh.ndim) (d : String)
    (hd : d ∈ f.mesh.region.dims) :
    ∃ g, integrate f (.name d) false = .ok (.field g) ∧ WF g ∧ g.mesh.subs = [] ∧
      g.mesh.ndim + 1 = f.mesh.ndim ∧
      ∀ d' ∈ f.mesh.region.dims, d' ≠ d → d' ∈ g.mesh.region.dims := by
  obtain ⟨g, hg, hgs⟩ := (integrate_dir_ok f hf hsubs d hd).1 h2
  obtain ⟨ax, m', hax, _, hsel, hshape, hgeq⟩ := integrate_dir_unpack f d g hg
  obtain ⟨ax', hax', haxlt, hpmin, _, hdims, _, hn, hgshape, _⟩ := integrate_dir f hf d g hg
  rw [hax] at hax'; injection hax' with hax'; subst hax'
  have hgm : g.mesh = m' := by rw [hgeq]
  have hwf : WF g := ⟨by rw [hgm]; exact sel_inv f.mesh hf.1 d m' hsel, by rw [hgshape, hn]⟩
  obtain ⟨_, hdname⟩ := dim2index_ok _ _ _ hax
  refine ⟨g, hg, hwf, hgs, ?_, ?_⟩
  · have h1' : g.mesh.ndim = g.mesh.region.pmin.length := rfl
    have h2' : f.mesh.ndim = f.mesh.region.pmin.length := rfl
    rw [h1', hpmin, removeAt_length _ _ (by rw [← h2']; exact haxlt), ← h2']
    omega
  · intro d' hd' hne
    rw [hdims]
    exact mem_removeAt _ _ _ hd' (by rw [hdname]; exact fun h => hne h.symm)

/-- Integrating over some (not all) of the directions one after the other succeeds, for every
order, on a well-formed field without subregions. -/
theorem integrateSeq_ok (f : Fld) (hf : WF f) (hsubs : f.mesh.subs = []) (ds : List String)
    (hnd : ds.Nodup) (hmem : ∀ d ∈ ds, d ∈ f.mesh.region.dims) (hlen : ds.length < f.mesh.ndim) :
    ∃ gi, integrateSeq f ds = .ok (.field gi) := by
  induction ds generalizing f with
  | nil => exact ⟨f, rfl⟩
  | cons d ds ih =>
    have hlen' : ds.length + 1 < f.mesh.ndim := by simpa using hlen
    obtain ⟨g, hg, hwf, hgs, hgnd, hgmem⟩ := step_ok f hf hsubs (by omega) d (hmem d (by simp))
    obtain ⟨hdn, hnd'⟩ := List.nodup_cons.mp hnd
    obtain ⟨gi, hgi⟩ := ih g hwf hgs hnd'
      (fun d' hd' => hgmem d' (hmem d' (by simp [hd'])) (fun h => hdn (h ▸ hd'))) (by omega)
    exact ⟨gi, by unfold integrateSeq; simp only [hg]; exact hgi⟩

/-- `mean(list)` over some (not all) of the directions succeeds, for every order, on a
well-formed field without subregions. -/
theorem mean_dirs_ok (f : Fld) (hf : WF f) (hsubs : f.mesh.subs = []) (ds : List String)
    (hnd : ds.Nodup) (hmem : ∀ d ∈ ds, d ∈ f.mesh.region.dims) (hlen : ds.length < f.mesh.ndim) :
    ∃ gm, mean f (.names ds) = .ok (.field gm) := by
  obtain ⟨gi, hgi⟩ := integrateSeq_ok f hf hsubs ds hnd hmem hlen
  obtain ⟨axes, C', hax, hselm, hinv, _⟩ := chain f hf ds f _ 1 gi (chainInv_init f hf) hgi
  rw [← keepMask_eq_foldl] at hinv
  obtain ⟨_, _, _, _, _, _, _, hn, _⟩ := hinv
  have hdup : hasDup ds = false := hasDup_of_nodup ds hnd
  have hnot : sameMultiset ds f.mesh.region.dims = false := by
    cases h : sameMultiset ds f.mesh.region.dims with
    | false => rfl
    | true =>
      have := ((sameMultiset_iff_perm _ _).mp h).length_eq
      have hdl : f.mesh.region.dims.length = f.mesh.ndim := hf.1.1.2.2.1
      omega
  have hshape : (meanAxes f.nvdim f.data axes).shape = gi.mesh.n := by
    show filterMask (keepMask f.data.shape.length axes) f.data.shape = _
    rw [hf.2, hn]
  unfold mean
  simp only [hdup, Bool.false_eq_true, if_false, hnot, hselm, hax, mkFld, hshape, ne_eq, not_true_eq_false]
  exact ⟨_, rfl⟩

/-- on a 1-d mesh `mean(d)` with a bare direction name is rejected (there is no 0-dimensional
mesh to return a field on; `mean([d])` and `mean()` return the array) -/
theorem mean_dir_1d_rejected (f : Fld) (hf : WF f) (h1 : f.mesh.ndim = 1) (d : String) (r : Res) :
    mean f (.name d) ≠ .ok r := by
  intro h
  obtain ⟨ax, m', _, hsel, _, _⟩ := mean_name_unpack f d r h
  obtain ⟨_, _, _, h2, _⟩ := sel_spec f.mesh hf.1 d m' hsel
  omega

/-! ## Refusals -/

/-- a cumulative integral over all directions is rejected -/
theorem cumulative_all_dirs_rejected (f : Fld) : integrate f .none true = .error .value := rfl

/-- `integrate` accepts only a single direction name -/
theorem integrate_rejects_non_string (f : Fld) (ds : List String) (cum : Bool) :
    integrate f (.names ds) cum = .error .type ∧ integrate f .other cum = .error .type := ⟨rfl, rfl⟩

/-- an unknown direction is rejected by `integrate` and `mean` -/
theorem unknown_direction_rejected (f : Fld) (d : String) (cum : Bool) (e : Err)
    (h : f.mesh.region.dim2index d = .error e) :
    integrate f (.name d) cum = .error e ∧ mean f (.name d) = .error e := by
  unfold integrate mean
  simp only [h]
  exact ⟨trivial, trivial⟩

/-- duplicate directions are rejected by `mean`; so is a direction that is neither a name
nor a list of names -/
theorem mean_rejects (f : Fld) (ds : List String) (h : hasDup ds = true) :
    mean f (.names ds) = .error .value ∧ mean f .other = .error .value := by
  unfold mean
  simp [h]

/-! ## Non-vacuity: the hypotheses of the theorems above are met by concrete fields
(`exFld`: 2×3 cells, two components; `exFld1`: 1-d, cells of length 1/2; `exFld3`: 2×2×3 cells
of sizes 1, 1/2, 2 — `DFV/Lemmas/C06Ok.lean`), and by every well-formed field without
subregions (theorems `…_ok`). -/

example : WF exFld ∧ WF exFld1 ∧ WF exFld3 := ⟨exFld_wf, exFld1_wf, exFld3_wf⟩

/-- hypotheses of `integrate_dir`, `cumulative_formula`, `cumulative_last`, `mean_dir_eq` -/
example : (∃ g, integrate exFld3 (.name "y") false = .ok (.field g)) ∧
    (∃ g, integrate exFld3 (.name "y") true = .ok (.field g)) ∧
    (∃ g, mean exFld3 (.name "y") = .ok (.field g)) :=
  ⟨by obtain ⟨g, h, _⟩ := (integrate_dir_ok exFld3 exFld3_wf rfl "y" (by decide)).1 (by decide); exact ⟨g, h⟩,
   integrate_cum_ok exFld3 exFld3_wf "y" (by decide),
   mean_dir_ok exFld3 exFld3_wf rfl (by decide) "y" (by decide)⟩

/-- hypotheses of `integrate_dir_1d`, `cumulative_last_1d` -/
example : (∃ v, integrate exFld1 (.name "x") false = .ok (.vals v)) ∧
    (∃ g, integrate exFld1 (.name "x") true = .ok (.field g)) :=
  ⟨(integrate_dir_ok exFld1 exFld1_wf rfl "x" (by decide)).2 rfl, integrate_cum_ok exFld1 exFld1_wf "x" (by decide)⟩

/-- `fubini` / `fubini_total`: all six orders of three directions -/
example : ∀ ds ∈ [["x", "y", "z"], ["x", "z", "y"], ["y", "x", "z"], ["y", "z", "x"], ["z", "x", "y"], ["z", "y", "x"]],
    integrateSeq exFld3 ds = integrate exFld3 .none false := by
  intro ds hds
  simp only [List.mem_cons, List.mem_nil_iff, or_false] at hds
  rcases hds with rfl | rfl | rfl | rfl | rfl | rfl <;>
    exact fubini_total exFld3 exFld3_wf rfl _ (by decide) (by decide) rfl

/-- hypotheses of `mean_dirs_eq`: a proper subset of the directions, in an order that is not
the storage order -/
example : (∃ gm, mean exFld3 (.names ["z", "x"]) = .ok (.field gm)) ∧
    (∃ gi, integrateSeq exFld3 ["z", "x"] = .ok (.field gi)) :=
  ⟨mean_dirs_ok exFld3 exFld3_wf rfl _ (by decide) (by decide) (by decide),
   integrateSeq_ok exFld3 exFld3_wf rfl _ (by decide) (by decide) (by decide)⟩

/-- `mean_all_named`: a permutation of the directions -/
example : mean exFld (.names ["y", "x"]) = mean exFld .none :=
  mean_all_named exFld exFld_wf _ (List.Perm.swap "x" "y" [])

/-- hypotheses of `integrate_linear` (two fields on one mesh), `integrate_componentwise`,
`integrate_translation_invariant` (the moved field is well formed and its integrals exist) -/
example : ∃ rf rg r', integrate exFld (.name "x") false = .ok rf ∧
    integrate (lin 2 exFld (-3) exFld) (.name "x") false = .ok rg ∧
    integrate (translate [5, -7/2] exFld) (.name "x") false = .ok r' := by
  obtain ⟨g1, h1, _⟩ := (integrate_dir_ok exFld exFld_wf rfl "x" (by decide)).1 (by decide)
  obtain ⟨g2, h2, _⟩ := (integrate_dir_ok (lin 2 exFld (-3) exFld) ⟨exFld_wf.1, exFld_wf.2⟩ rfl "x" (by decide)).1 (by decide)
  obtain ⟨g3, h3, _⟩ := (integrate_dir_ok (translate [5, -7/2] exFld) (translate_wf _ _ exFld_wf) rfl "x" (by decide)).1 (by decide)
  exact ⟨_, _, _, h1, h2, h3⟩

/-- refusals are reached: an unknown name, a duplicate -/
example : exFld.mesh.region.dim2index "q" = .error .value ∧ hasDup ["x", "y", "x"] = true := ⟨by decide, by decide⟩

end DFV.C06
