import DFV.Lemmas.C06MeanSeq
/-!
# C06 — integrals and means are cell sums times cell measure, consistent across axes

Property theorems about the model of `Field.integrate`, `Field.mean`, `Mesh.sel(dim)` and
`Mesh.dV` (`DFV/Model/C06.lean`).  Number of dimensions, shape, cell sizes, position of the
mesh, number of components, data, direction and order of directions are universally
quantified.  `WF f` = the mesh satisfies `Mesh.Inv` and the value array has the mesh's shape.
`cget a i c` is component `c` of cell `i`; `sumTo n x = x 0 + … + x (n-1)`;
`nestSum shape g` is the sum of `g` over all multi-indices of the shape.
-/
namespace DFV.C06
open DFV

/-! ## The integral over all directions -/

/-- `integrate()` is, per component, the cell volume times the sum of all cell values
(the model sums NumPy's flat buffer; the theorem turns it into the sum over all
multi-indices, for every shape). -/
theorem integrate_all (f : Fld) :
    integrate f .none false
      = .ok (.vals (tab f.nvdim fun c => dV f.mesh * nestSum f.data.shape fun i => cget f.data i c)) := by
  unfold integrate
  simp only [Bool.false_eq_true, if_false]
  congr 2
  apply tab_congr
  intro c _
  unfold sumAll NDA.toList
  rw [List.map_map, lsum_indicesC, mul_comm]
  rfl

/-- the cell volume is the product over the axes of edge length / cell count -/
theorem dV_eq (m : Mesh) : dV m = ratProd (tab m.ndim fun a => m.region.edge a / (m.nAt a : Rat)) := rfl

/-- cell volume × number of cells = volume of the region -/
theorem dV_times_cells (m : Mesh) (hm : m.Inv) :
    dV m * (natProd m.n : Rat) = ratProd m.region.edges := dV_mul_count m hm

/-! ## Directional integrals live on the mesh with that axis removed -/

/-- `integrate(d)` (more than one dimension): the result lives on the mesh with the axis of
`d` removed — corners, dims, units and cell counts of the remaining axes unchanged — keeps
labels and mapping, drops the unit, is valid everywhere, and its value at the reduced index
`i` is the cell length of that axis times the sum along that axis. -/
theorem integrate_dir (f : Fld) (hf : WF f) (d : String) (g : Fld)
    (h : integrate f (.name d) false = .ok (.field g)) :
    ∃ ax, f.mesh.region.dim2index d = .ok ax ∧ ax < f.mesh.ndim ∧
      g.mesh.region.pmin = removeAt f.mesh.region.pmin ax ∧
      g.mesh.region.pmax = removeAt f.mesh.region.pmax ax ∧
      g.mesh.region.dims = removeAt f.mesh.region.dims ax ∧
      g.mesh.region.units = removeAt f.mesh.region.units ax ∧
      g.mesh.n = removeAt f.mesh.n ax ∧ g.data.shape = removeAt f.mesh.n ax ∧
      g.nvdim = f.nvdim ∧ g.vdims = f.vdims ∧ g.vmap = f.vmap ∧ g.unit = none ∧
      (∀ i, g.valid.get i = true) ∧
      ∀ i c, inRange (removeAt f.mesh.n ax) i = true → c < f.nvdim →
        cget g.data i c = f.mesh.cellAt ax * sumTo (f.mesh.nAt ax) fun j => cget f.data (insertAt i ax j) c :=
  integrate_dir_spec f hf d g h

/-- on a 1-d mesh `integrate(d)` returns the bare array: cell length × sum of the cells -/
theorem integrate_dir_1d (f : Fld) (hf : WF f) (d : String) (v : List Rat)
    (h : integrate f (.name d) false = .ok (.vals v)) :
    f.mesh.ndim = 1 ∧ f.mesh.region.dim2index d = .ok 0 ∧
    v = tab f.nvdim fun c => f.mesh.cellAt 0 * sumTo (f.mesh.nAt 0) fun j => cget f.data [j] c := by
  obtain ⟨ax, hax, h1, hv⟩ := integrate_dir_1d_unpack f d v h
  obtain ⟨haxlt, _⟩ := dim2index_ok _ _ _ hax
  have hdl : f.mesh.region.dims.length = f.mesh.ndim := hf.1.1.2.2.1
  have hax0 : ax = 0 := by omega
  subst hax0
  refine ⟨h1, hax, ?_⟩
  rw [hv]
  simp only [scaleBy, sumAxis]
  apply tab_congr
  intro c hc
  simp only [cget]
  rw [getD_tab _ _ _ _ hc, mul_comm, hf.2]
  rfl

/-- The cell measure is consistent across axis removal: the reduced mesh `integrate(d)` /
`mean(d)` / `Mesh.sel(d)` return has the cell lengths of the remaining axes (`skip ax a` is the
original position of the reduced mesh's axis `a`), and the cell volume of the original mesh is
the cell length of the removed axis times the cell volume of the reduced mesh. -/
theorem reduced_mesh_cells (m : Mesh) (hm : m.Inv) (d : String) (m' : Mesh) (h : sel m d = .ok m') :
    ∃ ax, m.region.dim2index d = .ok ax ∧ (∀ a, m'.cellAt a = m.cellAt (skip ax a)) ∧
      dV m = m.cellAt ax * dV m' ∧ m'.Inv := by
  obtain ⟨ax, hax, _⟩ := sel_spec m hm d m' h
  exact ⟨ax, hax, fun a => sel_cellAt m hm d m' h ax hax a, sel_dV m hm d m' h ax hax, sel_inv m hm d m' h⟩

/-! ## Fubini: any order of directions gives the volume integral -/

/-- Integrating direction by direction, in ANY order `ds` of all the directions (each step on
the mesh the previous step returned, the last step on a 1-d mesh returning the bare array),
gives exactly `integrate()`.  Induction over the list of directions; each step removes one
axis of the nested sum and one factor of the cell volume. -/
theorem fubini (f : Fld) (hf : WF f) (ds : List String) (hlen : ds.length = f.mesh.ndim) (r : Res)
    (h : integrateSeq f ds = .ok r) : integrate f .none false = .ok r := by
  induction ds generalizing f with
  | nil =>
    have := hf.1.1.1
    have h0 : f.mesh.ndim = f.mesh.region.pmin.length := rfl
    simp at hlen; omega
  | cons d ds ih =>
    unfold integrateSeq at h
    split at h
    · cases h
    · rename_i v hv
      split at h
      · injection h with h; subst h
        obtain ⟨h1, hax0, hvv⟩ := integrate_dir_1d f hf d v hv
        rw [integrate_all, hvv]
        congr 2
        apply tab_congr
        intro c _
        have hlen1 : f.mesh.n.length = 1 := by rw [hf.1.2.1]; exact h1
        have hcell : f.mesh.cell = [f.mesh.cellAt 0] := by
          unfold Mesh.cell; rw [h1]; rfl
        unfold dV
        rw [hcell, hf.2]
        match hn : f.mesh.n, hlen1 with
        | [k], _ =>
          have : f.mesh.nAt 0 = k := by unfold Mesh.nAt; rw [hn]; rfl
          rw [this]
          simp [nestSum, ratProd]
      · cases h
    · rename_i g hg
      obtain ⟨ax, m', hax, _, hsel, hshape, hgeq⟩ := integrate_dir_unpack f d g hg
      obtain ⟨ax', hax', haxlt, hpmin, _, _, _, hn, hgshape, hnv, _, _, _, _, hval⟩ := integrate_dir f hf d g hg
      rw [hax] at hax'; injection hax' with hax'; subst hax'
      have hgm : g.mesh = m' := by rw [hgeq]
      have hwf : WF g := ⟨by rw [hgm]; exact sel_inv f.mesh hf.1 d m' hsel, by rw [hgshape, hn]⟩
      have hlen' : ds.length = g.mesh.ndim := by
        have h1 : g.mesh.ndim = g.mesh.region.pmin.length := rfl
        have h2 : f.mesh.ndim = f.mesh.region.pmin.length := rfl
        rw [h1, hpmin, removeAt_length _ _ (by rw [← h2]; exact haxlt), ← h2, ← hlen]; simp
      have := ih g hwf hlen' h
      rw [← this, integrate_all, integrate_all, hnv]
      congr 2
      apply tab_congr
      intro c hc
      rw [hgshape, sel_dV f.mesh hf.1 d m' hsel ax hax, hgm]
      rw [nestSum_congr _ _ _ (fun i hi => hval i c hi hc), nestSum_mul_left, hf.2,
        ← nestSum_removeAt f.mesh.n ax (by rw [hf.1.2.1]; exact haxlt)]
      unfold Mesh.nAt
      ring

/-! ## The cumulative integral -/

/-- `integrate(d, cumulative=True)`: same mesh, and the entry at cell `i` is the cell length
times (the sum of the cells before it along the axis plus half its own value). -/
theorem cumulative_formula (f : Fld) (d : String) (r : Res)
    (h : integrate f (.name d) true = .ok r) :
    ∃ ax g, f.mesh.region.dim2index d = .ok ax ∧ r = .field g ∧ g.mesh = f.mesh ∧
      g.data.shape = f.data.shape ∧ g.nvdim = f.nvdim ∧ g.unit = none ∧
      ∀ i c, inRange f.data.shape i = true → c < f.nvdim →
        cget g.data i c = f.mesh.cellAt ax *
          (sumTo (i.getD ax 0) (fun l => cget f.data (setAt i ax l) c) + cget f.data i c / 2) := by
  obtain ⟨ax, hax, _, hr⟩ := integrate_cum_unpack f d r h
  refine ⟨ax, _, hax, hr, rfl, rfl, rfl, rfl, ?_⟩
  intro i c hi hc
  simp only
  rw [cget_force (cumAxis f.nvdim (f.mesh.cellAt ax) f.data ax) i c hi, cget_cumAxis _ _ _ _ _ _ hc]
  split
  · rename_i h0
    rw [h0]; simp only [sumTo]; ring
  · rename_i h0
    rw [cumTo_eq]
    have : i.getD ax 0 - 1 + 1 = i.getD ax 0 := by omega
    rw [this]; ring

/-- The first cumulative entry along the axis is half the first cell times the cell length. -/
theorem cumulative_first (f : Fld) (d : String) (g : Fld) (h : integrate f (.name d) true = .ok (.field g)) :
    ∃ ax, f.mesh.region.dim2index d = .ok ax ∧
      ∀ i c, inRange f.data.shape i = true → i.getD ax 0 = 0 → c < f.nvdim →
        cget g.data i c = f.mesh.cellAt ax * (cget f.data i c / 2) := by
  obtain ⟨ax, g', hax, hr, _, _, _, _, hcum⟩ := cumulative_formula f d _ h
  injection hr with hr; subst hr
  refine ⟨ax, hax, ?_⟩
  intro i c hi h0 hc
  rw [hcum i c hi hc, h0]
  simp only [sumTo]
  ring

/-- Trapezoid rule: consecutive cumulative entries along the axis differ by the cell length
times the average of the two cell values — the cumulative integral is the discrete
antiderivative that puts half of every cell on either side of its centre. -/
theorem cumulative_step (f : Fld) (d : String) (g : Fld) (h : integrate f (.name d) true = .ok (.field g)) :
    ∃ ax, f.mesh.region.dim2index d = .ok ax ∧
      ∀ i c, inRange f.data.shape i = true → i.getD ax 0 + 1 < f.data.shape.getD ax 0 → c < f.nvdim →
        cget g.data (setAt i ax (i.getD ax 0 + 1)) c - cget g.data i c
          = f.mesh.cellAt ax * ((cget f.data i c + cget f.data (setAt i ax (i.getD ax 0 + 1)) c) / 2) := by
  obtain ⟨ax, g', hax, hr, _, _, _, _, hcum⟩ := cumulative_formula f d _ h
  injection hr with hr; subst hr
  refine ⟨ax, hax, ?_⟩
  intro i c hi hlt hc
  have haxs : ax < f.data.shape.length := lt_length_of_getD_pos _ _ (by omega)
  have haxi : ax < i.length := by rw [inRange_length _ _ hi]; exact haxs
  have hi' : inRange f.data.shape (setAt i ax (i.getD ax 0 + 1)) = true := inRange_setAt _ _ _ _ hi hlt
  rw [hcum _ c hi' hc, hcum i c hi hc, getD_setAt_self i ax _ haxi]
  simp only [setAt_setAt, sumTo]
  rw [setAt_getD_self]
  ring

/-- The last cumulative entry plus half the last cell is the directional integral. -/
theorem cumulative_last (f : Fld) (hf : WF f) (d : String) (gc gd : Fld)
    (hc : integrate f (.name d) true = .ok (.field gc))
    (hd : integrate f (.name d) false = .ok (.field gd)) :
    ∃ ax, f.mesh.region.dim2index d = .ok ax ∧
      ∀ i c, inRange f.mesh.n i = true → i.getD ax 0 = f.mesh.nAt ax - 1 → c < f.nvdim →
        cget gc.data i c + f.mesh.cellAt ax * (cget f.data i c / 2) = cget gd.data (removeAt i ax) c := by
  obtain ⟨ax, g, hax, hr, _, _, _, _, hcum⟩ := cumulative_formula f d _ hc
  injection hr with hr; subst hr
  obtain ⟨ax', hax', haxlt, _, _, _, _, _, _, _, _, _, _, _, hdir⟩ := integrate_dir f hf d gd hd
  rw [hax] at hax'; injection hax' with hax'; subst hax'
  refine ⟨ax, hax, ?_⟩
  intro i c hi hlast hcn
  have hilen : i.length = f.mesh.n.length := inRange_length _ _ hi
  have haxi : ax < i.length := by rw [hilen, hf.1.2.1]; exact haxlt
  have hnpos : 0 < f.mesh.nAt ax := hf.1.2.2 ax haxlt
  rw [hcum i c (by rw [hf.2]; exact hi) hcn, hdir (removeAt i ax) c (inRange_removeAt _ _ _ hi) hcn]
  have hsplit : f.mesh.nAt ax = i.getD ax 0 + 1 := by omega
  rw [hsplit]
  simp only [sumTo]
  rw [insertAt_removeAt i ax _ haxi, setAt_getD_self]
  have hcong : sumTo (i.getD ax 0) (fun j => cget f.data (insertAt (removeAt i ax) ax j) c)
      = sumTo (i.getD ax 0) (fun l => cget f.data (setAt i ax l) c) :=
    sumTo_congr _ _ _ fun j _ => by rw [insertAt_removeAt i ax j haxi]
  rw [hcong]; ring

/-- 1-d form: the bare array returned by `integrate(d)` is the last cumulative entry plus
half the last cell. -/
theorem cumulative_last_1d (f : Fld) (hf : WF f) (d : String) (gc : Fld) (v : List Rat)
    (hc : integrate f (.name d) true = .ok (.field gc))
    (hd : integrate f (.name d) false = .ok (.vals v)) (c : Nat) (hcn : c < f.nvdim) :
    cget gc.data [f.mesh.nAt 0 - 1] c + f.mesh.cellAt 0 * (cget f.data [f.mesh.nAt 0 - 1] c / 2) = v.getD c 0 := by
  obtain ⟨h1, hax0, hv⟩ := integrate_dir_1d f hf d v hd
  obtain ⟨ax, g, hax, hr, _, _, _, _, hcum⟩ := cumulative_formula f d _ hc
  injection hr with hr; subst hr
  rw [hax0] at hax; injection hax with hax; subst hax
  have hnpos : 0 < f.mesh.nAt 0 := hf.1.2.2 0 (by omega)
  have hlen : f.mesh.n.length = 1 := by rw [hf.1.2.1]; exact h1
  have hin : inRange f.data.shape [f.mesh.nAt 0 - 1] = true := by
    rw [hf.2]
    match hn : f.mesh.n, hlen with
    | [k], _ =>
      have : f.mesh.nAt 0 = k := by unfold Mesh.nAt; rw [hn]; rfl
      simp [inRange]; omega
  rw [hcum _ c hin hcn, hv, getD_tab _ _ _ _ hcn]
  have hsplit : f.mesh.nAt 0 = (f.mesh.nAt 0 - 1) + 1 := by omega
  conv_rhs => rw [hsplit]
  simp only [sumTo, List.getD_cons_zero, setAt]
  ring

/-! ## Means are integrals divided by the integrated extent -/

/-- `mean()` is the integral over all directions divided by the volume of the region. -/
theorem mean_all_eq (f : Fld) (hf : WF f) :
    mean f .none = .ok (.vals (tab f.nvdim fun c =>
      (dV f.mesh * nestSum f.data.shape fun i => cget f.data i c) / ratProd f.mesh.region.edges)) := by
  unfold mean
  simp only
  congr 2
  unfold meanAll
  apply tab_congr
  intro c _
  unfold sumAll NDA.toList
  rw [List.map_map, lsum_indicesC, ← dV_mul_count f.mesh hf.1, hf.2]
  have hd := dV_pos f.mesh hf.1
  have hn : (0 : Rat) < (natProd f.mesh.n : Rat) := by
    have : 0 < natProd f.mesh.n := by
      apply natProd_pos
      intro k hk
      obtain ⟨a, ha, rfl⟩ := List.getElem_of_mem hk
      have := hf.1.2.2 a (by show a < f.mesh.region.ndim; rw [← hf.1.2.1]; exact ha)
      unfold Mesh.nAt at this
      simpa [List.getD_eq_getElem?_getD, ha] using this
    exact_mod_cast this
  have e : ((fun v : List Rat => v.getD c 0) ∘ f.data.get) = fun i => cget f.data i c := rfl
  rw [e]
  field_simp

/-- `mean(d)` is `integrate(d)` divided by the edge length along `d`, on the same reduced
mesh; the unit is kept. -/
theorem mean_dir_eq (f : Fld) (hf : WF f) (d : String) (gi : Fld) (r : Res)
    (hi : integrate f (.name d) false = .ok (.field gi)) (hm : mean f (.name d) = .ok r) :
    ∃ ax gm, f.mesh.region.dim2index d = .ok ax ∧ r = .field gm ∧ gm.mesh = gi.mesh ∧
      gm.data.shape = gi.data.shape ∧ gm.unit = f.unit ∧ gm.vdims = f.vdims ∧ gm.vmap = f.vmap ∧
      ∀ i c, inRange (removeAt f.mesh.n ax) i = true → c < f.nvdim →
        cget gm.data i c = cget gi.data i c / f.mesh.region.edge ax := by
  obtain ⟨ax, m', hax, _, hsel, hshape, hg⟩ := integrate_dir_unpack f d gi hi
  obtain ⟨ax', m'', hax', hsel', _, hr⟩ := mean_name_unpack f d r hm
  rw [hax] at hax'; injection hax' with hax'; subst hax'
  rw [hsel] at hsel'; injection hsel' with hsel'; subst hsel'
  obtain ⟨_, _, haxlt, _⟩ := sel_spec f.mesh hf.1 d m' hsel
  have haxlt : ax < f.mesh.ndim := by
    obtain ⟨ax2, hax2, hlt, _⟩ := sel_spec f.mesh hf.1 d m' hsel
    rw [hax] at hax2; injection hax2 with hax2; subst hax2; exact hlt
  subst hg
  refine ⟨ax, _, hax, hr, rfl, rfl, rfl, rfl, rfl, ?_⟩
  intro i c hin hc
  have hi1 : inRange (removeAt f.data.shape ax) i = true := by rw [hf.2]; exact hin
  simp only
  rw [cget_force _ _ _ (by exact hi1), cget_force _ _ _ (by exact hi1), cget_divBy _ _ _ _ _ hc,
    cget_scaleBy _ _ _ _ _ hc, hf.2, ← cells_cover f.mesh hf.1 ax haxlt]
  have hn : ((f.mesh.nAt ax : Nat) : Rat) ≠ 0 := by
    exact_mod_cast (Nat.pos_iff_ne_zero.mp (hf.1.2.2 ax haxlt))
  have hcp := cell_pos' f.mesh hf.1 ax haxlt
  show _ / ((f.mesh.nAt ax : Nat) : Rat) = _
  field_simp

/-- `sorted(a) == sorted(b)` holds exactly for permutations -/
theorem sameMultiset_iff_perm (a b : List String) : sameMultiset a b = true ↔ a.Perm b := by
  unfold sameMultiset
  rw [List.perm_iff_count]
  simp only [Bool.and_eq_true, List.all_eq_true, beq_iff_eq]
  constructor
  · intro ⟨h1, h2⟩ x
    by_cases hxa : x ∈ a
    · exact h1 x hxa
    · by_cases hxb : x ∈ b
      · exact h2 x hxb
      · rw [List.count_eq_zero_of_not_mem hxa, List.count_eq_zero_of_not_mem hxb]
  · intro h
    exact ⟨fun x _ => h x, fun x _ => h x⟩

/-- Listing all directions, in any order, is the mean over everything: the integral over all
directions divided by the volume of the region. -/
theorem mean_all_named (f : Fld) (hf : WF f) (ds : List String) (hp : ds.Perm f.mesh.region.dims) :
    mean f (.names ds) = mean f .none := by
  have hnd : ds.Nodup := hp.nodup_iff.mpr (nodup_of_hasDup _ hf.1.1.2.2.2.2.1)
  have hdup : hasDup ds = false := hasDup_of_nodup ds hnd
  unfold mean
  simp only [hdup, Bool.false_eq_true, if_false, (sameMultiset_iff_perm _ _).mpr hp, if_true]

/-- `mean(list of directions)` (a proper subset, in any order) is the result of integrating
over those directions one after the other — in that order — divided by the product of their
edge lengths; both live on the same reduced mesh. -/
theorem mean_dirs_eq (f : Fld) (hf : WF f) (ds : List String) (gm gi : Fld)
    (hm : mean f (.names ds) = .ok (.field gm)) (hi : integrateSeq f ds = .ok (.field gi)) :
    gm.mesh = gi.mesh ∧ gm.data.shape = gi.data.shape ∧ gm.nvdim = f.nvdim ∧ gm.unit = f.unit ∧
    ∀ i c, inRange gi.data.shape i = true → c < f.nvdim →
      cget gm.data i c = cget gi.data i c / extent f.mesh.region ds := by
  obtain ⟨_, m', axes, hselm, hax, hshape, hgm⟩ := mean_names_unpack f ds gm hm
  obtain ⟨axes', C', hax', hselm', hinv, hprod⟩ := chain f hf ds f _ 1 gi (chainInv_init f hf) hi
  rw [hax] at hax'; injection hax' with hax'; subst hax'
  rw [hselm] at hselm'; injection hselm' with hselm'
  rw [← keepMask_eq_foldl, dropProd_allTrue] at hprod
  rw [← keepMask_eq_foldl] at hinv
  obtain ⟨hwgi, _, _, hCpos, _, _, _, hn, hval⟩ := hinv
  have hgish : gi.data.shape = gi.mesh.n := hwgi.2
  subst hgm
  refine ⟨hselm', ?_, rfl, rfl, ?_⟩
  · show (meanAxes f.nvdim f.data axes).shape = _
    rw [hshape, hselm', hgish]
  · intro i c hin hc
    have hin' : inRange (meanAxes f.nvdim f.data axes).shape i = true := by
      rw [hshape, hselm', ← hgish]; exact hin
    simp only
    rw [cget_force _ _ _ hin', cget_meanAxes _ _ _ _ _ hc, hval i c (by rw [← hgish]; exact hin) hc, hf.2]
    have hD : (0 : Rat) < (dropProd (keepMask f.mesh.n.length axes) f.mesh.n : Rat) := by
      have : 0 < dropProd (keepMask f.mesh.n.length axes) f.mesh.n := by
        apply dropProd_pos
        intro k hk
        obtain ⟨a, ha, rfl⟩ := List.getElem_of_mem hk
        have := hf.1.2.2 a (by show a < f.mesh.region.ndim; rw [← hf.1.2.1]; exact ha)
        unfold Mesh.nAt at this
        simpa [List.getD_eq_getElem?_getD, ha] using this
      exact_mod_cast this
    have hprod' : extent f.mesh.region ds = C' * (dropProd (keepMask f.mesh.n.length axes) f.mesh.n : Rat) := by
      rw [hprod]; ring
    rw [hprod']
    field_simp

/-! ## Every form at once; linear, per component, independent of the mesh position -/

/-- every successful `integrate` returns the spec values on the spec shape -/
theorem integrate_vals (f : Fld) (hf : WF f) (dir : Dir) (cum : Bool) (r : Res)
    (h : integrate f dir cum = .ok r) :
    r.nv = f.nvdim ∧ r.shape = ishape f dir cum ∧
    ∀ i c, inRange r.shape i = true → c < f.nvdim → r.cval i c = ival f dir cum i c := by
  cases dir with
  | none =>
    cases cum with
    | true => cases h
    | false =>
      rw [integrate_all] at h
      injection h with h; subst h
      refine ⟨by simp [Res.nv], rfl, ?_⟩
      intro i c _ hc
      simp only [Res.cval, ival]
      rw [getD_tab _ _ _ _ hc]
  | name d =>
    cases cum with
    | true =>
      obtain ⟨ax, g, hax, hr, _, hs, hnv, _, hval⟩ := cumulative_formula f d r h
      subst hr
      refine ⟨hnv, ?_, ?_⟩
      · simp only [Res.shape, ishape, hax, if_true]; rw [hs, hf.2]
      · intro i c hi hc
        simp only [Res.cval, ival, hax, if_true]
        exact hval i c (by simpa [Res.shape, hs] using hi) hc
    | false =>
      cases r with
      | vals v =>
        obtain ⟨h1, hax, hv⟩ := integrate_dir_1d f hf d v h
        have hlen1 : f.mesh.n.length = 1 := by rw [hf.1.2.1]; exact h1
        refine ⟨by rw [hv]; simp [Res.nv], ?_, ?_⟩
        · simp only [Res.shape, ishape, hax, Bool.false_eq_true, if_false]
          match hn : f.mesh.n, hlen1 with
          | [k], _ => rfl
        · intro i c hi hc
          have := inRange_nil_iff i hi
          subst this
          simp only [Res.cval, ival, hax, Bool.false_eq_true, if_false, insertAt_zero]
          rw [hv, getD_tab _ _ _ _ hc]
      | field g =>
        obtain ⟨ax, hax, _, _, _, _, _, _, hs, hnv, _, _, _, _, hval⟩ := integrate_dir f hf d g h
        refine ⟨hnv, ?_, ?_⟩
        · simp only [Res.shape, ishape, hax, Bool.false_eq_true, if_false]; exact hs
        · intro i c hi hc
          simp only [Res.cval, ival, hax, Bool.false_eq_true, if_false]
          exact hval i c (by simpa [Res.shape, hs] using hi) hc
  | names ds => cases h
  | other => cases h

/-- whether `integrate` succeeds, and on which mesh the result lives, depends only on the
mesh and the shape of the value array -/
theorem integrate_frame (f f' : Fld) (hm : f'.mesh = f.mesh) (hs : f'.data.shape = f.data.shape)
    (dir : Dir) (cum : Bool) (r : Res) (h : integrate f dir cum = .ok r) :
    ∃ r', integrate f' dir cum = .ok r' ∧ r'.mesh? = r.mesh? := by
  cases dir with
  | none =>
    cases cum with
    | true => cases h
    | false =>
      unfold integrate at h
      simp only [Bool.false_eq_true, if_false] at h
      injection h with h; subst h
      exact ⟨_, rfl, rfl⟩
  | name d =>
    cases cum with
    | true =>
      obtain ⟨ax, hax, hshape, hr⟩ := integrate_cum_unpack f d r h
      subst hr
      refine ⟨.field { mesh := f.mesh, nvdim := f'.nvdim,
                       data := (cumAxis f'.nvdim (f.mesh.cellAt ax) f'.data ax).force [],
                       valid := NDA.const f.mesh.n true, vdims := f'.vdims, vmap := f'.vmap, unit := none }, ?_, rfl⟩
      unfold integrate
      simp only [hm, hax, if_true]
      have : mkFld f.mesh f'.nvdim (cumAxis f'.nvdim (f.mesh.cellAt ax) f'.data ax) f'.vdims f'.vmap none
          = .ok { mesh := f.mesh, nvdim := f'.nvdim,
                  data := (cumAxis f'.nvdim (f.mesh.cellAt ax) f'.data ax).force [],
                  valid := NDA.const f.mesh.n true, vdims := f'.vdims, vmap := f'.vmap, unit := none } := by
        unfold mkFld
        have : (cumAxis f'.nvdim (f.mesh.cellAt ax) f'.data ax).shape = f.mesh.n := by
          show f'.data.shape = _
          rw [hs, hshape]
        simp [this]
      rw [this]
    | false =>
      cases r with
      | vals v =>
        obtain ⟨ax, hax, h1, _⟩ := integrate_dir_1d_unpack f d v h
        refine ⟨.vals ((scaleBy f'.nvdim (f.mesh.cellAt ax) (sumAxis f'.nvdim f'.data ax)).get []), ?_, rfl⟩
        unfold integrate
        simp only [hm, hax, Bool.false_eq_true, if_false, h1, if_true]
      | field g =>
        obtain ⟨ax, m', hax, hne1, hsel, hshape, hg⟩ := integrate_dir_unpack f d g h
        subst hg
        refine ⟨.field { mesh := m', nvdim := f'.nvdim,
                         data := (scaleBy f'.nvdim (f.mesh.cellAt ax) (sumAxis f'.nvdim f'.data ax)).force [],
                         valid := NDA.const m'.n true, vdims := f'.vdims, vmap := f'.vmap, unit := none }, ?_, rfl⟩
        unfold integrate
        simp only [hm, hax, Bool.false_eq_true, if_false, hne1, hsel]
        have : mkFld m' f'.nvdim (scaleBy f'.nvdim (f.mesh.cellAt ax) (sumAxis f'.nvdim f'.data ax)) f'.vdims f'.vmap none
            = .ok { mesh := m', nvdim := f'.nvdim,
                    data := (scaleBy f'.nvdim (f.mesh.cellAt ax) (sumAxis f'.nvdim f'.data ax)).force [],
                    valid := NDA.const m'.n true, vdims := f'.vdims, vmap := f'.vmap, unit := none } := by
          unfold mkFld
          have : (scaleBy f'.nvdim (f.mesh.cellAt ax) (sumAxis f'.nvdim f'.data ax)).shape = m'.n := by
            show removeAt f'.data.shape ax = _
            rw [hs, hshape]
          simp [this]
        rw [this]
  | names ds => cases h
  | other => cases h

/-- All forms of `integrate` are linear in the field: for two fields on the same mesh the
integral of `α·f + β·g` exists whenever those of `f` and `g` do, lives on the same mesh and
equals `α·∫f + β·∫g` entry by entry. -/
theorem integrate_linear (α β : Rat) (f g : Fld) (hf : WF f) (hm : g.mesh = f.mesh)
    (hn : g.nvdim = f.nvdim) (hs : g.data.shape = f.data.shape) (dir : Dir) (cum : Bool) (rf rg : Res)
    (h1 : integrate f dir cum = .ok rf) (h2 : integrate g dir cum = .ok rg) :
    ∃ r, integrate (lin α f β g) dir cum = .ok r ∧ r.mesh? = rf.mesh? ∧ r.shape = rf.shape ∧
      ∀ i c, inRange r.shape i = true → c < f.nvdim →
        r.cval i c = α * rf.cval i c + β * rg.cval i c := by
  obtain ⟨r, hr, hmesh⟩ := integrate_frame f (lin α f β g) rfl rfl dir cum rf h1
  have hwl : WF (lin α f β g) := ⟨hf.1, hf.2⟩
  have hwg : WF g := ⟨by rw [hm]; exact hf.1, by rw [hs, hm]; exact hf.2⟩
  obtain ⟨_, hsl, hvl⟩ := integrate_vals _ hwl dir cum r hr
  obtain ⟨_, hsf, hvf⟩ := integrate_vals f hf dir cum rf h1
  obtain ⟨_, hsg, hvg⟩ := integrate_vals g hwg dir cum rg h2
  have hss : r.shape = rf.shape := by rw [hsl, hsf]; rfl
  have hsg' : rg.shape = rf.shape := by rw [hsg, hsf]; unfold ishape; rw [hm]
  refine ⟨r, hr, hmesh, hss, ?_⟩
  intro i c hi hc
  rw [hvl i c hi hc, hvf i c (by rw [← hss]; exact hi) hc,
    hvg i c (by rw [hsg', ← hss]; exact hi) (by rw [hn]; exact hc)]
  exact ival_lin α β f g hm hs dir cum i c hc

/-- All forms of `integrate` act per component: integrating the scalar field of component
`c` gives component `c` of the integral, on the same mesh. -/
theorem integrate_componentwise (f : Fld) (hf : WF f) (c : Nat) (hc : c < f.nvdim) (dir : Dir) (cum : Bool)
    (rf : Res) (h : integrate f dir cum = .ok rf) :
    ∃ r, integrate (compFld f c) dir cum = .ok r ∧ r.mesh? = rf.mesh? ∧ r.shape = rf.shape ∧ r.nv = 1 ∧
      ∀ i, inRange r.shape i = true → r.cval i 0 = rf.cval i c := by
  obtain ⟨r, hr, hmesh⟩ := integrate_frame f (compFld f c) rfl rfl dir cum rf h
  have hwc : WF (compFld f c) := ⟨hf.1, hf.2⟩
  obtain ⟨hnv, hsl, hvl⟩ := integrate_vals _ hwc dir cum r hr
  obtain ⟨_, hsf, hvf⟩ := integrate_vals f hf dir cum rf h
  have hss : r.shape = rf.shape := by rw [hsl, hsf]; rfl
  refine ⟨r, hr, hmesh, hss, hnv, ?_⟩
  intro i hi
  rw [hvl i 0 hi (by show 0 < 1; omega), hvf i c (by rw [← hss]; exact hi) hc]
  exact ival_comp f c dir cum i

/-- The values of every form of `integrate` do not depend on where the mesh sits: moving the
region (and its subregions) by any vector `t` leaves shape and values unchanged. -/
theorem integrate_translation_invariant (t : List Rat) (f : Fld) (hf : WF f) (dir : Dir) (cum : Bool)
    (r r' : Res) (h : integrate f dir cum = .ok r) (h' : integrate (translate t f) dir cum = .ok r') :
    r'.shape = r.shape ∧
    ∀ i c, inRange r.shape i = true → c < f.nvdim → r'.cval i c = r.cval i c := by
  obtain ⟨_, hs, hv⟩ := integrate_vals f hf dir cum r h
  obtain ⟨_, hs', hv'⟩ := integrate_vals _ (translate_wf t f hf) dir cum r' h'
  have hss : r'.shape = r.shape := by rw [hs, hs']; rfl
  refine ⟨hss, ?_⟩
  intro i c hi hc
  rw [hv' i c (by rw [hss]; exact hi) hc, hv i c hi hc]
  exact ival_translate t f hf.1 dir cum i c

/-- … and the integral over all directions of the moved field is literally the same. -/
theorem integrate_all_translation_invariant (t : List Rat) (f : Fld) (hf : WF f) :
    integrate (translate t f) .none false = integrate f .none false := by
  rw [integrate_all, integrate_all]
  have : dV (translate t f).mesh = dV f.mesh := translate_dV t f hf.1
  rw [this]
  rfl

/-- `mean()` is linear in the field (two fields on one mesh). -/
theorem mean_all_linear (α β : Rat) (f g : Fld) (hf : WF f) (hm : g.mesh = f.mesh)
    (hn : g.nvdim = f.nvdim) (hs : g.data.shape = f.data.shape) :
    ∃ vf vg, mean f .none = .ok (.vals vf) ∧ mean g .none = .ok (.vals vg) ∧
      mean (lin α f β g) .none = .ok (.vals (tab f.nvdim fun c => α * vf.getD c 0 + β * vg.getD c 0)) := by
  have hwl : WF (lin α f β g) := ⟨hf.1, hf.2⟩
  have hwg : WF g := ⟨by rw [hm]; exact hf.1, by rw [hs, hm]; exact hf.2⟩
  refine ⟨_, _, mean_all_eq f hf, mean_all_eq g hwg, ?_⟩
  rw [mean_all_eq _ hwl]
  congr 2
  apply tab_congr
  intro c hc
  have hc : c < f.nvdim := hc
  rw [getD_tab f.nvdim _ c 0 hc, getD_tab g.nvdim _ c 0 (by rw [hn]; exact hc), hm, hs]
  show dV f.mesh * nestSum f.data.shape (fun i => cget (lin α f β g).data i c) / ratProd f.mesh.region.edges = _
  rw [nestSum_congr _ _ _ (fun i _ => cget_lin α β f g i c hc), nestSum_add, nestSum_mul_left, nestSum_mul_left]
  ring

/-- `mean()` does not look at the mesh position at all. -/
theorem mean_all_translation_invariant (t : List Rat) (f : Fld) :
    mean (translate t f) .none = mean f .none := rfl

/-- every successful `mean` (no direction, one direction, a list in any order) returns, on the
spec shape, the sum over the averaged axes divided by the number of summed cells -/
theorem mean_vals (f : Fld) (dir : Dir) (r : Res) (h : mean f dir = .ok r) :
    r.nv = f.nvdim ∧ r.shape = mshape f dir ∧
    ∀ i c, inRange r.shape i = true → c < f.nvdim → r.cval i c = mval f dir i c :=
  mean_vals' f dir r h

/-- whether `mean` succeeds, and on which mesh and with which shape the result lives, depends
only on the mesh and the shape of the value array -/
theorem mean_frame (f f' : Fld) (hm : f'.mesh = f.mesh) (hs : f'.data.shape = f.data.shape)
    (dir : Dir) (r : Res) (h : mean f dir = .ok r) :
    ∃ r', mean f' dir = .ok r' ∧ r'.mesh? = r.mesh? ∧ r'.shape = r.shape :=
  mean_frame' f f' hm hs dir r h

/-- All forms of `mean` — `mean()`, `mean(d)`, `mean(list)` in any order — are linear in the
field: for two fields on the same mesh the mean of `α·f + β·g` exists whenever that of `f`
does, lives on the same mesh and equals `α·mean f + β·mean g` entry by entry. -/
theorem mean_linear (α β : Rat) (f g : Fld) (hm : g.mesh = f.mesh) (hn : g.nvdim = f.nvdim)
    (hs : g.data.shape = f.data.shape) (dir : Dir) (rf rg : Res)
    (h1 : mean f dir = .ok rf) (h2 : mean g dir = .ok rg) :
    ∃ r, mean (lin α f β g) dir = .ok r ∧ r.mesh? = rf.mesh? ∧ r.shape = rf.shape ∧
      ∀ i c, inRange r.shape i = true → c < f.nvdim →
        r.cval i c = α * rf.cval i c + β * rg.cval i c := by
  obtain ⟨r, hr, hmesh, hss⟩ := mean_frame f (lin α f β g) rfl rfl dir rf h1
  obtain ⟨rg', hrg', _, hsg⟩ := mean_frame f g hm hs dir rf h1
  rw [h2] at hrg'; injection hrg' with hrg'; subst hrg'
  obtain ⟨_, _, hvl⟩ := mean_vals _ dir r hr
  obtain ⟨_, _, hvf⟩ := mean_vals f dir rf h1
  obtain ⟨_, _, hvg⟩ := mean_vals g dir rg h2
  refine ⟨r, hr, hmesh, hss, ?_⟩
  intro i c hi hc
  rw [hvl i c hi hc, hvf i c (by rw [← hss]; exact hi) hc,
    hvg i c (by rw [hsg, ← hss]; exact hi) (by rw [hn]; exact hc)]
  exact mval_lin α β f g hm hs dir i c hc

/-- All forms of `mean` act per component: the mean of the scalar field of component `c` is
component `c` of the mean, on the same mesh. -/
theorem mean_componentwise (f : Fld) (c : Nat) (hc : c < f.nvdim) (dir : Dir) (rf : Res)
    (h : mean f dir = .ok rf) :
    ∃ r, mean (compFld f c) dir = .ok r ∧ r.mesh? = rf.mesh? ∧ r.shape = rf.shape ∧ r.nv = 1 ∧
      ∀ i, inRange r.shape i = true → r.cval i 0 = rf.cval i c := by
  obtain ⟨r, hr, hmesh, hss⟩ := mean_frame f (compFld f c) rfl rfl dir rf h
  obtain ⟨hnv, _, hvl⟩ := mean_vals _ dir r hr
  obtain ⟨_, _, hvf⟩ := mean_vals f dir rf h
  refine ⟨r, hr, hmesh, hss, hnv, ?_⟩
  intro i hi
  rw [hvl i 0 hi (by show 0 < 1; omega), hvf i c (by rw [← hss]; exact hi) hc]
  exact mval_comp f c dir i

/-- The values of every form of `mean` do not depend on where the mesh sits: moving the region
(and its subregions) by any vector `t` leaves shape and values unchanged. -/
theorem mean_translation_invariant (t : List Rat) (f : Fld) (dir : Dir) (r r' : Res)
    (h : mean f dir = .ok r) (h' : mean (translate t f) dir = .ok r') :
    r'.shape = r.shape ∧ r'.nv = r.nv ∧
    ∀ i c, inRange r.shape i = true → c < f.nvdim → r'.cval i c = r.cval i c := by
  obtain ⟨hn, hs, hv⟩ := mean_vals f dir r h
  obtain ⟨hn', hs', hv'⟩ := mean_vals _ dir r' h'
  have hss : r'.shape = r.shape := by rw [hs, hs', mshape_translate]
  refine ⟨hss, by rw [hn, hn']; rfl, ?_⟩
  intro i c hi hc
  rw [hv' i c (by rw [hss]; exact hi) hc, hv i c hi hc]
  exact mval_translate t f dir i c

/-! ## The successful branches are reached (total correctness; subregions allowed: `SubsFit`,
defined in `DFV/Lemmas/C06Subs.lean`, says every subregion of the mesh starts a whole number of
cells into the region and is a whole number ≥ 1 of cells long on every axis) -/

/-- `integrate(d)` succeeds for every direction of a well-formed field whose subregions fit
the mesh (the reduced mesh's subregion setter accepts the inherited subregions, which fit again):
a field on the reduced mesh for two or more dimensions, the bare array in 1-d. -/
theorem integrate_dir_ok (f : Fld) (hf : WF f) (hsubs : SubsFit f.mesh) (d : String)
    (hd : d ∈ f.mesh.region.dims) :
    (2 ≤ f.mesh.ndim → ∃ g, integrate f (.name d) false = .ok (.field g) ∧ SubsFit g.mesh) ∧
    (f.mesh.ndim = 1 → ∃ v, integrate f (.name d) false = .ok (.vals v)) := by
  obtain ⟨ax, hax⟩ := dim2index_of_mem _ _ hd
  constructor
  · intro h2
    obtain ⟨m', hsel, hms⟩ := sel_okS f.mesh hf.1 hsubs h2 d ax hax
    obtain ⟨ax', hax', _, _, _, _, _, _, _, hn, _, _⟩ := sel_spec f.mesh hf.1 d m' hsel
    rw [hax] at hax'; injection hax' with hax'; subst hax'
    have hne1 : ¬ f.mesh.ndim = 1 := by omega
    have hshape : (scaleBy f.nvdim (f.mesh.cellAt ax) (sumAxis f.nvdim f.data ax)).shape = m'.n := by
      show removeAt f.data.shape ax = _
      rw [hf.2, hn]
    unfold integrate
    simp only [hax, Bool.false_eq_true, if_false, hne1, hsel, mkFld, hshape, ne_eq, not_true_eq_false]
    exact ⟨_, rfl, hms⟩
  · intro h1
    unfold integrate
    simp only [hax, Bool.false_eq_true, if_false, h1, if_true]
    exact ⟨_, rfl⟩

/-- Integrating direction by direction succeeds for every ordering `ds` of the directions
(no repetition, every entry a direction of the mesh, all directions used) of a well-formed
field whose subregions fit the mesh — and then gives `integrate()` (theorem `fubini`). -/
theorem fubini_total (f : Fld) (hf : WF f) (hsubs : SubsFit f.mesh) (ds : List String)
    (hnd : ds.Nodup) (hmem : ∀ d ∈ ds, d ∈ f.mesh.region.dims) (hlen : ds.length = f.mesh.ndim) :
    integrateSeq f ds = integrate f .none false := by
  suffices hok : ∃ r, integrateSeq f ds = .ok r by
    obtain ⟨r, hr⟩ := hok
    rw [hr, fubini f hf ds hlen r hr]
  induction ds generalizing f with
  | nil =>
    have := hf.1.1.1
    have h0 : f.mesh.ndim = f.mesh.region.pmin.length := rfl
    simp at hlen; omega
  | cons d ds ih =>
    have hd := hmem d (by simp)
    obtain ⟨hA, hB⟩ := integrate_dir_ok f hf hsubs d hd
    by_cases h1 : f.mesh.ndim = 1
    · obtain ⟨v, hv⟩ := hB h1
      have hds : ds = [] := by
        have : ds.length = 0 := by simp at hlen; omega
        exact List.eq_nil_of_length_eq_zero this
      subst hds
      unfold integrateSeq
      simp only [hv, List.isEmpty_nil, if_true]
      exact ⟨_, rfl⟩
    · have h2 : 2 ≤ f.mesh.ndim := by
        have := hf.1.1.1
        have h0 : f.mesh.ndim = f.mesh.region.pmin.length := rfl
        omega
      obtain ⟨g, hg, hgs⟩ := hA h2
      obtain ⟨ax, m', hax, _, hsel, hshape, hgeq⟩ := integrate_dir_unpack f d g hg
      obtain ⟨ax', hax', haxlt, hpmin, _, hdims, _, hn, hgshape, _⟩ := integrate_dir f hf d g hg
      rw [hax] at hax'; injection hax' with hax'; subst hax'
      have hgm : g.mesh = m' := by rw [hgeq]
      have hwf : WF g := ⟨by rw [hgm]; exact sel_inv f.mesh hf.1 d m' hsel, by rw [hgshape, hn]⟩
      have hlen' : ds.length = g.mesh.ndim := by
        have h1' : g.mesh.ndim = g.mesh.region.pmin.length := rfl
        have h2' : f.mesh.ndim = f.mesh.region.pmin.length := rfl
        rw [h1', hpmin, removeAt_length _ _ (by rw [← h2']; exact haxlt), ← h2', ← hlen]; simp
      obtain ⟨_, hdname⟩ := dim2index_ok _ _ _ hax
      have hmem' : ∀ d' ∈ ds, d' ∈ g.mesh.region.dims := by
        intro d' hd'
        rw [hdims]
        apply mem_removeAt _ _ _ (hmem d' (by simp [hd']))
        rw [hdname]
        intro heq
        subst heq
        exact (List.nodup_cons.mp hnd).1 hd'
      obtain ⟨r, hr⟩ := ih g hwf hgs (List.nodup_cons.mp hnd).2 hmem' hlen'
      unfold integrateSeq
      simp only [hg]
      exact ⟨r, hr⟩

/-- the cumulative integral succeeds for every direction of a well-formed field (any
number of dimensions, subregions or not) -/
theorem integrate_cum_ok (f : Fld) (hf : WF f) (d : String) (hd : d ∈ f.mesh.region.dims) :
    ∃ g, integrate f (.name d) true = .ok (.field g) := by
  obtain ⟨ax, hax⟩ := dim2index_of_mem _ _ hd
  have hshape : (cumAxis f.nvdim (f.mesh.cellAt ax) f.data ax).shape = f.mesh.n := hf.2
  unfold integrate
  simp only [hax, if_true, mkFld, hshape, ne_eq, not_true_eq_false, if_false]
  exact ⟨_, rfl⟩

/-- Total form of the cumulative/total relation, two or more dimensions: for every direction
of a well-formed field (fitting subregions) both integrals exist and the last cumulative entry
along the axis plus half the last cell is the directional integral. -/
theorem cumulative_last_total (f : Fld) (hf : WF f) (hsubs : SubsFit f.mesh) (h2 : 2 ≤ f.mesh.ndim) (d : String)
    (hd : d ∈ f.mesh.region.dims) :
    ∃ ax gc gd, f.mesh.region.dim2index d = .ok ax ∧ integrate f (.name d) true = .ok (.field gc) ∧
      integrate f (.name d) false = .ok (.field gd) ∧
      ∀ i c, inRange f.mesh.n i = true → i.getD ax 0 = f.mesh.nAt ax - 1 → c < f.nvdim →
        cget gc.data i c + f.mesh.cellAt ax * (cget f.data i c / 2) = cget gd.data (removeAt i ax) c := by
  obtain ⟨gc, hgc⟩ := integrate_cum_ok f hf d hd
  obtain ⟨gd, hgd, _⟩ := (integrate_dir_ok f hf hsubs d hd).1 h2
  obtain ⟨ax, hax, hrel⟩ := cumulative_last f hf d gc gd hgc hgd
  exact ⟨ax, gc, gd, hax, hgc, hgd, hrel⟩

/-- Total form on a 1-d mesh: both integrals exist and the bare array returned by
`integrate(d)` is the last cumulative entry plus half the last cell. -/
theorem cumulative_last_1d_total (f : Fld) (hf : WF f) (h1 : f.mesh.ndim = 1) (d : String)
    (hd : d ∈ f.mesh.region.dims) :
    ∃ gc v, integrate f (.name d) true = .ok (.field gc) ∧ integrate f (.name d) false = .ok (.vals v) ∧
      ∀ c, c < f.nvdim →
        cget gc.data [f.mesh.nAt 0 - 1] c + f.mesh.cellAt 0 * (cget f.data [f.mesh.nAt 0 - 1] c / 2) = v.getD c 0 := by
  obtain ⟨gc, hgc⟩ := integrate_cum_ok f hf d hd
  obtain ⟨ax, hax⟩ := dim2index_of_mem _ _ hd
  have hv : ∃ v, integrate f (.name d) false = .ok (.vals v) := by
    unfold integrate
    simp only [hax, Bool.false_eq_true, if_false, h1, if_true]
    exact ⟨_, rfl⟩
  obtain ⟨v, hv⟩ := hv
  exact ⟨gc, v, hgc, hv, fun c hc => cumulative_last_1d f hf d gc v hgc hv c hc⟩

/-- `mean(d)` succeeds for every direction of a well-formed field with fitting subregions that
has at least two dimensions -/
theorem mean_dir_ok (f : Fld) (hf : WF f) (hsubs : SubsFit f.mesh) (h2 : 2 ≤ f.mesh.ndim) (d : String)
    (hd : d ∈ f.mesh.region.dims) : ∃ g, mean f (.name d) = .ok (.field g) := by
  obtain ⟨ax, hax⟩ := dim2index_of_mem _ _ hd
  obtain ⟨m', hsel, _⟩ := sel_okS f.mesh hf.1 hsubs h2 d ax hax
  obtain ⟨ax', hax', _, _, _, _, _, _, _, hn, _, _⟩ := sel_spec f.mesh hf.1 d m' hsel
  rw [hax] at hax'; injection hax' with hax'; subst hax'
  have hshape : (divBy f.nvdim ((f.data.shape.getD ax 0 : Nat) : Rat) (sumAxis f.nvdim f.data ax)).shape = m'.n := by
    show removeAt f.data.shape ax = _
    rw [hf.2, hn]
  unfold mean
  simp only [hax, hsel, mkFld, hshape, ne_eq, not_true_eq_false, if_false]
  exact ⟨_, rfl⟩

/-- one step of a direction-by-direction integration succeeds and keeps everything needed
for the next step -/
theorem step_ok (f : Fld) (hf : WF f) (hsubs : SubsFit f.mesh) (h2 : 2 ≤ f.mesh.ndim) (d : String)
    (hd : d ∈ f.mesh.region.dims) :
    ∃ g, integrate f (.name d) false = .ok (.field g) ∧ WF g ∧ SubsFit g.mesh ∧
      g.mesh.ndim + 1 = f.mesh.ndim ∧
      ∀ d' ∈ f.mesh.region.dims, d' ≠ d → d' ∈ g.mesh.region.dims := by
  obtain ⟨g, hg, hgs⟩ := (integrate_dir_ok f hf hsubs d hd).1 h2
  obtain ⟨ax, m', hax, _, hsel, hshape, hgeq⟩ := integrate_dir_unpack f d g hg
  obtain ⟨ax', hax', haxlt, hpmin, _, hdims, _, hn, hgshape, _⟩ := integrate_dir f hf d g hg
  rw [hax] at hax'; injection hax' with hax'; subst hax'
  have hgm : g.mesh = m' := by rw [hgeq]
  have hwf : WF g := ⟨by rw [hgm]; exact sel_inv f.mesh hf.1 d m' hsel, by rw [hgshape, hn]⟩
  obtain ⟨_, hdname⟩ := dim2index_ok _ _ _ hax
  refine ⟨g, hg, hwf, hgs, ?_, ?_⟩
  · have h1' : g.mesh.ndim = g.mesh.region.pmin.length := rfl
    have h2' : f.mesh.ndim = f.mesh.region.pmin.length := rfl
    rw [h1', hpmin, removeAt_length _ _ (by rw [← h2']; exact haxlt), ← h2']
    omega
  · intro d' hd' hne
    rw [hdims]
    exact mem_removeAt _ _ _ hd' (by rw [hdname]; exact fun h => hne h.symm)

/-- Integrating over some (not all) of the directions one after the other succeeds, for every
order, on a well-formed field whose subregions fit the mesh. -/
theorem integrateSeq_ok (f : Fld) (hf : WF f) (hsubs : SubsFit f.mesh) (ds : List String)
    (hnd : ds.Nodup) (hmem : ∀ d ∈ ds, d ∈ f.mesh.region.dims) (hlen : ds.length < f.mesh.ndim) :
    ∃ gi, integrateSeq f ds = .ok (.field gi) := by
  induction ds generalizing f with
  | nil => exact ⟨f, rfl⟩
  | cons d ds ih =>
    have hlen' : ds.length + 1 < f.mesh.ndim := by simpa using hlen
    obtain ⟨g, hg, hwf, hgs, hgnd, hgmem⟩ := step_ok f hf hsubs (by omega) d (hmem d (by simp))
    obtain ⟨hdn, hnd'⟩ := List.nodup_cons.mp hnd
    obtain ⟨gi, hgi⟩ := ih g hwf hgs hnd'
      (fun d' hd' => hgmem d' (hmem d' (by simp [hd'])) (fun h => hdn (h ▸ hd'))) (by omega)
    exact ⟨gi, by unfold integrateSeq; simp only [hg]; exact hgi⟩

/-- `mean(list)` over some (not all) of the directions succeeds, for every order, on a
well-formed field whose subregions fit the mesh. -/
theorem mean_dirs_ok (f : Fld) (hf : WF f) (hsubs : SubsFit f.mesh) (ds : List String)
    (hnd : ds.Nodup) (hmem : ∀ d ∈ ds, d ∈ f.mesh.region.dims) (hlen : ds.length < f.mesh.ndim) :
    ∃ gm, mean f (.names ds) = .ok (.field gm) := by
  obtain ⟨gi, hgi⟩ := integrateSeq_ok f hf hsubs ds hnd hmem hlen
  obtain ⟨axes, C', hax, hselm, hinv, _⟩ := chain f hf ds f _ 1 gi (chainInv_init f hf) hgi
  rw [← keepMask_eq_foldl] at hinv
  obtain ⟨_, _, _, _, _, _, _, hn, _⟩ := hinv
  have hdup : hasDup ds = false := hasDup_of_nodup ds hnd
  have hnot : sameMultiset ds f.mesh.region.dims = false := by
    cases h : sameMultiset ds f.mesh.region.dims with
    | false => rfl
    | true =>
      have := ((sameMultiset_iff_perm _ _).mp h).length_eq
      have hdl : f.mesh.region.dims.length = f.mesh.ndim := hf.1.1.2.2.1
      omega
  have hshape : (meanAxes f.nvdim f.data axes).shape = gi.mesh.n := by
    show filterMask (keepMask f.data.shape.length axes) f.data.shape = _
    rw [hf.2, hn]
  unfold mean
  simp only [hdup, Bool.false_eq_true, if_false, hnot, hselm, hax, mkFld, hshape, ne_eq, not_true_eq_false]
  exact ⟨_, rfl⟩

/-- on a 1-d mesh `mean(d)` with a bare direction name is rejected (there is no 0-dimensional
mesh to return a field on; `mean([d])` and `mean()` return the array) -/
theorem mean_dir_1d_rejected (f : Fld) (hf : WF f) (h1 : f.mesh.ndim = 1) (d : String) (r : Res) :
    mean f (.name d) ≠ .ok r := by
  intro h
  obtain ⟨ax, m', _, hsel, _, _⟩ := mean_name_unpack f d r h
  obtain ⟨_, _, _, h2, _⟩ := sel_spec f.mesh hf.1 d m' hsel
  omega

/-- Total forms of "mean = integral / extent": for every direction (two or more dimensions),
and for every list of distinct directions shorter than the number of dimensions, in any order,
on a well-formed field with fitting subregions, both sides exist and `mean` is the (chained)
integral divided by the integrated extent on the same reduced mesh. -/
theorem mean_eq_total (f : Fld) (hf : WF f) (hsubs : SubsFit f.mesh) :
    (∀ d, 2 ≤ f.mesh.ndim → d ∈ f.mesh.region.dims →
      ∃ ax gi gm, f.mesh.region.dim2index d = .ok ax ∧ integrate f (.name d) false = .ok (.field gi) ∧
        mean f (.name d) = .ok (.field gm) ∧ gm.mesh = gi.mesh ∧
        ∀ i c, inRange (removeAt f.mesh.n ax) i = true → c < f.nvdim →
          cget gm.data i c = cget gi.data i c / f.mesh.region.edge ax) ∧
    (∀ ds : List String, ds.Nodup → (∀ d ∈ ds, d ∈ f.mesh.region.dims) → ds.length < f.mesh.ndim →
      ∃ gi gm, integrateSeq f ds = .ok (.field gi) ∧ mean f (.names ds) = .ok (.field gm) ∧
        gm.mesh = gi.mesh ∧
        ∀ i c, inRange gi.data.shape i = true → c < f.nvdim →
          cget gm.data i c = cget gi.data i c / extent f.mesh.region ds) := by
  constructor
  · intro d h2 hd
    obtain ⟨gi, hgi, _⟩ := (integrate_dir_ok f hf hsubs d hd).1 h2
    obtain ⟨gm, hgm⟩ := mean_dir_ok f hf hsubs h2 d hd
    obtain ⟨ax, gm', hax, hr, hmesh, _, _, _, _, hv⟩ := mean_dir_eq f hf d gi _ hgi hgm
    injection hr with hr; subst hr
    exact ⟨ax, gi, gm, hax, hgi, hgm, hmesh, hv⟩
  · intro ds hnd hmem hlen
    obtain ⟨gi, hgi⟩ := integrateSeq_ok f hf hsubs ds hnd hmem hlen
    obtain ⟨gm, hgm⟩ := mean_dirs_ok f hf hsubs ds hnd hmem hlen
    obtain ⟨hmesh, _, _, _, hv⟩ := mean_dirs_eq f hf ds gm gi hgm hgi
    exact ⟨gi, gm, hgi, hgm, hmesh, hv⟩

/-- Moving the mesh never turns a successful integral into a failure: whenever `integrate`
succeeds on a well-formed field with fitting subregions it succeeds on the moved field too,
with the same shape and the same values. -/
theorem integrate_translation_total (t : List Rat) (f : Fld) (hf : WF f) (hsubs : SubsFit f.mesh) (dir : Dir)
    (cum : Bool) (r : Res) (h : integrate f dir cum = .ok r) :
    ∃ r', integrate (translate t f) dir cum = .ok r' ∧ r'.shape = r.shape ∧
      ∀ i c, inRange r.shape i = true → c < f.nvdim → r'.cval i c = r.cval i c := by
  have hwt := translate_wf t f hf
  have hst := subsFit_translate t f hf.1 hsubs
  have hex : ∃ r', integrate (translate t f) dir cum = .ok r' := by
    cases dir with
    | none =>
      cases cum with
      | true => cases h
      | false => exact ⟨_, integrate_all _⟩
    | name d =>
      have hd : d ∈ f.mesh.region.dims := by
        cases cum with
        | true =>
          obtain ⟨ax, hax, _⟩ := integrate_cum_unpack f d r h
          exact mem_of_dim2index _ _ _ hax
        | false =>
          cases r with
          | vals v =>
            obtain ⟨ax, hax, _⟩ := integrate_dir_1d_unpack f d v h
            exact mem_of_dim2index _ _ _ hax
          | field g =>
            obtain ⟨ax, _, hax, _⟩ := integrate_dir_unpack f d g h
            exact mem_of_dim2index _ _ _ hax
      have hd' : d ∈ (translate t f).mesh.region.dims := hd
      cases cum with
      | true =>
        obtain ⟨g, hg⟩ := integrate_cum_ok _ hwt d hd'
        exact ⟨_, hg⟩
      | false =>
        have hnd : (translate t f).mesh.ndim = f.mesh.ndim := by
          simp [translate, Mesh.ndim, Region.ndim, shiftRegion]
        by_cases h1 : f.mesh.ndim = 1
        · obtain ⟨v, hv⟩ := (integrate_dir_ok _ hwt hst d hd').2 (by rw [hnd]; exact h1)
          exact ⟨_, hv⟩
        · have h2 : 2 ≤ f.mesh.ndim := by
            have := hf.1.1.1
            have h0 : f.mesh.ndim = f.mesh.region.pmin.length := rfl
            omega
          obtain ⟨g, hg, _⟩ := (integrate_dir_ok _ hwt hst d hd').1 (by rw [hnd]; exact h2)
          exact ⟨_, hg⟩
    | names ds => cases h
    | other => cases h
  obtain ⟨r', hr'⟩ := hex
  obtain ⟨hs, hv⟩ := integrate_translation_invariant t f hf dir cum r r' h hr'
  exact ⟨r', hr', hs, hv⟩

/-! ## Order independence for every permutation, and the value of a chained integral -/

/-- Fubini, permutation form: for EVERY permutation `ds` of the mesh's directions, integrating
direction by direction in that order succeeds (well-formed field, fitting subregions) and gives
exactly `integrate()`. -/
theorem fubini_perm (f : Fld) (hf : WF f) (hsubs : SubsFit f.mesh) (ds : List String)
    (hp : ds.Perm f.mesh.region.dims) : integrateSeq f ds = integrate f .none false := by
  have hnd : ds.Nodup := hp.nodup_iff.mpr (nodup_of_hasDup _ hf.1.1.2.2.2.2.1)
  have hdl : f.mesh.region.dims.length = f.mesh.ndim := hf.1.1.2.2.1
  exact fubini_total f hf hsubs ds hnd (fun d hd => hp.mem_iff.mp hd) (by rw [hp.length_eq, hdl])

/-- The chained integral over several (not all) directions, in any order: the result has the
axes that are not listed, and its value at the reduced index `i` is the product of the cell
lengths of the listed directions times the sum over the listed axes (as a set: `maskSum` sums
exactly the axes whose keep-flag is false).  The several-direction form of `integrate_dir`. -/
theorem integrateSeq_vals (f : Fld) (hf : WF f) (ds : List String) (g : Fld)
    (h : integrateSeq f ds = .ok (.field g)) :
    ∃ axes, dimIndices f.mesh.region ds = .ok axes ∧
      g.mesh.region.dims = filterMask (keepMask f.mesh.n.length axes) f.mesh.region.dims ∧
      g.mesh.region.pmin = filterMask (keepMask f.mesh.n.length axes) f.mesh.region.pmin ∧
      g.mesh.region.pmax = filterMask (keepMask f.mesh.n.length axes) f.mesh.region.pmax ∧
      g.mesh.n = filterMask (keepMask f.mesh.n.length axes) f.mesh.n ∧
      g.data.shape = g.mesh.n ∧ g.nvdim = f.nvdim ∧
      ∀ i c, inRange g.mesh.n i = true → c < f.nvdim →
        cget g.data i c = cellExtent f.mesh ds *
          maskSum f.mesh.n (keepMask f.mesh.n.length axes) (fun t => cget f.data t c) i := by
  obtain ⟨axes, hax, hinv⟩ := chain_cells f hf ds f _ 1 g (chainInv_init f hf) h
  rw [← keepMask_eq_foldl, one_mul] at hinv
  obtain ⟨hwg, _, hnv, _, hdims, hpmin, hpmax, hn, hval⟩ := hinv
  exact ⟨axes, hax, hdims, hpmin, hpmax, hn, hwg.2, hnv, hval⟩

/-- Partial Fubini: two chained integrals over permutations of the same directions (not
necessarily all of them) agree — same remaining axes, corners and cell counts, same values. -/
theorem integrateSeq_perm (f : Fld) (hf : WF f) (ds ds' : List String) (hp : ds.Perm ds') (g g' : Fld)
    (h : integrateSeq f ds = .ok (.field g)) (h' : integrateSeq f ds' = .ok (.field g')) :
    g'.mesh.region.dims = g.mesh.region.dims ∧ g'.mesh.region.pmin = g.mesh.region.pmin ∧
    g'.mesh.region.pmax = g.mesh.region.pmax ∧ g'.mesh.n = g.mesh.n ∧ g'.data.shape = g.data.shape ∧
    g'.nvdim = g.nvdim ∧
    ∀ i c, inRange g.data.shape i = true → c < f.nvdim → cget g'.data i c = cget g.data i c :=
  integrateSeq_perm' f hf ds ds' hp g g' h h'

/-- … and both exist: for every list `ds` of distinct directions (fewer than all) and every
permutation `ds'` of it, both chained integrals succeed and agree. -/
theorem integrateSeq_perm_total (f : Fld) (hf : WF f) (hsubs : SubsFit f.mesh) (ds ds' : List String)
    (hnd : ds.Nodup) (hmem : ∀ d ∈ ds, d ∈ f.mesh.region.dims) (hlen : ds.length < f.mesh.ndim)
    (hp : ds.Perm ds') :
    ∃ g g', integrateSeq f ds = .ok (.field g) ∧ integrateSeq f ds' = .ok (.field g') ∧
      g'.mesh.n = g.mesh.n ∧ g'.data.shape = g.data.shape ∧
      ∀ i c, inRange g.data.shape i = true → c < f.nvdim → cget g'.data i c = cget g.data i c := by
  obtain ⟨g, hg⟩ := integrateSeq_ok f hf hsubs ds hnd hmem hlen
  obtain ⟨g', hg'⟩ := integrateSeq_ok f hf hsubs ds' (hp.nodup_iff.mp hnd)
    (fun d hd => hmem d (hp.mem_iff.mpr hd)) (by rw [← hp.length_eq]; exact hlen)
  obtain ⟨_, _, _, hn, hs, _, hv⟩ := integrateSeq_perm f hf ds ds' hp g g' hg hg'
  exact ⟨g, g', hg, hg', hn, hs, hv⟩

/-- Means are consistent across axes too: averaging direction by direction (bare names, each
step on the reduced mesh the previous step returned), in any order of a proper subset `ds` of
the directions, gives exactly `mean(ds)` — the same reduced mesh (subregions included) and the
same values. -/
theorem meanSeq_eq_mean_list (f : Fld) (hf : WF f) (ds : List String) (gs gm : Fld)
    (hs : meanSeq f ds = .ok (.field gs)) (hm : mean f (.names ds) = .ok (.field gm)) :
    gs.mesh = gm.mesh ∧ gs.data.shape = gm.data.shape ∧ gs.nvdim = gm.nvdim ∧
    ∀ i c, inRange gm.data.shape i = true → c < f.nvdim → cget gs.data i c = cget gm.data i c := by
  obtain ⟨_, m', axes, hselm, hax, hshape, hgm⟩ := mean_names_unpack f ds gm hm
  obtain ⟨axes', C', hax', hselm', hinv, hprod⟩ := mean_chain f hf ds f _ 1 gs (chainInv_init f hf) hs
  rw [hax] at hax'; injection hax' with hax'; subst hax'
  rw [hselm] at hselm'; injection hselm' with hselm'
  rw [← keepMask_eq_foldl, dropProd_allTrue] at hprod
  rw [← keepMask_eq_foldl] at hinv
  obtain ⟨hwgs, _, hnv, _, _, _, _, hn, hval⟩ := hinv
  subst hgm
  have hshape' : gs.data.shape = (meanAxes f.nvdim f.data axes).shape := by
    rw [hwgs.2, ← hselm', hshape]
  refine ⟨hselm'.symm, hshape', hnv, ?_⟩
  intro i c hin hc
  have hin' : inRange (meanAxes f.nvdim f.data axes).shape i = true := hin
  simp only
  rw [cget_force (meanAxes f.nvdim f.data axes) i c hin', cget_meanAxes _ _ _ _ _ hc,
    hval i c (by rw [← hwgs.2, hshape']; exact hin') hc, hf.2]
  have hD : (0 : Rat) < (dropProd (keepMask f.mesh.n.length axes) f.mesh.n : Rat) := by
    have : 0 < dropProd (keepMask f.mesh.n.length axes) f.mesh.n := by
      apply dropProd_pos
      intro k hk
      obtain ⟨a, ha, rfl⟩ := List.getElem_of_mem hk
      have := hf.1.2.2 a (by show a < f.mesh.region.ndim; rw [← hf.1.2.1]; exact ha)
      unfold Mesh.nAt at this
      simpa [List.getD_eq_getElem?_getD, ha] using this
    exact_mod_cast this
  have hC : C' = 1 / (dropProd (keepMask f.mesh.n.length axes) f.mesh.n : Rat) := by
    field_simp
    rw [hprod]; ring
  rw [hC]; ring

/-! ## Axis removal with subregions

`SubsFit m`: every subregion of `m` starts a whole number of cells into the region and is a
whole number (≥ 1) of cells long on every axis (what the subregion setter checks, read with
tolerance 0). -/

/-- `Mesh.sel(d)` on a well-formed mesh (two or more dimensions) whose subregions fit it, for
every direction `d` of the mesh: it SUCCEEDS — the subregion setter of the reduced mesh accepts
every inherited subregion (inside the region, whole cells, aligned) — and returns the reduced
mesh of the same mesh without subregions, carrying exactly the subregions whose closed extent
along the removed axis contains the centre of cell ⌊n/2⌋ of that axis, each with that axis
removed and the reduced mesh's dims / units / tolerance; these fit the reduced mesh again. -/
theorem sel_subregions (m : Mesh) (hm : m.Inv) (hfit : SubsFit m) (h2 : 2 ≤ m.ndim) (d : String)
    (hd : d ∈ m.region.dims) :
    ∃ ax mc m', m.region.dim2index d = .ok ax ∧ sel { m with subs := [] } d = .ok mc ∧ sel m d = .ok m' ∧
      m'.region = mc.region ∧ m'.n = mc.n ∧ m'.bc = "" ∧
      m'.subs = (keepSubs ax (m.region.lo ax + (((m.nAt ax / 2 : Nat) : Rat) + 1/2) * m.cellAt ax) m.subs).map
        (fun p => (p.1, restamp mc (projReg ax p.2))) ∧
      SubsFit m' := by
  obtain ⟨ax, hax⟩ := dim2index_of_mem _ _ hd
  obtain ⟨s, mc, m', hs, hsel0, hsel, hm', hfit'⟩ := sel_ok_subs m hm hfit h2 d ax hax
  obtain ⟨haxd, _⟩ := dim2index_ok _ _ _ hax
  have haxlt : ax < m.ndim := by
    show ax < m.region.pmin.length
    rw [← hm.1.2.2.1]; exact haxd
  rw [selCentre_eq m hm ax haxlt] at hs
  injection hs with hs
  obtain ⟨_, _, _, _, _, _, _, _, _, _, hbc, _⟩ := sel_spec m hm d m' hsel
  refine ⟨ax, mc, m', hax, hsel0, hsel, by rw [hm'], by rw [hm'], hbc, by rw [hm', hs], hfit'⟩

/-- which subregions survive: a subregion of the mesh is inherited by the reduced mesh iff
the centre of cell ⌊n/2⌋ along the removed axis lies in its closed extent along that axis -/
theorem keepSubs_mem (ax : Nat) (s : Rat) (subs : List (String × Region)) (p : String × Region) :
    p ∈ keepSubs ax s subs ↔ p ∈ subs ∧ p.2.lo ax ≤ s ∧ s ≤ p.2.hi ax := by
  unfold keepSubs
  rw [List.mem_filter]
  simp only [Bool.not_eq_true', Bool.or_eq_false_iff, decide_eq_false_iff_not, not_lt]
  constructor
  · rintro ⟨h, h1, h2⟩; exact ⟨h, h2, h1⟩
  · rintro ⟨h, h1, h2⟩; exact ⟨h, h2, h1⟩

/-- `integrate(d)` and `mean(d)` on a mesh with fitting subregions live on exactly the mesh
`Mesh.sel(d)` returns (theorem `sel_subregions`), subregions included. -/
theorem integrate_mean_dir_mesh (f : Fld) (d : String) (g : Fld) :
    (integrate f (.name d) false = .ok (.field g) → sel f.mesh d = .ok g.mesh) ∧
    (mean f (.name d) = .ok (.field g) → sel f.mesh d = .ok g.mesh) := by
  constructor
  · intro h
    obtain ⟨_, m', _, _, hsel, _, hg⟩ := integrate_dir_unpack f d g h
    rw [hsel, hg]
  · intro h
    obtain ⟨_, m', _, hsel, _, hg⟩ := mean_name_unpack f d _ h
    injection hg with hg
    rw [hsel, hg]

/-- … and both exist: for every list of distinct directions shorter than the number of
dimensions, in any order, on a well-formed field whose subregions fit the mesh, the
direction-by-direction mean and `mean(list)` both succeed and agree (mesh and values). -/
theorem meanSeq_total (f : Fld) (hf : WF f) (hsubs : SubsFit f.mesh) (ds : List String)
    (hnd : ds.Nodup) (hmem : ∀ d ∈ ds, d ∈ f.mesh.region.dims) (hlen : ds.length < f.mesh.ndim) :
    ∃ gs gm, meanSeq f ds = .ok (.field gs) ∧ mean f (.names ds) = .ok (.field gm) ∧ gs.mesh = gm.mesh ∧
      ∀ i c, inRange gm.data.shape i = true → c < f.nvdim → cget gs.data i c = cget gm.data i c := by
  have hex : ∃ gs, meanSeq f ds = .ok (.field gs) := by
    induction ds generalizing f with
    | nil => exact ⟨f, rfl⟩
    | cons d ds ih =>
      have hlen' : ds.length + 1 < f.mesh.ndim := by simpa using hlen
      have hd := hmem d (by simp)
      obtain ⟨g, hg, hwf, hgs, hgnd, hgmem⟩ := step_ok f hf hsubs (by omega) d hd
      obtain ⟨g1, hg1⟩ := mean_dir_ok f hf hsubs (by omega) d hd
      have hm1 := (integrate_mean_dir_mesh f d g).1 hg
      have hm2 := (integrate_mean_dir_mesh f d g1).2 hg1
      rw [hm1] at hm2; injection hm2 with hm2
      obtain ⟨ax, m', _, hsel, hshape, hr⟩ := mean_name_unpack f d _ hg1
      injection hr with hr
      have hwf1 : WF g1 := ⟨by rw [← hm2]; exact hwf.1, by rw [hr]; exact hshape⟩
      obtain ⟨hdn, hnd'⟩ := List.nodup_cons.mp hnd
      obtain ⟨gs, hgs'⟩ := ih g1 hwf1 (by rw [← hm2]; exact hgs) hnd'
        (fun d' hd' => by rw [← hm2]; exact hgmem d' (hmem d' (by simp [hd'])) (fun h => hdn (h ▸ hd')))
        (by rw [← hm2]; omega)
      exact ⟨gs, by unfold meanSeq; simp only [hg1]; exact hgs'⟩
  obtain ⟨gs, hgs⟩ := hex
  obtain ⟨gm, hgm⟩ := mean_dirs_ok f hf hsubs ds hnd hmem hlen
  obtain ⟨hmesh, _, _, hv⟩ := meanSeq_eq_mean_list f hf ds gs gm hgs hgm
  exact ⟨gs, gm, hgs, hgm, hmesh, hv⟩

/-! ## In-place histories: cell volume and integrals follow the mesh

`runH f steps` is the field after the mesh object it refers to has been transformed in place
by `steps` (`mesh.scale`, `mesh.region.scale`, `mesh.translate`, `mesh.region.translate`, each
with `inplace=True`; a rejected step changes nothing).  `histFac m a steps` is the product of
the absolute scale factors of axis `a` over the accepted steps, `histVol` the product of these
over the axes. -/

/-- One in-place step keeps the mesh well formed, keeps cell counts and names, and multiplies
the cell length of every axis by the absolute value of that axis's scale factor (by 1 for a
translation). -/
theorem hstep_geometry (m : Mesh) (hm : m.Inv) (s : HStep) (m' : Mesh) (h : hstepM m s = .ok m') :
    m'.Inv ∧ m'.n = m.n ∧ m'.region.dims = m.region.dims ∧ m'.ndim = m.ndim ∧
    ∀ a, a < m.ndim → m'.cellAt a = stepFac s a * m.cellAt a :=
  hstepM_spec m hm s m' h

/-- In-place steps are accepted: on every well-formed mesh, `mesh.region.translate` by a vector
of the right length and `mesh.region.scale` by non-zero factors (a number or one per axis,
reference point absent or of the right length) succeed; if the subregions fit the mesh the same
holds for `mesh.translate` / `mesh.scale`, which also transform every subregion. -/
theorem hstep_accepted (m : Mesh) (hm : m.Inv) :
    (∀ v : List Rat, v.length = m.ndim → ∃ m', hstepM m (.translateRegion v) = .ok m') ∧
    (∀ (f : T.Factor) (ref : Option (List Rat)), f.okFor m.ndim = true →
      (ref.getD m.region.center).length = m.ndim → (∀ a, a < m.ndim → f.at a ≠ 0) →
      ∃ m', hstepM m (.scaleRegion f ref) = .ok m') ∧
    (SubsFit m →
      (∀ v : List Rat, v.length = m.ndim → ∃ m', hstepM m (.translateMesh v) = .ok m') ∧
      (∀ (f : T.Factor) (ref : Option (List Rat)), f.okFor m.ndim = true →
        (ref.getD m.region.center).length = m.ndim → (∀ a, a < m.ndim → f.at a ≠ 0) →
        ∃ m', hstepM m (.scaleMesh f ref) = .ok m')) :=
  ⟨(hstepM_region_ok m hm).1, (hstepM_region_ok m hm).2, fun hfit => hstepM_mesh_ok m hm hfit⟩

/-- After ANY history of in-place steps the field is still well formed, carries the same
arrays, and the cell volume of its mesh is the accumulated volume factor times the original
cell volume: `dV` follows the mesh (induction over the history). -/
theorem dV_history (f : Fld) (hf : WF f) (steps : List HStep) :
    WF (runH f steps) ∧ (runH f steps).data = f.data ∧
    dV (runH f steps).mesh = histVol f.mesh steps * dV f.mesh ∧
    ∀ a, a < f.mesh.ndim → (runH f steps).mesh.cellAt a = histFac f.mesh a steps * f.mesh.cellAt a := by
  obtain ⟨hwf, hdata, _, _, _, _, hc⟩ := runH_spec steps f hf
  exact ⟨hwf, hdata, dV_runH f hf steps, hc⟩

/-- `integrate()` after any history of in-place steps is the accumulated volume factor times
`integrate()` before — the current cell volume times the sum of the cells. -/
theorem integrate_all_history (f : Fld) (hf : WF f) (steps : List HStep) :
    integrate (runH f steps) .none false
      = .ok (.vals (tab f.nvdim fun c =>
          histVol f.mesh steps * (dV f.mesh * nestSum f.data.shape fun i => cget f.data i c))) := by
  obtain ⟨_, hdata, hnv, _, _, _, _⟩ := runH_spec steps f hf
  rw [integrate_all, hnv, dV_runH f hf steps, hdata]
  congr 2
  apply tab_congr
  intro c _
  ring

/-- `integrate(d)` and `integrate(d, cumulative=True)` after any history of in-place steps:
same shape, and every entry is the accumulated factor of THAT axis times the entry before. -/
theorem integrate_dir_history (f : Fld) (hf : WF f) (steps : List HStep) (d : String) (cum : Bool) (r r' : Res)
    (h : integrate f (.name d) cum = .ok r) (h' : integrate (runH f steps) (.name d) cum = .ok r') :
    ∃ ax, f.mesh.region.dim2index d = .ok ax ∧ r'.shape = r.shape ∧
      ∀ i c, inRange r.shape i = true → c < f.nvdim →
        r'.cval i c = histFac f.mesh ax steps * r.cval i c := by
  obtain ⟨hwf, _, hnv, _, _, _, _⟩ := runH_spec steps f hf
  obtain ⟨_, hs, hv⟩ := integrate_vals f hf (.name d) cum r h
  obtain ⟨_, hs', hv'⟩ := integrate_vals _ hwf (.name d) cum r' h'
  have hax : ∃ ax, f.mesh.region.dim2index d = .ok ax := by
    cases hd : f.mesh.region.dim2index d with
    | ok ax => exact ⟨ax, rfl⟩
    | error e =>
      unfold integrate at h
      simp only [hd] at h
      cases h
  obtain ⟨ax, hax⟩ := hax
  have hss : r'.shape = r.shape := by rw [hs, hs', ishape_runH f hf steps]
  refine ⟨ax, hax, hss, ?_⟩
  intro i c hi hc
  rw [hv' i c (by rw [hss]; exact hi) (by rw [hnv]; exact hc), hv i c hi hc]
  exact ival_runH_name f hf steps d ax hax cum i c

/-- Every form of `mean` is unchanged by any history of in-place rescalings / translations of
the mesh: `mean()` literally, the other forms in shape and values. -/
theorem mean_history_invariant (f : Fld) (hf : WF f) (steps : List HStep) :
    mean (runH f steps) .none = mean f .none ∧
    ∀ dir r r', mean f dir = .ok r → mean (runH f steps) dir = .ok r' →
      r'.shape = r.shape ∧ ∀ i c, inRange r.shape i = true → c < f.nvdim → r'.cval i c = r.cval i c := by
  obtain ⟨_, hdata, hnv, _, _, _, _⟩ := runH_spec steps f hf
  constructor
  · unfold mean meanAll
    simp only [hdata, hnv]
  · intro dir r r' h h'
    obtain ⟨_, hs, hv⟩ := mean_vals f dir r h
    obtain ⟨_, hs', hv'⟩ := mean_vals _ dir r' h'
    have hss : r'.shape = r.shape := by rw [hs, hs', mshape_runH f hf steps]
    refine ⟨hss, ?_⟩
    intro i c hi hc
    rw [hv' i c (by rw [hss]; exact hi) (by rw [hnv]; exact hc), hv i c hi hc]
    exact mval_runH f hf steps dir i c

/-- A history of in-place translations only leaves `integrate()` literally unchanged. -/
theorem integrate_all_translation_history (f : Fld) (hf : WF f) (steps : List HStep)
    (hall : ∀ s ∈ steps, ∀ a, stepFac s a = 1) :
    integrate (runH f steps) .none false = integrate f .none false := by
  rw [integrate_all_history f hf steps, integrate_all]
  congr 2
  apply tab_congr
  intro c _
  unfold histVol
  rw [tab_congr _ _ (fun _ => (1 : Rat)) (fun a _ => histFac_translations steps hall f.mesh a), ratProd_tab_one]
  ring

/-! ## Order and absolute value -/

/-- All forms of `integrate` are monotone in the field: if `f ≤ g` cell by cell in component
`c` (two fields on one mesh) then every entry of the integral of `f` is at most the
corresponding entry of the integral of `g` (cell lengths and cell volume are positive). -/
theorem integrate_monotone (f g : Fld) (hf : WF f) (hm : g.mesh = f.mesh) (hn : g.nvdim = f.nvdim)
    (hs : g.data.shape = f.data.shape) (c : Nat) (hc : c < f.nvdim)
    (hle : ∀ t, cget f.data t c ≤ cget g.data t c) (dir : Dir) (cum : Bool) (rf rg : Res)
    (h1 : integrate f dir cum = .ok rf) (h2 : integrate g dir cum = .ok rg) :
    rg.shape = rf.shape ∧ ∀ i, inRange rf.shape i = true → rf.cval i c ≤ rg.cval i c := by
  have hwg : WF g := ⟨by rw [hm]; exact hf.1, by rw [hs, hm]; exact hf.2⟩
  obtain ⟨_, hsf, hvf⟩ := integrate_vals f hf dir cum rf h1
  obtain ⟨_, hsg, hvg⟩ := integrate_vals g hwg dir cum rg h2
  have hss : rg.shape = rf.shape := by rw [hsg, hsf]; unfold ishape; rw [hm]
  refine ⟨hss, ?_⟩
  intro i hi
  rw [hvf i c hi hc, hvg i c (by rw [hss]; exact hi) (by rw [hn]; exact hc)]
  exact ival_mono f g hf hm hs c hle dir cum i

/-- The integral of `abs(f)` — every form: all directions, one direction, cumulative — exists
whenever that of `f` does, lives on the same mesh, and bounds the absolute value of the
integral of `f` entry by entry (triangle inequality); in particular it is non-negative. -/
theorem integrate_abs_triangle (f : Fld) (hf : WF f) (dir : Dir) (cum : Bool) (r : Res)
    (h : integrate f dir cum = .ok r) :
    ∃ ra, integrate (absF f) dir cum = .ok ra ∧ ra.mesh? = r.mesh? ∧ ra.shape = r.shape ∧
      ∀ i c, inRange r.shape i = true → c < f.nvdim → |r.cval i c| ≤ ra.cval i c ∧ 0 ≤ ra.cval i c := by
  obtain ⟨ra, hra, hmesh⟩ := integrate_frame f (absF f) rfl rfl dir cum r h
  have hwa : WF (absF f) := ⟨hf.1, hf.2⟩
  obtain ⟨_, hsa, hva⟩ := integrate_vals _ hwa dir cum ra hra
  obtain ⟨_, hs, hv⟩ := integrate_vals f hf dir cum r h
  have hss : ra.shape = r.shape := by rw [hsa, hs]; rfl
  refine ⟨ra, hra, hmesh, hss, ?_⟩
  intro i c hi hc
  rw [hva i c (by rw [hss]; exact hi) hc, hv i c hi hc]
  have := ival_abs f hf c hc dir cum i
  exact ⟨this, le_trans (abs_nonneg _) this⟩

/-- Bookkeeping of every field result: number of components, component labels and mapping are
kept, every cell of the result is valid; `integrate` drops the unit, `mean` keeps it. -/
theorem result_meta (f : Fld) (g : Fld) :
    (∀ dir cum, integrate f dir cum = .ok (.field g) →
      g.nvdim = f.nvdim ∧ g.vdims = f.vdims ∧ g.vmap = f.vmap ∧ g.unit = none ∧ ∀ i, g.valid.get i = true) ∧
    (∀ dir, mean f dir = .ok (.field g) →
      g.nvdim = f.nvdim ∧ g.vdims = f.vdims ∧ g.vmap = f.vmap ∧ g.unit = f.unit ∧ ∀ i, g.valid.get i = true) := by
  constructor
  · intro dir cum h
    cases dir with
    | none =>
      cases cum with
      | true => cases h
      | false => rw [integrate_all] at h; cases h
    | name d =>
      cases cum with
      | true =>
        obtain ⟨_, _, _, hr⟩ := integrate_cum_unpack f d _ h
        injection hr with hr; subst hr
        exact ⟨rfl, rfl, rfl, rfl, fun _ => rfl⟩
      | false =>
        obtain ⟨_, _, _, _, _, _, hg⟩ := integrate_dir_unpack f d g h
        subst hg
        exact ⟨rfl, rfl, rfl, rfl, fun _ => rfl⟩
    | names ds => cases h
    | other => cases h
  · intro dir h
    cases dir with
    | none => unfold mean at h; cases h
    | name d =>
      obtain ⟨_, _, _, _, _, hr⟩ := mean_name_unpack f d _ h
      injection hr with hr; subst hr
      exact ⟨rfl, rfl, rfl, rfl, fun _ => rfl⟩
    | names ds =>
      obtain ⟨_, _, _, _, _, _, hg⟩ := mean_names_unpack f ds g h
      subst hg
      exact ⟨rfl, rfl, rfl, rfl, fun _ => rfl⟩
    | other => cases h

/-! ## Exactly which calls succeed -/

/-- Acceptance of `integrate`, characterised: on a well-formed field whose subregions fit the
mesh, `integrate(direction, cumulative)` returns a result EXACTLY when either no direction is
given and `cumulative` is false, or the direction is one name of the mesh (any number of
dimensions, cumulative or not). -/
theorem integrate_ok_iff (f : Fld) (hf : WF f) (hsubs : SubsFit f.mesh) (dir : Dir) (cum : Bool) :
    (∃ r, integrate f dir cum = .ok r) ↔
      (match dir with
       | .none => cum = false
       | .name d => d ∈ f.mesh.region.dims
       | _ => False) := by
  cases dir with
  | none =>
    cases cum with
    | true => simp [integrate]
    | false => simp only [iff_true]; exact ⟨_, integrate_all f⟩
  | name d =>
    simp only
    constructor
    · rintro ⟨r, h⟩
      cases hd : f.mesh.region.dim2index d with
      | ok ax => exact mem_of_dim2index _ _ _ hd
      | error e =>
        unfold integrate at h
        simp only [hd] at h
        cases h
    · intro hd
      cases cum with
      | true =>
        obtain ⟨g, hg⟩ := integrate_cum_ok f hf d hd
        exact ⟨_, hg⟩
      | false =>
        by_cases h1 : f.mesh.ndim = 1
        · obtain ⟨v, hv⟩ := (integrate_dir_ok f hf hsubs d hd).2 h1
          exact ⟨_, hv⟩
        · have h2 : 2 ≤ f.mesh.ndim := by
            have := hf.1.1.1
            have h0 : f.mesh.ndim = f.mesh.region.pmin.length := rfl
            omega
          obtain ⟨g, hg, _⟩ := (integrate_dir_ok f hf hsubs d hd).1 h2
          exact ⟨_, hg⟩
  | names ds => simp [integrate]
  | other => simp [integrate]

/-- Acceptance of `mean`, characterised: on a well-formed field whose subregions fit the mesh,
`mean(direction)` returns a result EXACTLY when no direction is given, or the direction is one
name of a mesh with at least two dimensions, or it is a list of distinct names of the mesh (in
any order; all of them, some of them or none). -/
theorem mean_ok_iff (f : Fld) (hf : WF f) (hsubs : SubsFit f.mesh) (dir : Dir) :
    (∃ r, mean f dir = .ok r) ↔
      (match dir with
       | .none => True
       | .name d => d ∈ f.mesh.region.dims ∧ 2 ≤ f.mesh.ndim
       | .names ds => ds.Nodup ∧ ∀ d ∈ ds, d ∈ f.mesh.region.dims
       | .other => False) := by
  cases dir with
  | none => simp only [iff_true]; exact ⟨_, rfl⟩
  | name d =>
    simp only
    constructor
    · rintro ⟨r, h⟩
      obtain ⟨ax, m', hax, hsel, _, _⟩ := mean_name_unpack f d r h
      obtain ⟨_, _, _, h2, _⟩ := sel_spec f.mesh hf.1 d m' hsel
      exact ⟨mem_of_dim2index _ _ _ hax, h2⟩
    · rintro ⟨hd, h2⟩
      obtain ⟨g, hg⟩ := mean_dir_ok f hf hsubs h2 d hd
      exact ⟨_, hg⟩
  | names ds =>
    simp only
    constructor
    · rintro ⟨r, h⟩
      obtain ⟨hdup, hcase⟩ := mean_names_cases f ds r h
      refine ⟨nodup_of_hasDup _ hdup, ?_⟩
      rcases hcase with ⟨hsame, _⟩ | ⟨_, m', axes, _, haxes, _, _⟩
      · intro d hd
        exact ((sameMultiset_iff_perm _ _).mp hsame).mem_iff.mp hd
      · exact dimIndices_ok_mem _ _ _ haxes
    · rintro ⟨hnd, hmem⟩
      by_cases hp : ds.Perm f.mesh.region.dims
      · exact ⟨_, by rw [mean_all_named f hf ds hp]; rfl⟩
      · have hdl : f.mesh.region.dims.length = f.mesh.ndim := hf.1.1.2.2.1
        have hlt := length_lt_of_not_perm ds _ hnd hmem hp
        obtain ⟨g, hg⟩ := mean_dirs_ok f hf hsubs ds hnd hmem (by rw [← hdl]; exact hlt)
        exact ⟨_, hg⟩
  | other => simp [mean]

/-- Invariant over histories: after ANY history of `mesh.scale` / `mesh.translate` in-place
steps (which transform the region and every subregion alike; negative factors reflect) the
subregions still fit the mesh; on a mesh without subregions the same holds for ANY history,
region-level steps included.  So every directional integral, every cumulative integral and
every mean that existed before still exists (acceptance theorems `integrate_ok_iff`,
`mean_ok_iff` apply to the current state). -/
theorem subregions_fit_after_history (f : Fld) (hf : WF f) (hsubs : SubsFit f.mesh) (steps : List HStep)
    (hall : (∀ s ∈ steps, (∃ fac ref, s = HStep.scaleMesh fac ref) ∨ (∃ v, s = HStep.translateMesh v)) ∨
      f.mesh.subs = []) :
    WF (runH f steps) ∧ SubsFit (runH f steps).mesh ∧
    ∀ d, d ∈ f.mesh.region.dims → ∀ cum, ∃ r, integrate (runH f steps) (.name d) cum = .ok r := by
  obtain ⟨hwf, _, _, _, hdims, _, _⟩ := runH_spec steps f hf
  have hfit : SubsFit (runH f steps).mesh := by
    rcases hall with hall | hnil
    · exact subsFit_runH steps hall f hf hsubs
    · exact subsFit_nil _ (runH_subs_nil steps f hnil)
  refine ⟨hwf, hfit, ?_⟩
  intro d hd cum
  exact (integrate_ok_iff _ hwf hfit (.name d) cum).mpr (by rw [hdims]; exact hd)

/-! ## Refusals -/

/-- a cumulative integral over all directions is rejected -/
theorem cumulative_all_dirs_rejected (f : Fld) : integrate f .none true = .error .value := rfl

/-- `integrate` accepts only a single direction name -/
theorem integrate_rejects_non_string (f : Fld) (ds : List String) (cum : Bool) :
    integrate f (.names ds) cum = .error .type ∧ integrate f .other cum = .error .type := ⟨rfl, rfl⟩

/-- an unknown direction is rejected by `integrate` and `mean` -/
theorem unknown_direction_rejected (f : Fld) (d : String) (cum : Bool) (e : Err)
    (h : f.mesh.region.dim2index d = .error e) :
    integrate f (.name d) cum = .error e ∧ mean f (.name d) = .error e := by
  unfold integrate mean
  simp only [h]
  exact ⟨trivial, trivial⟩

/-- duplicate directions are rejected by `mean`; so is a direction that is neither a name
nor a list of names -/
theorem mean_rejects (f : Fld) (ds : List String) (h : hasDup ds = true) :
    mean f (.names ds) = .error .value ∧ mean f .other = .error .value := by
  unfold mean
  simp [h]

/-! ## Non-vacuity: the hypotheses of the theorems above are met by concrete fields
(`exFld`: 2×3 cells, two components; `exFld1`: 1-d, cells of length 1/2; `exFld3`: 2×2×3 cells
of sizes 1, 1/2, 2 — `DFV/Lemmas/C06Ok.lean`; `exFldS`: `exFld` with two subregions —
`DFV/Lemmas/C06Centre.lean`), and by every well-formed field whose subregions fit the mesh
(theorems `…_ok`, `integrate_ok_iff`, `mean_ok_iff`). -/

example : WF exFld ∧ WF exFld1 ∧ WF exFld3 := ⟨exFld_wf, exFld1_wf, exFld3_wf⟩

/-- hypotheses of `integrate_dir`, `cumulative_formula`, `cumulative_last`, `mean_dir_eq` -/
example : (∃ g, integrate exFld3 (.name "y") false = .ok (.field g)) ∧
    (∃ g, integrate exFld3 (.name "y") true = .ok (.field g)) ∧
    (∃ g, mean exFld3 (.name "y") = .ok (.field g)) :=
  ⟨by obtain ⟨g, h, _⟩ := (integrate_dir_ok exFld3 exFld3_wf (subsFit_nil _ rfl) "y" (by decide)).1 (by decide); exact ⟨g, h⟩,
   integrate_cum_ok exFld3 exFld3_wf "y" (by decide),
   mean_dir_ok exFld3 exFld3_wf (subsFit_nil _ rfl) (by decide) "y" (by decide)⟩

/-- hypotheses of `integrate_dir_1d`, `cumulative_last_1d` -/
example : (∃ v, integrate exFld1 (.name "x") false = .ok (.vals v)) ∧
    (∃ g, integrate exFld1 (.name "x") true = .ok (.field g)) :=
  ⟨(integrate_dir_ok exFld1 exFld1_wf (subsFit_nil _ rfl) "x" (by decide)).2 rfl, integrate_cum_ok exFld1 exFld1_wf "x" (by decide)⟩

/-- `fubini` / `fubini_total`: all six orders of three directions -/
example : ∀ ds ∈ [["x", "y", "z"], ["x", "z", "y"], ["y", "x", "z"], ["y", "z", "x"], ["z", "x", "y"], ["z", "y", "x"]],
    integrateSeq exFld3 ds = integrate exFld3 .none false := by
  intro ds hds
  simp only [List.mem_cons, List.mem_nil_iff, or_false] at hds
  rcases hds with rfl | rfl | rfl | rfl | rfl | rfl <;>
    exact fubini_total exFld3 exFld3_wf (subsFit_nil _ rfl) _ (by decide) (by decide) rfl

/-- hypotheses of `mean_dirs_eq`: a proper subset of the directions, in an order that is not
the storage order -/
example : (∃ gm, mean exFld3 (.names ["z", "x"]) = .ok (.field gm)) ∧
    (∃ gi, integrateSeq exFld3 ["z", "x"] = .ok (.field gi)) :=
  ⟨mean_dirs_ok exFld3 exFld3_wf (subsFit_nil _ rfl) _ (by decide) (by decide) (by decide),
   integrateSeq_ok exFld3 exFld3_wf (subsFit_nil _ rfl) _ (by decide) (by decide) (by decide)⟩

/-- `mean_all_named`: a permutation of the directions -/
example : mean exFld (.names ["y", "x"]) = mean exFld .none :=
  mean_all_named exFld exFld_wf _ (List.Perm.swap "x" "y" [])

/-- hypotheses of `integrate_linear` (two fields on one mesh), `integrate_componentwise`,
`integrate_translation_invariant` (the moved field is well formed and its integrals exist) -/
example : ∃ rf rg r', integrate exFld (.name "x") false = .ok rf ∧
    integrate (lin 2 exFld (-3) exFld) (.name "x") false = .ok rg ∧
    integrate (translate [5, -7/2] exFld) (.name "x") false = .ok r' := by
  obtain ⟨g1, h1, _⟩ := (integrate_dir_ok exFld exFld_wf (subsFit_nil _ rfl) "x" (by decide)).1 (by decide)
  obtain ⟨g2, h2, _⟩ := (integrate_dir_ok (lin 2 exFld (-3) exFld) ⟨exFld_wf.1, exFld_wf.2⟩ (subsFit_nil _ rfl) "x" (by decide)).1 (by decide)
  obtain ⟨g3, h3, _⟩ := (integrate_dir_ok (translate [5, -7/2] exFld) (translate_wf _ _ exFld_wf) (subsFit_nil _ rfl) "x" (by decide)).1 (by decide)
  exact ⟨_, _, _, h1, h2, h3⟩

/-- `SubsFit` is met by a concrete mesh with two subregions (`exFldS`: `r0` = [1,2]×[1,3],
`r1` = [0,1]×[3,4] on the 2×3 mesh), so `sel_subregions`, the `…_ok` theorems, `fubini_perm`,
`integrate_ok_iff`, `mean_ok_iff` apply to meshes that really carry subregions -/
example : WF exFldS ∧ SubsFit exFldS.mesh ∧ exFldS.mesh.subs.length = 2 ∧
    (∃ g, integrate exFldS (.name "x") false = .ok (.field g) ∧ SubsFit g.mesh) ∧
    integrateSeq exFldS ["y", "x"] = integrate exFldS .none false :=
  ⟨exFldS_wf, exFldS_fits, rfl,
   (integrate_dir_ok exFldS exFldS_wf exFldS_fits "x" (by decide)).1 (by decide),
   fubini_perm exFldS exFldS_wf exFldS_fits _ (List.Perm.swap "x" "y" [])⟩

/-- hypotheses of `mean_linear`, `mean_componentwise`, `mean_translation_invariant`: the means
exist for a direction, for a list, and on the moved field -/
example : (∃ r, mean exFld3 (.name "y") = .ok r) ∧ (∃ r, mean exFld3 (.names ["z", "x"]) = .ok r) ∧
    (∃ r, mean (translate [1, 2, 3] exFld3) (.names ["z", "x"]) = .ok r) :=
  ⟨(mean_ok_iff exFld3 exFld3_wf (subsFit_nil _ rfl) (.name "y")).mpr ⟨by decide, by decide⟩,
   (mean_ok_iff exFld3 exFld3_wf (subsFit_nil _ rfl) (.names ["z", "x"])).mpr ⟨by decide, by decide⟩,
   (mean_ok_iff _ (translate_wf _ _ exFld3_wf) (subsFit_nil _ rfl) (.names ["z", "x"])).mpr ⟨by decide, by decide⟩⟩

/-- hypotheses of `integrateSeq_perm` / `integrateSeq_vals`: two orders of a proper subset -/
example : ∃ g g', integrateSeq exFld3 ["z", "x"] = .ok (.field g) ∧ integrateSeq exFld3 ["x", "z"] = .ok (.field g') := by
  obtain ⟨g, g', h, h', _⟩ := integrateSeq_perm_total exFld3 exFld3_wf (subsFit_nil _ rfl) ["z", "x"] ["x", "z"]
    (by decide) (by decide) (by decide) (List.Perm.swap "x" "z" [])
  exact ⟨g, g', h, h'⟩

/-- hypotheses of `cumulative_step` / `cumulative_first`: an index with a successor along the
axis, and one at the start of the axis -/
example : inRange exFld3.data.shape [1, 0, 0] = true ∧ ([1, 0, 0] : List Nat).getD 2 0 + 1 < exFld3.data.shape.getD 2 0 ∧
    ([1, 0, 0] : List Nat).getD 2 0 = 0 := ⟨by decide, by decide, by decide⟩

/-- hypotheses of `hstep_geometry` and the history theorems: an accepted in-place scaling with a
negative factor and an accepted translation -/
example : (∃ m', hstepM exFld.mesh (.scaleRegion (.vec [-2, 1/2]) none) = .ok m') ∧
    (∃ m', hstepM exFld.mesh (.translateRegion [3, -1/2]) = .ok m') ∧
    (∀ a, stepFac (.translateMesh [3, -1/2]) a = 1) :=
  ⟨(hstepM_region_ok exFld.mesh exFld_wf.1).2 (.vec [-2, 1/2]) none rfl rfl (by
      intro a ha
      have : a = 0 ∨ a = 1 := by
        have : a < 2 := ha
        omega
      rcases this with rfl | rfl <;> norm_num [T.Factor.at]),
   (hstepM_region_ok exFld.mesh exFld_wf.1).1 [3, -1/2] rfl, fun _ => rfl⟩

/-- hypothesis of `integrate_monotone`: `f ≤ abs f` cell by cell -/
example : ∀ t, cget exFld.data t 0 ≤ cget (absF exFld).data t 0 := by
  intro t
  rw [cget_absF exFld t 0 (by decide)]
  exact le_abs_self _

/-- hypotheses of `meanSeq_eq_mean_list`: a direction-by-direction mean and the list mean exist
for an order that is not the storage order -/
example : ∃ gs gm, meanSeq exFld3 ["z", "x"] = .ok (.field gs) ∧ mean exFld3 (.names ["z", "x"]) = .ok (.field gm) := by
  obtain ⟨gs, gm, h1, h2, _⟩ := meanSeq_total exFld3 exFld3_wf (subsFit_nil _ rfl) ["z", "x"]
    (by decide) (by decide) (by decide)
  exact ⟨gs, gm, h1, h2⟩

/-- refusals are reached: an unknown name, a duplicate -/
example : exFld.mesh.region.dim2index "q" = .error .value ∧ hasDup ["x", "y", "x"] = true := ⟨by decide, by decide⟩

end DFV.C06
