import DFV.Lemmas.C06Line
/-!
# C06 — integrals and means are cell sums times cell measure, consistent across axes

Property theorems about the model of `Field.integrate`, `Field.mean`, `Mesh.sel(dim)` and
`Mesh.dV` (`DFV/Model/C06.lean`).  Number of dimensions, shape, cell sizes, position of the
mesh, number of components, data, direction and order of directions are universally
quantified.  `WF f` = the mesh satisfies `Mesh.Inv` and the value array has the mesh's shape.
`cget a i c` is component `c` of cell `i`; `sumTo n x = x 0 + … + x (n-1)`;
`nestSum shape g` is the sum of `g` over all multi-indices of the shape.
-/
namespace DFV.C06
open DFV

/-! ## The integral over all directions -/

/-- `integrate()` is, per component, the cell volume times the sum of all cell values
(the model sums NumPy's flat buffer; the theorem turns it into the sum over all
multi-indices, for every shape). -/
theorem integrate_all (f : Fld) :
    integrate f .none false
      = .ok (.vals (tab f.nvdim fun c => dV f.mesh * nestSum f.data.shape fun i => cget f.data i c)) := by
  unfold integrate
  simp only [Bool.false_eq_true, if_false]
  congr 2
  apply tab_congr
  intro c _
  unfold sumAll NDA.toList
  rw [List.map_map, lsum_indicesC, mul_comm]
  rfl

/-- the cell volume is the product over the axes of edge length / cell count -/
theorem dV_eq (m : Mesh) : dV m = ratProd (tab m.ndim fun a => m.region.edge a / (m.nAt a : Rat)) := rfl

/-- cell volume × number of cells = volume of the region -/
theorem dV_times_cells (m : Mesh) (hm : m.Inv) :
    dV m * (natProd m.n : Rat) = ratProd m.region.edges := dV_mul_count m hm

/-! ## Directional integrals live on the mesh with that axis removed -/

/-- `integrate(d)` (more than one dimension): the result lives on the mesh with the axis of
`d` removed — corners, dims, units and cell counts of the remaining axes unchanged — keeps
labels and mapping, drops the unit, is valid everywhere, and its value at the reduced index
`i` is the cell length of that axis times the sum along that axis. -/
theorem integrate_dir (f : Fld) (hf : WF f) (d : String) (g : Fld)
    (h : integrate f (.name d) false = .ok (.field g)) :
    ∃ ax, f.mesh.region.dim2index d = .ok ax ∧ ax < f.mesh.ndim ∧
      g.mesh.region.pmin = removeAt f.mesh.region.pmin ax ∧
      g.mesh.region.pmax = removeAt f.mesh.region.pmax ax ∧
      g.mesh.region.dims = removeAt f.mesh.region.dims ax ∧
      g.mesh.region.units = removeAt f.mesh.region.units ax ∧
      g.mesh.n = removeAt f.mesh.n ax ∧ g.data.shape = removeAt f.mesh.n ax ∧
      g.nvdim = f.nvdim ∧ g.vdims = f.vdims ∧ g.vmap = f.vmap ∧ g.unit = none ∧
      (∀ i, g.valid.get i = true) ∧
      ∀ i c, inRange (removeAt f.mesh.n ax) i = true → c < f.nvdim →
        cget g.data i c = f.mesh.cellAt ax * sumTo (f.mesh.nAt ax) fun j => cget f.data (insertAt i ax j) c :=
  integrate_dir_spec f hf d g h

/-- on a 1-d mesh `integrate(d)` returns the bare array: cell length × sum of the cells -/
theorem integrate_dir_1d (f : Fld) (hf : WF f) (d : String) (v : List Rat)
    (h : integrate f (.name d) false = .ok (.vals v)) :
    f.mesh.ndim = 1 ∧ f.mesh.region.dim2index d = .ok 0 ∧
    v = tab f.nvdim fun c => f.mesh.cellAt 0 * sumTo (f.mesh.nAt 0) fun j => cget f.data [j] c := by
  obtain ⟨ax, hax, h1, hv⟩ := integrate_dir_1d_unpack f d v h
  obtain ⟨haxlt, _⟩ := dim2index_ok _ _ _ hax
  have hdl : f.mesh.region.dims.length = f.mesh.ndim := hf.1.1.2.2.1
  have hax0 : ax = 0 := by omega
  subst hax0
  refine ⟨h1, hax, ?_⟩
  rw [hv]
  simp only [scaleBy, sumAxis]
  apply tab_congr
  intro c hc
  simp only [cget]
  rw [getD_tab _ _ _ _ hc, mul_comm, hf.2]
  rfl

/-- The cell measure is consistent across axis removal: the reduced mesh `integrate(d)` /
`mean(d)` / `Mesh.sel(d)` return has the cell lengths of the remaining axes (`skip ax a` is the
original position of the reduced mesh's axis `a`), and the cell volume of the original mesh is
the cell length of the removed axis times the cell volume of the reduced mesh. -/
theorem reduced_mesh_cells (m : Mesh) (hm : m.Inv) (d : String) (m' : Mesh) (h : sel m d = .ok m') :
    ∃ ax, m.region.dim2index d = .ok ax ∧ (∀ a, m'.cellAt a = m.cellAt (skip ax a)) ∧
      dV m = m.cellAt ax * dV m' ∧ m'.Inv := by
  obtain ⟨ax, hax, _⟩ := sel_spec m hm d m' h
  exact ⟨ax, hax, fun a => sel_cellAt m hm d m' h ax hax a, sel_dV m hm d m' h ax hax, sel_inv m hm d m' h⟩

/-! ## Fubini: any order of directions gives the volume integral -/

/-- Integrating direction by direction, in ANY order `ds` of all the directions (each step on
the mesh the previous step returned, the last step on a 1-d mesh returning the bare array),
gives exactly `integrate()`.  Induction over the list of directions; each step removes one
axis of the nested sum and one factor of the cell volume. -/
theorem fubini (f : Fld) (hf : WF f) (ds : List String) (hlen : ds.length = f.mesh.ndim) (r : Res)
    (h : integrateSeq f ds = .ok r) : integrate f .none false = .ok r := by
  induction ds generalizing f with
  | nil =>
    have := hf.1.1.1
    have h0 : f.mesh.ndim = f.mesh.region.pmin.length := rfl
    simp at hlen; omega
  | cons d ds ih =>
    unfold integrateSeq at h
    split at h
    · cases h
    · rename_i v hv
      split at h
      · injection h with h; subst h
        obtain ⟨h1, hax0, hvv⟩ := integrate_dir_1d f hf d v hv
        rw [integrate_all, hvv]
        congr 2
        apply tab_congr
        intro c _
        have hlen1 : f.mesh.n.length = 1 := by rw [hf.1.2.1]; exact h1
        have hcell : f.mesh.cell = [f.mesh.cellAt 0] := by
          unfold Mesh.cell; rw [h1]; rfl
        unfold dV
        rw [hcell, hf.2]
        match hn : f.mesh.n, hlen1 with
        | [k], _ =>
          have : f.mesh.nAt 0 = k := by unfold Mesh.nAt; rw [hn]; rfl
          rw [this]
          simp [nestSum, ratProd]
      · cases h
    · rename_i g hg
      obtain ⟨ax, m', hax, _, hsel, hshape, hgeq⟩ := integrate_dir_unpack f d g hg
      obtain ⟨ax', hax', haxlt, hpmin, _, _, _, hn, hgshape, hnv, _, _, _, _, hval⟩ := integrate_dir f hf d g hg
      rw [hax] at hax'; injection hax' with hax'; subst hax'
      have hgm : g.mesh = m' := by rw [hgeq]
      have hwf : WF g := ⟨by rw [hgm]; exact sel_inv f.mesh hf.1 d m' hsel, by rw [hgshape, hn]⟩
      have hlen' : ds.length = g.mesh.ndim := by
        have h1 : g.mesh.ndim = g.mesh.region.pmin.length := rfl
        have h2 : f.mesh.ndim = f.mesh.region.pmin.length := rfl
        rw [h1, hpmin, removeAt_length _ _ (by rw [← h2]; exact haxlt), ← h2, ← hlen]; simp
      have := ih g hwf hlen' h
      rw [← this, integrate_all, integrate_all, hnv]
      congr 2
      apply tab_congr
      intro c hc
      rw [hgshape, sel_dV f.mesh hf.1 d m' hsel ax hax, hgm]
      rw [nestSum_congr _ _ _ (fun i hi => hval i c hi hc), nestSum_mul_left, hf.2,
        ← nestSum_removeAt f.mesh.n ax (by rw [hf.1.2.1]; exact haxlt)]
      unfold Mesh.nAt
      ring

/-! ## The cumulative integral -/

/-- `integrate(d, cumulative=True)`: same mesh, and the entry at cell `i` is the cell length
times (the sum of the cells before it along the axis plus half its own value). -/
theorem cumulative_formula (f : Fld) (d : String) (r : Res)
    (h : integrate f (.name d) true = .ok r) :
    ∃ ax g, f.mesh.region.dim2index d = .ok ax ∧ r = .field g ∧ g.mesh = f.mesh ∧
      g.data.shape = f.data.shape ∧ g.nvdim = f.nvdim ∧ g.unit = none ∧
      ∀ i c, inRange f.data.shape i = true → c < f.nvdim →
        cget g.data i c = f.mesh.cellAt ax *
          (sumTo (i.getD ax 0) (fun l => cget f.data (setAt i ax l) c) + cget f.data i c / 2) := by
  obtain ⟨ax, hax, _, hr⟩ := integrate_cum_unpack f d r h
  refine ⟨ax, _, hax, hr, rfl, rfl, rfl, rfl, ?_⟩
  intro i c hi hc
  simp only
  rw [cget_force (cumAxis f.nvdim (f.mesh.cellAt ax) f.data ax) i c hi, cget_cumAxis _ _ _ _ _ _ hc]
  split
  · rename_i h0
    rw [h0]; simp only [sumTo]; ring
  · rename_i h0
    rw [cumTo_eq]
    have : i.getD ax 0 - 1 + 1 = i.getD ax 0 := by omega
    rw [this]; ring

/-- The first cumulative entry along the axis is half the first cell times the cell length. -/
theorem cumulative_first (f : Fld) (d : String) (g : Fld) (h : integrate f (.name d) true = .ok (.field g)) :
    ∃ ax, f.mesh.region.dim2index d = .ok ax ∧
      ∀ i c, inRange f.data.shape i = true → i.getD ax 0 = 0 → c < f.nvdim →
        cget g.data i c = f.mesh.cellAt ax * (cget f.data i c / 2) := by
  obtain ⟨ax, g', hax, hr, _, _, _, _, hcum⟩ := cumulative_formula f d _ h
  injection hr with hr; subst hr
  refine ⟨ax, hax, ?_⟩
  intro i c hi h0 hc
  rw [hcum i c hi hc, h0]
  simp only [sumTo]
  ring

/-- Trapezoid rule: consecutive cumulative entries along the axis differ by the cell length
times the average of the two cell values — the cumulative integral is the discrete
antiderivative that puts half of every cell on either side of its centre. -/
theorem cumulative_step (f : Fld) (d : String) (g : Fld) (h : integrate f (.name d) true = .ok (.field g)) :
    ∃ ax, f.mesh.region.dim2index d = .ok ax ∧
      ∀ i c, inRange f.data.shape i = true → i.getD ax 0 + 1 < f.data.shape.getD ax 0 → c < f.nvdim →
        cget g.data (setAt i ax (i.getD ax 0 + 1)) c - cget g.data i c
          = f.mesh.cellAt ax * ((cget f.data i c + cget f.data (setAt i ax (i.getD ax 0 + 1)) c) / 2) := by
  obtain ⟨ax, g', hax, hr, _, _, _, _, hcum⟩ := cumulative_formula f d _ h
  injection hr with hr; subst hr
  refine ⟨ax, hax, ?_⟩
  intro i c hi hlt hc
  have haxs : ax < f.data.shape.length := lt_length_of_getD_pos _ _ (by omega)
  have haxi : ax < i.length := by rw [inRange_length _ _ hi]; exact haxs
  have hi' : inRange f.data.shape (setAt i ax (i.getD ax 0 + 1)) = true := inRange_setAt _ _ _ _ hi hlt
  rw [hcum _ c hi' hc, hcum i c hi hc, getD_setAt_self i ax _ haxi]
  simp only [setAt_setAt, sumTo]
  rw [setAt_getD_self]
  ring

/-- The last cumulative entry plus half the last cell is the directional integral. -/
theorem cumulative_last (f : Fld) (hf : WF f) (d : String) (gc gd : Fld)
    (hc : integrate f (.name d) true = .ok (.field gc))
    (hd : integrate f (.name d) false = .ok (.field gd)) :
    ∃ ax, f.mesh.region.dim2index d = .ok ax ∧
      ∀ i c, inRange f.mesh.n i = true → i.getD ax 0 = f.mesh.nAt ax - 1 → c < f.nvdim →
        cget gc.data i c + f.mesh.cellAt ax * (cget f.data i c / 2) = cget gd.data (removeAt i ax) c := by
  obtain ⟨ax, g, hax, hr, _, _, _, _, hcum⟩ := cumulative_formula f d _ hc
  injection hr with hr; subst hr
  obtain ⟨ax', hax', haxlt, _, _, _, _, _, _, _, _, _, _, _, hdir⟩ := integrate_dir f hf d gd hd
  rw [hax] at hax'; injection hax' with hax'; subst hax'
  refine ⟨ax, hax, ?_⟩
  intro i c hi hlast hcn
  have hilen : i.length = f.mesh.n.length := inRange_length _ _ hi
  have haxi : ax < i.length := by rw [hilen, hf.1.2.1]; exact haxlt
  have hnpos : 0 < f.mesh.nAt ax := hf.1.2.2 ax haxlt
  rw [hcum i c (by rw [hf.2]; exact hi) hcn, hdir (removeAt i ax) c (inRange_removeAt _ _ _ hi) hcn]
  have hsplit : f.mesh.nAt ax = i.getD ax 0 + 1 := by omega
  rw [hsplit]
  simp only [sumTo]
  rw [insertAt_removeAt i ax _ haxi, setAt_getD_self]
  have hcong : sumTo (i.getD ax 0) (fun j => cget f.data (insertAt (removeAt i ax) ax j) c)
      = sumTo (i.getD ax 0) (fun l => cget f.data (setAt i ax l) c) :=
    sumTo_congr _ _ _ fun j _ => by rw [insertAt_removeAt i ax j haxi]
  rw [hcong]; ring

/-- 1-d form: the bare array returned by `integrate(d)` is the last cumulative entry plus
half the last cell. -/
theorem cumulative_last_1d (f : Fld) (hf : WF f) (d : String) (gc : Fld) (v : List Rat)
    (hc : integrate f (.name d) true = .ok (.field gc))
    (hd : integrate f (.name d) false = .ok (.vals v)) (c : Nat) (hcn : c < f.nvdim) :
    cget gc.data [f.mesh.nAt 0 - 1] c + f.mesh.cellAt 0 * (cget f.data [f.mesh.nAt 0 - 1] c / 2) = v.getD c 0 := by
  obtain ⟨h1, hax0, hv⟩ := integrate_dir_1d f hf d v hd
  obtain ⟨ax, g, hax, hr, _, _, _, _, hcum⟩ := cumulative_formula f d _ hc
  injection hr with hr; subst hr
  rw [hax0] at hax; injection hax with hax; subst hax
  have hnpos : 0 < f.mesh.nAt 0 := hf.1.2.2 0 (by omega)
  have hlen : f.mesh.n.length = 1 := by rw [hf.1.2.1]; exact h1
  have hin : inRange f.data.shape [f.mesh.nAt 0 - 1] = true := by
    rw [hf.2]
    match hn : f.mesh.n, hlen with
    | [k], _ =>
      have : f.mesh.nAt 0 = k := by unfold Mesh.nAt; rw [hn]; rfl
      simp [inRange]; omega
  rw [hcum _ c hin hcn, hv, getD_tab _ _ _ _ hcn]
  have hsplit : f.mesh.nAt 0 = (f.mesh.nAt 0 - 1) + 1 := by omega
  conv_rhs => rw [hsplit]
  simp only [sumTo, List.getD_cons_zero, setAt]
  ring

/-! ## Means are integrals divided by the integrated extent -/

/-- `mean()` is the integral over all directions divided by the volume of the region. -/
theorem mean_all_eq (f : Fld) (hf : WF f) :
    mean f .none = .ok (.vals (tab f.nvdim fun c =>
      (dV f.mesh * nestSum f.data.shape fun i => cget f.data i c) / ratProd f.mesh.region.edges)) := by
  unfold mean
  simp only
  congr 2
  unfold meanAll
  apply tab_congr
  intro c _
  unfold sumAll NDA.toList
  rw [List.map_map, lsum_indicesC, ← dV_mul_count f.mesh hf.1, hf.2]
  have hd := dV_pos f.mesh hf.1
  have hn : (0 : Rat) < (natProd f.mesh.n : Rat) := by
    have : 0 < natProd f.mesh.n := by
      apply natProd_pos
      intro k hk
      obtain ⟨a, ha, rfl⟩ := List.getElem_of_mem hk
      have := hf.1.2.2 a (by show a < f.mesh.region.ndim; rw [← hf.1.2.1]; exact ha)
      unfold Mesh.nAt at this
      simpa [List.getD_eq_getElem?_getD, ha] using this
    exact_mod_cast this
  have e : ((fun v : List Rat => v.getD c 0) ∘ f.data.get) = fun i => cget f.data i c := rfl
  rw [e]
  field_simp

/-- `mean(d)` is `integrate(d)` divided by the edge length along `d`, on the same reduced
mesh; the unit is kept. -/
theorem mean_dir_eq (f : Fld) (hf : WF f) (d : String) (gi : Fld) (r : Res)
    (hi : integrate f (.name d) false = .ok (.field gi)) (hm : mean f (.name d) = .ok r) :
    ∃ ax gm, f.mesh.region.dim2index d = .ok ax ∧ r = .field gm ∧ gm.mesh = gi.mesh ∧
      gm.data.shape = gi.data.shape ∧ gm.unit = f.unit ∧ gm.vdims = f.vdims ∧ gm.vmap = f.vmap ∧
      ∀ i c, inRange (removeAt f.mesh.n ax) i = true → c < f.nvdim →
        cget gm.data i c = cget gi.data i c / f.mesh.region.edge ax := by
  obtain ⟨ax, m', hax, _, hsel, hshape, hg⟩ := integrate_dir_unpack f d gi hi
  obtain ⟨ax', m'', hax', hsel', _, hr⟩ := mean_name_unpack f d r hm
  rw [hax] at hax'; injection hax' with hax'; subst hax'
  rw [hsel] at hsel'; injection hsel' with hsel'; subst hsel'
  obtain ⟨_, _, haxlt, _⟩ := sel_spec f.mesh hf.1 d m' hsel
  have haxlt : ax < f.mesh.ndim := by
    obtain ⟨ax2, hax2, hlt, _⟩ := sel_spec f.mesh hf.1 d m' hsel
    rw [hax] at hax2; injection hax2 with hax2; subst hax2; exact hlt
  subst hg
  refine ⟨ax, _, hax, hr, rfl, rfl, rfl, rfl, rfl, ?_⟩
  intro i c hin hc
  have hi1 : inRange (removeAt f.data.shape ax) i = true := by rw [hf.2]; exact hin
  simp only
  rw [cget_force _ _ _ (by exact hi1), cget_force _ _ _ (by exact hi1), cget_divBy _ _ _ _ _ hc,
    cget_scaleBy _ _ _ _ _ hc, hf.2, ← cells_cover f.mesh hf.1 ax haxlt]
  have hn : ((f.mesh.nAt ax : Nat) : Rat) ≠ 0 := by
    exact_mod_cast (Nat.pos_iff_ne_zero.mp (hf.1.2.2 ax haxlt))
  have hcp := cell_pos' f.mesh hf.1 ax haxlt
  show _ / ((f.mesh.nAt ax : Nat) : Rat) = _
  field_simp

/-- `sorted(a) == sorted(b)` holds exactly for permutations -/
theorem sameMultiset_iff_perm (a b : List String) : sameMultiset a b = true ↔ a.Perm b := by
  unfold sameMultiset
  rw [List.perm_iff_count]
  simp only [Bool.and_eq_true, List.all_eq_true, beq_iff_eq]
  constructor
  · intro ⟨h1, h2⟩ x
    by_cases hxa : x ∈ a
    · exact h1 x hxa
    · by_cases hxb : x ∈ b
      · exact h2 x hxb
      · rw [List.count_eq_zero_of_not_mem hxa, List.count_eq_zero_of_not_mem hxb]
  · intro h
    exact ⟨fun x _ => h x, fun x _ => h x⟩

/-- Listing all directions, in any order, is the mean over everything: the integral over all
directions divided by the volume of the region. -/
theorem mean_all_named (f : Fld) (hf : WF f) (ds : List String) (hp : ds.Perm f.mesh.region.dims) :
    mean f (.names ds) = mean f .none := by
  have hnd : ds.Nodup := hp.nodup_iff.mpr (nodup_of_hasDup _ hf.1.1.2.2.2.2.1)
  have hdup : hasDup ds = false := hasDup_of_nodup ds hnd
  unfold mean
  simp only [hdup, Bool.false_eq_true, if_false, (sameMultiset_iff_perm _ _).mpr hp, if_true]

/-- `mean(list of directions)` (a proper subset, in any order) is the result of integrating
over those directions one after the other — in that order — divided by the product of their
edge lengths; both live on the same reduced mesh. -/
theorem mean_dirs_eq (f : Fld) (hf : WF f) (ds : List String) (gm gi : Fld)
    (hm : mean f (.names ds) = .ok (.field gm)) (hi : integrateSeq f ds = .ok (.field gi)) :
    gm.mesh = gi.mesh ∧ gm.data.shape = gi.data.shape ∧ gm.nvdim = f.nvdim ∧ gm.unit = f.unit ∧
    ∀ i c, inRange gi.data.shape i = true → c < f.nvdim →
      cget gm.data i c = cget gi.data i c / extent f.mesh.region ds := by
  obtain ⟨_, m', axes, hselm, hax, hshape, hgm⟩ := mean_names_unpack f ds gm hm
  obtain ⟨axes', C', hax', hselm', hinv, hprod⟩ := chain f hf ds f _ 1 gi (chainInv_init f hf) hi
  rw [hax] at hax'; injection hax' with hax'; subst hax'
  rw [hselm] at hselm'; injection hselm' with hselm'
  rw [← keepMask_eq_foldl, dropProd_allTrue] at hprod
  rw [← keepMask_eq_foldl] at hinv
  obtain ⟨hwgi, _, _, hCpos, _, _, _, hn, hval⟩ := hinv
  have hgish : gi.data.shape = gi.mesh.n := hwgi.2
  subst hgm
  refine ⟨hselm', ?_, rfl, rfl, ?_⟩
  · show (meanAxes f.nvdim f.data axes).shape = _
    rw [hshape, hselm', hgish]
  · intro i c hin hc
    have hin' : inRange (meanAxes f.nvdim f.data axes).shape i = true := by
      rw [hshape, hselm', ← hgish]; exact hin
    simp only
    rw [cget_force _ _ _ hin', cget_meanAxes _ _ _ _ _ hc, hval i c (by rw [← hgish]; exact hin) hc, hf.2]
    have hD : (0 : Rat) < (dropProd (keepMask f.mesh.n.length axes) f.mesh.n : Rat) := by
      have : 0 < dropProd (keepMask f.mesh.n.length axes) f.mesh.n := by
        apply dropProd_pos
        intro k hk
        obtain ⟨a, ha, rfl⟩ := List.getElem_of_mem hk
        have := hf.1.2.2 a (by show a < f.mesh.region.ndim; rw [← hf.1.2.1]; exact ha)
        unfold Mesh.nAt at this
        simpa [List.getD_eq_getElem?_getD, ha] using this
      exact_mod_cast this
    have hprod' : extent f.mesh.region ds = C' * (dropProd (keepMask f.mesh.n.length axes) f.mesh.n : Rat) := by
      rw [hprod]; ring
    rw [hprod']
    field_simp

/-! ## Every form at once; linear, per component, independent of the mesh position -/

/-- every successful `integrate` returns the spec values on the spec shape -/
theorem integrate_vals (f : Fld) (hf : WF f) (dir : Dir) (cum : Bool) (r : Res)
    (h : integrate f dir cum = .ok r) :
    r.nv = f.nvdim ∧ r.shape = ishape f dir cum ∧
    ∀ i c, inRange r.shape i = true → c < f.nvdim → r.cval i c = ival f dir cum i c := by
  cases dir with
  | none =>
    cases cum with
    | true => cases h
    | false =>
      rw [integrate_all] at h
      injection h with h; subst h
      refine ⟨by simp [Res.nv], rfl, ?_⟩
      intro i c _ hc
      simp only [Res.cval, ival]
      rw [getD_tab _ _ _ _ hc]
  | name d =>
    cases cum with
    | true =>
      obtain ⟨ax, g, hax, hr, _, hs, hnv, _, hval⟩ := cumulative_formula f d r h
      subst hr
      refine ⟨hnv, ?_, ?_⟩
      · simp only [Res.shape, ishape, hax, if_true]; rw [hs, hf.2]
      · intro i c hi hc
        simp only [Res.cval, ival, hax, if_true]
        exact hval i c (by simpa [Res.shape, hs] using hi) hc
    | false =>
      cases r with
      | vals v =>
        obtain ⟨h1, hax, hv⟩ := integrate_dir_1d f hf d v h
        have hlen1 : f.mesh.n.length = 1 := by rw [hf.1.2.1]; exact h1
        refine ⟨by rw [hv]; simp [Res.nv], ?_, ?_⟩
        · simp only [Res.shape, ishape, hax, Bool.false_eq_true, if_false]
          match hn : f.mesh.n, hlen1 with
          | [k], _ => rfl
        · intro i c hi hc
          have := inRange_nil_iff i hi
          subst this
          simp only [Res.cval, ival, hax, Bool.false_eq_true, if_false, insertAt_zero]
          rw [hv, getD_tab _ _ _ _ hc]
      | field g =>
        obtain ⟨ax, hax, _, _, _, _, _, _, hs, hnv, _, _, _, _, hval⟩ := integrate_dir f hf d g h
        refine ⟨hnv, ?_, ?_⟩
        · simp only [Res.shape, ishape, hax, Bool.false_eq_true, if_false]; exact hs
        · intro i c hi hc
          simp only [Res.cval, ival, hax, Bool.false_eq_true, if_false]
          exact hval i c (by simpa [Res.shape, hs] using hi) hc
  | names ds => cases h
  | other => cases h

/-- whether `integrate` succeeds, and on which mesh the result lives, depends only on the
mesh and the shape of the value array -/
theorem integrate_frame (f f' : Fld) (hm : f'.mesh = f.mesh) (hs : f'.data.shape = f.data.shape)
    (dir : Dir) (cum : Bool) (r : Res) (h : integrate f dir cum = .ok r) :
    ∃ r', integrate f' dir cum = .ok r' ∧ r'.mesh? = r.mesh? := by
  cases dir with
  | none =>
    cases cum with
    | true => cases h
    | false =>
      unfold integrate at h
      simp only [Bool.false_eq_true, if_false] at h
      injection h with h; subst h
      exact ⟨_, rfl, rfl⟩
  | name d =>
    cases cum with
    | true =>
      obtain ⟨ax, hax, hshape, hr⟩ := integrate_cum_unpack f d r h
      subst hr
      refine ⟨.field { mesh := f.mesh, nvdim := f'.nvdim,
                       data := (cumAxis f'.nvdim (f.mesh.cellAt ax) f'.data ax).force [],
                       valid := NDA.const f.mesh.n true, vdims := f'.vdims, vmap := f'.vmap, unit := none }, ?_, rfl⟩
      unfold integrate
      simp only [hm, hax, if_true]
      have : mkFld f.mesh f'.nvdim (cumAxis f'.nvdim (f.mesh.cellAt ax) f'.data ax) f'.vdims f'.vmap none
          = .ok { mesh := f.mesh, nvdim := f'.nvdim,
                  data := (cumAxis f'.nvdim (f.mesh.cellAt ax) f'.data ax).force [],
                  valid := NDA.const f.mesh.n true, vdims := f'.vdims, vmap := f'.vmap, unit := none } := by
        unfold mkFld
        have : (cumAxis f'.nvdim (f.mesh.cellAt ax) f'.data ax).shape = f.mesh.n := by
          show f'.data.shape = _
          rw [hs, hshape]
        simp [this]
      rw [this]
    | false =>
      cases r with
      | vals v =>
        obtain ⟨ax, hax, h1, _⟩ := integrate_dir_1d_unpack f d v h
        refine ⟨.vals ((scaleBy f'.nvdim (f.mesh.cellAt ax) (sumAxis f'.nvdim f'.data ax)).get []), ?_, rfl⟩
        unfold integrate
        simp only [hm, hax, Bool.false_eq_true, if_false, h1, if_true]
      | field g =>
        obtain ⟨ax, m', hax, hne1, hsel, hshape, hg⟩ := integrate_dir_unpack f d g h
        subst hg
        refine ⟨.field { mesh := m', nvdim := f'.nvdim,
                         data := (scaleBy f'.nvdim (f.mesh.cellAt ax) (sumAxis f'.nvdim f'.data ax)).force [],
                         valid := NDA.const m'.n true, vdims := f'.vdims, vmap := f'.vmap, unit := none }, ?_, rfl⟩
        unfold integrate
        simp only [hm, hax, Bool.false_eq_true, if_false, hne1, hsel]
        have : mkFld m' f'.nvdim (scaleBy f'.nvdim (f.mesh.cellAt ax) (sumAxis f'.nvdim f'.data ax)) f'.vdims f'.vmap none
            = .ok { mesh := m', nvdim := f'.nvdim,
                    data := (scaleBy f'.nvdim (f.mesh.cellAt ax) (sumAxis f'.nvdim f'.data ax)).force [],
                    valid := NDA.const m'.n true, vdims := f'.vdims, vmap := f'.vmap, unit := none } := by
          unfold mkFld
          have : (scaleBy f'.nvdim (f.mesh.cellAt ax) (sumAxis f'.nvdim f'.data ax)).shape = m'.n := by
            show removeAt f'.data.shape ax = _
            rw [hs, hshape]
          simp [this]
        rw [this]
  | names ds => cases h
  | other => cases h

/-- All forms of `integrate` are linear in the field: for two fields on the same mesh the
integral of `α·f + β·g` exists whenever those of `f` and `g` do, lives on the same mesh and
equals `α·∫f + β·∫g` entry by entry. -/
theorem integrate_linear (α β : Rat) (f g : Fld) (hf : WF f) (hm : g.mesh = f.mesh)
    (hn : g.nvdim = f.nvdim) (hs : g.data.shape = f.data.shape) (dir : Dir) (cum : Bool) (rf rg : Res)
    (h1 : integrate f dir cum = .ok rf) (h2 : integrate g dir cum = .ok rg) :
    ∃ r, integrate (lin α f β g) dir cum = .ok r ∧ r.mesh? = rf.mesh? ∧ r.shape = rf.shape ∧
      ∀ i c, inRange r.shape i = true → c < f.nvdim →
        r.cval i c = α * rf.cval i c + β * rg.cval i c := by
  obtain ⟨r, hr, hmesh⟩ := integrate_frame f (lin α f β g) rfl rfl dir cum rf h1
  have hwl : WF (lin α f β g) := ⟨hf.1, hf.2⟩
  have hwg : WF g := ⟨by rw [hm]; exact hf.1, by rw [hs, hm]; exact hf.2⟩
  obtain ⟨_, hsl, hvl⟩ := integrate_vals _ hwl dir cum r hr
  obtain ⟨_, hsf, hvf⟩ := integrate_vals f hf dir cum rf h1
  obtain ⟨_, hsg, hvg⟩ := integrate_vals g hwg dir cum rg h2
  have hss : r.shape = rf.shape := by rw [hsl, hsf]; rfl
  have hsg' : rg.shape = rf.shape := by rw [hsg, hsf]; unfold ishape; rw [hm]
  refine ⟨r, hr, hmesh, hss, ?_⟩
  intro i c hi hc
  rw [hvl i c hi hc, hvf i c (by rw [← hss]; exact hi) hc,
    hvg i c (by rw [hsg', ← hss]; exact hi) (by rw [hn]; exact hc)]
  exact ival_lin α β f g hm hs dir cum i c hc

/-- All forms of `integrate` act per component: integrating the scalar field of component
`c` gives component `c` of the integral, on the same mesh. -/
theorem integrate_componentwise (f : Fld) (hf : WF f) (c : Nat) (hc : c < f.nvdim) (dir : Dir) (cum : Bool)
    (rf : Res) (h : integrate f dir cum = .ok rf) :
    ∃ r, integrate (compFld f c) dir cum = .ok r ∧ r.mesh? = rf.mesh? ∧ r.shape = rf.shape ∧ r.nv = 1 ∧
      ∀ i, inRange r.shape i = true → r.cval i 0 = rf.cval i c := by
  obtain ⟨r, hr, hmesh⟩ := integrate_frame f (compFld f c) rfl rfl dir cum rf h
  have hwc : WF (compFld f c) := ⟨hf.1, hf.2⟩
  obtain ⟨hnv, hsl, hvl⟩ := integrate_vals _ hwc dir cum r hr
  obtain ⟨_, hsf, hvf⟩ := integrate_vals f hf dir cum rf h
  have hss : r.shape = rf.shape := by rw [hsl, hsf]; rfl
  refine ⟨r, hr, hmesh, hss, hnv, ?_⟩
  intro i hi
  rw [hvl i 0 hi (by show 0 < 1; omega), hvf i c (by rw [← hss]; exact hi) hc]
  exact ival_comp f c dir cum i

/-- The values of every form of `integrate` do not depend on where the mesh sits: moving the
region (and its subregions) by any vector `t` leaves shape and values unchanged. -/
theorem integrate_translation_invariant (t : List Rat) (f : Fld) (hf : WF f) (dir : Dir) (cum : Bool)
    (r r' : Res) (h : integrate f dir cum = .ok r) (h' : integrate (translate t f) dir cum = .ok r') :
    r'.shape = r.shape ∧
    ∀ i c, inRange r.shape i = true → c < f.nvdim → r'.cval i c = r.cval i c := by
  obtain ⟨_, hs, hv⟩ := integrate_vals f hf dir cum r h
  obtain ⟨_, hs', hv'⟩ := integrate_vals _ (translate_wf t f hf) dir cum r' h'
  have hss : r'.shape = r.shape := by rw [hs, hs']; rfl
  refine ⟨hss, ?_⟩
  intro i c hi hc
  rw [hv' i c (by rw [hss]; exact hi) hc, hv i c hi hc]
  exact ival_translate t f hf.1 dir cum i c

/-- … and the integral over all directions of the moved field is literally the same. -/
theorem integrate_all_translation_invariant (t : List Rat) (f : Fld) (hf : WF f) :
    integrate (translate t f) .none false = integrate f .none false := by
  rw [integrate_all, integrate_all]
  have : dV (translate t f).mesh = dV f.mesh := translate_dV t f hf.1
  rw [this]
  rfl

/-- `mean()` is linear in the field (two fields on one mesh). -/
theorem mean_all_linear (α β : Rat) (f g : Fld) (hf : WF f) (hm : g.mesh = f.mesh)
    (hn : g.nvdim = f.nvdim) (hs : g.data.shape = f.data.shape) :
    ∃ vf vg, mean f .none = .ok (.vals vf) ∧ mean g .none = .ok (.vals vg) ∧
      mean (lin α f β g) .none = .ok (.vals (tab f.nvdim fun c => α * vf.getD c 0 + β * vg.getD c 0)) := by
  have hwl : WF (lin α f β g) := ⟨hf.1, hf.2⟩
  have hwg : WF g := ⟨by rw [hm]; exact hf.1, by rw [hs, hm]; exact hf.2⟩
  refine ⟨_, _, mean_all_eq f hf, mean_all_eq g hwg, ?_⟩
  rw [mean_all_eq _ hwl]
  congr 2
  apply tab_congr
  intro c hc
  have hc : c < f.nvdim := hc
  rw [getD_tab f.nvdim _ c 0 hc, getD_tab g.nvdim _ c 0 (by rw [hn]; exact hc), hm, hs]
  show dV f.mesh * nestSum f.data.shape (fun i => cget (lin α f β g).data i c) / ratProd f.mesh.region.edges = _
  rw [nestSum_congr _ _ _ (fun i _ => cget_lin α β f g i c hc), nestSum_add, nestSum_mul_left, nestSum_mul_left]
  ring

/-- `mean()` does not look at the mesh position at all. -/
theorem mean_all_translation_invariant (t : List Rat) (f : Fld) :
    mean (translate t f) .none = mean f .none := rfl

/-- every successful `mean` (no direction, one direction, a list in any order) returns, on the
spec shape, the sum over the averaged axes divided by the number of summed cells -/
theorem mean_vals (f : Fld) (dir : Dir) (r : Res) (h : mean f dir = .ok r) :
    r.nv = f.nvdim ∧ r.shape = mshape f dir ∧
    ∀ i c, inRange r.shape i = true → c < f.nvdim → r.cval i c = mval f dir i c :=
  mean_vals' f dir r h

/-- whether `mean` succeeds, and on which mesh and with which shape the result lives, depends
only on the mesh and the shape of the value array -/
theorem mean_frame (f f' : Fld) (hm : f'.mesh = f.mesh) (hs : f'.data.shape = f.data.shape)
    (dir : Dir) (r : Res) (h : mean f dir = .ok r) :
    ∃ r', mean f' dir = .ok r' ∧ r'.mesh? = r.mesh? ∧ r'.shape = r.shape :=
  mean_frame' f f' hm hs dir r h

/-- All forms of `mean` — `mean()`, `mean(d)`, `mean(list)` in any order — are linear in the
field: for two fields on the same mesh the mean of `α·f + β·g` exists whenever that of `f`
does, lives on the same mesh and equals `α·mean f + β·mean g` entry by entry. -/
theorem mean_linear (α β : Rat) (f g : Fld) (hm : g.mesh = f.mesh) (hn : g.nvdim = f.nvdim)
    (hs : g.data.shape = f.data.shape) (dir : Dir) (rf rg : Res)
    (h1 : mean f dir = .ok rf) (h2 : mean g dir = .ok rg) :
    ∃ r, mean (lin α f β g) dir = .ok r ∧ r.mesh? = rf.mesh? ∧ r.shape = rf.shape ∧
      ∀ i c, inRange r.shape i = true → c < f.nvdim →
        r.cval i c = α * rf.cval i c + β * rg.cval i c := by
  obtain ⟨r, hr, hmesh, hss⟩ := mean_frame f (lin α f β g) rfl rfl dir rf h1
  obtain ⟨rg', hrg', _, hsg⟩ := mean_frame f g hm hs dir rf h1
  rw [h2] at hrg'; injection hrg' with hrg'; subst hrg'
  obtain ⟨_, _, hvl⟩ := mean_vals _ dir r hr
  obtain ⟨_, _, hvf⟩ := mean_vals f dir rf h1
  obtain ⟨_, _, hvg⟩ := mean_vals g dir rg h2
  refine ⟨r, hr, hmesh, hss, ?_⟩
  intro i c hi hc
  rw [hvl i c hi hc, hvf i c (by rw [← hss]; exact hi) hc,
    hvg i c (by rw [hsg, ← hss]; exact hi) (by rw [hn]; exact hc)]
  exact mval_lin α β f g hm hs dir i c hc

/-- All forms of `mean` act per component: the mean of the scalar field of component `c` is
component `c` of the mean, on the same mesh. -/
theorem mean_componentwise (f : Fld) (c : Nat) (hc : c < f.nvdim) (dir : Dir) (rf : Res)
    (h : mean f dir = .ok rf) :
    ∃ r, mean (compFld f c) dir = .ok r ∧ r.mesh? = rf.mesh? ∧ r.shape = rf.shape ∧ r.nv = 1 ∧
      ∀ i, inRange r.shape i = true → r.cval i 0 = rf.cval i c := by
  obtain ⟨r, hr, hmesh, hss⟩ := mean_frame f (compFld f c) rfl rfl dir rf h
  obtain ⟨hnv, _, hvl⟩ := mean_vals _ dir r hr
  obtain ⟨_, _, hvf⟩ := mean_vals f dir rf h
  refine ⟨r, hr, hmesh, hss, hnv, ?_⟩
  intro i hi
  rw [hvl i 0 hi (by show 0 < 1; omega), hvf i c (by rw [← hss]; exact hi) hc]
  exact mval_comp f c dir i

/-- The values of every form of `mean` do not depend on where the mesh sits: moving the region
(and its subregions) by any vector `t` leaves shape and values unchanged. -/
theorem mean_translation_invariant (t : List Rat) (f : Fld) (dir : Dir) (r r' : Res)
    (h : mean f dir = .ok r) (h' : mean (translate t f) dir = .ok r') :
    r'.shape = r.shape ∧ r'.nv = r.nv ∧
    ∀ i c, inRange r.shape i = true → c < f.nvdim → r'.cval i c = r.cval i c := by
  obtain ⟨hn, hs, hv⟩ := mean_vals f dir r h
  obtain ⟨hn', hs', hv'⟩ := mean_vals _ dir r' h'
  have hss : r'.shape = r.shape := by rw [hs, hs', mshape_translate]
  refine ⟨hss, by rw [hn, hn']; rfl, ?_⟩
  intro i c hi hc
  rw [hv' i c (by rw [hss]; exact hi) hc, hv i c hi hc]
  exact mval_translate t f dir i c

/-! ## The successful branches are reached (total correctness; subregions allowed: `SubsFit`,
defined in `DFV/Lemmas/C06Subs.lean`, says every subregion of the mesh starts a whole number of
cells into the region and is a whole number ≥ 1 of cells long on every axis) -/

/-- `integrate(d)` succeeds for every direction of a well-formed field whose subregions fit
the mesh (the reduced mesh's subregion setter accepts the inherited subregions, which fit again):
a field on the reduced mesh for two or more dimensions, the bare array in 1-d. -/
theorem integrate_dir_ok (f : Fld) (hf : WF f) (hsubs : SubsAcc f.mesh) (d : String)
    (hd : d ∈ f.mesh.region.dims) :
    (2 ≤ f.mesh.ndim → ∃ g, integrate f (.name d) false = .ok (.field g) ∧ SubsAcc g.mesh) ∧
    (f.mesh.ndim = 1 → ∃ v, integrate f (.name d) false = .ok (.vals v)) := by
  obtain ⟨ax, hax⟩ := dim2index_of_mem _ _ hd
  constructor
  · intro h2
    obtain ⟨m', hsel, hms⟩ := sel_okA f.mesh hf.1 hsubs h2 d ax hax
    obtain ⟨ax', hax', _, _, _, _, _, _, _, hn, _, _⟩ := sel_spec f.mesh hf.1 d m' hsel
    rw [hax] at hax'; injection hax' with hax'; subst hax'
    have hne1 : ¬ f.mesh.ndim = 1 := by omega
    have hshape : (scaleBy f.nvdim (f.mesh.cellAt ax) (sumAxis f.nvdim f.data ax)).shape = m'.n := by
      show removeAt f.data.shape ax = _
      rw [hf.2, hn]
    unfold integrate
    simp only [hax, Bool.false_eq_true, if_false, hne1, hsel, mkFld, hshape, ne_eq, not_true_eq_false]
    exact ⟨_, rfl, hms⟩
  · intro h1
    unfold integrate
    simp only [hax, Bool.false_eq_true, if_false, h1, if_true]
    exact ⟨_, rfl⟩

/-- Integrating direction by direction succeeds for every ordering `ds` of the directions
(no repetition, every entry a direction of the mesh, all directions used) of a well-formed
field whose subregions fit the mesh — and then gives `integrate()` (theorem `fubini`). -/
theorem fubini_total (f : Fld) (hf : WF f) (hsubs : SubsAcc f.mesh) (ds : List String)
    (hnd : ds.Nodup) (hmem : ∀ d ∈ ds, d ∈ f.mesh.region.dims) (hlen : ds.length = f.mesh.ndim) :
    integrateSeq f ds = integrate f .none false := by
  suffices hok : ∃ r, integrateSeq f ds = .ok r by
    obtain ⟨r, hr⟩ := hok
    rw [hr, fubini f hf ds hlen r hr]
  induction ds generalizing f with
  | nil =>
    have := hf.1.1.1
    have h0 : f.mesh.ndim = f.mesh.region.pmin.length := rfl
    simp at hlen; omega
  | cons d ds ih =>
    have hd := hmem d (by simp)
    obtain ⟨hA, hB⟩ := integrate_dir_ok f hf hsubs d hd
    by_cases h1 : f.mesh.ndim = 1
    · obtain ⟨v, hv⟩ := hB h1
      have hds : ds = [] := by
        have : ds.length = 0 := by simp at hlen; omega
        exact List.eq_nil_of_length_eq_zero this
      subst hds
      unfold integrateSeq
      simp only [hv, List.isEmpty_nil, if_true]
      exact ⟨_, rfl⟩
    · have h2 : 2 ≤ f.mesh.ndim := by
        have := hf.1.1.1
        have h0 : f.mesh.ndim = f.mesh.region.pmin.length := rfl
        omega
      obtain ⟨g, hg, hgs⟩ := hA h2
      obtain ⟨ax, m', hax, _, hsel, hshape, hgeq⟩ := integrate_dir_unpack f d g hg
      obtain ⟨ax', hax', haxlt, hpmin, _, hdims, _, hn, hgshape, _⟩ := integrate_dir f hf d g hg
      rw [hax] at hax'; injection hax' with hax'; subst hax'
      have hgm : g.mesh = m' := by rw [hgeq]
      have hwf : WF g := ⟨by rw [hgm]; exact sel_inv f.mesh hf.1 d m' hsel, by rw [hgshape, hn]⟩
      have hlen' : ds.length = g.mesh.ndim := by
        have h1' : g.mesh.ndim = g.mesh.region.pmin.length := rfl
        have h2' : f.mesh.ndim = f.mesh.region.pmin.length := rfl
        rw [h1', hpmin, removeAt_length _ _ (by rw [← h2']; exact haxlt), ← h2', ← hlen]; simp
      obtain ⟨_, hdname⟩ := dim2index_ok _ _ _ hax
      have hmem' : ∀ d' ∈ ds, d' ∈ g.mesh.region.dims := by
        intro d' hd'
        rw [hdims]
        apply mem_removeAt _ _ _ (hmem d' (by simp [hd']))
        rw [hdname]
        intro heq
        subst heq
        exact (List.nodup_cons.mp hnd).1 hd'
      obtain ⟨r, hr⟩ := ih g hwf hgs (List.nodup_cons.mp hnd).2 hmem' hlen'
      unfold integrateSeq
      simp only [hg]
      exact ⟨r, hr⟩

/-- the cumulative integral succeeds for every direction of a well-formed field (any
number of dimensions, subregions or not) -/
theorem integrate_cum_ok (f : Fld) (hf : WF f) (d : String) (hd : d ∈ f.mesh.region.dims) :
    ∃ g, integrate f (.name d) true = .ok (.field g) := by
  obtain ⟨ax, hax⟩ := dim2index_of_mem _ _ hd
  have hshape : (cumAxis f.nvdim (f.mesh.cellAt ax) f.data ax).shape = f.mesh.n := hf.2
  unfold integrate
  simp only [hax, if_true, mkFld, hshape, ne_eq, not_true_eq_false, if_false]
  exact ⟨_, rfl⟩

/-- Total form of the cumulative/total relation, two or more dimensions: for every direction
of a well-formed field (fitting subregions) both integrals exist and the last cumulative entry
along the axis plus half the last cell is the directional integral. -/
theorem cumulative_last_total (f : Fld) (hf : WF f) (hsubs : SubsAcc f.mesh) (h2 : 2 ≤ f.mesh.ndim) (d : String)
    (hd : d ∈ f.mesh.region.dims) :
    ∃ ax gc gd, f.mesh.region.dim2index d = .ok ax ∧ integrate f (.name d) true = .ok (.field gc) ∧
      integrate f (.name d) false = .ok (.field gd) ∧
      ∀ i c, inRange f.mesh.n i = true → i.getD ax 0 = f.mesh.nAt ax - 1 → c < f.nvdim →
        cget gc.data i c + f.mesh.cellAt ax * (cget f.data i c / 2) = cget gd.data (removeAt i ax) c := by
  obtain ⟨gc, hgc⟩ := integrate_cum_ok f hf d hd
  obtain ⟨gd, hgd, _⟩ := (integrate_dir_ok f hf hsubs d hd).1 h2
  obtain ⟨ax, hax, hrel⟩ := cumulative_last f hf d gc gd hgc hgd
  exact ⟨ax, gc, gd, hax, hgc, hgd, hrel⟩

/-- Total form on a 1-d mesh: both integrals exist and the bare array returned by
`integrate(d)` is the last cumulative entry plus half the last cell. -/
theorem cumulative_last_1d_total (f : Fld) (hf : WF f) (h1 : f.mesh.ndim = 1) (d : String)
    (hd : d ∈ f.mesh.region.dims) :
    ∃ gc v, integrate f (.name d) true = .ok (.field gc) ∧ integrate f (.name d) false = .ok (.vals v) ∧
      ∀ c, c < f.nvdim →
        cget gc.data [f.mesh.nAt 0 - 1] c + f.mesh.cellAt 0 * (cget f.data [f.mesh.nAt 0 - 1] c / 2) = v.getD c 0 := by
  obtain ⟨gc, hgc⟩ := integrate_cum_ok f hf d hd
  obtain ⟨ax, hax⟩ := dim2index_of_mem _ _ hd
  have hv : ∃ v, integrate f (.name d) false = .ok (.vals v) := by
    unfold integrate
    simp only [hax, Bool.false_eq_true, if_false, h1, if_true]
    exact ⟨_, rfl⟩
  obtain ⟨v, hv⟩ := hv
  exact ⟨gc, v, hgc, hv, fun c hc => cumulative_last_1d f hf d gc v hgc hv c hc⟩

/-- `mean(d)` succeeds for every direction of a well-formed field with fitting subregions that
has at least two dimensions -/
theorem mean_dir_ok (f : Fld) (hf : WF f) (hsubs : SubsAcc f.mesh) (h2 : 2 ≤ f.mesh.ndim) (d : String)
    (hd : d ∈ f.mesh.region.dims) : ∃ g, mean f (.name d) = .ok (.field g) := by
  obtain ⟨ax, hax⟩ := dim2index_of_mem _ _ hd
  obtain ⟨m', hsel, _⟩ := sel_okA f.mesh hf.1 hsubs h2 d ax hax
  obtain ⟨ax', hax', _, _, _, _, _, _, _, hn, _, _⟩ := sel_spec f.mesh hf.1 d m' hsel
  rw [hax] at hax'; injection hax' with hax'; subst hax'
  have hshape : (divBy f.nvdim ((f.data.shape.getD ax 0 : Nat) : Rat) (sumAxis f.nvdim f.data ax)).shape = m'.n := by
    show removeAt f.data.shape ax = _
    rw [hf.2, hn]
  unfold mean
  simp only [hax, hsel, mkFld, hshape, ne_eq, not_true_eq_false, if_false]
  exact ⟨_, rfl⟩

/-- one step of a direction-by-direction integration succeeds and keeps everything needed
for the next step -/
theorem step_ok (f : Fld) (hf : WF f) (hsubs : SubsAcc f.mesh) (h2 : 2 ≤ f.mesh.ndim) (d : String)
    (hd : d ∈ f.mesh.region.dims) :
    ∃ g, integrate f (.name d) false = .ok (.field g) ∧ WF g ∧ SubsAcc g.mesh ∧
      g.mesh.ndim + 1 = f.mesh.ndim ∧
      ∀ d' ∈ f.mesh.region.dims, d' ≠ d → d' ∈ g.mesh.region.dims := by
  obtain ⟨g, hg, hgs⟩ := (integrate_dir_ok f hf hsubs d hd).1 h2
  obtain ⟨ax, m', hax, _, hsel, hshape, hgeq⟩ := integrate_dir_unpack f d g hg
  obtain ⟨ax', hax', haxlt, hpmin, _, hdims, _, hn, hgshape, _⟩ := integrate_dir f hf d g hg
  rw [hax] at hax'; injection hax' with hax'; subst hax'
  have hgm : g.mesh = m' := by rw [hgeq]
  have hwf : WF g := ⟨by rw [hgm]; exact sel_inv f.mesh hf.1 d m' hsel, by rw [hgshape, hn]⟩
  obtain ⟨_, hdname⟩ := dim2index_ok _ _ _ hax
  refine ⟨g, hg, hwf, hgs, ?_, ?_⟩
  · have h1' : g.mesh.ndim = g.mesh.region.pmin.length := rfl
    have h2' : f.mesh.ndim = f.mesh.region.pmin.length := rfl
    rw [h1', hpmin, removeAt_length _ _ (by rw [← h2']; exact haxlt), ← h2']
    omega
  · intro d' hd' hne
    rw [hdims]
    exact mem_removeAt _ _ _ hd' (by rw [hdname]; exact fun h => hne h.symm)

/-- Integrating over some (not all) of the directions one after the other succeeds, for every
order, on a well-formed field whose subregions fit the mesh. -/
theorem integrateSeq_ok (f : Fld) (hf : WF f) (hsubs : SubsAcc f.mesh) (ds : List String)
    (hnd : ds.Nodup) (hmem : ∀ d ∈ ds, d ∈ f.mesh.region.dims) (hlen : ds.length < f.mesh.ndim) :
    ∃ gi, integrateSeq f ds = .ok (.field gi) := by
  induction ds generalizing f with
  | nil => exact ⟨f, rfl⟩
  | cons d ds ih =>
    have hlen' : ds.length + 1 < f.mesh.ndim := by simpa using hlen
    obtain ⟨g, hg, hwf, hgs, hgnd, hgmem⟩ := step_ok f hf hsubs (by omega) d (hmem d (by simp))
    obtain ⟨hdn, hnd'⟩ := List.nodup_cons.mp hnd
    obtain ⟨gi, hgi⟩ := ih g hwf hgs hnd'
      (fun d' hd' => hgmem d' (hmem d' (by simp [hd'])) (fun h => hdn (h ▸ hd'))) (by omega)
    exact ⟨gi, by unfold integrateSeq; simp only [hg]; exact hgi⟩

/-- `mean(list)` over some (not all) of the directions succeeds, for every order, on a
well-formed field whose subregions fit the mesh. -/
theorem mean_dirs_ok (f : Fld) (hf : WF f) (hsubs : SubsAcc f.mesh) (ds : List String)
    (hnd : ds.Nodup) (hmem : ∀ d ∈ ds, d ∈ f.mesh.region.dims) (hlen : ds.length < f.mesh.ndim) :
    ∃ gm, mean f (.names ds) = .ok (.field gm) := by
  obtain ⟨gi, hgi⟩ := integrateSeq_ok f hf hsubs ds hnd hmem hlen
  obtain ⟨axes, C', hax, hselm, hinv, _⟩ := chain f hf ds f _ 1 gi (chainInv_init f hf) hgi
  rw [← keepMask_eq_foldl] at hinv
  obtain ⟨_, _, _, _, _, _, _, hn, _⟩ := hinv
  have hdup : hasDup ds = false := hasDup_of_nodup ds hnd
  have hnot : sameMultiset ds f.mesh.region.dims = false := by
    cases h : sameMultiset ds f.mesh.region.dims with
    | false => rfl
    | true =>
      have := ((sameMultiset_iff_perm _ _).mp h).length_eq
      have hdl : f.mesh.region.dims.length = f.mesh.ndim := hf.1.1.2.2.1
      omega
  have hshape : (meanAxes f.nvdim f.data axes).shape = gi.mesh.n := by
    show filterMask (keepMask f.data.shape.length axes) f.data.shape = _
    rw [hf.2, hn]
  unfold mean
  simp only [hdup, Bool.false_eq_true, if_false, hnot, hselm, hax, mkFld, hshape, ne_eq, not_true_eq_false]
  exact ⟨_, rfl⟩

/-- on a 1-d mesh `mean(d)` with a bare direction name is rejected (there is no 0-dimensional
mesh to return a field on; `mean([d])` and `mean()` return the array) -/
theorem mean_dir_1d_rejected (f : Fld) (hf : WF f) (h1 : f.mesh.ndim = 1) (d : String) (r : Res) :
    mean f (.name d) ≠ .ok r := by
  intro h
  obtain ⟨ax, m', _, hsel, _, _⟩ := mean_name_unpack f d r h
  obtain ⟨_, _, _, h2, _⟩ := sel_spec f.mesh hf.1 d m' hsel
  omega

/-- Total forms of "mean = integral / extent": for every direction (two or more dimensions),
and for every list of distinct directions shorter than the number of dimensions, in any order,
on a well-formed field with fitting subregions, both sides exist and `mean` is the (chained)
integral divided by the integrated extent on the same reduced mesh. -/
theorem mean_eq_total (f : Fld) (hf : WF f) (hsubs : SubsAcc f.mesh) :
    (∀ d, 2 ≤ f.mesh.ndim → d ∈ f.mesh.region.dims →
      ∃ ax gi gm, f.mesh.region.dim2index d = .ok ax ∧ integrate f (.name d) false = .ok (.field gi) ∧
        mean f (.name d) = .ok (.field gm) ∧ gm.mesh = gi.mesh ∧
        ∀ i c, inRange (removeAt f.mesh.n ax) i = true → c < f.nvdim →
          cget gm.data i c = cget gi.data i c / f.mesh.region.edge ax) ∧
    (∀ ds : List String, ds.Nodup → (∀ d ∈ ds, d ∈ f.mesh.region.dims) → ds.length < f.mesh.ndim →
      ∃ gi gm, integrateSeq f ds = .ok (.field gi) ∧ mean f (.names ds) = .ok (.field gm) ∧
        gm.mesh = gi.mesh ∧
        ∀ i c, inRange gi.data.shape i = true → c < f.nvdim →
          cget gm.data i c = cget gi.data i c / extent f.mesh.region ds) := by
  constructor
  · intro d h2 hd
    obtain ⟨gi, hgi, _⟩ := (integrate_dir_ok f hf hsubs d hd).1 h2
    obtain ⟨gm, hgm⟩ := mean_dir_ok f hf hsubs h2 d hd
    obtain ⟨ax, gm', hax, hr, hmesh, _, _, _, _, hv⟩ := mean_dir_eq f hf d gi _ hgi hgm
    injection hr with hr; subst hr
    exact ⟨ax, gi, gm, hax, hgi, hgm, hmesh, hv⟩
  · intro ds hnd hmem hlen
    obtain ⟨gi, hgi⟩ := integrateSeq_ok f hf hsubs ds hnd hmem hlen
    obtain ⟨gm, hgm⟩ := mean_dirs_ok f hf hsubs ds hnd hmem hlen
    obtain ⟨hmesh, _, _, _, hv⟩ := mean_dirs_eq f hf ds gm gi hgm hgi
    exact ⟨gi, gm, hgi, hgm, hmesh, hv⟩

/-- Moving the mesh never turns a successful integral into a failure: whenever `integrate`
succeeds on a well-formed field with fitting subregions it succeeds on the moved field too,
with the same shape and the same values. -/
theorem integrate_translation_total (t : List Rat) (f : Fld) (hf : WF f) (hsubs : SubsFit f.mesh) (dir : Dir)
    (cum : Bool) (r : Res) (h : integrate f dir cum = .ok r) :
    ∃ r', integrate (translate t f) dir cum = .ok r' ∧ r'.shape = r.shape ∧
      ∀ i c, inRange r.shape i = true → c < f.nvdim → r'.cval i c = r.cval i c := by
  have hwt := translate_wf t f hf
  have hst := subsFit_translate t f hf.1 hsubs
  have hex : ∃ r', integrate (translate t f) dir cum = .ok r' := by
    cases dir with
    | none =>
      cases cum with
      | true => cases h
      | false => exact ⟨_, integrate_all _⟩
    | name d =>
      have hd : d ∈ f.mesh.region.dims := by
        cases cum with
        | true =>
          obtain ⟨ax, hax, _⟩ := integrate_cum_unpack f d r h
          exact mem_of_dim2index _ _ _ hax
        | false =>
          cases r with
          | vals v =>
            obtain ⟨ax, hax, _⟩ := integrate_dir_1d_unpack f d v h
            exact mem_of_dim2index _ _ _ hax
          | field g =>
            obtain ⟨ax, _, hax, _⟩ := integrate_dir_unpack f d g h
            exact mem_of_dim2index _ _ _ hax
      have hd' : d ∈ (translate t f).mesh.region.dims := hd
      cases cum with
      | true =>
        obtain ⟨g, hg⟩ := integrate_cum_ok _ hwt d hd'
        exact ⟨_, hg⟩
      | false =>
        have hnd : (translate t f).mesh.ndim = f.mesh.ndim := by
          simp [translate, Mesh.ndim, Region.ndim, shiftRegion]
        by_cases h1 : f.mesh.ndim = 1
        · obtain ⟨v, hv⟩ := (integrate_dir_ok _ hwt (subsAcc_of_fit _ hwt.1 hst) d hd').2 (by rw [hnd]; exact h1)
          exact ⟨_, hv⟩
        · have h2 : 2 ≤ f.mesh.ndim := by
            have := hf.1.1.1
            have h0 : f.mesh.ndim = f.mesh.region.pmin.length := rfl
            omega
          obtain ⟨g, hg, _⟩ := (integrate_dir_ok _ hwt (subsAcc_of_fit _ hwt.1 hst) d hd').1 (by rw [hnd]; exact h2)
          exact ⟨_, hg⟩
    | names ds => cases h
    | other => cases h
  obtain ⟨r', hr'⟩ := hex
  obtain ⟨hs, hv⟩ := integrate_translation_invariant t f hf dir cum r r' h hr'
  exact ⟨r', hr', hs, hv⟩

/-! ## Order independence for every permutation, and the value of a chained integral -/

/-- Fubini, permutation form: for EVERY permutation `ds` of the mesh's directions, integrating
direction by direction in that order succeeds (well-formed field, fitting subregions) and gives
exactly `integrate()`. -/
theorem fubini_perm (f : Fld) (hf : WF f) (hsubs : SubsAcc f.mesh) (ds : List String)
    (hp : ds.Perm f.mesh.region.dims) : integrateSeq f ds = integrate f .none false := by
  have hnd : ds.Nodup := hp.nodup_iff.mpr (nodup_of_hasDup _ hf.1.1.2.2.2.2.1)
  have hdl : f.mesh.region.dims.length = f.mesh.ndim := hf.1.1.2.2.1
  exact fubini_total f hf hsubs ds hnd (fun d hd => hp.mem_iff.mp hd) (by rw [hp.length_eq, hdl])

/-- The chained integral over several (not all) directions, in any order: the result has the
axes that are not listed, and its value at the reduced index `i` is the product of the cell
lengths of the listed directions times the sum over the listed axes (as a set: `maskSum` sums
exactly the axes whose keep-flag is false).  The several-direction form of `integrate_dir`. -/
theorem integrateSeq_vals (f : Fld) (hf : WF f) (ds : List String) (g : Fld)
    (h : integrateSeq f ds = .ok (.field g)) :
    ∃ axes, dimIndices f.mesh.region ds = .ok axes ∧
      g.mesh.region.dims = filterMask (keepMask f.mesh.n.length axes) f.mesh.region.dims ∧
      g.mesh.region.pmin = filterMask (keepMask f.mesh.n.length axes) f.mesh.region.pmin ∧
      g.mesh.region.pmax = filterMask (keepMask f.mesh.n.length axes) f.mesh.region.pmax ∧
      g.mesh.n = filterMask (keepMask f.mesh.n.length axes) f.mesh.n ∧
      g.data.shape = g.mesh.n ∧ g.nvdim = f.nvdim ∧
      ∀ i c, inRange g.mesh.n i = true → c < f.nvdim →
        cget g.data i c = cellExtent f.mesh ds *
          maskSum f.mesh.n (keepMask f.mesh.n.length axes) (fun t => cget f.data t c) i := by
  obtain ⟨axes, hax, hinv⟩ := chain_cells f hf ds f _ 1 g (chainInv_init f hf) h
  rw [← keepMask_eq_foldl, one_mul] at hinv
  obtain ⟨hwg, _, hnv, _, hdims, hpmin, hpmax, hn, hval⟩ := hinv
  exact ⟨axes, hax, hdims, hpmin, hpmax, hn, hwg.2, hnv, hval⟩

/-- Partial Fubini: two chained integrals over permutations of the same directions (not
necessarily all of them) agree — same remaining axes, corners and cell counts, same values. -/
theorem integrateSeq_perm (f : Fld) (hf : WF f) (ds ds' : List String) (hp : ds.Perm ds') (g g' : Fld)
    (h : integrateSeq f ds = .ok (.field g)) (h' : integrateSeq f ds' = .ok (.field g')) :
    g'.mesh.region.dims = g.mesh.region.dims ∧ g'.mesh.region.pmin = g.mesh.region.pmin ∧
    g'.mesh.region.pmax = g.mesh.region.pmax ∧ g'.mesh.n = g.mesh.n ∧ g'.data.shape = g.data.shape ∧
    g'.nvdim = g.nvdim ∧
    ∀ i c, inRange g.data.shape i = true → c < f.nvdim → cget g'.data i c = cget g.data i c :=
  integrateSeq_perm' f hf ds ds' hp g g' h h'

/-- … and both exist: for every list `ds` of distinct directions (fewer than all) and every
permutation `ds'` of it, both chained integrals succeed and agree. -/
theorem integrateSeq_perm_total (f : Fld) (hf : WF f) (hsubs : SubsAcc f.mesh) (ds ds' : List String)
    (hnd : ds.Nodup) (hmem : ∀ d ∈ ds, d ∈ f.mesh.region.dims) (hlen : ds.length < f.mesh.ndim)
    (hp : ds.Perm ds') :
    ∃ g g', integrateSeq f ds = .ok (.field g) ∧ integrateSeq f ds' = .ok (.field g') ∧
      g'.mesh.n = g.mesh.n ∧ g'.data.shape = g.data.shape ∧
      ∀ i c, inRange g.data.shape i = true → c < f.nvdim → cget g'.data i c = cget g.data i c := by
  obtain ⟨g, hg⟩ := integrateSeq_ok f hf hsubs ds hnd hmem hlen
  obtain ⟨g', hg'⟩ := integrateSeq_ok f hf hsubs ds' (hp.nodup_iff.mp hnd)
    (fun d hd => hmem d (hp.mem_iff.mpr hd)) (by rw [← hp.length_eq]; exact hlen)
  obtain ⟨_, _, _, hn, hs, _, hv⟩ := integrateSeq_perm f hf ds ds' hp g g' hg hg'
  exact ⟨g, g', hg, hg', hn, hs, hv⟩

/-- Means are consistent across axes too: averaging direction by direction (bare names, each
step on the reduced mesh the previous step returned), in any order of a proper subset `ds` of
the directions, gives exactly `mean(ds)` — the same reduced mesh (subregions included) and the
same values. -/
theorem meanSeq_eq_mean_list (f : Fld) (hf : WF f) (ds : List String) (gs gm : Fld)
    (hs : meanSeq f ds = .ok (.field gs)) (hm : mean f (.names ds) = .ok (.field gm)) :
    gs.mesh = gm.mesh ∧ gs.data.shape = gm.data.shape ∧ gs.nvdim = gm.nvdim ∧
    ∀ i c, inRange gm.data.shape i = true → c < f.nvdim → cget gs.data i c = cget gm.data i c := by
  obtain ⟨_, m', axes, hselm, hax, hshape, hgm⟩ := mean_names_unpack f ds gm hm
  obtain ⟨axes', C', hax', hselm', hinv, hprod⟩ := mean_chain f hf ds f _ 1 gs (chainInv_init f hf) hs
  rw [hax] at hax'; injection hax' with hax'; subst hax'
  rw [hselm] at hselm'; injection hselm' with hselm'
  rw [← keepMask_eq_foldl, dropProd_allTrue] at hprod
  rw [← keepMask_eq_foldl] at hinv
  obtain ⟨hwgs, _, hnv, _, _, _, _, hn, hval⟩ := hinv
  subst hgm
  have hshape' : gs.data.shape = (meanAxes f.nvdim f.data axes).shape := by
    rw [hwgs.2, ← hselm', hshape]
  refine ⟨hselm'.symm, hshape', hnv, ?_⟩
  intro i c hin hc
  have hin' : inRange (meanAxes f.nvdim f.data axes).shape i = true := hin
  simp only
  rw [cget_force (meanAxes f.nvdim f.data axes) i c hin', cget_meanAxes _ _ _ _ _ hc,
    hval i c (by rw [← hwgs.2, hshape']; exact hin') hc, hf.2]
  have hD : (0 : Rat) < (dropProd (keepMask f.mesh.n.length axes) f.mesh.n : Rat) := by
    have : 0 < dropProd (keepMask f.mesh.n.length axes) f.mesh.n := by
      apply dropProd_pos
      intro k hk
      obtain ⟨a, ha, rfl⟩ := List.getElem_of_mem hk
      have := hf.1.2.2 a (by show a < f.mesh.region.ndim; rw [← hf.1.2.1]; exact ha)
      unfold Mesh.nAt at this
      simpa [List.getD_eq_getElem?_getD, ha] using this
    exact_mod_cast this
  have hC : C' = 1 / (dropProd (keepMask f.mesh.n.length axes) f.mesh.n : Rat) := by
    field_simp
    rw [hprod]; ring
  rw [hC]; ring

/-! ## Axis removal with subregions

`SubsFit m`: every subregion of `m` starts a whole number of cells into the region and is a
whole number (≥ 1) of cells long on every axis (what the subregion setter checks, read with
tolerance 0). -/

/-- `Mesh.sel(d)` on a well-formed mesh (two or more dimensions) whose subregions fit it, for
every direction `d` of the mesh: it SUCCEEDS — the subregion setter of the reduced mesh accepts
every inherited subregion (inside the region, whole cells, aligned) — and returns the reduced
mesh of the same mesh without subregions, carrying exactly the subregions whose closed extent
along the removed axis contains the centre of cell ⌊n/2⌋ of that axis, each with that axis
removed and the reduced mesh's dims / units / tolerance; these fit the reduced mesh again. -/
theorem sel_subregions (m : Mesh) (hm : m.Inv) (hfit : SubsFit m) (h2 : 2 ≤ m.ndim) (d : String)
    (hd : d ∈ m.region.dims) :
    ∃ ax mc m', m.region.dim2index d = .ok ax ∧ sel { m with subs := [] } d = .ok mc ∧ sel m d = .ok m' ∧
      m'.region = mc.region ∧ m'.n = mc.n ∧ m'.bc = "" ∧
      m'.subs = (keepSubs ax (m.region.lo ax + (((m.nAt ax / 2 : Nat) : Rat) + 1/2) * m.cellAt ax) m.subs).map
        (fun p => (p.1, restamp mc (projReg ax p.2))) ∧
      SubsFit m' := by
  obtain ⟨ax, hax⟩ := dim2index_of_mem _ _ hd
  obtain ⟨s, mc, m', hs, hsel0, hsel, hm', hfit'⟩ := sel_ok_subs m hm hfit h2 d ax hax
  obtain ⟨haxd, _⟩ := dim2index_ok _ _ _ hax
  have haxlt : ax < m.ndim := by
    show ax < m.region.pmin.length
    rw [← hm.1.2.2.1]; exact haxd
  rw [selCentre_eq m hm ax haxlt] at hs
  injection hs with hs
  obtain ⟨_, _, _, _, _, _, _, _, _, _, hbc, _⟩ := sel_spec m hm d m' hsel
  refine ⟨ax, mc, m', hax, hsel0, hsel, by rw [hm'], by rw [hm'], hbc, by rw [hm', hs], hfit'⟩

/-- which subregions survive: a subregion of the mesh is inherited by the reduced mesh iff
the centre of cell ⌊n/2⌋ along the removed axis lies in its closed extent along that axis -/
theorem keepSubs_mem (ax : Nat) (s : Rat) (subs : List (String × Region)) (p : String × Region) :
    p ∈ keepSubs ax s subs ↔ p ∈ subs ∧ p.2.lo ax ≤ s ∧ s ≤ p.2.hi ax := by
  unfold keepSubs
  rw [List.mem_filter]
  simp only [Bool.not_eq_true', Bool.or_eq_false_iff, decide_eq_false_iff_not, not_lt]
  constructor
  · rintro ⟨h, h1, h2⟩; exact ⟨h, h2, h1⟩
  · rintro ⟨h, h1, h2⟩; exact ⟨h, h2, h1⟩

/-- `integrate(d)` and `mean(d)` on a mesh with fitting subregions live on exactly the mesh
`Mesh.sel(d)` returns (theorem `sel_subregions`), subregions included. -/
theorem integrate_mean_dir_mesh (f : Fld) (d : String) (g : Fld) :
    (integrate f (.name d) false = .ok (.field g) → sel f.mesh d = .ok g.mesh) ∧
    (mean f (.name d) = .ok (.field g) → sel f.mesh d = .ok g.mesh) := by
  constructor
  · intro h
    obtain ⟨_, m', _, _, hsel, _, hg⟩ := integrate_dir_unpack f d g h
    rw [hsel, hg]
  · intro h
    obtain ⟨_, m', _, hsel, _, hg⟩ := mean_name_unpack f d _ h
    injection hg with hg
    rw [hsel, hg]

/-- … and both exist: for every list of distinct directions shorter than the number of
dimensions, in any order, on a well-formed field whose subregions fit the mesh, the
direction-by-direction mean and `mean(list)` both succeed and agree (mesh and values). -/
theorem meanSeq_total (f : Fld) (hf : WF f) (hsubs : SubsAcc f.mesh) (ds : List String)
    (hnd : ds.Nodup) (hmem : ∀ d ∈ ds, d ∈ f.mesh.region.dims) (hlen : ds.length < f.mesh.ndim) :
    ∃ gs gm, meanSeq f ds = .ok (.field gs) ∧ mean f (.names ds) = .ok (.field gm) ∧ gs.mesh = gm.mesh ∧
      ∀ i c, inRange gm.data.shape i = true → c < f.nvdim → cget gs.data i c = cget gm.data i c := by
  have hex : ∃ gs, meanSeq f ds = .ok (.field gs) := by
    induction ds generalizing f with
    | nil => exact ⟨f, rfl⟩
    | cons d ds ih =>
      have hlen' : ds.length + 1 < f.mesh.ndim := by simpa using hlen
      have hd := hmem d (by simp)
      obtain ⟨g, hg, hwf, hgs, hgnd, hgmem⟩ := step_ok f hf hsubs (by omega) d hd
      obtain ⟨g1, hg1⟩ := mean_dir_ok f hf hsubs (by omega) d hd
      have hm1 := (integrate_mean_dir_mesh f d g).1 hg
      have hm2 := (integrate_mean_dir_mesh f d g1).2 hg1
      rw [hm1] at hm2; injection hm2 with hm2
      obtain ⟨ax, m', _, hsel, hshape, hr⟩ := mean_name_unpack f d _ hg1
      injection hr with hr
      have hwf1 : WF g1 := ⟨by rw [← hm2]; exact hwf.1, by rw [hr]; exact hshape⟩
      obtain ⟨hdn, hnd'⟩ := List.nodup_cons.mp hnd
      obtain ⟨gs, hgs'⟩ := ih g1 hwf1 (by rw [← hm2]; exact hgs) hnd'
        (fun d' hd' => by rw [← hm2]; exact hgmem d' (hmem d' (by simp [hd'])) (fun h => hdn (h ▸ hd')))
        (by rw [← hm2]; omega)
      exact ⟨gs, by unfold meanSeq; simp only [hg1]; exact hgs'⟩
  obtain ⟨gs, hgs⟩ := hex
  obtain ⟨gm, hgm⟩ := mean_dirs_ok f hf hsubs ds hnd hmem hlen
  obtain ⟨hmesh, _, _, hv⟩ := meanSeq_eq_mean_list f hf ds gs gm hgs hgm
  exact ⟨gs, gm, hgs, hgm, hmesh, hv⟩

/-! ## In-place histories: cell volume and integrals follow the mesh

`runH f steps` is the field after the mesh object it refers to has been transformed in place
by `steps` (`mesh.scale`, `mesh.region.scale`, `mesh.translate`, `mesh.region.translate`, each
with `inplace=True`; a rejected step changes nothing).  `histFac m a steps` is the product of
the absolute scale factors of axis `a` over the accepted steps, `histVol` the product of these
over the axes. -/

/-- One in-place step keeps the mesh well formed, keeps cell counts and names, and multiplies
the cell length of every axis by the absolute value of that axis's scale factor (by 1 for a
translation). -/
theorem hstep_geometry (m : Mesh) (hm : m.Inv) (s : HStep) (m' : Mesh) (h : hstepM m s = .ok m') :
    m'.Inv ∧ m'.n = m.n ∧ m'.region.dims = m.region.dims ∧ m'.ndim = m.ndim ∧
    ∀ a, a < m.ndim → m'.cellAt a = stepFac s a * m.cellAt a :=
  hstepM_spec m hm s m' h

/-- In-place steps are accepted: on every well-formed mesh, `mesh.region.translate` by a vector
of the right length and `mesh.region.scale` by non-zero factors (a number or one per axis,
reference point absent or of the right length) succeed; if the subregions fit the mesh the same
holds for `mesh.translate` / `mesh.scale`, which also transform every subregion. -/
theorem hstep_accepted (m : Mesh) (hm : m.Inv) :
    (∀ v : List Rat, v.length = m.ndim → ∃ m', hstepM m (.translateRegion v) = .ok m') ∧
    (∀ (f : T.Factor) (ref : Option (List Rat)), f.okFor m.ndim = true →
      (ref.getD m.region.center).length = m.ndim → (∀ a, a < m.ndim → f.at a ≠ 0) →
      ∃ m', hstepM m (.scaleRegion f ref) = .ok m') ∧
    (SubsFit m →
      (∀ v : List Rat, v.length = m.ndim → ∃ m', hstepM m (.translateMesh v) = .ok m') ∧
      (∀ (f : T.Factor) (ref : Option (List Rat)), f.okFor m.ndim = true →
        (ref.getD m.region.center).length = m.ndim → (∀ a, a < m.ndim → f.at a ≠ 0) →
        ∃ m', hstepM m (.scaleMesh f ref) = .ok m')) :=
  ⟨(hstepM_region_ok m hm).1, (hstepM_region_ok m hm).2, fun hfit => hstepM_mesh_ok m hm hfit⟩

/-- After ANY history of in-place steps the field is still well formed, carries the same
arrays, and the cell volume of its mesh is the accumulated volume factor times the original
cell volume: `dV` follows the mesh (induction over the history). -/
theorem dV_history (f : Fld) (hf : WF f) (steps : List HStep) :
    WF (runH f steps) ∧ (runH f steps).data = f.data ∧
    dV (runH f steps).mesh = histVol f.mesh steps * dV f.mesh ∧
    ∀ a, a < f.mesh.ndim → (runH f steps).mesh.cellAt a = histFac f.mesh a steps * f.mesh.cellAt a := by
  obtain ⟨hwf, hdata, _, _, _, _, hc⟩ := runH_spec steps f hf
  exact ⟨hwf, hdata, dV_runH f hf steps, hc⟩

/-- `integrate()` after any history of in-place steps is the accumulated volume factor times
`integrate()` before — the current cell volume times the sum of the cells. -/
theorem integrate_all_history (f : Fld) (hf : WF f) (steps : List HStep) :
    integrate (runH f steps) .none false
      = .ok (.vals (tab f.nvdim fun c =>
          histVol f.mesh steps * (dV f.mesh * nestSum f.data.shape fun i => cget f.data i c))) := by
  obtain ⟨_, hdata, hnv, _, _, _, _⟩ := runH_spec steps f hf
  rw [integrate_all, hnv, dV_runH f hf steps, hdata]
  congr 2
  apply tab_congr
  intro c _
  ring

/-- `integrate(d)` and `integrate(d, cumulative=True)` after any history of in-place steps:
same shape, and every entry is the accumulated factor of THAT axis times the entry before. -/
theorem integrate_dir_history (f : Fld) (hf : WF f) (steps : List HStep) (d : String) (cum : Bool) (r r' : Res)
    (h : integrate f (.name d) cum = .ok r) (h' : integrate (runH f steps) (.name d) cum = .ok r') :
    ∃ ax, f.mesh.region.dim2index d = .ok ax ∧ r'.shape = r.shape ∧
      ∀ i c, inRange r.shape i = true → c < f.nvdim →
        r'.cval i c = histFac f.mesh ax steps * r.cval i c := by
  obtain ⟨hwf, _, hnv, _, _, _, _⟩ := runH_spec steps f hf
  obtain ⟨_, hs, hv⟩ := integrate_vals f hf (.name d) cum r h
  obtain ⟨_, hs', hv'⟩ := integrate_vals _ hwf (.name d) cum r' h'
  have hax : ∃ ax, f.mesh.region.dim2index d = .ok ax := by
    cases hd : f.mesh.region.dim2index d with
    | ok ax => exact ⟨ax, rfl⟩
    | error e =>
      unfold integrate at h
      simp only [hd] at h
      cases h
  obtain ⟨ax, hax⟩ := hax
  have hss : r'.shape = r.shape := by rw [hs, hs', ishape_runH f hf steps]
  refine ⟨ax, hax, hss, ?_⟩
  intro i c hi hc
  rw [hv' i c (by rw [hss]; exact hi) (by rw [hnv]; exact hc), hv i c hi hc]
  exact ival_runH_name f hf steps d ax hax cum i c

/-- Every form of `mean` is unchanged by any history of in-place rescalings / translations of
the mesh: `mean()` literally, the other forms in shape and values. -/
theorem mean_history_invariant (f : Fld) (hf : WF f) (steps : List HStep) :
    mean (runH f steps) .none = mean f .none ∧
    ∀ dir r r', mean f dir = .ok r → mean (runH f steps) dir = .ok r' →
      r'.shape = r.shape ∧ ∀ i c, inRange r.shape i = true → c < f.nvdim → r'.cval i c = r.cval i c := by
  obtain ⟨_, hdata, hnv, _, _, _, _⟩ := runH_spec steps f hf
  constructor
  · unfold mean meanAll
    simp only [hdata, hnv]
  · intro dir r r' h h'
    obtain ⟨_, hs, hv⟩ := mean_vals f dir r h
    obtain ⟨_, hs', hv'⟩ := mean_vals _ dir r' h'
    have hss : r'.shape = r.shape := by rw [hs, hs', mshape_runH f hf steps]
    refine ⟨hss, ?_⟩
    intro i c hi hc
    rw [hv' i c (by rw [hss]; exact hi) (by rw [hnv]; exact hc), hv i c hi hc]
    exact mval_runH f hf steps dir i c

/-- A history of in-place translations only leaves `integrate()` literally unchanged. -/
theorem integrate_all_translation_history (f : Fld) (hf : WF f) (steps : List HStep)
    (hall : ∀ s ∈ steps, ∀ a, stepFac s a = 1) :
    integrate (runH f steps) .none false = integrate f .none false := by
  rw [integrate_all_history f hf steps, integrate_all]
  congr 2
  apply tab_congr
  intro c _
  unfold histVol
  rw [tab_congr _ _ (fun _ => (1 : Rat)) (fun a _ => histFac_translations steps hall f.mesh a), ratProd_tab_one]
  ring

/-! ## Order and absolute value -/

/-- All forms of `integrate` are monotone in the field: if `f ≤ g` cell by cell in component
`c` (two fields on one mesh) then every entry of the integral of `f` is at most the
corresponding entry of the integral of `g` (cell lengths and cell volume are positive). -/
theorem integrate_monotone (f g : Fld) (hf : WF f) (hm : g.mesh = f.mesh) (hn : g.nvdim = f.nvdim)
    (hs : g.data.shape = f.data.shape) (c : Nat) (hc : c < f.nvdim)
    (hle : ∀ t, cget f.data t c ≤ cget g.data t c) (dir : Dir) (cum : Bool) (rf rg : Res)
    (h1 : integrate f dir cum = .ok rf) (h2 : integrate g dir cum = .ok rg) :
    rg.shape = rf.shape ∧ ∀ i, inRange rf.shape i = true → rf.cval i c ≤ rg.cval i c := by
  have hwg : WF g := ⟨by rw [hm]; exact hf.1, by rw [hs, hm]; exact hf.2⟩
  obtain ⟨_, hsf, hvf⟩ := integrate_vals f hf dir cum rf h1
  obtain ⟨_, hsg, hvg⟩ := integrate_vals g hwg dir cum rg h2
  have hss : rg.shape = rf.shape := by rw [hsg, hsf]; unfold ishape; rw [hm]
  refine ⟨hss, ?_⟩
  intro i hi
  rw [hvf i c hi hc, hvg i c (by rw [hss]; exact hi) (by rw [hn]; exact hc)]
  exact ival_mono f g hf hm hs c hle dir cum i

/-- The integral of `abs(f)` — every form: all directions, one direction, cumulative — exists
whenever that of `f` does, lives on the same mesh, and bounds the absolute value of the
integral of `f` entry by entry (triangle inequality); in particular it is non-negative. -/
theorem integrate_abs_triangle (f : Fld) (hf : WF f) (dir : Dir) (cum : Bool) (r : Res)
    (h : integrate f dir cum = .ok r) :
    ∃ ra, integrate (absF f) dir cum = .ok ra ∧ ra.mesh? = r.mesh? ∧ ra.shape = r.shape ∧
      ∀ i c, inRange r.shape i = true → c < f.nvdim → |r.cval i c| ≤ ra.cval i c ∧ 0 ≤ ra.cval i c := by
  obtain ⟨ra, hra, hmesh⟩ := integrate_frame f (absF f) rfl rfl dir cum r h
  have hwa : WF (absF f) := ⟨hf.1, hf.2⟩
  obtain ⟨_, hsa, hva⟩ := integrate_vals _ hwa dir cum ra hra
  obtain ⟨_, hs, hv⟩ := integrate_vals f hf dir cum r h
  have hss : ra.shape = r.shape := by rw [hsa, hs]; rfl
  refine ⟨ra, hra, hmesh, hss, ?_⟩
  intro i c hi hc
  rw [hva i c (by rw [hss]; exact hi) hc, hv i c hi hc]
  have := ival_abs f hf c hc dir cum i
  exact ⟨this, le_trans (abs_nonneg _) this⟩

/-- Bookkeeping of every field result: number of components, component labels and mapping are
kept, every cell of the result is valid; `integrate` drops the unit, `mean` keeps it. -/
theorem result_meta (f : Fld) (g : Fld) :
    (∀ dir cum, integrate f dir cum = .ok (.field g) →
      g.nvdim = f.nvdim ∧ g.vdims = f.vdims ∧ g.vmap = f.vmap ∧ g.unit = none ∧ ∀ i, g.valid.get i = true) ∧
    (∀ dir, mean f dir = .ok (.field g) →
      g.nvdim = f.nvdim ∧ g.vdims = f.vdims ∧ g.vmap = f.vmap ∧ g.unit = f.unit ∧ ∀ i, g.valid.get i = true) := by
  constructor
  · intro dir cum h
    cases dir with
    | none =>
      cases cum with
      | true => cases h
      | false => rw [integrate_all] at h; cases h
    | name d =>
      cases cum with
      | true =>
        obtain ⟨_, _, _, hr⟩ := integrate_cum_unpack f d _ h
        injection hr with hr; subst hr
        exact ⟨rfl, rfl, rfl, rfl, fun _ => rfl⟩
      | false =>
        obtain ⟨_, _, _, _, _, _, hg⟩ := integrate_dir_unpack f d g h
        subst hg
        exact ⟨rfl, rfl, rfl, rfl, fun _ => rfl⟩
    | names ds => cases h
    | other => cases h
  · intro dir h
    cases dir with
    | none => unfold mean at h; cases h
    | name d =>
      obtain ⟨_, _, _, _, _, hr⟩ := mean_name_unpack f d _ h
      injection hr with hr; subst hr
      exact ⟨rfl, rfl, rfl, rfl, fun _ => rfl⟩
    | names ds =>
      obtain ⟨_, _, _, _, _, _, hg⟩ := mean_names_unpack f ds g h
      subst hg
      exact ⟨rfl, rfl, rfl, rfl, fun _ => rfl⟩
    | other => cases h

/-! ## Exactly which calls succeed -/

/-- Acceptance of `integrate`, characterised: on a well-formed field whose subregions fit the
mesh, `integrate(direction, cumulative)` returns a result EXACTLY when either no direction is
given and `cumulative` is false, or the direction is one name of the mesh (any number of
dimensions, cumulative or not). -/
theorem integrate_ok_iff (f : Fld) (hf : WF f) (hsubs : SubsAcc f.mesh) (dir : Dir) (cum : Bool) :
    (∃ r, integrate f dir cum = .ok r) ↔
      (match dir with
       | .none => cum = false
       | .name d => d ∈ f.mesh.region.dims
       | _ => False) := by
  cases dir with
  | none =>
    cases cum with
    | true => simp [integrate]
    | false => simp only [iff_true]; exact ⟨_, integrate_all f⟩
  | name d =>
    simp only
    constructor
    · rintro ⟨r, h⟩
      cases hd : f.mesh.region.dim2index d with
      | ok ax => exact mem_of_dim2index _ _ _ hd
      | error e =>
        unfold integrate at h
        simp only [hd] at h
        cases h
    · intro hd
      cases cum with
      | true =>
        obtain ⟨g, hg⟩ := integrate_cum_ok f hf d hd
        exact ⟨_, hg⟩
      | false =>
        by_cases h1 : f.mesh.ndim = 1
        · obtain ⟨v, hv⟩ := (integrate_dir_ok f hf hsubs d hd).2 h1
          exact ⟨_, hv⟩
        · have h2 : 2 ≤ f.mesh.ndim := by
            have := hf.1.1.1
            have h0 : f.mesh.ndim = f.mesh.region.pmin.length := rfl
            omega
          obtain ⟨g, hg, _⟩ := (integrate_dir_ok f hf hsubs d hd).1 h2
          exact ⟨_, hg⟩
  | names ds => simp [integrate]
  | other => simp [integrate]

/-- Acceptance of `mean`, characterised: on a well-formed field whose subregions fit the mesh,
`mean(direction)` returns a result EXACTLY when no direction is given, or the direction is one
name of a mesh with at least two dimensions, or it is a list of distinct names of the mesh (in
any order; all of them, some of them or none). -/
theorem mean_ok_iff (f : Fld) (hf : WF f) (hsubs : SubsAcc f.mesh) (dir : Dir) :
    (∃ r, mean f dir = .ok r) ↔
      (match dir with
       | .none => True
       | .name d => d ∈ f.mesh.region.dims ∧ 2 ≤ f.mesh.ndim
       | .names ds => ds.Nodup ∧ ∀ d ∈ ds, d ∈ f.mesh.region.dims
       | .other => False) := by
  cases dir with
  | none => simp only [iff_true]; exact ⟨_, rfl⟩
  | name d =>
    simp only
    constructor
    · rintro ⟨r, h⟩
      obtain ⟨ax, m', hax, hsel, _, _⟩ := mean_name_unpack f d r h
      obtain ⟨_, _, _, h2, _⟩ := sel_spec f.mesh hf.1 d m' hsel
      exact ⟨mem_of_dim2index _ _ _ hax, h2⟩
    · rintro ⟨hd, h2⟩
      obtain ⟨g, hg⟩ := mean_dir_ok f hf hsubs h2 d hd
      exact ⟨_, hg⟩
  | names ds =>
    simp only
    constructor
    · rintro ⟨r, h⟩
      obtain ⟨hdup, hcase⟩ := mean_names_cases f ds r h
      refine ⟨nodup_of_hasDup _ hdup, ?_⟩
      rcases hcase with ⟨hsame, _⟩ | ⟨_, m', axes, _, haxes, _, _⟩
      · intro d hd
        exact ((sameMultiset_iff_perm _ _).mp hsame).mem_iff.mp hd
      · exact dimIndices_ok_mem _ _ _ haxes
    · rintro ⟨hnd, hmem⟩
      by_cases hp : ds.Perm f.mesh.region.dims
      · exact ⟨_, by rw [mean_all_named f hf ds hp]; rfl⟩
      · have hdl : f.mesh.region.dims.length = f.mesh.ndim := hf.1.1.2.2.1
        have hlt := length_lt_of_not_perm ds _ hnd hmem hp
        obtain ⟨g, hg⟩ := mean_dirs_ok f hf hsubs ds hnd hmem (by rw [← hdl]; exact hlt)
        exact ⟨_, hg⟩
  | other => simp [mean]

/-- Invariant over histories: after ANY history of `mesh.scale` / `mesh.translate` in-place
steps (which transform the region and every subregion alike; negative factors reflect) the
subregions still fit the mesh; on a mesh without subregions the same holds for ANY history,
region-level steps included.  So every directional integral, every cumulative integral and
every mean that existed before still exists (acceptance theorems `integrate_ok_iff`,
`mean_ok_iff` apply to the current state). -/
theorem subregions_fit_after_history (f : Fld) (hf : WF f) (hsubs : SubsFit f.mesh) (steps : List HStep)
    (hall : (∀ s ∈ steps, (∃ fac ref, s = HStep.scaleMesh fac ref) ∨ (∃ v, s = HStep.translateMesh v)) ∨
      f.mesh.subs = []) :
    WF (runH f steps) ∧ SubsFit (runH f steps).mesh ∧
    ∀ d, d ∈ f.mesh.region.dims → ∀ cum, ∃ r, integrate (runH f steps) (.name d) cum = .ok r := by
  obtain ⟨hwf, _, _, _, hdims, _, _⟩ := runH_spec steps f hf
  have hfit : SubsFit (runH f steps).mesh := by
    rcases hall with hall | hnil
    · exact subsFit_runH steps hall f hf hsubs
    · exact subsFit_nil _ (runH_subs_nil steps f hnil)
  refine ⟨hwf, hfit, ?_⟩
  intro d hd cum
  exact (integrate_ok_iff _ hwf (subsAcc_of_fit _ hwf.1 hfit) (.name d) cum).mpr (by rw [hdims]; exact hd)

/-! ## Refusals -/

/-- a cumulative integral over all directions is rejected -/
theorem cumulative_all_dirs_rejected (f : Fld) : integrate f .none true = .error .value := rfl

/-- `integrate` accepts only a single direction name -/
theorem integrate_rejects_non_string (f : Fld) (ds : List String) (cum : Bool) :
    integrate f (.names ds) cum = .error .type ∧ integrate f .other cum = .error .type := ⟨rfl, rfl⟩

/-- an unknown direction is rejected by `integrate` and `mean` -/
theorem unknown_direction_rejected (f : Fld) (d : String) (cum : Bool) (e : Err)
    (h : f.mesh.region.dim2index d = .error e) :
    integrate f (.name d) cum = .error e ∧ mean f (.name d) = .error e := by
  unfold integrate mean
  simp only [h]
  exact ⟨trivial, trivial⟩

/-- duplicate directions are rejected by `mean`; so is a direction that is neither a name
nor a list of names -/
theorem mean_rejects (f : Fld) (ds : List String) (h : hasDup ds = true) :
    mean f (.names ds) = .error .value ∧ mean f .other = .error .value := by
  unfold mean
  simp [h]

/-! ## Subregions the setter accepts only thanks to its tolerances

`SubOk m r`: the three checks of the `subregions` setter on one candidate (inside the region up
to the region's `atol`; `Mesh(region=r, cell=mesh.cell)` can be built: 0.1 % divisibility, at
least one cell; that mesh is aligned to 1e-12).  `SubAcc m s`: a STORED subregion passes these
checks when offered again as the plain box `df.Region(p1, p2)` - which is what `Mesh.sel` does
with the subregions it keeps.  `SubsAcc m`: every stored subregion does.  The success theorems
above (`…_ok`, `fubini_total`, `fubini_perm`, `integrate_ok_iff`, `mean_ok_iff`, …) only assume
`SubsAcc`; an exact fit (`SubsFit`) is the special case `exact_fit_accepted`. -/

/-- The remainder test shared by the 0.1 % divisibility check of `Mesh(region, cell)` and by
`Mesh.is_aligned` (C14's `aligned_tol_sound`, here with its converse): a length `e` passes
`¬ (t < e mod c < c - t)` EXACTLY when it is within `t` of a whole number of cells. -/
theorem remainder_test_iff (e c t : Rat) (hc : 0 < c) :
    (decide (t < Mesh.remainder e c) && decide (Mesh.remainder e c < c - t)) = false ↔
      ∃ z : Int, absR (e - (z : Rat) * c) ≤ t :=
  ⟨remainder_test_sound e c t hc, fun ⟨z, hz⟩ => remainder_test_complete e c t hc z hz⟩

/-- The `subregions` setter accepts a dictionary EXACTLY when every entry passes the three checks,
and then stores each entry with the mesh's dims, units and tolerance. -/
theorem setter_accepts_iff (m : Mesh) (subs : List (String × Region)) :
    ((∃ t, setSubs m subs = .ok t) ↔ ∀ p ∈ subs, SubOk m p.2) ∧
    ∀ t, setSubs m subs = .ok t → t = subs.map fun p => (p.1, restamp m p.2) :=
  ⟨setSubs_iff m subs, fun t h => setSubs_val m subs t h⟩

/-- What the tolerances let through, on every axis: an accepted box has a positive extent; its
faces lie inside the mesh region or within the region's tolerance of the region's faces; its
extent is within 0.1 % of the smallest cell of a whole number of cells and rounds to `k ≥ 1`
cells whose length agrees with the mesh's cell length to `1e-12 + 1e-5·`; and both faces sit
within `1e-12` of a whole number of cells from the corresponding faces of the region. -/
theorem setter_accepts_per_axis (m : Mesh) (hm : m.Inv) (r : Region) (h : SubOk m r) (a : Nat) (ha : a < m.ndim) :
    r.lo a < r.hi a ∧
    (m.region.lo a ≤ r.lo a ∨ absR (m.region.lo a - r.lo a) ≤ m.region.atol + m.region.tol * absR (r.lo a)) ∧
    (r.hi a ≤ m.region.hi a ∨ absR (m.region.hi a - r.hi a) ≤ m.region.atol + m.region.tol * absR (r.hi a)) ∧
    (∃ z : Int, absR (r.edge a - (z : Rat) * m.cellAt a) ≤ listMin m.cell / 1000) ∧
    (∃ k : Nat, 1 ≤ k ∧ (k : Int) = Mesh.roundHalfEven (r.edge a / m.cellAt a) ∧
      absR (m.cellAt a - r.edge a / (k : Rat)) ≤ 1/1000000000000 + (1/100000) * absR (r.edge a / (k : Rat))) ∧
    (∃ z : Int, absR (absR (m.region.lo a - r.lo a) - (z : Rat) * m.cellAt a) ≤ 1/1000000000000) ∧
    (∃ z : Int, absR (absR (m.region.hi a - r.hi a) - (z : Rat) * m.cellAt a) ≤ 1/1000000000000) :=
  subOk_sound m hm r h a ha

/-- The exact fit is the tolerance-free special case: subregions that start a whole number of
cells into the region and are a whole number ≥ 1 of cells long pass all three checks. -/
theorem exact_fit_accepted (m : Mesh) (hm : m.Inv) (h : SubsFit m) : SubsAcc m := subsAcc_of_fit m hm h

/-- **Acceptance is inherited by axis removal.**  A stored subregion that passes the setter's
checks of the mesh passes, with one axis removed, the setter's checks of the reduced mesh: every
check is per axis except three tolerances taken from a minimum over the axes (the region's
`atol`, the box's own `atol`, 0.1 % of the smallest cell), and a minimum over fewer axes is not
smaller.  There is NO exception: whatever the setter let through, `Mesh.sel(d)` lets through. -/
theorem accepted_subregion_inherited (m : Mesh) (hm : m.Inv) (d : String) (ax : Nat)
    (hax : m.region.dim2index d = .ok ax) (mc : Mesh) (hsel : sel { m with subs := [] } d = .ok mc)
    (s : Region) (hs : SubAcc m s) : SubOk mc (projReg ax s) :=
  subOk_proj m hm d ax hax mc hsel s hs

/-- `Mesh.sel(d)` on a well-formed mesh (two or more dimensions) whose subregions passed the
setter - exactly fitting or only within the tolerances -, for every direction `d`: it SUCCEEDS
and returns the reduced mesh of the same mesh without subregions, carrying exactly the
subregions whose closed extent along the removed axis contains the centre of cell ⌊n/2⌋ of that
axis, each with that axis removed and the reduced mesh's dims / units / tolerance; these pass the
checks of the reduced mesh again (so the next `sel` / `integrate` / `mean` succeeds too). -/
theorem sel_subregions_acc (m : Mesh) (hm : m.Inv) (hacc : SubsAcc m) (h2 : 2 ≤ m.ndim) (d : String)
    (hd : d ∈ m.region.dims) :
    ∃ ax mc m', m.region.dim2index d = .ok ax ∧ sel { m with subs := [] } d = .ok mc ∧ sel m d = .ok m' ∧
      m'.region = mc.region ∧ m'.n = mc.n ∧ m'.bc = "" ∧
      m'.subs = (keepSubs ax (m.region.lo ax + (((m.nAt ax / 2 : Nat) : Rat) + 1/2) * m.cellAt ax) m.subs).map
        (fun p => (p.1, restamp mc (projReg ax p.2))) ∧
      SubsAcc m' := by
  obtain ⟨ax, hax⟩ := dim2index_of_mem _ _ hd
  obtain ⟨s, mc, m', hs, hsel0, hsel, hm', hacc'⟩ := sel_ok_acc m hm hacc h2 d ax hax
  obtain ⟨haxd, _⟩ := dim2index_ok _ _ _ hax
  have haxlt : ax < m.ndim := by
    show ax < m.region.pmin.length
    rw [← hm.1.2.2.1]; exact haxd
  rw [selCentre_eq m hm ax haxlt] at hs
  injection hs with hs
  obtain ⟨_, _, _, _, _, _, _, _, _, _, hbc, _⟩ := sel_spec m hm d m' hsel
  exact ⟨ax, mc, m', hax, hsel0, hsel, by rw [hm'], by rw [hm'], hbc, by rw [hm', hs], hacc'⟩

/-! ## Quarter turns: `Field.rotate90` permutes the cells and trades the cell lengths

`rotate90F` is the shared exact model of `Field.rotate90` (`DFV/Model/Transform.lean`, property
C12): the copying rotation of the mesh, `np.rot90` on values and validity, the two mapped
components turned by the exact matrix (`cosq`, `sinq` ∈ {0, ±1}).  `srcIdx sh p q k j` is the
index `np.rot90` reads entry `j` from; `rotSrc i1 i2 k a` is the axis that ends up on axis `a`
(the other one of the pair for odd `k`); `csum f c` is the sum of component `c` over all cells. -/

/-- **The sum over all cells is invariant under `np.rot90`**, for every integer `k`, every pair
of distinct axes and every shape: the source indices of the turned shape are a permutation of
the indices of the shape. -/
theorem rot90_sum_invariant (sh : List Nat) (p q : Nat) (k : Int) (hpq : p ≠ q) (hp : p < sh.length) (hq : q < sh.length)
    (hpos : ∀ n ∈ sh, 0 < n) (G : List Nat → Rat) :
    nestSum (T.rotN sh p q k) (fun j => G (T.srcIdx sh p q k j)) = nestSum sh G :=
  nestSum_rot sh p q k hpq hp hq hpos G

/-- **What an accepted `Field.rotate90` does, exactly** (either form, every integer `k`, any
reference point, any number of dimensions): the result is a well-formed field on the turned mesh
- same direction names, cell counts / edge lengths / cell lengths of the two axes traded for odd
`k` and kept for even `k`, the SAME cell volume -, its cells are those of the field permuted by
`np.rot90`, and for a vector field the two mapped components of every cell are turned by the
exact quarter-turn matrix. -/
theorem rotate90_cells (f : Fld) (hf : WF f) (a1 a2 : String) (k : Int) (ref : Option (List Rat)) (b : Bool)
    (x g : Fld) (h : T.rotate90F f a1 a2 k ref b = .ok (x, g)) :
    ∃ i1 i2, f.mesh.region.dim2index a1 = .ok i1 ∧ f.mesh.region.dim2index a2 = .ok i2 ∧ i1 ≠ i2 ∧
      i1 < f.mesh.ndim ∧ i2 < f.mesh.ndim ∧ WF g ∧ g.nvdim = f.nvdim ∧ g.mesh.ndim = f.mesh.ndim ∧
      g.mesh.region.dims = f.mesh.region.dims ∧ g.mesh.n = T.rotN f.mesh.n i1 i2 k ∧
      g.data.shape = T.rotN f.data.shape i1 i2 k ∧
      (∀ a, a < f.mesh.ndim → g.mesh.cellAt a = f.mesh.cellAt (T.rotSrc i1 i2 k a)) ∧
      (∀ a, a < f.mesh.ndim → g.mesh.region.edge a = f.mesh.region.edge (T.rotSrc i1 i2 k a)) ∧
      dV g.mesh = dV f.mesh ∧ g.vdims = f.vdims ∧ g.vmap = f.vmap ∧ g.unit = f.unit ∧ (x = if b then g else f) ∧
      ((f.nvdim ≤ 1 ∧ ∀ j, g.data.get j = f.data.get (T.srcIdx f.data.shape i1 i2 k j)) ∨
       (f.nvdim > 1 ∧ ∃ c1 c2, (f.rDim a1).bind f.vdimIndex = some c1 ∧ (f.rDim a2).bind f.vdimIndex = some c2 ∧
          ∀ j, g.data.get j = T.rotVec (f.data.get (T.srcIdx f.data.shape i1 i2 k j)) c1 c2 k)) :=
  rotate90F_cells f hf a1 a2 k ref b x g h

/-- A quarter turn of a field is accepted EXACTLY when its arguments are well formed (C13's
characterisation, restated for the histories of this property): two different direction names of
the mesh, a reference point with one coordinate per direction, and - for a vector field - both
directions mapped to a component.  `T.FInv`: mesh and array shapes consistent, subregions on the
cell lattice, well-formed `bc`. -/
theorem rotate90_accepted_iff (f : Fld) (hf : T.FInv f) (a1 a2 : String) (k : Int) (ref : Option (List Rat)) (b : Bool) :
    (∃ x g, T.rotate90F f a1 a2 k ref b = .ok (x, g)) ↔ ¬ T.MalformedF f (.rotate90 a1 a2 k ref b) :=
  rotate90F_ok_iff f hf a1 a2 k ref b

/-- **`integrate()` under a quarter turn**: the volume integral of the turned field is the volume
integral of the field with the two mapped components turned by the quarter-turn matrix
(`turnVals`; a scalar field: literally the same number) - the permutation of the cells does not
change the sum, the trade of the cell lengths does not change the cell volume. -/
theorem rotate90_integrate_all (f : Fld) (hf : WF f) (hl : CellLen f) (a1 a2 : String) (k : Int)
    (ref : Option (List Rat)) (b : Bool) (x g : Fld) (h : T.rotate90F f a1 a2 k ref b = .ok (x, g)) :
    ∃ v, integrate f .none false = .ok (.vals v) ∧ integrate g .none false = .ok (.vals (turnVals f a1 a2 k v)) ∧
      (f.nvdim ≤ 1 → integrate g .none false = integrate f .none false) := by
  refine ⟨_, integrate_all_csum f, integrate_all_rot f hf hl a1 a2 k ref b x g h _ (integrate_all_csum f), ?_⟩
  intro h1
  rw [integrate_all_rot f hf hl a1 a2 k ref b x g h _ (integrate_all_csum f), integrate_all_csum f]
  unfold turnVals
  rw [if_neg (by omega)]

/-- **Directional integrals follow the axes under a quarter turn.**  For every direction `d` of
the mesh (in or out of the plane of rotation), `integrate(d)` of the turned field at the reduced
cell `i` is `integrate(d')` of the field at the source cell of `i` (axis `d'` removed), where `d'`
is the direction that was turned onto `d` (`d` itself unless `k` is odd and `d` is one of the two
axes) - with the two mapped components of a vector field turned by the quarter-turn matrix.  The
cell length used is that of `d'`, the sum runs along `d'` (forwards or backwards): a wrong axis or a
cell length taken from the wrong direction after a turn would contradict this. -/
theorem rotate90_integrate_dir (f : Fld) (hf : WF f) (hl : CellLen f) (a1 a2 : String) (k : Int)
    (ref : Option (List Rat)) (b : Bool) (x g : Fld) (h : T.rotate90F f a1 a2 k ref b = .ok (x, g)) (d : String) (r : Res)
    (hr : integrate g (.name d) false = .ok r) :
    ∃ i1 i2 a, f.mesh.region.dim2index a1 = .ok i1 ∧ f.mesh.region.dim2index a2 = .ok i2 ∧
      f.mesh.region.dim2index d = .ok a ∧ r.shape = removeAt (T.rotN f.mesh.n i1 i2 k) a ∧
      ∀ i c, inRange (removeAt (T.rotN f.mesh.n i1 i2 k) a) i = true → c < f.nvdim →
        inRange (removeAt f.mesh.n (T.rotSrc i1 i2 k a))
          (removeAt (T.srcIdx f.mesh.n i1 i2 k (insertAt i a 0)) (T.rotSrc i1 i2 k a)) = true ∧
        r.cval i c = (turnVals f a1 a2 k (tab f.nvdim fun c' =>
          ival f (.name (f.mesh.region.dims.getD (T.rotSrc i1 i2 k a) "")) false
            (removeAt (T.srcIdx f.mesh.n i1 i2 k (insertAt i a 0)) (T.rotSrc i1 i2 k a)) c')).getD c 0 := by
  obtain ⟨i1, i2, a, d1, d2, hax, haxlt, hsrc, hrs, hval⟩ := rot_dir_vals f hf hl a1 a2 k ref b x g h d r hr
  refine ⟨i1, i2, a, d1, d2, hax, hrs, ?_⟩
  intro i c hi hc
  obtain ⟨hJ, hv⟩ := hval i c hi hc
  refine ⟨inRange_removeAt _ _ _ hJ, ?_⟩
  rw [hv]
  congr 2
  apply tab_congr
  intro c' _
  have hdl : f.mesh.region.dims.length = f.mesh.ndim := hf.1.1.2.2.1
  have hd' := dim2index_getD f.mesh.region hf.1.1.2.2.2.2.1 (T.rotSrc i1 i2 k a) (by rw [hdl]; exact hsrc)
  simp only [ival, hd', Bool.false_eq_true, if_false]
  congr 1
  apply sumTo_congr
  intro u _
  rw [insertAt_removeAt _ _ _ (by rw [inRange_length _ _ hJ, hf.1.2.1]; exact hsrc)]

/-- **Directional means follow the axes too**: `mean(d)` of the turned field at the reduced cell
`i` is the turned directional integral of `rotate90_integrate_dir` divided by the edge length of
the direction `d'` that was turned onto `d` (the integrated extent follows the axis, like the
cell length). -/
theorem rotate90_mean_dir (f : Fld) (hf : WF f) (hl : CellLen f) (a1 a2 : String) (k : Int)
    (ref : Option (List Rat)) (b : Bool) (x g : Fld) (h : T.rotate90F f a1 a2 k ref b = .ok (x, g)) (d : String) (gi : Fld)
    (r : Res) (hi : integrate g (.name d) false = .ok (.field gi)) (hr : mean g (.name d) = .ok r) :
    ∃ i1 i2 a, f.mesh.region.dim2index a1 = .ok i1 ∧ f.mesh.region.dim2index a2 = .ok i2 ∧
      f.mesh.region.dim2index d = .ok a ∧ r.shape = removeAt (T.rotN f.mesh.n i1 i2 k) a ∧
      ∀ i c, inRange (removeAt (T.rotN f.mesh.n i1 i2 k) a) i = true → c < f.nvdim →
        r.cval i c = (turnVals f a1 a2 k (tab f.nvdim fun c' =>
          ival f (.name (f.mesh.region.dims.getD (T.rotSrc i1 i2 k a) "")) false
            (removeAt (T.srcIdx f.mesh.n i1 i2 k (insertAt i a 0)) (T.rotSrc i1 i2 k a)) c')).getD c 0
          / f.mesh.region.edge (T.rotSrc i1 i2 k a) := by
  obtain ⟨j1, j2, e1, e2, _, _, _, hwg, hnv, _, hdims, hn, _, _, hedge, _⟩ := rotate90_cells f hf a1 a2 k ref b x g h
  obtain ⟨i1, i2, a, d1, d2, hax, hrs, hval⟩ := rotate90_integrate_dir f hf hl a1 a2 k ref b x g h d (.field gi) hi
  rw [e1] at d1; injection d1 with d1; subst d1
  rw [e2] at d2; injection d2 with d2; subst d2
  obtain ⟨a', gm, hax', hrm, _, hshape, _, _, _, hmv⟩ := mean_dir_eq g hwg d gi r hi hr
  rw [dim2index_congr f.mesh.region g.mesh.region hdims d, hax] at hax'
  injection hax' with hax'; subst hax'
  subst hrm
  have haxlt : a < f.mesh.ndim := by
    obtain ⟨hl', _⟩ := dim2index_ok _ _ _ hax
    have hdl : f.mesh.region.dims.length = f.mesh.ndim := hf.1.1.2.2.1
    rw [← hdl]; exact hl'
  refine ⟨j1, j2, a, e1, e2, hax, ?_, ?_⟩
  · show gm.data.shape = _
    rw [hshape]; exact hrs
  · intro i c hi' hc
    rw [hn] at hmv
    show cget gm.data i c = _
    rw [hmv i c hi' (by rw [hnv]; exact hc), hedge a haxlt]
    have := (hval i c hi' hc).2
    simp only [Res.cval] at this
    rw [this]

/-- **`mean()` under a quarter turn** likewise: the mean of the turned field is the mean of the
field with the two mapped components turned; a scalar field's mean is unchanged. -/
theorem rotate90_mean_all (f : Fld) (hf : WF f) (hl : CellLen f) (a1 a2 : String) (k : Int)
    (ref : Option (List Rat)) (b : Bool) (x g : Fld) (h : T.rotate90F f a1 a2 k ref b = .ok (x, g)) :
    ∃ v, mean f .none = .ok (.vals v) ∧ mean g .none = .ok (.vals (turnVals f a1 a2 k v)) ∧
      (f.nvdim ≤ 1 → mean g .none = mean f .none) := by
  refine ⟨_, mean_all_csum f, mean_all_rot f hf hl a1 a2 k ref b x g h _ (mean_all_csum f), ?_⟩
  intro h1
  rw [mean_all_rot f hf hl a1 a2 k ref b x g h _ (mean_all_csum f), mean_all_csum f]
  unfold turnVals
  rw [if_neg (by omega)]

/-- After an accepted quarter turn of a well-formed field on a mesh without subregions every
directional integral, cumulative integral and accepted mean exists again (the turned field is well
formed and has no subregions), and integrating it direction by direction in any order gives its
`integrate()` - which is the turned `integrate()` of the field (`rotate90_integrate_all`). -/
theorem rotate90_then_integrate_ok (f : Fld) (hf : WF f) (hs : f.mesh.subs = []) (a1 a2 : String) (k : Int)
    (ref : Option (List Rat)) (b : Bool) (x g : Fld) (h : T.rotate90F f a1 a2 k ref b = .ok (x, g)) :
    WF g ∧ SubsAcc g.mesh ∧
    (∀ d, d ∈ f.mesh.region.dims → ∀ cum, ∃ r, integrate g (.name d) cum = .ok r) ∧
    (∀ ds : List String, ds.Perm f.mesh.region.dims → integrateSeq g ds = integrate g .none false) := by
  obtain ⟨_, _, _, _, _, _, _, hwg, _, _, hdims, _⟩ := rotate90_cells f hf a1 a2 k ref b x g h
  have hacc : SubsAcc g.mesh := subsAcc_nil _ (rotate90F_subs_nil f hs a1 a2 k ref b x g h)
  refine ⟨hwg, hacc, ?_, ?_⟩
  · intro d hd cum
    exact (integrate_ok_iff g hwg hacc (.name d) cum).mpr (by rw [hdims]; exact hd)
  · intro ds hp
    exact fubini_perm g hwg hacc ds (by rw [hdims]; exact hp)

/-- **Histories with quarter turns** (`runFS`: in-place steps on the mesh / region object AND
`field.rotate90(…, inplace=True)`, in any order and number; a rejected step changes nothing): the
field stays well formed with `nvdim` components per cell; the cell volume is the accumulated
volume factor (`fhistVol`: the scale steps only - a quarter turn contributes 1) times the original
one; `integrate()` is the current cell volume times the per-component cell sums turned by the
accepted turns of the history (`fhistTurn`), `mean()` those sums divided by the number of cells. -/
theorem turns_history (f : Fld) (hf : WF f) (hl : CellLen f) (steps : List FStep) :
    WF (runFS f steps) ∧ CellLen (runFS f steps) ∧ (runFS f steps).nvdim = f.nvdim ∧
    dV (runFS f steps).mesh = fhistVol f steps * dV f.mesh ∧
    integrate (runFS f steps) .none false = .ok (.vals (tab f.nvdim fun c =>
      fhistVol f steps * dV f.mesh * (fhistTurn f steps (tab f.nvdim (csum f))).getD c 0)) ∧
    mean (runFS f steps) .none = .ok (.vals (tab f.nvdim fun c =>
      (fhistTurn f steps (tab f.nvdim (csum f))).getD c 0 / (natProd f.data.shape : Rat))) := by
  obtain ⟨h1, h2, h3, h4, h5, h6⟩ := runFS_spec steps f hf hl
  refine ⟨h1, h2, h3, h4, ?_, ?_⟩
  · rw [integrate_all_csum, h3, h4]
    congr 2
    apply tab_congr
    intro c hc
    rw [← h6, getD_tab _ _ _ _ hc]
  · rw [mean_all_csum, h3, h5]
    congr 2
    apply tab_congr
    intro c hc
    rw [← h6, getD_tab _ _ _ _ hc]

/-- … for a scalar field the turns do not show at all: `integrate()` after any such history is
the accumulated volume factor times `integrate()` before, `mean()` is literally unchanged; and
after a history of quarter turns only, cell volume and `integrate()` are literally unchanged. -/
theorem turns_history_scalar (f : Fld) (hf : WF f) (hl : CellLen f) (h1 : f.nvdim ≤ 1) (steps : List FStep) :
    integrate (runFS f steps) .none false
      = .ok (.vals (tab f.nvdim fun c => fhistVol f steps * (dV f.mesh * csum f c))) ∧
    mean (runFS f steps) .none = mean f .none ∧
    ((∀ s ∈ steps, ∃ a1 a2 k ref, s = FStep.rot a1 a2 k ref) →
      dV (runFS f steps).mesh = dV f.mesh ∧ integrate (runFS f steps) .none false = integrate f .none false) := by
  obtain ⟨_, _, _, hdv, hint, hmean⟩ := turns_history f hf hl steps
  have ht := fhistTurn_scalar steps f hf hl h1 (tab f.nvdim (csum f))
  have e1 : integrate (runFS f steps) .none false
      = .ok (.vals (tab f.nvdim fun c => fhistVol f steps * (dV f.mesh * csum f c))) := by
    rw [hint, ht]
    congr 2
    apply tab_congr
    intro c hc
    rw [getD_tab _ _ _ _ hc]; ring
  refine ⟨e1, ?_, ?_⟩
  · rw [hmean, ht, mean_all_csum]
    congr 2
    apply tab_congr
    intro c hc
    rw [getD_tab _ _ _ _ hc]
  · intro hall
    have hv := fhistVol_turns steps hall f
    refine ⟨by rw [hdv, hv]; ring, ?_⟩
    rw [e1, hv, integrate_all_csum]
    congr 2
    apply tab_congr
    intro c _
    ring

/-! ## The cumulative integral, composed with further `integrate` calls -/

/-- Trapezoid rule between ANY two cells of a line: the cumulative entries at positions `a` and
`a + b + 1` along the axis differ by the cell length times (half the first cell + the cells
strictly between + half the last cell). -/
theorem cumulative_between (f : Fld) (d : String) (g : Fld) (h : integrate f (.name d) true = .ok (.field g)) :
    ∃ ax, f.mesh.region.dim2index d = .ok ax ∧
      ∀ i c (b : Nat), inRange f.data.shape i = true → i.getD ax 0 + b + 1 < f.data.shape.getD ax 0 → c < f.nvdim →
        cget g.data (setAt i ax (i.getD ax 0 + b + 1)) c - cget g.data i c
          = f.mesh.cellAt ax * (cget f.data i c / 2
              + sumTo b (fun t => cget f.data (setAt i ax (i.getD ax 0 + 1 + t)) c)
              + cget f.data (setAt i ax (i.getD ax 0 + b + 1)) c / 2) := by
  obtain ⟨ax, g', hax, hr, _, _, _, _, hcum⟩ := cumulative_formula f d _ h
  injection hr with hr; subst hr
  refine ⟨ax, hax, ?_⟩
  intro i c b hi hlt hc
  have haxs : ax < f.data.shape.length := lt_length_of_getD_pos _ _ (by omega)
  have haxi : ax < i.length := by rw [inRange_length _ _ hi]; exact haxs
  have hi' : inRange f.data.shape (setAt i ax (i.getD ax 0 + b + 1)) = true := inRange_setAt _ _ _ _ hi hlt
  rw [hcum _ c hi' hc, hcum i c hi hc, getD_setAt_self i ax _ haxi]
  simp only [setAt_setAt]
  have hb := sumTo_between (i.getD ax 0) b (fun l => cget f.data (setAt i ax l) c)
  simp only [setAt_getD_self] at hb
  have : sumTo (i.getD ax 0 + b + 1) (fun l => cget f.data (setAt i ax l) c)
      = sumTo (i.getD ax 0) (fun l => cget f.data (setAt i ax l) c) + cget f.data i c
        + sumTo b (fun t => cget f.data (setAt i ax (i.getD ax 0 + 1 + t)) c) := by linarith
  rw [this]; ring

/-- The cumulative integral integrated once more along the SAME direction (any number of
dimensions; the bare array in 1-d): every cell counts with the distance from its centre to the
upper face of the mesh, `∫F = cell² · Σ_l (n - l - 1/2)·x_l` - the discrete form of Cauchy's
formula `∫_a^b ∫_a^x f = ∫_a^b (b - x) f(x) dx`. -/
theorem cumulative_then_integrate_same (f : Fld) (hf : WF f) (d : String) (gc : Fld) (r : Res)
    (hc : integrate f (.name d) true = .ok (.field gc)) (hr : integrate gc (.name d) false = .ok r) :
    ∃ ax, f.mesh.region.dim2index d = .ok ax ∧ r.shape = removeAt f.mesh.n ax ∧ r.nv = f.nvdim ∧
      ∀ i c, inRange (removeAt f.mesh.n ax) i = true → c < f.nvdim →
        r.cval i c = f.mesh.cellAt ax * f.mesh.cellAt ax *
          sumTo (f.mesh.nAt ax) (fun l => ((f.mesh.nAt ax : Rat) - (l : Rat) - 1/2) * cget f.data (insertAt i ax l) c) :=
  cum_then_same f hf d gc r hc hr

/-- The cumulative integral along `d` and the integral along ANOTHER direction `d'` commute: on a
well-formed field (two or more dimensions, subregions accepted by the setter) all four
integrals exist, and integrating the cumulative integral along `d'` gives the same field - same
reduced mesh (subregions included), same values - as the cumulative integral along `d` of the
integral along `d'`. -/
theorem cumulative_then_integrate_other (f : Fld) (hf : WF f) (hsubs : SubsAcc f.mesh) (h2 : 2 ≤ f.mesh.ndim)
    (d d' : String) (hd : d ∈ f.mesh.region.dims) (hd' : d' ∈ f.mesh.region.dims) (hne : d ≠ d') :
    ∃ gc g1 h g2, integrate f (.name d) true = .ok (.field gc) ∧ integrate gc (.name d') false = .ok (.field g1) ∧
      integrate f (.name d') false = .ok (.field h) ∧ integrate h (.name d) true = .ok (.field g2) ∧
      g1.mesh = g2.mesh ∧ g1.data.shape = g2.data.shape ∧
      ∀ i c, inRange g1.data.shape i = true → c < f.nvdim → cget g1.data i c = cget g2.data i c := by
  obtain ⟨gc, hgc⟩ := integrate_cum_ok f hf d hd
  obtain ⟨_, _, hm, _, _, _, _⟩ := cum_spec f d gc hgc
  have hwg := cum_wf f hf d gc hgc
  obtain ⟨g1, hg1, _⟩ := (integrate_dir_ok gc hwg (by rw [hm]; exact hsubs) d' (by rw [hm]; exact hd')).1 (by rw [hm]; exact h2)
  obtain ⟨h, hh, hwh, _, _, hmem⟩ := step_ok f hf hsubs h2 d' hd'
  obtain ⟨g2, hg2⟩ := integrate_cum_ok h hwh d (hmem d hd hne)
  obtain ⟨e1, e2, _, e4⟩ := cum_then_other f hf d d' gc g1 h g2 hgc hg1 hh hg2
  exact ⟨gc, g1, h, g2, hgc, hg1, hh, hg2, e1, e2, e4⟩

/-- Two cumulative integrals along different directions commute: on every well-formed field all
four exist (any number of dimensions, subregions or not) and `integrate(d, cumulative=True)`
followed by `integrate(d', cumulative=True)` is the same field as the other order. -/
theorem cumulative_cumulative_commute (f : Fld) (hf : WF f) (d d' : String) (hd : d ∈ f.mesh.region.dims)
    (hd' : d' ∈ f.mesh.region.dims) (hne : d ≠ d') :
    ∃ g1 g12 g2 g21, integrate f (.name d) true = .ok (.field g1) ∧ integrate g1 (.name d') true = .ok (.field g12) ∧
      integrate f (.name d') true = .ok (.field g2) ∧ integrate g2 (.name d) true = .ok (.field g21) ∧
      g12.mesh = g21.mesh ∧ g12.data.shape = g21.data.shape ∧
      ∀ i c, inRange f.data.shape i = true → c < f.nvdim → cget g12.data i c = cget g21.data i c := by
  obtain ⟨g1, hg1⟩ := integrate_cum_ok f hf d hd
  obtain ⟨g2, hg2⟩ := integrate_cum_ok f hf d' hd'
  obtain ⟨_, _, hm1, _, _, _, _⟩ := cum_spec f d g1 hg1
  obtain ⟨_, _, hm2, _, _, _, _⟩ := cum_spec f d' g2 hg2
  obtain ⟨g12, hg12⟩ := integrate_cum_ok g1 (cum_wf f hf d g1 hg1) d' (by rw [hm1]; exact hd')
  obtain ⟨g21, hg21⟩ := integrate_cum_ok g2 (cum_wf f hf d' g2 hg2) d (by rw [hm2]; exact hd)
  obtain ⟨e1, e2, _, e4⟩ := cum_cum_comm f d d' hne g1 g12 g2 g21 hg1 hg12 hg2 hg21
  exact ⟨g1, g12, g2, g21, hg1, hg12, hg2, hg21, e1, e2, e4⟩

/-- The same two commutation laws for the chained call `integrateChain` (the form the
correspondence check exercises: `f.integrate(d, cumulative=True).integrate(d')` …): for two
different directions of a well-formed field (two or more dimensions, subregions accepted by the
setter) the chains in both orders succeed and agree in mesh and values - a cumulative step with a
plain step, and two cumulative steps. -/
theorem integrateChain_commute (f : Fld) (hf : WF f) (hsubs : SubsAcc f.mesh) (h2 : 2 ≤ f.mesh.ndim)
    (d d' : String) (hd : d ∈ f.mesh.region.dims) (hd' : d' ∈ f.mesh.region.dims) (hne : d ≠ d') :
    (∃ g1 g2, integrateChain f [(d, true), (d', false)] = .ok (.field g1) ∧
      integrateChain f [(d', false), (d, true)] = .ok (.field g2) ∧ g1.mesh = g2.mesh ∧ g1.data.shape = g2.data.shape ∧
      ∀ i c, inRange g1.data.shape i = true → c < f.nvdim → cget g1.data i c = cget g2.data i c) ∧
    (∃ g12 g21, integrateChain f [(d, true), (d', true)] = .ok (.field g12) ∧
      integrateChain f [(d', true), (d, true)] = .ok (.field g21) ∧ g12.mesh = g21.mesh ∧ g12.data.shape = g21.data.shape ∧
      ∀ i c, inRange f.data.shape i = true → c < f.nvdim → cget g12.data i c = cget g21.data i c) := by
  obtain ⟨gc, g1, h, g2, a1, a2, a3, a4, e1, e2, e3⟩ := cumulative_then_integrate_other f hf hsubs h2 d d' hd hd' hne
  obtain ⟨k1, k12, k2, k21, b1, b2, b3, b4, e4, e5, e6⟩ := cumulative_cumulative_commute f hf d d' hd hd' hne
  refine ⟨⟨g1, g2, ?_, ?_, e1, e2, e3⟩, ⟨k12, k21, ?_, ?_, e4, e5, e6⟩⟩
  · simp only [integrateChain, a1, a2]
  · simp only [integrateChain, a3, a4]
  · simp only [integrateChain, b1, b2]
  · simp only [integrateChain, b3, b4]

/-! ## Several directions in any order: the same OBJECT

`selF m ax` is the closed form of `Mesh.sel(d)` (`DFV/Lemmas/C06Obj.lean`): axis `ax` removed from
corners, names, units and counts, same tolerance, no boundary conditions, and the subregions whose
closed extent along the axis contains the centre of cell ⌊n/2⌋ (`selCoord`), each with the axis
removed and stamped with the reduced region's names, units and tolerance. -/

/-- `Mesh.sel(d)` in closed form (refinement of the code-shaped `sel`: centre lookup through
`point2index` / `index2point`, `Region(...)` and `Mesh(region, cell=...)` constructors, subregion
projection and setter) on every well-formed mesh with two or more dimensions whose subregions
passed the setter. -/
theorem sel_closed_form (m : Mesh) (hm : m.Inv) (hacc : SubsAcc m) (h2 : 2 ≤ m.ndim) (d : String) (ax : Nat)
    (hax : m.region.dim2index d = .ok ax) : sel m d = .ok (selF m ax) :=
  sel_eq_selF m hm hacc h2 d ax hax

/-- Removing two directions commutes: `mesh.sel(d1).sel(d2)` and `mesh.sel(d2).sel(d1)` both
succeed (three or more dimensions) and return the same mesh - region with names, units and
tolerance, cell counts, and subregions (the same ones survive, in the same order, with the same
corners); the result is well formed, its subregions pass its setter, and every other direction is
still a direction. -/
theorem sel_commute (m : Mesh) (hm : m.Inv) (hacc : SubsAcc m) (h3 : 3 ≤ m.ndim) (d1 d2 : String)
    (hd1 : d1 ∈ m.region.dims) (hd2 : d2 ∈ m.region.dims) (hne : d1 ≠ d2) :
    ∃ m1 m2 m12, sel m d1 = .ok m1 ∧ sel m1 d2 = .ok m12 ∧ sel m d2 = .ok m2 ∧ sel m2 d1 = .ok m12 ∧
      m12.Inv ∧ SubsAcc m12 ∧ m12.ndim + 2 = m.ndim ∧
      ∀ d' ∈ m.region.dims, d' ≠ d1 → d' ≠ d2 → d' ∈ m12.region.dims :=
  sel_sel_comm m hm hacc h3 d1 d2 hd1 hd2 hne

/-- The reduced mesh of ANY chain of removals depends only on the SET of directions: for every
list of distinct directions (fewer than all) and every permutation of it the two chains of
`Mesh.sel` return the same result (induction over the permutation; adjacent transpositions by
`sel_commute`). -/
theorem selMany_order_independent (m : Mesh) (hm : m.Inv) (hacc : SubsAcc m) (ds ds' : List String) (hp : ds.Perm ds')
    (hnd : ds.Nodup) (hmem : ∀ d ∈ ds, d ∈ m.region.dims) (hlen : ds.length < m.ndim) :
    selMany m ds = selMany m ds' :=
  selMany_perm ds ds' hp m hm hacc hnd hmem hlen

/-- **`mean` over a list / tuple of directions in any order is literally the same result** - for
every list of distinct directions of the mesh (all of them, some, or none) and every permutation
of it: the same reduced mesh (region with names, units, tolerance; counts; subregions), the same
labels, mapping, unit, validity and values; with `meanSeq_eq_mean_list` also the
direction-by-direction mean in any order. -/
theorem mean_list_any_order (f : Fld) (hf : WF f) (hacc : SubsAcc f.mesh) (ds ds' : List String) (hp : ds.Perm ds')
    (hnd : ds.Nodup) (hmem : ∀ d ∈ ds, d ∈ f.mesh.region.dims) :
    mean f (.names ds) = mean f (.names ds') :=
  mean_names_perm f hf hacc ds ds' hp hnd hmem

/-- **Fubini at object level.**  Integrating direction by direction over ANY list of distinct
directions of the mesh, in any order, is literally the same result as for any permutation of the
list: the bare array `integrate()` when all directions are listed (`fubini_perm`), otherwise the
SAME FIELD - reduced mesh with names, units, tolerance and subregions, labels, mapping, unit,
validity and stored values - and both chains succeed. -/
theorem integrateSeq_any_order (f : Fld) (hf : WF f) (hacc : SubsAcc f.mesh) (ds ds' : List String) (hp : ds.Perm ds')
    (hnd : ds.Nodup) (hmem : ∀ d ∈ ds, d ∈ f.mesh.region.dims) :
    integrateSeq f ds = integrateSeq f ds' ∧ ∃ r, integrateSeq f ds = .ok r := by
  have hdl : f.mesh.region.dims.length = f.mesh.ndim := hf.1.1.2.2.1
  by_cases hall : ds.Perm f.mesh.region.dims
  · rw [fubini_perm f hf hacc ds hall, fubini_perm f hf hacc ds' (hp.symm.trans hall)]
    exact ⟨rfl, _, integrate_all f⟩
  · have hlen : ds.length < f.mesh.ndim := by rw [← hdl]; exact length_lt_of_not_perm ds _ hnd hmem hall
    obtain ⟨g, hg⟩ := integrateSeq_ok f hf hacc ds hnd hmem hlen
    obtain ⟨g', hg'⟩ := integrateSeq_ok f hf hacc ds' (hp.nodup_iff.mp hnd)
      (fun d hd => hmem d (hp.mem_iff.mpr hd)) (by rw [← hp.length_eq]; exact hlen)
    have := integrateSeq_perm_obj f hf hacc ds ds' hp hnd hmem hlen g g' hg hg'
    rw [hg, hg', this]
    exact ⟨rfl, _, rfl⟩

/-! ## Linearity and per-component action, from hypotheses on the inputs only -/

/-- `integrate` of a linear combination, total form: for two fields on the same mesh (well formed,
subregions accepted by the setter), every call that the acceptance theorem allows - no direction
without `cumulative`, or any direction of the mesh, cumulative or not - succeeds on `f`, on `g`
and on `α·f + β·g`, on the same mesh, and the third result is `α·` the first `+ β·` the second,
entry by entry. -/
theorem integrate_linear_total (α β : Rat) (f g : Fld) (hf : WF f) (hsubs : SubsAcc f.mesh) (hm : g.mesh = f.mesh)
    (hn : g.nvdim = f.nvdim) (hs : g.data.shape = f.data.shape) (dir : Dir) (cum : Bool)
    (hok : match dir with | .none => cum = false | .name d => d ∈ f.mesh.region.dims | _ => False) :
    ∃ rf rg r, integrate f dir cum = .ok rf ∧ integrate g dir cum = .ok rg ∧ integrate (lin α f β g) dir cum = .ok r ∧
      r.mesh? = rf.mesh? ∧ r.shape = rf.shape ∧
      ∀ i c, inRange r.shape i = true → c < f.nvdim → r.cval i c = α * rf.cval i c + β * rg.cval i c := by
  have hwg : WF g := ⟨by rw [hm]; exact hf.1, by rw [hs, hm]; exact hf.2⟩
  obtain ⟨rf, hrf⟩ := (integrate_ok_iff f hf hsubs dir cum).mpr hok
  obtain ⟨rg, hrg⟩ := (integrate_ok_iff g hwg (by rw [hm]; exact hsubs) dir cum).mpr (by rw [hm]; exact hok)
  obtain ⟨r, hr, h1, h2, h3⟩ := integrate_linear α β f g hf hm hn hs dir cum rf rg hrf hrg
  exact ⟨rf, rg, r, hrf, hrg, hr, h1, h2, h3⟩

/-- `mean` of a linear combination, total form: every accepted call (no direction; one direction
of a mesh with two or more dimensions; a list of distinct directions in any order) succeeds on
`f`, `g` and `α·f + β·g`, on the same mesh, and the means combine linearly entry by entry. -/
theorem mean_linear_total (α β : Rat) (f g : Fld) (hf : WF f) (hsubs : SubsAcc f.mesh) (hm : g.mesh = f.mesh)
    (hn : g.nvdim = f.nvdim) (hs : g.data.shape = f.data.shape) (dir : Dir)
    (hok : match dir with
           | .none => True
           | .name d => d ∈ f.mesh.region.dims ∧ 2 ≤ f.mesh.ndim
           | .names ds => ds.Nodup ∧ ∀ d ∈ ds, d ∈ f.mesh.region.dims
           | .other => False) :
    ∃ rf rg r, mean f dir = .ok rf ∧ mean g dir = .ok rg ∧ mean (lin α f β g) dir = .ok r ∧
      r.mesh? = rf.mesh? ∧ r.shape = rf.shape ∧
      ∀ i c, inRange r.shape i = true → c < f.nvdim → r.cval i c = α * rf.cval i c + β * rg.cval i c := by
  have hwg : WF g := ⟨by rw [hm]; exact hf.1, by rw [hs, hm]; exact hf.2⟩
  obtain ⟨rf, hrf⟩ := (mean_ok_iff f hf hsubs dir).mpr hok
  obtain ⟨rg, hrg⟩ := (mean_ok_iff g hwg (by rw [hm]; exact hsubs) dir).mpr (by rw [hm]; exact hok)
  obtain ⟨r, hr, h1, h2, h3⟩ := mean_linear α β f g hm hn hs dir rf rg hrf hrg
  exact ⟨rf, rg, r, hrf, hrg, hr, h1, h2, h3⟩

/-- `integrate` and `mean` act per component, total form: every accepted call succeeds on the field
and on the scalar field of its component `c`, on the same mesh, and the latter's single component
is component `c` of the former. -/
theorem componentwise_total (f : Fld) (hf : WF f) (hsubs : SubsAcc f.mesh) (c : Nat) (hc : c < f.nvdim) :
    (∀ dir cum, (match dir with | Dir.none => cum = false | .name d => d ∈ f.mesh.region.dims | _ => False) →
      ∃ rf r, integrate f dir cum = .ok rf ∧ integrate (compFld f c) dir cum = .ok r ∧ r.mesh? = rf.mesh? ∧
        r.shape = rf.shape ∧ r.nv = 1 ∧ ∀ i, inRange r.shape i = true → r.cval i 0 = rf.cval i c) ∧
    (∀ dir, (match dir with
             | Dir.none => True
             | .name d => d ∈ f.mesh.region.dims ∧ 2 ≤ f.mesh.ndim
             | .names ds => ds.Nodup ∧ ∀ d ∈ ds, d ∈ f.mesh.region.dims
             | .other => False) →
      ∃ rf r, mean f dir = .ok rf ∧ mean (compFld f c) dir = .ok r ∧ r.mesh? = rf.mesh? ∧
        r.shape = rf.shape ∧ r.nv = 1 ∧ ∀ i, inRange r.shape i = true → r.cval i 0 = rf.cval i c) := by
  constructor
  · intro dir cum hok
    obtain ⟨rf, hrf⟩ := (integrate_ok_iff f hf hsubs dir cum).mpr hok
    obtain ⟨r, hr, h1, h2, h3, h4⟩ := integrate_componentwise f hf c hc dir cum rf hrf
    exact ⟨rf, r, hrf, hr, h1, h2, h3, h4⟩
  · intro dir hok
    obtain ⟨rf, hrf⟩ := (mean_ok_iff f hf hsubs dir).mpr hok
    obtain ⟨r, hr, h1, h2, h3, h4⟩ := mean_componentwise f c hc dir rf hrf
    exact ⟨rf, r, hrf, hr, h1, h2, h3, h4⟩

/-! ## Refusals, as equivalences -/

/-- `integrate` is refused EXACTLY for the malformed calls (well-formed field, subregions accepted
by the setter): no direction together with `cumulative=True`, a direction name the mesh does
not have, or a direction that is not a single string (a list / tuple of names, a number, …).
Nothing else is ever refused - in particular no direction of the mesh, cumulative or not. -/
theorem integrate_rejected_iff (f : Fld) (hf : WF f) (hsubs : SubsAcc f.mesh) (dir : Dir) (cum : Bool) :
    (∃ e, integrate f dir cum = .error e) ↔
      (match dir with
       | .none => cum = true
       | .name d => d ∉ f.mesh.region.dims
       | _ => True) := by
  have hiff := integrate_ok_iff f hf hsubs dir cum
  have hsplit : (∃ e, integrate f dir cum = .error e) ↔ ¬ ∃ r, integrate f dir cum = .ok r := by
    cases integrate f dir cum with
    | error e => simp
    | ok r => simp
  rw [hsplit, hiff]
  cases dir with
  | none => cases cum <;> simp
  | name d => simp
  | names ds => simp
  | other => simp

/-- … and the kind of refusal: a `TypeError` exactly for a direction that is not a single string,
a `ValueError` exactly for `cumulative=True` without direction and for an unknown name. -/
theorem integrate_refusal_kind (f : Fld) (hf : WF f) (hsubs : SubsAcc f.mesh) (dir : Dir) (cum : Bool) (e : Err)
    (h : integrate f dir cum = .error e) :
    (match dir with
     | .none => e = .value
     | .name _ => e = .value
     | _ => e = .type) := by
  cases dir with
  | none =>
    cases cum with
    | true => unfold integrate at h; simp at h; exact h.symm
    | false => rw [integrate_all] at h; cases h
  | name d =>
    simp only
    cases hd : f.mesh.region.dim2index d with
    | error e' =>
      obtain ⟨h1, _⟩ := unknown_direction_rejected f d cum e' hd
      rw [h1] at h; injection h with h
      unfold Region.dim2index at hd
      split at hd
      · cases hd
      · injection hd with hd; rw [← h, ← hd]
    | ok ax =>
      have := (integrate_ok_iff f hf hsubs (.name d) cum).mpr (mem_of_dim2index _ _ _ hd)
      obtain ⟨r, hr⟩ := this
      rw [hr] at h; cases h
  | names ds => unfold integrate at h; simp at h; exact h.symm
  | other => unfold integrate at h; simp at h; exact h.symm

/-- `mean` is refused EXACTLY for the malformed calls (well-formed field, subregions accepted by
the setter): a single direction name the mesh does not have, a single direction name on a 1-d
mesh (there is no 0-dimensional mesh to return a field on), a list with a repeated name or with
a name the mesh does not have, or a direction that is neither a name nor a list of names. -/
theorem mean_rejected_iff (f : Fld) (hf : WF f) (hsubs : SubsAcc f.mesh) (dir : Dir) :
    (∃ e, mean f dir = .error e) ↔
      (match dir with
       | .none => False
       | .name d => d ∉ f.mesh.region.dims ∨ f.mesh.ndim < 2
       | .names ds => ¬ ds.Nodup ∨ ∃ d ∈ ds, d ∉ f.mesh.region.dims
       | .other => True) := by
  have hiff := mean_ok_iff f hf hsubs dir
  have hsplit : (∃ e, mean f dir = .error e) ↔ ¬ ∃ r, mean f dir = .ok r := by
    cases mean f dir with
    | error e => simp
    | ok r => simp
  rw [hsplit, hiff]
  cases dir with
  | none => simp
  | name d =>
    simp only [not_and_or, not_le]
  | names ds =>
    simp only [not_and_or, not_forall, exists_prop]
  | other => simp

/-! ## Non-vacuity: the hypotheses of the theorems above are met by concrete fields
(`exFld`: 2×3 cells, two components; `exFld1`: 1-d, cells of length 1/2; `exFld3`: 2×2×3 cells
of sizes 1, 1/2, 2 — `DFV/Lemmas/C06Ok.lean`; `exFldS`: `exFld` with two subregions —
`DFV/Lemmas/C06Centre.lean`), and by every well-formed field whose subregions fit the mesh
(theorems `…_ok`, `integrate_ok_iff`, `mean_ok_iff`). -/

example : WF exFld ∧ WF exFld1 ∧ WF exFld3 := ⟨exFld_wf, exFld1_wf, exFld3_wf⟩

/-- hypotheses of `integrate_dir`, `cumulative_formula`, `cumulative_last`, `mean_dir_eq` -/
example : (∃ g, integrate exFld3 (.name "y") false = .ok (.field g)) ∧
    (∃ g, integrate exFld3 (.name "y") true = .ok (.field g)) ∧
    (∃ g, mean exFld3 (.name "y") = .ok (.field g)) :=
  ⟨by obtain ⟨g, h, _⟩ := (integrate_dir_ok exFld3 exFld3_wf (subsAcc_nil _ rfl) "y" (by decide)).1 (by decide); exact ⟨g, h⟩,
   integrate_cum_ok exFld3 exFld3_wf "y" (by decide),
   mean_dir_ok exFld3 exFld3_wf (subsAcc_nil _ rfl) (by decide) "y" (by decide)⟩

/-- hypotheses of `integrate_dir_1d`, `cumulative_last_1d` -/
example : (∃ v, integrate exFld1 (.name "x") false = .ok (.vals v)) ∧
    (∃ g, integrate exFld1 (.name "x") true = .ok (.field g)) :=
  ⟨(integrate_dir_ok exFld1 exFld1_wf (subsAcc_nil _ rfl) "x" (by decide)).2 rfl, integrate_cum_ok exFld1 exFld1_wf "x" (by decide)⟩

/-- `fubini` / `fubini_total`: all six orders of three directions -/
example : ∀ ds ∈ [["x", "y", "z"], ["x", "z", "y"], ["y", "x", "z"], ["y", "z", "x"], ["z", "x", "y"], ["z", "y", "x"]],
    integrateSeq exFld3 ds = integrate exFld3 .none false := by
  intro ds hds
  simp only [List.mem_cons, List.mem_nil_iff, or_false] at hds
  rcases hds with rfl | rfl | rfl | rfl | rfl | rfl <;>
    exact fubini_total exFld3 exFld3_wf (subsAcc_nil _ rfl) _ (by decide) (by decide) rfl

/-- hypotheses of `mean_dirs_eq`: a proper subset of the directions, in an order that is not
the storage order -/
example : (∃ gm, mean exFld3 (.names ["z", "x"]) = .ok (.field gm)) ∧
    (∃ gi, integrateSeq exFld3 ["z", "x"] = .ok (.field gi)) :=
  ⟨mean_dirs_ok exFld3 exFld3_wf (subsAcc_nil _ rfl) _ (by decide) (by decide) (by decide),
   integrateSeq_ok exFld3 exFld3_wf (subsAcc_nil _ rfl) _ (by decide) (by decide) (by decide)⟩

/-- `mean_all_named`: a permutation of the directions -/
example : mean exFld (.names ["y", "x"]) = mean exFld .none :=
  mean_all_named exFld exFld_wf _ (List.Perm.swap "x" "y" [])

/-- hypotheses of `integrate_linear` (two fields on one mesh), `integrate_componentwise`,
`integrate_translation_invariant` (the moved field is well formed and its integrals exist) -/
example : ∃ rf rg r', integrate exFld (.name "x") false = .ok rf ∧
    integrate (lin 2 exFld (-3) exFld) (.name "x") false = .ok rg ∧
    integrate (translate [5, -7/2] exFld) (.name "x") false = .ok r' := by
  obtain ⟨g1, h1, _⟩ := (integrate_dir_ok exFld exFld_wf (subsAcc_nil _ rfl) "x" (by decide)).1 (by decide)
  obtain ⟨g2, h2, _⟩ := (integrate_dir_ok (lin 2 exFld (-3) exFld) ⟨exFld_wf.1, exFld_wf.2⟩ (subsAcc_nil _ rfl) "x" (by decide)).1 (by decide)
  obtain ⟨g3, h3, _⟩ := (integrate_dir_ok (translate [5, -7/2] exFld) (translate_wf _ _ exFld_wf) (subsAcc_nil _ rfl) "x" (by decide)).1 (by decide)
  exact ⟨_, _, _, h1, h2, h3⟩

/-- `SubsFit` is met by a concrete mesh with two subregions (`exFldS`: `r0` = [1,2]×[1,3],
`r1` = [0,1]×[3,4] on the 2×3 mesh), so `sel_subregions`, the `…_ok` theorems, `fubini_perm`,
`integrate_ok_iff`, `mean_ok_iff` apply to meshes that really carry subregions -/
example : WF exFldS ∧ SubsFit exFldS.mesh ∧ SubsAcc exFldS.mesh ∧ exFldS.mesh.subs.length = 2 ∧
    (∃ g, integrate exFldS (.name "x") false = .ok (.field g) ∧ SubsAcc g.mesh) ∧
    integrateSeq exFldS ["y", "x"] = integrate exFldS .none false :=
  ⟨exFldS_wf, exFldS_fits, subsAcc_of_fit _ exFldS_wf.1 exFldS_fits, rfl,
   (integrate_dir_ok exFldS exFldS_wf (subsAcc_of_fit _ exFldS_wf.1 exFldS_fits) "x" (by decide)).1 (by decide),
   fubini_perm exFldS exFldS_wf (subsAcc_of_fit _ exFldS_wf.1 exFldS_fits) _ (List.Perm.swap "x" "y" [])⟩

/-- hypotheses of `mean_linear`, `mean_componentwise`, `mean_translation_invariant`: the means
exist for a direction, for a list, and on the moved field -/
example : (∃ r, mean exFld3 (.name "y") = .ok r) ∧ (∃ r, mean exFld3 (.names ["z", "x"]) = .ok r) ∧
    (∃ r, mean (translate [1, 2, 3] exFld3) (.names ["z", "x"]) = .ok r) :=
  ⟨(mean_ok_iff exFld3 exFld3_wf (subsAcc_nil _ rfl) (.name "y")).mpr ⟨by decide, by decide⟩,
   (mean_ok_iff exFld3 exFld3_wf (subsAcc_nil _ rfl) (.names ["z", "x"])).mpr ⟨by decide, by decide⟩,
   (mean_ok_iff _ (translate_wf _ _ exFld3_wf) (subsAcc_nil _ rfl) (.names ["z", "x"])).mpr ⟨by decide, by decide⟩⟩

/-- hypotheses of `integrateSeq_perm` / `integrateSeq_vals`: two orders of a proper subset -/
example : ∃ g g', integrateSeq exFld3 ["z", "x"] = .ok (.field g) ∧ integrateSeq exFld3 ["x", "z"] = .ok (.field g') := by
  obtain ⟨g, g', h, h', _⟩ := integrateSeq_perm_total exFld3 exFld3_wf (subsAcc_nil _ rfl) ["z", "x"] ["x", "z"]
    (by decide) (by decide) (by decide) (List.Perm.swap "x" "z" [])
  exact ⟨g, g', h, h'⟩

/-- hypotheses of `cumulative_step` / `cumulative_first`: an index with a successor along the
axis, and one at the start of the axis -/
example : inRange exFld3.data.shape [1, 0, 0] = true ∧ ([1, 0, 0] : List Nat).getD 2 0 + 1 < exFld3.data.shape.getD 2 0 ∧
    ([1, 0, 0] : List Nat).getD 2 0 = 0 := ⟨by decide, by decide, by decide⟩

/-- hypotheses of `hstep_geometry` and the history theorems: an accepted in-place scaling with a
negative factor and an accepted translation -/
example : (∃ m', hstepM exFld.mesh (.scaleRegion (.vec [-2, 1/2]) none) = .ok m') ∧
    (∃ m', hstepM exFld.mesh (.translateRegion [3, -1/2]) = .ok m') ∧
    (∀ a, stepFac (.translateMesh [3, -1/2]) a = 1) :=
  ⟨(hstepM_region_ok exFld.mesh exFld_wf.1).2 (.vec [-2, 1/2]) none rfl rfl (by
      intro a ha
      have : a = 0 ∨ a = 1 := by
        have : a < 2 := ha
        omega
      rcases this with rfl | rfl <;> norm_num [T.Factor.at]),
   (hstepM_region_ok exFld.mesh exFld_wf.1).1 [3, -1/2] rfl, fun _ => rfl⟩

/-- hypothesis of `integrate_monotone`: `f ≤ abs f` cell by cell -/
example : ∀ t, cget exFld.data t 0 ≤ cget (absF exFld).data t 0 := by
  intro t
  rw [cget_absF exFld t 0 (by decide)]
  exact le_abs_self _

/-- hypotheses of `meanSeq_eq_mean_list`: a direction-by-direction mean and the list mean exist
for an order that is not the storage order -/
example : ∃ gs gm, meanSeq exFld3 ["z", "x"] = .ok (.field gs) ∧ mean exFld3 (.names ["z", "x"]) = .ok (.field gm) := by
  obtain ⟨gs, gm, h1, h2, _⟩ := meanSeq_total exFld3 exFld3_wf (subsAcc_nil _ rfl) ["z", "x"]
    (by decide) (by decide) (by decide)
  exact ⟨gs, gm, h1, h2⟩

/-- refusals are reached: an unknown name, a duplicate -/
example : exFld.mesh.region.dim2index "q" = .error .value ∧ hasDup ["x", "y", "x"] = true := ⟨by decide, by decide⟩

/-! ### second round -/

/-- `SubsAcc` is met by a mesh whose subregion does NOT fit exactly (`exFldT`: the lower x face of
`t0` sits 1e-13 inside a cell face): the setter accepts it (`setter_accepts_iff`), and the
success theorems apply - `integrate(d)`, `mean(d)`, Fubini - although `SubsFit` fails -/
example : WF exFldT ∧ SubsAcc exFldT.mesh ∧ ¬ SubsFit exFldT.mesh ∧
    (∃ t, setSubs exFldT.mesh [("t0", canon exT0)] = .ok t) ∧
    (∃ g, integrate exFldT (.name "y") false = .ok (.field g) ∧ SubsAcc g.mesh) ∧
    (∃ g, mean exFldT (.name "x") = .ok (.field g)) ∧
    integrateSeq exFldT ["y", "x"] = integrate exFldT .none false :=
  ⟨exFldT_wf, exFldT_acc, exFldT_not_fit,
   ((setter_accepts_iff exFldT.mesh _).1).mpr (fun p hp => by
      have : p = ("t0", canon exT0) := by simpa using hp
      subst this; exact exFldT_acc ("t0", exT0) (by simp [exFldT])),
   (integrate_dir_ok exFldT exFldT_wf exFldT_acc "y" (by decide)).1 (by decide),
   mean_dir_ok exFldT exFldT_wf exFldT_acc (by decide) "x" (by decide),
   fubini_perm exFldT exFldT_wf exFldT_acc _ (List.Perm.swap "x" "y" [])⟩

/-- hypotheses of `setter_accepts_per_axis`, `accepted_subregion_inherited`, `sel_subregions_acc` -/
example : SubOk exFldT.mesh (canon exT0) ∧ (∃ mc, sel { exFldT.mesh with subs := [] } "y" = .ok mc) := by
  refine ⟨exFldT_acc ("t0", exT0) (by simp [exFldT]), ?_⟩
  obtain ⟨_, mc, _, _, h, _⟩ := sel_subregions_acc exFldT.mesh exFldT_wf.1 exFldT_acc (by decide) "y" (by decide)
  exact ⟨mc, h⟩

/-- hypotheses of `rotate90_cells`, `rotate90_integrate_all`, `rotate90_mean_all`: a vector field
(two mapped components, 2×3 cells) is turned by an odd, a negative and a large number of quarter
turns, about its centre and about a far reference point, in place and copying -/
example : WF exFldV ∧ CellLen exFldV ∧ T.FInv exFldV ∧
    (∃ x g, T.rotate90F exFldV "x" "y" 1 none true = .ok (x, g)) ∧
    (∃ x g, T.rotate90F exFldV "x" "y" (-3) (some [7, -5/2]) false = .ok (x, g)) ∧
    (∃ x g, T.rotate90F exFldV "x" "y" 1002 none true = .ok (x, g)) :=
  ⟨exFldV_wf, exFldV_cellLen, exFldV_finv, exFldV_turn_ok 1 none rfl true,
   exFldV_turn_ok (-3) (some [7, -5/2]) rfl false, exFldV_turn_ok 1002 none rfl true⟩

/-- `turns_history` on a history that mixes a negative-factor scaling, a quarter turn and a
translation; the turn really happens (the first step of `[rot]` is accepted) -/
example : ∃ x g, T.rotate90F exFldV "x" "y" 3 none true = .ok (x, g) ∧ fstep exFldV (.rot "x" "y" 3 none) = x := by
  obtain ⟨x, g, h⟩ := exFldV_turn_ok 3 none rfl true
  exact ⟨x, g, h, by simp only [fstep, h]⟩

/-- hypotheses of `cumulative_between`: two cells of a line with one cell strictly between -/
example : inRange exFld3.data.shape [1, 0, 0] = true ∧
    ([1, 0, 0] : List Nat).getD 2 0 + 1 + 1 < exFld3.data.shape.getD 2 0 := ⟨by decide, by decide⟩

/-- `cumulative_then_integrate_same` / `…_other` / `cumulative_cumulative_commute`: the integrals
exist on the 3-d example (cells 1, 1/2, 2), for two different directions in non-storage order -/
example : (∃ gc r, integrate exFld3 (.name "z") true = .ok (.field gc) ∧ integrate gc (.name "z") false = .ok r) ∧
    (∃ gc g1 h g2, integrate exFld3 (.name "z") true = .ok (.field gc) ∧
      integrate gc (.name "x") false = .ok (.field g1) ∧ integrate exFld3 (.name "x") false = .ok (.field h) ∧
      integrate h (.name "z") true = .ok (.field g2)) := by
  constructor
  · obtain ⟨gc, hgc⟩ := integrate_cum_ok exFld3 exFld3_wf "z" (by decide)
    obtain ⟨_, _, hm, _, _, _, _⟩ := cum_spec exFld3 "z" gc hgc
    obtain ⟨g, hg, _⟩ := (integrate_dir_ok gc (cum_wf exFld3 exFld3_wf "z" gc hgc) (by rw [hm]; exact subsAcc_nil _ rfl) "z"
      (by rw [hm]; decide)).1 (by rw [hm]; decide)
    exact ⟨gc, _, hgc, hg⟩
  · obtain ⟨gc, g1, h, g2, a, b, c, d, _⟩ := cumulative_then_integrate_other exFld3 exFld3_wf (subsAcc_nil _ rfl)
      (by decide) "z" "x" (by decide) (by decide) (by decide)
    exact ⟨gc, g1, h, g2, a, b, c, d⟩

/-- both sides of the refusal equivalences are inhabited: malformed calls exist and are refused -/
example : (∃ e, integrate exFld (.name "q") false = .error e) ∧ (∃ e, integrate exFld .none true = .error e) ∧
    (∃ e, mean exFld1 (.name "x") = .error e) ∧ (∃ e, mean exFld (.names ["x", "q"]) = .error e) :=
  ⟨(integrate_rejected_iff exFld exFld_wf (subsAcc_nil _ rfl) (.name "q") false).mpr (by decide),
   (integrate_rejected_iff exFld exFld_wf (subsAcc_nil _ rfl) .none true).mpr rfl,
   (mean_rejected_iff exFld1 exFld1_wf (subsAcc_nil _ rfl) (.name "x")).mpr (Or.inr (by decide)),
   (mean_rejected_iff exFld exFld_wf (subsAcc_nil _ rfl) (.names ["x", "q"])).mpr (Or.inr ⟨"q", by decide, by decide⟩)⟩

/-- `sel_commute`, `selMany_order_independent`, `mean_list_any_order`, `integrateSeq_any_order` on
meshes that really carry subregions (`exFldS`: two exactly fitting ones; `exFldT`: one accepted only
within the tolerances) and on the 3-d example, for orders that are not the storage order -/
example : mean exFldS (.names ["y", "x"]) = mean exFldS (.names ["x", "y"]) ∧
    mean exFld3 (.names ["z", "x"]) = mean exFld3 (.names ["x", "z"]) ∧
    integrateSeq exFld3 ["z", "x"] = integrateSeq exFld3 ["x", "z"] ∧
    integrateSeq exFldT ["y", "x"] = integrateSeq exFldT ["x", "y"] ∧
    (∃ m1 m2 m12, sel exFld3.mesh "z" = .ok m1 ∧ sel m1 "x" = .ok m12 ∧ sel exFld3.mesh "x" = .ok m2 ∧ sel m2 "z" = .ok m12) := by
  refine ⟨mean_list_any_order exFldS exFldS_wf (subsAcc_of_fit _ exFldS_wf.1 exFldS_fits) _ _ (List.Perm.swap "x" "y" []) (by decide) (by decide),
    mean_list_any_order exFld3 exFld3_wf (subsAcc_nil _ rfl) _ _ (List.Perm.swap "x" "z" []) (by decide) (by decide),
    (integrateSeq_any_order exFld3 exFld3_wf (subsAcc_nil _ rfl) _ _ (List.Perm.swap "x" "z" []) (by decide) (by decide)).1,
    (integrateSeq_any_order exFldT exFldT_wf exFldT_acc _ _ (List.Perm.swap "x" "y" []) (by decide) (by decide)).1, ?_⟩
  obtain ⟨m1, m2, m12, a, b, c, d, _⟩ := sel_commute exFld3.mesh exFld3_wf.1 (subsAcc_nil _ rfl) (by decide) "z" "x" (by decide) (by decide) (by decide)
  exact ⟨m1, m2, m12, a, b, c, d⟩

/-- hypotheses of `rotate90_integrate_dir` / `rotate90_mean_dir`: the directional integral and
mean of a TURNED vector field exist (odd turn about a far point), so the theorems speak about
something; and of the total forms of linearity on a 3-d field -/
example : ∃ x g gi r, T.rotate90F exFldV "x" "y" 3 (some [7, -5/2]) true = .ok (x, g) ∧
    integrate g (.name "y") false = .ok (.field gi) ∧ mean g (.name "y") = .ok r := by
  obtain ⟨x, g, h⟩ := exFldV_turn_ok 3 (some [7, -5/2]) rfl true
  obtain ⟨hwg, hacc, _, _⟩ := rotate90_then_integrate_ok exFldV exFldV_wf rfl "x" "y" 3 _ true x g h
  obtain ⟨_, _, _, _, _, _, _, _, _, hnd, hdims, _⟩ := rotate90_cells exFldV exFldV_wf "x" "y" 3 _ true x g h
  have hd : "y" ∈ g.mesh.region.dims := by rw [hdims]; decide
  have h2 : 2 ≤ g.mesh.ndim := by rw [hnd]; decide
  obtain ⟨gi, hgi, _⟩ := (integrate_dir_ok g hwg hacc "y" hd).1 h2
  obtain ⟨gm, hgm⟩ := mean_dir_ok g hwg hacc h2 "y" hd
  exact ⟨x, g, gi, _, h, hgi, hgm⟩

example : ∃ rf rg r, integrate exFld3 (.name "z") true = .ok rf ∧ integrate exFld3 (.name "z") true = .ok rg ∧
    integrate (lin 2 exFld3 (-3) exFld3) (.name "z") true = .ok r := by
  obtain ⟨rf, rg, r, a, b, c, _⟩ := integrate_linear_total 2 (-3) exFld3 exFld3 exFld3_wf (subsAcc_nil _ rfl) rfl rfl rfl
    (.name "z") true (by decide)
  exact ⟨rf, rg, r, a, b, c⟩

end DFV.C06
