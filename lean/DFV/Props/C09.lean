import DFV.Model.C09
namespace DFV.C09
open DFV

/-- placeholder while the harness is being built -/
theorem scan_nil (acc : List (String × HVal)) : scan [] acc = none := rfl

end DFV.C09
