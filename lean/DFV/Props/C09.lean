import DFV.Lemmas.C09ExamplesSub
/-!
# C09 - OVF files round-trip fields and follow the OVF 1.0/2.0 format

Property theorems about the model of `_to_ovf` / `_from_ovf` (`DFV/Model/C09.lean`).
Mesh sizes, cell positions, component counts, labels, units, payload values, byte strings and
truncation points are universally quantified.  Payload values are abstract tokens of a type
`α` moved by a codec `c : Codec α`; what the codec has to satisfy is the explicit hypothesis
`c.Lawful narrow` (`dec (enc x) = x` for 8 bytes, `= narrow x` for 4 bytes, every value
occupies exactly `w` bytes).  Python's `repr`/`float` (header numbers, text payload) and
`struct`/`numpy` (bytes) are the trusted instances; the driver's bit-exact IEEE-754 codec on
rationals is compared with them byte for byte on every run.
-/
namespace DFV.C09
open DFV

/-! ## Payload order -/

/-- The writer's payload is x-fastest with components innermost: the value of cell
`(i, j, k)`, component `c`, sits at position `((k*ny + j)*nx + i)*nvdim + c` of
`array.transpose((2, 1, 0, 3)).flat`. -/
theorem payload_order {α} (f : OField α) (nx ny nz nv : Nat) (hs : f.arr.shape = [nx, ny, nz, nv])
    (i j k c : Nat) (hi : i < nx) (hj : j < ny) (hk : k < nz) (hc : c < nv) (d : α) :
    (flatPayload f).getD (((k * ny + j) * nx + i) * nv + c) d = f.arr.get [i, j, k, c] :=
  flatPayload_getD f nx ny nz nv hs i j k c hi hj hk hc d

/-- `reshape((*reversed(n), nvdim)).transpose((2, 1, 0, 3))` of the reader undoes the writer's
flattening: every value returns to its own cell and component. -/
theorem payload_roundtrip {α} (f : OField α) (nx ny nz nv : Nat) (hs : f.arr.shape = [nx, ny, nz, nv])
    (d : α) (arr : NDA α) (h : unflatten [nx, ny, nz] nv (flatPayload f) d = .ok arr)
    (i j k c : Nat) (hi : i < nx) (hj : j < ny) (hk : k < nz) (hc : c < nv) :
    arr.get [i, j, k, c] = f.arr.get [i, j, k, c] ∧ arr.shape = f.arr.shape := by
  obtain ⟨h1, h2⟩ := unflatten_get nx ny nz nv _ d arr h i j k c
  rw [h1, flatPayload_getD f nx ny nz nv hs i j k c hi hj hk hc, h2, hs]
  exact ⟨rfl, rfl⟩

/-! ## Mesh recovery from `stepsize` -/

/-- `round(edge / (edge / n)) = n`: the reader's cell count is the writer's. -/
theorem n_recovered (e : Rat) (he : 0 < e) (n : Nat) (hn : 0 < n) :
    (Mesh.roundHalfEven (e / (e / (n : Rat)))).toNat = n :=
  n_recovered_axis e he n hn

/-- `Mesh(region, cell = edges / n)` passes every check of the constructor (positive cells,
cell not larger than the region, divisibility) and has exactly `n` cells, in any number of
dimensions. -/
theorem mesh_recovered (r : Region) (n : List Nat) (hn : n.length = r.ndim)
    (hr : ∀ a, a < r.ndim → r.lo a < r.hi a) (hpos : ∀ a, a < r.ndim → 0 < n.getD a 0) :
    Mesh.mkCell? r (tab r.ndim fun a => r.edge a / (n.getD a 0 : Rat))
      = .ok { region := r, n := n, bc := "", subs := [] } :=
  mkCell_ok r n hn hr hpos

/-! ## Bytes of the data block -/

/-- The chunked writer loses and duplicates nothing: the chunks `flat[i*cs : (i+1)*cs]`,
`i < ceil(len/cs)`, concatenate to the whole payload, for every chunk size and length. -/
theorem chunks_concat {α} (cs : Nat) (hcs : 0 < cs) (l : List α) : (chunked cs l).flatten = l :=
  chunked_flatten cs hcs l

/-- ... and so do the bytes written chunk by chunk. -/
theorem chunked_bytes {α} (c : Codec α) (w : Nat) (cs : Nat) (hcs : 0 < cs) (l : List α) :
    ((chunked cs l).flatMap fun ch => ch.flatMap (c.enc true w)) = l.flatMap (c.enc true w) := by
  rw [flatMap_flatten', chunked_flatten cs hcs]

/-- `np.fromfile` on an encoded block gives back the values one by one, whatever follows the
block (newline, footer): `dec (enc x)` for each. -/
theorem data_block_decodes {α} (c : Codec α) (le : Bool) (w : Nat) (hw : 0 < w) (xs : List α)
    (tail : List Byte) (hl : ∀ x, (c.enc le w x).length = w) :
    fromfile c le w (xs.flatMap (c.enc le w) ++ tail) xs.length
      = xs.map fun x => c.dec le w (c.enc le w x) :=
  fromfile_block c le w hw xs tail hl

/-! ## Labels and units through the header -/

/-- Component labels survive `valuelabels: field_<c> ...` → regex → `convert`, for every
list of distinct word-character labels (underscores inside the labels included - D15). -/
theorem labels_roundtrip (isWord : Char → Bool) (W : WordClass isWord) (vs : List String)
    (hl : ∀ v ∈ vs, IsLabel isWord v.toList) (hd : hasDup vs = false) :
    recoverLabels isWord (String.ofList (joinSp (vs.map fun c => "field_".toList ++ c.toList))) = some vs :=
  recoverLabels_written isWord W vs hl hd

/-- The field unit survives `valueunits`, and an absent unit comes back absent (D14), for
every number of components. -/
theorem unit_roundtrip {α} (f : OField α) (extend : Bool) (hu : UnitOk f.unit) (hd : 0 < writeDim f extend) :
    recoverUnit (valueUnits f extend) = f.unit :=
  unit_roundtrip' f extend hu hd

/-! ## Round trips -/

/-- **Round trip** (`to_file` then `from_file`, binary representations): the file the writer
produces is read back to a field with the same region corners, mesh unit, cell counts,
component count, field unit (including no unit) and - for vector fields - component labels
(underscores included), and every value lands in its own cell and component: unchanged for
bin8, float32-rounded (`narrow`) for bin4. -/
theorem ovf_roundtrip {α} [DecidableEq α] (c : Codec α) (narrow : α → α) (L : c.Lawful narrow)
    (isWord : Char → Bool) (W : WordClass isWord) (reserved : String → Bool)
    (f : OField α) (V : Valid f) (hl : LabelsOk isWord reserved f) (hu : UnitOk f.unit)
    (rep : String) (w : Nat) (hrep : (rep = "bin4" ∧ w = 4) ∨ (rep = "bin8" ∧ w = 8)) :
    ∃ F g, toOvf c f rep false = .ok F ∧ fromOvf c isWord reserved F none = .ok g ∧
      g.mesh.region.pmin = f.mesh.region.pmin ∧ g.mesh.region.pmax = f.mesh.region.pmax ∧
      g.mesh.region.units = f.mesh.region.units ∧ g.mesh.n = f.mesh.n ∧
      g.nvdim = f.nvdim ∧ g.unit = f.unit ∧ (1 < f.nvdim → g.vdims = f.vdims) ∧
      ∀ i j k cc, i < f.mesh.nAt 0 → j < f.mesh.nAt 1 → k < f.mesh.nAt 2 → cc < f.nvdim →
        g.arr.get [i, j, k, cc] = conv narrow w (f.arr.get [i, j, k, cc]) := by
  obtain ⟨labels, vd', hlab, hset, hvd'⟩ := labels_written isWord W reserved f hl V.nv
  have hw : w = 4 ∨ w = 8 := by rcases hrep with ⟨_, h⟩ | ⟨_, h⟩ <;> simp [h]
  have hF := toOvf_bin c f V rep w hrep labels hlab
  obtain ⟨e1, e2, e3⟩ := valid_lists f V
  have hshape : f.arr.shape = [f.mesh.nAt 0, f.mesh.nAt 1, f.mesh.nAt 2, f.nvdim] := by
    rw [V.shape, ← e3]; rfl
  have hwd : writeDim f false = f.nvdim := by simp [writeDim]
  have hcount : (flatPayload f).length = natProd [f.mesh.nAt 0, f.mesh.nAt 1, f.mesh.nAt 2] * f.nvdim := by
    rw [flatPayload_length f _ _ _ _ hshape]; simp [natProd]; ring
  have hp := parse_bin_ok c narrow L
    { first := "# OOMMF OVF 2.0", lines := headerLines f false labels ["Binary", toString w],
      body := .bin (c.enc true w (c.magic w) ++ ((flatPayload f).flatMap (c.enc true w)
                ++ 10 :: footerBytes ["Binary", toString w])) }
    (writtenHeader f false labels) f.mesh.region.lo f.mesh.region.hi f.mesh.cellAt f.mesh.nAt
    (f.mesh.region.units.getD 0 "") (headerOf_written f false labels) V.lt V.npos (fun a _ => rfl)
    w hw ["Binary", toString w] (width_words w hw) (scan_written f false labels _)
    f.nvdim V.nv (by rw [← hwd]; exact valueDim_written f false labels)
    (flatPayload f) (10 :: footerBytes ["Binary", toString w])
    (by
      have : isV2 "# OOMMF OVF 2.0" = true := by decide +kernel
      simp only [this])
    hcount
  have hg := fromOvf_of_parse c isWord reserved _ _ _ _ _ f.nvdim V.nv _ _ hp
    (by rw [List.length_map]; exact hcount) vd'
    (by rw [labelsOf_written]; exact hset)
  refine ⟨_, _, hF, hg, ?_, ?_, ?_, ?_, rfl, ?_, hvd', ?_⟩
  · exact e1
  · exact e2
  · exact V.units.symm
  · exact e3
  · show unitOf (writtenHeader f false labels) = f.unit
    rw [unitOf_written]
    exact unit_roundtrip' f false hu (by rw [hwd]; exact V.nv)
  · intro i j k cc hi hj hk hcc
    show ((NDA.ofList ([f.mesh.nAt 0, f.mesh.nAt 1, f.mesh.nAt 2].reverse ++ [f.nvdim])
      ((flatPayload f).map (conv narrow w)) c.zero).transpose [2, 1, 0, 3]).get [i, j, k, cc] = _
    rw [transpose_get4 _ (by simp [NDA.ofList, NDA.ofArray]), ofList_get]
    have hpos : flatC ([f.mesh.nAt 0, f.mesh.nAt 1, f.mesh.nAt 2].reverse ++ [f.nvdim]) [k, j, i, cc]
        = pos (f.mesh.nAt 0) (f.mesh.nAt 1) f.nvdim i j k cc := by
      rw [pos_eq_flatC _ _ (f.mesh.nAt 2)]; rfl
    rw [hpos]
    have hlt : pos (f.mesh.nAt 0) (f.mesh.nAt 1) f.nvdim i j k cc < (flatPayload f).length := by
      rw [flatPayload_length f _ _ _ _ hshape]
      exact pos_lt _ _ _ _ _ _ _ _ hi hj hk hcc
    rw [getD_map_lt _ _ _ _ c.zero hlt, flatPayload_getD f _ _ _ _ hshape i j k cc hi hj hk hcc]


/-- `extend_scalar=True`: a one-component field is stored as `(x, 0, 0)` in every cell and
read back as a three-component field with default labels. -/
theorem extend_scalar_roundtrip {α} [DecidableEq α] (c : Codec α) (narrow : α → α) (L : c.Lawful narrow)
    (isWord : Char → Bool) (W : WordClass isWord) (reserved : String → Bool)
    (f : OField α) (V : Valid f) (h1 : f.nvdim = 1) (hu : UnitOk f.unit)
    (rep : String) (w : Nat) (hrep : (rep = "bin4" ∧ w = 4) ∨ (rep = "bin8" ∧ w = 8)) :
    ∃ F g, toOvf c f rep true = .ok F ∧ fromOvf c isWord reserved F none = .ok g ∧
      g.mesh.region.pmin = f.mesh.region.pmin ∧ g.mesh.region.pmax = f.mesh.region.pmax ∧
      g.mesh.n = f.mesh.n ∧ g.nvdim = 3 ∧ g.unit = f.unit ∧ g.vdims = some ["x", "y", "z"] ∧
      ∀ i j k, i < f.mesh.nAt 0 → j < f.mesh.nAt 1 → k < f.mesh.nAt 2 →
        g.arr.get [i, j, k, 0] = conv narrow w (f.arr.get [i, j, k, 0]) ∧
        g.arr.get [i, j, k, 1] = c.zero ∧ g.arr.get [i, j, k, 2] = c.zero := by
  have hw : w = 4 ∨ w = 8 := by rcases hrep with ⟨_, h⟩ | ⟨_, h⟩ <;> simp [h]
  have hF := toOvf_bin_extend c f V h1 rep w hrep
  rw [← toOvf_scalar c f rep true h1] at hF
  obtain ⟨e1, e2, e3⟩ := valid_lists f V
  have hshape : f.arr.shape = [f.mesh.nAt 0, f.mesh.nAt 1, f.mesh.nAt 2, 1] := by
    rw [V.shape, ← e3, h1]; rfl
  have hwd : writeDim f true = 3 := by simp [writeDim, h1]
  have hplen : (flatPayload f).length = natProd [f.mesh.nAt 0, f.mesh.nAt 1, f.mesh.nAt 2] := by
    rw [flatPayload_length f _ _ _ _ hshape]; simp [natProd]; ring
  have hcount : ((flatPayload f).flatMap fun x => [x, c.zero, c.zero]).length
      = natProd [f.mesh.nAt 0, f.mesh.nAt 1, f.mesh.nAt 2] * 3 := by
    rw [triple_length, hplen]
  have hp := parse_bin_ok c narrow L
    { first := "# OOMMF OVF 2.0",
      lines := headerLines f true (String.ofList (joinSp (List.replicate 3 "field_x".toList))) ["Binary", toString w],
      body := .bin (c.enc true w (c.magic w) ++ (((flatPayload f).flatMap fun x => [x, c.zero, c.zero]).flatMap (c.enc true w)
                ++ 10 :: footerBytes ["Binary", toString w])) }
    (writtenHeader f true _) f.mesh.region.lo f.mesh.region.hi f.mesh.cellAt f.mesh.nAt
    (f.mesh.region.units.getD 0 "") (headerOf_written f true _) V.lt V.npos (fun a _ => rfl)
    w hw ["Binary", toString w] (width_words w hw) (scan_written f true _ _)
    3 (by omega) (by rw [← hwd]; exact valueDim_written f true _)
    ((flatPayload f).flatMap fun x => [x, c.zero, c.zero]) (10 :: footerBytes ["Binary", toString w])
    (by
      have : isV2 "# OOMMF OVF 2.0" = true := by decide +kernel
      simp only [this])
    hcount
  have hset : vdimsSetter reserved 3 (labelsOf isWord (writtenHeader f true
      (String.ofList (joinSp (List.replicate 3 "field_x".toList))))) = .ok (some ["x", "y", "z"]) := by
    rw [labelsOf_written, recoverLabels_dup isWord W]; rfl
  have hg := fromOvf_of_parse c isWord reserved _ _ _ _ _ 3 (by omega) _ _ hp
    (by rw [List.length_map]; exact hcount) _ hset
  refine ⟨_, _, hF, hg, e1, e2, e3, rfl, ?_, rfl, ?_⟩
  · show unitOf (writtenHeader f true (String.ofList (joinSp (List.replicate 3 "field_x".toList)))) = f.unit
    rw [unitOf_written]
    exact unit_roundtrip' f true hu (by rw [hwd]; omega)
  · intro i j k hi hj hk
    have key : ∀ cc, cc < 3 →
        ((NDA.ofList ([f.mesh.nAt 0, f.mesh.nAt 1, f.mesh.nAt 2].reverse ++ [3])
          (((flatPayload f).flatMap fun x => [x, c.zero, c.zero]).map (conv narrow w)) c.zero).transpose
            [2, 1, 0, 3]).get [i, j, k, cc]
        = conv narrow w (if cc = 0 then f.arr.get [i, j, k, 0] else c.zero) := by
      intro cc hcc
      rw [transpose_get4 _ (by simp [NDA.ofList, NDA.ofArray]), ofList_get]
      have hpos : flatC ([f.mesh.nAt 0, f.mesh.nAt 1, f.mesh.nAt 2].reverse ++ [3]) [k, j, i, cc]
          = pos (f.mesh.nAt 0) (f.mesh.nAt 1) 1 i j k 0 * 3 + cc := by
        simp [flatC, natProd, pos]; ring
      rw [hpos]
      have hlt1 : pos (f.mesh.nAt 0) (f.mesh.nAt 1) 1 i j k 0 < (flatPayload f).length := by
        rw [flatPayload_length f _ _ _ _ hshape]
        exact pos_lt _ _ _ _ _ _ _ _ hi hj hk (by omega)
      have hlt : pos (f.mesh.nAt 0) (f.mesh.nAt 1) 1 i j k 0 * 3 + cc
          < ((flatPayload f).flatMap fun x => [x, c.zero, c.zero]).length := by
        rw [triple_length]; omega
      rw [getD_map_lt _ _ _ _ c.zero hlt, triple_getD _ _ _ _ _ hlt1 hcc,
        flatPayload_getD f _ _ _ _ hshape i j k 0 hi hj hk (by omega)]
    have hz : conv narrow w c.zero = c.zero := by
      unfold conv; split
      · exact L.narrow_zero
      · rfl
    refine ⟨?_, ?_, ?_⟩
    · have := key 0 (by omega); simp only [if_true] at this; exact this
    · have := key 1 (by omega); simp only [Nat.one_ne_zero, if_false, hz] at this; exact this
    · have := key 2 (by omega)
      rw [if_neg (by omega), hz] at this; exact this

/-- `extend_scalar=True` on a field with several components (D24, fixed): the option is
ignored - the written file is, line by line and byte by byte, the file written with
`extend_scalar=False`, in all three representations; so every round-trip theorem above
applies unchanged. -/
theorem extend_vector_ignored {α} (c : Codec α) (f : OField α) (h1 : f.nvdim ≠ 1) (rep : String) :
    toOvf c f rep true = toOvf c f rep false := by
  rw [toOvf_vector c f rep true h1, toOvf_false]

/-- ... and its read-back: values, labels, unit and mesh of a vector field written with
`extend_scalar=True` come back exactly as with `extend_scalar=False`. -/
theorem extend_vector_roundtrip {α} [DecidableEq α] (c : Codec α) (narrow : α → α) (L : c.Lawful narrow)
    (isWord : Char → Bool) (W : WordClass isWord) (reserved : String → Bool)
    (f : OField α) (V : Valid f) (h1 : 1 < f.nvdim) (hl : LabelsOk isWord reserved f) (hu : UnitOk f.unit)
    (rep : String) (w : Nat) (hrep : (rep = "bin4" ∧ w = 4) ∨ (rep = "bin8" ∧ w = 8)) :
    ∃ F g, toOvf c f rep true = .ok F ∧ fromOvf c isWord reserved F none = .ok g ∧
      g.mesh.n = f.mesh.n ∧ g.nvdim = f.nvdim ∧ g.unit = f.unit ∧ g.vdims = f.vdims ∧
      ∀ i j k cc, i < f.mesh.nAt 0 → j < f.mesh.nAt 1 → k < f.mesh.nAt 2 → cc < f.nvdim →
        g.arr.get [i, j, k, cc] = conv narrow w (f.arr.get [i, j, k, cc]) := by
  obtain ⟨F, g, hF, hg, _, _, _, hn, hnv, hun, hvd, hd⟩ :=
    ovf_roundtrip c narrow L isWord W reserved f V hl hu rep w hrep
  refine ⟨F, g, ?_, hg, hn, hnv, hun, hvd h1, hd⟩
  rw [extend_vector_ignored c f (by omega) rep]; exact hF

/-- **Round trip, text representation**: same statement as `ovf_roundtrip`; the values come
back as the numbers the text denotes (`repr`/`float` are the trusted `fmt/parse` pair, the
property grants 1e-9 relative). -/
theorem ovf_roundtrip_txt {α} [DecidableEq α] (c : Codec α)
    (isWord : Char → Bool) (W : WordClass isWord) (reserved : String → Bool)
    (f : OField α) (V : Valid f) (hl : LabelsOk isWord reserved f) (hu : UnitOk f.unit) :
    ∃ F g, toOvf c f "txt" false = .ok F ∧ fromOvf c isWord reserved F none = .ok g ∧
      g.mesh.region.pmin = f.mesh.region.pmin ∧ g.mesh.region.pmax = f.mesh.region.pmax ∧
      g.mesh.region.units = f.mesh.region.units ∧ g.mesh.n = f.mesh.n ∧
      g.nvdim = f.nvdim ∧ g.unit = f.unit ∧ (1 < f.nvdim → g.vdims = f.vdims) ∧
      ∀ i j k cc, i < f.mesh.nAt 0 → j < f.mesh.nAt 1 → k < f.mesh.nAt 2 → cc < f.nvdim →
        g.arr.get [i, j, k, cc] = f.arr.get [i, j, k, cc] := by
  obtain ⟨labels, vd', hlab, hset, hvd'⟩ := labels_written isWord W reserved f hl V.nv
  have hF := toOvf_txt c f V labels hlab
  obtain ⟨e1, e2, e3⟩ := valid_lists f V
  have hshape : f.arr.shape = [f.mesh.nAt 0, f.mesh.nAt 1, f.mesh.nAt 2, f.nvdim] := by
    rw [V.shape, ← e3]; rfl
  have hwd : writeDim f false = f.nvdim := by simp [writeDim]
  have hcount : (flatPayload f).length = natProd [f.mesh.nAt 0, f.mesh.nAt 1, f.mesh.nAt 2] * f.nvdim := by
    rw [flatPayload_length f _ _ _ _ hshape]; simp [natProd]; ring
  have hnpos : 0 < natProd [f.mesh.nAt 0, f.mesh.nAt 1, f.mesh.nAt 2] := by
    apply natProd_pos
    intro m hm
    simp only [List.mem_cons, List.mem_nil_iff, or_false] at hm
    rcases hm with rfl | rfl | rfl
    · exact V.npos 0 (by omega)
    · exact V.npos 1 (by omega)
    · exact V.npos 2 (by omega)
  have hrows : readText (textRows c f false) (natProd [f.mesh.nAt 0, f.mesh.nAt 1, f.mesh.nAt 2]) f.nvdim
      = .ok (flatPayload f) := by
    unfold textRows
    simp only [Bool.false_eq_true, if_false]
    have : (flatPayload f).length / f.nvdim = natProd [f.mesh.nAt 0, f.mesh.nAt 1, f.mesh.nAt 2] := by
      rw [hcount]; exact Nat.mul_div_cancel _ V.nv
    rw [this]
    exact readText_rows _ _ _ hnpos V.nv hcount c.zero
  have hp := parse_txt_ok c
    { first := "# OOMMF OVF 2.0", lines := headerLines f false labels ["Text"],
      body := .text (textRows c f false) (footerLines ["Text"]) }
    (writtenHeader f false labels) f.mesh.region.lo f.mesh.region.hi f.mesh.cellAt f.mesh.nAt
    (f.mesh.region.units.getD 0 "") (headerOf_written f false labels) V.lt V.npos (fun a _ => rfl)
    ["Text"] (by decide +kernel) rfl (scan_written f false labels _)
    f.nvdim (by rw [← hwd]; exact valueDim_written f false labels)
    _ _ rfl _ hrows
  have hg := fromOvf_of_parse c isWord reserved _ _ _ _ _ f.nvdim V.nv _ _ hp hcount vd'
    (by rw [labelsOf_written]; exact hset)
  refine ⟨_, _, hF, hg, e1, e2, V.units.symm, e3, rfl, ?_, hvd', ?_⟩
  · show unitOf (writtenHeader f false labels) = f.unit
    rw [unitOf_written]
    exact unit_roundtrip' f false hu (by rw [hwd]; exact V.nv)
  · intro i j k cc hi hj hk hcc
    show ((NDA.ofList ([f.mesh.nAt 0, f.mesh.nAt 1, f.mesh.nAt 2].reverse ++ [f.nvdim])
      (flatPayload f) c.zero).transpose [2, 1, 0, 3]).get [i, j, k, cc] = _
    rw [transpose_get4 _ (by simp [NDA.ofList, NDA.ofArray]), ofList_get]
    have hpos : flatC ([f.mesh.nAt 0, f.mesh.nAt 1, f.mesh.nAt 2].reverse ++ [f.nvdim]) [k, j, i, cc]
        = pos (f.mesh.nAt 0) (f.mesh.nAt 1) f.nvdim i j k cc := by
      rw [pos_eq_flatC _ _ (f.mesh.nAt 2)]; rfl
    rw [hpos, flatPayload_getD f _ _ _ _ hshape i j k cc hi hj hk hcc]


/-! ## Subregions through the side-car file -/

/-- **Side-car file**: subregions written by `save_subregions` (name ↦ `Region.to_dict()`, in
insertion order) are accepted again by `load_subregions` on the mesh read from the OVF file -
`Region(**val)`, containment, divisibility into cells and alignment all pass for every list
of boxes of whole cells - and come back with the same names, order and corners, carrying the
read mesh's dims, units and tolerance. -/
theorem subregions_sidecar (m m' : Mesh) (M : Mesh3 m')
    (h : ∀ p ∈ m.subs, ∃ i j, SubOf m' p.2 i j) :
    loadSub m' (saveSub m) = .ok { m' with subs := m.subs.map fun p => (p.1, retag m' p.2) } := by
  unfold loadSub saveSub
  have key : ∀ (l : List (String × Region)), (∀ p ∈ l, ∃ i j, SubOf m' p.2 i j) →
      l.mapM (fun p => (loadOneSub m' p.2).map fun r => (p.1, r))
        = .ok (l.map fun p => (p.1, retag m' p.2)) := by
    intro l hl
    induction l with
    | nil => rfl
    | cons p ps ih =>
      obtain ⟨i, j, S⟩ := hl p (by simp)
      rw [List.mapM_cons, loadOneSub_ok m' M p.2 i j S, ih (fun q hq => hl q (by simp [hq]))]
      rfl
  rw [key m.subs h]

/-- names, order and corners are those that were saved -/
theorem subregions_sidecar_corners (m m' m'' : Mesh) (M : Mesh3 m')
    (h : ∀ p ∈ m.subs, ∃ i j, SubOf m' p.2 i j) (hl : loadSub m' (saveSub m) = .ok m'') :
    m''.subs.map (fun p => (p.1, p.2.pmin, p.2.pmax)) = m.subs.map (fun p => (p.1, p.2.pmin, p.2.pmax))
      ∧ m''.n = m'.n ∧ m''.region = m'.region := by
  rw [subregions_sidecar m m' M h] at hl
  injection hl with hl
  subst hl
  simp [List.map_map, Function.comp_def, retag]


/-- **Round trip with subregions**: reading the written file together with the written
side-car file gives the mesh of the plain round trip carrying the saved subregions (same
names, order and corners), for every list of subregions made of whole cells. -/
theorem ovf_roundtrip_subregions {α} [DecidableEq α] (c : Codec α) (narrow : α → α) (L : c.Lawful narrow)
    (isWord : Char → Bool) (W : WordClass isWord) (reserved : String → Bool)
    (f : OField α) (V : Valid f) (hl : LabelsOk isWord reserved f)
    (hs : ∀ p ∈ f.mesh.subs, ∃ i j, SubOf f.mesh p.2 i j)
    (rep : String) (w : Nat) (hrep : (rep = "bin4" ∧ w = 4) ∨ (rep = "bin8" ∧ w = 8)) :
    ∃ F g, toOvf c f rep false = .ok F ∧
      fromOvf c isWord reserved F (some (saveSub f.mesh)) = .ok g ∧
      g.mesh.subs.map (fun p => (p.1, p.2.pmin, p.2.pmax)) = f.mesh.subs.map (fun p => (p.1, p.2.pmin, p.2.pmax)) ∧
      g.mesh.n = f.mesh.n ∧ g.mesh.region.pmin = f.mesh.region.pmin ∧ g.mesh.region.pmax = f.mesh.region.pmax := by
  obtain ⟨labels, vd', hlab, hset, _⟩ := labels_written isWord W reserved f hl V.nv
  have hw : w = 4 ∨ w = 8 := by rcases hrep with ⟨_, h⟩ | ⟨_, h⟩ <;> simp [h]
  have hF := toOvf_bin c f V rep w hrep labels hlab
  obtain ⟨e1, e2, e3⟩ := valid_lists f V
  have hshape : f.arr.shape = [f.mesh.nAt 0, f.mesh.nAt 1, f.mesh.nAt 2, f.nvdim] := by
    rw [V.shape, ← e3]; rfl
  have hwd : writeDim f false = f.nvdim := by simp [writeDim]
  have hcount : (flatPayload f).length = natProd [f.mesh.nAt 0, f.mesh.nAt 1, f.mesh.nAt 2] * f.nvdim := by
    rw [flatPayload_length f _ _ _ _ hshape]; simp [natProd]; ring
  have hp := parse_bin_ok c narrow L
    { first := "# OOMMF OVF 2.0", lines := headerLines f false labels ["Binary", toString w],
      body := .bin (c.enc true w (c.magic w) ++ ((flatPayload f).flatMap (c.enc true w)
                ++ 10 :: footerBytes ["Binary", toString w])) }
    (writtenHeader f false labels) f.mesh.region.lo f.mesh.region.hi f.mesh.cellAt f.mesh.nAt
    (f.mesh.region.units.getD 0 "") (headerOf_written f false labels) V.lt V.npos (fun a _ => rfl)
    w hw ["Binary", toString w] (width_words w hw) (scan_written f false labels _)
    f.nvdim V.nv (by rw [← hwd]; exact valueDim_written f false labels)
    (flatPayload f) (10 :: footerBytes ["Binary", toString w])
    (by
      have : isV2 "# OOMMF OVF 2.0" = true := by decide +kernel
      simp only [this])
    hcount
  have M := mesh3_meshOf f.mesh.region.lo f.mesh.region.hi f.mesh.nAt (f.mesh.region.units.getD 0 "") V.lt V.npos
  have hsub := subregions_sidecar f.mesh _ M
    (fun p hp => by
      obtain ⟨i, j, S⟩ := hs p hp
      exact ⟨i, j, subOf_meshOf f _ p.2 i j S⟩)
  have hg := fromOvf_of_parse_side c isWord reserved _ (some (saveSub f.mesh)) _ _ f.mesh.nAt rfl f.nvdim V.nv _ _ hp
    hsub (by rw [List.length_map]; exact hcount) vd' (by rw [labelsOf_written]; exact hset)
  refine ⟨_, _, hF, hg, ?_, e3, e1, e2⟩
  simp [List.map_map, Function.comp_def, retag]


/-! ## Foreign files and the independent reader -/

/-- Files of an independent OVF 1.0 (big endian, three components, no `valuedim`) or OVF 2.0
(little endian) binary writer are read to that writer's content. -/
theorem reader_v1_v2 {α} [DecidableEq α] (c : Codec α) (narrow : α → α) (L : c.Lawful narrow)
    (isWord : Char → Bool) (reserved : String → Bool) (v2 : Bool) (w : Nat) (hw : w = 4 ∨ w = 8)
    (x : Content α) (hstep : ∀ a, a < 3 → 0 < x.step.getD a 0) (hn : ∀ a, a < 3 → 0 < x.nodes.getD a 0)
    (hvd : 0 < x.vd) (hv1 : v2 = false → x.vd = 3)
    (hcount : x.values.length = natProd [x.nodes.getD 0 0, x.nodes.getD 1 0, x.nodes.getD 2 0] * x.vd) :
    ∃ g, fromOvf c isWord reserved (refWriter c v2 w x) none = .ok g ∧
      g.mesh.n = [x.nodes.getD 0 0, x.nodes.getD 1 0, x.nodes.getD 2 0] ∧
      g.mesh.region.pmin = [x.lo 0, x.lo 1, x.lo 2] ∧ g.mesh.region.pmax = [x.hi 0, x.hi 1, x.hi 2] ∧
      g.mesh.region.units = [x.meshunit, x.meshunit, x.meshunit] ∧ g.nvdim = x.vd ∧
      g.vdims = Fld.defaultVdims x.vd ∧ g.unit = none ∧
      ∀ i j k cc, i < x.nodes.getD 0 0 → j < x.nodes.getD 1 0 → k < x.nodes.getD 2 0 → cc < x.vd →
        g.arr.get [i, j, k, cc]
          = conv narrow w (x.values.getD (pos (x.nodes.getD 0 0) (x.nodes.getD 1 0) x.vd i j k cc) c.zero) := by
  have hw0 : ¬ (w = 0) := by rcases hw with rfl | rfl <;> omega
  have hlt : ∀ a, a < 3 → x.lo a < x.hi a := by
    intro a ha
    have h1 := hstep a ha
    have h2 : (0 : Rat) < (x.nodes.getD a 0 : Rat) := by exact_mod_cast hn a ha
    unfold Content.lo Content.hi
    have := mul_pos h2 h1
    linarith
  have hc : ∀ a, a < 3 → x.step.getD a 0 = (x.hi a - x.lo a) / ((x.nodes.getD a 0 : Nat) : Rat) := by
    intro a ha
    have h2 : ((x.nodes.getD a 0 : Nat) : Rat) ≠ 0 := by
      have : (0 : Rat) < (x.nodes.getD a 0 : Rat) := by exact_mod_cast hn a ha
      exact ne_of_gt this
    unfold Content.lo Content.hi
    field_simp
    ring
  have hscan := scan_ref c v2 w x
  rw [if_neg hw0] at hscan
  have hbody : (refWriter c v2 w x).body = .bin (c.enc (isV2 (refWriter c v2 w x).first) w (c.magic w)
      ++ (x.values.flatMap (c.enc (isV2 (refWriter c v2 w x).first) w)
      ++ 10 :: footerBytes ["Binary", toString w])) := by
    rw [isV2_ref]
    simp [refWriter, hw0, List.append_assoc]
  have hp := parse_bin_ok c narrow L (refWriter c v2 w x) (refHeader v2 x) x.lo x.hi
    (fun a => x.step.getD a 0) (fun a => x.nodes.getD a 0) x.meshunit (headerOf_ref v2 x) hlt hn hc
    w hw ["Binary", toString w] (width_words w hw) hscan x.vd hvd (valueDim_ref c v2 w x hv1)
    x.values _ hbody hcount
  have hset : vdimsSetter reserved x.vd (labelsOf isWord (refHeader v2 x)) = .ok (Fld.defaultVdims x.vd) := by
    rw [labelsOf_ref]; rfl
  have hg := fromOvf_of_parse c isWord reserved _ _ _ _ _ x.vd hvd _ _ hp
    (by rw [List.length_map]; exact hcount) _ hset
  refine ⟨_, hg, rfl, rfl, rfl, rfl, rfl, rfl, unitOf_ref v2 x, ?_⟩
  intro i j k cc hi hj hk hcc
  show ((NDA.ofList ([x.nodes.getD 0 0, x.nodes.getD 1 0, x.nodes.getD 2 0].reverse ++ [x.vd])
    (x.values.map (conv narrow w)) c.zero).transpose [2, 1, 0, 3]).get [i, j, k, cc] = _
  rw [transpose_get4 _ (by simp [NDA.ofList, NDA.ofArray]), ofList_get]
  have hpos : flatC ([x.nodes.getD 0 0, x.nodes.getD 1 0, x.nodes.getD 2 0].reverse ++ [x.vd]) [k, j, i, cc]
      = pos (x.nodes.getD 0 0) (x.nodes.getD 1 0) x.vd i j k cc := by
    rw [pos_eq_flatC _ _ (x.nodes.getD 2 0)]; rfl
  rw [hpos]
  have hlt' : pos (x.nodes.getD 0 0) (x.nodes.getD 1 0) x.vd i j k cc < x.values.length := by
    rw [hcount]
    have := pos_lt _ _ _ _ _ _ _ _ hi hj hk hcc
    simp only [natProd] at this ⊢
    calc _ < _ := this
      _ = _ := by ring
  rw [getD_map_lt _ _ _ _ c.zero hlt']


/-- The written file is an OVF 2.0 file that an independent reader (mesh from
`base/stepsize/nodes`, little-endian values in x-fastest order) decodes to the same mesh and
the same data. -/
theorem independent_reader {α} [DecidableEq α] (c : Codec α) (narrow : α → α) (L : c.Lawful narrow)
    (isWord : Char → Bool) (W : WordClass isWord) (reserved : String → Bool)
    (f : OField α) (V : Valid f) (hl : LabelsOk isWord reserved f)
    (rep : String) (w : Nat) (hrep : (rep = "bin4" ∧ w = 4) ∨ (rep = "bin8" ∧ w = 8)) :
    ∃ F x, toOvf c f rep false = .ok F ∧ isV2 F.first = true ∧ refReader c F = .ok x ∧
      x.nodes = f.mesh.n ∧ x.vd = f.nvdim ∧
      (∀ a, a < 3 → x.lo a = f.mesh.region.lo a ∧ x.hi a = f.mesh.region.hi a) ∧
      ∀ i j k cc, i < f.mesh.nAt 0 → j < f.mesh.nAt 1 → k < f.mesh.nAt 2 → cc < f.nvdim →
        x.values.getD (pos (f.mesh.nAt 0) (f.mesh.nAt 1) f.nvdim i j k cc) c.zero
          = conv narrow w (f.arr.get [i, j, k, cc]) := by
  obtain ⟨labels, vd', hlab, _, _⟩ := labels_written isWord W reserved f hl V.nv
  have hw : w = 4 ∨ w = 8 := by rcases hrep with ⟨_, h⟩ | ⟨_, h⟩ <;> simp [h]
  have hw0 : 0 < w := by rcases hw with rfl | rfl <;> omega
  have hF := toOvf_bin c f V rep w hrep labels hlab
  obtain ⟨e1, e2, e3⟩ := valid_lists f V
  have hshape : f.arr.shape = [f.mesh.nAt 0, f.mesh.nAt 1, f.mesh.nAt 2, f.nvdim] := by
    rw [V.shape, ← e3]; rfl
  have hwd : writeDim f false = f.nvdim := by simp [writeDim]
  have hcount : (flatPayload f).length = natProd [f.mesh.nAt 0, f.mesh.nAt 1, f.mesh.nAt 2] * f.nvdim := by
    rw [flatPayload_length f _ _ _ _ hshape]; simp [natProd]; ring
  have hlen : (c.enc true w (c.magic w)).length = w := L.enc_len _ _ _
  have hread : refReader c
      { first := "# OOMMF OVF 2.0", lines := headerLines f false labels ["Binary", toString w],
        body := .bin (c.enc true w (c.magic w) ++ ((flatPayload f).flatMap (c.enc true w)
                  ++ 10 :: footerBytes ["Binary", toString w])) }
      = .ok { base := [f.mesh.region.lo 0 + f.mesh.cellAt 0 / 2, f.mesh.region.lo 1 + f.mesh.cellAt 1 / 2,
                       f.mesh.region.lo 2 + f.mesh.cellAt 2 / 2],
              step := [f.mesh.cellAt 0, f.mesh.cellAt 1, f.mesh.cellAt 2],
              nodes := [f.mesh.nAt 0, f.mesh.nAt 1, f.mesh.nAt 2], vd := f.nvdim,
              meshunit := f.mesh.region.units.getD 0 "",
              values := (flatPayload f).map (conv narrow w) } := by
    unfold refReader
    simp only [scan_written]
    have hb : hnums (writtenHeader f false labels) "xbase" "ybase" "zbase"
        = .ok [f.mesh.region.lo 0 + f.mesh.cellAt 0 / 2, f.mesh.region.lo 1 + f.mesh.cellAt 1 / 2,
               f.mesh.region.lo 2 + f.mesh.cellAt 2 / 2] := by
      simp [hnums, hnum, hget, writtenHeader, List.find?, HVal.toNum, bind, Except.bind]
    have hvd : hnat (writtenHeader f false labels) "valuedim" = .ok f.nvdim := by
      simp [hnat, hget, writtenHeader, List.find?, HVal.toNat, bind, Except.bind, hwd]
    have H := headerOf_written f false labels
    rw [hb, H.step, H.nodes, hvd, H.mu]
    simp only [bind, Except.bind, HVal.text]
    unfold refReaderBody
    simp only [parseNat_width w hw, Option.getD_some]
    have c1 : ¬ ((c.enc true w (c.magic w) ++ ((flatPayload f).flatMap (c.enc true w)
        ++ 10 :: footerBytes ["Binary", toString w])).length < w) := by
      rw [List.length_append, hlen]; omega
    have c3 : (c.enc true w (c.magic w) ++ ((flatPayload f).flatMap (c.enc true w)
        ++ 10 :: footerBytes ["Binary", toString w])).take w = c.enc true w (c.magic w) := by
      rw [List.take_append_of_le_length (by omega), List.take_of_length_le (by omega)]
    have c4 : (c.enc true w (c.magic w) ++ ((flatPayload f).flatMap (c.enc true w)
        ++ 10 :: footerBytes ["Binary", toString w])).drop w
        = (flatPayload f).flatMap (c.enc true w) ++ 10 :: footerBytes ["Binary", toString w] := by
      have := List.drop_left (l₁ := c.enc true w (c.magic w))
        (l₂ := (flatPayload f).flatMap (c.enc true w) ++ 10 :: footerBytes ["Binary", toString w])
      rw [hlen] at this; exact this
    have c5 := fromfile_block c true w hw0 (flatPayload f) (10 :: footerBytes ["Binary", toString w])
      (fun x => L.enc_len true w x)
    have c6 : ((flatPayload f).map fun x => c.dec true w (c.enc true w x)) = (flatPayload f).map (conv narrow w) :=
      List.map_congr_left (fun x _ => dec_enc_conv c narrow L true w hw x)
    rw [if_neg c1, c3, dec_enc_magic c narrow L true w hw, c4, ← hcount, c5, c6]
    simp
  refine ⟨_, _, hF, (by decide +kernel : isV2 "# OOMMF OVF 2.0" = true), hread, e3, rfl, ?_, ?_⟩
  · intro a ha
    have hn : (f.mesh.nAt a : Rat) ≠ 0 := by
      have : (0 : Rat) < (f.mesh.nAt a : Rat) := by exact_mod_cast V.npos a ha
      exact ne_of_gt this
    match a, ha with
    | 0, _ =>
      simp only [Content.lo, Content.hi, List.getD_cons_zero, Mesh.cellAt, Region.edge] at hn ⊢
      constructor
      · ring
      · field_simp; ring
    | 1, _ =>
      simp only [Content.lo, Content.hi, List.getD_cons_zero, List.getD_cons_succ, Mesh.cellAt, Region.edge] at hn ⊢
      constructor
      · ring
      · field_simp; ring
    | 2, _ =>
      simp only [Content.lo, Content.hi, List.getD_cons_zero, List.getD_cons_succ, Mesh.cellAt, Region.edge] at hn ⊢
      constructor
      · ring
      · field_simp; ring
  · intro i j k cc hi hj hk hcc
    have hlt : pos (f.mesh.nAt 0) (f.mesh.nAt 1) f.nvdim i j k cc < (flatPayload f).length := by
      rw [flatPayload_length f _ _ _ _ hshape]
      exact pos_lt _ _ _ _ _ _ _ _ hi hj hk hcc
    show ((flatPayload f).map (conv narrow w)).getD _ c.zero = _
    rw [getD_map_lt _ _ _ _ c.zero hlt, flatPayload_getD f _ _ _ _ hshape i j k cc hi hj hk hcc]


/-! ## Damaged files -/

/-- A file whose binary data section is shorter than check value + `prod(n)·valuedim` values
is never read into a field (whatever the bytes are). -/
theorem short_block_rejected {α} [DecidableEq α] (c : Codec α) (isWord : Char → Bool)
    (reserved : String → Bool) (F : OvfFile α) (side : Option (List (String × Region)))
    (bytes : List Byte) (hbody : F.body = .bin bytes)
    (hshort : ∀ h ws mesh vd w, scan F.lines [] = some (h, ws) → readMesh h = .ok mesh →
      valueDim F.first h = .ok vd → dataWidth ws = some w → bytes.length < w * (1 + natProd mesh.n * vd)) :
    ∃ e, fromOvf c isWord reserved F side = .error e := by
  cases hres : fromOvf c isWord reserved F side with
  | error e => exact ⟨e, rfl⟩
  | ok g =>
    exfalso
    obtain ⟨p, mesh, arr, hp, hm, ha⟩ := fromOvf_ok_inv c isWord reserved F side g hres
    obtain ⟨ws, nodes, hscan, hvd, hmesh, hflat⟩ := parse_ok_inv c F p hp
    unfold readBody at hflat
    rw [hbody] at hflat
    simp only at hflat
    split at hflat
    · cases hw : dataWidth ws with
      | none =>
        -- parse would have stopped at the data line
        unfold parse at hp
        rw [hscan] at hp
        simp only at hp
        rename_i hb
        rw [hb, hw] at hp
        split at hp
        · cases hp
        · simp at hp
      | some w =>
        rw [hw] at hflat
        simp only [Option.getD_some] at hflat
        obtain ⟨hle, hw48, _, hfl⟩ := readBin_ok_inv c _ w bytes _ _ _ hflat
        have hw0 : 0 < w := by rcases hw48 with rfl | rfl <;> omega
        have hlen := fromfile_length_le c (isV2 F.first) w (bytes.drop w) (natProd nodes * p.vd)
        rw [← hfl, List.length_drop] at hlen
        have hs := hshort p.header ws p.mesh p.vd w hscan hmesh hvd hw
        have hn : mesh.n = p.mesh.n := loadSide_n _ _ _ hm
        unfold unflatten at ha
        split at ha
        · cases ha
        · rename_i hne
          rw [natProd_append1, natProd_reverse, hn] at hne
          have : p.flat.length = natProd p.mesh.n * p.vd := by omega
          rw [this] at hlen
          have h2 : (bytes.length - w) / w < natProd p.mesh.n * p.vd := by
            rw [Nat.div_lt_iff_lt_mul hw0]
            have : w * (1 + natProd p.mesh.n * p.vd) = w + natProd p.mesh.n * p.vd * w := by ring
            omega
          omega
    · cases hflat

/-- A binary file whose check value does not decode to the magic number of its width (for
every such bit pattern, whatever follows) is rejected. -/
theorem bad_check_rejected {α} [DecidableEq α] (c : Codec α) (isWord : Char → Bool)
    (reserved : String → Bool) (F : OvfFile α) (side : Option (List (String × Region)))
    (bytes : List Byte) (hbody : F.body = .bin bytes)
    (hchk : ∀ h ws w, scan F.lines [] = some (h, ws) → dataWidth ws = some w →
      c.dec (isV2 F.first) w (bytes.take w) ≠ c.magic w) :
    ∃ e, fromOvf c isWord reserved F side = .error e := by
  cases hres : fromOvf c isWord reserved F side with
  | error e => exact ⟨e, rfl⟩
  | ok g =>
    exfalso
    obtain ⟨p, mesh, arr, hp, hm, ha⟩ := fromOvf_ok_inv c isWord reserved F side g hres
    obtain ⟨ws, nodes, hscan, hvd, hmesh, hflat⟩ := parse_ok_inv c F p hp
    unfold readBody at hflat
    rw [hbody] at hflat
    simp only at hflat
    split at hflat
    · cases hw : dataWidth ws with
      | none =>
        unfold parse at hp
        rw [hscan] at hp
        simp only at hp
        rename_i hb
        rw [hb, hw] at hp
        split at hp
        · cases hp
        · simp at hp
      | some w =>
        rw [hw] at hflat
        simp only [Option.getD_some] at hflat
        obtain ⟨_, _, hmag, _⟩ := readBin_ok_inv c _ w bytes _ _ _ hflat
        exact hchk p.header ws w hscan hw hmag
    · cases hflat


/-- Header truncation: a file that ends before its `# Begin: Data` line is rejected. -/
theorem no_data_line_rejected {α} [DecidableEq α] (c : Codec α) (isWord : Char → Bool)
    (reserved : String → Bool) (F : OvfFile α) (side : Option (List (String × Region)))
    (h : ∀ l ∈ F.lines, ∀ ws, l ≠ .beginData ws) :
    fromOvf c isWord reserved F side = .error .runtime := by
  apply fromOvf_error_of_parse
  unfold parse
  rw [scan_none_of_no_data F.lines [] h]

/-- Every truncation point inside the data block of a file the writer produced: cutting the
data section anywhere before the end of the payload (`t < w·(1 + nx·ny·nz·nvdim)`: inside
the check value, inside a value, between values) makes the reader fail. -/
theorem truncated_written_rejected {α} [DecidableEq α] (c : Codec α) (isWord : Char → Bool)
    (reserved : String → Bool) (f : OField α) (V : Valid f) (rep : String) (w : Nat)
    (hrep : (rep = "bin4" ∧ w = 4) ∨ (rep = "bin8" ∧ w = 8)) (extend : Bool)
    (F : OvfFile α) (hF : toOvf c f rep extend = .ok F) (bytes : List Byte) (hb : F.body = .bin bytes)
    (t : Nat) (ht : t < w * (1 + natProd f.mesh.n * writeDim f extend))
    (side : Option (List (String × Region))) :
    ∃ e, fromOvf c isWord reserved { F with body := .bin (bytes.take t) } side = .error e := by
  have hF : toOvfE c f rep (extend && f.nvdim == 1) = .ok F := hF
  rw [← writeDim_eff f extend] at ht
  generalize (extend && f.nvdim == 1) = e at hF ht
  -- the header of F is the written header whatever the data block is
  have hlines : ∃ labels, F.first = "# OOMMF OVF 2.0" ∧
      F.lines = headerLines f e labels ["Binary", toString w] := by
    unfold toOvfE at hF
    split at hF
    · cases hF
    · split at hF
      · cases hF
      · rename_i labels _
        split at hF
        · cases hF
        · rename_i rw hrw
          split at hF
          · cases hF
          · have hrw' : rw = ["Binary", toString w] := by
              rcases hrep with ⟨rfl, rfl⟩ | ⟨rfl, rfl⟩ <;> (simp [repWords] at hrw; rw [← hrw]; rfl)
            split at hF
            · injection hF with hF; subst hF; exact ⟨labels, rfl, by rw [hrw']⟩
            · split at hF
              · cases hF
              · injection hF with hF; subst hF; exact ⟨labels, rfl, by rw [hrw']⟩
  obtain ⟨labels, hfirst, hl⟩ := hlines
  have hw : w = 4 ∨ w = 8 := by rcases hrep with ⟨_, h⟩ | ⟨_, h⟩ <;> simp [h]
  apply short_block_rejected c isWord reserved _ side (bytes.take t) rfl
  intro h ws mesh vd w' hscan hmesh hvd hw'
  simp only at hscan hvd
  rw [hl, scan_written] at hscan
  injection hscan with hscan
  injection hscan with h1 h2
  subst h1; subst h2
  rw [hfirst, valueDim_written] at hvd
  injection hvd with hvd
  rw [readMesh_ok _ _ _ _ _ _ (headerOf_written f e labels) V.lt V.npos (fun a _ => rfl)] at hmesh
  injection hmesh with hmesh
  rw [(width_words w hw).2] at hw'
  injection hw' with hw'
  subst hw'; subst hvd; subst hmesh
  have : (meshOf f.mesh.region.lo f.mesh.region.hi f.mesh.nAt (f.mesh.region.units.getD 0 "")).n = f.mesh.n :=
    (valid_lists f V).2.2
  rw [this]
  have := List.length_take_le t bytes
  omega


/-! ## Non-vacuity: the hypotheses of the theorems above are satisfiable

`toyCodec_lawful : toyCodec.Lawful id`, `isWordC_class : WordClass isWordC`,
`exField_valid`, `exField_labels`, `exField_unit` are proved in `Lemmas/C09Examples.lean`. -/

/-- the round-trip theorem applies to a concrete field (labels with an underscore, a unit) -/
example : ∃ F g, toOvf toyCodec exField "bin4" false = .ok F ∧
    fromOvf toyCodec isWordC (fun s => s == "norm") F none = .ok g ∧ g.vdims = some ["a_b", "c", "d"] ∧
    g.unit = some "A/m" ∧ g.arr.get [1, 0, 2, 1] = 121 := by
  obtain ⟨F, g, h1, h2, _, _, _, _, _, hu, hv, hd⟩ :=
    ovf_roundtrip toyCodec id toyCodec_lawful isWordC isWordC_class (fun s => s == "norm") exField
      exField_valid exField_labels exField_unit "bin4" 4 (Or.inl ⟨rfl, rfl⟩)
  refine ⟨F, g, h1, h2, hv (by decide), hu, ?_⟩
  have := hd 1 0 2 1 (by decide) (by decide) (by decide) (by decide)
  rw [this]; rfl

/-- a truncation point exists below the bound of `truncated_written_rejected`
(here: 4·(1 + 6·3) = 76 bytes of check value and payload) -/
example : (40 : Nat) < 4 * (1 + natProd exField.mesh.n * writeDim exField false) := by decide

/-- a check value different from the magic number exists -/
example : toyCodec.dec true 8 (List.replicate 8 6) ≠ toyCodec.magic 8 := by decide

/-- the reference-writer theorem applies: a 1 x 2 x 1 OVF 1.0 content -/
example : ∃ g, fromOvf toyCodec isWordC (fun _ => false)
    (refWriter toyCodec false 8 { base := [1/2, 1/4, 1], step := [1, 1/2, 2], nodes := [1, 2, 1], vd := 3,
                                   meshunit := "m", values := [1, 2, 3, 4, 5, 6] }) none = .ok g ∧
    g.mesh.n = [1, 2, 1] ∧ g.arr.get [0, 1, 0, 2] = 6 := by
  obtain ⟨g, h, hn, _, _, _, _, _, _, hd⟩ := reader_v1_v2 toyCodec id toyCodec_lawful isWordC (fun _ => false)
    false 8 (Or.inr rfl)
    { base := [1/2, 1/4, 1], step := [1, 1/2, 2], nodes := [1, 2, 1], vd := 3, meshunit := "m",
      values := [1, 2, 3, 4, 5, 6] }
    (by intro a ha; match a, ha with | 0, _ => decide +kernel | 1, _ => decide +kernel | 2, _ => decide +kernel)
    (by intro a ha; match a, ha with | 0, _ => decide | 1, _ => decide | 2, _ => decide)
    (by decide) (fun _ => rfl) (by decide)
  refine ⟨g, h, hn, ?_⟩
  have := hd 0 1 0 2 (by decide) (by decide) (by decide) (by decide)
  rw [this]; rfl


/-- the side-car theorems apply: `exFieldS` carries a subregion of whole cells, and it comes back -/
example : ∃ F g, toOvf toyCodec exFieldS "bin8" false = .ok F ∧
    fromOvf toyCodec isWordC (fun s => s == "norm") F (some (saveSub exFieldS.mesh)) = .ok g ∧
    g.mesh.subs.map (fun p => (p.1, p.2.pmin, p.2.pmax)) = [("top_half", [0, -1/2, 3], [1/2, 0, 5])] := by
  obtain ⟨F, g, h1, h2, h3, _⟩ := ovf_roundtrip_subregions toyCodec id toyCodec_lawful isWordC isWordC_class
    (fun s => s == "norm") exFieldS exFieldS_valid exFieldS_labels
    (by
      intro p hp
      have : p = ("top_half", exSub) := by simpa [exFieldS] using hp
      subst this
      exact ⟨_, _, exSub_of⟩)
    "bin8" 8 (Or.inr ⟨rfl, rfl⟩)
  exact ⟨F, g, h1, h2, h3⟩

/-- `extend_vector_ignored` applies to the three-component `exField` -/
example : toOvf toyCodec exField "txt" true = toOvf toyCodec exField "txt" false :=
  extend_vector_ignored toyCodec exField (by decide) "txt"

end DFV.C09
