import DFV.Lemmas.C09ExamplesSub
import DFV.Lemmas.C09IeeeV
import DFV.Lemmas.C09Iff
import DFV.Lemmas.C09CsvExamples
/-!
# C09 - OVF files round-trip fields and follow the OVF 1.0/2.0 format

Property theorems about the model of `_to_ovf` / `_from_ovf` (`DFV/Model/C09.lean`).
Mesh sizes, cell positions, component counts, labels, units, payload values, byte strings and
truncation points are universally quantified.  Payload values are abstract tokens of a type
`α` moved by a codec `c : Codec α`; what the codec has to satisfy is the explicit hypothesis
`c.Lawful narrow` (`dec (enc x) = x` for 8 bytes, `= narrow x` for 4 bytes, every value
occupies exactly `w` bytes).  Python's `repr`/`float` (header numbers, text payload) and
`struct`/`numpy` (bytes) are the trusted instances; the driver's bit-exact IEEE-754 codec on
rationals is compared with them byte for byte on every run.
-/
namespace DFV.C09
open DFV

/-! ## Payload order -/

/-- The writer's payload is x-fastest with components innermost: the value of cell
`(i, j, k)`, component `c`, sits at position `((k*ny + j)*nx + i)*nvdim + c` of
`array.transpose((2, 1, 0, 3)).flat`. -/
theorem payload_order {α} (f : OField α) (nx ny nz nv : Nat) (hs : f.arr.shape = [nx, ny, nz, nv])
    (i j k c : Nat) (hi : i < nx) (hj : j < ny) (hk : k < nz) (hc : c < nv) (d : α) :
    (flatPayload f).getD (((k * ny + j) * nx + i) * nv + c) d = f.arr.get [i, j, k, c] :=
  flatPayload_getD f nx ny nz nv hs i j k c hi hj hk hc d

/-- `reshape((*reversed(n), nvdim)).transpose((2, 1, 0, 3))` of the reader undoes the writer's
flattening: every value returns to its own cell and component. -/
theorem payload_roundtrip {α} (f : OField α) (nx ny nz nv : Nat) (hs : f.arr.shape = [nx, ny, nz, nv])
    (d : α) (arr : NDA α) (h : unflatten [nx, ny, nz] nv (flatPayload f) d = .ok arr)
    (i j k c : Nat) (hi : i < nx) (hj : j < ny) (hk : k < nz) (hc : c < nv) :
    arr.get [i, j, k, c] = f.arr.get [i, j, k, c] ∧ arr.shape = f.arr.shape := by
  obtain ⟨h1, h2⟩ := unflatten_get nx ny nz nv _ d arr h i j k c
  rw [h1, flatPayload_getD f nx ny nz nv hs i j k c hi hj hk hc, h2, hs]
  exact ⟨rfl, rfl⟩

/-! ## Mesh recovery from `stepsize` -/

/-- `round(edge / (edge / n)) = n`: the reader's cell count is the writer's. -/
theorem n_recovered (e : Rat) (he : 0 < e) (n : Nat) (hn : 0 < n) :
    (Mesh.roundHalfEven (e / (e / (n : Rat)))).toNat = n :=
  n_recovered_axis e he n hn

/-- `Mesh(region, cell = edges / n)` passes every check of the constructor (positive cells,
cell not larger than the region, divisibility) and has exactly `n` cells, in any number of
dimensions. -/
theorem mesh_recovered (r : Region) (n : List Nat) (hn : n.length = r.ndim)
    (hr : ∀ a, a < r.ndim → r.lo a < r.hi a) (hpos : ∀ a, a < r.ndim → 0 < n.getD a 0) :
    Mesh.mkCell? r (tab r.ndim fun a => r.edge a / (n.getD a 0 : Rat))
      = .ok { region := r, n := n, bc := "", subs := [] } :=
  mkCell_ok r n hn hr hpos

/-! ## Bytes of the data block -/

/-- The chunked writer loses and duplicates nothing: the chunks `flat[i*cs : (i+1)*cs]`,
`i < ceil(len/cs)`, concatenate to the whole payload, for every chunk size and length. -/
theorem chunks_concat {α} (cs : Nat) (hcs : 0 < cs) (l : List α) : (chunked cs l).flatten = l :=
  chunked_flatten cs hcs l

/-- ... and so do the bytes written chunk by chunk. -/
theorem chunked_bytes {α} (c : Codec α) (w : Nat) (cs : Nat) (hcs : 0 < cs) (l : List α) :
    ((chunked cs l).flatMap fun ch => ch.flatMap (c.enc true w)) = l.flatMap (c.enc true w) := by
  rw [flatMap_flatten', chunked_flatten cs hcs]

/-- `np.fromfile` on an encoded block gives back the values one by one, whatever follows the
block (newline, footer): `dec (enc x)` for each. -/
theorem data_block_decodes {α} (c : Codec α) (le : Bool) (w : Nat) (hw : 0 < w) (xs : List α)
    (tail : List Byte) (hl : ∀ x, (c.enc le w x).length = w) :
    fromfile c le w (xs.flatMap (c.enc le w) ++ tail) xs.length
      = xs.map fun x => c.dec le w (c.enc le w x) :=
  fromfile_block c le w hw xs tail hl

/-! ## Labels and units through the header -/

/-- Component labels survive `valuelabels: field_<c> ...` → regex → `convert`, for every
list of distinct word-character labels (underscores inside the labels included - D15). -/
theorem labels_roundtrip (isWord : Char → Bool) (W : WordClass isWord) (vs : List String)
    (hl : ∀ v ∈ vs, IsLabel isWord v.toList) (hd : hasDup vs = false) :
    recoverLabels isWord (String.ofList (joinSp (vs.map fun c => "field_".toList ++ c.toList))) = some vs :=
  recoverLabels_written isWord W vs hl hd

/-- The field unit survives `valueunits`, and an absent unit comes back absent (D14), for
every number of components. -/
theorem unit_roundtrip {α} (f : OField α) (extend : Bool) (hu : UnitOk f.unit) (hd : 0 < writeDim f extend) :
    recoverUnit (valueUnits f extend) = f.unit :=
  unit_roundtrip' f extend hu hd

/-! ## Round trips -/

/-- **Round trip** (`to_file` then `from_file`, binary representations): the file the writer
produces is read back to a field with the same region corners, mesh unit, cell counts,
component count, field unit (including no unit) and - for vector fields - component labels
(underscores included), and every value lands in its own cell and component: unchanged for
bin8, float32-rounded (`narrow`) for bin4. -/
theorem ovf_roundtrip {α} [DecidableEq α] (c : Codec α) (narrow : α → α) (L : c.Lawful narrow)
    (isWord : Char → Bool) (W : WordClass isWord) (reserved : String → Bool)
    (f : OField α) (V : Valid f) (hl : LabelsOk isWord reserved f) (hu : UnitOk f.unit)
    (rep : String) (w : Nat) (hrep : (rep = "bin4" ∧ w = 4) ∨ (rep = "bin8" ∧ w = 8)) :
    ∃ F g, toOvf c f rep false = .ok F ∧ fromOvf c isWord reserved F none = .ok g ∧
      g.mesh.region.pmin = f.mesh.region.pmin ∧ g.mesh.region.pmax = f.mesh.region.pmax ∧
      g.mesh.region.units = f.mesh.region.units ∧ g.mesh.n = f.mesh.n ∧
      g.nvdim = f.nvdim ∧ g.unit = f.unit ∧ (1 < f.nvdim → g.vdims = f.vdims) ∧
      ∀ i j k cc, i < f.mesh.nAt 0 → j < f.mesh.nAt 1 → k < f.mesh.nAt 2 → cc < f.nvdim →
        g.arr.get [i, j, k, cc] = conv narrow w (f.arr.get [i, j, k, cc]) := by
  obtain ⟨labels, vd', hlab, hset, hvd'⟩ := labels_written isWord W reserved f hl V.nv
  have hw : w = 4 ∨ w = 8 := by rcases hrep with ⟨_, h⟩ | ⟨_, h⟩ <;> simp [h]
  have hF := toOvf_bin c f V rep w hrep labels hlab
  obtain ⟨e1, e2, e3⟩ := valid_lists f V
  have hshape : f.arr.shape = [f.mesh.nAt 0, f.mesh.nAt 1, f.mesh.nAt 2, f.nvdim] := by
    rw [V.shape, ← e3]; rfl
  have hwd : writeDim f false = f.nvdim := by simp [writeDim]
  have hcount : (flatPayload f).length = natProd [f.mesh.nAt 0, f.mesh.nAt 1, f.mesh.nAt 2] * f.nvdim := by
    rw [flatPayload_length f _ _ _ _ hshape]; simp [natProd]; ring
  have hp := parse_bin_ok c narrow L
    { first := "# OOMMF OVF 2.0", lines := headerLines f false labels ["Binary", toString w],
      body := .bin (c.enc true w (c.magic w) ++ ((flatPayload f).flatMap (c.enc true w)
                ++ 10 :: footerBytes ["Binary", toString w])) }
    (writtenHeader f false labels) f.mesh.region.lo f.mesh.region.hi f.mesh.cellAt f.mesh.nAt
    (f.mesh.region.units.getD 0 "") (headerOf_written f false labels) V.lt V.npos (fun a _ => rfl)
    w hw ["Binary", toString w] (width_words w hw) (scan_written f false labels _)
    f.nvdim V.nv (by rw [← hwd]; exact valueDim_written f false labels)
    (flatPayload f) (10 :: footerBytes ["Binary", toString w])
    (by
      have : isV2 "# OOMMF OVF 2.0" = true := by decide +kernel
      simp only [this])
    hcount
  have hg := fromOvf_of_parse c isWord reserved _ _ _ _ _ f.nvdim V.nv _ _ hp
    (by rw [List.length_map]; exact hcount) vd'
    (by rw [labelsOf_written]; exact hset)
  refine ⟨_, _, hF, hg, ?_, ?_, ?_, ?_, rfl, ?_, hvd', ?_⟩
  · exact e1
  · exact e2
  · exact V.units.symm
  · exact e3
  · show unitOf (writtenHeader f false labels) = f.unit
    rw [unitOf_written]
    exact unit_roundtrip' f false hu (by rw [hwd]; exact V.nv)
  · intro i j k cc hi hj hk hcc
    show ((NDA.ofList ([f.mesh.nAt 0, f.mesh.nAt 1, f.mesh.nAt 2].reverse ++ [f.nvdim])
      ((flatPayload f).map (conv narrow w)) c.zero).transpose [2, 1, 0, 3]).get [i, j, k, cc] = _
    rw [transpose_get4 _ (by simp [NDA.ofList, NDA.ofArray]), ofList_get]
    have hpos : flatC ([f.mesh.nAt 0, f.mesh.nAt 1, f.mesh.nAt 2].reverse ++ [f.nvdim]) [k, j, i, cc]
        = pos (f.mesh.nAt 0) (f.mesh.nAt 1) f.nvdim i j k cc := by
      rw [pos_eq_flatC _ _ (f.mesh.nAt 2)]; rfl
    rw [hpos]
    have hlt : pos (f.mesh.nAt 0) (f.mesh.nAt 1) f.nvdim i j k cc < (flatPayload f).length := by
      rw [flatPayload_length f _ _ _ _ hshape]
      exact pos_lt _ _ _ _ _ _ _ _ hi hj hk hcc
    rw [getD_map_lt _ _ _ _ c.zero hlt, flatPayload_getD f _ _ _ _ hshape i j k cc hi hj hk hcc]


/-- `extend_scalar=True`: a one-component field is stored as `(x, 0, 0)` in every cell and
read back as a three-component field with default labels. -/
theorem extend_scalar_roundtrip {α} [DecidableEq α] (c : Codec α) (narrow : α → α) (L : c.Lawful narrow)
    (isWord : Char → Bool) (W : WordClass isWord) (reserved : String → Bool)
    (f : OField α) (V : Valid f) (h1 : f.nvdim = 1) (hu : UnitOk f.unit)
    (rep : String) (w : Nat) (hrep : (rep = "bin4" ∧ w = 4) ∨ (rep = "bin8" ∧ w = 8)) :
    ∃ F g, toOvf c f rep true = .ok F ∧ fromOvf c isWord reserved F none = .ok g ∧
      g.mesh.region.pmin = f.mesh.region.pmin ∧ g.mesh.region.pmax = f.mesh.region.pmax ∧
      g.mesh.n = f.mesh.n ∧ g.nvdim = 3 ∧ g.unit = f.unit ∧ g.vdims = some ["x", "y", "z"] ∧
      ∀ i j k, i < f.mesh.nAt 0 → j < f.mesh.nAt 1 → k < f.mesh.nAt 2 →
        g.arr.get [i, j, k, 0] = conv narrow w (f.arr.get [i, j, k, 0]) ∧
        g.arr.get [i, j, k, 1] = c.zero ∧ g.arr.get [i, j, k, 2] = c.zero := by
  have hw : w = 4 ∨ w = 8 := by rcases hrep with ⟨_, h⟩ | ⟨_, h⟩ <;> simp [h]
  have hF := toOvf_bin_extend c f V h1 rep w hrep
  rw [← toOvf_scalar c f rep true h1] at hF
  obtain ⟨e1, e2, e3⟩ := valid_lists f V
  have hshape : f.arr.shape = [f.mesh.nAt 0, f.mesh.nAt 1, f.mesh.nAt 2, 1] := by
    rw [V.shape, ← e3, h1]; rfl
  have hwd : writeDim f true = 3 := by simp [writeDim, h1]
  have hplen : (flatPayload f).length = natProd [f.mesh.nAt 0, f.mesh.nAt 1, f.mesh.nAt 2] := by
    rw [flatPayload_length f _ _ _ _ hshape]; simp [natProd]; ring
  have hcount : ((flatPayload f).flatMap fun x => [x, c.zero, c.zero]).length
      = natProd [f.mesh.nAt 0, f.mesh.nAt 1, f.mesh.nAt 2] * 3 := by
    rw [triple_length, hplen]
  have hp := parse_bin_ok c narrow L
    { first := "# OOMMF OVF 2.0",
      lines := headerLines f true (String.ofList (joinSp (List.replicate 3 "field_x".toList))) ["Binary", toString w],
      body := .bin (c.enc true w (c.magic w) ++ (((flatPayload f).flatMap fun x => [x, c.zero, c.zero]).flatMap (c.enc true w)
                ++ 10 :: footerBytes ["Binary", toString w])) }
    (writtenHeader f true _) f.mesh.region.lo f.mesh.region.hi f.mesh.cellAt f.mesh.nAt
    (f.mesh.region.units.getD 0 "") (headerOf_written f true _) V.lt V.npos (fun a _ => rfl)
    w hw ["Binary", toString w] (width_words w hw) (scan_written f true _ _)
    3 (by omega) (by rw [← hwd]; exact valueDim_written f true _)
    ((flatPayload f).flatMap fun x => [x, c.zero, c.zero]) (10 :: footerBytes ["Binary", toString w])
    (by
      have : isV2 "# OOMMF OVF 2.0" = true := by decide +kernel
      simp only [this])
    hcount
  have hset : vdimsSetter reserved 3 (labelsOf isWord (writtenHeader f true
      (String.ofList (joinSp (List.replicate 3 "field_x".toList))))) = .ok (some ["x", "y", "z"]) := by
    rw [labelsOf_written, recoverLabels_dup isWord W]; rfl
  have hg := fromOvf_of_parse c isWord reserved _ _ _ _ _ 3 (by omega) _ _ hp
    (by rw [List.length_map]; exact hcount) _ hset
  refine ⟨_, _, hF, hg, e1, e2, e3, rfl, ?_, rfl, ?_⟩
  · show unitOf (writtenHeader f true (String.ofList (joinSp (List.replicate 3 "field_x".toList)))) = f.unit
    rw [unitOf_written]
    exact unit_roundtrip' f true hu (by rw [hwd]; omega)
  · intro i j k hi hj hk
    have key : ∀ cc, cc < 3 →
        ((NDA.ofList ([f.mesh.nAt 0, f.mesh.nAt 1, f.mesh.nAt 2].reverse ++ [3])
          (((flatPayload f).flatMap fun x => [x, c.zero, c.zero]).map (conv narrow w)) c.zero).transpose
            [2, 1, 0, 3]).get [i, j, k, cc]
        = conv narrow w (if cc = 0 then f.arr.get [i, j, k, 0] else c.zero) := by
      intro cc hcc
      rw [transpose_get4 _ (by simp [NDA.ofList, NDA.ofArray]), ofList_get]
      have hpos : flatC ([f.mesh.nAt 0, f.mesh.nAt 1, f.mesh.nAt 2].reverse ++ [3]) [k, j, i, cc]
          = pos (f.mesh.nAt 0) (f.mesh.nAt 1) 1 i j k 0 * 3 + cc := by
        simp [flatC, natProd, pos]; ring
      rw [hpos]
      have hlt1 : pos (f.mesh.nAt 0) (f.mesh.nAt 1) 1 i j k 0 < (flatPayload f).length := by
        rw [flatPayload_length f _ _ _ _ hshape]
        exact pos_lt _ _ _ _ _ _ _ _ hi hj hk (by omega)
      have hlt : pos (f.mesh.nAt 0) (f.mesh.nAt 1) 1 i j k 0 * 3 + cc
          < ((flatPayload f).flatMap fun x => [x, c.zero, c.zero]).length := by
        rw [triple_length]; omega
      rw [getD_map_lt _ _ _ _ c.zero hlt, triple_getD _ _ _ _ _ hlt1 hcc,
        flatPayload_getD f _ _ _ _ hshape i j k 0 hi hj hk (by omega)]
    have hz : conv narrow w c.zero = c.zero := by
      unfold conv; split
      · exact L.narrow_zero
      · rfl
    refine ⟨?_, ?_, ?_⟩
    · have := key 0 (by omega); simp only [if_true] at this; exact this
    · have := key 1 (by omega); simp only [Nat.one_ne_zero, if_false, hz] at this; exact this
    · have := key 2 (by omega)
      rw [if_neg (by omega), hz] at this; exact this

/-- `extend_scalar=True` on a field with several components (D24, fixed): the option is
ignored - the written file is, line by line and byte by byte, the file written with
`extend_scalar=False`, in all three representations; so every round-trip theorem above
applies unchanged. -/
theorem extend_vector_ignored {α} (c : Codec α) (f : OField α) (h1 : f.nvdim ≠ 1) (rep : String) :
    toOvf c f rep true = toOvf c f rep false := by
  rw [toOvf_vector c f rep true h1, toOvf_false]

/-- ... and its read-back: values, labels, unit and mesh of a vector field written with
`extend_scalar=True` come back exactly as with `extend_scalar=False`. -/
theorem extend_vector_roundtrip {α} [DecidableEq α] (c : Codec α) (narrow : α → α) (L : c.Lawful narrow)
    (isWord : Char → Bool) (W : WordClass isWord) (reserved : String → Bool)
    (f : OField α) (V : Valid f) (h1 : 1 < f.nvdim) (hl : LabelsOk isWord reserved f) (hu : UnitOk f.unit)
    (rep : String) (w : Nat) (hrep : (rep = "bin4" ∧ w = 4) ∨ (rep = "bin8" ∧ w = 8)) :
    ∃ F g, toOvf c f rep true = .ok F ∧ fromOvf c isWord reserved F none = .ok g ∧
      g.mesh.n = f.mesh.n ∧ g.nvdim = f.nvdim ∧ g.unit = f.unit ∧ g.vdims = f.vdims ∧
      ∀ i j k cc, i < f.mesh.nAt 0 → j < f.mesh.nAt 1 → k < f.mesh.nAt 2 → cc < f.nvdim →
        g.arr.get [i, j, k, cc] = conv narrow w (f.arr.get [i, j, k, cc]) := by
  obtain ⟨F, g, hF, hg, _, _, _, hn, hnv, hun, hvd, hd⟩ :=
    ovf_roundtrip c narrow L isWord W reserved f V hl hu rep w hrep
  refine ⟨F, g, ?_, hg, hn, hnv, hun, hvd h1, hd⟩
  rw [extend_vector_ignored c f (by omega) rep]; exact hF

/-- **Round trip, text representation**: same statement as `ovf_roundtrip`; the values come
back as the numbers the text denotes (`repr`/`float` are the trusted `fmt/parse` pair, the
property grants 1e-9 relative). -/
theorem ovf_roundtrip_txt {α} [DecidableEq α] (c : Codec α)
    (isWord : Char → Bool) (W : WordClass isWord) (reserved : String → Bool)
    (f : OField α) (V : Valid f) (hl : LabelsOk isWord reserved f) (hu : UnitOk f.unit) :
    ∃ F g, toOvf c f "txt" false = .ok F ∧ fromOvf c isWord reserved F none = .ok g ∧
      g.mesh.region.pmin = f.mesh.region.pmin ∧ g.mesh.region.pmax = f.mesh.region.pmax ∧
      g.mesh.region.units = f.mesh.region.units ∧ g.mesh.n = f.mesh.n ∧
      g.nvdim = f.nvdim ∧ g.unit = f.unit ∧ (1 < f.nvdim → g.vdims = f.vdims) ∧
      ∀ i j k cc, i < f.mesh.nAt 0 → j < f.mesh.nAt 1 → k < f.mesh.nAt 2 → cc < f.nvdim →
        g.arr.get [i, j, k, cc] = f.arr.get [i, j, k, cc] := by
  obtain ⟨labels, vd', hlab, hset, hvd'⟩ := labels_written isWord W reserved f hl V.nv
  have hF := toOvf_txt c f V labels hlab
  obtain ⟨e1, e2, e3⟩ := valid_lists f V
  have hshape : f.arr.shape = [f.mesh.nAt 0, f.mesh.nAt 1, f.mesh.nAt 2, f.nvdim] := by
    rw [V.shape, ← e3]; rfl
  have hwd : writeDim f false = f.nvdim := by simp [writeDim]
  have hcount : (flatPayload f).length = natProd [f.mesh.nAt 0, f.mesh.nAt 1, f.mesh.nAt 2] * f.nvdim := by
    rw [flatPayload_length f _ _ _ _ hshape]; simp [natProd]; ring
  have hnpos : 0 < natProd [f.mesh.nAt 0, f.mesh.nAt 1, f.mesh.nAt 2] := by
    apply natProd_pos
    intro m hm
    simp only [List.mem_cons, List.mem_nil_iff, or_false] at hm
    rcases hm with rfl | rfl | rfl
    · exact V.npos 0 (by omega)
    · exact V.npos 1 (by omega)
    · exact V.npos 2 (by omega)
  have hrows : readText c.nan (textRows c f false) (natProd [f.mesh.nAt 0, f.mesh.nAt 1, f.mesh.nAt 2]) f.nvdim
      = .ok (flatPayload f) := by
    unfold textRows
    simp only [Bool.false_eq_true, if_false]
    have : (flatPayload f).length / f.nvdim = natProd [f.mesh.nAt 0, f.mesh.nAt 1, f.mesh.nAt 2] := by
      rw [hcount]; exact Nat.mul_div_cancel _ V.nv
    rw [this]
    exact readText_rows _ _ _ _ hnpos V.nv hcount c.zero
  have hp := parse_txt_ok c
    { first := "# OOMMF OVF 2.0", lines := headerLines f false labels ["Text"],
      body := .text (textRows c f false) (footerLines ["Text"]) }
    (writtenHeader f false labels) f.mesh.region.lo f.mesh.region.hi f.mesh.cellAt f.mesh.nAt
    (f.mesh.region.units.getD 0 "") (headerOf_written f false labels) V.lt V.npos (fun a _ => rfl)
    ["Text"] (by decide +kernel) rfl (scan_written f false labels _)
    f.nvdim (by rw [← hwd]; exact valueDim_written f false labels)
    _ _ rfl _ hrows
  have hg := fromOvf_of_parse c isWord reserved _ _ _ _ _ f.nvdim V.nv _ _ hp hcount vd'
    (by rw [labelsOf_written]; exact hset)
  refine ⟨_, _, hF, hg, e1, e2, V.units.symm, e3, rfl, ?_, hvd', ?_⟩
  · show unitOf (writtenHeader f false labels) = f.unit
    rw [unitOf_written]
    exact unit_roundtrip' f false hu (by rw [hwd]; exact V.nv)
  · intro i j k cc hi hj hk hcc
    show ((NDA.ofList ([f.mesh.nAt 0, f.mesh.nAt 1, f.mesh.nAt 2].reverse ++ [f.nvdim])
      (flatPayload f) c.zero).transpose [2, 1, 0, 3]).get [i, j, k, cc] = _
    rw [transpose_get4 _ (by simp [NDA.ofList, NDA.ofArray]), ofList_get]
    have hpos : flatC ([f.mesh.nAt 0, f.mesh.nAt 1, f.mesh.nAt 2].reverse ++ [f.nvdim]) [k, j, i, cc]
        = pos (f.mesh.nAt 0) (f.mesh.nAt 1) f.nvdim i j k cc := by
      rw [pos_eq_flatC _ _ (f.mesh.nAt 2)]; rfl
    rw [hpos, flatPayload_getD f _ _ _ _ hshape i j k cc hi hj hk hcc]


/-! ## Subregions through the side-car file -/

/-- **Side-car file**: subregions written by `save_subregions` (name ↦ `Region.to_dict()`, in
insertion order) are accepted again by `load_subregions` on the mesh read from the OVF file -
`Region(**val)`, containment, divisibility into cells and alignment all pass for every list
of boxes of whole cells - and come back with the same names, order and corners, carrying the
read mesh's dims, units and tolerance. -/
theorem subregions_sidecar (m m' : Mesh) (M : Mesh3 m')
    (h : ∀ p ∈ m.subs, ∃ i j, SubOf m' p.2 i j) :
    loadSub m' (saveSub m) = .ok { m' with subs := m.subs.map fun p => (p.1, retag m' p.2) } := by
  unfold loadSub saveSub
  have key : ∀ (l : List (String × Region)), (∀ p ∈ l, ∃ i j, SubOf m' p.2 i j) →
      l.mapM (fun p => (loadOneSub m' p.2).map fun r => (p.1, r))
        = .ok (l.map fun p => (p.1, retag m' p.2)) := by
    intro l hl
    induction l with
    | nil => rfl
    | cons p ps ih =>
      obtain ⟨i, j, S⟩ := hl p (by simp)
      rw [List.mapM_cons, loadOneSub_ok m' M p.2 i j S, ih (fun q hq => hl q (by simp [hq]))]
      rfl
  rw [key m.subs h]

/-- names, order and corners are those that were saved -/
theorem subregions_sidecar_corners (m m' m'' : Mesh) (M : Mesh3 m')
    (h : ∀ p ∈ m.subs, ∃ i j, SubOf m' p.2 i j) (hl : loadSub m' (saveSub m) = .ok m'') :
    m''.subs.map (fun p => (p.1, p.2.pmin, p.2.pmax)) = m.subs.map (fun p => (p.1, p.2.pmin, p.2.pmax))
      ∧ m''.n = m'.n ∧ m''.region = m'.region := by
  rw [subregions_sidecar m m' M h] at hl
  injection hl with hl
  subst hl
  simp [List.map_map, Function.comp_def, retag]


/-- **Round trip with subregions**: reading the written file together with the written
side-car file gives the mesh of the plain round trip carrying the saved subregions (same
names, order and corners), for every list of subregions made of whole cells. -/
theorem ovf_roundtrip_subregions {α} [DecidableEq α] (c : Codec α) (narrow : α → α) (L : c.Lawful narrow)
    (isWord : Char → Bool) (W : WordClass isWord) (reserved : String → Bool)
    (f : OField α) (V : Valid f) (hl : LabelsOk isWord reserved f)
    (hs : ∀ p ∈ f.mesh.subs, ∃ i j, SubOf f.mesh p.2 i j)
    (rep : String) (w : Nat) (hrep : (rep = "bin4" ∧ w = 4) ∨ (rep = "bin8" ∧ w = 8)) :
    ∃ F g, toOvf c f rep false = .ok F ∧
      fromOvf c isWord reserved F (some (saveSub f.mesh)) = .ok g ∧
      g.mesh.subs.map (fun p => (p.1, p.2.pmin, p.2.pmax)) = f.mesh.subs.map (fun p => (p.1, p.2.pmin, p.2.pmax)) ∧
      g.mesh.n = f.mesh.n ∧ g.mesh.region.pmin = f.mesh.region.pmin ∧ g.mesh.region.pmax = f.mesh.region.pmax := by
  obtain ⟨labels, vd', hlab, hset, _⟩ := labels_written isWord W reserved f hl V.nv
  have hw : w = 4 ∨ w = 8 := by rcases hrep with ⟨_, h⟩ | ⟨_, h⟩ <;> simp [h]
  have hF := toOvf_bin c f V rep w hrep labels hlab
  obtain ⟨e1, e2, e3⟩ := valid_lists f V
  have hshape : f.arr.shape = [f.mesh.nAt 0, f.mesh.nAt 1, f.mesh.nAt 2, f.nvdim] := by
    rw [V.shape, ← e3]; rfl
  have hwd : writeDim f false = f.nvdim := by simp [writeDim]
  have hcount : (flatPayload f).length = natProd [f.mesh.nAt 0, f.mesh.nAt 1, f.mesh.nAt 2] * f.nvdim := by
    rw [flatPayload_length f _ _ _ _ hshape]; simp [natProd]; ring
  have hp := parse_bin_ok c narrow L
    { first := "# OOMMF OVF 2.0", lines := headerLines f false labels ["Binary", toString w],
      body := .bin (c.enc true w (c.magic w) ++ ((flatPayload f).flatMap (c.enc true w)
                ++ 10 :: footerBytes ["Binary", toString w])) }
    (writtenHeader f false labels) f.mesh.region.lo f.mesh.region.hi f.mesh.cellAt f.mesh.nAt
    (f.mesh.region.units.getD 0 "") (headerOf_written f false labels) V.lt V.npos (fun a _ => rfl)
    w hw ["Binary", toString w] (width_words w hw) (scan_written f false labels _)
    f.nvdim V.nv (by rw [← hwd]; exact valueDim_written f false labels)
    (flatPayload f) (10 :: footerBytes ["Binary", toString w])
    (by
      have : isV2 "# OOMMF OVF 2.0" = true := by decide +kernel
      simp only [this])
    hcount
  have M := mesh3_meshOf f.mesh.region.lo f.mesh.region.hi f.mesh.nAt (f.mesh.region.units.getD 0 "") V.lt V.npos
  have hsub := subregions_sidecar f.mesh _ M
    (fun p hp => by
      obtain ⟨i, j, S⟩ := hs p hp
      exact ⟨i, j, subOf_meshOf f _ p.2 i j S⟩)
  have hg := fromOvf_of_parse_side c isWord reserved _ (some (saveSub f.mesh)) _ _ f.mesh.nAt rfl f.nvdim V.nv _ _ hp
    hsub (by rw [List.length_map]; exact hcount) vd' (by rw [labelsOf_written]; exact hset)
  refine ⟨_, _, hF, hg, ?_, e3, e1, e2⟩
  simp [List.map_map, Function.comp_def, retag]


/-! ## Foreign files and the independent reader -/

/-- Files of an independent OVF 1.0 (big endian, three components, no `valuedim`) or OVF 2.0
(little endian) binary writer are read to that writer's content. -/
theorem reader_v1_v2 {α} [DecidableEq α] (c : Codec α) (narrow : α → α) (L : c.Lawful narrow)
    (isWord : Char → Bool) (reserved : String → Bool) (v2 : Bool) (w : Nat) (hw : w = 4 ∨ w = 8)
    (x : Content α) (hstep : ∀ a, a < 3 → 0 < x.step.getD a 0) (hn : ∀ a, a < 3 → 0 < x.nodes.getD a 0)
    (hvd : 0 < x.vd) (hv1 : v2 = false → x.vd = 3)
    (hcount : x.values.length = natProd [x.nodes.getD 0 0, x.nodes.getD 1 0, x.nodes.getD 2 0] * x.vd) :
    ∃ g, fromOvf c isWord reserved (refWriter c v2 w x) none = .ok g ∧
      g.mesh.n = [x.nodes.getD 0 0, x.nodes.getD 1 0, x.nodes.getD 2 0] ∧
      g.mesh.region.pmin = [x.lo 0, x.lo 1, x.lo 2] ∧ g.mesh.region.pmax = [x.hi 0, x.hi 1, x.hi 2] ∧
      g.mesh.region.units = [x.meshunit, x.meshunit, x.meshunit] ∧ g.nvdim = x.vd ∧
      g.vdims = Fld.defaultVdims x.vd ∧ g.unit = none ∧
      ∀ i j k cc, i < x.nodes.getD 0 0 → j < x.nodes.getD 1 0 → k < x.nodes.getD 2 0 → cc < x.vd →
        g.arr.get [i, j, k, cc]
          = conv narrow w (x.values.getD (pos (x.nodes.getD 0 0) (x.nodes.getD 1 0) x.vd i j k cc) c.zero) := by
  have hw0 : ¬ (w = 0) := by rcases hw with rfl | rfl <;> omega
  have hlt : ∀ a, a < 3 → x.lo a < x.hi a := by
    intro a ha
    have h1 := hstep a ha
    have h2 : (0 : Rat) < (x.nodes.getD a 0 : Rat) := by exact_mod_cast hn a ha
    unfold Content.lo Content.hi
    have := mul_pos h2 h1
    linarith
  have hc : ∀ a, a < 3 → x.step.getD a 0 = (x.hi a - x.lo a) / ((x.nodes.getD a 0 : Nat) : Rat) := by
    intro a ha
    have h2 : ((x.nodes.getD a 0 : Nat) : Rat) ≠ 0 := by
      have : (0 : Rat) < (x.nodes.getD a 0 : Rat) := by exact_mod_cast hn a ha
      exact ne_of_gt this
    unfold Content.lo Content.hi
    field_simp
    ring
  have hscan := scan_ref c v2 w x
  rw [if_neg hw0] at hscan
  have hbody : (refWriter c v2 w x).body = .bin (c.enc (isV2 (refWriter c v2 w x).first) w (c.magic w)
      ++ (x.values.flatMap (c.enc (isV2 (refWriter c v2 w x).first) w)
      ++ 10 :: footerBytes ["Binary", toString w])) := by
    rw [isV2_ref]
    simp [refWriter, hw0, List.append_assoc]
  have hp := parse_bin_ok c narrow L (refWriter c v2 w x) (refHeader v2 x) x.lo x.hi
    (fun a => x.step.getD a 0) (fun a => x.nodes.getD a 0) x.meshunit (headerOf_ref v2 x) hlt hn hc
    w hw ["Binary", toString w] (width_words w hw) hscan x.vd hvd (valueDim_ref c v2 w x hv1)
    x.values _ hbody hcount
  have hset : vdimsSetter reserved x.vd (labelsOf isWord (refHeader v2 x)) = .ok (Fld.defaultVdims x.vd) := by
    rw [labelsOf_ref]; rfl
  have hg := fromOvf_of_parse c isWord reserved _ _ _ _ _ x.vd hvd _ _ hp
    (by rw [List.length_map]; exact hcount) _ hset
  refine ⟨_, hg, rfl, rfl, rfl, rfl, rfl, rfl, unitOf_ref v2 x, ?_⟩
  intro i j k cc hi hj hk hcc
  show ((NDA.ofList ([x.nodes.getD 0 0, x.nodes.getD 1 0, x.nodes.getD 2 0].reverse ++ [x.vd])
    (x.values.map (conv narrow w)) c.zero).transpose [2, 1, 0, 3]).get [i, j, k, cc] = _
  rw [transpose_get4 _ (by simp [NDA.ofList, NDA.ofArray]), ofList_get]
  have hpos : flatC ([x.nodes.getD 0 0, x.nodes.getD 1 0, x.nodes.getD 2 0].reverse ++ [x.vd]) [k, j, i, cc]
      = pos (x.nodes.getD 0 0) (x.nodes.getD 1 0) x.vd i j k cc := by
    rw [pos_eq_flatC _ _ (x.nodes.getD 2 0)]; rfl
  rw [hpos]
  have hlt' : pos (x.nodes.getD 0 0) (x.nodes.getD 1 0) x.vd i j k cc < x.values.length := by
    rw [hcount]
    have := pos_lt _ _ _ _ _ _ _ _ hi hj hk hcc
    simp only [natProd] at this ⊢
    calc _ < _ := this
      _ = _ := by ring
  rw [getD_map_lt _ _ _ _ c.zero hlt']


/-- The written file is an OVF 2.0 file that an independent reader (mesh from
`base/stepsize/nodes`, little-endian values in x-fastest order) decodes to the same mesh and
the same data. -/
theorem independent_reader {α} [DecidableEq α] (c : Codec α) (narrow : α → α) (L : c.Lawful narrow)
    (isWord : Char → Bool) (W : WordClass isWord) (reserved : String → Bool)
    (f : OField α) (V : Valid f) (hl : LabelsOk isWord reserved f)
    (rep : String) (w : Nat) (hrep : (rep = "bin4" ∧ w = 4) ∨ (rep = "bin8" ∧ w = 8)) :
    ∃ F x, toOvf c f rep false = .ok F ∧ isV2 F.first = true ∧ refReader c F = .ok x ∧
      x.nodes = f.mesh.n ∧ x.vd = f.nvdim ∧
      (∀ a, a < 3 → x.lo a = f.mesh.region.lo a ∧ x.hi a = f.mesh.region.hi a) ∧
      ∀ i j k cc, i < f.mesh.nAt 0 → j < f.mesh.nAt 1 → k < f.mesh.nAt 2 → cc < f.nvdim →
        x.values.getD (pos (f.mesh.nAt 0) (f.mesh.nAt 1) f.nvdim i j k cc) c.zero
          = conv narrow w (f.arr.get [i, j, k, cc]) := by
  obtain ⟨labels, vd', hlab, _, _⟩ := labels_written isWord W reserved f hl V.nv
  have hw : w = 4 ∨ w = 8 := by rcases hrep with ⟨_, h⟩ | ⟨_, h⟩ <;> simp [h]
  have hw0 : 0 < w := by rcases hw with rfl | rfl <;> omega
  have hF := toOvf_bin c f V rep w hrep labels hlab
  obtain ⟨e1, e2, e3⟩ := valid_lists f V
  have hshape : f.arr.shape = [f.mesh.nAt 0, f.mesh.nAt 1, f.mesh.nAt 2, f.nvdim] := by
    rw [V.shape, ← e3]; rfl
  have hwd : writeDim f false = f.nvdim := by simp [writeDim]
  have hcount : (flatPayload f).length = natProd [f.mesh.nAt 0, f.mesh.nAt 1, f.mesh.nAt 2] * f.nvdim := by
    rw [flatPayload_length f _ _ _ _ hshape]; simp [natProd]; ring
  have hlen : (c.enc true w (c.magic w)).length = w := L.enc_len _ _ _
  have hread : refReader c
      { first := "# OOMMF OVF 2.0", lines := headerLines f false labels ["Binary", toString w],
        body := .bin (c.enc true w (c.magic w) ++ ((flatPayload f).flatMap (c.enc true w)
                  ++ 10 :: footerBytes ["Binary", toString w])) }
      = .ok { base := [f.mesh.region.lo 0 + f.mesh.cellAt 0 / 2, f.mesh.region.lo 1 + f.mesh.cellAt 1 / 2,
                       f.mesh.region.lo 2 + f.mesh.cellAt 2 / 2],
              step := [f.mesh.cellAt 0, f.mesh.cellAt 1, f.mesh.cellAt 2],
              nodes := [f.mesh.nAt 0, f.mesh.nAt 1, f.mesh.nAt 2], vd := f.nvdim,
              meshunit := f.mesh.region.units.getD 0 "",
              values := (flatPayload f).map (conv narrow w) } := by
    unfold refReader
    simp only [scan_written]
    have hb : hnums (writtenHeader f false labels) "xbase" "ybase" "zbase"
        = .ok [f.mesh.region.lo 0 + f.mesh.cellAt 0 / 2, f.mesh.region.lo 1 + f.mesh.cellAt 1 / 2,
               f.mesh.region.lo 2 + f.mesh.cellAt 2 / 2] := by
      simp [hnums, hnum, hget, writtenHeader, List.find?, HVal.toNum, bind, Except.bind]
    have hvd : hnat (writtenHeader f false labels) "valuedim" = .ok f.nvdim := by
      simp [hnat, hget, writtenHeader, List.find?, HVal.toNat, bind, Except.bind, hwd]
    have H := headerOf_written f false labels
    rw [hb, H.step, H.nodes, hvd, H.mu]
    simp only [bind, Except.bind, HVal.text]
    unfold refReaderBody
    simp only [parseNat_width w hw, Option.getD_some]
    have c1 : ¬ ((c.enc true w (c.magic w) ++ ((flatPayload f).flatMap (c.enc true w)
        ++ 10 :: footerBytes ["Binary", toString w])).length < w) := by
      rw [List.length_append, hlen]; omega
    have c3 : (c.enc true w (c.magic w) ++ ((flatPayload f).flatMap (c.enc true w)
        ++ 10 :: footerBytes ["Binary", toString w])).take w = c.enc true w (c.magic w) := by
      rw [List.take_append_of_le_length (by omega), List.take_of_length_le (by omega)]
    have c4 : (c.enc true w (c.magic w) ++ ((flatPayload f).flatMap (c.enc true w)
        ++ 10 :: footerBytes ["Binary", toString w])).drop w
        = (flatPayload f).flatMap (c.enc true w) ++ 10 :: footerBytes ["Binary", toString w] := by
      have := List.drop_left (l₁ := c.enc true w (c.magic w))
        (l₂ := (flatPayload f).flatMap (c.enc true w) ++ 10 :: footerBytes ["Binary", toString w])
      rw [hlen] at this; exact this
    have c5 := fromfile_block c true w hw0 (flatPayload f) (10 :: footerBytes ["Binary", toString w])
      (fun x => L.enc_len true w x)
    have c6 : ((flatPayload f).map fun x => c.dec true w (c.enc true w x)) = (flatPayload f).map (conv narrow w) :=
      List.map_congr_left (fun x _ => dec_enc_conv c narrow L true w hw x)
    rw [if_neg c1, c3, dec_enc_magic c narrow L true w hw, c4, ← hcount, c5, c6]
    simp
  refine ⟨_, _, hF, (by decide +kernel : isV2 "# OOMMF OVF 2.0" = true), hread, e3, rfl, ?_, ?_⟩
  · intro a ha
    have hn : (f.mesh.nAt a : Rat) ≠ 0 := by
      have : (0 : Rat) < (f.mesh.nAt a : Rat) := by exact_mod_cast V.npos a ha
      exact ne_of_gt this
    match a, ha with
    | 0, _ =>
      simp only [Content.lo, Content.hi, List.getD_cons_zero, Mesh.cellAt, Region.edge] at hn ⊢
      constructor
      · ring
      · field_simp; ring
    | 1, _ =>
      simp only [Content.lo, Content.hi, List.getD_cons_zero, List.getD_cons_succ, Mesh.cellAt, Region.edge] at hn ⊢
      constructor
      · ring
      · field_simp; ring
    | 2, _ =>
      simp only [Content.lo, Content.hi, List.getD_cons_zero, List.getD_cons_succ, Mesh.cellAt, Region.edge] at hn ⊢
      constructor
      · ring
      · field_simp; ring
  · intro i j k cc hi hj hk hcc
    have hlt : pos (f.mesh.nAt 0) (f.mesh.nAt 1) f.nvdim i j k cc < (flatPayload f).length := by
      rw [flatPayload_length f _ _ _ _ hshape]
      exact pos_lt _ _ _ _ _ _ _ _ hi hj hk hcc
    show ((flatPayload f).map (conv narrow w)).getD _ c.zero = _
    rw [getD_map_lt _ _ _ _ c.zero hlt, flatPayload_getD f _ _ _ _ hshape i j k cc hi hj hk hcc]


/-! ## Damaged files -/

/-- A file whose binary data section is shorter than check value + `prod(n)·valuedim` values
is never read into a field (whatever the bytes are). -/
theorem short_block_rejected {α} [DecidableEq α] (c : Codec α) (isWord : Char → Bool)
    (reserved : String → Bool) (F : OvfFile α) (side : Option (List (String × Region)))
    (bytes : List Byte) (hbody : F.body = .bin bytes)
    (hshort : ∀ h ws mesh vd w, scan F.lines [] = some (h, ws) → readMesh h = .ok mesh →
      valueDim F.first h = .ok vd → dataWidth ws = some w → bytes.length < w * (1 + natProd mesh.n * vd)) :
    ∃ e, fromOvf c isWord reserved F side = .error e := by
  cases hres : fromOvf c isWord reserved F side with
  | error e => exact ⟨e, rfl⟩
  | ok g =>
    exfalso
    obtain ⟨p, mesh, arr, hp, hm, ha⟩ := fromOvf_ok_inv c isWord reserved F side g hres
    obtain ⟨ws, nodes, hscan, hvd, hmesh, hflat⟩ := parse_ok_inv c F p hp
    unfold readBody at hflat
    rw [hbody] at hflat
    simp only at hflat
    split at hflat
    · cases hw : dataWidth ws with
      | none =>
        -- parse would have stopped at the data line
        unfold parse at hp
        rw [hscan] at hp
        simp only at hp
        rename_i hb
        rw [hb, hw] at hp
        split at hp
        · cases hp
        · simp at hp
      | some w =>
        rw [hw] at hflat
        simp only [Option.getD_some] at hflat
        obtain ⟨hle, hw48, _, hfl⟩ := readBin_ok_inv c _ w bytes _ _ _ hflat
        have hw0 : 0 < w := by rcases hw48 with rfl | rfl <;> omega
        have hlen := fromfile_length_le c (isV2 F.first) w (bytes.drop w) (natProd nodes * p.vd)
        rw [← hfl, List.length_drop] at hlen
        have hs := hshort p.header ws p.mesh p.vd w hscan hmesh hvd hw
        have hn : mesh.n = p.mesh.n := loadSide_n _ _ _ hm
        unfold unflatten at ha
        split at ha
        · cases ha
        · rename_i hne
          rw [natProd_append1, natProd_reverse, hn] at hne
          have : p.flat.length = natProd p.mesh.n * p.vd := by omega
          rw [this] at hlen
          have h2 : (bytes.length - w) / w < natProd p.mesh.n * p.vd := by
            rw [Nat.div_lt_iff_lt_mul hw0]
            have : w * (1 + natProd p.mesh.n * p.vd) = w + natProd p.mesh.n * p.vd * w := by ring
            omega
          omega
    · cases hflat

/-- A binary file whose check value does not decode to the magic number of its width (for
every such bit pattern, whatever follows) is rejected. -/
theorem bad_check_rejected {α} [DecidableEq α] (c : Codec α) (isWord : Char → Bool)
    (reserved : String → Bool) (F : OvfFile α) (side : Option (List (String × Region)))
    (bytes : List Byte) (hbody : F.body = .bin bytes)
    (hchk : ∀ h ws w, scan F.lines [] = some (h, ws) → dataWidth ws = some w →
      c.dec (isV2 F.first) w (bytes.take w) ≠ c.magic w) :
    ∃ e, fromOvf c isWord reserved F side = .error e := by
  cases hres : fromOvf c isWord reserved F side with
  | error e => exact ⟨e, rfl⟩
  | ok g =>
    exfalso
    obtain ⟨p, mesh, arr, hp, hm, ha⟩ := fromOvf_ok_inv c isWord reserved F side g hres
    obtain ⟨ws, nodes, hscan, hvd, hmesh, hflat⟩ := parse_ok_inv c F p hp
    unfold readBody at hflat
    rw [hbody] at hflat
    simp only at hflat
    split at hflat
    · cases hw : dataWidth ws with
      | none =>
        unfold parse at hp
        rw [hscan] at hp
        simp only at hp
        rename_i hb
        rw [hb, hw] at hp
        split at hp
        · cases hp
        · simp at hp
      | some w =>
        rw [hw] at hflat
        simp only [Option.getD_some] at hflat
        obtain ⟨_, _, hmag, _⟩ := readBin_ok_inv c _ w bytes _ _ _ hflat
        exact hchk p.header ws w hscan hw hmag
    · cases hflat


/-- Header truncation: a file that ends before its `# Begin: Data` line is rejected. -/
theorem no_data_line_rejected {α} [DecidableEq α] (c : Codec α) (isWord : Char → Bool)
    (reserved : String → Bool) (F : OvfFile α) (side : Option (List (String × Region)))
    (h : ∀ l ∈ F.lines, ∀ ws, l ≠ .beginData ws) :
    fromOvf c isWord reserved F side = .error .runtime := by
  apply fromOvf_error_of_parse
  unfold parse
  rw [scan_none_of_no_data F.lines [] h]

/-- Every truncation point inside the data block of a file the writer produced: cutting the
data section anywhere before the end of the payload (`t < w·(1 + nx·ny·nz·nvdim)`: inside
the check value, inside a value, between values) makes the reader fail. -/
theorem truncated_written_rejected {α} [DecidableEq α] (c : Codec α) (isWord : Char → Bool)
    (reserved : String → Bool) (f : OField α) (V : Valid f) (rep : String) (w : Nat)
    (hrep : (rep = "bin4" ∧ w = 4) ∨ (rep = "bin8" ∧ w = 8)) (extend : Bool)
    (F : OvfFile α) (hF : toOvf c f rep extend = .ok F) (bytes : List Byte) (hb : F.body = .bin bytes)
    (t : Nat) (ht : t < w * (1 + natProd f.mesh.n * writeDim f extend))
    (side : Option (List (String × Region))) :
    ∃ e, fromOvf c isWord reserved { F with body := .bin (bytes.take t) } side = .error e := by
  have hF : toOvfE c f rep (extend && f.nvdim == 1) = .ok F := hF
  rw [← writeDim_eff f extend] at ht
  generalize (extend && f.nvdim == 1) = e at hF ht
  -- the header of F is the written header whatever the data block is
  have hlines : ∃ labels, F.first = "# OOMMF OVF 2.0" ∧
      F.lines = headerLines f e labels ["Binary", toString w] := by
    unfold toOvfE at hF
    split at hF
    · cases hF
    · split at hF
      · cases hF
      · rename_i labels _
        split at hF
        · cases hF
        · rename_i rw hrw
          split at hF
          · cases hF
          · have hrw' : rw = ["Binary", toString w] := by
              rcases hrep with ⟨rfl, rfl⟩ | ⟨rfl, rfl⟩ <;> (simp [repWords] at hrw; rw [← hrw]; rfl)
            split at hF
            · injection hF with hF; subst hF; exact ⟨labels, rfl, by rw [hrw']⟩
            · split at hF
              · cases hF
              · injection hF with hF; subst hF; exact ⟨labels, rfl, by rw [hrw']⟩
  obtain ⟨labels, hfirst, hl⟩ := hlines
  have hw : w = 4 ∨ w = 8 := by rcases hrep with ⟨_, h⟩ | ⟨_, h⟩ <;> simp [h]
  apply short_block_rejected c isWord reserved _ side (bytes.take t) rfl
  intro h ws mesh vd w' hscan hmesh hvd hw'
  simp only at hscan hvd
  rw [hl, scan_written] at hscan
  injection hscan with hscan
  injection hscan with h1 h2
  subst h1; subst h2
  rw [hfirst, valueDim_written] at hvd
  injection hvd with hvd
  rw [readMesh_ok _ _ _ _ _ _ (headerOf_written f e labels) V.lt V.npos (fun a _ => rfl)] at hmesh
  injection hmesh with hmesh
  rw [(width_words w hw).2] at hw'
  injection hw' with hw'
  subst hw'; subst hvd; subst hmesh
  have : (meshOf f.mesh.region.lo f.mesh.region.hi f.mesh.nAt (f.mesh.region.units.getD 0 "")).n = f.mesh.n :=
    (valid_lists f V).2.2
  rw [this]
  have := List.length_take_le t bytes
  omega


/-! ## Non-vacuity: the hypotheses of the theorems above are satisfiable

`toyCodec_lawful : toyCodec.Lawful id`, `isWordC_class : WordClass isWordC`,
`exField_valid`, `exField_labels`, `exField_unit` are proved in `Lemmas/C09Examples.lean`. -/

/-- the round-trip theorem applies to a concrete field (labels with an underscore, a unit) -/
example : ∃ F g, toOvf toyCodec exField "bin4" false = .ok F ∧
    fromOvf toyCodec isWordC (fun s => s == "norm") F none = .ok g ∧ g.vdims = some ["a_b", "c", "d"] ∧
    g.unit = some "A/m" ∧ g.arr.get [1, 0, 2, 1] = 121 := by
  obtain ⟨F, g, h1, h2, _, _, _, _, _, hu, hv, hd⟩ :=
    ovf_roundtrip toyCodec id toyCodec_lawful isWordC isWordC_class (fun s => s == "norm") exField
      exField_valid exField_labels exField_unit "bin4" 4 (Or.inl ⟨rfl, rfl⟩)
  refine ⟨F, g, h1, h2, hv (by decide), hu, ?_⟩
  have := hd 1 0 2 1 (by decide) (by decide) (by decide) (by decide)
  rw [this]; rfl

/-- a truncation point exists below the bound of `truncated_written_rejected`
(here: 4·(1 + 6·3) = 76 bytes of check value and payload) -/
example : (40 : Nat) < 4 * (1 + natProd exField.mesh.n * writeDim exField false) := by decide

/-- a check value different from the magic number exists -/
example : toyCodec.dec true 8 (List.replicate 8 6) ≠ toyCodec.magic 8 := by decide

/-- the reference-writer theorem applies: a 1 x 2 x 1 OVF 1.0 content -/
example : ∃ g, fromOvf toyCodec isWordC (fun _ => false)
    (refWriter toyCodec false 8 { base := [1/2, 1/4, 1], step := [1, 1/2, 2], nodes := [1, 2, 1], vd := 3,
                                   meshunit := "m", values := [1, 2, 3, 4, 5, 6] }) none = .ok g ∧
    g.mesh.n = [1, 2, 1] ∧ g.arr.get [0, 1, 0, 2] = 6 := by
  obtain ⟨g, h, hn, _, _, _, _, _, _, hd⟩ := reader_v1_v2 toyCodec id toyCodec_lawful isWordC (fun _ => false)
    false 8 (Or.inr rfl)
    { base := [1/2, 1/4, 1], step := [1, 1/2, 2], nodes := [1, 2, 1], vd := 3, meshunit := "m",
      values := [1, 2, 3, 4, 5, 6] }
    (by intro a ha; match a, ha with | 0, _ => decide +kernel | 1, _ => decide +kernel | 2, _ => decide +kernel)
    (by intro a ha; match a, ha with | 0, _ => decide | 1, _ => decide | 2, _ => decide)
    (by decide) (fun _ => rfl) (by decide)
  refine ⟨g, h, hn, ?_⟩
  have := hd 0 1 0 2 (by decide) (by decide) (by decide) (by decide)
  rw [this]; rfl


/-- the side-car theorems apply: `exFieldS` carries a subregion of whole cells, and it comes back -/
example : ∃ F g, toOvf toyCodec exFieldS "bin8" false = .ok F ∧
    fromOvf toyCodec isWordC (fun s => s == "norm") F (some (saveSub exFieldS.mesh)) = .ok g ∧
    g.mesh.subs.map (fun p => (p.1, p.2.pmin, p.2.pmax)) = [("top_half", [0, -1/2, 3], [1/2, 0, 5])] := by
  obtain ⟨F, g, h1, h2, h3, _⟩ := ovf_roundtrip_subregions toyCodec id toyCodec_lawful isWordC isWordC_class
    (fun s => s == "norm") exFieldS exFieldS_valid exFieldS_labels
    (by
      intro p hp
      have : p = ("top_half", exSub) := by simpa [exFieldS] using hp
      subst this
      exact ⟨_, _, exSub_of⟩)
    "bin8" 8 (Or.inr ⟨rfl, rfl⟩)
  exact ⟨F, g, h1, h2, h3⟩

/-- `extend_vector_ignored` applies to the three-component `exField` -/
example : toOvf toyCodec exField "txt" true = toOvf toyCodec exField "txt" false :=
  extend_vector_ignored toyCodec exField (by decide) "txt"

/-! ## The file as bytes

`Model/C09Lex.lean`: the header as the bytes `_to_ovf` writes (`headerBytes`, `fileBytes`) and the
header loop of `_from_ovf` on bytes (`lexBytes`: `next(f)`, `for line in f`, `decode("utf-8")`,
`lower().startswith("# begin: data")`, `line[1:].split(":")`, `strip()`), `fromOvfBytes` =
`_from_ovf` on a byte string.  `N : NumIO` is Python's `repr` / `float` for header numbers (trusted
pair, `N.Lawful`: `float(repr x) = x`, the text has no `:` and no white space); `tb` is what pandas
makes of the bytes of a text data section.  `WrittenTextOk f e`: the user's strings (mesh unit,
labels, field unit) have no `:`, no newline and no white space at their ends. -/

/-- **Byte level, binary files**: `_from_ovf` run on the bytes `_to_ovf` wrote (first line,
`# key: value` lines in UTF-8, data line, data section) sees exactly the file the writer
assembled - every header line is split, stripped and converted back to the value that was
formatted. -/
theorem written_bytes_read {α} [DecidableEq α] (N : NumIO) (L : N.Lawful)
    (tb : List Byte → List (List α) × List String) (c : Codec α) (isWord : Char → Bool)
    (reserved : String → Bool) (f : OField α) (rep : String) (extend : Bool) (F : OvfFile α)
    (hF : toOvf c f rep extend = .ok F) (T : WrittenTextOk f (extend && f.nvdim == 1))
    (b : List Byte) (hb : F.body = .bin b) (side : Option (List (String × Region))) :
    fromOvfBytes N tb c isWord reserved (fileBytes N F) side = fromOvf c isWord reserved F side := by
  have hF' : toOvfE c f rep (extend && f.nvdim == 1) = .ok F := hF
  obtain ⟨labels, rw, K, _, _, hrw⟩ := written_fileOk N c f rep _ F hF' T
  obtain ⟨_, _, _, hrw', _, _, hbody⟩ := toOvfE_shape c f rep _ F hF'
  rw [hrw] at hrw'; injection hrw' with hrw'; subst hrw'
  have hbin : isBinary rw = true := by
    rcases hbody with ⟨_, _, hne⟩ | ⟨_, _, ht, _⟩
    · exact (repWords_ok rep rw hrw).2.mpr hne
    · rw [hb] at ht; cases ht
  exact fromOvfBytes_bin N L tb c isWord reserved F _ rw K hbin b hb side

/-- **Byte level, text files**: the same for the header of a `txt` file, the rows being what
pandas (`tb`) makes of the bytes of the data section. -/
theorem written_bytes_read_txt {α} [DecidableEq α] (N : NumIO) (L : N.Lawful)
    (tb : List Byte → List (List α) × List String) (c : Codec α) (isWord : Char → Bool)
    (reserved : String → Bool) (f : OField α) (extend : Bool) (F : OvfFile α)
    (hF : toOvf c f "txt" extend = .ok F) (T : WrittenTextOk f (extend && f.nvdim == 1))
    (rows : List (List α)) (footer : List String) (hb : F.body = .text rows footer)
    (tbytes : List Byte) (htb : tb tbytes = (rows, footer)) (side : Option (List (String × Region))) :
    fromOvfBytes N tb c isWord reserved (headerBytes N F ++ tbytes) side = fromOvf c isWord reserved F side := by
  have hF' : toOvfE c f "txt" (extend && f.nvdim == 1) = .ok F := hF
  obtain ⟨labels, rw, K, _, _, hrw⟩ := written_fileOk N c f "txt" _ F hF' T
  have hbin : isBinary rw = false := by
    cases h : isBinary rw with
    | false => rfl
    | true => exact absurd rfl ((repWords_ok "txt" rw hrw).2.mp h)
  exact fromOvfBytes_text N L tb c isWord reserved F _ rw K hbin rows footer hb tbytes htb side


/-- **A file cut inside its header is rejected** - any file (written or foreign) whose header
lines the loop reads back (`FileOk`), any strict prefix `P` of its header bytes: cut in the
first line, between lines, in the middle of a line or of a multi-byte character, in the data
line, or just before the newline that ends it. -/
theorem cut_in_header_rejected {α} [DecidableEq α] (N : NumIO) (L : N.Lawful)
    (tb : List Byte → List (List α) × List String) (htb : (tb []).1 = [])
    (c : Codec α) (isWord : Char → Bool) (reserved : String → Bool)
    (F : OvfFile α) (hs : List HLine) (ws : List String) (K : FileOk N F hs ws)
    (P : List Byte) (hP : P <+: headerBytes N F) (hne : P ≠ headerBytes N F)
    (side : Option (List (String × Region))) :
    ∃ e, fromOvfBytes N tb c isWord reserved P side = .error e :=
  header_prefix_rejected N L tb htb c isWord reserved F hs ws K P hP hne side

/-- **Every truncation point of a written binary file**: the bytes of a file written by
`_to_ovf` (bin4 or bin8, with or without `extend_scalar`), cut after any number `t` of bytes
short of the end of the payload - inside the first line, between header lines, in the middle
of a header line or of a multi-byte character, inside the data line, inside the check value,
inside or between values - are never read into a field.  (From the end of the payload on, the
file reads as the whole file does: `cut_after_payload_same_field`.) -/
theorem every_truncation_rejected {α} [DecidableEq α] (N : NumIO) (L : N.Lawful)
    (tb : List Byte → List (List α) × List String) (htb : (tb []).1 = [])
    (c : Codec α) (isWord : Char → Bool) (reserved : String → Bool)
    (f : OField α) (V : Valid f) (rep : String) (w : Nat)
    (hrep : (rep = "bin4" ∧ w = 4) ∨ (rep = "bin8" ∧ w = 8)) (extend : Bool)
    (T : WrittenTextOk f (extend && f.nvdim == 1))
    (F : OvfFile α) (hF : toOvf c f rep extend = .ok F)
    (t : Nat) (ht : t < (headerBytes N F).length + w * (1 + natProd f.mesh.n * writeDim f extend))
    (side : Option (List (String × Region))) :
    ∃ e, fromOvfBytes N tb c isWord reserved ((fileBytes N F).take t) side = .error e := by
  have hF' : toOvfE c f rep (extend && f.nvdim == 1) = .ok F := hF
  obtain ⟨labels, rw, K, _, _, hrw⟩ := written_fileOk N c f rep _ F hF' T
  obtain ⟨_, _, _, _, _, _, hbody⟩ := toOvfE_shape c f rep _ F hF'
  have hne : rep ≠ "txt" := by rcases hrep with ⟨rfl, _⟩ | ⟨rfl, _⟩ <;> decide
  rcases hbody with ⟨b, hb, _⟩ | ⟨_, _, _, ht'⟩
  · have hbin : isBinary rw = true := (repWords_ok rep rw hrw).2.mpr hne
    have hfile : fileBytes N F = headerBytes N F ++ b := by unfold fileBytes; rw [hb]
    rw [hfile]
    rcases take_append_cases (headerBytes N F) b t with ⟨hlt, e⟩ | ⟨hge, e⟩
    · rw [e]
      exact header_prefix_rejected N L tb htb c isWord reserved F _ rw K _ (List.take_prefix _ _)
        (fun h => by
          have := congrArg List.length h
          rw [List.length_take] at this
          omega) side
    · rw [e]
      -- the header is complete: the cut is inside the data section
      have K' : FileOk N ({ F with body := Body.bin (b.take (t - (headerBytes N F).length)) } : OvfFile α)
          (headHs f _ labels) rw :=
        { lines := K.lines, first := K.first, ok := K.ok, words := K.words }
      have := fromOvfBytes_bin N L tb c isWord reserved
        ({ F with body := Body.bin (b.take (t - (headerBytes N F).length)) } : OvfFile α) _ rw K' hbin _ rfl side
      unfold fileBytes at this
      simp only at this
      have hh : headerBytes N ({ F with body := Body.bin (b.take (t - (headerBytes N F).length)) } : OvfFile α)
          = headerBytes N F := rfl
      rw [hh] at this
      rw [this]
      exact truncated_written_rejected c isWord reserved f V rep w hrep extend F hF b hb
        (t - (headerBytes N F).length) (by omega) side
  · exact absurd ht' hne


/-- From the end of the payload on, a cut changes nothing: the bytes of a written binary file
cut anywhere at or after the last payload byte (before the newline, inside the footer) read to
exactly what the whole file reads to - the reader never looks at the footer. -/
theorem cut_after_payload_same_field {α} [DecidableEq α] (N : NumIO) (L : N.Lawful)
    (tb : List Byte → List (List α) × List String)
    (c : Codec α) (isWord : Char → Bool) (reserved : String → Bool)
    (f : OField α) (V : Valid f) (rep : String) (w : Nat)
    (hrep : (rep = "bin4" ∧ w = 4) ∨ (rep = "bin8" ∧ w = 8)) (extend : Bool)
    (T : WrittenTextOk f (extend && f.nvdim == 1))
    (F : OvfFile α) (hF : toOvf c f rep extend = .ok F)
    (t : Nat) (ht : (headerBytes N F).length + w * (1 + natProd f.mesh.n * writeDim f extend) ≤ t)
    (side : Option (List (String × Region))) :
    fromOvfBytes N tb c isWord reserved ((fileBytes N F).take t) side
      = fromOvfBytes N tb c isWord reserved (fileBytes N F) side := by
  have hF' : toOvfE c f rep (extend && f.nvdim == 1) = .ok F := hF
  obtain ⟨labels, rw, K, hlines, hfirst, hrw⟩ := written_fileOk N c f rep _ F hF' T
  obtain ⟨_, _, _, _, _, _, hbody⟩ := toOvfE_shape c f rep _ F hF'
  have hne : rep ≠ "txt" := by rcases hrep with ⟨rfl, _⟩ | ⟨rfl, _⟩ <;> decide
  have hw : w = 4 ∨ w = 8 := by rcases hrep with ⟨_, h⟩ | ⟨_, h⟩ <;> simp [h]
  have hrw' : rw = ["Binary", toString w] := by
    rcases hrep with ⟨rfl, rfl⟩ | ⟨rfl, rfl⟩ <;> (simp [repWords] at hrw; rw [← hrw]; rfl)
  rcases hbody with ⟨b, hb, _⟩ | ⟨_, _, _, ht'⟩
  · have hbin : isBinary rw = true := (repWords_ok rep rw hrw).2.mpr hne
    have hfile : fileBytes N F = headerBytes N F ++ b := by unfold fileBytes; rw [hb]
    rw [written_bytes_read N L tb c isWord reserved f rep extend F hF T b hb side, hfile]
    rcases take_append_cases (headerBytes N F) b t with ⟨hlt, _⟩ | ⟨hge, e⟩
    · omega
    · rw [e]
      have K' : FileOk N ({ F with body := Body.bin (b.take (t - (headerBytes N F).length)) } : OvfFile α)
          (headHs f _ labels) rw :=
        { lines := K.lines, first := K.first, ok := K.ok, words := K.words }
      have := fromOvfBytes_bin N L tb c isWord reserved
        ({ F with body := Body.bin (b.take (t - (headerBytes N F).length)) } : OvfFile α) _ rw K' hbin _ rfl side
      unfold fileBytes at this
      simp only at this
      have hh : headerBytes N ({ F with body := Body.bin (b.take (t - (headerBytes N F).length)) } : OvfFile α)
          = headerBytes N F := rfl
      rw [hh] at this
      rw [this]
      apply fromOvf_cut c isWord reserved F b hb
      intro h ws vd nodes hscan hvd hn
      rw [hlines, scan_written] at hscan
      injection hscan with hscan
      injection hscan with h1 h2
      subst h1; subst h2
      rw [hfirst, valueDim_written] at hvd
      injection hvd with hvd
      rw [(headerOf_written f _ labels).nodes] at hn
      injection hn with hn
      subst hvd; subst hn
      rw [hrw', (width_words w hw).2, Option.getD_some, (valid_lists f V).2.2, writeDim_eff]
      omega
  · exact absurd ht' hne

/-- **Round trip on bytes** (`to_file` then `from_file`, bin4 / bin8): the bytes the writer
produces - header text in UTF-8 with numbers formatted by `repr`, check value, payload,
footer - are read back by the byte-level reader to the field of `ovf_roundtrip`: same region
corners, mesh unit, cell counts, component count, field unit, labels, and every value in its
own cell and component (unchanged for bin8, float32-rounded for bin4). -/
theorem ovf_roundtrip_bytes {α} [DecidableEq α] (N : NumIO) (LN : N.Lawful)
    (tb : List Byte → List (List α) × List String) (c : Codec α) (narrow : α → α) (L : c.Lawful narrow)
    (isWord : Char → Bool) (W : WordClass isWord) (reserved : String → Bool)
    (f : OField α) (V : Valid f) (hl : LabelsOk isWord reserved f) (hu : UnitOk f.unit)
    (T : WrittenTextOk f false)
    (rep : String) (w : Nat) (hrep : (rep = "bin4" ∧ w = 4) ∨ (rep = "bin8" ∧ w = 8)) :
    ∃ B g, toOvfBytes N c f rep false = .ok B ∧ fromOvfBytes N tb c isWord reserved B none = .ok g ∧
      g.mesh.region.pmin = f.mesh.region.pmin ∧ g.mesh.region.pmax = f.mesh.region.pmax ∧
      g.mesh.region.units = f.mesh.region.units ∧ g.mesh.n = f.mesh.n ∧
      g.nvdim = f.nvdim ∧ g.unit = f.unit ∧ (1 < f.nvdim → g.vdims = f.vdims) ∧
      ∀ i j k cc, i < f.mesh.nAt 0 → j < f.mesh.nAt 1 → k < f.mesh.nAt 2 → cc < f.nvdim →
        g.arr.get [i, j, k, cc] = conv narrow w (f.arr.get [i, j, k, cc]) := by
  obtain ⟨F, g, hF, hg, rest⟩ := ovf_roundtrip c narrow L isWord W reserved f V hl hu rep w hrep
  obtain ⟨_, _, _, _, _, _, hbody⟩ := toOvfE_shape c f rep _ F hF
  have hne : rep ≠ "txt" := by rcases hrep with ⟨rfl, _⟩ | ⟨rfl, _⟩ <;> decide
  rcases hbody with ⟨b, hb, _⟩ | ⟨_, _, _, ht⟩
  · refine ⟨fileBytes N F, g, ?_, ?_, rest⟩
    · unfold toOvfBytes; rw [hF]
    · rw [written_bytes_read N LN tb c isWord reserved f rep false F hF (by simpa using T) b hb none, hg]
  · exact absurd ht hne

/-- the byte-level theorems apply: a lawful number format exists (`toyNum_lawful`), the example
field's strings fit a header line (`exField_text`), and a cut 40 bytes into the file is a
truncation point below the bound -/
example : ∃ F, toOvf toyCodec exField "bin4" false = .ok F ∧
    ∃ e, fromOvfBytes toyNum toyText toyCodec isWordC (fun s => s == "norm") ((fileBytes toyNum F).take 40) none
      = .error e := by
  obtain ⟨F, g, hF, _⟩ := ovf_roundtrip toyCodec id toyCodec_lawful isWordC isWordC_class (fun s => s == "norm") exField
    exField_valid exField_labels exField_unit "bin4" 4 (Or.inl ⟨rfl, rfl⟩)
  refine ⟨F, hF, ?_⟩
  exact every_truncation_rejected toyNum toyNum_lawful toyText rfl toyCodec isWordC (fun s => s == "norm") exField
    exField_valid "bin4" 4 (Or.inl ⟨rfl, rfl⟩) false exField_text F hF 40
    (by
      have : 40 < 4 * (1 + natProd exField.mesh.n * writeDim exField false) := by decide
      omega) none


/-- **The strings of a sensible field fit a header line**: the hypothesis `WrittenTextOk` of the
byte-level theorems holds for every field whose mesh unit has no `:`, newline or white space at
its ends, whose labels are word characters (`LabelsOk`; `:` is not a word character) and whose
unit has no white space or `:` and is not the literal `None` (`UnitOkB`). -/
theorem written_text_ok {α} (isWord : Char → Bool) (W : WordClass isWord) (hcol : isWord ':' = false)
    (reserved : String → Bool) (f : OField α) (extend : Bool)
    (hm : TextOk (f.mesh.region.units.getD 0 "").toList)
    (hl : LabelsOk isWord reserved f) (hu : UnitOkB f.unit) : WrittenTextOk f extend :=
  writtenTextOk_of isWord W hcol reserved f extend hm hl hu

/-! ## Header fields -/
/-- **The header of a written file, clause by clause** (OVF 2.0 `rectangular` mesh): whatever the
representation and `extend_scalar`, the file `_to_ovf` writes starts with `# OOMMF OVF 2.0`, and
the dictionary the reader's header loop builds from its lines has `Segment count` 1, `meshtype`
rectangular, `meshunit` the region's unit, `xbase..zbase = pmin + cell/2` (centre of the first
cell), `xnodes..znodes = n`, `xstepsize..zstepsize = cell`, `xmin..zmax` the region corners,
`valuedim` the number of components written (3 for an extended scalar field), `valuelabels` and
`valueunits` as formatted; the data line names the representation. -/
theorem written_header_fields {α} (c : Codec α) (f : OField α) (rep : String) (extend : Bool) (F : OvfFile α)
    (hF : toOvf c f rep extend = .ok F) :
    ∃ h labels rw, scan F.lines [] = some (h, rw) ∧ repWords rep = .ok rw ∧
      valueLabels f (extend && f.nvdim == 1) = .ok labels ∧
      F.first = "# OOMMF OVF 2.0" ∧ isV2 F.first = true ∧
      hnat h "Segment count" = .ok 1 ∧ hget h "meshtype" = .ok (.str "rectangular") ∧
      hget h "meshunit" = .ok (.str (f.mesh.region.units.getD 0 "")) ∧
      hnums h "xbase" "ybase" "zbase" = .ok [f.mesh.region.lo 0 + f.mesh.cellAt 0 / 2,
        f.mesh.region.lo 1 + f.mesh.cellAt 1 / 2, f.mesh.region.lo 2 + f.mesh.cellAt 2 / 2] ∧
      hnats h "xnodes" "ynodes" "znodes" = .ok [f.mesh.nAt 0, f.mesh.nAt 1, f.mesh.nAt 2] ∧
      hnums h "xstepsize" "ystepsize" "zstepsize" = .ok [f.mesh.cellAt 0, f.mesh.cellAt 1, f.mesh.cellAt 2] ∧
      hnums h "xmin" "ymin" "zmin" = .ok [f.mesh.region.lo 0, f.mesh.region.lo 1, f.mesh.region.lo 2] ∧
      hnums h "xmax" "ymax" "zmax" = .ok [f.mesh.region.hi 0, f.mesh.region.hi 1, f.mesh.region.hi 2] ∧
      hnat h "valuedim" = .ok (writeDim f extend) ∧
      hget h "valuelabels" = .ok (.str labels) ∧ hget h "valueunits" = .ok (.str (valueUnits f extend)) := by
  have hF' : toOvfE c f rep (extend && f.nvdim == 1) = .ok F := hF
  obtain ⟨labels, rw, hlab, hrw, hfirst, hlines, _⟩ := toOvfE_shape c f rep _ F hF'
  have H := headerOf_written f (extend && f.nvdim == 1) labels
  have hv2 : isV2 "# OOMMF OVF 2.0" = true := by decide +kernel
  have hu : valueUnits f (extend && f.nvdim == 1) = valueUnits f extend := by
    unfold valueUnits; rw [writeDim_eff]
  refine ⟨writtenHeader f (extend && f.nvdim == 1) labels, labels, rw, by rw [hlines]; exact scan_written f _ labels rw,
    hrw, hlab, hfirst, by rw [hfirst]; exact hv2, ?_, ?_, H.mu, ?_, H.nodes, H.step, H.pmin, H.pmax, ?_, ?_, ?_⟩
  · simp [hnat, hget, writtenHeader, List.find?, HVal.toNat, bind, Except.bind]
  · simp [hget, writtenHeader, List.find?]
  · simp [hnums, hnum, hget, writtenHeader, List.find?, HVal.toNum, bind, Except.bind]
  · rw [← writeDim_eff]
    simp [hnat, hget, writtenHeader, List.find?, HVal.toNat, bind, Except.bind]
  · simp [hget, writtenHeader, List.find?]
  · rw [← hu]; simp [hget, writtenHeader, List.find?]

/-- **The two mesh descriptions of the header agree with each other and with the field**: the mesh
an independent reader reconstructs from the `base / stepsize / nodes` lines alone (first cell
centre minus half a step; plus `nodes` steps) and the one given by the `min / max` lines are both
the field's region, axis by axis; `nodes` steps of `stepsize` span the region exactly. -/
theorem header_meshes_agree {α} (f : OField α) (V : Valid f) (a : Nat) (ha : a < 3) :
    (f.mesh.region.lo a + f.mesh.cellAt a / 2) - f.mesh.cellAt a / 2 = f.mesh.region.lo a ∧
    ((f.mesh.region.lo a + f.mesh.cellAt a / 2) - f.mesh.cellAt a / 2) + (f.mesh.nAt a : Rat) * f.mesh.cellAt a
      = f.mesh.region.hi a ∧
    0 < f.mesh.cellAt a := by
  have hn : (0 : Rat) < (f.mesh.nAt a : Rat) := by exact_mod_cast V.npos a ha
  have hne : (f.mesh.nAt a : Rat) ≠ 0 := ne_of_gt hn
  have hlt := V.lt a ha
  refine ⟨by ring, ?_, ?_⟩
  · simp only [Mesh.cellAt, Region.edge]
    field_simp
    ring
  · simp only [Mesh.cellAt, Region.edge]
    apply div_pos
    · linarith
    · exact hn

/-- **`valuelabels` and `valueunits` carry one entry per written component** (OVF 2.0: `valuedim`
labels and units): split at white space, both header values have exactly `valuedim` words. -/
theorem written_label_unit_counts {α} (isWord : Char → Bool) (W : WordClass isWord) (reserved : String → Bool)
    (f : OField α) (e : Bool) (hl : LabelsOk isWord reserved f) (hu : UnitOk f.unit) (labels : String)
    (hlab : valueLabels f e = .ok labels) :
    (splitWs labels.toList).length = writeDim f e ∧ (splitWs (valueUnits f e).toList).length = writeDim f e := by
  constructor
  · unfold valueLabels at hlab
    split at hlab
    · rename_i h1
      injection hlab with hlab; subst hlab
      rw [h1]; decide
    · split at hlab
      · injection hlab with hlab; subst hlab
        rw [String.toList_ofList, splitWs_joinSp]
        · simp
        · intro w hw
          rw [(List.mem_replicate.mp hw).2]; exact ⟨by decide, by decide⟩
      · rename_i he
        split at hlab
        · cases hlab
        · rename_i vs hvs
          injection hlab with hlab; subst hlab
          have hl2 := hl.2
          rw [hvs] at hl2
          rw [String.toList_ofList, splitWs_joinSp]
          · have : writeDim f e = f.nvdim := by
              have : e = false := by simpa using he
              subst this; simp [writeDim]
            rw [List.length_map, hl2.1, this]
          · intro w hw
            obtain ⟨v, hv, rfl⟩ := List.mem_map.mp hw
            refine ⟨by simp, ?_⟩
            intro ch hch
            rcases List.mem_append.mp hch with h1 | h1
            · have : ∀ d ∈ "field_".toList, d.isWhitespace = false := by decide
              exact this ch h1
            · exact W.nows ch ((hl2.2.2 v hv).1.2 ch h1)
  · unfold valueUnits
    rw [String.toList_ofList, splitWs_joinSp]
    · simp
    · intro w hw
      rw [(List.mem_replicate.mp hw).2]
      cases hf : f.unit with
      | none => exact ⟨by decide, by decide⟩
      | some u =>
        rw [hf] at hu
        have hne : u ≠ "" := by intro h; apply hu.1.1; rw [h]; rfl
        simp only [unitWord, hne, if_false]
        exact hu.1

/-! ## Units the header cannot carry (open finding D25): negative theorems -/
/-- **D25 (open finding), white space**: a field unit that contains white space never comes back
- `valueunits` is split at white space, so whatever is recovered has none in it.  (Negative
theorem: the round-trip clause "any unit" is false of the code for these units.) -/
theorem unit_with_space_not_roundtrip {α} (f : OField α) (extend : Bool) (u : String) (hf : f.unit = some u)
    (hws : ∃ c ∈ u.toList, c.isWhitespace = true) : recoverUnit (valueUnits f extend) ≠ f.unit := by
  intro h
  rw [hf] at h
  obtain ⟨c, hc, hw⟩ := hws
  have := recoverUnit_nows _ u h c hc
  rw [this] at hw; cases hw

/-- **D25, the unit `"None"`**: it is the encoding of "no unit" and never comes back as a unit. -/
theorem unit_None_not_roundtrip {α} (f : OField α) (extend : Bool) (hf : f.unit = some "None") :
    recoverUnit (valueUnits f extend) ≠ f.unit := by
  rw [hf]; exact recoverUnit_ne_None _

/-- **D25, the empty unit**: written as `None`, read back as no unit. -/
theorem unit_empty_not_roundtrip {α} (f : OField α) (extend : Bool) (hf : f.unit = some "")
    (hd : 0 < writeDim f extend) : recoverUnit (valueUnits f extend) = none ∧ recoverUnit (valueUnits f extend) ≠ f.unit := by
  have : recoverUnit (valueUnits f extend) = none := by
    unfold valueUnits
    rw [hf]
    exact recoverUnit_none _ hd
  exact ⟨this, by rw [this, hf]; exact fun h => by cases h⟩

/-- **D25, a `:` in the unit** (byte level): the header loop keeps of the line
`# valueunits: <unit> ...` only what stands between the first and the second `:`; the value it
stores has no `:` left, and no unit recovered from it is the unit that was written. -/
theorem unit_with_colon_not_roundtrip {α} (N : NumIO) (f : OField α) (extend : Bool) (u : String)
    (hf : f.unit = some u) (hc : ':' ∈ u.toList) (hd : 0 < writeDim f extend) :
    ∃ v, classifyLine (renderLine N (.kv "valueunits" (.str (valueUnits f extend)))) = .kv "valueunits" v ∧
      ':' ∉ v.toList ∧ recoverUnit v ≠ f.unit := by
  obtain ⟨a, b, hab, ha⟩ := split_at_colon u.toList hc
  obtain ⟨k, hk⟩ : ∃ k, writeDim f extend = k + 1 := ⟨writeDim f extend - 1, by omega⟩
  have hne : u ≠ "" := by intro e; subst e; cases hc
  obtain ⟨r, hr⟩ := joinSp_replicate_succ k u.toList
  have htext : (valueUnits f extend).toList = a ++ ':' :: (b ++ r) := by
    unfold valueUnits
    rw [hf, hk, String.toList_ofList]
    simp only [unitWord, hne, if_false]
    rw [hr, hab]; simp
  have hline : renderLine N (.kv "valueunits" (.str (valueUnits f extend)))
      = '#' :: ' ' :: ("valueunits".toList ++ ':' :: ' ' :: (a ++ ':' :: (b ++ r))) := by
    simp only [renderLine, renderVal, htext]
  have hd' : isDataLine ('#' :: ' ' :: ("valueunits".toList ++ ':' :: ' ' :: (a ++ ':' :: (b ++ r)))) = false :=
    isDataLine_kv "valueunits" _ (by decide)
  refine ⟨String.ofList (strip (' ' :: a)), ?_, ?_, ?_⟩
  · rw [hline, classify_value_colon _ a (b ++ r) hd' (by decide) ha (textOk_of_B _ (by decide)).1]
    rfl
  · rw [String.toList_ofList]
    intro h
    rcases List.mem_cons.mp (mem_strip _ _ h) with h | h
    · exact absurd h (by decide)
    · exact ha h
  · intro h
    rw [hf] at h
    have := recoverUnit_subset _ u h ':' hc
    rw [String.toList_ofList] at this
    rcases List.mem_cons.mp (mem_strip _ _ this) with h | h
    · exact absurd h (by decide)
    · exact ha h

/-- the D25 theorems apply: units with a blank / a colon exist -/
example : ∃ c ∈ "A / m".toList, c.isWhitespace = true := ⟨' ', by decide, by decide⟩
example : ':' ∈ "m:s".toList := by decide


/-! ## Labels of foreign writers -/

/-- **OOMMF / mumax label styles**: a `valuelabels` line made of `stem_x` words (OOMMF
`Magnetization_x`, mumax `m_x`; the label may itself contain underscores), plain words, braced
phrases `{Total field_x}` and braced multi-word names `{Total energy density}`, separated by
single blanks, is read to the labels `x`, the word, `x`, `Total_energy_density` - for any number
of items of any of the four kinds, when the resulting labels are distinct. -/
theorem labels_foreign_styles (isWord : Char → Bool) (W : WordClass isWord) (its : List Item)
    (h : ∀ it ∈ its, it.Ok isWord)
    (hd : hasDup (its.map fun it => String.ofList it.label) = false) :
    recoverLabels isWord (String.ofList (joinSp (its.map Item.text)))
      = some (its.map fun it => String.ofList it.label) :=
  recoverLabels_items isWord W its h hd

/-- ... and when the resulting labels collide (`m_x m_x m_x`), the reader keeps none (the
constructor then assigns the default labels). -/
theorem labels_foreign_duplicates (isWord : Char → Bool) (W : WordClass isWord) (its : List Item)
    (h : ∀ it ∈ its, it.Ok isWord)
    (hd : hasDup (its.map fun it => String.ofList it.label) = true) :
    recoverLabels isWord (String.ofList (joinSp (its.map Item.text))) = none :=
  recoverLabels_items_dup isWord W its h hd

/-- the label theorems on concrete OOMMF / mumax lines (evaluated, not derived) -/
example : recoverLabels isWordC "{Total field_x} {Total field_y} {Total energy density} Magnetization_z m_full_w"
    = some ["x", "y", "Total_energy_density", "z", "full_w"] := by decide +kernel
example : recoverLabels isWordC "m_x m_x m_x" = none := by decide +kernel
/-- an item list that meets the hypotheses of `labels_foreign_styles` -/
example : ∀ it ∈ [Item.stem "m".toList "x".toList, Item.phrase "Total field".toList "y".toList,
    Item.words ["Total".toList, "energy".toList]], it.Ok isWordC := by
  intro it hit
  simp only [List.mem_cons, List.mem_nil_iff, or_false] at hit
  rcases hit with rfl | rfl | rfl
  · exact ⟨by decide, by decide, by decide⟩
  · exact ⟨by decide, by decide, by decide⟩
  · refine ⟨by decide, ?_⟩
    intro w hw
    simp only [List.mem_cons, List.mem_nil_iff, or_false] at hw
    rcases hw with rfl | rfl <;> exact ⟨⟨by decide, by decide⟩, by decide⟩


/-! ## All representations, `extend_scalar` on and off, with and without the side-car file

`RepOk rep w`: `rep` is one of `txt` (w = 0), `bin4` (w = 4), `bin8` (w = 8).  `conv narrow w` is
float32 rounding for w = 4 and the identity otherwise. -/
/-- **Round trip, all cases at once**: every representation (`txt`, `bin4`, `bin8`; `w` the width
of a value, 0 for text), `extend_scalar` on or off (it only acts on one-component fields), with
or without the subregion side-car file.  The file `to_file` writes is read back by `from_file`
to a field with the same region corners, mesh unit and cell counts; `valuedim` components (3 for
an extended scalar field, else `nvdim`); the field unit (including none); the subregions of the
side-car file by name, order and corners (none without it); labels `x, y, z` for an extended
scalar field and the field's own labels for a vector field; and in every cell and component the
value written - unchanged for text and bin8, float32-rounded for bin4, `(v, 0, 0)` for an
extended scalar field. -/
theorem roundtrip_all {α} [DecidableEq α] (c : Codec α) (narrow : α → α) (L : c.Lawful narrow)
    (isWord : Char → Bool) (W : WordClass isWord) (reserved : String → Bool)
    (f : OField α) (V : Valid f) (hl : LabelsOk isWord reserved f) (hu : UnitOk f.unit)
    (hs : ∀ p ∈ f.mesh.subs, ∃ i j, SubOf f.mesh p.2 i j)
    (rep : String) (w : Nat) (hrep : RepOk rep w) (extend withSide : Bool) :
    ∃ F g, toOvf c f rep extend = .ok F ∧
      fromOvf c isWord reserved F (if withSide then some (saveSub f.mesh) else none) = .ok g ∧
      g.mesh.region.pmin = f.mesh.region.pmin ∧ g.mesh.region.pmax = f.mesh.region.pmax ∧
      g.mesh.region.units = f.mesh.region.units ∧ g.mesh.n = f.mesh.n ∧
      g.nvdim = writeDim f extend ∧ g.unit = f.unit ∧
      g.mesh.subs.map (fun p => (p.1, p.2.pmin, p.2.pmax))
        = (if withSide then f.mesh.subs.map (fun p => (p.1, p.2.pmin, p.2.pmax)) else []) ∧
      ((extend && f.nvdim == 1) = true → g.vdims = some ["x", "y", "z"]) ∧
      ((extend && f.nvdim == 1) = false → 1 < f.nvdim → g.vdims = f.vdims) ∧
      ∀ i j k cc, i < f.mesh.nAt 0 → j < f.mesh.nAt 1 → k < f.mesh.nAt 2 → cc < writeDim f extend →
        g.arr.get [i, j, k, cc] = conv narrow w
          (if (extend && f.nvdim == 1) then (if cc = 0 then f.arr.get [i, j, k, 0] else c.zero)
           else f.arr.get [i, j, k, cc]) := by
  have he : (extend && f.nvdim == 1) = true → f.nvdim = 1 := by
    intro h; simp only [Bool.and_eq_true, beq_iff_eq] at h; exact h.2
  rw [← writeDim_eff f extend]
  show ∃ F g, toOvfE c f rep (extend && f.nvdim == 1) = .ok F ∧ _
  generalize (extend && f.nvdim == 1) = e at he ⊢
  obtain ⟨labels, vd', hlab, hset, hv1, hv2⟩ := labels_written_e isWord W reserved f hl V.nv e he
  obtain ⟨F, hF, hp, _⟩ := written_parse c narrow L f V e he rep w hrep labels hlab
  obtain ⟨e1, e2, e3⟩ := valid_lists f V
  have hwd : 0 < writeDim f e := by rw [writeDim_e f e he]; split <;> [omega; exact V.nv]
  have hcount := payloadE_count c f V e he
  have M := mesh3_meshOf f.mesh.region.lo f.mesh.region.hi f.mesh.nAt (f.mesh.region.units.getD 0 "") V.lt V.npos
  -- the side-car file
  obtain ⟨m', hside, hsubs, hn', hreg⟩ : ∃ m', loadSide (meshOf f.mesh.region.lo f.mesh.region.hi f.mesh.nAt
        (f.mesh.region.units.getD 0 "")) (if withSide then some (saveSub f.mesh) else none) = .ok m' ∧
      m'.subs.map (fun p => (p.1, p.2.pmin, p.2.pmax))
        = (if withSide then f.mesh.subs.map (fun p => (p.1, p.2.pmin, p.2.pmax)) else []) ∧
      m'.n = [f.mesh.nAt 0, f.mesh.nAt 1, f.mesh.nAt 2] ∧
      m'.region = regOf f.mesh.region.lo f.mesh.region.hi (f.mesh.region.units.getD 0 "") := by
    cases withSide with
    | false => exact ⟨_, rfl, rfl, rfl, rfl⟩
    | true =>
      have hsub := subregions_sidecar f.mesh _ M
        (fun p hp => by
          obtain ⟨i, j, S⟩ := hs p hp
          exact ⟨i, j, subOf_meshOf f _ p.2 i j S⟩)
      refine ⟨_, hsub, ?_, rfl, rfl⟩
      simp [List.map_map, Function.comp_def, retag]
  have hg := fromOvf_of_parse_side c isWord reserved F _ _ m' f.mesh.nAt rfl (writeDim f e) hwd _ _ hp
    hside (by rw [List.length_map]; exact hcount) vd' (by rw [labelsOf_written]; exact hset)
  refine ⟨F, _, hF, hg, ?_, ?_, ?_, ?_, rfl, ?_, hsubs, hv1, hv2, ?_⟩
  · show m'.region.pmin = _; rw [hreg]; exact e1
  · show m'.region.pmax = _; rw [hreg]; exact e2
  · show m'.region.units = _; rw [hreg]; exact V.units.symm
  · show m'.n = _; rw [hn']; exact e3
  · show unitOf (writtenHeader f e labels) = f.unit
    rw [unitOf_written]
    exact unit_roundtrip' f e hu hwd
  · intro i j k cc hi hj hk hcc
    show ((NDA.ofList ([f.mesh.nAt 0, f.mesh.nAt 1, f.mesh.nAt 2].reverse ++ [writeDim f e])
      ((payloadE c f e).map (conv narrow w)) c.zero).transpose [2, 1, 0, 3]).get [i, j, k, cc] = _
    rw [transpose_get4 _ (by simp [NDA.ofList, NDA.ofArray]), ofList_get]
    have hpos : flatC ([f.mesh.nAt 0, f.mesh.nAt 1, f.mesh.nAt 2].reverse ++ [writeDim f e]) [k, j, i, cc]
        = pos (f.mesh.nAt 0) (f.mesh.nAt 1) (writeDim f e) i j k cc := by
      rw [pos_eq_flatC _ _ (f.mesh.nAt 2)]; rfl
    rw [hpos]
    have hlt : pos (f.mesh.nAt 0) (f.mesh.nAt 1) (writeDim f e) i j k cc < (payloadE c f e).length := by
      rw [hcount]
      have := pos_lt _ _ _ _ _ _ _ _ hi hj hk hcc
      simp only [natProd] at this ⊢
      calc _ < _ := this
        _ = _ := by ring
    rw [getD_map_lt _ _ _ _ c.zero hlt, payloadE_getD c f V e he i j k cc hi hj hk hcc]

/-- **The written file under an independent reader, all cases at once**: for every
representation and both settings of `extend_scalar`, the written file is an OVF 2.0 file that
an independent reader (mesh from the `base / stepsize / nodes` lines alone, little-endian values or
text rows in x-fastest order, components innermost) decodes to the field's cell counts, cell
sizes, region (lower face = base - step/2, upper face = lower + nodes·step), mesh unit,
`valuedim` components and exactly `prod(n)·valuedim` values, the value of cell `(i, j, k)`,
component `cc` at position `((k·ny + j)·nx + i)·valuedim + cc`. -/
theorem independent_reader_all {α} [DecidableEq α] (c : Codec α) (narrow : α → α) (L : c.Lawful narrow)
    (isWord : Char → Bool) (W : WordClass isWord) (reserved : String → Bool)
    (f : OField α) (V : Valid f) (hl : LabelsOk isWord reserved f)
    (rep : String) (w : Nat) (hrep : RepOk rep w) (extend : Bool) :
    ∃ F x, toOvf c f rep extend = .ok F ∧ isV2 F.first = true ∧ refReader c F = .ok x ∧
      x.nodes = f.mesh.n ∧ x.vd = writeDim f extend ∧ x.meshunit = f.mesh.region.units.getD 0 "" ∧
      (∀ a, a < 3 → x.step.getD a 0 = f.mesh.cellAt a ∧ x.lo a = f.mesh.region.lo a ∧ x.hi a = f.mesh.region.hi a) ∧
      x.values.length = natProd f.mesh.n * writeDim f extend ∧
      ∀ i j k cc, i < f.mesh.nAt 0 → j < f.mesh.nAt 1 → k < f.mesh.nAt 2 → cc < writeDim f extend →
        x.values.getD (pos (f.mesh.nAt 0) (f.mesh.nAt 1) (writeDim f extend) i j k cc) c.zero
          = conv narrow w
              (if (extend && f.nvdim == 1) then (if cc = 0 then f.arr.get [i, j, k, 0] else c.zero)
               else f.arr.get [i, j, k, cc]) := by
  have he : (extend && f.nvdim == 1) = true → f.nvdim = 1 := by
    intro h; simp only [Bool.and_eq_true, beq_iff_eq] at h; exact h.2
  rw [← writeDim_eff f extend]
  show ∃ F x, toOvfE c f rep (extend && f.nvdim == 1) = .ok F ∧ _
  generalize (extend && f.nvdim == 1) = e at he ⊢
  obtain ⟨labels, _, hlab, _, _, _⟩ := labels_written_e isWord W reserved f hl V.nv e he
  obtain ⟨F, hF, _, hr⟩ := written_parse c narrow L f V e he rep w hrep labels hlab
  obtain ⟨_, _, _, _, hfirst, _, _⟩ := toOvfE_shape c f rep e F hF
  obtain ⟨e1, e2, e3⟩ := valid_lists f V
  have hcount := payloadE_count c f V e he
  refine ⟨F, _, hF, by rw [hfirst]; decide +kernel, hr, e3, rfl, rfl, ?_, ?_, ?_⟩
  · intro a ha
    have hm := header_meshes_agree f V a ha
    match a, ha with
    | 0, _ => exact ⟨rfl, hm.1, hm.2.1⟩
    | 1, _ => exact ⟨rfl, hm.1, hm.2.1⟩
    | 2, _ => exact ⟨rfl, hm.1, hm.2.1⟩
  · show ((payloadE c f e).map (conv narrow w)).length = _
    rw [List.length_map, hcount, ← e3]
  · intro i j k cc hi hj hk hcc
    have hlt : pos (f.mesh.nAt 0) (f.mesh.nAt 1) (writeDim f e) i j k cc < (payloadE c f e).length := by
      rw [hcount]
      have := pos_lt _ _ _ _ _ _ _ _ hi hj hk hcc
      simp only [natProd] at this ⊢
      calc _ < _ := this
        _ = _ := by ring
    show ((payloadE c f e).map (conv narrow w)).getD _ c.zero = _
    rw [getD_map_lt _ _ _ _ c.zero hlt, payloadE_getD c f V e he i j k cc hi hj hk hcc]


/-- **Round trip on bytes, all binary cases**: the statement of `roundtrip_all` for the bytes of
the file (bin4 / bin8, `extend_scalar` on or off, with or without the side-car file), read by
the byte-level reader. -/
theorem roundtrip_all_bytes {α} [DecidableEq α] (N : NumIO) (LN : N.Lawful)
    (tb : List Byte → List (List α) × List String) (c : Codec α) (narrow : α → α) (L : c.Lawful narrow)
    (isWord : Char → Bool) (W : WordClass isWord) (reserved : String → Bool)
    (f : OField α) (V : Valid f) (hl : LabelsOk isWord reserved f) (hu : UnitOk f.unit)
    (hs : ∀ p ∈ f.mesh.subs, ∃ i j, SubOf f.mesh p.2 i j)
    (rep : String) (w : Nat) (hrep : (rep = "bin4" ∧ w = 4) ∨ (rep = "bin8" ∧ w = 8)) (extend withSide : Bool)
    (T : WrittenTextOk f (extend && f.nvdim == 1)) :
    ∃ B g, toOvfBytes N c f rep extend = .ok B ∧
      fromOvfBytes N tb c isWord reserved B (if withSide then some (saveSub f.mesh) else none) = .ok g ∧
      g.mesh.region.pmin = f.mesh.region.pmin ∧ g.mesh.region.pmax = f.mesh.region.pmax ∧
      g.mesh.region.units = f.mesh.region.units ∧ g.mesh.n = f.mesh.n ∧
      g.nvdim = writeDim f extend ∧ g.unit = f.unit ∧
      g.mesh.subs.map (fun p => (p.1, p.2.pmin, p.2.pmax))
        = (if withSide then f.mesh.subs.map (fun p => (p.1, p.2.pmin, p.2.pmax)) else []) ∧
      ((extend && f.nvdim == 1) = true → g.vdims = some ["x", "y", "z"]) ∧
      ((extend && f.nvdim == 1) = false → 1 < f.nvdim → g.vdims = f.vdims) ∧
      ∀ i j k cc, i < f.mesh.nAt 0 → j < f.mesh.nAt 1 → k < f.mesh.nAt 2 → cc < writeDim f extend →
        g.arr.get [i, j, k, cc] = conv narrow w
          (if (extend && f.nvdim == 1) then (if cc = 0 then f.arr.get [i, j, k, 0] else c.zero)
           else f.arr.get [i, j, k, cc]) := by
  obtain ⟨F, g, hF, hg, rest⟩ := roundtrip_all c narrow L isWord W reserved f V hl hu hs rep w
    (Or.inr hrep) extend withSide
  obtain ⟨_, _, _, _, _, _, hbody⟩ := toOvfE_shape c f rep _ F hF
  have hne : rep ≠ "txt" := by rcases hrep with ⟨rfl, _⟩ | ⟨rfl, _⟩ <;> decide
  rcases hbody with ⟨b, hb, _⟩ | ⟨_, _, _, ht⟩
  · refine ⟨fileBytes N F, g, ?_, ?_, rest⟩
    · unfold toOvfBytes; rw [hF]
    · rw [written_bytes_read N LN tb c isWord reserved f rep extend F hF T b hb _, hg]
  · exact absurd ht hne

/-- the all-cases theorems apply: text representation, `extend_scalar=True` (ignored for the
three-component example field), with the side-car file -/
example : ∃ F g, toOvf toyCodec exFieldS "txt" true = .ok F ∧
    fromOvf toyCodec isWordC (fun s => s == "norm") F (some (saveSub exFieldS.mesh)) = .ok g ∧
    g.arr.get [1, 0, 2, 1] = 121 ∧ g.vdims = some ["a_b", "c", "d"] := by
  obtain ⟨F, g, h1, h2, _, _, _, _, _, _, _, _, hv, hd⟩ :=
    roundtrip_all toyCodec id toyCodec_lawful isWordC isWordC_class (fun s => s == "norm") exFieldS
      exFieldS_valid exFieldS_labels exField_unit
      (by
        intro p hp
        have : p = ("top_half", exSub) := by simpa [exFieldS] using hp
        subst this
        exact ⟨_, _, exSub_of⟩)
      "txt" 0 (Or.inl ⟨rfl, rfl⟩) true true
  refine ⟨F, g, h1, h2, ?_, hv (by decide) (by decide)⟩
  have := hd 1 0 2 1 (by decide) (by decide) (by decide) (by decide)
  rw [this]; rfl


/-! ## Foreign writers: text files, header order -/
/-- **Foreign text files**: files of an independent OVF 1.0 (three components, no `valuedim`) or
OVF 2.0 writer in text form are read to that writer's content - mesh from `min / max / stepsize`,
every value in its own cell and component (x fastest in the file), unchanged. -/
theorem reader_v1_v2_txt {α} [DecidableEq α] (c : Codec α)
    (isWord : Char → Bool) (reserved : String → Bool) (v2 : Bool)
    (x : Content α) (hstep : ∀ a, a < 3 → 0 < x.step.getD a 0) (hn : ∀ a, a < 3 → 0 < x.nodes.getD a 0)
    (hvd : 0 < x.vd) (hv1 : v2 = false → x.vd = 3)
    (hcount : x.values.length = natProd [x.nodes.getD 0 0, x.nodes.getD 1 0, x.nodes.getD 2 0] * x.vd) :
    ∃ g, fromOvf c isWord reserved (refWriter c v2 0 x) none = .ok g ∧
      g.mesh.n = [x.nodes.getD 0 0, x.nodes.getD 1 0, x.nodes.getD 2 0] ∧
      g.mesh.region.pmin = [x.lo 0, x.lo 1, x.lo 2] ∧ g.mesh.region.pmax = [x.hi 0, x.hi 1, x.hi 2] ∧
      g.mesh.region.units = [x.meshunit, x.meshunit, x.meshunit] ∧ g.nvdim = x.vd ∧
      g.vdims = Fld.defaultVdims x.vd ∧ g.unit = none ∧
      ∀ i j k cc, i < x.nodes.getD 0 0 → j < x.nodes.getD 1 0 → k < x.nodes.getD 2 0 → cc < x.vd →
        g.arr.get [i, j, k, cc]
          = x.values.getD (pos (x.nodes.getD 0 0) (x.nodes.getD 1 0) x.vd i j k cc) c.zero := by
  have hlt : ∀ a, a < 3 → x.lo a < x.hi a := by
    intro a ha
    have h1 := hstep a ha
    have h2 : (0 : Rat) < (x.nodes.getD a 0 : Rat) := by exact_mod_cast hn a ha
    unfold Content.lo Content.hi
    have := mul_pos h2 h1
    linarith
  have hc : ∀ a, a < 3 → x.step.getD a 0 = (x.hi a - x.lo a) / ((x.nodes.getD a 0 : Nat) : Rat) := by
    intro a ha
    have h2 : ((x.nodes.getD a 0 : Nat) : Rat) ≠ 0 := by
      have : (0 : Rat) < (x.nodes.getD a 0 : Rat) := by exact_mod_cast hn a ha
      exact ne_of_gt this
    unfold Content.lo Content.hi
    field_simp
    ring
  have hscan := scan_ref c v2 0 x
  rw [if_pos rfl] at hscan
  have hnpos : 0 < natProd [x.nodes.getD 0 0, x.nodes.getD 1 0, x.nodes.getD 2 0] := by
    apply natProd_pos
    intro m hm
    simp only [List.mem_cons, List.mem_nil_iff, or_false] at hm
    rcases hm with rfl | rfl | rfl
    · exact hn 0 (by omega)
    · exact hn 1 (by omega)
    · exact hn 2 (by omega)
  have hdiv : x.values.length / x.vd = natProd [x.nodes.getD 0 0, x.nodes.getD 1 0, x.nodes.getD 2 0] := by
    rw [hcount]; exact Nat.mul_div_cancel _ hvd
  have hbody : (refWriter c v2 0 x).body = .text
      (tab (natProd [x.nodes.getD 0 0, x.nodes.getD 1 0, x.nodes.getD 2 0]) fun r =>
        tab x.vd fun k => x.values.getD (r * x.vd + k) c.zero) ["# End: Data Text", "# End: Segment"] := by
    simp [refWriter, hdiv]
  have hp := parse_txt_ok c (refWriter c v2 0 x) (refHeader v2 x) x.lo x.hi
    (fun a => x.step.getD a 0) (fun a => x.nodes.getD a 0) x.meshunit (headerOf_ref v2 x) hlt hn hc
    ["Text"] (by decide +kernel) rfl hscan x.vd (valueDim_ref c v2 0 x hv1) _ _ hbody x.values
    (readText_rows _ _ _ _ hnpos hvd hcount c.zero)
  have hset : vdimsSetter reserved x.vd (labelsOf isWord (refHeader v2 x)) = .ok (Fld.defaultVdims x.vd) := by
    rw [labelsOf_ref]; rfl
  have hg := fromOvf_of_parse c isWord reserved _ _ _ _ _ x.vd hvd _ _ hp hcount _ hset
  refine ⟨_, hg, rfl, rfl, rfl, rfl, rfl, rfl, unitOf_ref v2 x, ?_⟩
  intro i j k cc hi hj hk hcc
  show ((NDA.ofList ([x.nodes.getD 0 0, x.nodes.getD 1 0, x.nodes.getD 2 0].reverse ++ [x.vd])
    x.values c.zero).transpose [2, 1, 0, 3]).get [i, j, k, cc] = _
  rw [transpose_get4 _ (by simp [NDA.ofList, NDA.ofArray]), ofList_get]
  have hpos : flatC ([x.nodes.getD 0 0, x.nodes.getD 1 0, x.nodes.getD 2 0].reverse ++ [x.vd]) [k, j, i, cc]
      = pos (x.nodes.getD 0 0) (x.nodes.getD 1 0) x.vd i j k cc := by
    rw [pos_eq_flatC _ _ (x.nodes.getD 2 0)]; rfl
  rw [hpos]

/-- **mumax-style text rows**: a text file whose rows (of `valuedim >= 1` entries each) carry one
extra trailing entry (the blank mumax3 writes at the end of each row, one more empty column for the csv
reader) is read to the same field as the file without it. -/
theorem reader_text_trailing_column {α} [DecidableEq α] (c : Codec α) (isWord : Char → Bool)
    (reserved : String → Bool) (F : OvfFile α) (rows : List (List α)) (footer : List String)
    (hb : F.body = .text rows footer) (x : List α → α)
    (hu : ∀ h ws vd, scan F.lines [] = some (h, ws) → valueDim F.first h = .ok vd →
      0 < vd ∧ ∀ r ∈ rows, r.length = vd)
    (side : Option (List (String × Region))) :
    fromOvf c isWord reserved ({ F with body := .text (rows.map fun r => r ++ [x r]) footer } : OvfFile α) side
      = fromOvf c isWord reserved F side :=
  fromOvf_text_congr c isWord reserved F rows _ footer footer hb
    (fun h ws vd nodes hs hv => readText_trailing_column c.nan rows nodes vd x (hu h ws vd hs hv).1 (hu h ws vd hs hv).2) side

/-- **Header lines in any order**: two files that differ only in the order of their header lines
(foreign writers order `xmin`, `xbase`, `xnodes`, `meshunit`, ... differently; blank `#` lines may
move too), each key occurring once, are read to the same result - same field or same rejection. -/
theorem header_order_irrelevant {α} [DecidableEq α] (c : Codec α) (isWord : Char → Bool) (reserved : String → Bool)
    (F F' : OvfFile α) (ls ls' : List HLine) (ws : List String)
    (hl : F.lines = ls ++ [.beginData ws]) (hl' : F'.lines = ls' ++ [.beginData ws])
    (hperm : ls'.Perm ls) (hnd : ((kvs ls).map Prod.fst).Nodup)
    (hnodata : ∀ l ∈ ls, ∀ w, l ≠ .beginData w)
    (hf : F'.first = F.first) (hb : F'.body = F.body) (side : Option (List (String × Region))) :
    fromOvf c isWord reserved F' side = fromOvf c isWord reserved F side := by
  have hnodata' : ∀ l ∈ ls', ∀ w, l ≠ .beginData w := fun l hl => hnodata l (hperm.mem_iff.mp hl)
  have hs := scan_kvs ls ws [] hnodata
  have hs' := scan_kvs ls' ws [] hnodata'
  rw [← hl] at hs
  rw [← hl'] at hs'
  simp only [List.append_nil] at hs hs'
  apply fromOvf_congr_header c isWord reserved F F' _ _ ws hs hs' _ hf hb side
  apply hget_perm
  · exact (List.reverse_perm _).trans ((kvs_perm ls ls' hperm).trans (List.reverse_perm _).symm)
  · exact ((List.reverse_perm (kvs ls)).map Prod.fst).nodup_iff.mpr hnd

/-- A key that occurs twice: the later line wins (the loop overwrites the dictionary entry). -/
theorem later_header_line_wins (ls : List HLine) (ws : List String) (k : String) (v v' : HVal)
    (hnodata : ∀ l ∈ ls, ∀ w, l ≠ .beginData w) :
    ∃ h, scan (.kv k v :: ls ++ [.kv k v', .beginData ws]) [] = some (h, ws) ∧ hget h k = .ok v' := by
  have hnd : ∀ l ∈ HLine.kv k v :: ls ++ [.kv k v'], ∀ w, l ≠ .beginData w := by
    intro l hl w
    simp only [List.cons_append, List.mem_cons, List.mem_append, List.mem_nil_iff, or_false] at hl
    rcases hl with rfl | hl | rfl
    · intro h; cases h
    · exact hnodata l hl w
    · intro h; cases h
  have := scan_kvs (.kv k v :: ls ++ [.kv k v']) ws [] hnd
  simp only [List.cons_append, List.append_assoc, List.append_nil] at this
  refine ⟨_, this, ?_⟩
  have e : kvs (HLine.kv k v :: (ls ++ [HLine.kv k v'])) = (k, v) :: (kvs ls ++ [(k, v')]) := by
    have : ∀ l : List HLine, kvs (l ++ [HLine.kv k v']) = kvs l ++ [(k, v')] := by
      intro l
      induction l with
      | nil => rfl
      | cons x l ih => cases x <;> simp [kvs, ih]
    simp [kvs, this]
  rw [e]
  simp [hget]


/-- `header_order_irrelevant` applies: two lines swapped -/
example : [HLine.kv "xmin" (.num 0), .other, .kv "xmax" (.num 1)].Perm [.kv "xmax" (.num 1), .kv "xmin" (.num 0), .other] ∧
    ((kvs [HLine.kv "xmax" (.num 1), .kv "xmin" (.num 0), .other]).map Prod.fst).Nodup := by
  refine ⟨?_, by decide⟩
  exact (List.Perm.cons _ (List.Perm.swap _ _ _)).trans (List.Perm.swap _ _ _)

/-! ## The driver's IEEE-754 codec: check values and exactness of the check -/
/-- **The check values, byte for byte**: the writer's check value is the IEEE-754 pattern of
1234567.0 (binary32, `38 B4 96 49` little endian) resp. 123456789012345.0 (binary64,
`40 DE 77 83 21 12 DC 42`); OVF 1.0 files carry the same bytes in big-endian order. -/
theorem check_value_bytes :
    ieee.enc true 4 (ieee.magic 4) = [56, 180, 150, 73] ∧
    ieee.enc true 8 (ieee.magic 8) = [64, 222, 119, 131, 33, 18, 220, 66] ∧
    ieee.enc false 4 (ieee.magic 4) = [73, 150, 180, 56] ∧
    ieee.enc false 8 (ieee.magic 8) = [66, 220, 18, 33, 131, 119, 222, 64] := by
  refine ⟨by decide +kernel, by decide +kernel, by decide +kernel, by decide +kernel⟩

/-- **The byte layer of the driver's IEEE codec is lossless** (either endianness, 4 or 8 bytes):
`dec (enc x)` is `x` rounded to the format - for 4 bytes the float32 rounding `narrow32 x` the
round-trip theorems call `narrow`; every value occupies exactly `w` bytes. -/
theorem ieee_byte_layer (le : Bool) (w : Nat) (hw : w = 4 ∨ w = 8) (x : Rat) :
    (ieee.enc le w x).length = w ∧
    ieee.dec le w (ieee.enc le w x) = fromBits (fmtOf w) (toBits (fmtOf w) x) ∧
    ieee.dec le 4 (ieee.enc le 4 x) = narrow32 x :=
  ⟨ieee_enc_len le w x, ieee_dec_enc le w hw x, ieee_dec_enc4 le x⟩

/-- **The check value test is exact**: among all 4-byte (8-byte) strings, in either byte order,
the only one that decodes to the check value is the check value's own encoding - one flipped
low bit is enough to fail the test (a comparison with a tolerance would accept it). -/
theorem check_value_exact (le : Bool) (w : Nat) (hw : w = 4 ∨ w = 8) (bs : List Nat) (hlen : bs.length = w)
    (hbytes : ∀ x ∈ bs, x < 256) (h : ieee.dec le w bs = ieee.magic w) :
    bs = ieee.enc le w (ieee.magic w) := by
  -- the bytes in little-endian order
  have key : ∀ cs : List Nat, cs.length = w → (∀ x ∈ cs, x < 256) →
      fromBits (fmtOf w) (ofLE cs) = ieee.magic w → cs = leBytes w (toBits (fmtOf w) (ieee.magic w)) := by
    intro cs hl hb hv
    have hlt := ofLE_lt cs hb
    rw [hl] at hlt
    have := leBytes_ofLE cs hb
    rw [hl] at this
    rw [← this]
    congr 1
    rcases hw with rfl | rfl
    · have e : toBits (fmtOf 4) (ieee.magic 4) = 0x4996B438 := by decide +kernel
      rw [e]
      exact magic4_unique _ (by simpa using hlt) (by simpa [fmtOf, ieee] using hv)
    · have e : toBits (fmtOf 8) (ieee.magic 8) = 0x42DC12218377DE40 := by decide +kernel
      rw [e]
      exact magic8_unique _ (by simpa using hlt) (by simpa [fmtOf, ieee] using hv)
  cases le with
  | true =>
    simp only [ieee, if_true] at h ⊢
    exact key bs hlen hbytes h
  | false =>
    simp only [ieee, Bool.false_eq_true, if_false] at h ⊢
    have := key bs.reverse (by simpa using hlen) (fun x hx => hbytes x (by simpa using hx)) h
    have e : (if w = 4 then (1234567 : Rat) else 123456789012345) = ieee.magic w := rfl
    rw [e, ← this, List.reverse_reverse]

/-- a corrupted low byte: not the check value -/
example : ieee.dec true 8 [65, 222, 119, 131, 33, 18, 220, 66] ≠ ieee.magic 8 := by
  intro h
  have := check_value_exact true 8 (Or.inr rfl) _ rfl (by decide) h
  revert this; decide +kernel


/-- **A wrong check value is rejected, down to the last bit** (the driver's IEEE codec): a binary
file whose first `w` data bytes are not exactly the bytes of the check value of its width and
byte order - whatever they are, however close the number they encode - is never read into a
field. -/
theorem corrupt_check_value_rejected (isWord : Char → Bool) (reserved : String → Bool) (F : OvfFile Rat)
    (side : Option (List (String × Region))) (bytes : List Nat) (hbody : F.body = .bin bytes)
    (hbytes : ∀ x ∈ bytes, x < 256)
    (hchk : ∀ h ws w, scan F.lines [] = some (h, ws) → dataWidth ws = some w →
      bytes.take w ≠ ieee.enc (isV2 F.first) w (ieee.magic w)) :
    ∃ e, fromOvf ieee isWord reserved F side = .error e := by
  cases hres : fromOvf ieee isWord reserved F side with
  | error e => exact ⟨e, rfl⟩
  | ok g =>
    exfalso
    obtain ⟨p, mesh, arr, hp, hm, ha⟩ := fromOvf_ok_inv ieee isWord reserved F side g hres
    obtain ⟨ws, nodes, hscan, hvd, hmesh, hflat⟩ := parse_ok_inv ieee F p hp
    unfold readBody at hflat
    rw [hbody] at hflat
    simp only at hflat
    split at hflat
    · cases hw : dataWidth ws with
      | none =>
        unfold parse at hp
        rw [hscan] at hp
        simp only at hp
        rename_i hb
        rw [hb, hw] at hp
        split at hp
        · cases hp
        · simp at hp
      | some w =>
        rw [hw] at hflat
        simp only [Option.getD_some] at hflat
        obtain ⟨hle, hw48, hmag, _⟩ := readBin_ok_inv ieee _ w bytes _ _ _ hflat
        apply hchk p.header ws w hscan hw
        exact check_value_exact (isV2 F.first) w hw48 (bytes.take w)
          (by rw [List.length_take]; omega) (fun x hx => hbytes x (List.mem_of_mem_take hx)) hmag
    · cases hflat


/-- **bin8 is bit-identical on the IEEE codec**: for every non-NaN binary64 bit pattern `b` (normal,
subnormal, ±0, ±∞ as their stand-ins), encoding its value in 8 bytes in either byte order and
decoding gives the same value - the model's rounding (`ilog2`, round-half-even, saturation) leaves
every value of the format alone. -/
theorem ieee_bin8_identity (le : Bool) (b : Nat) (hb : NotNaN f64 b) :
    ieee.dec le 8 (ieee.enc le 8 (fromBits f64 b)) = fromBits f64 b := by
  rw [ieee_dec_enc le 8 (Or.inr rfl)]
  exact round_fixed f64 (by decide) b hb

/-- **bin4 is float32 rounding, and float32 rounding is idempotent**: a value that went through a
bin4 file once is not changed by going through another one. -/
theorem ieee_bin4_rounding (le : Bool) (x : Rat) :
    ieee.dec le 4 (ieee.enc le 4 x) = narrow32 x ∧ narrow32 (narrow32 x) = narrow32 x :=
  ⟨ieee_dec_enc4 le x, narrow32_idem x⟩

/-- **The codec hypothesis discharged**: the driver's IEEE-754 codec, on the rationals that are
binary64 values (`V64`; a decoded NaN, which is no value, is mapped to 0), satisfies `Codec.Lawful`
with `narrowV` = float32 rounding.  So every theorem above that assumes a lawful codec holds for
it - on all fields of binary64 values, bin8 values come back as the same numbers. -/
theorem ieee_lawful_on_binary64 : ieeeV.Lawful narrowV := ieeeV_lawful

/-- ... for instance the all-cases round trip: with the IEEE codec, for every field of binary64
values, text and bin8 return every value unchanged and bin4 its float32 rounding. -/
theorem roundtrip_all_ieee (isWord : Char → Bool) (W : WordClass isWord) (reserved : String → Bool)
    (f : OField V64) (V : Valid f) (hl : LabelsOk isWord reserved f) (hu : UnitOk f.unit)
    (hs : ∀ p ∈ f.mesh.subs, ∃ i j, SubOf f.mesh p.2 i j)
    (rep : String) (w : Nat) (hrep : RepOk rep w) (withSide : Bool) :
    ∃ F g, toOvf ieeeV f rep false = .ok F ∧
      fromOvf ieeeV isWord reserved F (if withSide then some (saveSub f.mesh) else none) = .ok g ∧
      g.mesh.n = f.mesh.n ∧ g.nvdim = f.nvdim ∧ g.unit = f.unit ∧
      ∀ i j k cc, i < f.mesh.nAt 0 → j < f.mesh.nAt 1 → k < f.mesh.nAt 2 → cc < f.nvdim →
        g.arr.get [i, j, k, cc] = (if w = 4 then narrowV (f.arr.get [i, j, k, cc]) else f.arr.get [i, j, k, cc]) := by
  obtain ⟨F, g, h1, h2, _, _, _, hn, hnv, hun, _, _, _, hd⟩ :=
    roundtrip_all ieeeV narrowV ieeeV_lawful isWord W reserved f V hl hu hs rep w hrep false withSide
  have hwd : writeDim f false = f.nvdim := by simp [writeDim]
  refine ⟨F, g, h1, h2, hn, by rw [hnv, hwd], hun, ?_⟩
  intro i j k cc hi hj hk hcc
  have := hd i j k cc hi hj hk (by rw [hwd]; exact hcc)
  simpa [conv] using this


/-- `roundtrip_all_ieee` applies: a field of binary64 values on the example mesh -/
example : ∃ f : OField V64, Valid f ∧ LabelsOk isWordC (fun s => s == "norm") f ∧ UnitOk f.unit :=
  ⟨{ mesh := exField.mesh, nvdim := 3, arr := ⟨[2, 1, 3, 3], fun _ => ieeeV.zero⟩, vdims := exField.vdims,
     unit := exField.unit },
   { pmin3 := exField_valid.pmin3, pmax3 := exField_valid.pmax3, n3 := exField_valid.n3, lt := exField_valid.lt,
     npos := exField_valid.npos, units := exField_valid.units, nv := exField_valid.nv, shape := rfl },
   exField_labels, exField_unit⟩

/-- non-NaN patterns exist: 1.0 = 0x3FF0000000000000 -/
example : NotNaN f64 0x3FF0000000000000 := by unfold NotNaN; decide


/-! ## Dispatch by extension; what the writer refuses -/
/-- **Extension dispatch**: `to_file` writes OVF for exactly `.omf`, `.ovf`, `.ohf`; `from_file`
reads OVF for these and `.oef`; so every file `to_file` writes as OVF is dispatched to the OVF
reader by its name. -/
theorem dispatch_ovf (suffix : String) :
    (writeKind suffix = .ok "ovf" ↔ suffix = ".omf" ∨ suffix = ".ovf" ∨ suffix = ".ohf") ∧
    (readKind suffix = .ok "ovf" ↔ suffix = ".omf" ∨ suffix = ".ovf" ∨ suffix = ".ohf" ∨ suffix = ".oef") ∧
    (writeKind suffix = .ok "ovf" → readKind suffix = .ok "ovf") := by
  have hw : writeKind suffix = .ok "ovf" ↔ suffix = ".omf" ∨ suffix = ".ovf" ∨ suffix = ".ohf" := by
    unfold writeKind
    constructor
    · intro h
      split at h
      · assumption
      · split at h
        · injection h with h; exact absurd h (by decide)
        · split at h
          · injection h with h; exact absurd h (by decide)
          · cases h
    · intro h; rw [if_pos h]
  have hr : readKind suffix = .ok "ovf" ↔ suffix = ".omf" ∨ suffix = ".ovf" ∨ suffix = ".ohf" ∨ suffix = ".oef" := by
    unfold readKind
    constructor
    · intro h
      split at h
      · assumption
      · split at h
        · injection h with h; exact absurd h (by decide)
        · split at h
          · injection h with h; exact absurd h (by decide)
          · cases h
    · intro h; rw [if_pos h]
  refine ⟨hw, hr, fun h => hr.mpr ?_⟩
  rcases hw.mp h with h | h | h
  · exact Or.inl h
  · exact Or.inr (Or.inl h)
  · exact Or.inr (Or.inr (Or.inl h))

/-- **What the writer refuses**: a field that is not three-dimensional, a representation other
than `txt` / `bin4` / `bin8`, different units on different axes, or a vector field without
labels - no file content is produced, whatever the other arguments. -/
theorem writer_rejects {α} (c : Codec α) (f : OField α) (rep : String) (extend : Bool) :
    (f.mesh.region.ndim ≠ 3 → toOvf c f rep extend = .error .runtime) ∧
    (rep ≠ "txt" → rep ≠ "bin4" → rep ≠ "bin8" → ∃ e, toOvf c f rep extend = .error e) ∧
    (allSame f.mesh.region.units = false → ∃ e, toOvf c f rep extend = .error e) ∧
    (1 < f.nvdim → f.vdims = none → ∃ e, toOvf c f rep extend = .error e) := by
  refine ⟨?_, ?_, ?_, ?_⟩
  · intro h; unfold toOvf toOvfE; rw [if_pos h]
  · intro h1 h2 h3
    unfold toOvf toOvfE
    split
    · exact ⟨_, rfl⟩
    · split
      · exact ⟨_, rfl⟩
      · have : repWords rep = .error .value := by
          unfold repWords
          split
          · exact absurd rfl h2
          · exact absurd rfl h3
          · exact absurd rfl h1
          · rfl
        rw [this]; exact ⟨_, rfl⟩
  · intro hu
    unfold toOvf toOvfE
    split
    · exact ⟨_, rfl⟩
    · split
      · exact ⟨_, rfl⟩
      · split
        · exact ⟨_, rfl⟩
        · rw [hu]; exact ⟨_, rfl⟩
  · intro hnv hv
    unfold toOvf toOvfE
    split
    · exact ⟨_, rfl⟩
    · have hne : (f.nvdim == 1) = false := by simpa using (by omega : f.nvdim ≠ 1)
      have : valueLabels f (extend && f.nvdim == 1) = .error .type := by
        rw [hne, Bool.and_false]
        unfold valueLabels
        have : writeDim f false = f.nvdim := by simp [writeDim]
        rw [this, if_neg (by omega)]
        simp [hv]
      rw [this]; exact ⟨_, rfl⟩


/-- a field the writer refuses exists for each clause (e.g. a two-dimensional region) -/
example : (⟨[0, 0], [1, 1], ["x", "y"], ["m", "m"], 1⟩ : Region).ndim ≠ 3 := by decide


/-! ## More non-vacuity -/

/-- `written_text_ok` applies to the example field (unit `A/m`, mesh unit `nm`, labels `a_b, c, d`) -/
example : WrittenTextOk exField true :=
  written_text_ok isWordC isWordC_class (by decide) (fun s => s == "norm") exField true
    (textOk_of_B _ (by decide)) exField_labels ⟨⟨by decide, by decide⟩, by decide, by decide⟩

/-- `roundtrip_all_bytes` applies: bin8, `extend_scalar=True` (ignored for three components) -/
example : ∃ B g, toOvfBytes toyNum toyCodec exField "bin8" true = .ok B ∧
    fromOvfBytes toyNum toyText toyCodec isWordC (fun s => s == "norm") B none = .ok g ∧ g.arr.get [1, 0, 2, 1] = 121 := by
  obtain ⟨B, g, h1, h2, _, _, _, _, _, _, _, _, _, hd⟩ :=
    roundtrip_all_bytes toyNum toyNum_lawful toyText toyCodec id toyCodec_lawful isWordC isWordC_class
      (fun s => s == "norm") exField exField_valid exField_labels exField_unit (by intro p hp; cases hp)
      "bin8" 8 (Or.inr ⟨rfl, rfl⟩) true false
      (written_text_ok isWordC isWordC_class (by decide) (fun s => s == "norm") exField _
        (textOk_of_B _ (by decide)) exField_labels ⟨⟨by decide, by decide⟩, by decide, by decide⟩)
  refine ⟨B, g, h1, h2, ?_⟩
  have := hd 1 0 2 1 (by decide) (by decide) (by decide) (by decide)
  rw [this]; rfl

/-- `reader_v1_v2_txt` applies: a 1 x 2 x 1 OVF 1.0 text content -/
example : ∃ g, fromOvf toyCodec isWordC (fun _ => false)
    (refWriter toyCodec false 0 { base := [1/2, 1/4, 1], step := [1, 1/2, 2], nodes := [1, 2, 1], vd := 3,
                                   meshunit := "m", values := [1, 2, 3, 4, 5, 6] }) none = .ok g ∧
    g.arr.get [0, 1, 0, 2] = 6 := by
  obtain ⟨g, h, _, _, _, _, _, _, _, hd⟩ := reader_v1_v2_txt toyCodec isWordC (fun _ => false) false
    { base := [1/2, 1/4, 1], step := [1, 1/2, 2], nodes := [1, 2, 1], vd := 3, meshunit := "m",
      values := [1, 2, 3, 4, 5, 6] }
    (by intro a ha; match a, ha with | 0, _ => decide +kernel | 1, _ => decide +kernel | 2, _ => decide +kernel)
    (by intro a ha; match a, ha with | 0, _ => decide | 1, _ => decide | 2, _ => decide)
    (by decide) (fun _ => rfl) (by decide)
  refine ⟨g, h, ?_⟩
  have := hd 0 1 0 2 (by decide) (by decide) (by decide) (by decide)
  rw [this]; rfl



/-! # Second extension round

## Round trips of units and labels as equivalences; what the writer accepts -/

/-- **The field unit round-trips exactly when the header grammar can carry it** (`valueunits` is a
white-space separated line, `None` encodes "no unit"): for every field and every number of written
components, the unit recovered from the written `valueunits` value is the field's unit **iff** the
field has no unit, or its unit is non-empty, free of white space and not the literal `None`.  Both
directions; the three classes of D25 are exactly the complement. -/
theorem unit_roundtrip_iff {α} (f : OField α) (extend : Bool) (hd : 0 < writeDim f extend) :
    recoverUnit (valueUnits f extend) = f.unit ↔ UnitOk f.unit :=
  ⟨unitOk_of_roundtrip f extend hd, fun hu => unit_roundtrip' f extend hu hd⟩

/-- **Component labels round-trip exactly when they are made of word characters and distinct**: for
every list of non-empty labels, the labels recovered from the written `valuelabels: field_<c> ...`
value (regex `\w+|{[\w ]+}`, `convert`) are the labels written **iff** every character of every label
is a word character (`\w`: letters, digits, `_`) and no label occurs twice. -/
theorem labels_roundtrip_iff (isWord : Char → Bool) (W : WordClass isWord) (vs : List String)
    (hne : ∀ v ∈ vs, v.toList ≠ []) :
    recoverLabels isWord (String.ofList (joinSp (vs.map fun c => "field_".toList ++ c.toList))) = some vs
      ↔ (∀ v ∈ vs, ∀ c ∈ v.toList, isWord c = true) ∧ hasDup vs = false := by
  constructor
  · intro h
    exact recoverLabels_wordchars isWord (W.field '_' (by decide)) _ vs h
  · intro ⟨hw, hd⟩
    exact recoverLabels_written isWord W vs (fun v hv => ⟨hne v hv, hw v hv⟩) hd

/-- **Labels that do not round-trip** (negative theorem; the harness records them as observations):
a label containing any character that is not a word character - `-`, `.`, `,`, `+`, a brace, a blank -
is never recovered, whatever the other labels are: the labels the reader gets (if any) are not the
labels of the field.  (The regex only ever yields word characters, braces and blanks, and `convert`
drops the braces and turns blanks into `_`.) -/
theorem label_nonword_not_roundtrip (isWord : Char → Bool) (W : WordClass isWord) (vs : List String)
    (v : String) (hv : v ∈ vs) (c : Char) (hc : c ∈ v.toList) (hnw : isWord c = false) (text : String) :
    recoverLabels isWord text ≠ some vs := by
  intro h
  have := (recoverLabels_wordchars isWord (W.field '_' (by decide)) text vs h).1 v hv c hc
  rw [hnw] at this; cases this

/-- such labels exist: `a-b` has the non-word character `-` -/
example : isWordC '-' = false ∧ '-' ∈ "a-b".toList := by decide

/-- **What the writer accepts, as an equivalence**: `_to_ovf` produces a file **iff** the mesh is
three-dimensional, the representation is one of `txt`, `bin4`, `bin8`, all axes carry the same unit,
a field with several components has labels, and - for `extend_scalar=True` on a one-component field in a
binary representation - the array has one value per cell.  (`writer_rejects` is the "only if" half
clause by clause.) -/
theorem writer_accepts_iff {α} (c : Codec α) (f : OField α) (rep : String) (extend : Bool) :
    (∃ F, toOvf c f rep extend = .ok F) ↔
      f.mesh.region.ndim = 3 ∧ (rep = "txt" ∨ rep = "bin4" ∨ rep = "bin8") ∧
      allSame f.mesh.region.units = true ∧ (f.nvdim = 1 ∨ f.vdims ≠ none) ∧
      (extend = true → f.nvdim = 1 → rep ≠ "txt" → natProd f.arr.shape = natProd f.mesh.n) := by
  suffices H : ∀ R : Prop, R = (f.mesh.region.ndim = 3 ∧ (rep = "txt" ∨ rep = "bin4" ∨ rep = "bin8") ∧
      allSame f.mesh.region.units = true ∧ (f.nvdim = 1 ∨ f.vdims ≠ none) ∧
      (extend = true → f.nvdim = 1 → rep ≠ "txt" → natProd f.arr.shape = natProd f.mesh.n)) →
      ((∃ F, toOvf c f rep extend = .ok F) ↔ R) from H _ rfl
  intro R hR
  unfold toOvf toOvfE
  by_cases hnd : f.mesh.region.ndim = 3
  swap
  · rw [if_pos hnd, hR]
    constructor
    · rintro ⟨F, h⟩; cases h
    · intro h; exact absurd h.1 hnd
  rw [if_neg (by simpa using hnd)]
  -- labels
  have hlab : (∃ l, valueLabels f (extend && f.nvdim == 1) = .ok l) ↔ (f.nvdim = 1 ∨ f.vdims ≠ none) := by
    unfold valueLabels writeDim
    by_cases h1 : f.nvdim = 1
    · cases extend <;> simp [h1]
    · have : (f.nvdim == 1) = false := by simpa using h1
      simp only [this, Bool.and_false, Bool.false_eq_true, if_false, h1, false_or]
      cases f.vdims <;> simp
  cases hl : valueLabels f (extend && f.nvdim == 1) with
  | error e =>
    simp only
    rw [hR]
    constructor
    · rintro ⟨F, h⟩; cases h
    · intro h
      obtain ⟨l, hl'⟩ := hlab.mpr h.2.2.2.1
      rw [hl] at hl'; cases hl'
  | ok labels =>
    have hlab' : f.nvdim = 1 ∨ f.vdims ≠ none := hlab.mp ⟨labels, hl⟩
    simp only
    by_cases hrep : rep = "txt" ∨ rep = "bin4" ∨ rep = "bin8"
    swap
    · have : repWords rep = .error .value := by
        unfold repWords
        split
        · exact absurd (Or.inr (Or.inl rfl)) hrep
        · exact absurd (Or.inr (Or.inr rfl)) hrep
        · exact absurd (Or.inl rfl) hrep
        · rfl
      rw [this, hR]
      constructor
      · rintro ⟨F, h⟩; cases h
      · intro h; exact absurd h.2.1 hrep
    by_cases hu : allSame f.mesh.region.units = true
    swap
    · have hu' : allSame f.mesh.region.units = false := by simpa using hu
      rcases hrep with rfl | rfl | rfl <;>
      · simp only [repWords, hu', Bool.not_false, if_true]
        rw [hR]
        constructor
        · rintro ⟨F, h⟩; cases h
        · intro h; exact absurd h.2.2.1 hu
    rcases hrep with rfl | rfl | rfl
    · simp only [repWords, hu, Bool.not_true, Bool.false_eq_true, if_false, repWidth]
      rw [hR]
      exact ⟨fun _ => ⟨hnd, Or.inl rfl, hu, hlab', fun _ _ h => absurd rfl h⟩, fun _ => ⟨_, rfl⟩⟩
    · simp only [repWords, hu, Bool.not_true, Bool.false_eq_true, if_false, repWidth]
      rw [if_neg (by decide)]
      unfold binValues
      by_cases he : (extend && f.nvdim == 1) = true
      · simp only [he, if_true]
        have he' : extend = true ∧ f.nvdim = 1 := by simpa using he
        by_cases hs : natProd f.arr.shape = natProd f.mesh.n
        · rw [if_neg (by simpa using hs), hR]
          exact ⟨fun _ => ⟨hnd, Or.inr (Or.inl rfl), hu, hlab', fun _ _ _ => hs⟩, fun _ => ⟨_, rfl⟩⟩
        · rw [if_pos hs, hR]
          constructor
          · rintro ⟨F, h⟩; cases h
          · intro h; exact absurd (h.2.2.2.2 he'.1 he'.2 (by decide)) hs
      · have he0 : (extend && f.nvdim == 1) = false := by simpa using he
        simp only [he0, Bool.false_eq_true, if_false]
        rw [hR]
        refine ⟨fun _ => ⟨hnd, Or.inr (Or.inl rfl), hu, hlab', fun h1 h2 _ => ?_⟩, fun _ => ⟨_, rfl⟩⟩
        exfalso; apply he; simp [h1, h2]
    · simp only [repWords, hu, Bool.not_true, Bool.false_eq_true, if_false, repWidth]
      rw [if_neg (by decide)]
      unfold binValues
      by_cases he : (extend && f.nvdim == 1) = true
      · simp only [he, if_true]
        have he' : extend = true ∧ f.nvdim = 1 := by simpa using he
        by_cases hs : natProd f.arr.shape = natProd f.mesh.n
        · rw [if_neg (by simpa using hs), hR]
          exact ⟨fun _ => ⟨hnd, Or.inr (Or.inr rfl), hu, hlab', fun _ _ _ => hs⟩, fun _ => ⟨_, rfl⟩⟩
        · rw [if_pos hs, hR]
          constructor
          · rintro ⟨F, h⟩; cases h
          · intro h; exact absurd (h.2.2.2.2 he'.1 he'.2 (by decide)) hs
      · have he0 : (extend && f.nvdim == 1) = false := by simpa using he
        simp only [he0, Bool.false_eq_true, if_false]
        rw [hR]
        refine ⟨fun _ => ⟨hnd, Or.inr (Or.inr rfl), hu, hlab', fun h1 h2 _ => ?_⟩, fun _ => ⟨_, rfl⟩⟩
        exfalso; apply he; simp [h1, h2]


/-! ## OVF 1.0 against OVF 2.0 -/


/-- **`valuedim` by version**: an OVF 2.0 file (first line contains `2.0`) has as many components as
its `valuedim` line says, and is refused without one; every other file (OVF 1.0) has three, whatever
its header says about `valuedim`. -/
theorem valuedim_by_version (first : String) (h : List (String × HVal)) :
    (isV2 first = true → ∀ vd, (valueDim first h = .ok vd ↔ hget h "valuedim" = .ok (.nat vd))) ∧
    (isV2 first = true → (∀ v, hget h "valuedim" ≠ .ok v) → ∃ e, valueDim first h = .error e) ∧
    (isV2 first = false → valueDim first h = .ok 3) := by
  refine ⟨?_, ?_, ?_⟩
  · intro hv vd
    unfold valueDim hnat
    rw [if_pos hv]
    cases hg : hget h "valuedim" with
    | error e => simp [bind, Except.bind]
    | ok v =>
      cases v with
      | nat n => simp [bind, Except.bind, HVal.toNat]
      | num q => simp [bind, Except.bind, HVal.toNat]
      | str s => simp [bind, Except.bind, HVal.toNat]
  · intro hv hno
    unfold valueDim hnat
    rw [if_pos hv]
    cases hg : hget h "valuedim" with
    | error e => exact ⟨e, rfl⟩
    | ok v => exact absurd hg (hno v)
  · intro hv
    unfold valueDim
    rw [if_neg (by simp [hv])]

/-- the two first lines: `# OOMMF OVF 2.0` is version 2, `# OOMMF: rectangular mesh v1.0` is not -/
example : isV2 "# OOMMF OVF 2.0" = true ∧ isV2 "# OOMMF: rectangular mesh v1.0" = false := by
  constructor <;> decide +kernel

/-- **Byte order by version** (the driver's IEEE codec): the reader takes the check value of an
OVF 2.0 file as little endian and that of an OVF 1.0 file as big endian, and a file that carries the
check value of its width in the *other* byte order - a 1.0 file written little endian, a 2.0 file
written big endian - is never read into a field, whatever follows. -/
theorem wrong_endian_rejected (isWord : Char → Bool) (reserved : String → Bool) (F : OvfFile Rat)
    (side : Option (List (String × Region))) (bytes : List Nat) (hbody : F.body = .bin bytes)
    (hbytes : ∀ x ∈ bytes, x < 256)
    (hw : ∀ h ws w, scan F.lines [] = some (h, ws) → dataWidth ws = some w →
      bytes.take w = ieee.enc (!isV2 F.first) w (ieee.magic w)) :
    ∃ e, fromOvf ieee isWord reserved F side = .error e := by
  cases hres : fromOvf ieee isWord reserved F side with
  | error e => exact ⟨e, rfl⟩
  | ok g =>
    exfalso
    obtain ⟨p, mesh, arr, hp, hm, ha⟩ := fromOvf_ok_inv ieee isWord reserved F side g hres
    obtain ⟨ws, nodes, hscan, hvd, hmesh, hflat⟩ := parse_ok_inv ieee F p hp
    unfold readBody at hflat
    rw [hbody] at hflat
    simp only at hflat
    split at hflat
    · cases hd : dataWidth ws with
      | none =>
        unfold parse at hp
        rw [hscan] at hp
        simp only at hp
        rename_i hb
        rw [hb, hd] at hp
        split at hp
        · cases hp
        · simp at hp
      | some w =>
        rw [hd] at hflat
        simp only [Option.getD_some] at hflat
        obtain ⟨hle, hw48, hmag, _⟩ := readBin_ok_inv ieee _ w bytes _ _ _ hflat
        have h1 := check_value_exact (isV2 F.first) w hw48 (bytes.take w)
          (by rw [List.length_take]; omega) (fun x hx => hbytes x (List.mem_of_mem_take hx)) hmag
        rw [hw p.header ws w hscan hd] at h1
        rcases hw48 with rfl | rfl <;> cases hv : isV2 F.first <;> rw [hv] at h1 <;> revert h1 <;> decide +kernel
    · cases hflat


/-! ## Acceptance as an equivalence -/
/-- **A binary file with a consistent header is accepted exactly when it is well-formed** (rejected
⇔ malformed, both directions, any codec): given a header whose `min / max / stepsize / nodes` lines
describe one mesh, a data line `Binary w` and `valuedim` components, the reader returns a field
**iff** the width is 4 or 8, the first `w` bytes of the data section decode (in the byte order of the
file's version) to the check value of that width, there is at least one component, the data section
holds the check value and all `prod(nodes)·valuedim` values (`w·(1 + prod·valuedim)` bytes), and the
labels pass the `Field` constructor. -/
theorem binary_accepted_iff {α} [DecidableEq α] (c : Codec α) (isWord : Char → Bool) (reserved : String → Bool)
    (F : OvfFile α) (h : List (String × HVal)) (lo hi cell : Nat → Rat) (n : Nat → Nat) (mu : String)
    (H : HeaderOf h lo hi cell n mu)
    (hlt : ∀ a, a < 3 → lo a < hi a) (hn : ∀ a, a < 3 → 0 < n a)
    (hc : ∀ a, a < 3 → cell a = (hi a - lo a) / (n a : Rat))
    (ws : List String) (hscan : scan F.lines [] = some (h, ws)) (hb : isBinary ws = true)
    (w : Nat) (hw : dataWidth ws = some w) (vd : Nat) (hvdim : valueDim F.first h = .ok vd)
    (bytes : List Byte) (hbody : F.body = .bin bytes) :
    (∃ g, fromOvf c isWord reserved F none = .ok g) ↔
      (w = 4 ∨ w = 8) ∧ c.dec (isV2 F.first) w (bytes.take w) = c.magic w ∧ 0 < vd ∧
      w * (1 + natProd [n 0, n 1, n 2] * vd) ≤ bytes.length ∧
      (∃ vd', vdimsSetter reserved vd (labelsOf isWord h) = .ok vd') := by
  have hp := parse_bin_eq c F h lo hi cell n mu H hlt hn hc ws hscan hb w hw vd hvdim bytes hbody
  have hmn : (meshOf lo hi n mu).n = [n 0, n 1, n 2] := rfl
  constructor
  · rintro ⟨g, hg⟩
    obtain ⟨p, mesh, arr, hp', hm, ha⟩ := fromOvf_ok_inv c isWord reserved F none g hg
    rw [hp] at hp'
    cases hr : readBin c (isV2 F.first) w bytes (natProd [n 0, n 1, n 2] * vd) vd with
    | error e => rw [hr] at hp'; cases hp'
    | ok flat =>
      rw [hr] at hp'
      injection hp' with hp'
      subst hp'
      obtain ⟨h1, h2, h3, h4, h5, rfl⟩ := (readBin_ok_iff c _ w bytes _ vd flat).mp hr
      have hw0 : 0 < w := by rcases h2 with rfl | rfl <;> omega
      simp only [loadSide] at hm
      injection hm with hm
      subst hm
      have ha0 := ha
      unfold unflatten at ha
      split at ha
      · cases ha
      · rename_i hlen
        simp only [hmn, natProd_rev3, fromfile_length, List.length_drop, ne_eq, not_not] at hlen
        refine ⟨h2, h3, by omega, ?_, ?_⟩
        · have : natProd [n 0, n 1, n 2] * vd ≤ (bytes.length - w) / w := by omega
          rw [Nat.le_div_iff_mul_le hw0] at this
          have e : w * (1 + natProd [n 0, n 1, n 2] * vd) = natProd [n 0, n 1, n 2] * vd * w + w := by ring
          omega
        · unfold fromOvf at hg
          rw [hp, hr] at hg
          simp only [loadSide] at hg
          rw [show unflatten (meshOf lo hi n mu).n vd
            (fromfile c (isV2 F.first) w (bytes.drop w) (natProd [n 0, n 1, n 2] * vd)) c.zero = .ok arr from ha0] at hg
          simp only at hg
          split at hg
          · cases hg
          · split at hg
            · cases hg
            · rename_i vd' hv; exact ⟨vd', hv⟩
  · rintro ⟨h2, h3, h4, h5, vd', hv⟩
    have hw0 : 0 < w := by rcases h2 with rfl | rfl <;> omega
    have hle : w ≤ bytes.length := by
      have : w * 1 ≤ w * (1 + natProd [n 0, n 1, n 2] * vd) := Nat.mul_le_mul_left _ (by omega)
      omega
    have hcnt : natProd [n 0, n 1, n 2] * vd ≤ (bytes.length - w) / w := by
      rw [Nat.le_div_iff_mul_le hw0]
      have e : w * (1 + natProd [n 0, n 1, n 2] * vd) = natProd [n 0, n 1, n 2] * vd * w + w := by ring
      omega
    have hflen : (fromfile c (isV2 F.first) w (bytes.drop w) (natProd [n 0, n 1, n 2] * vd)).length
        = natProd [n 0, n 1, n 2] * vd := by
      rw [fromfile_length, List.length_drop]; omega
    have hr : readBin c (isV2 F.first) w bytes (natProd [n 0, n 1, n 2] * vd) vd
        = .ok (fromfile c (isV2 F.first) w (bytes.drop w) (natProd [n 0, n 1, n 2] * vd)) :=
      (readBin_ok_iff c _ w bytes _ vd _).mpr
        ⟨hle, h2, h3, by omega, by rw [hflen]; exact Nat.mul_mod_left _ _, rfl⟩
    rw [hr] at hp
    exact ⟨_, fromOvf_of_parse c isWord reserved F lo hi n mu vd h4 _ h hp hflen vd' hv⟩

/-- **Every header line the reader needs** (refusal of incomplete headers, contrapositive form): a
file that is read into a field has a data line, and before it the nine lines `xmin .. zmax`,
`xstepsize .. zstepsize` with numbers, `xnodes .. znodes` with counts, a `meshunit` line and - for an
OVF 2.0 file - a `valuedim` line with a count.  A file that lacks any of them, or has text where a
number belongs, is rejected. -/
theorem accepted_has_keys {α} [DecidableEq α] (c : Codec α) (isWord : Char → Bool) (reserved : String → Bool)
    (F : OvfFile α) (side : Option (List (String × Region))) (g : OField α)
    (hg : fromOvf c isWord reserved F side = .ok g) :
    ∃ h ws, scan F.lines [] = some (h, ws) ∧
      (∀ k ∈ ["xmin", "ymin", "zmin", "xmax", "ymax", "zmax", "xstepsize", "ystepsize", "zstepsize"],
        ∃ q, hnum h k = .ok q) ∧
      (∀ k ∈ ["xnodes", "ynodes", "znodes"], ∃ m, hnat h k = .ok m) ∧
      (∃ v, hget h "meshunit" = .ok v) ∧
      (isV2 F.first = true → ∃ vd, hnat h "valuedim" = .ok vd) := by
  obtain ⟨p, mesh, arr, hp, _, _⟩ := fromOvf_ok_inv c isWord reserved F side g hg
  obtain ⟨ws, _, hscan, hvd, hmesh, _⟩ := parse_ok_inv c F p hp
  obtain ⟨nodes, hnodes⟩ := parse_ok_nodes c F p hp
  obtain ⟨⟨l1, h1⟩, ⟨l2, h2⟩, ⟨l3, h3⟩, hmu⟩ := readMesh_ok_inv p.header p.mesh hmesh
  obtain ⟨a1, a2, a3⟩ := hnums_ok_inv _ _ _ _ _ h1
  obtain ⟨b1, b2, b3⟩ := hnums_ok_inv _ _ _ _ _ h2
  obtain ⟨c1, c2, c3⟩ := hnums_ok_inv _ _ _ _ _ h3
  obtain ⟨d1, d2, d3⟩ := hnats_ok_inv _ _ _ _ _ hnodes
  refine ⟨p.header, ws, hscan, ?_, ?_, hmu, ?_⟩
  · intro k hk
    simp only [List.mem_cons, List.mem_nil_iff, or_false] at hk
    rcases hk with rfl | rfl | rfl | rfl | rfl | rfl | rfl | rfl | rfl <;> assumption
  · intro k hk
    simp only [List.mem_cons, List.mem_nil_iff, or_false] at hk
    rcases hk with rfl | rfl | rfl <;> assumption
  · intro hv
    unfold valueDim at hvd
    rw [if_pos hv] at hvd
    exact ⟨_, hvd⟩

/-- ... for instance a file without an `xmin` line -/
theorem missing_key_rejected {α} [DecidableEq α] (c : Codec α) (isWord : Char → Bool) (reserved : String → Bool)
    (F : OvfFile α) (side : Option (List (String × Region))) (k : String)
    (hk : k ∈ ["xmin", "ymin", "zmin", "xmax", "ymax", "zmax", "xstepsize", "ystepsize", "zstepsize",
               "xnodes", "ynodes", "znodes", "meshunit"])
    (hno : ∀ l ∈ F.lines, ∀ v, l ≠ .kv k v) :
    ∃ e, fromOvf c isWord reserved F side = .error e := by
  cases hres : fromOvf c isWord reserved F side with
  | error e => exact ⟨e, rfl⟩
  | ok g =>
    exfalso
    obtain ⟨h, ws, hscan, hnum', hnat', hmu, _⟩ := accepted_has_keys c isWord reserved F side g hres
    -- the key is in the dictionary, so some line carried it
    have key : ∀ (ls : List HLine) (acc : List (String × HVal)) h ws, scan ls acc = some (h, ws) →
        ∀ v, hget h k = .ok v → (∃ v', HLine.kv k v' ∈ ls) ∨ (∃ v', (k, v') ∈ acc) := by
      intro ls
      induction ls with
      | nil => intro acc h ws hs; cases hs
      | cons l ls ih =>
        intro acc h ws hs v hv
        cases l with
        | beginData w =>
          simp only [scan] at hs
          injection hs with hs
          injection hs with hs1 _
          subst hs1
          right
          unfold hget at hv
          split at hv
          · rename_i p hp
            have := List.find?_some hp
            have hm := List.mem_of_find?_eq_some hp
            simp only [beq_iff_eq] at this
            exact ⟨p.2, by rw [← this]; exact hm⟩
          · cases hv
        | other =>
          rcases ih acc h ws hs v hv with ⟨v', h1⟩ | h2
          · exact Or.inl ⟨v', by simp [h1]⟩
          · exact Or.inr h2
        | kv k' v' =>
          rcases ih ((k', v') :: acc) h ws hs v hv with ⟨v'', h1⟩ | ⟨v'', h2⟩
          · exact Or.inl ⟨v'', by simp [h1]⟩
          · rcases List.mem_cons.mp h2 with h2 | h2
            · injection h2 with e1 e2
              subst e1
              exact Or.inl ⟨v', by simp⟩
            · exact Or.inr ⟨v'', h2⟩
    have hget' : ∃ v, hget h k = .ok v := by
      simp only [List.mem_cons, List.mem_nil_iff, or_false] at hk
      have num_get : ∀ k', (∃ q, hnum h k' = .ok q) → ∃ v, hget h k' = .ok v := by
        intro k' ⟨q, hq⟩
        unfold hnum at hq
        cases hgk : hget h k' with
        | error e => rw [hgk] at hq; cases hq
        | ok v => exact ⟨v, rfl⟩
      have nat_get : ∀ k', (∃ q, hnat h k' = .ok q) → ∃ v, hget h k' = .ok v := by
        intro k' ⟨q, hq⟩
        unfold hnat at hq
        cases hgk : hget h k' with
        | error e => rw [hgk] at hq; cases hq
        | ok v => exact ⟨v, rfl⟩
      rcases hk with rfl | rfl | rfl | rfl | rfl | rfl | rfl | rfl | rfl | rfl | rfl | rfl | rfl
      · exact num_get _ (hnum' _ (by decide))
      · exact num_get _ (hnum' _ (by decide))
      · exact num_get _ (hnum' _ (by decide))
      · exact num_get _ (hnum' _ (by decide))
      · exact num_get _ (hnum' _ (by decide))
      · exact num_get _ (hnum' _ (by decide))
      · exact num_get _ (hnum' _ (by decide))
      · exact num_get _ (hnum' _ (by decide))
      · exact num_get _ (hnum' _ (by decide))
      · exact nat_get _ (hnat' _ (by decide))
      · exact nat_get _ (hnat' _ (by decide))
      · exact nat_get _ (hnat' _ (by decide))
      · exact hmu
    obtain ⟨v, hv⟩ := hget'
    rcases key F.lines [] h ws hscan v hv with ⟨v', h1⟩ | ⟨v', h2⟩
    · exact hno _ h1 v' rfl
    · cases h2



/-! ## Foreign (reference-writer) files as bytes -/


/-- **Foreign binary files at byte level**: the bytes of a file of the independent OVF 1.0 (big
endian, three components, no `valuedim`) or OVF 2.0 (little endian) writer - first line, header lines
in UTF-8 with numbers formatted by `repr`, data line, check value, payload, footer - are read by the
byte-level reader to that writer's content: node counts, region from `min / max`, mesh unit, component
count, default labels, no unit, and every value in its own cell and component (x fastest in the
file; float32-rounded for 4-byte files). -/
theorem reader_v1_v2_bytes {α} [DecidableEq α] (N : NumIO) (LN : N.Lawful)
    (tb : List Byte → List (List α) × List String) (c : Codec α) (narrow : α → α) (L : c.Lawful narrow)
    (isWord : Char → Bool) (reserved : String → Bool) (v2 : Bool) (w : Nat) (hw : w = 4 ∨ w = 8)
    (x : Content α) (hm : TextOk x.meshunit.toList)
    (hstep : ∀ a, a < 3 → 0 < x.step.getD a 0) (hn : ∀ a, a < 3 → 0 < x.nodes.getD a 0)
    (hvd : 0 < x.vd) (hv1 : v2 = false → x.vd = 3)
    (hcount : x.values.length = natProd [x.nodes.getD 0 0, x.nodes.getD 1 0, x.nodes.getD 2 0] * x.vd) :
    ∃ g, fromOvfBytes N tb c isWord reserved (fileBytes N (refWriter c v2 w x)) none = .ok g ∧
      g.mesh.n = [x.nodes.getD 0 0, x.nodes.getD 1 0, x.nodes.getD 2 0] ∧
      g.mesh.region.pmin = [x.lo 0, x.lo 1, x.lo 2] ∧ g.mesh.region.pmax = [x.hi 0, x.hi 1, x.hi 2] ∧
      g.mesh.region.units = [x.meshunit, x.meshunit, x.meshunit] ∧ g.nvdim = x.vd ∧
      g.vdims = Fld.defaultVdims x.vd ∧ g.unit = none ∧
      ∀ i j k cc, i < x.nodes.getD 0 0 → j < x.nodes.getD 1 0 → k < x.nodes.getD 2 0 → cc < x.vd →
        g.arr.get [i, j, k, cc]
          = conv narrow w (x.values.getD (pos (x.nodes.getD 0 0) (x.nodes.getD 1 0) x.vd i j k cc) c.zero) := by
  obtain ⟨g, hg, rest⟩ := reader_v1_v2 c narrow L isWord reserved v2 w hw x hstep hn hvd hv1 hcount
  have hw0 : w ≠ 0 := by rcases hw with rfl | rfl <;> omega
  refine ⟨g, ?_, rest⟩
  rw [fromOvfBytes_bin N LN tb c isWord reserved _ _ _ (refWriter_fileOk N c v2 w x hm)
    (isBinary_refWords w hw) _ (refWriter_body_bin c v2 w hw0 x) none]
  exact hg

/-- **Every truncation point of a foreign binary file**: the bytes of a file of the independent
OVF 1.0 / 2.0 writer cut after any number `t` of bytes short of the end of the payload - in the first
line, between or inside header lines, in the data line, inside the check value, inside or between
values - are never read into a field. -/
theorem foreign_truncation_rejected {α} [DecidableEq α] (N : NumIO) (LN : N.Lawful)
    (tb : List Byte → List (List α) × List String) (htb : (tb []).1 = [])
    (c : Codec α) (isWord : Char → Bool) (reserved : String → Bool) (v2 : Bool) (w : Nat) (hw : w = 4 ∨ w = 8)
    (x : Content α) (hm : TextOk x.meshunit.toList)
    (hstep : ∀ a, a < 3 → 0 < x.step.getD a 0) (hn : ∀ a, a < 3 → 0 < x.nodes.getD a 0)
    (hv1 : v2 = false → x.vd = 3)
    (t : Nat) (ht : t < (headerBytes N (refWriter c v2 w x)).length
      + w * (1 + natProd [x.nodes.getD 0 0, x.nodes.getD 1 0, x.nodes.getD 2 0] * x.vd))
    (side : Option (List (String × Region))) :
    ∃ e, fromOvfBytes N tb c isWord reserved ((fileBytes N (refWriter c v2 w x)).take t) side = .error e := by
  have hw0 : w ≠ 0 := by rcases hw with rfl | rfl <;> omega
  have K := refWriter_fileOk N c v2 w x hm
  have hb := refWriter_body_bin c v2 w hw0 x
  generalize hbb : (c.enc v2 w (c.magic w) ++ (x.values.flatMap (c.enc v2 w)
      ++ 10 :: footerBytes ["Binary", toString w])) = b at hb
  have hfile : fileBytes N (refWriter c v2 w x) = headerBytes N (refWriter c v2 w x) ++ b := by
    unfold fileBytes; rw [hb]
  rw [hfile]
  rcases take_append_cases (headerBytes N (refWriter c v2 w x)) b t with ⟨hlt, e⟩ | ⟨hge, e⟩
  · rw [e]
    exact header_prefix_rejected N LN tb htb c isWord reserved _ _ _ K _ (List.take_prefix _ _)
      (fun h => by
        have := congrArg List.length h
        rw [List.length_take] at this
        omega) side
  · rw [e]
    have K' : FileOk N ({ refWriter c v2 w x with
        body := Body.bin (b.take (t - (headerBytes N (refWriter c v2 w x)).length)) } : OvfFile α)
        (refHs v2 x) (refWords w) :=
      { lines := K.lines, first := K.first, ok := K.ok, words := K.words }
    have := fromOvfBytes_bin N LN tb c isWord reserved
      ({ refWriter c v2 w x with
        body := Body.bin (b.take (t - (headerBytes N (refWriter c v2 w x)).length)) } : OvfFile α)
      _ _ K' (isBinary_refWords w hw) _ rfl side
    unfold fileBytes at this
    simp only at this
    have hh : headerBytes N ({ refWriter c v2 w x with
        body := Body.bin (b.take (t - (headerBytes N (refWriter c v2 w x)).length)) } : OvfFile α)
        = headerBytes N (refWriter c v2 w x) := rfl
    rw [hh] at this
    rw [this]
    apply short_block_rejected c isWord reserved _ side _ rfl
    intro h ws mesh vd w' hscan hmesh hvd hw'
    simp only at hscan hvd
    have hsr := scan_ref c v2 w x
    rw [if_neg hw0] at hsr
    rw [hsr] at hscan
    injection hscan with hscan
    injection hscan with h1 h2
    subst h1; subst h2
    rw [valueDim_ref c v2 w x hv1] at hvd
    injection hvd with hvd
    have hlt : ∀ a, a < 3 → x.lo a < x.hi a := by
      intro a ha
      have h1 := hstep a ha
      have h2 : (0 : Rat) < (x.nodes.getD a 0 : Rat) := by exact_mod_cast hn a ha
      unfold Content.lo Content.hi
      have := mul_pos h2 h1
      linarith
    have hc : ∀ a, a < 3 → x.step.getD a 0 = (x.hi a - x.lo a) / ((x.nodes.getD a 0 : Nat) : Rat) := by
      intro a ha
      have h2 : ((x.nodes.getD a 0 : Nat) : Rat) ≠ 0 := by
        have : (0 : Rat) < (x.nodes.getD a 0 : Rat) := by exact_mod_cast hn a ha
        exact ne_of_gt this
      unfold Content.lo Content.hi
      field_simp
      ring
    rw [readMesh_ok _ _ _ _ _ _ (headerOf_ref v2 x) hlt hn hc] at hmesh
    injection hmesh with hmesh
    rw [(width_words w hw).2] at hw'
    injection hw' with hw'
    subst hw'; subst hvd; subst hmesh
    have : (meshOf x.lo x.hi (fun a => x.nodes.getD a 0) x.meshunit).n
        = [x.nodes.getD 0 0, x.nodes.getD 1 0, x.nodes.getD 2 0] := rfl
    rw [this]
    have := List.length_take_le (t - (headerBytes N (refWriter c v2 w x)).length) b
    omega


/-- ... and from the end of the payload on (before the newline, inside the footer) a cut changes
nothing: the cut foreign file reads to exactly what the whole file reads to. -/
theorem foreign_cut_after_payload_same_field {α} [DecidableEq α] (N : NumIO) (LN : N.Lawful)
    (tb : List Byte → List (List α) × List String)
    (c : Codec α) (isWord : Char → Bool) (reserved : String → Bool) (v2 : Bool) (w : Nat) (hw : w = 4 ∨ w = 8)
    (x : Content α) (hm : TextOk x.meshunit.toList) (hv1 : v2 = false → x.vd = 3)
    (t : Nat) (ht : (headerBytes N (refWriter c v2 w x)).length
      + w * (1 + natProd [x.nodes.getD 0 0, x.nodes.getD 1 0, x.nodes.getD 2 0] * x.vd) ≤ t)
    (side : Option (List (String × Region))) :
    fromOvfBytes N tb c isWord reserved ((fileBytes N (refWriter c v2 w x)).take t) side
      = fromOvfBytes N tb c isWord reserved (fileBytes N (refWriter c v2 w x)) side := by
  have hw0 : w ≠ 0 := by rcases hw with rfl | rfl <;> omega
  have K := refWriter_fileOk N c v2 w x hm
  have hb := refWriter_body_bin c v2 w hw0 x
  generalize hbb : (c.enc v2 w (c.magic w) ++ (x.values.flatMap (c.enc v2 w)
      ++ 10 :: footerBytes ["Binary", toString w])) = b at hb
  have hfile : fileBytes N (refWriter c v2 w x) = headerBytes N (refWriter c v2 w x) ++ b := by
    unfold fileBytes; rw [hb]
  rw [fromOvfBytes_bin N LN tb c isWord reserved _ _ _ K (isBinary_refWords w hw) b hb side, hfile]
  rcases take_append_cases (headerBytes N (refWriter c v2 w x)) b t with ⟨hlt, _⟩ | ⟨hge, e⟩
  · omega
  · rw [e]
    have K' : FileOk N ({ refWriter c v2 w x with
        body := Body.bin (b.take (t - (headerBytes N (refWriter c v2 w x)).length)) } : OvfFile α)
        (refHs v2 x) (refWords w) :=
      { lines := K.lines, first := K.first, ok := K.ok, words := K.words }
    have := fromOvfBytes_bin N LN tb c isWord reserved
      ({ refWriter c v2 w x with
        body := Body.bin (b.take (t - (headerBytes N (refWriter c v2 w x)).length)) } : OvfFile α)
      _ _ K' (isBinary_refWords w hw) _ rfl side
    unfold fileBytes at this
    simp only at this
    have hh : headerBytes N ({ refWriter c v2 w x with
        body := Body.bin (b.take (t - (headerBytes N (refWriter c v2 w x)).length)) } : OvfFile α)
        = headerBytes N (refWriter c v2 w x) := rfl
    rw [hh] at this
    rw [this]
    apply fromOvf_cut c isWord reserved _ b hb
    intro h ws vd nodes hscan hvd hnodes
    have hsr := scan_ref c v2 w x
    rw [if_neg hw0] at hsr
    rw [hsr] at hscan
    injection hscan with hscan
    injection hscan with h1 h2
    subst h1; subst h2
    rw [valueDim_ref c v2 w x hv1] at hvd
    injection hvd with hvd
    rw [(headerOf_ref v2 x).nodes] at hnodes
    injection hnodes with hnodes
    subst hvd; subst hnodes
    rw [(width_words w hw).2, Option.getD_some]
    omega

/-- the foreign-file byte theorems apply to `exContent`; a cut 30 bytes into the file lies below the
bound -/
example : TextOk exContent.meshunit.toList ∧ ∃ e, fromOvfBytes toyNum toyText toyCodec isWordC (fun _ => false)
    ((fileBytes toyNum (refWriter toyCodec false 8 exContent)).take 30) none = .error e := by
  refine ⟨textOk_of_B _ (by decide), ?_⟩
  exact foreign_truncation_rejected toyNum toyNum_lawful toyText rfl toyCodec isWordC (fun _ => false) false 8
    (Or.inr rfl) exContent (textOk_of_B _ (by decide))
    (by intro a ha; match a, ha with | 0, _ => decide +kernel | 1, _ => decide +kernel | 2, _ => decide +kernel)
    (by intro a ha; match a, ha with | 0, _ => decide | 1, _ => decide | 2, _ => decide)
    (fun _ => rfl) 30 (by
      have : 30 < 8 * (1 + natProd [1, 2, 1] * 3) := by decide
      simp only [exContent, List.getD_cons_zero, List.getD_cons_succ]
      omega) none


/-! ## Text files down to the bytes

`Model/C09Csv.lean`: the rows `to_csv(sep=" ", header=False, index=False)` writes after the data line
(`textBytes`: an empty first entry, a blank, the values separated by blanks, `\n`; then the footer),
and the model of `read_csv(sep=" ", skipinitialspace=True, comment="#", nrows=nodes, dtype=float64)` on the
bytes that follow the data line (`csvBody`: lines, the C tokenizer, conversion with empty fields as
NaN); `readText` takes the first `nodes` records, pads short ones with NaN and refuses long ones.
`T : TextIO α` is the text of a number (`fmt`, `pfloat`), lawful on the values `P`; for short
decimals it is modelled (`decIO`). -/

/-- **The text of a short decimal reads back** (the number format of the text rows, modelled): for
every rational with a terminating decimal expansion, the fixed-notation text `fmtDec` gives it
(`-0.0009765625`, `121.0`, `1.5` - what `repr` / `numpy.astype(str)` print between 1e-4 and 1e16) is
parsed by `parseDec` to exactly that rational; the text is not empty, ASCII, and has no blank, `#`
or newline in it. -/
theorem dec_text_roundtrip (x : Rat) (h : ShortDec x) :
    parseDec (fmtDec x) = some x ∧ fmtDec x ≠ [] ∧
      ∀ c ∈ fmtDec x, c ≠ ' ' ∧ c ≠ '#' ∧ c ≠ '\n' ∧ c.toNat < 128 :=
  ⟨decIO_lawful.parse_fmt x h, (decIO_lawful.clean x h).1, (decIO_lawful.clean x h).2⟩

/-- short decimals exist and are decided by evaluation: 3/2, -1/1024, 121, 0; 1/3 is none -/
example : ShortDec (3 / 2) ∧ ShortDec (-1 / 1024) ∧ ShortDec 121 ∧ ShortDec 0 ∧ ¬ ShortDec (1 / 3) := by
  refine ⟨?_, ?_, ?_, ?_, ?_⟩ <;> decide +kernel

/-- the text itself, evaluated -/
example : fmtDec (-1 / 1024) = "-0.0009765625".toList ∧ fmtDec 121 = "121.0".toList := by
  constructor <;> decide +kernel

/-- **The rows of a text file read back, byte for byte**: the model of `read_csv` run on the bytes
`to_csv` wrote for any list of non-empty rows of values `T` can carry, followed by any footer of
`#` lines, returns exactly those rows (and the footer lines as comments) - for every number of
rows and columns. -/
theorem text_rows_read_back {α} (T : TextIO α) (P : α → Prop) (L : T.LawfulOn P) (nan : α)
    (rows : List (List α)) (footer : List String)
    (hne : ∀ r ∈ rows, r ≠ []) (hv : ∀ r ∈ rows, ∀ v ∈ r, P v) (Fo : FooterOk footer) :
    csvBody T nan (textBytes T rows footer) = (rows, footer) :=
  csvBody_textBytes T P L nan rows footer ⟨hne, hv⟩ Fo

/-- rows of short decimals, two columns, with the footer of a text file -/
example : csvBody decIO 0 (textBytes decIO [[3 / 2, -2], [1 / 1000, 121]] (footerLines ["Text"]))
    = ([[3 / 2, -2], [1 / 1000, 121]], footerLines ["Text"]) := by
  apply text_rows_read_back decIO ShortDec decIO_lawful
  · intro r hr; simp only [List.mem_cons, List.mem_nil_iff, or_false] at hr
    rcases hr with rfl | rfl <;> simp
  · intro r hr v hv
    simp only [List.mem_cons, List.mem_nil_iff, or_false] at hr
    rcases hr with rfl | rfl <;>
      (simp only [List.mem_cons, List.mem_nil_iff, or_false] at hv; rcases hv with rfl | rfl <;> decide +kernel)
  · exact footerOk_text

/-- **The values of the rows of a written text file are the field's values** (and the zero of
`extend_scalar`): a predicate that holds for every entry of the array and for zero holds for every
value the writer puts into a row. -/
theorem written_rows_values {α} (c : Codec α) (f : OField α) (e : Bool) (P : α → Prop)
    (hP : ∀ idx, P (f.arr.get idx)) (h0 : P c.zero) : ∀ r ∈ textRows c f e, ∀ v ∈ r, P v :=
  written_rows_values' c f e P hP h0

/-- **Byte level, all three representations**: `_from_ovf` run on the bytes `_to_ovf` wrote - header,
then check value and payload for `bin4` / `bin8`, or the rows `to_csv` wrote and the footer for `txt`,
read by the model of `read_csv` - sees exactly the file the writer assembled.  For `txt` the values of
the field (and the zero of `extend_scalar`) have to be values the number format `T` round-trips
(`P`); nothing is assumed about pandas any more. -/
theorem written_bytes_read_all {α} [DecidableEq α] (N : NumIO) (LN : N.Lawful) (T : TextIO α) (P : α → Prop)
    (LT : T.LawfulOn P) (c : Codec α) (isWord : Char → Bool) (reserved : String → Bool)
    (f : OField α) (V : Valid f) (rep : String) (extend : Bool) (F : OvfFile α)
    (hF : toOvf c f rep extend = .ok F) (Tx : WrittenTextOk f (extend && f.nvdim == 1))
    (hP : ∀ idx, P (f.arr.get idx)) (h0 : P c.zero) (side : Option (List (String × Region))) :
    fromOvfBytesT N T c isWord reserved (fileBytesT N T F) side = fromOvf c isWord reserved F side := by
  have hF' : toOvfE c f rep (extend && f.nvdim == 1) = .ok F := hF
  have he : (extend && f.nvdim == 1) = true → f.nvdim = 1 := by
    intro h; simp only [Bool.and_eq_true, beq_iff_eq] at h; exact h.2
  obtain ⟨labels, rw, K, _, _, hrw⟩ := written_fileOk N c f rep _ F hF' Tx
  obtain ⟨_, _, _, _, _, _, hbody⟩ := toOvfE_shape c f rep _ F hF'
  rcases hbody with ⟨b, hb, hne⟩ | ⟨_, _, _, ht⟩
  · exact fromOvfBytesT_bin N LN T c isWord reserved F _ rw K ((repWords_ok rep rw hrw).2.mpr hne) b hb side
  · subst ht
    have hbin : isBinary rw = false := by
      cases h : isBinary rw with
      | false => rfl
      | true => exact absurd rfl ((repWords_ok "txt" rw hrw).2.mp h)
    exact fromOvfBytesT_text N LN T P LT c isWord reserved F _ rw K hbin _ _
      (toOvfE_txt_body c f V _ F hF') (rowsOk_written T P c f V _ he hP h0) footerOk_text side

/-- **Round trip on bytes, all representations at once** (`txt` included): the bytes `to_file` writes
are read back by the byte-level reader - with the text rows parsed by the model of `read_csv` - to
the field of `roundtrip_all`: same region corners, mesh unit, cell counts, `valuedim`, unit,
subregions through the side-car file, labels, and every value in its own cell and component
(unchanged for text and bin8, float32-rounded for bin4, `(v, 0, 0)` for an extended scalar). -/
theorem roundtrip_all_bytesT {α} [DecidableEq α] (N : NumIO) (LN : N.Lawful) (T : TextIO α) (P : α → Prop)
    (LT : T.LawfulOn P) (c : Codec α) (narrow : α → α) (L : c.Lawful narrow)
    (isWord : Char → Bool) (W : WordClass isWord) (reserved : String → Bool)
    (f : OField α) (V : Valid f) (hl : LabelsOk isWord reserved f) (hu : UnitOk f.unit)
    (hs : ∀ p ∈ f.mesh.subs, ∃ i j, SubOf f.mesh p.2 i j)
    (rep : String) (w : Nat) (hrep : RepOk rep w) (extend withSide : Bool)
    (Tx : WrittenTextOk f (extend && f.nvdim == 1))
    (hP : ∀ idx, P (f.arr.get idx)) (h0 : P c.zero) :
    ∃ B g, toOvfBytesT N T c f rep extend = .ok B ∧
      fromOvfBytesT N T c isWord reserved B (if withSide then some (saveSub f.mesh) else none) = .ok g ∧
      g.mesh.region.pmin = f.mesh.region.pmin ∧ g.mesh.region.pmax = f.mesh.region.pmax ∧
      g.mesh.region.units = f.mesh.region.units ∧ g.mesh.n = f.mesh.n ∧
      g.nvdim = writeDim f extend ∧ g.unit = f.unit ∧
      g.mesh.subs.map (fun p => (p.1, p.2.pmin, p.2.pmax))
        = (if withSide then f.mesh.subs.map (fun p => (p.1, p.2.pmin, p.2.pmax)) else []) ∧
      ((extend && f.nvdim == 1) = true → g.vdims = some ["x", "y", "z"]) ∧
      ((extend && f.nvdim == 1) = false → 1 < f.nvdim → g.vdims = f.vdims) ∧
      ∀ i j k cc, i < f.mesh.nAt 0 → j < f.mesh.nAt 1 → k < f.mesh.nAt 2 → cc < writeDim f extend →
        g.arr.get [i, j, k, cc] = conv narrow w
          (if (extend && f.nvdim == 1) then (if cc = 0 then f.arr.get [i, j, k, 0] else c.zero)
           else f.arr.get [i, j, k, cc]) := by
  obtain ⟨F, g, hF, hg, rest⟩ := roundtrip_all c narrow L isWord W reserved f V hl hu hs rep w hrep extend withSide
  refine ⟨fileBytesT N T F, g, ?_, ?_, rest⟩
  · unfold toOvfBytesT; rw [hF]
  · rw [written_bytes_read_all N LN T P LT c isWord reserved f V rep extend F hF Tx hP h0 _, hg]

/-- **A text data section with too few records is rejected** (structured level, any file): fewer
records than the mesh has cells, the first with at most `valuedim` fields. -/
theorem short_rows_rejected {α} [DecidableEq α] (c : Codec α) (isWord : Char → Bool)
    (reserved : String → Bool) (F : OvfFile α) (side : Option (List (String × Region)))
    (rows : List (List α)) (footer : List String) (hbody : F.body = .text rows footer)
    (hshort : ∀ h ws mesh vd, scan F.lines [] = some (h, ws) → readMesh h = .ok mesh →
      valueDim F.first h = .ok vd → rows.length < natProd mesh.n ∧ (rows.headD []).length ≤ vd) :
    ∃ e, fromOvf c isWord reserved F side = .error e :=
  short_rows_rejected' c isWord reserved F side rows footer hbody hshort

/-- **Truncation points of a written text file**: the bytes of a `txt` file written by `_to_ovf`, cut
after any number `t` of bytes up to the start of the last row - inside the first line, between or
inside header lines, in the data line, between rows, inside a row, inside a number - are never read
into a field.  (A cut inside the *last* row can be read: see `text_cut_in_last_row_accepted`; from
the end of the rows on the file reads as the whole file: `text_cut_after_rows_same_field`.) -/
theorem text_truncation_rejected {α} [DecidableEq α] (N : NumIO) (LN : N.Lawful) (T : TextIO α) (P : α → Prop)
    (LT : T.LawfulOn P) (c : Codec α) (isWord : Char → Bool) (reserved : String → Bool)
    (f : OField α) (V : Valid f) (extend : Bool) (F : OvfFile α)
    (hF : toOvf c f "txt" extend = .ok F) (Tx : WrittenTextOk f (extend && f.nvdim == 1))
    (hP : ∀ idx, P (f.arr.get idx)) (h0 : P c.zero)
    (t : Nat) (ht : t ≤ (headerBytes N F).length
      + (rowsBytes T (textRows c f (extend && f.nvdim == 1)).dropLast).length)
    (side : Option (List (String × Region))) :
    ∃ e, fromOvfBytesT N T c isWord reserved ((fileBytesT N T F).take t) side = .error e := by
  have hF' : toOvfE c f "txt" (extend && f.nvdim == 1) = .ok F := hF
  have he : (extend && f.nvdim == 1) = true → f.nvdim = 1 := by
    intro h; simp only [Bool.and_eq_true, beq_iff_eq] at h; exact h.2
  generalize (extend && f.nvdim == 1) = e at hF' he Tx ht
  obtain ⟨labels, rw, K, hlines, hfirst, hrw⟩ := written_fileOk N c f "txt" e F hF' Tx
  have hbody := toOvfE_txt_body c f V e F hF'
  have hbin : isBinary rw = false := by
    cases h : isBinary rw with
    | false => rfl
    | true => exact absurd rfl ((repWords_ok "txt" rw hrw).2.mp h)
  obtain ⟨_, huni, hlen⟩ := textRows_flatten c f V e he
  have hwd : 0 < writeDim f e := by rw [writeDim_e f e he]; split <;> [omega; exact V.nv]
  have R := rowsOk_written T P c f V e he hP h0
  have hfile : fileBytesT N T F = headerBytes N F ++ textBytes T (textRows c f e) (footerLines ["Text"]) := by
    unfold fileBytesT; rw [hbody]
  unfold fromOvfBytesT
  rw [hfile]
  rcases take_append_cases (headerBytes N F) (textBytes T (textRows c f e) (footerLines ["Text"])) t
    with ⟨hlt, e1⟩ | ⟨hge, e1⟩
  · rw [e1]
    exact header_prefix_rejected N LN _ (csvBody_nil T c.nan) c isWord reserved F _ rw K _ (List.take_prefix _ _)
      (fun h => by
        have := congrArg List.length h
        rw [List.length_take] at this
        omega) side
  · rw [e1, fromOvfBytes_text_tail N LN _ c isWord reserved F _ rw K hbin _ side]
    -- the tail is a prefix of the bytes of all rows but the last
    have htail : (textBytes T (textRows c f e) (footerLines ["Text"])).take (t - (headerBytes N F).length)
        <+: rowsBytes T (textRows c f e).dropLast := by
      obtain ⟨x, hx⟩ := rowsBytes_dropLast_prefix T (textRows c f e)
      rw [textBytes_split, ← hx, List.append_assoc, List.take_append_of_le_length (by omega)]
      exact List.take_prefix _ _
    have Rd : RowsOk T P (textRows c f e).dropLast :=
      ⟨fun r hr => R.ne r (List.dropLast_subset _ hr), fun r hr => R.vals r (List.dropLast_subset _ hr)⟩
    have hcount := csvBody_prefix_count T P LT c.nan _ Rd _ htail
    have hhead := csvBody_prefix_head T P LT c.nan _ Rd (writeDim f e) hwd
      (fun r hr => huni r (List.dropLast_subset _ hr)) _ htail
    apply short_rows_rejected' c isWord reserved _ side _ _ rfl
    intro h ws mesh vd hscan hmesh hvd
    simp only at hscan hvd
    rw [hlines, scan_written] at hscan
    injection hscan with hscan
    injection hscan with h1 h2
    subst h1
    rw [hfirst, valueDim_written] at hvd
    injection hvd with hvd
    rw [readMesh_ok _ _ _ _ _ _ (headerOf_written f e labels) V.lt V.npos (fun a _ => rfl)] at hmesh
    injection hmesh with hmesh
    subst hvd; subst hmesh
    have hn : (meshOf f.mesh.region.lo f.mesh.region.hi f.mesh.nAt (f.mesh.region.units.getD 0 "")).n
        = [f.mesh.nAt 0, f.mesh.nAt 1, f.mesh.nAt 2] := rfl
    rw [hn]
    have hnpos : 0 < natProd [f.mesh.nAt 0, f.mesh.nAt 1, f.mesh.nAt 2] := by
      apply natProd_pos
      intro m hm
      simp only [List.mem_cons, List.mem_nil_iff, or_false] at hm
      rcases hm with rfl | rfl | rfl
      · exact V.npos 0 (by omega)
      · exact V.npos 1 (by omega)
      · exact V.npos 2 (by omega)
    refine ⟨?_, hhead⟩
    rw [List.length_dropLast, hlen] at hcount
    omega

/-- **From the end of the rows on, a cut changes nothing** (text files): the bytes of a written `txt`
file cut anywhere at or after the newline of the last row (inside the footer) read to exactly what
the whole file reads to. -/
theorem text_cut_after_rows_same_field {α} [DecidableEq α] (N : NumIO) (LN : N.Lawful) (T : TextIO α)
    (P : α → Prop) (LT : T.LawfulOn P) (c : Codec α) (isWord : Char → Bool) (reserved : String → Bool)
    (f : OField α) (V : Valid f) (extend : Bool) (F : OvfFile α)
    (hF : toOvf c f "txt" extend = .ok F) (Tx : WrittenTextOk f (extend && f.nvdim == 1))
    (hP : ∀ idx, P (f.arr.get idx)) (h0 : P c.zero)
    (t : Nat) (ht : (headerBytes N F).length + (rowsBytes T (textRows c f (extend && f.nvdim == 1))).length ≤ t)
    (side : Option (List (String × Region))) :
    fromOvfBytesT N T c isWord reserved ((fileBytesT N T F).take t) side
      = fromOvfBytesT N T c isWord reserved (fileBytesT N T F) side := by
  rw [written_bytes_read_all N LN T P LT c isWord reserved f V "txt" extend F hF Tx hP h0 side]
  have hF' : toOvfE c f "txt" (extend && f.nvdim == 1) = .ok F := hF
  have he : (extend && f.nvdim == 1) = true → f.nvdim = 1 := by
    intro h; simp only [Bool.and_eq_true, beq_iff_eq] at h; exact h.2
  generalize (extend && f.nvdim == 1) = e at hF' he Tx ht
  obtain ⟨labels, rw, K, hlines, hfirst, hrw⟩ := written_fileOk N c f "txt" e F hF' Tx
  have hbody := toOvfE_txt_body c f V e F hF'
  have hbin : isBinary rw = false := by
    cases h : isBinary rw with
    | false => rfl
    | true => exact absurd rfl ((repWords_ok "txt" rw hrw).2.mp h)
  have R := rowsOk_written T P c f V e he hP h0
  have hfile : fileBytesT N T F = headerBytes N F ++ textBytes T (textRows c f e) (footerLines ["Text"]) := by
    unfold fileBytesT; rw [hbody]
  unfold fromOvfBytesT
  rw [hfile]
  rcases take_append_cases (headerBytes N F) (textBytes T (textRows c f e) (footerLines ["Text"])) t
    with ⟨hlt, _⟩ | ⟨hge, e1⟩
  · omega
  · rw [e1, fromOvfBytes_text_tail N LN _ c isWord reserved F _ rw K hbin _ side]
    have hsplit : (textBytes T (textRows c f e) (footerLines ["Text"])).take (t - (headerBytes N F).length)
        = rowsBytes T (textRows c f e) ++ ((footerLines ["Text"]).flatMap
            (fun l => utf8Enc l.toList ++ [10])).take (t - (headerBytes N F).length - (rowsBytes T (textRows c f e)).length) := by
      rw [textBytes_split, List.take_append, List.take_of_length_le (by omega)]
    rw [hsplit, csvBody_rows_then T P LT c.nan _ R _
      (csvLines_footer_prefix _ footerOk_text _ (List.take_prefix _ _))]
    exact fromOvf_text_congr c isWord reserved F _ _ _ _ hbody (fun _ _ _ _ _ _ => rfl) side


/-- **A cut inside the last row of a text file can be read - with a wrong value** (negative theorem:
why the property confines "every truncation point is rejected" to binary files, and why
`text_truncation_rejected` stops at the start of the last row).  The example field written as text is
597 bytes long, its rows end at byte 565; cut after 563 bytes - in the middle of the last number, `12`
left of `122` - the file is read into a field whose last value is 12.  (The real reader does the
same: observation `text-cut`, not a violation.) -/
theorem text_cut_in_last_row_accepted :
    toOvfBytesT toyNum toyTextIO toyCodec exField "txt" false = .ok exTextBytes ∧ exTextBytes.length = 597 ∧
    exField.arr.get [1, 0, 2, 2] = 122 ∧
    ∃ g, fromOvfBytesT toyNum toyTextIO toyCodec isWordC (fun _ => false) (exTextBytes.take 563) none = .ok g ∧
      g.arr.get [1, 0, 2, 2] = 12 := by
  refine ⟨?_, by decide +kernel, rfl, exCutVal_ok 563 12 (by decide +kernel)⟩
  unfold exTextBytes
  cases h : toOvfBytesT toyNum toyTextIO toyCodec exField "txt" false with
  | ok b => rfl
  | error e =>
    exfalso
    have : (match toOvfBytesT toyNum toyTextIO toyCodec exField "txt" false with
      | .ok _ => true | .error _ => false) = true := by decide +kernel
    rw [h] at this
    cases this

/-- the text-file theorems apply to the example field with the toy codecs: every value is one the
text codec carries, and every byte offset up to 552 (the start of the last row; the header is 499 bytes
long) is a truncation point below the bound -/
example : ∀ t, t ≤ 552 → ∃ e, fromOvfBytesT toyNum toyTextIO toyCodec isWordC (fun s => s == "norm")
    (exTextBytes.take t) none = .error e := by
  intro t ht
  obtain ⟨F, g, hF, _⟩ := roundtrip_all toyCodec id toyCodec_lawful isWordC isWordC_class (fun s => s == "norm") exField
    exField_valid exField_labels exField_unit (by intro p hp; cases hp) "txt" 0 (Or.inl ⟨rfl, rfl⟩) false false
  have hB : exTextBytes = fileBytesT toyNum toyTextIO F := by
    unfold exTextBytes toOvfBytesT
    rw [hF]
  rw [hB]
  apply text_truncation_rejected toyNum toyNum_lawful toyTextIO (fun _ => True) toyTextIO_lawful toyCodec isWordC
    (fun s => s == "norm") exField exField_valid false F hF exField_text (fun _ => trivial) trivial t
  have : 552 ≤ (headerBytes toyNum F).length + (rowsBytes toyTextIO (textRows toyCodec exField (false && exField.nvdim == 1)).dropLast).length := by
    have hh : (headerBytes toyNum F).length + (textBytes toyTextIO (textRows toyCodec exField false) (footerLines ["Text"])).length = 597 := by
      have := text_cut_in_last_row_accepted.2.1
      rw [hB] at this
      unfold fileBytesT at this
      rw [toOvfE_txt_body toyCodec exField exField_valid _ F hF] at this
      simpa using this
    have h2 : (textBytes toyTextIO (textRows toyCodec exField false) (footerLines ["Text"])).length = 98 := by decide +kernel
    have h3 : (rowsBytes toyTextIO (textRows toyCodec exField (false && exField.nvdim == 1)).dropLast).length = 53 := by
      decide +kernel
    omega
  omega


/-- **Text files with nothing trusted but the header numbers**: with the driver's IEEE codec and the
modelled decimal text (`decV`: `fmtDec` / `parseDec` on binary64 values), for every field of binary64
values that are short decimals (the harness's exact regime: integers and dyadic fractions), all
three representations, `extend_scalar` on or off, with or without the side-car file: the bytes
`to_file` writes are read back by the byte-level reader to the same cell counts, component count and
unit, and every value comes back as the same number (text, bin8) or its float32 rounding (bin4).
pandas' `to_csv` / `read_csv` are no longer a trusted pair here - their text is produced and
consumed by the model, and compared with the real bytes on every run. -/
theorem roundtrip_all_bytes_dec (N : NumIO) (LN : N.Lawful)
    (isWord : Char → Bool) (W : WordClass isWord) (reserved : String → Bool)
    (f : OField V64) (V : Valid f) (hl : LabelsOk isWord reserved f) (hu : UnitOk f.unit)
    (hs : ∀ p ∈ f.mesh.subs, ∃ i j, SubOf f.mesh p.2 i j)
    (rep : String) (w : Nat) (hrep : RepOk rep w) (withSide : Bool)
    (Tx : WrittenTextOk f false) (hdec : ∀ idx, ShortDec (f.arr.get idx).val) :
    ∃ B g, toOvfBytesT N decV ieeeV f rep false = .ok B ∧
      fromOvfBytesT N decV ieeeV isWord reserved B (if withSide then some (saveSub f.mesh) else none) = .ok g ∧
      g.mesh.n = f.mesh.n ∧ g.nvdim = f.nvdim ∧ g.unit = f.unit ∧
      ∀ i j k cc, i < f.mesh.nAt 0 → j < f.mesh.nAt 1 → k < f.mesh.nAt 2 → cc < f.nvdim →
        g.arr.get [i, j, k, cc] = (if w = 4 then narrowV (f.arr.get [i, j, k, cc]) else f.arr.get [i, j, k, cc]) := by
  have h0 : ShortDec (ieeeV.zero).val := by
    show ShortDec 0
    decide +kernel
  obtain ⟨B, g, h1, h2, _, _, _, hn, hnv, hun, _, _, _, hd⟩ :=
    roundtrip_all_bytesT N LN decV (fun v => ShortDec v.val) decV_lawful ieeeV narrowV ieeeV_lawful isWord W reserved
      f V hl hu hs rep w hrep false withSide (by simpa using Tx) hdec h0
  have hwd : writeDim f false = f.nvdim := by simp [writeDim]
  refine ⟨B, g, h1, h2, hn, by rw [hnv, hwd], hun, ?_⟩
  intro i j k cc hi hj hk hcc
  have := hd i j k cc hi hj hk (by rw [hwd]; exact hcc)
  simpa [conv] using this


/-- `roundtrip_all_bytes_dec` applies: on the example mesh, the field of binary64 zeros is a field of
short decimals (and so is every field of integers or dyadic fractions: `shortDec_of_scale`) -/
example : ∃ f : OField V64, Valid f ∧ LabelsOk isWordC (fun s => s == "norm") f ∧ UnitOk f.unit ∧
    ∀ idx, ShortDec (f.arr.get idx).val :=
  ⟨{ mesh := exField.mesh, nvdim := 3, arr := ⟨[2, 1, 3, 3], fun _ => ieeeV.zero⟩, vdims := exField.vdims,
     unit := exField.unit },
   { pmin3 := exField_valid.pmin3, pmax3 := exField_valid.pmax3, n3 := exField_valid.n3, lt := exField_valid.lt,
     npos := exField_valid.npos, units := exField_valid.units, nv := exField_valid.nv, shape := rfl },
   exField_labels, exField_unit, fun _ => (by decide +kernel : ShortDec 0)⟩

/-- dyadic fractions are short decimals by `shortDec_of_scale`: 4095/1024 with ten digits after the point -/
example : ShortDec (4095 / 1024) := shortDec_of_scale _ 10 (by decide +kernel) (by decide +kernel)


/-- **Foreign text files at byte level**: the bytes of a text file of the independent OVF 1.0 / 2.0
writer - header, one row per node with the values separated by blanks, footer - are read by the
byte-level reader, the rows parsed by the model of `read_csv`, to that writer's content: node counts,
region, mesh unit, component count, and every value in its own cell and component, unchanged. -/
theorem reader_v1_v2_txt_bytes {α} [DecidableEq α] (N : NumIO) (LN : N.Lawful) (T : TextIO α) (P : α → Prop)
    (LT : T.LawfulOn P) (c : Codec α) (isWord : Char → Bool) (reserved : String → Bool) (v2 : Bool)
    (x : Content α) (hm : TextOk x.meshunit.toList)
    (hstep : ∀ a, a < 3 → 0 < x.step.getD a 0) (hn : ∀ a, a < 3 → 0 < x.nodes.getD a 0)
    (hvd : 0 < x.vd) (hv1 : v2 = false → x.vd = 3)
    (hcount : x.values.length = natProd [x.nodes.getD 0 0, x.nodes.getD 1 0, x.nodes.getD 2 0] * x.vd)
    (hP : ∀ v ∈ x.values, P v) (h0 : P c.zero) :
    ∃ g, fromOvfBytesT N T c isWord reserved (fileBytesT N T (refWriter c v2 0 x)) none = .ok g ∧
      g.mesh.n = [x.nodes.getD 0 0, x.nodes.getD 1 0, x.nodes.getD 2 0] ∧
      g.mesh.region.pmin = [x.lo 0, x.lo 1, x.lo 2] ∧ g.mesh.region.pmax = [x.hi 0, x.hi 1, x.hi 2] ∧
      g.mesh.region.units = [x.meshunit, x.meshunit, x.meshunit] ∧ g.nvdim = x.vd ∧
      ∀ i j k cc, i < x.nodes.getD 0 0 → j < x.nodes.getD 1 0 → k < x.nodes.getD 2 0 → cc < x.vd →
        g.arr.get [i, j, k, cc]
          = x.values.getD (pos (x.nodes.getD 0 0) (x.nodes.getD 1 0) x.vd i j k cc) c.zero := by
  obtain ⟨g, hg, h1, h2, h3, h4, h5, _, _, h8⟩ :=
    reader_v1_v2_txt c isWord reserved v2 x hstep hn hvd hv1 hcount
  refine ⟨g, ?_, h1, h2, h3, h4, h5, h8⟩
  have hbody : (refWriter c v2 0 x).body = .text
      (tab (x.values.length / x.vd) fun r => tab x.vd fun k => x.values.getD (r * x.vd + k) c.zero)
      ["# End: Data Text", "# End: Segment"] := by
    simp [refWriter]
  have R : RowsOk T P (tab (x.values.length / x.vd) fun r => tab x.vd fun k => x.values.getD (r * x.vd + k) c.zero) := by
    constructor
    · intro r hr hnil
      obtain ⟨a, _, rfl⟩ := mem_tab _ _ _ hr
      have := congrArg List.length hnil
      simp at this
      omega
    · intro r hr v hv
      obtain ⟨a, _, rfl⟩ := mem_tab _ _ _ hr
      obtain ⟨b, _, rfl⟩ := mem_tab _ _ _ hv
      rw [List.getD_eq_getElem?_getD]
      cases hk : x.values[a * x.vd + b]? with
      | none => exact h0
      | some y => exact hP y (List.mem_of_getElem? hk)
  have Fo : FooterOk ["# End: Data Text", "# End: Segment"] := by
    intro l hl
    simp only [List.mem_cons, List.mem_nil_iff, or_false] at hl
    rcases hl with rfl | rfl
    · exact ⟨by decide, by decide⟩
    · exact ⟨by decide, by decide⟩
  rw [fromOvfBytesT_text N LN T P LT c isWord reserved _ _ _ (refWriter_fileOk N c v2 0 x hm)
    (by decide +kernel : isBinary (refWords 0) = false) _ _ hbody R Fo none]
  exact hg

/-! ## More non-vacuity (second round) -/

/-- `writer_accepts_iff` on the example field: the right-hand side holds, so a file is produced -/
example : ∃ F, toOvf toyCodec exField "bin8" true = .ok F :=
  (writer_accepts_iff toyCodec exField "bin8" true).mpr
    ⟨by decide, Or.inr (Or.inr rfl), by decide, Or.inr (by decide), fun _ h => absurd h (by decide)⟩

/-- `unit_roundtrip_iff` on the example field (unit `A/m`) and on a unit with a blank -/
example : recoverUnit (valueUnits exField false) = exField.unit :=
  (unit_roundtrip_iff exField false (by decide)).mpr exField_unit
example : recoverUnit (valueUnits { exField with unit := some "A / m" } false) ≠ some "A / m" := by
  intro h
  have := (unit_roundtrip_iff { exField with unit := some "A / m" } false (by decide)).mp h
  exact absurd (this.1.2 ' ' (by decide)) (by decide)

/-- `binary_accepted_iff` / `accepted_has_keys` / `reader_v1_v2_bytes` apply to the reference writer's
file of `exContent` (OVF 1.0, 8-byte values): it is accepted, so its data section has all
`8·(1 + 2·3)` bytes and its header has the required keys -/
example : ∃ g, fromOvfBytes toyNum toyText toyCodec isWordC (fun _ => false)
    (fileBytes toyNum (refWriter toyCodec false 8 exContent)) none = .ok g ∧ g.arr.get [0, 1, 0, 2] = 6 := by
  obtain ⟨g, hg, _, _, _, _, _, _, _, hd⟩ := reader_v1_v2_bytes toyNum toyNum_lawful toyText toyCodec id toyCodec_lawful
    isWordC (fun _ => false) false 8 (Or.inr rfl) exContent (textOk_of_B _ (by decide))
    (by intro a ha; match a, ha with | 0, _ => decide +kernel | 1, _ => decide +kernel | 2, _ => decide +kernel)
    (by intro a ha; match a, ha with | 0, _ => decide | 1, _ => decide | 2, _ => decide)
    (by decide) (fun _ => rfl) (by decide)
  refine ⟨g, hg, ?_⟩
  have := hd 0 1 0 2 (by decide) (by decide) (by decide) (by decide)
  rw [this]; rfl

/-- `reader_v1_v2_txt_bytes` applies to the same content as a text file, with the toy text codec -/
example : ∃ g, fromOvfBytesT toyNum toyTextIO toyCodec isWordC (fun _ => false)
    (fileBytesT toyNum toyTextIO (refWriter toyCodec true 0 exContent)) none = .ok g ∧ g.arr.get [0, 1, 0, 2] = 6 := by
  obtain ⟨g, hg, _, _, _, _, _, hd⟩ := reader_v1_v2_txt_bytes toyNum toyNum_lawful toyTextIO (fun _ => True)
    toyTextIO_lawful toyCodec isWordC (fun _ => false) true exContent (textOk_of_B _ (by decide))
    (by intro a ha; match a, ha with | 0, _ => decide +kernel | 1, _ => decide +kernel | 2, _ => decide +kernel)
    (by intro a ha; match a, ha with | 0, _ => decide | 1, _ => decide | 2, _ => decide)
    (by decide) (fun h => by cases h) (by decide) (fun _ _ => trivial) trivial
  refine ⟨g, hg, ?_⟩
  have := hd 0 1 0 2 (by decide) (by decide) (by decide) (by decide)
  rw [this]; rfl


/-- `binary_accepted_iff` applies to the reference writer's OVF 1.0 file of `exContent` (header of
`headerOf_ref`, data line `Binary 8`, three components): with a data section of ten bytes the
right-hand side fails - `8·(1 + 2·3) = 56 > 10` - so the file is rejected -/
example : ¬ ∃ g, fromOvf toyCodec isWordC (fun _ => false)
    ({ refWriter toyCodec false 8 exContent with body := .bin (List.replicate 10 7) } : OvfFile Nat) none = .ok g := by
  have hs := scan_ref toyCodec false 8 exContent
  rw [if_neg (by decide)] at hs
  rw [binary_accepted_iff toyCodec isWordC (fun _ => false)
    ({ refWriter toyCodec false 8 exContent with body := .bin (List.replicate 10 7) } : OvfFile Nat)
    (refHeader false exContent) exContent.lo exContent.hi (fun a => exContent.step.getD a 0)
    (fun a => exContent.nodes.getD a 0) exContent.meshunit (headerOf_ref false exContent)
    (by intro a ha; match a, ha with | 0, _ => decide +kernel | 1, _ => decide +kernel | 2, _ => decide +kernel)
    (by intro a ha; match a, ha with | 0, _ => decide | 1, _ => decide | 2, _ => decide)
    (by intro a ha; match a, ha with | 0, _ => decide +kernel | 1, _ => decide +kernel | 2, _ => decide +kernel)
    ["Binary", "8"] hs (by decide +kernel) 8 (by decide +kernel) 3
    (valueDim_ref toyCodec false 8 exContent (fun _ => rfl)) _ rfl]
  intro h
  have := h.2.2.2.1
  revert this
  decide



/-! ## Acceptance of the reshape and of the labels -/

/-- **The reader's reshape accepts exactly the right number of values**: `reshape((*reversed(n),
valuedim))` succeeds **iff** the data block holds `prod(n)·valuedim` values - one more or one fewer
and no field is returned. -/
theorem unflatten_ok_iff {α} (n : List Nat) (vd : Nat) (flat : List α) (d : α) :
    (∃ arr, unflatten n vd flat d = .ok arr) ↔ flat.length = natProd n * vd := by
  unfold unflatten
  rw [natProd_append1, natProd_reverse]
  constructor
  · rintro ⟨arr, h⟩
    split at h
    · cases h
    · rename_i hne; simpa using hne
  · intro h
    rw [if_neg (by simpa using h)]
    exact ⟨_, rfl⟩

/-- **Payload round trip, total form** (no hypothesis on an intermediate result): for an array of shape
`(nx, ny, nz, nv)` the reader's reshape of the writer's payload succeeds, and every value is back in its
own cell and component. -/
theorem payload_roundtrip_total {α} (f : OField α) (nx ny nz nv : Nat) (hs : f.arr.shape = [nx, ny, nz, nv]) (d : α) :
    ∃ arr, unflatten [nx, ny, nz] nv (flatPayload f) d = .ok arr ∧ arr.shape = f.arr.shape ∧
      ∀ i j k c, i < nx → j < ny → k < nz → c < nv → arr.get [i, j, k, c] = f.arr.get [i, j, k, c] := by
  obtain ⟨arr, harr⟩ := (unflatten_ok_iff [nx, ny, nz] nv (flatPayload f) d).mpr (by
    rw [flatPayload_length f nx ny nz nv hs]; simp [natProd]; ring)
  refine ⟨arr, harr, ?_, ?_⟩
  · rw [(unflatten_get nx ny nz nv _ d arr harr 0 0 0 0).2, hs]
  · intro i j k c hi hj hk hc
    exact (payload_roundtrip f nx ny nz nv hs d arr harr i j k c hi hj hk hc).1

/-- **Which recovered labels the `Field` constructor accepts** (the `vdims` setter, as an
equivalence): for a non-empty list of labels read from `valuelabels`, the field is built **iff** there
are exactly `valuedim` of them, all different, none the name of a `Field` attribute; the field then
carries exactly these labels.  (`labelcount`, `label:norm` files of the harness are the refused side.) -/
theorem labels_accepted_iff (reserved : String → Bool) (vd : Nat) (v : String) (vs : List String)
    (r : Option (List String)) :
    vdimsSetter reserved vd (some (v :: vs)) = .ok r ↔
      (v :: vs).length = vd ∧ hasDup (v :: vs) = false ∧ (∀ x ∈ v :: vs, reserved x = false) ∧ r = some (v :: vs) := by
  simp only [vdimsSetter]
  constructor
  · intro h
    split at h
    · cases h
    · split at h
      · cases h
      · split at h
        · cases h
        · rename_i h1 h2 h3
          injection h with h
          refine ⟨by simpa using h1, by simpa using h2, ?_, h.symm⟩
          intro x hx
          have h3' : (v :: vs).any reserved = false := by simpa using h3
          rw [List.any_eq_false] at h3'
          simpa using h3' x hx
  · rintro ⟨h1, h2, h3, rfl⟩
    have : (v :: vs).any reserved = false := by
      rw [List.any_eq_false]; intro x hx; rw [h3 x hx]; exact Bool.false_ne_true
    rw [if_neg (by simpa using h1), h2, this]
    simp


end DFV.C09
