import DFV.Lemmas.C03k
/-!
# C03 — field algebra is cell-wise numpy algebra on one mesh; operands stay untouched

Property theorems about the model of `Field._apply_operator`, the reflected operators,
`dot`, `cross`, `angle`, `__lshift__`, the complex parts and `__array_ufunc__`
(`DFV/Model/C03.lean`).  The quantifier "for all programs" is the induction over the
inductive type `Expr` (`eval_cellwise`); meshes, cell counts, component counts, values
(Gaussian rationals), masks, labels, operands and the non-rational functions
`sq / acos / arg` are universally quantified.

`evalF` is the code-shaped evaluator (array level: NumPy broadcasting `bshape/bproj`,
`einsum`, `cross`, `stack`, the constructor with its `np.full` broadcast); `evalCell` /
`validCell` are the per-cell specification: the same expression on the component lists of
one cell.
-/
namespace DFV.C03
open DFV

/-! ## concrete objects for the non-vacuity examples -/

def exRegion : Region := { pmin := [0], pmax := [2], dims := ["x"], units := ["m"], tol := 1/1000000000000 }
def exRegion2 : Region := { pmin := [5], pmax := [7], dims := ["x"], units := ["m"], tol := 1/1000000000000 }
def exMesh : Mesh := { region := exRegion, n := [2], bc := "", subs := [] }
def exMesh2 : Mesh := { region := exRegion2, n := [2], bc := "", subs := [] }
def exData (a b c d : Rat) : NDA GQ := NDA.ofList [2, 2] [⟨a, 0⟩, ⟨b, 0⟩, ⟨c, 0⟩, ⟨d, 1⟩] GQ.zero
def exValid (p q : Bool) : NDA Bool := NDA.ofList [2] [p, q] false
/-- two-component field labelled `a, b`, second cell invalid -/
def exA : CF := { mesh := exMesh, nvdim := 2, data := exData 1 2 3 4, valid := exValid true false,
                  vdims := some ["a", "b"], vmap := [], unit := some "T", kind := .complex }
/-- two-component field labelled `p, q` on the same mesh -/
def exB : CF := { exA with data := exData 5 6 7 8, valid := exValid true true, vdims := some ["p", "q"] }
/-- a field with the same cell counts on a different mesh -/
def exC : CF := { exB with mesh := exMesh2 }
/-- scalar field -/
def exS : CF := { mesh := exMesh, nvdim := 1, data := NDA.ofList [2, 1] [⟨2, 0⟩, ⟨3, 0⟩] GQ.zero,
                  valid := exValid true true, vdims := none, vmap := [], unit := none, kind := .float }
def exEnv : Env := { fields := [exA, exB, exC, exS], sq := id, acos := id, arg := fun _ => 0 }
def exVec : Opd := .arr (NDA.ofList [2] [⟨1, 0⟩, ⟨-1, 0⟩] GQ.zero) .float false
def exNpVec : Opd := .arr (NDA.ofList [2] [⟨1, 0⟩, ⟨-1, 0⟩] GQ.zero) .float true
def evalOk (env : Env) (e : Expr) : Bool :=
  match evalF env e with
  | .ok (.fld _) => true
  | _ => false
def exTree : Expr :=
  .bin .sub (.opd exVec) (.bin .mul (.un .neg (.leaf 0)) (.bin .dot (.leaf 1) (.un .uconjugate (.leaf 0))))

example : ∀ f ∈ exEnv.fields, CFwf f ∧ f.mesh.n = [2] := by
  intro f hf
  simp only [exEnv, List.mem_cons, List.not_mem_nil, or_false] at hf
  rcases hf with rfl | rfl | rfl | rfl <;> exact ⟨⟨rfl, rfl, by decide⟩, rfl⟩

/-! ## programs: the field-level evaluator is the per-cell evaluator, cell by cell -/

/-- **Central theorem (induction over expression trees).**  For every environment of
well-formed fields with cell counts `n`, every expression tree `e` (any depth; unary
`+ - abs`, complex parts, unary / binary ufuncs, `+ - * / **` in forward, reflected and
NumPy-dispatched form, `dot`, `cross`, `<<`, `angle`, numbers, constant vectors and
per-cell arrays of any broadcastable shape): if the field-level evaluation succeeds with
a field `g`, then `g` is well-formed on a mesh with the same cell counts and the
components of **every cell** of `g` are the same expression evaluated on the component
lists of that cell under NumPy broadcasting. -/
theorem eval_cellwise (env : Env) (n : List Nat) (hwf : ∀ f ∈ env.fields, CFwf f ∧ f.mesh.n = n)
    (e : Expr) (hok : LiftOk n e) (g : CF) (h : evalF env e = .ok (.fld g)) :
    CFwf g ∧ g.mesh.n = n ∧
      ∀ i, inRange n i = true → cellOf g.data i g.nvdim = evalCell env e i := by
  obtain ⟨hc, _⟩ := eval_good env n hwf e (.fld g) hok h
  have hc' : Cells n g (evalCell env e) (validCell env e) := hc
  exact ⟨hc'.1, hc'.2.1, fun i hi => (hc'.2.2 i hi).1⟩

example : evalOk exEnv exTree = true := by decide +kernel
example : LiftOk [2] exTree := by simp [exTree, LiftOk]

/-- validity of every cell of the result is `validCell`: the AND of the operands' masks -/
theorem eval_valid (env : Env) (n : List Nat) (hwf : ∀ f ∈ env.fields, CFwf f ∧ f.mesh.n = n)
    (e : Expr) (hok : LiftOk n e) (g : CF) (h : evalF env e = .ok (.fld g)) :
    ∀ i, inRange n i = true → g.valid.get i = validCell env e i := by
  obtain ⟨hc, _⟩ := eval_good env n hwf e (.fld g) hok h
  have hc' : Cells n g (evalCell env e) (validCell env e) := hc
  exact fun i hi => (hc'.2.2 i hi).2

/-- validity of leaf `k` at cell `i` -/
def leafValid (env : Env) (i : List Nat) (k : Nat) : Bool :=
  match env.fields[k]? with
  | some f => f.valid.get i
  | none => true

/-- the validity of a cell of the result is the AND over **all field leaves** of the
expression (operators, reflected operators and — since the repair of D22 — ufuncs alike) -/
theorem valid_is_and_of_leaves (env : Env) (e : Expr) (i : List Nat) :
    validCell env e i = e.leaves.all (leafValid env i) := by
  induction e with
  | leaf k => cases hk : env.fields[k]? <;> simp [validCell, Expr.leaves, leafValid, hk]
  | opd o => simp [validCell, Expr.leaves]
  | un u e ih => simp only [validCell, Expr.leaves]; exact ih
  | bin b l r ihl ihr => simp only [validCell, Expr.leaves, List.all_append, ihl, ihr]

example : exTree.leaves = [0, 1, 0] := by decide

/-- **the result lives on the mesh of its operands**: the mesh of the result is the mesh of
the leftmost field leaf -/
theorem eval_mesh (env : Env) (n : List Nat) (hwf : ∀ f ∈ env.fields, CFwf f ∧ f.mesh.n = n)
    (e : Expr) (hok : LiftOk n e) (g : CF) (h : evalF env e = .ok (.fld g)) :
    ∃ k f, e.firstLeaf = some k ∧ env.fields[k]? = some f ∧ g.mesh = f.mesh :=
  (eval_good env n hwf e (.fld g) hok h).2 g rfl

/-- fields on one mesh `M` ⇒ every expression over them yields a field on `M` -/
theorem eval_one_mesh (env : Env) (M : Mesh) (hM : ∀ f ∈ env.fields, CFwf f ∧ f.mesh = M)
    (e : Expr) (hok : LiftOk M.n e) (g : CF) (h : evalF env e = .ok (.fld g)) : g.mesh = M := by
  obtain ⟨k, f, _, hf, hm⟩ := eval_mesh env M.n (fun f hf => ⟨(hM f hf).1, by rw [(hM f hf).2]⟩) e hok g h
  rw [hm]
  exact (hM f (List.mem_of_getElem? hf)).2

/-- a scalar field broadcasts over the components of a vector field: cell by cell, every
component is combined with the one value of the scalar field -/
theorem scalar_field_broadcasts (fn : GQ → GQ → GQ) (x : GQ) (ys : List GQ) :
    bz fn [x] ys = ys.map (fn x) := by
  unfold bz
  apply List.ext_getElem
  · simp
  · intro c h1 h2
    simp only [List.length_cons, List.length_nil, Nat.zero_add, if_true, getElem_tab, List.getElem_map,
      List.getD_cons_zero]
    by_cases h : ys.length = 1
    · have hc : c = 0 := by simp [h] at h1; omega
      subst hc
      simp [h, List.getD_eq_getElem?_getD]
    · simp only [h, if_false]
      congr 1
      have : c < ys.length := by simpa using h2
      simp [List.getD_eq_getElem?_getD, List.getElem?_eq_getElem this]

/-! ## `a ∘ b` and `b ∘ a` -/

/-- **values and validity commute** (`∘ ∈ {+, *}`): if both orders are accepted, every cell
of `a∘b` equals the cell of `b∘a`, and so does its validity — whichever of the forward,
reflected or `__array_ufunc__` paths the operand types select. -/
theorem comm_values (env : Env) (n : List Nat) (hwf : ∀ f ∈ env.fields, CFwf f ∧ f.mesh.n = n)
    (b : BinOp) (hb : b = .add ∨ b = .mul) (x y : Expr) (hx : LiftOk n x) (hy : LiftOk n y) (g1 g2 : CF)
    (h1 : evalF env (.bin b x y) = .ok (.fld g1)) (h2 : evalF env (.bin b y x) = .ok (.fld g2)) :
    ∀ i, inRange n i = true →
      cellOf g1.data i g1.nvdim = cellOf g2.data i g2.nvdim ∧ g1.valid.get i = g2.valid.get i := by
  have hok1 : LiftOk n (.bin b x y) := ⟨hx, hy, by rcases hb with rfl | rfl <;> simp⟩
  have hok2 : LiftOk n (.bin b y x) := ⟨hy, hx, by rcases hb with rfl | rfl <;> simp⟩
  obtain ⟨_, _, hc1⟩ := eval_cellwise env n hwf _ hok1 g1 h1
  obtain ⟨_, _, hc2⟩ := eval_cellwise env n hwf _ hok2 g2 h2
  have hv1 := eval_valid env n hwf _ hok1 g1 h1
  have hv2 := eval_valid env n hwf _ hok2 g2 h2
  -- component lists of the two operands can be broadcast
  simp only [evalF] at h1
  cases hex : evalF env x with
  | error e => simp [hex] at h1
  | ok vx =>
    simp only [hex] at h1
    cases hey : evalF env y with
    | error e => simp [hey] at h1
    | ok vy =>
      simp only [hey] at h1
      obtain ⟨hcx, _⟩ := eval_good env n hwf x vx hx hex
      obtain ⟨hcy, _⟩ := eval_good env n hwf y vy hy hey
      have hcompat := applyBin_compat env b hb n vx vy g1 _ _ _ _ hcx hcy h1
      intro i hi
      refine ⟨?_, ?_⟩
      · rw [hc1 i hi, hc2 i hi]
        simp only [evalCell]
        rcases hb with rfl | rfl
        · exact bz_comm GQ.add GQ.add_comm' _ _ (hcompat i hi)
        · exact bz_comm GQ.mul GQ.mul_comm' _ _ (hcompat i hi)
      · rw [hv1 i hi, hv2 i hi]
        simp only [validCell]
        exact Bool.and_comm _ _

example : evalOk exEnv (.bin .add (.leaf 0) (.leaf 1)) = true ∧ evalOk exEnv (.bin .add (.leaf 1) (.leaf 0)) = true := by
  decide +kernel

/-- with a plain Python operand (number, list, tuple) on the left, `o ∘ f` **is** `f ∘ o`
(`__radd__`/`__rmul__` call the forward operator): the whole result — values, validity,
labels, mapping, unit, errors — is the same -/
theorem comm_reflected (env : Env) (b : BinOp) (hb : b = .add ∨ b = .mul) (o : Opd) (hnp : isNp o = false)
    (e : Expr) : evalF env (.bin b (.opd o) e) = evalF env (.bin b e (.opd o)) := by
  simp only [evalF]
  cases he : evalF env e with
  | error er => rfl
  | ok v =>
    cases v with
    | raw o2 => rcases hb with rfl | rfl <;> simp [applyBin]
    | fld f => rcases hb with rfl | rfl <;> simp [applyBin, hnp, reflectedOp, forwardOp, binFn, isPow]

example : isNp exVec = false := rfl

/-- **labels and mapping commute in the provable cases** (`comm_meta_partial`): for two
fields, `self ∘ other` and `other ∘ self` (any elementwise operator) carry the same
labels, mapping and component count when one of them is a scalar field and the other a
vector field (repaired defect D8), or when both carry the same labels and mapping. -/
theorem comm_meta_partial (fn fn' : GQ → GQ → GQ) (pw : Bool) (f o g1 g2 : CF)
    (hf : CFwf f) (ho : CFwf o) (hn : f.mesh.n = o.mesh.n)
    (hcase : (f.nvdim = 1 ∧ 1 < o.nvdim) ∨ (o.nvdim = 1 ∧ 1 < f.nvdim) ∨ (f.vdims = o.vdims ∧ f.vmap = o.vmap))
    (h1 : applyOperator fn pw f (.fld o) = .ok g1) (h2 : applyOperator fn' pw o (.fld f) = .ok g2) :
    g1.nvdim = g2.nvdim ∧ g1.vdims = g2.vdims ∧ g1.vmap = g2.vmap := by
  obtain ⟨hb1, hvd1, hvm1, _⟩ := applyOperator_fld_meta fn pw f o g1 hf ho hn h1
  obtain ⟨hb2, hvd2, hvm2, _⟩ := applyOperator_fld_meta fn' pw o f g2 ho hf hn.symm h2
  have hnv : g1.nvdim = g2.nvdim := by
    rw [bdim_comm] at hb1
    rw [hb1] at hb2
    injection hb2
  rw [hnv] at hvd1 hvm1
  rw [vmapSet_some_mesh _ _ o.mesh.region.ndim _ _ o.mesh.region.dims] at hvm1
  have hsrc : (if f.nvdim = 1 ∧ 1 < o.nvdim then o.vdims else f.vdims) =
      (if o.nvdim = 1 ∧ 1 < f.nvdim then f.vdims else o.vdims) ∧
      (if f.nvdim = 1 ∧ 1 < o.nvdim then o.vmap else f.vmap) =
      (if o.nvdim = 1 ∧ 1 < f.nvdim then f.vmap else o.vmap) := by
    rcases hcase with ⟨ha, hb⟩ | ⟨ha, hb⟩ | ⟨ha, hb⟩
    · have h' : ¬ (o.nvdim = 1 ∧ 1 < f.nvdim) := by omega
      simp [ha, hb]
    · have h' : ¬ (f.nvdim = 1 ∧ 1 < o.nvdim) := by omega
      simp [ha, hb]
    · rw [ha, hb]; simp
  rw [hsrc.1] at hvd1
  rw [hvd1] at hvd2
  injection hvd2 with hvd
  rw [hsrc.2, hvd] at hvm1
  rw [hvm1] at hvm2
  injection hvm2 with hvm
  exact ⟨hnv, hvd, hvm⟩

example : evalOk exEnv (.bin .mul (.leaf 3) (.leaf 0)) = true ∧ evalOk exEnv (.bin .mul (.leaf 0) (.leaf 3)) = true := by
  decide +kernel

/-- labels of the result of evaluating `e`, if it is a field -/
def labelsOf (env : Env) (e : Expr) : Option (Option (List String)) :=
  match evalF env e with
  | .ok (.fld g) => some g.vdims
  | _ => none

/-- **`comm_meta` at full strength is false of the code** (open known finding D10): two
two-component fields with different labels — `a + b` carries the labels of `a`, `b + a`
those of `b`. -/
theorem comm_meta_fails :
    labelsOf exEnv (.bin .add (.leaf 0) (.leaf 1)) = some (some ["a", "b"]) ∧
    labelsOf exEnv (.bin .add (.leaf 1) (.leaf 0)) = some (some ["p", "q"]) := by
  decide +kernel

/-! ## stacking the components of a vector field -/

/-- **`f.l₀ << f.l₁ << … << f.lₖ₋₁` reproduces `f`** for every number of components `k`,
every mesh and every data: the same values in every cell, the same validity, the same
mesh, `k` components.  The labels of the stack are the default labels and its mapping the
default mapping (component fields are unlabelled scalars). -/
theorem stack_components (n : List Nat) (f g : CF) (hw : CFwf f) (hn : f.mesh.n = n) (vd : List String)
    (hvd : f.vdims = some vd) (hlen : vd.length = f.nvdim) (hnd : hasDup vd = false)
    (h : stackComps f = .ok g) :
    g.mesh = f.mesh ∧ g.nvdim = f.nvdim ∧
    (∀ i, inRange n i = true →
      cellOf g.data i g.nvdim = cellOf f.data i f.nvdim ∧ g.valid.get i = f.valid.get i) ∧
    g.vdims = Fld.defaultVdims f.nvdim ∧
    vmapSet f.nvdim f.mesh.region.ndim (Fld.defaultVdims f.nvdim) f.mesh.region.dims none = .ok g.vmap := by
  have hf : Cells n f (fun i => cellOf f.data i f.nvdim) (fun i => f.valid.get i) :=
    ⟨hw, hn, fun _ _ => ⟨rfl, rfl⟩⟩
  obtain ⟨hc, hm, hnv, hvd', hvm'⟩ := stackComps_inv n f g _ _ hf vd hvd hlen hnd h
  refine ⟨hm, hnv, ?_, hvd', hvm'⟩
  intro i hi
  obtain ⟨h1, h2⟩ := hc.2.2 i hi
  refine ⟨?_, h2⟩
  rw [h1]
  show (cellOf f.data i f.nvdim).take f.nvdim = _
  rw [List.take_of_length_le (by rw [cellOf_length])]

def stackOk (f : CF) : Bool :=
  match stackComps f with
  | .ok _ => true
  | _ => false
example : stackOk exA = true ∧ hasDup ["a", "b"] = false := by decide +kernel

/-- if `f` carries the default labels and the default mapping, the stack also reproduces
labels and mapping -/
theorem stack_components_meta (n : List Nat) (f g : CF) (hw : CFwf f) (hn : f.mesh.n = n) (vd : List String)
    (hvd : f.vdims = some vd) (hlen : vd.length = f.nvdim) (hnd : hasDup vd = false)
    (hdef : f.vdims = Fld.defaultVdims f.nvdim)
    (hmap : vmapSet f.nvdim f.mesh.region.ndim (Fld.defaultVdims f.nvdim) f.mesh.region.dims none = .ok f.vmap)
    (h : stackComps f = .ok g) : g.vdims = f.vdims ∧ g.vmap = f.vmap := by
  obtain ⟨_, _, _, hvd', hvm'⟩ := stack_components n f g hw hn vd hvd hlen hnd h
  rw [hmap] at hvm'
  injection hvm' with hvm'
  exact ⟨by rw [hvd', hdef], hvm'.symm⟩

/-! ## refusals -/

/-- **fields on different meshes are refused** by every operator-path operation
(`+ - * / **`, `dot`, `cross`, `angle`): if `Mesh.allclose` does not hold (or the axis
names differ) the step is an error, whatever the data. -/
theorem mismatch_rejected_mesh (env : Env) (b : BinOp) (hu : isUfuncBin b = false) (hb : b ≠ .shl)
    (f o : CF) (hm : meshAllclose f.mesh o.mesh ≠ .ok true) :
    ∃ e, applyBin env b (.fld f) (.fld o) = .error e := by
  by_cases hs : b = .dot ∨ b = .cross ∨ b = .angle
  · obtain ⟨e, he⟩ := checkSame_mesh f o false hm
    obtain ⟨e', he'⟩ := forwardOp_checks env b f o true (fun _ => hs) hb e (by simpa using he) hu (fun _ => rfl)
    refine ⟨e', ?_⟩
    cases b <;> simp [isUfuncBin] at hu <;> simp only [applyBin, he']
  · obtain ⟨e, he⟩ := checkSame_mesh f o true hm
    obtain ⟨e', he'⟩ := forwardOp_checks env b f o false (by simp) hb e (by simpa using he) hu
      (fun h => absurd h hs)
    refine ⟨e', ?_⟩
    cases b <;> simp [isUfuncBin] at hu <;> simp only [applyBin, he']

example : meshAllclose exA.mesh exC.mesh ≠ .ok true := by decide +kernel

/-- `<<` compares the meshes with `!=` -/
theorem shl_rejects_other_mesh (f o : CF) (hm : meshEq f.mesh o.mesh = false) :
    ∃ e, shlFF f o = .error e := by
  unfold shlFF
  simp [hm]

/-- **incompatible component counts are refused**: `k ≠ l`, both above 1, under
`+ - * / **`; any `k ≠ l` under `dot`, `cross`, `angle` -/
theorem mismatch_rejected_nvdim (env : Env) (b : BinOp) (hu : isUfuncBin b = false) (hb : b ≠ .shl)
    (f o : CF) (hne : f.nvdim ≠ o.nvdim)
    (h1 : (b = .dot ∨ b = .cross ∨ b = .angle) ∨ (f.nvdim ≠ 1 ∧ o.nvdim ≠ 1)) :
    ∃ e, applyBin env b (.fld f) (.fld o) = .error e := by
  by_cases hs : b = .dot ∨ b = .cross ∨ b = .angle
  · obtain ⟨e, he⟩ := checkSame_nvdim_strict f o hne
    obtain ⟨e', he'⟩ := forwardOp_checks env b f o true (fun _ => hs) hb e (by simpa using he) hu (fun _ => rfl)
    refine ⟨e', ?_⟩
    cases b <;> simp [isUfuncBin] at hu <;> simp only [applyBin, he']
  · have h2 : f.nvdim ≠ 1 ∧ o.nvdim ≠ 1 := by
      rcases h1 with h1 | h1
      · exact absurd h1 hs
      · exact h1
    obtain ⟨e, he⟩ := checkSame_nvdim f o hne h2.1 h2.2 true
    obtain ⟨e', he'⟩ := forwardOp_checks env b f o false (by simp) hb e (by simpa using he) hu
      (fun h => absurd h hs)
    refine ⟨e', ?_⟩
    cases b <;> simp [isUfuncBin] at hu <;> simp only [applyBin, he']

/-- `cross` needs three components on both sides -/
theorem cross_needs_three (f o : CF) (h : f.nvdim ≠ 3 ∨ o.nvdim ≠ 3) : ∃ e, crossOp f (.fld o) = .error e := by
  simp only [crossOp]
  cases checkSame f o false with
  | error e => exact ⟨e, rfl⟩
  | ok u => exact ⟨.value, by simp [h]⟩

/-- **binary ufuncs refuse fields on different meshes too** (repaired defect D23):
`np.add(f, g)`, `np.maximum(f, g)`, … are an error when `Mesh.allclose` does not hold -/
theorem mismatch_rejected_mesh_ufunc (fn : GQ → GQ → GQ) (pw : Bool) (f o : CF)
    (hm : meshAllclose f.mesh o.mesh ≠ .ok true) : ∃ e, ufunc2 fn pw (.fld f) (.fld o) = .error e := by
  unfold ufunc2
  simp only [firstFld, ufuncInput]
  cases h1 : ufuncMeshOk f (.fld f) with
  | error e => exact ⟨e, rfl⟩
  | ok u =>
    simp only
    have : ∃ e, ufuncMeshOk f (.fld o) = .error e := by
      simp only [ufuncMeshOk]
      cases hmm : meshAllclose f.mesh o.mesh with
      | error e => exact ⟨e, rfl⟩
      | ok t =>
        cases t with
        | false => exact ⟨_, rfl⟩
        | true => exact absurd hmm hm
    obtain ⟨e, he⟩ := this
    exact ⟨e, by rw [he]⟩

example : evalOk exEnv (.bin .uadd (.leaf 0) (.leaf 2)) = false ∧ evalOk exEnv (.bin .add (.leaf 0) (.leaf 2)) = false ∧
    evalOk exEnv (.bin .uadd (.leaf 0) (.leaf 1)) = true := by
  decide +kernel

example : evalOk exEnv (.bin .mul (.opd exNpVec) (.leaf 0)) = true := by decide +kernel

/-! ## labels, mapping and unit through the unary operations -/

/-- labels and mapping survive one constructor round trip -/
def MetaStable (f : CF) : Prop :=
  vdimsSet f.nvdim f.vdims = .ok f.vdims ∧
  vmapSet f.nvdim f.mesh.region.ndim f.vdims f.mesh.region.dims (some f.vmap) = .ok f.vmap

/-- `-f`, `abs(f)`, `f.real`, `f.imag`, `f.conjugate`, `f.abs`, `f.phase` keep component
count, labels and mapping; `abs`, `real`, `imag`, `conjugate` also keep the unit
(`abs_keeps_labels`, repaired defect D9) -/
theorem unary_keeps_meta (fn : GQ → GQ) (rk : Kind → Kind) (keepUnit : Bool) (f g : CF) (hs : MetaStable f)
    (h : mapField fn rk keepUnit f = .ok g) :
    g.nvdim = f.nvdim ∧ g.vdims = f.vdims ∧ g.vmap = f.vmap ∧ g.mesh = f.mesh ∧
      g.unit = (if keepUnit then f.unit else none) := by
  unfold mapField at h
  obtain ⟨hm, hn, _, hu, _, _, _, _, _, _, _, hvd, hvm, _⟩ := mkField_ok _ _ _ _ _ _ _ _ _ h
  rw [hs.1] at hvd
  injection hvd with hvd
  rw [← hvd, hs.2] at hvm
  injection hvm with hvm
  exact ⟨hn, hvd.symm, hvm.symm, hm, hu⟩

example : MetaStable exA := by
  constructor <;> decide +kernel

example : evalOk exEnv (.un .abs (.leaf 0)) = true := by decide +kernel

end DFV.C03
