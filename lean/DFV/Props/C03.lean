import DFV.Lemmas.C03Alg
/-!
# C03 — field algebra is cell-wise numpy algebra on one mesh; operands stay untouched

Property theorems about the model of `Field._apply_operator`, the reflected operators,
`dot`, `cross`, `angle`, `__lshift__`, the complex parts and `__array_ufunc__`
(`DFV/Model/C03.lean`).  The quantifier "for all programs" is the induction over the
inductive type `Expr` (`eval_cellwise`); meshes, cell counts, component counts, values
(Gaussian rationals), masks, labels, operands and the non-rational functions
`sq / acos / arg` are universally quantified.

`evalF` is the code-shaped evaluator (array level: NumPy broadcasting `bshape/bproj`,
`einsum`, `cross`, `stack`, the constructor with its `np.full` broadcast); `evalCell` /
`validCell` are the per-cell specification: the same expression on the component lists of
one cell.
-/
namespace DFV.C03
open DFV

/-! ## concrete objects for the non-vacuity examples -/

def exRegion : Region := { pmin := [0], pmax := [2], dims := ["x"], units := ["m"], tol := 1/1000000000000 }
def exRegion2 : Region := { pmin := [5], pmax := [7], dims := ["x"], units := ["m"], tol := 1/1000000000000 }
def exMesh : Mesh := { region := exRegion, n := [2], bc := "", subs := [] }
def exMesh2 : Mesh := { region := exRegion2, n := [2], bc := "", subs := [] }
def exData (a b c d : Rat) : NDA GQ := NDA.ofList [2, 2] [⟨a, 0⟩, ⟨b, 0⟩, ⟨c, 0⟩, ⟨d, 1⟩] GQ.zero
def exValid (p q : Bool) : NDA Bool := NDA.ofList [2] [p, q] false
/-- two-component field labelled `a, b`, second cell invalid -/
def exA : CF := { mesh := exMesh, nvdim := 2, data := exData 1 2 3 4, valid := exValid true false,
                  vdims := some ["a", "b"], vmap := [], unit := some "T", kind := .complex }
/-- two-component field labelled `p, q` on the same mesh -/
def exB : CF := { exA with data := exData 5 6 7 8, valid := exValid true true, vdims := some ["p", "q"] }
/-- a field with the same cell counts on a different mesh -/
def exC : CF := { exB with mesh := exMesh2 }
/-- scalar field -/
def exS : CF := { mesh := exMesh, nvdim := 1, data := NDA.ofList [2, 1] [⟨2, 0⟩, ⟨3, 0⟩] GQ.zero,
                  valid := exValid true true, vdims := none, vmap := [], unit := none, kind := .float }
def exEnv : Env := { fields := [exA, exB, exC, exS], sq := id, acos := id, arg := fun _ => 0 }
def exVec : Opd := .arr (NDA.ofList [2] [⟨1, 0⟩, ⟨-1, 0⟩] GQ.zero) .float false
def exNpVec : Opd := .arr (NDA.ofList [2] [⟨1, 0⟩, ⟨-1, 0⟩] GQ.zero) .float true
def evalOk (env : Env) (e : Expr) : Bool :=
  match evalF env e with
  | .ok (.fld _) => true
  | _ => false
def exTree : Expr :=
  .bin .sub (.opd exVec) (.bin .mul (.un .neg (.leaf 0)) (.bin .dot (.leaf 1) (.un .uconjugate (.leaf 0))))

example : ∀ f ∈ exEnv.fields, CFwf f ∧ f.mesh.n = [2] := by
  intro f hf
  simp only [exEnv, List.mem_cons, List.not_mem_nil, or_false] at hf
  rcases hf with rfl | rfl | rfl | rfl <;> exact ⟨⟨rfl, rfl, by decide⟩, rfl⟩

/-! ## programs: the field-level evaluator is the per-cell evaluator, cell by cell -/

/-- **Central theorem (induction over expression trees).**  For every environment of
well-formed fields with cell counts `n`, every expression tree `e` (any depth; unary
`+ - abs`, complex parts, unary / binary ufuncs, `+ - * / **` in forward, reflected and
NumPy-dispatched form, `dot`, `cross`, `<<`, `angle`, numbers, constant vectors and
per-cell arrays of any broadcastable shape): if the field-level evaluation succeeds with
a field `g`, then `g` is well-formed on a mesh with the same cell counts and the
components of **every cell** of `g` are the same expression evaluated on the component
lists of that cell under NumPy broadcasting. -/
theorem eval_cellwise (env : Env) (n : List Nat) (hwf : ∀ f ∈ env.fields, CFwf f ∧ f.mesh.n = n)
    (e : Expr) (hok : LiftOk n e) (g : CF) (h : evalF env e = .ok (.fld g)) :
    CFwf g ∧ g.mesh.n = n ∧
      ∀ i, inRange n i = true → cellOf g.data i g.nvdim = evalCell env e i := by
  obtain ⟨hc, _⟩ := eval_good env n hwf e (.fld g) hok h
  have hc' : Cells n g (evalCell env e) (validCell env e) := hc
  exact ⟨hc'.1, hc'.2.1, fun i hi => (hc'.2.2 i hi).1⟩

example : evalOk exEnv exTree = true := by decide +kernel
example : LiftOk [2] exTree := by simp [exTree, LiftOk]

/-- validity of every cell of the result is `validCell`: the AND of the operands' masks -/
theorem eval_valid (env : Env) (n : List Nat) (hwf : ∀ f ∈ env.fields, CFwf f ∧ f.mesh.n = n)
    (e : Expr) (hok : LiftOk n e) (g : CF) (h : evalF env e = .ok (.fld g)) :
    ∀ i, inRange n i = true → g.valid.get i = validCell env e i := by
  obtain ⟨hc, _⟩ := eval_good env n hwf e (.fld g) hok h
  have hc' : Cells n g (evalCell env e) (validCell env e) := hc
  exact fun i hi => (hc'.2.2 i hi).2

/-- validity of leaf `k` at cell `i` -/
def leafValid (env : Env) (i : List Nat) (k : Nat) : Bool :=
  match env.fields[k]? with
  | some f => f.valid.get i
  | none => true

/-- the validity of a cell of the result is the AND over **all field leaves** of the
expression (operators, reflected operators and — since the repair of D22 — ufuncs alike) -/
theorem valid_is_and_of_leaves (env : Env) (e : Expr) (i : List Nat) :
    validCell env e i = e.leaves.all (leafValid env i) := by
  induction e with
  | leaf k => cases hk : env.fields[k]? <;> simp [validCell, Expr.leaves, leafValid, hk]
  | opd o => simp [validCell, Expr.leaves]
  | un u e ih => simp only [validCell, Expr.leaves]; exact ih
  | bin b l r ihl ihr => simp only [validCell, Expr.leaves, List.all_append, ihl, ihr]

example : exTree.leaves = [0, 1, 0] := by decide

/-- **the result lives on the mesh of its operands**: the mesh of the result is the mesh of
the leftmost field leaf -/
theorem eval_mesh (env : Env) (n : List Nat) (hwf : ∀ f ∈ env.fields, CFwf f ∧ f.mesh.n = n)
    (e : Expr) (hok : LiftOk n e) (g : CF) (h : evalF env e = .ok (.fld g)) :
    ∃ k f, e.firstLeaf = some k ∧ env.fields[k]? = some f ∧ g.mesh = f.mesh :=
  (eval_good env n hwf e (.fld g) hok h).2 g rfl

/-- fields on one mesh `M` ⇒ every expression over them yields a field on `M` -/
theorem eval_one_mesh (env : Env) (M : Mesh) (hM : ∀ f ∈ env.fields, CFwf f ∧ f.mesh = M)
    (e : Expr) (hok : LiftOk M.n e) (g : CF) (h : evalF env e = .ok (.fld g)) : g.mesh = M := by
  obtain ⟨k, f, _, hf, hm⟩ := eval_mesh env M.n (fun f hf => ⟨(hM f hf).1, by rw [(hM f hf).2]⟩) e hok g h
  rw [hm]
  exact (hM f (List.mem_of_getElem? hf)).2

/-- a scalar field broadcasts over the components of a vector field: cell by cell, every
component is combined with the one value of the scalar field -/
theorem scalar_field_broadcasts (fn : GQ → GQ → GQ) (x : GQ) (ys : List GQ) :
    bz fn [x] ys = ys.map (fn x) := by
  unfold bz
  apply List.ext_getElem
  · simp
  · intro c h1 h2
    simp only [List.length_cons, List.length_nil, Nat.zero_add, if_true, getElem_tab, List.getElem_map,
      List.getD_cons_zero]
    by_cases h : ys.length = 1
    · have hc : c = 0 := by simp [h] at h1; omega
      subst hc
      simp [h, List.getD_eq_getElem?_getD]
    · simp only [h, if_false]
      congr 1
      have : c < ys.length := by simpa using h2
      simp [List.getD_eq_getElem?_getD, List.getElem?_eq_getElem this]

/-! ## `a ∘ b` and `b ∘ a` -/

/-- **values and validity commute** (`∘ ∈ {+, *}`): if both orders are accepted, every cell
of `a∘b` equals the cell of `b∘a`, and so does its validity — whichever of the forward,
reflected or `__array_ufunc__` paths the operand types select. -/
theorem comm_values (env : Env) (n : List Nat) (hwf : ∀ f ∈ env.fields, CFwf f ∧ f.mesh.n = n)
    (b : BinOp) (hb : b = .add ∨ b = .mul) (x y : Expr) (hx : LiftOk n x) (hy : LiftOk n y) (g1 g2 : CF)
    (h1 : evalF env (.bin b x y) = .ok (.fld g1)) (h2 : evalF env (.bin b y x) = .ok (.fld g2)) :
    ∀ i, inRange n i = true →
      cellOf g1.data i g1.nvdim = cellOf g2.data i g2.nvdim ∧ g1.valid.get i = g2.valid.get i := by
  have hok1 : LiftOk n (.bin b x y) := ⟨hx, hy, by rcases hb with rfl | rfl <;> simp⟩
  have hok2 : LiftOk n (.bin b y x) := ⟨hy, hx, by rcases hb with rfl | rfl <;> simp⟩
  obtain ⟨_, _, hc1⟩ := eval_cellwise env n hwf _ hok1 g1 h1
  obtain ⟨_, _, hc2⟩ := eval_cellwise env n hwf _ hok2 g2 h2
  have hv1 := eval_valid env n hwf _ hok1 g1 h1
  have hv2 := eval_valid env n hwf _ hok2 g2 h2
  -- component lists of the two operands can be broadcast
  simp only [evalF] at h1
  cases hex : evalF env x with
  | error e => simp [hex] at h1
  | ok vx =>
    simp only [hex] at h1
    cases hey : evalF env y with
    | error e => simp [hey] at h1
    | ok vy =>
      simp only [hey] at h1
      obtain ⟨hcx, _⟩ := eval_good env n hwf x vx hx hex
      obtain ⟨hcy, _⟩ := eval_good env n hwf y vy hy hey
      have hcompat := applyBin_compat env b hb n vx vy g1 _ _ _ _ hcx hcy h1
      intro i hi
      refine ⟨?_, ?_⟩
      · rw [hc1 i hi, hc2 i hi]
        simp only [evalCell]
        rcases hb with rfl | rfl
        · exact bz_comm GQ.add GQ.add_comm' _ _ (hcompat i hi)
        · exact bz_comm GQ.mul GQ.mul_comm' _ _ (hcompat i hi)
      · rw [hv1 i hi, hv2 i hi]
        simp only [validCell]
        exact Bool.and_comm _ _

example : evalOk exEnv (.bin .add (.leaf 0) (.leaf 1)) = true ∧ evalOk exEnv (.bin .add (.leaf 1) (.leaf 0)) = true := by
  decide +kernel

/-- with a plain Python operand (number, list, tuple) on the left, `o ∘ f` **is** `f ∘ o`
(`__radd__`/`__rmul__` call the forward operator): the whole result — values, validity,
labels, mapping, unit, errors — is the same -/
theorem comm_reflected (env : Env) (b : BinOp) (hb : b = .add ∨ b = .mul) (o : Opd) (hnp : isNp o = false)
    (e : Expr) : evalF env (.bin b (.opd o) e) = evalF env (.bin b e (.opd o)) := by
  simp only [evalF]
  cases he : evalF env e with
  | error er => rfl
  | ok v =>
    cases v with
    | raw o2 => rcases hb with rfl | rfl <;> simp [applyBin]
    | fld f => rcases hb with rfl | rfl <;> simp [applyBin, hnp, reflectedOp, forwardOp, binFn, isPow]

example : isNp exVec = false := rfl

/-- **labels and mapping commute in the provable cases** (`comm_meta_partial`): for two
fields, `self ∘ other` and `other ∘ self` (any elementwise operator) carry the same
labels, mapping and component count when one of them is a scalar field and the other a
vector field (repaired defect D8), or when both carry the same labels and mapping. -/
theorem comm_meta_partial (fn fn' : GQ → GQ → GQ) (pw : Bool) (f o g1 g2 : CF)
    (hf : CFwf f) (ho : CFwf o) (hn : f.mesh.n = o.mesh.n)
    (hcase : (f.nvdim = 1 ∧ 1 < o.nvdim) ∨ (o.nvdim = 1 ∧ 1 < f.nvdim) ∨ (f.vdims = o.vdims ∧ f.vmap = o.vmap))
    (h1 : applyOperator fn pw f (.fld o) = .ok g1) (h2 : applyOperator fn' pw o (.fld f) = .ok g2) :
    g1.nvdim = g2.nvdim ∧ g1.vdims = g2.vdims ∧ g1.vmap = g2.vmap := by
  obtain ⟨hb1, hvd1, hvm1, _⟩ := applyOperator_fld_meta fn pw f o g1 hf ho hn h1
  obtain ⟨hb2, hvd2, hvm2, _⟩ := applyOperator_fld_meta fn' pw o f g2 ho hf hn.symm h2
  have hnv : g1.nvdim = g2.nvdim := by
    rw [bdim_comm] at hb1
    rw [hb1] at hb2
    injection hb2
  rw [hnv] at hvd1 hvm1
  rw [vmapSet_some_mesh _ _ o.mesh.region.ndim _ _ o.mesh.region.dims] at hvm1
  have hsrc : (if f.nvdim = 1 ∧ 1 < o.nvdim then o.vdims else f.vdims) =
      (if o.nvdim = 1 ∧ 1 < f.nvdim then f.vdims else o.vdims) ∧
      (if f.nvdim = 1 ∧ 1 < o.nvdim then o.vmap else f.vmap) =
      (if o.nvdim = 1 ∧ 1 < f.nvdim then f.vmap else o.vmap) := by
    rcases hcase with ⟨ha, hb⟩ | ⟨ha, hb⟩ | ⟨ha, hb⟩
    · have h' : ¬ (o.nvdim = 1 ∧ 1 < f.nvdim) := by omega
      simp [ha, hb]
    · have h' : ¬ (f.nvdim = 1 ∧ 1 < o.nvdim) := by omega
      simp [ha, hb]
    · rw [ha, hb]; simp
  rw [hsrc.1] at hvd1
  rw [hvd1] at hvd2
  injection hvd2 with hvd
  rw [hsrc.2, hvd] at hvm1
  rw [hvm1] at hvm2
  injection hvm2 with hvm
  exact ⟨hnv, hvd, hvm⟩

example : evalOk exEnv (.bin .mul (.leaf 3) (.leaf 0)) = true ∧ evalOk exEnv (.bin .mul (.leaf 0) (.leaf 3)) = true := by
  decide +kernel

/-- labels of the result of evaluating `e`, if it is a field -/
def labelsOf (env : Env) (e : Expr) : Option (Option (List String)) :=
  match evalF env e with
  | .ok (.fld g) => some g.vdims
  | _ => none

/-- **`comm_meta` at full strength is false of the code** (open known finding D10): two
two-component fields with different labels — `a + b` carries the labels of `a`, `b + a`
those of `b`. -/
theorem comm_meta_fails :
    labelsOf exEnv (.bin .add (.leaf 0) (.leaf 1)) = some (some ["a", "b"]) ∧
    labelsOf exEnv (.bin .add (.leaf 1) (.leaf 0)) = some (some ["p", "q"]) := by
  decide +kernel

/-! ## stacking the components of a vector field -/

/-- **`f.l₀ << f.l₁ << … << f.lₖ₋₁` reproduces `f`** for every number of components `k`,
every mesh and every data: the same values in every cell, the same validity, the same
mesh, `k` components.  The labels of the stack are the default labels and its mapping the
default mapping (component fields are unlabelled scalars). -/
theorem stack_components (n : List Nat) (f g : CF) (hw : CFwf f) (hn : f.mesh.n = n) (vd : List String)
    (hvd : f.vdims = some vd) (hlen : vd.length = f.nvdim) (hnd : hasDup vd = false)
    (h : stackComps f = .ok g) :
    g.mesh = f.mesh ∧ g.nvdim = f.nvdim ∧
    (∀ i, inRange n i = true →
      cellOf g.data i g.nvdim = cellOf f.data i f.nvdim ∧ g.valid.get i = f.valid.get i) ∧
    g.vdims = Fld.defaultVdims f.nvdim ∧
    vmapSet f.nvdim f.mesh.region.ndim (Fld.defaultVdims f.nvdim) f.mesh.region.dims none = .ok g.vmap := by
  have hf : Cells n f (fun i => cellOf f.data i f.nvdim) (fun i => f.valid.get i) :=
    ⟨hw, hn, fun _ _ => ⟨rfl, rfl⟩⟩
  obtain ⟨hc, hm, hnv, hvd', hvm'⟩ := stackComps_inv n f g _ _ hf vd hvd hlen hnd h
  refine ⟨hm, hnv, ?_, hvd', hvm'⟩
  intro i hi
  obtain ⟨h1, h2⟩ := hc.2.2 i hi
  refine ⟨?_, h2⟩
  rw [h1]
  show (cellOf f.data i f.nvdim).take f.nvdim = _
  rw [List.take_of_length_le (by rw [cellOf_length])]

def stackOk (f : CF) : Bool :=
  match stackComps f with
  | .ok _ => true
  | _ => false
example : stackOk exA = true ∧ hasDup ["a", "b"] = false := by decide +kernel

/-- if `f` carries the default labels and the default mapping, the stack also reproduces
labels and mapping -/
theorem stack_components_meta (n : List Nat) (f g : CF) (hw : CFwf f) (hn : f.mesh.n = n) (vd : List String)
    (hvd : f.vdims = some vd) (hlen : vd.length = f.nvdim) (hnd : hasDup vd = false)
    (hdef : f.vdims = Fld.defaultVdims f.nvdim)
    (hmap : vmapSet f.nvdim f.mesh.region.ndim (Fld.defaultVdims f.nvdim) f.mesh.region.dims none = .ok f.vmap)
    (h : stackComps f = .ok g) : g.vdims = f.vdims ∧ g.vmap = f.vmap := by
  obtain ⟨_, _, _, hvd', hvm'⟩ := stack_components n f g hw hn vd hvd hlen hnd h
  rw [hmap] at hvm'
  injection hvm' with hvm'
  exact ⟨by rw [hvd', hdef], hvm'.symm⟩

/-! ## refusals -/

/-- **fields on different meshes are refused** by every operator-path operation
(`+ - * / **`, `dot`, `cross`, `angle`): if `Mesh.allclose` does not hold (or the axis
names differ) the step is an error, whatever the data. -/
theorem mismatch_rejected_mesh (env : Env) (b : BinOp) (hu : isUfuncBin b = false) (hb : b ≠ .shl)
    (f o : CF) (hm : meshAllclose f.mesh o.mesh ≠ .ok true) :
    ∃ e, applyBin env b (.fld f) (.fld o) = .error e := by
  by_cases hs : b = .dot ∨ b = .cross ∨ b = .angle
  · obtain ⟨e, he⟩ := checkSame_mesh f o false hm
    obtain ⟨e', he'⟩ := forwardOp_checks env b f o true (fun _ => hs) hb e (by simpa using he) hu (fun _ => rfl)
    refine ⟨e', ?_⟩
    cases b <;> simp [isUfuncBin] at hu <;> simp only [applyBin, he']
  · obtain ⟨e, he⟩ := checkSame_mesh f o true hm
    obtain ⟨e', he'⟩ := forwardOp_checks env b f o false (by simp) hb e (by simpa using he) hu
      (fun h => absurd h hs)
    refine ⟨e', ?_⟩
    cases b <;> simp [isUfuncBin] at hu <;> simp only [applyBin, he']

example : meshAllclose exA.mesh exC.mesh ≠ .ok true := by decide +kernel

/-- `<<` compares the meshes with `!=` -/
theorem shl_rejects_other_mesh (f o : CF) (hm : meshEq f.mesh o.mesh = false) :
    ∃ e, shlFF f o = .error e := by
  unfold shlFF
  simp [hm]

/-- **incompatible component counts are refused**: `k ≠ l`, both above 1, under
`+ - * / **`; any `k ≠ l` under `dot`, `cross`, `angle` -/
theorem mismatch_rejected_nvdim (env : Env) (b : BinOp) (hu : isUfuncBin b = false) (hb : b ≠ .shl)
    (f o : CF) (hne : f.nvdim ≠ o.nvdim)
    (h1 : (b = .dot ∨ b = .cross ∨ b = .angle) ∨ (f.nvdim ≠ 1 ∧ o.nvdim ≠ 1)) :
    ∃ e, applyBin env b (.fld f) (.fld o) = .error e := by
  by_cases hs : b = .dot ∨ b = .cross ∨ b = .angle
  · obtain ⟨e, he⟩ := checkSame_nvdim_strict f o hne
    obtain ⟨e', he'⟩ := forwardOp_checks env b f o true (fun _ => hs) hb e (by simpa using he) hu (fun _ => rfl)
    refine ⟨e', ?_⟩
    cases b <;> simp [isUfuncBin] at hu <;> simp only [applyBin, he']
  · have h2 : f.nvdim ≠ 1 ∧ o.nvdim ≠ 1 := by
      rcases h1 with h1 | h1
      · exact absurd h1 hs
      · exact h1
    obtain ⟨e, he⟩ := checkSame_nvdim f o hne h2.1 h2.2 true
    obtain ⟨e', he'⟩ := forwardOp_checks env b f o false (by simp) hb e (by simpa using he) hu
      (fun h => absurd h hs)
    refine ⟨e', ?_⟩
    cases b <;> simp [isUfuncBin] at hu <;> simp only [applyBin, he']

/-- `cross` needs three components on both sides -/
theorem cross_needs_three (f o : CF) (h : f.nvdim ≠ 3 ∨ o.nvdim ≠ 3) : ∃ e, crossOp f (.fld o) = .error e := by
  simp only [crossOp]
  cases checkSame f o false with
  | error e => exact ⟨e, rfl⟩
  | ok u => exact ⟨.value, by simp [h]⟩

/-- **binary ufuncs refuse fields on different meshes too** (repaired defect D23):
`np.add(f, g)`, `np.maximum(f, g)`, … are an error when `Mesh.allclose` does not hold -/
theorem mismatch_rejected_mesh_ufunc (fn : GQ → GQ → GQ) (pw : Bool) (f o : CF)
    (hm : meshAllclose f.mesh o.mesh ≠ .ok true) : ∃ e, ufunc2 fn pw (.fld f) (.fld o) = .error e := by
  unfold ufunc2
  simp only [firstFld, ufuncInput]
  cases h1 : ufuncMeshOk f (.fld f) with
  | error e => exact ⟨e, rfl⟩
  | ok u =>
    simp only
    have : ∃ e, ufuncMeshOk f (.fld o) = .error e := by
      simp only [ufuncMeshOk]
      cases hmm : meshAllclose f.mesh o.mesh with
      | error e => exact ⟨e, rfl⟩
      | ok t =>
        cases t with
        | false => exact ⟨_, rfl⟩
        | true => exact absurd hmm hm
    obtain ⟨e, he⟩ := this
    exact ⟨e, by rw [he]⟩

example : evalOk exEnv (.bin .uadd (.leaf 0) (.leaf 2)) = false ∧ evalOk exEnv (.bin .add (.leaf 0) (.leaf 2)) = false ∧
    evalOk exEnv (.bin .uadd (.leaf 0) (.leaf 1)) = true := by
  decide +kernel

example : evalOk exEnv (.bin .mul (.opd exNpVec) (.leaf 0)) = true := by decide +kernel

/-! ## labels, mapping and unit through the unary operations -/

/-- `-f`, `abs(f)`, `f.real`, `f.imag`, `f.conjugate`, `f.abs`, `f.phase` keep component
count, labels and mapping; `abs`, `real`, `imag`, `conjugate` also keep the unit
(`abs_keeps_labels`, repaired defect D9) -/
theorem unary_keeps_meta (fn : GQ → GQ) (rk : Kind → Kind) (keepUnit : Bool) (f g : CF) (hs : MetaStable f)
    (h : mapField fn rk keepUnit f = .ok g) :
    g.nvdim = f.nvdim ∧ g.vdims = f.vdims ∧ g.vmap = f.vmap ∧ g.mesh = f.mesh ∧
      g.unit = (if keepUnit then f.unit else none) := by
  unfold mapField at h
  obtain ⟨hm, hn, _, hu, _, _, _, _, _, _, _, hvd, hvm, _⟩ := mkField_ok _ _ _ _ _ _ _ _ _ h
  rw [hs.1] at hvd
  injection hvd with hvd
  rw [← hvd, hs.2] at hvm
  injection hvm with hvm
  exact ⟨hn, hvd.symm, hvm.symm, hm, hu⟩

example : MetaStable exA := by
  constructor <;> decide +kernel

example : evalOk exEnv (.un .abs (.leaf 0)) = true := by decide +kernel

/-! ## well-formed inputs are accepted: totality on typed trees

`HasTy env M e t` (`Lemmas/C03o.lean`) is a static typing judgment: it predicts component
count, labels, mapping, unit and dtype kind of the value of `e` from the leaves alone.  `Good M f` =
array / mask of the mesh's shape + labels and mapping in constructor state + `f.mesh = M`;
`MeshOk M` = the region names all axes and `M.allclose(M)` holds. -/

/-- fields of the examples that live on one mesh -/
def exEnv1 : Env := { fields := [exA, exB, exS], sq := id, acos := id, arg := fun _ => 0 }

example : MeshOk exMesh := ⟨rfl, by decide +kernel⟩

example : ∀ f ∈ exEnv1.fields, Good exMesh f := by
  intro f hf
  simp only [exEnv1, List.mem_cons, List.not_mem_nil, or_false] at hf
  rcases hf with rfl | rfl | rfl
  · exact ⟨⟨rfl, rfl, by decide⟩, ⟨by decide +kernel, by decide +kernel⟩, rfl⟩
  · exact ⟨⟨rfl, rfl, by decide⟩, ⟨by decide +kernel, by decide +kernel⟩, rfl⟩
  · exact ⟨⟨rfl, rfl, by decide⟩, ⟨by decide +kernel, by decide +kernel⟩, rfl⟩

/-- the tree `exVec - (-a * (b · conj a))` is well-typed -/
example : ∃ t, HasTy exEnv1 exMesh exTree t :=
  ⟨_, .arithRF .sub exVec _ _ rfl
        (.arithFF .mul _ _ _ _ 2 rfl (.un .neg _ _ (.leaf 0 exA rfl))
          (.dotFF _ _ _ _ (.leaf 1 exB rfl) (.un .uconjugate _ _ (.leaf 0 exA rfl)) rfl) (by decide))
        (Or.inl rfl)⟩

/-- `Mesh.allclose` is reflexive for non-negative tolerances, so every mesh whose region
names all its axes is `MeshOk` -/
theorem mesh_ok_of_tolerances (M : Mesh) (hd : M.region.dims.length = M.region.ndim)
    (h1 : 0 ≤ M.region.tol) (h2 : 0 ≤ M.region.atol) : MeshOk M :=
  ⟨hd, meshAllclose_self M h1 h2⟩

example : (0 : Rat) ≤ exMesh.region.tol ∧ 0 ≤ exMesh.region.atol := by decide +kernel

/-- **Totality and full correctness on typed trees** (discharges the success hypothesis of
`eval_cellwise` / `eval_valid` / `eval_mesh`): every well-typed expression tree over
well-formed fields on one mesh `M` — leaves, all 14 unary operations, `+ - * /` between
fields with equal counts or a scalar field, with numbers, constant vectors of matching
length and per-cell arrays on either side (plain Python or NumPy), `**` with a number,
vector, array or field exponent (NumPy's integer-power rule permitting) and `NumPy number ** f`,
`dot`, `cross`, `<<` between fields and with numbers / constant vectors on either side, `angle`
with a field, number, vector or per-cell array, binary ufunc calls incl. `np.power` in both
operand positions and an unlabelled scalar field first — **is accepted**; the result is a
well-formed field **on `M`** with labels / mapping in constructor state, it carries exactly
the statically predicted component count, labels, mapping, unit and dtype kind, every cell holds the
same expression evaluated on that cell's component lists, and its validity is the AND of
the operands' masks. -/
theorem typed_total (env : Env) (M : Mesh) (hM : MeshOk M) (hgood : ∀ f ∈ env.fields, Good M f)
    (e : Expr) (t : Ty) (h : HasTy env M e t) :
    ∃ g, evalF env e = .ok (.fld g) ∧ g.mesh = M ∧ CFwf g ∧ MetaStable g ∧
      g.nvdim = t.nv ∧ g.vdims = t.vdims ∧ g.vmap = t.vmap ∧ g.unit = t.unit ∧ g.kind = t.kind ∧
      ∀ i, inRange M.n i = true →
        cellOf g.data i g.nvdim = evalCell env e i ∧ g.valid.get i = validCell env e i := by
  obtain ⟨g, hg, ⟨hwf, hst, hm⟩, h1, h2, h3, h4, h5⟩ := hasTy_sound env M hM hgood e t h
  have hwf' : ∀ f ∈ env.fields, CFwf f ∧ f.mesh.n = M.n :=
    fun f hf => ⟨(hgood f hf).1, by rw [(hgood f hf).2.2]⟩
  have hok := hasTy_liftOk env M e t h
  obtain ⟨_, _, hc⟩ := eval_cellwise env M.n hwf' e hok g hg
  have hv := eval_valid env M.n hwf' e hok g hg
  exact ⟨g, hg, hm, hwf, hst, h1, h2, h3, h4, h5, fun i hi => ⟨hc i hi, hv i hi⟩⟩

/-- **every field a constructor call returns has labels and mapping in constructor state**
(`MetaStable`): handing them to the constructor again changes nothing.  (Mesh whose region
names all its axes; labels argument not the explicitly empty list.) -/
theorem ctor_meta_stable (mesh : Mesh) (nv : Nat) (val : Value) (kind : Kind) (vd : Option (List String))
    (valid : Option (NDA Bool)) (vm : Option VMap) (unit : Option String) (g : CF)
    (hdims : mesh.region.dims.length = mesh.region.ndim) (hne : vd ≠ some [])
    (h : mkField mesh nv val kind vd valid vm unit = .ok g) : MetaStable g :=
  mkField_stable mesh nv val kind vd valid vm unit g hdims hne h

/-- **invariant over arbitrary programs** (induction over all expression trees, no typing
restriction, any mix of meshes): if every leaf has labels / mapping in constructor state on
a mesh that names its axes, so has the value of every accepted expression — operators,
reflected operators, `dot`, `cross`, `<<`, `angle`, complex parts and ufuncs preserve it. -/
theorem eval_meta_invariant (env : Env)
    (hleaf : ∀ f ∈ env.fields, MetaStable f ∧ f.mesh.region.dims.length = f.mesh.region.ndim)
    (e : Expr) (g : CF) (h : evalF env e = .ok (.fld g)) :
    MetaStable g ∧ g.mesh.region.dims.length = g.mesh.region.ndim :=
  evalF_inv env hleaf e g h

example : ∀ f ∈ exEnv.fields, MetaStable f ∧ f.mesh.region.dims.length = f.mesh.region.ndim := by
  intro f hf
  simp only [exEnv, List.mem_cons, List.not_mem_nil, or_false] at hf
  rcases hf with rfl | rfl | rfl | rfl <;> exact ⟨⟨by decide +kernel, by decide +kernel⟩, rfl⟩

/-! ## acceptance and metadata rule of every operator family -/

/-- **`self ∘ other` for two fields** (`∘` any of `+ - * / **` with its NumPy function `fn`):
accepted whenever the component counts are equal or one of them is 1 (and NumPy's
integer-power rule does not object); the result has the broadcast count, **the labels and
mapping of the vector operand** (of `self` when the counts agree — D8 repaired, D10/D51 as
they stand), **no unit**, and the dtype kind NumPy's promotion gives (at least float). -/
theorem binary_fields_meta (fn : GQ → GQ → GQ) (pw : Bool) (M : Mesh) (hM : MeshOk M) (f o : CF)
    (hf : Good M f) (ho : Good M o) (d : Nat) (hd : bdim f.nvdim o.nvdim = some d)
    (hpw : negIntPow pw f.kind o.kind o.data = false) :
    ∃ g, applyOperator fn pw f (.fld o) = .ok g ∧ Good M g ∧ g.nvdim = d ∧
      g.vdims = (if f.nvdim = 1 ∧ 1 < o.nvdim then o.vdims else f.vdims) ∧
      g.vmap = (if f.nvdim = 1 ∧ 1 < o.nvdim then o.vmap else f.vmap) ∧ g.unit = none ∧
      g.kind = (f.kind.join o.kind).ctor := by
  obtain ⟨g, h, hg, h1, h2, h3, h4, h5⟩ := applyOperator_fld_accepts fn pw M hM f o hf ho d hd hpw
  refine ⟨g, h, hg, h1, ?_, ?_, h4, h5⟩
  · rw [h2]; unfold metaSrc; split <;> rfl
  · rw [h3]; unfold metaSrc; split <;> rfl

example : bdim exS.nvdim exA.nvdim = some 2 ∧ negIntPow false exS.kind exA.kind exA.data = false := by
  decide +kernel

/-- **`self ∘ number / constant vector / per-cell array`**: accepted for a number, a vector of
length `nvdim` and an array of the field's own shape; component count, labels and mapping
of `self` are kept, the unit is dropped. -/
theorem binary_raw_meta (fn : GQ → GQ → GQ) (pw : Bool) (M : Mesh) (f : CF) (hf : Good M f)
    (od : Opd) (hfit : RawFits f.mesh.n f.nvdim od) (hpw : negIntPow pw f.kind (rawKind od) (rawArr od) = false) :
    ∃ g, applyOperator fn pw f (.raw od) = .ok g ∧ Good M g ∧ g.nvdim = f.nvdim ∧
      g.vdims = f.vdims ∧ g.vmap = f.vmap ∧ g.unit = none ∧ g.kind = (f.kind.join (rawKind od)).ctor :=
  applyOperator_raw_accepts fn pw M f hf od hfit hpw

example : RawFits exA.mesh.n exA.nvdim exVec := Or.inl rfl

/-- **all 14 unary operations are accepted**; component count, labels and mapping are kept;
the unit is kept by `+f`, `abs(f)`, `real`, `imag`, `conjugate` and dropped by `-f`,
`f.abs`, `f.phase` and the unary ufuncs; the dtype kind follows `unKind` (`+f` is `f`; `abs`,
`real`, `imag` give a real kind; `phase` float; everything is stored as at least float). -/
theorem unary_accepts_meta (env : Env) (u : UnOp) (M : Mesh) (hM : MeshOk M) (f : CF) (hf : Good M f) :
    ∃ g, applyUn env u f = .ok g ∧ Good M g ∧ g.nvdim = f.nvdim ∧ g.vdims = f.vdims ∧ g.vmap = f.vmap ∧
      g.unit = (if unKeepsUnit u then f.unit else none) ∧ g.kind = unKind u f.kind :=
  applyUn_accepts env u M hM f hf

/-- **`dot`**: two fields with equal counts, or a field with a constant vector / per-cell
array, are accepted; the result is an unlabelled scalar field without mapping and unit. -/
theorem dot_meta (M : Mesh) (hM : MeshOk M) (f : CF) (hf : Good M f) (v : Val)
    (hv : (∃ o, v = .fld o ∧ Good M o ∧ f.nvdim = o.nvdim) ∨
          (∃ a k np, v = .raw (.arr a k np) ∧ RawFits f.mesh.n f.nvdim (.arr a k np))) :
    ∃ g, dotOp f v = .ok g ∧ Good M g ∧ g.nvdim = 1 ∧ g.vdims = none ∧ g.vmap = [] ∧ g.unit = none := by
  rcases hv with ⟨o, rfl, ho, hn⟩ | ⟨a, k, np, rfl, hfit⟩
  · obtain ⟨g, h, hg, h1, h2, h3, h4, _⟩ := dotOp_fld_accepts M hM f o hf ho hn
    exact ⟨g, h, hg, h1, h2, h3, h4⟩
  · obtain ⟨g, h, hg, h1, h2, h3, h4, _⟩ := dotOp_raw_accepts M f hf a k np hfit
    exact ⟨g, h, hg, h1, h2, h3, h4⟩

/-- **`cross`**: two three-component fields, or such a field with a 3-vector / per-cell
array of 3-vectors, are accepted; the result keeps the labels of `self`, gets the default
mapping for these labels and no unit. -/
theorem cross_meta (M : Mesh) (hM : MeshOk M) (f : CF) (hf : Good M f) (h3 : f.nvdim = 3) (v : Val)
    (hv : (∃ o, v = .fld o ∧ Good M o ∧ o.nvdim = 3) ∨
          (∃ a k np, v = .raw (.arr a k np) ∧ RawFits f.mesh.n f.nvdim (.arr a k np))) :
    ∃ g, crossOp f v = .ok g ∧ Good M g ∧ g.nvdim = 3 ∧ g.vdims = f.vdims ∧
      vmapSet 3 M.region.ndim f.vdims M.region.dims none = .ok g.vmap ∧ g.unit = none := by
  rcases hv with ⟨o, rfl, ho, hn⟩ | ⟨a, k, np, rfl, hfit⟩
  · obtain ⟨g, h, hg, h1, h2, h3', h4, _⟩ := crossOp_fld_accepts M hM f o hf ho h3 hn
    exact ⟨g, h, hg, h1, h2, h3', h4⟩
  · obtain ⟨g, h, hg, h1, h2, h3', h4, _⟩ := crossOp_raw_accepts M hM f hf h3 a k np hfit
    exact ⟨g, h, hg, h1, h2, h3', h4⟩

/-- three-component field for the `cross` examples -/
def exV3 : CF := { mesh := exMesh, nvdim := 3,
                   data := NDA.ofList [2, 3] [⟨1, 0⟩, ⟨2, 0⟩, ⟨3, 0⟩, ⟨4, 0⟩, ⟨5, 0⟩, ⟨6, 1⟩] GQ.zero,
                   valid := exValid true true, vdims := some ["u", "v", "w"], vmap := [], unit := none,
                   kind := .complex }

example : Good exMesh exV3 ∧ exV3.nvdim = 3 :=
  ⟨⟨⟨rfl, rfl, by decide⟩, ⟨by decide +kernel, by decide +kernel⟩, rfl⟩, rfl⟩

/-- **binary ufunc calls** (`np.add(f, g)`, `np.maximum(f, 2)`, `np.float64(2) * f`,
`ndarray + f`, …): accepted for two fields when the result has `self`'s component count,
and for a number / NumPy vector of matching length / NumPy per-cell array in either
position; labels and mapping of `self` (the first field input) are kept, no unit. -/
theorem ufunc_meta (fn : GQ → GQ → GQ) (M : Mesh) (hM : MeshOk M) (f : CF) (hf : Good M f) :
    (∀ o, Good M o → bdim f.nvdim o.nvdim = some f.nvdim →
      ∃ g, ufunc2 fn false (.fld f) (.fld o) = .ok g ∧ Good M g ∧ g.nvdim = f.nvdim ∧ g.vdims = f.vdims ∧
        g.vmap = f.vmap ∧ g.unit = none) ∧
    (∀ od, RawFits f.mesh.n f.nvdim od → UfuncOpd od →
      (∃ g, ufunc2 fn false (.fld f) (.raw od) = .ok g ∧ Good M g ∧ g.nvdim = f.nvdim ∧ g.vdims = f.vdims ∧
        g.vmap = f.vmap ∧ g.unit = none) ∧
      (∃ g, ufunc2 fn false (.raw od) (.fld f) = .ok g ∧ Good M g ∧ g.nvdim = f.nvdim ∧ g.vdims = f.vdims ∧
        g.vmap = f.vmap ∧ g.unit = none)) := by
  refine ⟨fun o ho hd => ?_, fun od hfit hu => ⟨?_, ?_⟩⟩
  · obtain ⟨g, h, hg, h1, h2, h3, h4, _⟩ :=
      ufunc2_ff_accepts fn false M hM f o hf ho hd (negIntPow_false _ _ _)
    exact ⟨g, h, hg, h1, h2, h3, h4⟩
  · obtain ⟨g, h, hg, h1, h2, h3, h4, _⟩ :=
      ufunc2_fr_accepts fn false M hM f hf od hfit hu (negIntPow_false _ _ _)
    exact ⟨g, h, hg, h1, h2, h3, h4⟩
  · obtain ⟨g, h, hg, h1, h2, h3, h4, _⟩ :=
      ufunc2_rf_accepts fn false M hM f hf od hfit hu (negIntPow_false _ _ _)
    exact ⟨g, h, hg, h1, h2, h3, h4⟩

example : RawFits exA.mesh.n exA.nvdim exNpVec ∧ UfuncOpd exNpVec := ⟨Or.inl rfl, rfl⟩

/-- **`norm` and `angle`**: `f.norm` is accepted and keeps the unit; `f.angle(g)` is accepted
for two fields with equal component counts; both are unlabelled scalar fields without
mapping, the angle has unit `rad`. -/
theorem norm_angle_meta (sq acos : Rat → Rat) (M : Mesh) (hM : MeshOk M) (f o : CF) (hf : Good M f) (ho : Good M o)
    (hn : f.nvdim = o.nvdim) :
    (∃ g, normOp sq f = .ok g ∧ Good M g ∧ g.nvdim = 1 ∧ g.vdims = none ∧ g.vmap = [] ∧ g.unit = f.unit ∧
      g.kind = f.kind.realOf.ctor) ∧
    (∃ g, angleOp sq acos f (.fld o) = .ok g ∧ Good M g ∧ g.nvdim = 1 ∧ g.vdims = none ∧ g.vmap = [] ∧
      g.unit = some "rad" ∧ g.kind = .float) :=
  ⟨normOp_accepts sq M f hf, angleOp_fld_accepts sq acos M hM f o hf ho hn⟩

/-- **`<<` between two fields on one mesh is always accepted** (any component counts `k`,
`l`).  The result has `k + l` components and no unit; **its labels are the concatenation
when both operands are labelled and no label repeats, the default labels otherwise; its
mapping is the merged dict when that covers all `k + l` components, the default mapping
otherwise** ("stacking keeps labels and mapping when unique"). -/
theorem shl_meta (M : Mesh) (hM : MeshOk M) (f o : CF) (hf : Good M f) (ho : Good M o) :
    ∃ g, shlFF f o = .ok g ∧ Good M g ∧ g.nvdim = f.nvdim + o.nvdim ∧ g.unit = none ∧
      g.vdims = shlLabels f.vdims o.vdims (f.nvdim + o.nvdim) ∧
      (if (dictUpdate f.vmap o.vmap).length = f.nvdim + o.nvdim then g.vmap = dictUpdate f.vmap o.vmap
       else vmapSet (f.nvdim + o.nvdim) M.region.ndim g.vdims M.region.dims none = .ok g.vmap) ∧
      g.kind = (f.kind.join o.kind).ctor :=
  shlFF_accepts M hM f o hf ho

/-- unique labels are kept by `<<`, and full mappings over disjoint labels are concatenated -/
theorem shl_keeps_unique (a b : List String) (nv : Nat) (hd : hasDup (a ++ b) = false) (m u : VMap)
    (hnd : (keys u).Nodup) (hdis : ∀ x ∈ keys u, x ∉ keys m) :
    shlLabels (some a) (some b) nv = some (a ++ b) ∧ dictUpdate m u = m ++ u :=
  ⟨shlLabels_unique a b nv hd, dictUpdate_disjoint u m hnd hdis⟩

example : hasDup (["a", "b"] ++ ["p", "q"]) = false := by decide

/-- **`f.label` is accepted for every label of `f`**: an unlabelled scalar field on the same
mesh, without mapping, with `f`'s unit -/
theorem component_accepts (M : Mesh) (f : CF) (hf : Good M f) (vd : List String) (hvd : f.vdims = some vd)
    (l : String) (hl : l ∈ vd) :
    ∃ c, getComp f l = .ok c ∧ Good M c ∧ c.nvdim = 1 ∧ c.vdims = none ∧ c.vmap = [] ∧ c.unit = f.unit :=
  getComp_accepts M f hf vd hvd l hl

/-- **stacking the components of a labelled field is accepted and reproduces it** (no
success hypothesis): for every well-formed field `f` with labels on a mesh `M`,
`f.l₀ << … << f.lₖ₋₁` evaluates to a field on `M` with `k` components, the same values in
every cell and the same validity; its labels / mapping are the default ones. -/
theorem stack_components_total (M : Mesh) (hM : MeshOk M) (f : CF) (hf : Good M f) (vd : List String)
    (hvd : f.vdims = some vd) :
    ∃ g, stackComps f = .ok g ∧ Good M g ∧ g.nvdim = f.nvdim ∧
      (∀ i, inRange M.n i = true →
        cellOf g.data i g.nvdim = cellOf f.data i f.nvdim ∧ g.valid.get i = f.valid.get i) ∧
      g.vdims = Fld.defaultVdims f.nvdim ∧
      vmapSet f.nvdim M.region.ndim (Fld.defaultVdims f.nvdim) M.region.dims none = .ok g.vmap := by
  obtain ⟨g, hg, hgg⟩ := stackComps_accepts M hM f hf vd hvd
  obtain ⟨_, hlen, hnd⟩ := hf.2.1.labels hf.1.2.2 vd hvd
  obtain ⟨_, hn, hc, h4, h5⟩ := stack_components M.n f g hf.1 (by rw [hf.2.2]) vd hvd hlen hnd hg
  rw [hf.2.2] at h5
  exact ⟨g, hg, hgg, hn, hc, h4, h5⟩

example : Good exMesh exA ∧ exA.vdims = some ["a", "b"] :=
  ⟨⟨⟨rfl, rfl, by decide⟩, ⟨by decide +kernel, by decide +kernel⟩, rfl⟩, rfl⟩

/-! ## `a ∘ b` and `b ∘ a`, continued -/

/-- **labels, mapping, count and unit of `x ∘ y` and `y ∘ x` agree for whole subtrees**
(`∘ ∈ {+, *}`; partial: the cases the code satisfies): for well-typed subexpressions `x`,
`y` whose values are a scalar field and a vector field (either order), or carry the same
labels and mapping, both orders are accepted and the two results have the same component
count, labels, mapping, unit and dtype kind.  Missing for the full claim: operands with
different labels and equal counts (D10, D51 — `comm_meta_fails`, `comm_meta_fails_scalar`). -/
theorem comm_meta_trees_partial (env : Env) (M : Mesh) (hM : MeshOk M) (hgood : ∀ f ∈ env.fields, Good M f)
    (b : BinOp) (hb : b = .add ∨ b = .mul) (x y : Expr) (tx ty : Ty)
    (hx : HasTy env M x tx) (hy : HasTy env M y ty) (d : Nat) (hd : bdim tx.nv ty.nv = some d)
    (hcase : (tx.nv = 1 ∧ 1 < ty.nv) ∨ (ty.nv = 1 ∧ 1 < tx.nv) ∨ (tx.vdims = ty.vdims ∧ tx.vmap = ty.vmap)) :
    ∃ g1 g2, evalF env (.bin b x y) = .ok (.fld g1) ∧ evalF env (.bin b y x) = .ok (.fld g2) ∧
      g1.nvdim = g2.nvdim ∧ g1.vdims = g2.vdims ∧ g1.vmap = g2.vmap ∧ g1.unit = g2.unit ∧ g1.kind = g2.kind := by
  obtain ⟨f, hf, hfg, f1, f2, f3, _⟩ := hasTy_sound env M hM hgood x tx hx
  obtain ⟨o, ho, hog, o1, o2, o3, _⟩ := hasTy_sound env M hM hgood y ty hy
  have hba : isArith b = true := by rcases hb with rfl | rfl <;> rfl
  have hd1 : bdim f.nvdim o.nvdim = some d := by rw [f1, o1]; exact hd
  have hd2 : bdim o.nvdim f.nvdim = some d := by rw [bdim_comm]; exact hd1
  obtain ⟨g1, h1, _, n1, v1, m1, u1, k1⟩ := applyBin_arith_ff env b hba M hM f o hfg hog d hd1
  obtain ⟨g2, h2, _, n2, v2, m2, u2, k2⟩ := applyBin_arith_ff env b hba M hM o f hog hfg d hd2
  refine ⟨g1, g2, by rw [evalF_bin env b x y _ _ hf ho, h1], by rw [evalF_bin env b y x _ _ ho hf, h2],
    by rw [n1, n2], ?_, ?_, by rw [u1, u2], by rw [k1, k2, Kind.join_comm]⟩
  · rw [v1, v2]
    unfold metaSrc
    rw [f1, o1]
    rcases hcase with ⟨ha, hb'⟩ | ⟨ha, hb'⟩ | ⟨ha, _⟩
    · rw [if_pos ⟨ha, hb'⟩, if_neg (by omega)]
    · rw [if_neg (by omega), if_pos ⟨ha, hb'⟩]
    · split <;> split <;> first | rfl | (rw [f2, o2, ha])
  · rw [m1, m2]
    unfold metaSrc
    rw [f1, o1]
    rcases hcase with ⟨ha, hb'⟩ | ⟨ha, hb'⟩ | ⟨_, ha⟩
    · rw [if_pos ⟨ha, hb'⟩, if_neg (by omega)]
    · rw [if_neg (by omega), if_pos ⟨ha, hb'⟩]
    · split <;> split <;> first | rfl | (rw [f3, o3, ha])

example : HasTy exEnv1 exMesh (.leaf 2) (tyOf exS) ∧ HasTy exEnv1 exMesh (.leaf 0) (tyOf exA) ∧
    bdim (tyOf exS).nv (tyOf exA).nv = some 2 :=
  ⟨.leaf 2 exS rfl, .leaf 0 exA rfl, by decide⟩

/-- **`x ∘ y` and `y ∘ x` are the same field** (`∘ ∈ {+, *}`; partial: the operand classes the
code satisfies, no success hypothesis): for well-typed subtrees whose values are a scalar
field and a vector field (either order) or carry the same labels and mapping, both orders
are accepted and the two results have the same mesh, component count, labels, mapping, unit,
dtype kind, the same values in every cell and the same validity.  Missing for the full claim: operands
with different labels and equal counts (D10, D51). -/
theorem comm_same_field_partial (env : Env) (M : Mesh) (hM : MeshOk M) (hgood : ∀ f ∈ env.fields, Good M f)
    (b : BinOp) (hb : b = .add ∨ b = .mul) (x y : Expr) (tx ty : Ty)
    (hx : HasTy env M x tx) (hy : HasTy env M y ty) (d : Nat) (hd : bdim tx.nv ty.nv = some d)
    (hcase : (tx.nv = 1 ∧ 1 < ty.nv) ∨ (ty.nv = 1 ∧ 1 < tx.nv) ∨ (tx.vdims = ty.vdims ∧ tx.vmap = ty.vmap)) :
    ∃ g1 g2, evalF env (.bin b x y) = .ok (.fld g1) ∧ evalF env (.bin b y x) = .ok (.fld g2) ∧
      g1.mesh = M ∧ g2.mesh = M ∧ g1.nvdim = g2.nvdim ∧ g1.vdims = g2.vdims ∧ g1.vmap = g2.vmap ∧
      g1.unit = g2.unit ∧ g1.kind = g2.kind ∧
      ∀ i, inRange M.n i = true →
        cellOf g1.data i g1.nvdim = cellOf g2.data i g2.nvdim ∧ g1.valid.get i = g2.valid.get i := by
  obtain ⟨g1, g2, h1, h2, a1, a2, a3, a4, a5⟩ :=
    comm_meta_trees_partial env M hM hgood b hb x y tx ty hx hy d hd hcase
  have hba : isArith b = true := by rcases hb with rfl | rfl <;> rfl
  obtain ⟨g1', h1', m1, _⟩ := typed_total env M hM hgood _ _ (HasTy.arithFF b x y tx ty d hba hx hy hd)
  obtain ⟨g2', h2', m2, _⟩ := typed_total env M hM hgood _ _
    (HasTy.arithFF b y x ty tx d hba hy hx (by rw [bdim_comm]; exact hd))
  rw [h1] at h1'; injection h1' with h1'; injection h1' with h1'; subst h1'
  rw [h2] at h2'; injection h2' with h2'; injection h2' with h2'; subst h2'
  have hwf' : ∀ f ∈ env.fields, CFwf f ∧ f.mesh.n = M.n :=
    fun f hf => ⟨(hgood f hf).1, by rw [(hgood f hf).2.2]⟩
  exact ⟨g1, g2, h1, h2, m1, m2, a1, a2, a3, a4, a5,
    comm_values env M.n hwf' b hb x y (hasTy_liftOk env M x tx hx) (hasTy_liftOk env M y ty hy) g1 g2 h1 h2⟩

/-- **`x ∘ c` and `c ∘ x` carry the same metadata** (`∘ ∈ {+, *}`) for a well-typed subtree `x`
and a number, a constant vector of matching length or a per-cell array `c` — plain Python
(reflected method) or NumPy (`__array_ufunc__`): both orders are accepted and give the same
component count, labels, mapping, unit, dtype kind, values in every cell and validity: the
same field on the same mesh. -/
theorem comm_meta_raw (env : Env) (M : Mesh) (hM : MeshOk M) (hgood : ∀ f ∈ env.fields, Good M f)
    (b : BinOp) (hb : b = .add ∨ b = .mul) (x : Expr) (t : Ty) (hx : HasTy env M x t) (od : Opd)
    (hfit : RawFits M.n t.nv od) :
    ∃ g1 g2, evalF env (.bin b x (.opd od)) = .ok (.fld g1) ∧ evalF env (.bin b (.opd od) x) = .ok (.fld g2) ∧
      g1.mesh = M ∧ g2.mesh = M ∧ g1.nvdim = g2.nvdim ∧ g1.vdims = g2.vdims ∧ g1.vmap = g2.vmap ∧
      g1.unit = g2.unit ∧ g1.kind = g2.kind ∧
      ∀ i, inRange M.n i = true →
        cellOf g1.data i g1.nvdim = cellOf g2.data i g2.nvdim ∧ g1.valid.get i = g2.valid.get i := by
  have hba : isArith b = true := by rcases hb with rfl | rfl <;> rfl
  obtain ⟨g1, h1, ⟨_, _, m1⟩, a1, a2, a3, a4, a5⟩ :=
    hasTy_sound env M hM hgood _ _ (HasTy.arithFR b x od t (Or.inl hba) hx hfit)
  obtain ⟨g2, h2, ⟨_, _, m2⟩, b1, b2, b3, b4, b5⟩ :=
    hasTy_sound env M hM hgood _ _ (HasTy.arithRF b od x t hba hx hfit)
  have hwf' : ∀ f ∈ env.fields, CFwf f ∧ f.mesh.n = M.n :=
    fun f hf => ⟨(hgood f hf).1, by rw [(hgood f hf).2.2]⟩
  exact ⟨g1, g2, h1, h2, m1, m2, by rw [a1, b1], by rw [a2, b2], by rw [a3, b3], by rw [a4, b4], by rw [a5, b5],
    comm_values env M.n hwf' b hb x (.opd od) (hasTy_liftOk env M x t hx) trivial g1 g2 h1 h2⟩

example : RawFits exMesh.n (tyOf exA).nv exNpVec := Or.inl rfl

/-- **`-(-x)` and `conj(conj(x))` reproduce `x`** in every cell and in validity (any subtree `x`) -/
theorem involution_values (env : Env) (n : List Nat) (hwf : ∀ f ∈ env.fields, CFwf f ∧ f.mesh.n = n)
    (u : UnOp) (hu : u = .neg ∨ u = .conj) (x : Expr) (hx : LiftOk n x) (f g : CF)
    (h0 : evalF env x = .ok (.fld f)) (h1 : evalF env (.un u (.un u x)) = .ok (.fld g)) :
    ∀ i, inRange n i = true →
      cellOf g.data i g.nvdim = cellOf f.data i f.nvdim ∧ g.valid.get i = f.valid.get i := by
  obtain ⟨_, _, hc0⟩ := eval_cellwise env n hwf x hx f h0
  obtain ⟨_, _, hc1⟩ := eval_cellwise env n hwf _ (show LiftOk n (.un u (.un u x)) from hx) g h1
  have hv0 := eval_valid env n hwf x hx f h0
  have hv1 := eval_valid env n hwf _ (show LiftOk n (.un u (.un u x)) from hx) g h1
  intro i hi
  refine ⟨?_, by rw [hv1 i hi, hv0 i hi]; simp only [validCell]⟩
  rw [hc1 i hi, hc0 i hi]
  simp only [evalCell, List.map_map]
  have hid : (unFn env u ∘ unFn env u) = id := by
    funext z
    rcases hu with rfl | rfl
    · simp [unFn, GQ.neg]
    · simp [unFn, GQ.conj]
  rw [hid, List.map_id]

example : evalOk exEnv (.un .neg (.un .neg (.leaf 0))) = true := by decide +kernel

/-- two scalar fields with different explicit labels -/
def exS1 : CF := { exS with vdims := some ["s1"] }
def exS2 : CF := { exS with vdims := some ["t2"] }
def exEnvS : Env := { fields := [exS1, exS2], sq := id, acos := id, arg := fun _ => 0 }

/-- **the labels clause of `a∘b = b∘a` also fails for one-component fields** (open finding
D51): two scalar fields with different explicit labels — `a * b` is labelled like `a`,
`b * a` like `b`. -/
theorem comm_meta_fails_scalar :
    labelsOf exEnvS (.bin .mul (.leaf 0) (.leaf 1)) = some (some ["s1"]) ∧
    labelsOf exEnvS (.bin .mul (.leaf 1) (.leaf 0)) = some (some ["t2"]) := by
  decide +kernel

/-- a labelled scalar field and a NumPy array of two values per cell -/
def exNpRows : Opd := .arr (NDA.ofList [2, 2] [⟨1, 0⟩, ⟨1, 0⟩, ⟨1, 0⟩, ⟨1, 0⟩] GQ.zero) .float true

/-- **acceptance is not symmetric for a Field and a NumPy array** (open finding D52): for the
scalar field `s` labelled `s1` and `a = np.ones((2, 2))`, `s * a` is accepted
(`_apply_operator` drops the label) while `a * s` is refused (`__array_ufunc__` keeps
`self.vdims`, the constructor rejects one label for two components). -/
theorem comm_accept_fails :
    evalOk exEnvS (.bin .mul (.leaf 0) (.opd exNpRows)) = true ∧
    evalOk exEnvS (.bin .mul (.opd exNpRows) (.leaf 0)) = false := by
  decide +kernel

/-- **`dot` commutes** in values and validity: whenever `x.dot(y)` and `y.dot(x)` (`@`, also
with a list / tuple on either side) are both accepted, the two scalar fields agree in every
cell. -/
theorem dot_comm_values (env : Env) (n : List Nat) (hwf : ∀ f ∈ env.fields, CFwf f ∧ f.mesh.n = n)
    (x y : Expr) (hx : LiftOk n x) (hy : LiftOk n y) (g1 g2 : CF)
    (h1 : evalF env (.bin .dot x y) = .ok (.fld g1)) (h2 : evalF env (.bin .dot y x) = .ok (.fld g2)) :
    ∀ i, inRange n i = true →
      cellOf g1.data i g1.nvdim = cellOf g2.data i g2.nvdim ∧ g1.valid.get i = g2.valid.get i := by
  have hok1 : LiftOk n (.bin .dot x y) := ⟨hx, hy, by simp⟩
  have hok2 : LiftOk n (.bin .dot y x) := ⟨hy, hx, by simp⟩
  obtain ⟨_, _, hc1⟩ := eval_cellwise env n hwf _ hok1 g1 h1
  obtain ⟨_, _, hc2⟩ := eval_cellwise env n hwf _ hok2 g2 h2
  have hv1 := eval_valid env n hwf _ hok1 g1 h1
  have hv2 := eval_valid env n hwf _ hok2 g2 h2
  simp only [evalF] at h1
  cases hex : evalF env x with
  | error e => simp [hex] at h1
  | ok vx =>
    simp only [hex] at h1
    cases hey : evalF env y with
    | error e => simp [hey] at h1
    | ok vy =>
      simp only [hey] at h1
      obtain ⟨hcx, _⟩ := eval_good env n hwf x vx hx hex
      obtain ⟨hcy, _⟩ := eval_good env n hwf y vy hy hey
      have hcompat := applyBin_dot_compat env n vx vy g1 _ _ _ _ hcx hcy h1
      intro i hi
      refine ⟨?_, ?_⟩
      · rw [hc1 i hi, hc2 i hi]
        simp only [evalCell, binCell]
        rw [dotCell_comm _ _ (hcompat i hi)]
      · rw [hv1 i hi, hv2 i hi]
        simp only [validCell]
        exact Bool.and_comm _ _

example : evalOk exEnv (.bin .dot (.leaf 0) (.leaf 1)) = true ∧ evalOk exEnv (.bin .dot (.leaf 1) (.leaf 0)) = true := by
  decide +kernel

/-- **`cross` anticommutes**: whenever `x.cross(y)` and `y.cross(x)` (`&`) are both accepted,
every cell of the second is the negated cell of the first, and the validities agree. -/
theorem cross_anticomm_values (env : Env) (n : List Nat) (hwf : ∀ f ∈ env.fields, CFwf f ∧ f.mesh.n = n)
    (x y : Expr) (hx : LiftOk n x) (hy : LiftOk n y) (g1 g2 : CF)
    (h1 : evalF env (.bin .cross x y) = .ok (.fld g1)) (h2 : evalF env (.bin .cross y x) = .ok (.fld g2)) :
    ∀ i, inRange n i = true →
      cellOf g2.data i g2.nvdim = (cellOf g1.data i g1.nvdim).map GQ.neg ∧ g1.valid.get i = g2.valid.get i := by
  have hok1 : LiftOk n (.bin .cross x y) := ⟨hx, hy, by simp⟩
  have hok2 : LiftOk n (.bin .cross y x) := ⟨hy, hx, by simp⟩
  obtain ⟨_, _, hc1⟩ := eval_cellwise env n hwf _ hok1 g1 h1
  obtain ⟨_, _, hc2⟩ := eval_cellwise env n hwf _ hok2 g2 h2
  have hv1 := eval_valid env n hwf _ hok1 g1 h1
  have hv2 := eval_valid env n hwf _ hok2 g2 h2
  intro i hi
  refine ⟨?_, ?_⟩
  · rw [hc1 i hi, hc2 i hi]
    simp only [evalCell, binCell]
    exact (crossCell_neg _ _).symm
  · rw [hv1 i hi, hv2 i hi]
    simp only [validCell]
    exact Bool.and_comm _ _

def exEnv3 : Env := { fields := [exV3, { exV3 with vdims := some ["p", "q", "r"] }], sq := id, acos := id,
                      arg := fun _ => 0 }
example : evalOk exEnv3 (.bin .cross (.leaf 0) (.leaf 1)) = true ∧
    evalOk exEnv3 (.bin .cross (.leaf 1) (.leaf 0)) = true := by
  decide +kernel

/-! ## refusals, continued -/

/-- **binary ufuncs refuse incompatible component counts** (`k ≠ l`, both above 1):
`np.add(f, g)`, `np.maximum(f, g)`, … are an error, whatever the meshes and data -/
theorem mismatch_rejected_nvdim_ufunc (fn : GQ → GQ → GQ) (pw : Bool) (f o : CF) (hf : CFwf f) (ho : CFwf o)
    (hne : f.nvdim ≠ o.nvdim) (h1 : f.nvdim ≠ 1) (h2 : o.nvdim ≠ 1) :
    ∃ e, ufunc2 fn pw (.fld f) (.fld o) = .error e :=
  ufunc2_nvdim_rejected fn pw f o hf ho hne h1 h2

example : CFwf exA ∧ CFwf exV3 ∧ exA.nvdim ≠ exV3.nvdim := ⟨⟨rfl, rfl, by decide⟩, ⟨rfl, rfl, by decide⟩, by decide⟩

/-- **a constant vector of the wrong length is refused** by `+ - * / **` in either operand
order, for plain Python sequences (`TypeError` of `_apply_operator`, also through the
reflected methods) and NumPy vectors (broadcast error inside `__array_ufunc__`) alike. -/
theorem vector_length_rejected (env : Env) (b : BinOp) (hb : isArith b = true ∨ b = .pow) (f : CF) (hw : CFwf f)
    (a : NDA GQ) (k : Kind) (np : Bool) (m : Nat) (ha : a.shape = [m]) (hm : m ≠ f.nvdim)
    (h1 : f.nvdim ≠ 1) (hm1 : m ≠ 1) :
    (∃ e, applyBin env b (.fld f) (.raw (.arr a k np)) = .error e) ∧
    (∃ e, applyBin env b (.raw (.arr a k np)) (.fld f) = .error e) := by
  have hfw := applyOperator_vector_rejected (binFn b) (isPow b) f hw a k np m ha hm h1
  refine ⟨⟨.type, ?_⟩, ?_⟩
  · rcases hb with hb | rfl
    · cases b <;> simp [isArith] at hb <;> simp only [applyBin, forwardOp, hfw]
    · simp only [applyBin, forwardOp, hfw]
  · cases np with
    | true =>
      obtain ⟨e, he⟩ := ufunc2_vector_rejected (binFn b) (isPow b) f hw a k m ha hm h1 hm1
      refine ⟨e, ?_⟩
      rcases hb with hb | rfl
      · cases b <;> simp [isArith] at hb <;> simp only [applyBin, isNp, if_true, he]
      · simp only [applyBin, isNp, if_true, he]
    | false =>
      rcases hb with hb | rfl
      · cases b <;> simp [isArith] at hb
        case add =>
          exact ⟨.type, by simp only [applyBin, isNp, Bool.false_eq_true, if_false, reflectedOp,
            applyOperator_vector_rejected GQ.add false f hw a k false m ha hm h1]⟩
        case mul =>
          exact ⟨.type, by simp only [applyBin, isNp, Bool.false_eq_true, if_false, reflectedOp,
            applyOperator_vector_rejected GQ.mul false f hw a k false m ha hm h1]⟩
        case div =>
          exact ⟨.type, by simp only [applyBin, isNp, Bool.false_eq_true, if_false, reflectedOp,
            applyOperator_vector_rejected (fun x y => GQ.div y x) false f hw a k false m ha hm h1]⟩
        case sub =>
          cases h0 : mapField GQ.neg id false f with
          | error e => exact ⟨e, by simp only [applyBin, isNp, Bool.false_eq_true, if_false, reflectedOp, h0]⟩
          | ok g0 =>
            have hcf : Cells f.mesh.n f (fun i => cellOf f.data i f.nvdim) (fun i => f.valid.get i) :=
              ⟨hw, rfl, fun _ _ => ⟨rfl, rfl⟩⟩
            obtain ⟨hc0, _, hn0⟩ := mapField_cells GQ.neg id false f.mesh.n f g0 _ _ hcf h0
            refine ⟨.type, ?_⟩
            simp only [applyBin, isNp, Bool.false_eq_true, if_false, reflectedOp, h0,
              applyOperator_vector_rejected GQ.add false g0 hc0.1 a k false m ha (by rw [hn0]; exact hm)
                (by rw [hn0]; exact h1)]
      · exact ⟨.type, by simp only [applyBin, isNp, Bool.false_eq_true, if_false, reflectedOp]⟩

example : (NDA.ofList [3] [⟨1, 0⟩, ⟨1, 0⟩, ⟨1, 0⟩] GQ.zero).shape = [3] ∧ 3 ≠ exA.nvdim ∧ exA.nvdim ≠ 1 := by
  decide

/-- **unsupported operand combinations are refused**: an operation without any field operand,
`number ** field` / `list ** field` (there is no `__rpow__`), `dot` / `cross` with a number,
`angle` with the field on the right. -/
theorem unsupported_rejected (env : Env) (b : BinOp) (o1 o2 : Opd) (f : CF) (z : GQ) (k : Kind) (np : Bool) :
    (∃ e, applyBin env b (.raw o1) (.raw o2) = .error e) ∧
    (isNp o1 = false → ∃ e, applyBin env .pow (.raw o1) (.fld f) = .error e) ∧
    dotOp f (.raw (.num z k np)) = .error .type ∧ crossOp f (.raw (.num z k np)) = .error .type ∧
    (∃ e, applyBin env .angle (.raw o1) (.fld f) = .error e) := by
  refine ⟨?_, ?_, rfl, rfl, ?_⟩
  · cases b <;> exact ⟨.type, rfl⟩
  · intro h
    exact ⟨.type, by simp only [applyBin, h, Bool.false_eq_true, if_false, reflectedOp]⟩
  · by_cases h : isNp o1 = true
    · exact ⟨.notImpl, by simp only [applyBin, h, if_true]⟩
    · have h' : isNp o1 = false := by simpa using h
      exact ⟨.type, by simp only [applyBin, h', Bool.false_eq_true, if_false, reflectedOp]⟩

/-- **rejection inside a program**: if the two operand subtrees of a binary node evaluate to
fields whose meshes are not `allclose`, the node is an error for every operation other than
`<<` (operators, `dot`, `cross`, `angle` **and** the binary ufunc calls); for `<<` when the
meshes are not equal. -/
theorem eval_mismatch_rejected (env : Env) (b : BinOp) (l r : Expr) (f o : CF)
    (hl : evalF env l = .ok (.fld f)) (hr : evalF env r = .ok (.fld o)) :
    (b ≠ .shl → meshAllclose f.mesh o.mesh ≠ .ok true → ∃ e, evalF env (.bin b l r) = .error e) ∧
    (b = .shl → meshEq f.mesh o.mesh = false → ∃ e, evalF env (.bin b l r) = .error e) := by
  rw [evalF_bin env b l r _ _ hl hr]
  refine ⟨fun hb hm => ?_, fun hb hm => ?_⟩
  · by_cases hu : isUfuncBin b = true
    · obtain ⟨e, he⟩ := mismatch_rejected_mesh_ufunc (binFn b) (isPow b) f o hm
      exact ⟨e, by cases b <;> simp [isUfuncBin] at hu <;> simp only [applyBin, he]⟩
    · exact mismatch_rejected_mesh env b (by simpa using hu) hb f o hm
  · subst hb
    obtain ⟨e, he⟩ := shl_rejects_other_mesh f o hm
    exact ⟨e, by simp only [applyBin, forwardOp, shlOp, he]⟩

/-- **errors propagate** (evaluation is strict, as Python's): a unary node over a failing
subtree fails, a binary node with a failing left or right subtree fails — so a program
containing a rejected combination anywhere is rejected as a whole. -/
theorem eval_strict (env : Env) (u : UnOp) (b : BinOp) (e l r : Expr) (er : Err) :
    (evalF env e = .error er → evalF env (.un u e) = .error er) ∧
    (evalF env l = .error er → evalF env (.bin b l r) = .error er) ∧
    (evalF env r = .error er → ∃ er', evalF env (.bin b l r) = .error er') := by
  refine ⟨fun h => by simp only [evalF, h], fun h => by simp only [evalF, h], fun h => ?_⟩
  cases hl : evalF env l with
  | error e' => exact ⟨e', by simp only [evalF, hl]⟩
  | ok v => exact ⟨er, by simp only [evalF, hl, h]⟩

/-! ## the per-cell specification spelled out -/

/-- what a non-field operand contributes to cell `i` under NumPy broadcasting: a number its
one value; **a constant vector of length `k` its `k` entries, the same in every cell**; a
per-cell array of shape `n ++ [k]` its own row of cell `i`. -/
theorem rawCell_shapes (z : GQ) (a : NDA GQ) (kd : Kind) (np : Bool) (n : List Nat) (k : Nat) (i : List Nat) :
    rawCell (.num z kd np) i = [z] ∧
    (a.shape = [k] → rawCell (.arr a kd np) i = tab k (fun c => a.get [c])) ∧
    (a.shape = n ++ [k] → inRange n i = true → rawCell (.arr a kd np) i = cellOf a i k) :=
  ⟨rfl, fun h => opdCell_vector a k h i, fun h hi => opdCell_percell a n k h i hi⟩

/-- NumPy broadcasting of two component lists: equal lengths combine element by element, a
one-element list on either side is combined with every component of the other. -/
theorem bz_shapes (fn : GQ → GQ → GQ) (xs ys : List GQ) (x y : GQ) :
    (xs.length = ys.length → bz fn xs ys = List.zipWith fn xs ys) ∧
    bz fn xs [y] = xs.map (fun a => fn a y) ∧ bz fn [x] ys = ys.map (fn x) :=
  ⟨bz_zipWith fn xs ys, bz_scalar_right fn xs y, scalar_field_broadcasts fn x ys⟩

/-! ## ufuncs with two outputs: the tuple branch of `__array_ufunc__` (`np.divmod(f, g)`) -/

/-- **both results of a two-output ufunc call are cell-wise**: if `np.divmod(f, g)` (any pair of
elementwise functions `fn1`, `fn2`) is accepted for two well-formed fields with cell counts
`n`, the first result lives on `f`'s mesh, the second on `g`'s, every cell of result `j` is
`fn_j` applied with NumPy broadcasting to the component lists of that cell, and both are
valid exactly where both operands are. -/
theorem pair_cellwise (fn1 fn2 : GQ → GQ → GQ) (c : Bool) (n : List Nat) (f o g1 g2 : CF)
    (hf : CFwf f) (ho : CFwf o) (hnf : f.mesh.n = n) (hno : o.mesh.n = n)
    (h : ufunc2pair fn1 fn2 c (.fld f) (.fld o) = .ok (g1, g2)) :
    CFwf g1 ∧ CFwf g2 ∧ g1.mesh = f.mesh ∧ g2.mesh = o.mesh ∧
    ∀ i, inRange n i = true →
      cellOf g1.data i g1.nvdim = bz fn1 (cellOf f.data i f.nvdim) (cellOf o.data i o.nvdim) ∧
      cellOf g2.data i g2.nvdim = bz fn2 (cellOf f.data i f.nvdim) (cellOf o.data i o.nvdim) ∧
      g1.valid.get i = (f.valid.get i && o.valid.get i) ∧ g2.valid.get i = (f.valid.get i && o.valid.get i) := by
  have hcf : Cells n f (fun i => cellOf f.data i f.nvdim) (fun i => f.valid.get i) := ⟨hf, hnf, fun _ _ => ⟨rfl, rfl⟩⟩
  have hco : Cells n o (fun i => cellOf o.data i o.nvdim) (fun i => o.valid.get i) := ⟨ho, hno, fun _ _ => ⟨rfl, rfl⟩⟩
  obtain ⟨c1, c2, m1, m2⟩ := ufunc2pair_cells fn1 fn2 c n f o g1 g2 _ _ _ _ hcf hco h
  exact ⟨c1.1, c2.1, m1, m2, fun i hi => ⟨(c1.2.2 i hi).1, (c2.2.2 i hi).1, (c1.2.2 i hi).2, (c2.2.2 i hi).2⟩⟩

def pairOk (l r : Val) : Bool :=
  match ufunc2pair GQ.floorDiv GQ.pymod false l r with
  | .ok _ => true
  | _ => false
/-- real-valued fields for the `divmod` examples -/
def exRData : NDA GQ := NDA.ofList [2, 2] [⟨5, 0⟩, ⟨-7, 0⟩, ⟨3, 0⟩, ⟨4, 0⟩] GQ.zero
def exDData : NDA GQ := NDA.ofList [2, 2] [⟨2, 0⟩, ⟨2, 0⟩, ⟨-2, 0⟩, ⟨1/2, 0⟩] GQ.zero
def exR : CF := { exS with nvdim := 2, data := exRData, vdims := some ["a", "b"] }
def exD : CF := { exR with data := exDData, vdims := some ["p", "q"] }
example : pairOk (.fld exR) (.fld exD) = true ∧ pairOk (.fld exR) (.fld exS) = true := by decide +kernel

/-- **two-output calls on two fields are accepted** when the result has `self`'s component
count and the ufunc has a loop for the dtypes (`divmod`: no complex data); both results
carry `self`'s labels and mapping and no unit. -/
theorem pair_accepts_meta (fn1 fn2 : GQ → GQ → GQ) (c : Bool) (M : Mesh) (hM : MeshOk M) (f o : CF)
    (hf : Good M f) (ho : Good M o) (hd : bdim f.nvdim o.nvdim = some f.nvdim)
    (hk : c = true ∨ (f.kind ≠ .complex ∧ o.kind ≠ .complex)) :
    ∃ g1 g2, ufunc2pair fn1 fn2 c (.fld f) (.fld o) = .ok (g1, g2) ∧ Good M g1 ∧ Good M g2 ∧
      g1.nvdim = f.nvdim ∧ g2.nvdim = f.nvdim ∧ g1.vdims = f.vdims ∧ g2.vdims = f.vdims ∧
      g1.vmap = f.vmap ∧ g2.vmap = f.vmap ∧ g1.unit = none ∧ g2.unit = none :=
  ufunc2pair_accepts fn1 fn2 c M hM f o hf ho hd hk

example : Good exMesh exR ∧ Good exMesh exD ∧ bdim exR.nvdim exD.nvdim = some exR.nvdim ∧
    exR.kind ≠ .complex ∧ exD.kind ≠ .complex :=
  ⟨⟨⟨rfl, rfl, by decide⟩, ⟨by decide +kernel, by decide +kernel⟩, rfl⟩,
   ⟨⟨rfl, rfl, by decide⟩, ⟨by decide +kernel, by decide +kernel⟩, rfl⟩, by decide, by decide, by decide⟩

/-- **refusals of two-output calls**: a non-field in either position (`np.divmod(f, 2)`,
`np.divmod(ndarray, f)`: two results, one mesh), fields on different meshes, incompatible
component counts, complex data for a ufunc without complex loop, and every unary two-output
ufunc (`np.modf(f)`, `np.frexp(f)`) are errors. -/
theorem pair_rejected (fn1 fn2 : GQ → GQ → GQ) (c : Bool) (f o : CF) (od : Opd) :
    (∃ e, ufunc2pair fn1 fn2 c (.fld f) (.raw od) = .error e) ∧
    (∃ e, ufunc2pair fn1 fn2 c (.raw od) (.fld f) = .error e) ∧
    (meshAllclose f.mesh o.mesh ≠ .ok true → ∃ e, ufunc2pair fn1 fn2 c (.fld f) (.fld o) = .error e) ∧
    (CFwf f → CFwf o → f.nvdim ≠ o.nvdim → f.nvdim ≠ 1 → o.nvdim ≠ 1 →
      ∃ e, ufunc2pair fn1 fn2 c (.fld f) (.fld o) = .error e) ∧
    (c = false → (f.kind = .complex ∨ o.kind = .complex) → ∃ e, ufunc2pair fn1 fn2 c (.fld f) (.fld o) = .error e) ∧
    (∃ e, ufunc1pair f = .error e) :=
  ⟨ufunc2pair_raw_rejected fn1 fn2 c _ _ (Or.inr ⟨od, rfl⟩),
   ufunc2pair_raw_rejected fn1 fn2 c _ _ (Or.inl ⟨od, rfl⟩),
   fun h => ufunc2pair_ff_rejected fn1 fn2 c f o (Or.inl h),
   fun h1 h2 h3 h4 h5 => ufunc2pair_ff_rejected fn1 fn2 c f o (Or.inr (Or.inl ⟨h1, h2, h3, h4, h5⟩)),
   fun h1 h2 => ufunc2pair_ff_rejected fn1 fn2 c f o (Or.inr (Or.inr ⟨h1, h2⟩)),
   ufunc1pair_rejected f⟩

/-- **`divmod` law** for the two elementwise functions of `np.divmod` on real values:
`a = b * (a // b) + (a % b)`, and the remainder lies between 0 and the divisor (sign of the
divisor), for every non-zero divisor. -/
theorem divmod_law (a b : GQ) :
    a.re = b.re * (GQ.floorDiv a b).re + (GQ.pymod a b).re ∧
    (0 < b.re → 0 ≤ (GQ.pymod a b).re ∧ (GQ.pymod a b).re < b.re) ∧
    (b.re < 0 → b.re < (GQ.pymod a b).re ∧ (GQ.pymod a b).re ≤ 0) :=
  ⟨divmod_identity a b, pymod_range_pos a b, pymod_range_neg a b⟩

/-! ## second extension round

### (c) elementwise trees are the tree of scalars, entry by entry -/

/-- **Entry-level theorem for every nesting depth (induction over trees).**  For every tree `e`
built from the 14 unary operations, `+ - * / **` (forward, reflected, NumPy-dispatched) and
binary ufunc calls over fields, numbers, constant vectors and arrays of any broadcastable
shape: if the field-level evaluation is accepted with result `g`, then **every entry**
`g.array[i ++ [c]]` (`i` a cell, `c < g.nvdim`) is the same tree evaluated on *numbers* — each
field leaf and each array operand read at the NumPy-broadcast position `bproj shape (i ++ [c])`
of its own shape (scalar fields, vectors and `n ++ [1]` arrays repeat, numbers are constants).
No hypothesis on shapes beyond acceptance. -/
theorem eval_scalar_tree (env : Env) (n : List Nat) (hwf : ∀ f ∈ env.fields, CFwf f ∧ f.mesh.n = n)
    (e : Expr) (hel : e.elementwise = true) (g : CF) (h : evalF env e = .ok (.fld g)) :
    ∀ i, inRange n i = true → ∀ c, c < g.nvdim → g.data.get (i ++ [c]) = scalarAt env e (i ++ [c]) := by
  intro i hi c hc
  obtain ⟨hw, hn, hcell⟩ := eval_cellwise env n hwf e (liftOk_of_elementwise n e hel) g h
  have hwd := widthOk_of_eval env n hwf e (.fld g) hel h
  have hlen : (evalCell env e i).length = g.nvdim := by rw [← hcell i hi, cellOf_length]
  have hs := evalCell_scalar env n hwf i hi e hel hwd c (Or.inl (by rw [hlen]; exact hc))
  rw [← hs, ← hcell i hi]
  unfold compAt
  rw [cellOf_length]
  by_cases h1 : g.nvdim = 1
  · have hc0 : c = 0 := by omega
    subst hc0
    simp only [h1, if_true, cellOf]
    rw [getD_tab _ _ _ _ Nat.one_pos]
  · simp only [h1, if_false, cellOf]
    rw [getD_tab _ _ _ _ hc]

/-- a nested elementwise tree: `(2 * s) ** 2 + np.maximum(-a, conj(b)) / vec` -/
def exElemTree : Expr :=
  .bin .add (.bin .pow (.bin .mul (.opd (.num ⟨2, 0⟩ .int false)) (.leaf 3)) (.opd (.num ⟨2, 0⟩ .int false)))
    (.bin .div (.bin .umax (.un .neg (.leaf 0)) (.un .conj (.leaf 1))) (.opd exVec))

example : exElemTree.elementwise = true ∧ evalOk exEnv exElemTree = true := by decide +kernel

/-! ### (d) one table for the metadata of every binary operation -/

/-- **The metadata table (`binTy`, `Lemmas/C03x.lean`) is exact for all 16 binary operations**
between two well-formed fields on one mesh: `self ∘ other` is accepted **iff** the table has an
entry (and NumPy's integer-power rule does not object); the accepted result is a well-formed
field on that mesh whose component count, labels, mapping, unit and dtype kind are *exactly*
the table's entry.  One row per family — `+ - * / **` (labels / mapping of the vector operand,
no unit), `dot`, `angle` (unlabelled scalars; `rad`), `cross` (labels of `self`, default
mapping), `<<` (concatenated labels / merged mapping when unique), ufunc calls (labels of the
first field; an unlabelled scalar first gives default labels, a labelled one is refused). -/
theorem binary_table (env : Env) (M : Mesh) (hM : MeshOk M) (f o : CF) (hf : Good M f) (ho : Good M o) (b : BinOp) :
    (∀ g, applyBin env b (.fld f) (.fld o) = .ok (.fld g) →
      Good M g ∧ binTy M b (tyOf f) (tyOf o) = some (tyOf g) ∧ negIntPow (isPow b) f.kind o.kind o.data = false) ∧
    (∀ t, binTy M b (tyOf f) (tyOf o) = some t → negIntPow (isPow b) f.kind o.kind o.data = false →
      ∃ g, applyBin env b (.fld f) (.fld o) = .ok (.fld g) ∧ Good M g ∧ tyOf g = t) := by
  have hacc : ∀ t, binTy M b (tyOf f) (tyOf o) = some t → negIntPow (isPow b) f.kind o.kind o.data = false →
      ∃ g, applyBin env b (.fld f) (.fld o) = .ok (.fld g) ∧ Good M g ∧ tyOf g = t := by
    intro t ht hpw
    obtain ⟨g, hg, hm⟩ := binTy_accepts env M hM f o hf ho b hpw t ht
    exact ⟨g, hg, hm.1, tyOf_eq_of_hasMeta M g t hm⟩
  refine ⟨fun g hg => ?_, hacc⟩
  cases hpw : negIntPow (isPow b) f.kind o.kind o.data with
  | true =>
    obtain ⟨e, he⟩ := binTy_rejects env M f o hf ho b (Or.inr hpw)
    rw [he] at hg; cases hg
  | false =>
    cases ht : binTy M b (tyOf f) (tyOf o) with
    | none =>
      obtain ⟨e, he⟩ := binTy_rejects env M f o hf ho b (Or.inl ht)
      rw [he] at hg; cases hg
    | some t =>
      obtain ⟨g', hg', hgood, hty⟩ := hacc t ht hpw
      rw [hg'] at hg
      injection hg with hg; injection hg with hg; subst hg
      exact ⟨hgood, by rw [hty], rfl⟩

/-- **rejected ⇔ malformed** for two fields on one mesh: the step is an error exactly when the
table has no entry for the two component counts / labels, or an integer field is raised to a
negative integer power. -/
theorem binary_rejected_iff (env : Env) (M : Mesh) (hM : MeshOk M) (f o : CF) (hf : Good M f) (ho : Good M o)
    (b : BinOp) :
    (∃ e, applyBin env b (.fld f) (.fld o) = .error e) ↔
      (binTy M b (tyOf f) (tyOf o) = none ∨ negIntPow (isPow b) f.kind o.kind o.data = true) := by
  constructor
  · rintro ⟨e, he⟩
    cases hpw : negIntPow (isPow b) f.kind o.kind o.data with
    | true => exact Or.inr rfl
    | false =>
      cases ht : binTy M b (tyOf f) (tyOf o) with
      | none => exact Or.inl rfl
      | some t =>
        obtain ⟨g, hg, _⟩ := (binary_table env M hM f o hf ho b).2 t ht hpw
        rw [hg] at he; cases he
  · exact binTy_rejects env M f o hf ho b

/-- the table on the example fields: `a + b` keeps `a`'s labels, `s * a` takes `a`'s (D8), `a @ b`
is an unlabelled scalar, `a & b` and `np.add(a, v3)` are refused, `np.add(s, a)` gets default labels -/
example :
    binTy exMesh .add (tyOf exA) (tyOf exB) = some ⟨2, some ["a", "b"], [], none, .complex⟩ ∧
    binTy exMesh .mul (tyOf exS) (tyOf exA) = some ⟨2, some ["a", "b"], [], none, .complex⟩ ∧
    binTy exMesh .dot (tyOf exA) (tyOf exB) = some ⟨1, none, [], none, .complex⟩ ∧
    binTy exMesh .cross (tyOf exA) (tyOf exB) = none ∧
    binTy exMesh .uadd (tyOf exA) (tyOf exV3) = none ∧
    binTy exMesh .uadd (tyOf exS) (tyOf exA) = some ⟨2, some ["x", "y"], [], none, .complex⟩ ∧
    binTy exMesh .shl (tyOf exS) (tyOf exA) = some ⟨3, some ["x", "y", "z"], [], none, .complex⟩ := by
  decide +kernel

/-- NumPy's integer-power rule, spelled out -/
theorem intpow_rule (pw : Bool) (kb ke : Kind) (e : NDA GQ) :
    negIntPow pw kb ke e = true ↔ (pw = true ∧ kb = .int ∧ ke = .int ∧ ∃ z ∈ e.toList, z.re < 0) := by
  simp only [negIntPow, Bool.and_eq_true, decide_eq_true_eq, List.any_eq_true, and_assoc]

/-! ### (b) `a ∘ b = b ∘ a`: the exact condition for labels and mapping -/

/-- **`self ∘ other` and `other ∘ self` for two fields (`∘` any of `+ - * /` with functions `fn`,
`fn'`): both orders are accepted whenever the counts broadcast; both results are well-formed
fields on the one mesh; component count, unit and dtype kind always agree; labels and mapping agree _if and only if_ the counts differ (scalar
with vector — D8 repaired) or both operands carry the same labels and the same mapping.**  The
exact complement — equal counts with different labels or mappings — is where the code
violates the "same field" clause: open findings D10 (several components) and D51 (one). -/
theorem comm_meta_iff (fn fn' : GQ → GQ → GQ) (M : Mesh) (hM : MeshOk M) (f o : CF) (hf : Good M f) (ho : Good M o)
    (d : Nat) (hd : bdim f.nvdim o.nvdim = some d) :
    ∃ g1 g2, applyOperator fn false f (.fld o) = .ok g1 ∧ applyOperator fn' false o (.fld f) = .ok g2 ∧
      Good M g1 ∧ Good M g2 ∧ g1.nvdim = g2.nvdim ∧ g1.unit = g2.unit ∧ g1.kind = g2.kind ∧
      ((g1.vdims = g2.vdims ∧ g1.vmap = g2.vmap) ↔
        (f.nvdim ≠ o.nvdim ∨ (f.vdims = o.vdims ∧ f.vmap = o.vmap))) := by
  obtain ⟨g1, h1, hg1, n1, v1, m1, u1, k1⟩ :=
    binary_fields_meta fn false M hM f o hf ho d hd (negIntPow_false _ _ _)
  obtain ⟨g2, h2, hg2, n2, v2, m2, u2, k2⟩ :=
    binary_fields_meta fn' false M hM o f ho hf d (by rw [bdim_comm]; exact hd) (negIntPow_false _ _ _)
  refine ⟨g1, g2, h1, h2, hg1, hg2, by rw [n1, n2], by rw [u1, u2],
    by rw [k1, k2, Kind.join_comm], ?_⟩
  rw [v1, v2, m1, m2]
  have hpf := hf.1.2.2
  have hpo := ho.1.2.2
  obtain ⟨hd1, hd2⟩ := bdim_some _ _ _ hd
  by_cases hne : f.nvdim = o.nvdim
  · have c1 : ¬ (f.nvdim = 1 ∧ 1 < o.nvdim) := by omega
    have c2 : ¬ (o.nvdim = 1 ∧ 1 < f.nvdim) := by omega
    rw [if_neg c1, if_neg c1, if_neg c2, if_neg c2]
    constructor
    · intro h; exact Or.inr h
    · rintro (h | h)
      · exact absurd hne h
      · exact h
  · constructor
    · intro _; exact Or.inl hne
    · intro _
      by_cases c1 : f.nvdim = 1 ∧ 1 < o.nvdim
      · have c2 : ¬ (o.nvdim = 1 ∧ 1 < f.nvdim) := by omega
        rw [if_pos c1, if_pos c1, if_neg c2, if_neg c2]
        exact ⟨rfl, rfl⟩
      · have c2 : o.nvdim = 1 ∧ 1 < f.nvdim := by
          by_cases h1 : f.nvdim = 1
          · rw [if_pos h1] at hd1; omega
          · rw [if_neg h1] at hd1; omega
        rw [if_neg c1, if_neg c1, if_pos c2, if_pos c2]
        exact ⟨rfl, rfl⟩

example : bdim exA.nvdim exB.nvdim = some 2 ∧ exA.nvdim = exB.nvdim ∧ exA.vdims ≠ exB.vdims := by decide

/-- **`x ∘ y` and `y ∘ x` are the same field iff …, for whole subtrees** (`∘ ∈ {+, *}`, no success
hypothesis): for well-typed subtrees `x`, `y` whose counts broadcast, both orders are accepted,
both results live on `M`, agree in component count, unit, dtype kind, in **every cell** and in
validity; they agree in labels and mapping — i.e. are the same field — **iff** the counts differ
or `x` and `y` carry the same labels and mapping (complement: D10 / D51). -/
theorem comm_same_field_iff (env : Env) (M : Mesh) (hM : MeshOk M) (hgood : ∀ f ∈ env.fields, Good M f)
    (b : BinOp) (hb : b = .add ∨ b = .mul) (x y : Expr) (tx ty : Ty)
    (hx : HasTy env M x tx) (hy : HasTy env M y ty) (d : Nat) (hd : bdim tx.nv ty.nv = some d) :
    ∃ g1 g2, evalF env (.bin b x y) = .ok (.fld g1) ∧ evalF env (.bin b y x) = .ok (.fld g2) ∧
      g1.mesh = M ∧ g2.mesh = M ∧ g1.nvdim = g2.nvdim ∧ g1.unit = g2.unit ∧ g1.kind = g2.kind ∧
      (∀ i, inRange M.n i = true →
        cellOf g1.data i g1.nvdim = cellOf g2.data i g2.nvdim ∧ g1.valid.get i = g2.valid.get i) ∧
      ((g1.vdims = g2.vdims ∧ g1.vmap = g2.vmap) ↔ (tx.nv ≠ ty.nv ∨ (tx.vdims = ty.vdims ∧ tx.vmap = ty.vmap))) := by
  obtain ⟨f, hf, hfg, f1, f2, f3, _⟩ := hasTy_sound env M hM hgood x tx hx
  obtain ⟨o, ho, hog, o1, o2, o3, _⟩ := hasTy_sound env M hM hgood y ty hy
  have hd1 : bdim f.nvdim o.nvdim = some d := by rw [f1, o1]; exact hd
  obtain ⟨g1, g2, h1, h2, hg1, hg2, e2, e3, e4, e5⟩ := comm_meta_iff (binFn b) (binFn b) M hM f o hfg hog d hd1
  have hba : isArith b = true := by rcases hb with rfl | rfl <;> rfl
  have hpw : isPow b = false := by rcases hb with rfl | rfl <;> rfl
  have hev1 : evalF env (.bin b x y) = .ok (.fld g1) := by
    rw [evalF_bin env b x y _ _ hf ho, applyBin_arithpow_eq env b (Or.inl hba), hpw, h1]; rfl
  have hev2 : evalF env (.bin b y x) = .ok (.fld g2) := by
    rw [evalF_bin env b y x _ _ ho hf, applyBin_arithpow_eq env b (Or.inl hba), hpw, h2]; rfl
  have hwf' : ∀ f ∈ env.fields, CFwf f ∧ f.mesh.n = M.n :=
    fun f hf => ⟨(hgood f hf).1, by rw [(hgood f hf).2.2]⟩
  refine ⟨g1, g2, hev1, hev2, hg1.2.2, hg2.2.2, e2, e3, e4,
    comm_values env M.n hwf' b hb x y (hasTy_liftOk env M x tx hx) (hasTy_liftOk env M y ty hy) g1 g2 hev1 hev2, ?_⟩
  rw [e5, f1, o1, f2, o2, f3, o3]

/-! ### (a) acceptance of the operand combinations that had no acceptance theorem -/

/-- **`f << number`, `f << vector`, `number << f`, `list << f`**: a number or a constant vector of
`m ≥ 1` entries (not mesh-shaped) is lifted to an unlabelled field with default labels and
mapping on `f`'s mesh, and the stack is accepted in either operand order (a plain Python
operand on the left goes through `__rlshift__`); the result has `k + m` components, no unit,
and the labels / mapping `<<` gives for the field and the lifted operand (`shlTy`). -/
theorem shl_raw_meta (env : Env) (M : Mesh) (hM : MeshOk M) (f : CF) (hf : Good M f) (od : Opd)
    (hfit : LiftFits M.n od) :
    (∃ g, applyBin env .shl (.fld f) (.raw od) = .ok (.fld g) ∧ Good M g ∧
      tyOf g = shlTy M (tyOf f) (liftTy M od)) ∧
    (isNp od = false → ∃ g, applyBin env .shl (.raw od) (.fld f) = .ok (.fld g) ∧ Good M g ∧
      tyOf g = shlTy M (liftTy M od) (tyOf f)) := by
  obtain ⟨o, ho, hog, o1, o2, o3, o4, o5⟩ := liftOpd_accepts M hM od hfit
  have e2 : tyOf o = liftTy M od := by
    simp only [tyOf, liftTy]; rw [o1, o2, o3, o4, o5]
  refine ⟨?_, fun hnp => ?_⟩
  · obtain ⟨g, hg, hgm⟩ := shl_hasMeta env M hM f o hf hog
    refine ⟨g, ?_, hgm.1, by rw [← e2]; exact tyOf_eq_of_hasMeta M g _ hgm⟩
    simp only [applyBin, forwardOp, shlOp]
    rw [hf.2.2, ho]
    simpa only [applyBin, forwardOp, shlOp] using hg
  · obtain ⟨g, hg, hgm⟩ := shl_hasMeta env M hM o f hog hf
    refine ⟨g, ?_, hgm.1, by rw [← e2]; exact tyOf_eq_of_hasMeta M g _ hgm⟩
    simp only [applyBin, hnp, Bool.false_eq_true, if_false, reflectedOp]
    rw [hf.2.2, ho]
    simpa only [applyBin, forwardOp, shlOp] using hg

/-- a constant vector with three entries (the example mesh has two cells, so `exVec` is
mesh-shaped and stands for per-cell scalars under `<<` / `angle`) -/
def exVec3 : Opd := .arr (NDA.ofList [3] [⟨1, 0⟩, ⟨-1, 0⟩, ⟨2, 0⟩] GQ.zero) .float false

example : LiftFits exMesh.n exVec3 := ⟨3, by decide, rfl, by decide⟩

/-- **`f.angle(number)`, `f.angle(vector)`, `f.angle(per-cell array)`**: accepted for a number when
`f` is a scalar field, for a constant vector of `nvdim` entries and for a per-cell array of the
field's own shape (not mesh-shaped); an unlabelled scalar field without mapping, unit `rad`. -/
theorem angle_raw_meta (sq acos : Rat → Rat) (M : Mesh) (hM : MeshOk M) (f : CF) (hf : Good M f) (od : Opd)
    (hfit : AngleFits M.n f.nvdim od) :
    ∃ g, angleOp sq acos f (.raw od) = .ok g ∧ Good M g ∧ g.nvdim = 1 ∧ g.vdims = none ∧ g.vmap = [] ∧
      g.unit = some "rad" ∧ g.kind = .float :=
  angleOp_raw_accepts sq acos M hM f hf od hfit

example : AngleFits exMesh.n exV3.nvdim exVec3 := ⟨Or.inl rfl, by decide⟩

/-- **a scalar field first in a ufunc call, a vector field second** (`np.add(s, v)`, `np.power(s, v)`):
accepted **iff** the scalar field carries no label; the result then has the vector's count, the
*default* labels for that count (not the vector's), an empty mapping and no unit. -/
theorem ufunc_scalar_first (fn : GQ → GQ → GQ) (M : Mesh) (hM : MeshOk M) (f o : CF) (hf : Good M f) (ho : Good M o)
    (h1 : f.nvdim = 1) (h2 : 1 < o.nvdim) :
    ((∃ g, ufunc2 fn false (.fld f) (.fld o) = .ok g) ↔ f.vdims = none) ∧
    (f.vdims = none → ∃ g, ufunc2 fn false (.fld f) (.fld o) = .ok g ∧ Good M g ∧ g.nvdim = o.nvdim ∧
      g.vdims = Fld.defaultVdims o.nvdim ∧ g.vmap = [] ∧ g.unit = none ∧ g.kind = (f.kind.join o.kind).ctor) := by
  have hacc := fun hvd => ufunc2_sf_accepts fn false M hM f o hf ho h1 hvd (negIntPow_false _ _ _)
  refine ⟨⟨fun ⟨g, hg⟩ => ?_, fun hvd => ?_⟩, hacc⟩
  · cases hvd : f.vdims with
    | none => rfl
    | some l =>
      obtain ⟨e, he⟩ := ufunc2_sf_rejected fn false f o hf.1 hf.2.1 ho.1 (by rw [hf.2.2, ho.2.2]) h1 h2 l hvd
      rw [he] at hg; cases hg
  · obtain ⟨g, hg, _⟩ := hacc hvd
    exact ⟨g, hg⟩

example : Good exMesh exS ∧ exS.nvdim = 1 ∧ 1 < exA.nvdim ∧ exS.vdims = none :=
  ⟨⟨⟨rfl, rfl, by decide⟩, ⟨by decide +kernel, by decide +kernel⟩, rfl⟩, rfl, by decide, rfl⟩

/-- **`f ** g` for two fields and `f ** array`**: accepted exactly when the component counts
broadcast and NumPy's integer-power rule does not object (two integer dtypes with a negative
exponent entry); for a constant vector of matching length / per-cell array exponent likewise. -/
theorem pow_accepts_iff (M : Mesh) (hM : MeshOk M) (f o : CF) (hf : Good M f) (ho : Good M o) :
    ((∃ g, applyOperator GQ.pow true f (.fld o) = .ok g) ↔
      ((bdim f.nvdim o.nvdim).isSome = true ∧ negIntPow true f.kind o.kind o.data = false)) ∧
    (∀ od, RawFits f.mesh.n f.nvdim od →
      ((∃ g, applyOperator GQ.pow true f (.raw od) = .ok g) ↔ negIntPow true f.kind (rawKind od) (rawArr od) = false)) := by
  refine ⟨⟨fun ⟨g, hg⟩ => ?_, fun ⟨h1, h2⟩ => ?_⟩, fun od hfit => ⟨fun ⟨g, hg⟩ => ?_, fun h => ?_⟩⟩
  · cases hd : bdim f.nvdim o.nvdim with
    | none =>
      obtain ⟨e, he⟩ := applyOperator_fld_nvdim_rejected GQ.pow true f o hd
      rw [he] at hg; cases hg
    | some d =>
      refine ⟨rfl, ?_⟩
      cases hp : negIntPow true f.kind o.kind o.data with
      | false => rfl
      | true =>
        obtain ⟨e, he⟩ := applyOperator_fld_negpow_rejected GQ.pow true f o hp
        rw [he] at hg; cases hg
  · cases hd : bdim f.nvdim o.nvdim with
    | none => rw [hd] at h1; cases h1
    | some d =>
      obtain ⟨g, hg, _⟩ := applyOperator_fld_accepts GQ.pow true M hM f o hf ho d hd h2
      exact ⟨g, hg⟩
  · cases hp : negIntPow true f.kind (rawKind od) (rawArr od) with
    | false => rfl
    | true =>
      exfalso
      cases od with
      | num z k np =>
        simp only [rawKind, rawArr] at hp
        simp only [applyOperator, hp, if_true] at hg
        cases hg
      | arr a k np =>
        simp only [rawKind, rawArr] at hp
        simp only [applyOperator, hp, if_true] at hg
        split at hg
        · cases hg
        · split at hg <;> cases hg
  · obtain ⟨g, hg, _⟩ := applyOperator_raw_accepts GQ.pow true M f hf od hfit h
    exact ⟨g, hg⟩

/-- a tree that uses the newly typed combinations: `np.power(2.0, s) * (a ** b) << [1, -1, 2]` and
`angle` with a vector -/
example : ∃ t, HasTy exEnv1 exMesh
    (.bin .shl (.bin .mul (.bin .upow (.opd (.num ⟨2, 0⟩ .float true)) (.leaf 2)) (.bin .pow (.leaf 0) (.leaf 1)))
      (.opd exVec3)) t :=
  ⟨_, .shlFR _ exVec3 _
        (.arithFF .mul _ _ _ _ 2 rfl
          (.upowRF _ _ _ (.leaf 2 exS rfl) trivial trivial (Or.inl (by decide)))
          (.powFF _ _ _ _ 2 (.leaf 0 exA rfl) (.leaf 1 exB rfl) (by decide) (Or.inl (by decide))) (by decide))
        ⟨3, by decide, rfl, by decide⟩⟩

/-- `np.add(s, a)` (unlabelled scalar first) and `v3.angle([1, -1, 2])` -/
example : (∃ t, HasTy exEnv1 exMesh (.bin .uadd (.leaf 2) (.leaf 0)) t) ∧
    (∃ t, HasTy exEnv3 exMesh (.bin .angle (.leaf 0) (.opd exVec3)) t) :=
  ⟨⟨_, .ufuncSF .uadd _ _ _ _ rfl (.leaf 2 exS rfl) (.leaf 0 exA rfl) rfl (by decide) rfl (by intro h; cases h)⟩,
   ⟨_, .angleFR _ exVec3 _ (.leaf 0 exV3 rfl) ⟨Or.inl rfl, by decide⟩⟩⟩

/-! ### (e) validity through whole programs, no success hypothesis -/

/-- **validity of a typed program is the AND over its field leaves**: for every well-typed tree
(now including `**` between fields, `np.power`, `<<` / `angle` with numbers and vectors) the
evaluation is accepted and a cell of the result is valid exactly when it is valid in every field
leaf of the tree — operator paths, reflected operators, `dot`/`cross`/`<<`/`angle` and ufunc
calls alike; numbers, vectors and arrays never invalidate a cell. -/
theorem typed_valid_leaves (env : Env) (M : Mesh) (hM : MeshOk M) (hgood : ∀ f ∈ env.fields, Good M f)
    (e : Expr) (t : Ty) (h : HasTy env M e t) :
    ∃ g, evalF env e = .ok (.fld g) ∧
      ∀ i, inRange M.n i = true → g.valid.get i = e.leaves.all (leafValid env i) := by
  obtain ⟨g, hg, _, _, _, _, _, _, _, _, hc⟩ := typed_total env M hM hgood e t h
  exact ⟨g, hg, fun i hi => by rw [(hc i hi).2, valid_is_and_of_leaves]⟩

/-! ### the other forms of the ufunc protocol: `reduce`, `accumulate`, `outer`, `out=` -/

/-- **Reductions: accepted ⇔ identity.**  `np.<ufunc>.reduce(f, axis=ax, keepdims=keep)` on a
well-formed field (any axis of the array — a mesh axis or the component axis) is accepted **iff**
`keepdims` is set and the reduced axis has length 1, and then the result has `f`'s values,
validity, labels and mapping: every call that actually reduces something — and every call
with `axis=None` or without `keepdims` — is refused. -/
theorem reduce_ok_iff (fn : GQ → GQ → GQ) (M : Mesh) (hM : MeshOk M) (f : CF) (hf : Good M f) (h0 : M.n ≠ [])
    (ax : Nat) (hax : ax < f.data.shape.length) (keep : Bool) :
    ((∃ g, ufuncReduce fn f (some ax) keep = .ok g) ↔ (keep = true ∧ f.data.shape.getD ax 0 = 1)) ∧
    (∀ g, ufuncReduce fn f (some ax) keep = .ok g →
      Good M g ∧ g.nvdim = f.nvdim ∧ g.vdims = f.vdims ∧ g.vmap = f.vmap ∧
      (∀ idx, inRange (M.n ++ [f.nvdim]) idx = true → g.data.get idx = f.data.get idx) ∧
      (∀ i, inRange M.n i = true → g.valid.get i = f.valid.get i)) ∧
    (∃ e, ufuncReduce fn f none keep = .error e) := by
  have h0' : f.mesh.n ≠ [] := by rw [hf.2.2]; exact h0
  have hiff : (∃ g, ufuncReduce fn f (some ax) keep = .ok g) ↔ (keep = true ∧ f.data.shape.getD ax 0 = 1) := by
    constructor
    · rintro ⟨g, hg⟩
      cases keep with
      | false =>
        obtain ⟨e, he⟩ := ufuncReduce_nokeep_rejected fn f hf.1 h0' ax hax
        rw [he] at hg; cases hg
      | true =>
        refine ⟨rfl, ?_⟩
        by_contra hne
        obtain ⟨e, he⟩ := ufuncReduce_keep_rejected fn f hf.1 hf.2.1 ax hax hne
        rw [he] at hg; cases hg
    · rintro ⟨rfl, hlen⟩
      obtain ⟨g, hg, _⟩ := ufuncReduce_keep_accepts fn M hM f hf ax hax hlen
      exact ⟨g, hg⟩
  refine ⟨hiff, fun g hg => ?_, ufuncReduce_none_rejected fn f keep h0'⟩
  obtain ⟨hk, hlen⟩ := hiff.mp ⟨g, hg⟩
  subst hk
  obtain ⟨g', hg', hgg, h1, h2, h3, _, _, hd, hv⟩ := ufuncReduce_keep_accepts fn M hM f hf ax hax hlen
  rw [hg] at hg'
  injection hg' with hg'
  subst hg'
  rw [hf.2.2] at hd hv
  exact ⟨hgg, h1, h2, h3, hd, hv⟩

def reduceOk (f : CF) (ax : Option Nat) (keep : Bool) : Bool :=
  match ufuncReduce GQ.add f ax keep with
  | .ok _ => true
  | _ => false
/-- `np.add.reduce(a)` and `np.add.reduce(a, axis=-1, keepdims=True)` are refused for the
two-component field; for the scalar field the latter is the (accepted) identity -/
example : reduceOk exA (some 0) false = false ∧ reduceOk exA (some 1) true = false ∧ reduceOk exA none false = false ∧
    reduceOk exS (some 1) true = true ∧ reduceOk exS (some 0) true = false := by decide +kernel

/-- **`np.<ufunc>.accumulate(f, axis)` is accepted for every axis** and is the running fold along
that axis: a well-formed field on the same mesh with `f`'s labels, mapping and validity; the
entries with index 0 along the axis are `f`'s own, and each further entry is `fn` of its
predecessor along the axis and `f`'s entry (recurrence law). -/
theorem accumulate_law (fn : GQ → GQ → GQ) (M : Mesh) (hM : MeshOk M) (f : CF) (hf : Good M f) (ax : Nat)
    (hax : ax < f.data.shape.length) :
    ∃ g, ufuncAccumulate fn f ax = .ok g ∧ Good M g ∧ g.nvdim = f.nvdim ∧ g.vdims = f.vdims ∧
      g.vmap = f.vmap ∧ g.unit = none ∧
      (∀ i, inRange M.n i = true → g.valid.get i = f.valid.get i) ∧
      (∀ idx, inRange (M.n ++ [f.nvdim]) idx = true → idx.getD ax 0 = 0 → g.data.get idx = f.data.get idx) ∧
      (∀ idx j, inRange (M.n ++ [f.nvdim]) idx = true → idx.getD ax 0 = j + 1 →
        inRange (M.n ++ [f.nvdim]) (setAt idx ax j) = true →
        g.data.get idx = fn (g.data.get (setAt idx ax j)) (f.data.get idx)) := by
  obtain ⟨g, hg, hgg, h1, h2, h3, h4, _, hd, hv⟩ := ufuncAccumulate_accepts fn M hM f hf ax hax
  rw [hf.2.2] at hd hv
  have hlen : ∀ idx, inRange (M.n ++ [f.nvdim]) idx = true → ax < idx.length := by
    intro idx hidx
    rw [inRange_length _ _ hidx, ← hf.2.2, ← hf.1.1]
    exact hax
  refine ⟨g, hg, hgg, h1, h2, h3, h4, hv, fun idx hidx h0 => ?_, fun idx j hidx hj hidx' => ?_⟩
  · rw [hd idx hidx, h0, foldAxis_one, ← h0, setAt_getD_self]
  · rw [hd idx hidx, hd _ hidx', hj, foldAxis_succ, getD_setAt_self _ _ _ (hlen idx hidx), foldAxis_setAt,
      ← hj, setAt_getD_self]

/-- **`np.<ufunc>.outer(f, g)` is always refused** (the result has the axes of both arrays) -/
theorem outer_rejected (fn : GQ → GQ → GQ) (f o : CF) (hf : CFwf f) (ho : CFwf o) :
    ∃ e, ufuncOuter fn f o = .error e :=
  ufuncOuter_rejected fn f o hf ho

/-- **`np.<ufunc>(l, r, out=h)`, entry by entry.**  If the call returns a field `g` (inputs
well-formed, `h` well-formed): some input is a field `self`, `g` lives on `self`'s mesh, which has
`h`'s cell counts; **every entry of `h`'s array is now `fn` of the inputs read at their
NumPy-broadcast positions, `g` holds the same entries**, `g` is valid where all field inputs are
— and `h` keeps its own mesh, validity, labels, mapping and unit (`out_state_kept`). -/
theorem out_entries (fn : GQ → GQ → GQ) (pw : Bool) (rk : Kind → Kind → Kind) (l r : Val) (out g : CF)
    (hwo : CFwf out) (hwl : ∀ f, l = .fld f → CFwf f) (hwr : ∀ f, r = .fld f → CFwf f)
    (h : (ufunc2out fn pw rk l r out).res = .ok g) :
    ∃ self a ka b kb, firstFld l r = some self ∧ ufuncInput l = .ok (a, ka) ∧ ufuncInput r = .ok (b, kb) ∧
      g.mesh = self.mesh ∧ self.mesh.n = out.mesh.n ∧ g.nvdim = out.nvdim ∧ CFwf g ∧ g.kind = out.kind.ctor ∧
      (∀ idx, (ufunc2out fn pw rk l r out).out.data.get idx =
        fn (a.get (bproj a.shape idx)) (b.get (bproj b.shape idx))) ∧
      (∀ idx, inRange (out.mesh.n ++ [out.nvdim]) idx = true →
        g.data.get idx = (ufunc2out fn pw rk l r out).out.data.get idx) ∧
      (∀ i, inRange out.mesh.n i = true → g.valid.get i = (ufuncValid self l r).get i) :=
  ufunc2out_ok fn pw rk l r out g hwo hwl hwr h

/-- **whatever the outcome, the `out` field keeps everything but its array** — in particular its
validity mask is *not* updated to the validity of the result — and its array is only touched
when every check before the NumPy call passed (input types, meshes of the inputs, power rule)
and NumPy could broadcast and cast into it. -/
theorem out_state_kept (fn : GQ → GQ → GQ) (pw : Bool) (rk : Kind → Kind → Kind) (l r : Val) (out : CF) :
    ((ufunc2out fn pw rk l r out).out.mesh = out.mesh ∧ (ufunc2out fn pw rk l r out).out.nvdim = out.nvdim ∧
      (ufunc2out fn pw rk l r out).out.valid = out.valid ∧ (ufunc2out fn pw rk l r out).out.vdims = out.vdims ∧
      (ufunc2out fn pw rk l r out).out.vmap = out.vmap ∧ (ufunc2out fn pw rk l r out).out.unit = out.unit ∧
      (ufunc2out fn pw rk l r out).out.kind = out.kind ∧
      (ufunc2out fn pw rk l r out).out.data.shape = out.data.shape) ∧
    ((ufunc2out fn pw rk l r out).out = out ∨
      ∃ a ka b kb out', ufuncInput l = .ok (a, ka) ∧ ufuncInput r = .ok (b, kb) ∧
        negIntPow pw ka kb b = false ∧ outWrite fn (rk ka kb) a b out = .ok out' ∧
        (ufunc2out fn pw rk l r out).out = out') :=
  ⟨ufunc2out_state_kept fn pw rk l r out, ufunc2out_out_cases fn pw rk l r out⟩

/-- **`np.<ufunc>(f, o, out=h)` is accepted** for two fields on one mesh whose result has `f`'s
component count and a field `h` with the same cell counts and component count whose dtype the
result can be cast to — **whatever mesh `h` lives on** (the mesh of `out` is never compared):
the returned field is well-formed on the inputs' mesh, carries `f`'s labels and mapping, no unit
and `h`'s dtype kind. -/
theorem out_accepts_meta (fn : GQ → GQ → GQ) (pw : Bool) (rk : Kind → Kind → Kind) (M : Mesh) (hM : MeshOk M)
    (f o out : CF) (hf : Good M f) (ho : Good M o) (hwo : CFwf out) (hn : out.mesh.n = M.n)
    (hnv : out.nvdim = f.nvdim) (hd : bdim f.nvdim o.nvdim = some f.nvdim)
    (hk : (rk f.kind o.kind).castable out.kind = true) (hpw : negIntPow pw f.kind o.kind o.data = false) :
    ∃ g, (ufunc2out fn pw rk (.fld f) (.fld o) out).res = .ok g ∧ Good M g ∧ g.nvdim = f.nvdim ∧
      g.vdims = f.vdims ∧ g.vmap = f.vmap ∧ g.unit = none ∧ g.kind = out.kind.ctor :=
  ufunc2out_ff_accepts fn pw rk M hM f o out hf ho hwo hn hnv hd hk hpw

/-- `h` on the other mesh `exMesh2`, same cell counts -/
example : Good exMesh exA ∧ Good exMesh exB ∧ CFwf exC ∧ exC.mesh.n = exMesh.n ∧ exC.mesh ≠ exMesh ∧
    (Kind.join exA.kind exB.kind).castable exC.kind = true :=
  ⟨⟨⟨rfl, rfl, by decide⟩, ⟨by decide +kernel, by decide +kernel⟩, rfl⟩,
   ⟨⟨rfl, rfl, by decide⟩, ⟨by decide +kernel, by decide +kernel⟩, rfl⟩,
   ⟨rfl, rfl, by decide⟩, rfl, by decide +kernel, by decide⟩

def outRefused (o : OutRes) : Bool :=
  match o.res with
  | .ok _ => false
  | .error _ => true

/-- **a call with `out=` can be refused after `out` was overwritten** (the code as it stands): for
the scalar field `s` labelled `s1`, `np.add(s, s, out=a)` with the two-component field `a`
writes `s + s` into both components of `a` and then raises `NotImplementedError` (one label
for two components). -/
theorem out_written_then_refused :
    outRefused (ufunc2out GQ.add false Kind.join (.fld exS1) (.fld exS1) exA) = true ∧
    (ufunc2out GQ.add false Kind.join (.fld exS1) (.fld exS1) exA).out.data.get [0, 1] = ⟨4, 0⟩ ∧
    exA.data.get [0, 1] = ⟨2, 0⟩ := by
  decide +kernel

/-! ### rejected ⇔ malformed across meshes, and for arrays of arbitrary shape -/

/-- **`self ∘ other` for two fields on their own meshes (`+ - * / **`): accepted ⇔ well-formed
combination.**  For a well-formed field `f` on `M` and `o` on `M'`, `_apply_operator` accepts
**iff** `M.allclose(M')` holds, the component counts broadcast and NumPy's integer-power rule
does not object; the accepted result is a well-formed field on `M` (the mesh of `self`) with the
broadcast count.  So "fields on different meshes or with incompatible component counts are
rejected" is an equivalence on this path: nothing else is rejected, nothing of this is accepted. -/
theorem fields_ok_iff (fn : GQ → GQ → GQ) (pw : Bool) (M M' : Mesh) (f o : CF) (hf : Good M f) (ho : Good M' o) :
    ((∃ g, applyOperator fn pw f (.fld o) = .ok g) ↔
      (meshAllclose M M' = .ok true ∧ (bdim f.nvdim o.nvdim).isSome = true ∧
        negIntPow pw f.kind o.kind o.data = false)) ∧
    (∀ g, applyOperator fn pw f (.fld o) = .ok g → Good M g ∧ bdim f.nvdim o.nvdim = some g.nvdim) := by
  have hacc : meshAllclose M M' = .ok true → ∀ d, bdim f.nvdim o.nvdim = some d →
      negIntPow pw f.kind o.kind o.data = false →
      ∃ g, applyOperator fn pw f (.fld o) = .ok g ∧ Good M g ∧ g.nvdim = d := by
    intro hc d hd hp
    obtain ⟨g, hg, hgg, hn, _⟩ := applyOperator_fld_accepts_close fn pw M M' f o hf ho hc d hd hp
    exact ⟨g, hg, hgg, hn⟩
  have hfwd : ∀ g, applyOperator fn pw f (.fld o) = .ok g →
      meshAllclose M M' = .ok true ∧ (∃ d, bdim f.nvdim o.nvdim = some d) ∧
        negIntPow pw f.kind o.kind o.data = false := by
    intro g hg
    refine ⟨?_, ?_, ?_⟩
    · by_contra hne
      obtain ⟨e, he⟩ := checkSame_mesh f o true (by rw [hf.2.2, ho.2.2]; exact hne)
      simp only [applyOperator, he] at hg
      cases hg
    · cases hd : bdim f.nvdim o.nvdim with
      | some d => exact ⟨d, rfl⟩
      | none =>
        obtain ⟨e, he⟩ := applyOperator_fld_nvdim_rejected fn pw f o hd
        rw [he] at hg; cases hg
    · cases hp : negIntPow pw f.kind o.kind o.data with
      | false => rfl
      | true =>
        obtain ⟨e, he⟩ := applyOperator_fld_negpow_rejected fn pw f o hp
        rw [he] at hg; cases hg
  refine ⟨⟨fun ⟨g, hg⟩ => ?_, fun ⟨h1, h2, h3⟩ => ?_⟩, fun g hg => ?_⟩
  · obtain ⟨h1, ⟨d, hd⟩, h3⟩ := hfwd g hg
    exact ⟨h1, by rw [hd]; rfl, h3⟩
  · cases hd : bdim f.nvdim o.nvdim with
    | none => rw [hd] at h2; cases h2
    | some d =>
      obtain ⟨g, hg, _⟩ := hacc h1 d hd h3
      exact ⟨g, hg⟩
  · obtain ⟨h1, ⟨d, hd⟩, h3⟩ := hfwd g hg
    obtain ⟨g', hg', hgg, hn⟩ := hacc h1 d hd h3
    rw [hg] at hg'
    injection hg' with hg'
    subst hg'
    exact ⟨hgg, by rw [hd, hn]⟩

/-- the same mesh under another object identity / with corners inside the tolerance is `allclose` -/
example : meshAllclose exMesh { exMesh with subs := [("r", exRegion)] } = .ok true := by decide +kernel

/-- binary ufuncs also accept two fields whose meshes are merely `allclose` (result on `self`'s mesh) -/
theorem ufunc_fields_close (fn : GQ → GQ → GQ) (M M' : Mesh) (hM : MeshOk M) (f o : CF) (hf : Good M f)
    (ho : Good M' o) (hclose : meshAllclose M M' = .ok true) (hd : bdim f.nvdim o.nvdim = some f.nvdim) :
    ∃ g, ufunc2 fn false (.fld f) (.fld o) = .ok g ∧ Good M g ∧ g.nvdim = f.nvdim ∧ g.vdims = f.vdims ∧
      g.vmap = f.vmap ∧ g.unit = none :=
  let ⟨g, h, hg, h1, h2, h3, h4, _⟩ :=
    ufunc2_ff_accepts_close fn false M M' hM f o hf ho hclose hd (negIntPow_false _ _ _)
  ⟨g, h, hg, h1, h2, h3, h4⟩

/-- **A field and an array of arbitrary shape: the exact acceptance conditions of both operand
orders (the precise extent of open finding D52).**  For a well-formed field `f` with `nvdim = k`
on a mesh with cell counts `n` and an array `a` of any shape:

* `f ∘ a` (`_apply_operator`, also `list ∘ f` through the reflected methods) is accepted **iff**
  `a` is not 0-d, passes the guard (`a.shape = n ++ [k]`, or `len(a) = k`, or `k = 1`), broadcasts
  with `f.array` to some `n ++ [m]` (`m ≥ 1`, the mesh's own cell counts), and `m = k` or `f`
  has no mapping;
* `a ∘ f` for a NumPy array (`__array_ufunc__`) is accepted **iff** `a` broadcasts with `f.array`
  to some `n ++ [m]` and `m = k` or `f` has no labels.

Hence the two orders differ exactly for 0-d arrays, arrays that fail the guard although they
broadcast (e.g. `n ++ [1]` for `k > 1`), and labelled scalar fields without mapping combined with
wider arrays. -/
theorem array_operand_ok_iff (fn fn' : GQ → GQ → GQ) (M : Mesh) (hM : MeshOk M) (f : CF) (hf : Good M f)
    (a : NDA GQ) (k : Kind) (np : Bool) :
    ((∃ g, applyOperator fn false f (.raw (.arr a k np)) = .ok g) ↔
      (a.shape ≠ [] ∧ (f.data.shape = a.shape ∨ f.nvdim = a.shape.headD 0 ∨ f.nvdim = 1) ∧
        ∃ m, 0 < m ∧ bshape (M.n ++ [f.nvdim]) a.shape = some (M.n ++ [m]) ∧ (m = f.nvdim ∨ f.vmap = []))) ∧
    ((∃ g, ufunc2 fn' false (.raw (.arr a k true)) (.fld f) = .ok g) ↔
      ∃ m, 0 < m ∧ bshape a.shape (M.n ++ [f.nvdim]) = some (M.n ++ [m]) ∧ (m = f.nvdim ∨ f.vdims = none)) :=
  ⟨applyOperator_arr_ok_iff fn M f hf a k np, ufunc2_arr_ok_iff fn' M hM f hf a k⟩

/-- the witness of `comm_accept_fails` in these terms: `np.ones((2, 2))` broadcasts with the labelled
scalar field `s1` to `n ++ [2]`; `s1` has no mapping (operator path accepts) but a label (ufunc path refuses) -/
example : bshape (exMesh.n ++ [exS1.nvdim]) [2, 2] = some (exMesh.n ++ [2]) ∧ exS1.vmap = [] ∧ exS1.vdims ≠ none := by
  decide

/-! ### stacking reproduces labels and mapping exactly for default-labelled fields -/

/-- **the stack `f.l₀ << … << f.lₖ₋₁` also reproduces the labels and the mapping of `f` iff `f`
carries the default labels for its count and the default mapping** (the component fields are
unlabelled scalars; custom labels and mappings do not survive the round trip — values,
validity, mesh and count always do, `stack_components_total`). -/
theorem stack_meta_iff (M : Mesh) (hM : MeshOk M) (f : CF) (hf : Good M f) (vd : List String)
    (hvd : f.vdims = some vd) :
    ∃ g, stackComps f = .ok g ∧
      ((g.vdims = f.vdims ∧ g.vmap = f.vmap) ↔
        (f.vdims = Fld.defaultVdims f.nvdim ∧
          f.vmap = vmapDefault f.nvdim M.region.ndim (Fld.defaultVdims f.nvdim) M.region.dims)) := by
  obtain ⟨g, hg, _, _, _, h4, h5⟩ := stack_components_total M hM f hf vd hvd
  rw [vmapSet_none_eq] at h5
  injection h5 with h5
  refine ⟨g, hg, ?_⟩
  rw [h4, ← h5]
  constructor
  · rintro ⟨a, b⟩; exact ⟨a.symm, b.symm⟩
  · rintro ⟨a, b⟩; exact ⟨a.symm, b.symm⟩

/-- **typed elementwise trees, entry by entry, without success hypothesis**: every well-typed tree
without `dot` / `cross` / `<<` / `angle` is accepted and every entry of the result is the tree of
scalars at that entry (`eval_scalar_tree` with the acceptance discharged by `typed_total`). -/
theorem typed_scalar_tree (env : Env) (M : Mesh) (hM : MeshOk M) (hgood : ∀ f ∈ env.fields, Good M f)
    (e : Expr) (t : Ty) (h : HasTy env M e t) (hel : e.elementwise = true) :
    ∃ g, evalF env e = .ok (.fld g) ∧ g.mesh = M ∧ g.nvdim = t.nv ∧
      ∀ i, inRange M.n i = true → ∀ c, c < t.nv → g.data.get (i ++ [c]) = scalarAt env e (i ++ [c]) := by
  obtain ⟨g, hg, hm, _, _, hn, _⟩ := typed_total env M hM hgood e t h
  have hwf' : ∀ f ∈ env.fields, CFwf f ∧ f.mesh.n = M.n :=
    fun f hf => ⟨(hgood f hf).1, by rw [(hgood f hf).2.2]⟩
  exact ⟨g, hg, hm, hn, fun i hi c hc => eval_scalar_tree env M.n hwf' e hel g hg i hi c (by rw [hn]; exact hc)⟩

/-! ### the conditional laws of round 1 with their acceptance discharged -/

/-- **`x @ y = y @ x`, `x & y = -(y & x)` and `-(-x) = x`, `conj(conj x) = x` on typed trees, no success
hypothesis**: for well-typed subtrees with equal component counts both dot products are accepted
and agree in every cell and in validity; with three components each both cross products are
accepted and are each other's negative; the double negation / double conjugation of any
well-typed tree is accepted and has the values and validity of the tree itself. -/
theorem laws_typed (env : Env) (M : Mesh) (hM : MeshOk M) (hgood : ∀ f ∈ env.fields, Good M f)
    (x y : Expr) (tx ty : Ty) (hx : HasTy env M x tx) (hy : HasTy env M y ty) :
    (tx.nv = ty.nv → ∃ g1 g2, evalF env (.bin .dot x y) = .ok (.fld g1) ∧ evalF env (.bin .dot y x) = .ok (.fld g2) ∧
      ∀ i, inRange M.n i = true →
        cellOf g1.data i g1.nvdim = cellOf g2.data i g2.nvdim ∧ g1.valid.get i = g2.valid.get i) ∧
    (tx.nv = 3 → ty.nv = 3 →
      ∃ g1 g2, evalF env (.bin .cross x y) = .ok (.fld g1) ∧ evalF env (.bin .cross y x) = .ok (.fld g2) ∧
      ∀ i, inRange M.n i = true →
        cellOf g2.data i g2.nvdim = (cellOf g1.data i g1.nvdim).map GQ.neg ∧ g1.valid.get i = g2.valid.get i) ∧
    (∀ u, u = UnOp.neg ∨ u = UnOp.conj →
      ∃ f g, evalF env x = .ok (.fld f) ∧ evalF env (.un u (.un u x)) = .ok (.fld g) ∧
      ∀ i, inRange M.n i = true →
        cellOf g.data i g.nvdim = cellOf f.data i f.nvdim ∧ g.valid.get i = f.valid.get i) := by
  have hwf' : ∀ f ∈ env.fields, CFwf f ∧ f.mesh.n = M.n :=
    fun f hf => ⟨(hgood f hf).1, by rw [(hgood f hf).2.2]⟩
  have lx := hasTy_liftOk env M x tx hx
  have ly := hasTy_liftOk env M y ty hy
  refine ⟨fun hn => ?_, fun h3 h3' => ?_, fun u hu => ?_⟩
  · obtain ⟨g1, h1, _⟩ := hasTy_sound env M hM hgood _ _ (HasTy.dotFF x y tx ty hx hy hn)
    obtain ⟨g2, h2, _⟩ := hasTy_sound env M hM hgood _ _ (HasTy.dotFF y x ty tx hy hx hn.symm)
    exact ⟨g1, g2, h1, h2, dot_comm_values env M.n hwf' x y lx ly g1 g2 h1 h2⟩
  · obtain ⟨g1, h1, _⟩ := hasTy_sound env M hM hgood _ _
      (HasTy.crossFF x y tx ty _ hx hy h3 h3' (vmapSet_none_eq _ _ _ _))
    obtain ⟨g2, h2, _⟩ := hasTy_sound env M hM hgood _ _
      (HasTy.crossFF y x ty tx _ hy hx h3' h3 (vmapSet_none_eq _ _ _ _))
    exact ⟨g1, g2, h1, h2, cross_anticomm_values env M.n hwf' x y lx ly g1 g2 h1 h2⟩
  · obtain ⟨f, h0, _⟩ := hasTy_sound env M hM hgood x tx hx
    obtain ⟨g, h1, _⟩ := hasTy_sound env M hM hgood _ _ (HasTy.un u _ _ (HasTy.un u x tx hx))
    exact ⟨f, g, h0, h1, involution_values env M.n hwf' u hu x lx f g h0 h1⟩

example : HasTy exEnv1 exMesh (.leaf 0) (tyOf exA) ∧ HasTy exEnv1 exMesh (.leaf 1) (tyOf exB) ∧
    (tyOf exA).nv = (tyOf exB).nv := ⟨.leaf 0 exA rfl, .leaf 1 exB rfl, rfl⟩

/-- **`np.divmod(f, g)` on two fields: accepted and cell-wise, in one statement** — `pair_cellwise`
with its success hypothesis discharged by `pair_accepts_meta`. -/
theorem pair_total (fn1 fn2 : GQ → GQ → GQ) (c : Bool) (M : Mesh) (hM : MeshOk M) (f o : CF)
    (hf : Good M f) (ho : Good M o) (hd : bdim f.nvdim o.nvdim = some f.nvdim)
    (hk : c = true ∨ (f.kind ≠ .complex ∧ o.kind ≠ .complex)) :
    ∃ g1 g2, ufunc2pair fn1 fn2 c (.fld f) (.fld o) = .ok (g1, g2) ∧ Good M g1 ∧ Good M g2 ∧
      ∀ i, inRange M.n i = true →
        cellOf g1.data i g1.nvdim = bz fn1 (cellOf f.data i f.nvdim) (cellOf o.data i o.nvdim) ∧
        cellOf g2.data i g2.nvdim = bz fn2 (cellOf f.data i f.nvdim) (cellOf o.data i o.nvdim) ∧
        g1.valid.get i = (f.valid.get i && o.valid.get i) ∧ g2.valid.get i = (f.valid.get i && o.valid.get i) := by
  obtain ⟨g1, g2, h, hg1, hg2, _⟩ := pair_accepts_meta fn1 fn2 c M hM f o hf ho hd hk
  obtain ⟨_, _, _, _, hc⟩ := pair_cellwise fn1 fn2 c M.n f o g1 g2 hf.1 ho.1 (by rw [hf.2.2]) (by rw [ho.2.2]) h
  exact ⟨g1, g2, h, hg1, hg2, hc⟩

/-! non-vacuity of the hypotheses of the ufunc-method theorems on the example fields -/

def accOk (f : CF) (ax : Nat) : Bool :=
  match ufuncAccumulate GQ.add f ax with
  | .ok _ => true
  | _ => false
def outOk (o : OutRes) : Bool := !outRefused o
/-- `np.add.accumulate(a, axis=0)` and `axis=-1`; `np.add(a, b, out=c)` with `c` on the other mesh;
`b` on `exMesh`, `c` on `exMesh2` are well-formed fields on their meshes -/
example : accOk exA 0 = true ∧ accOk exA 1 = true ∧ 1 < exA.data.shape.length ∧
    outOk (ufunc2out GQ.add false Kind.join (.fld exA) (.fld exB) exC) = true ∧
    Good exMesh exB ∧ Good exMesh2 exC ∧ meshAllclose exMesh exMesh2 ≠ .ok true :=
  ⟨by decide +kernel, by decide +kernel, by decide, by decide +kernel,
   ⟨⟨rfl, rfl, by decide⟩, ⟨by decide +kernel, by decide +kernel⟩, rfl⟩,
   ⟨⟨rfl, rfl, by decide⟩, ⟨by decide +kernel, by decide +kernel⟩, rfl⟩, by decide +kernel⟩

/-! ### algebraic laws for whole subtrees -/

/-- the imaginary unit as a plain Python `complex` operand -/
def exI : Opd := .num ⟨0, 1⟩ .complex false

/-- **Ring laws hold cell by cell for arbitrary elementwise subtrees `a`, `b`, `c` (any depth, any
broadcastable mix of scalar fields, vector fields, numbers, vectors and arrays):** whenever
both sides are accepted,
`a * (b + c) = a * b + a * c`, `(a + b) + c = a + (b + c)`, `(a * b) * c = a * (b * c)`,
`a - b = a + (-b)`, `a.real + 1j * a.imag = a`, `conj(a * b) = conj(a) * conj(b)` —
equal values in every cell and equal validity.  (Through `eval_scalar_tree`: both sides have the
same tree of scalars by the ring laws of the Gaussian rationals.) -/
theorem algebra_laws (env : Env) (n : List Nat) (hwf : ∀ f ∈ env.fields, CFwf f ∧ f.mesh.n = n)
    (a b c : Expr) (ha : a.elementwise = true) (hb : b.elementwise = true) (hc : c.elementwise = true) :
    let same := fun (e1 e2 : Expr) => ∀ g1 g2, evalF env e1 = .ok (.fld g1) → evalF env e2 = .ok (.fld g2) →
      ∀ i, inRange n i = true →
        cellOf g1.data i g1.nvdim = cellOf g2.data i g2.nvdim ∧ g1.valid.get i = g2.valid.get i
    same (.bin .mul a (.bin .add b c)) (.bin .add (.bin .mul a b) (.bin .mul a c)) ∧
    same (.bin .add (.bin .add a b) c) (.bin .add a (.bin .add b c)) ∧
    same (.bin .mul (.bin .mul a b) c) (.bin .mul a (.bin .mul b c)) ∧
    same (.bin .sub a b) (.bin .add a (.un .neg b)) ∧
    same (.bin .add (.un .real a) (.bin .mul (.opd exI) (.un .imag a))) a ∧
    same (.un .conj (.bin .mul a b)) (.bin .mul (.un .conj a) (.un .conj b)) := by
  intro same
  have key : ∀ e1 e2 : Expr, e1.elementwise = true → e2.elementwise = true →
      (∀ i, (evalCell env e1 i).length = (evalCell env e2 i).length) →
      (∀ idx, scalarAt env e1 idx = scalarAt env e2 idx) →
      (∀ i, validCell env e1 i = validCell env e2 i) → same e1 e2 := by
    intro e1 e2 h1 h2 hl hs hv g1 g2 hg1 hg2 i hi
    obtain ⟨hcell, v1, v2⟩ := scalar_ext env n hwf e1 e2 h1 h2 g1 g2 hg1 hg2 hl hs i hi
    exact ⟨hcell, by rw [v1, v2, hv i]⟩
  refine ⟨key _ _ ?_ ?_ ?_ ?_ ?_, key _ _ ?_ ?_ ?_ ?_ ?_, key _ _ ?_ ?_ ?_ ?_ ?_, key _ _ ?_ ?_ ?_ ?_ ?_,
    key _ _ ?_ ?_ ?_ ?_ ?_, key _ _ ?_ ?_ ?_ ?_ ?_⟩
  -- distributivity
  · simp [Expr.elementwise, isElem, ha, hb, hc]
  · simp [Expr.elementwise, isElem, ha, hb, hc]
  · intro i; simp only [evalCell, binCell, bz_length_bl]; exact bl_distrib _ _ _
  · intro idx; simp only [scalarAt, binFn]; exact GQ.mul_add' _ _ _
  · intro i; simp only [validCell]
    cases validCell env a i <;> cases validCell env b i <;> cases validCell env c i <;> rfl
  -- associativity of +
  · simp [Expr.elementwise, isElem, ha, hb, hc]
  · simp [Expr.elementwise, isElem, ha, hb, hc]
  · intro i; simp only [evalCell, binCell, bz_length_bl]; exact bl_assoc _ _ _
  · intro idx; simp only [scalarAt, binFn]; exact GQ.add_assoc' _ _ _
  · intro i; simp only [validCell, Bool.and_assoc]
  -- associativity of *
  · simp [Expr.elementwise, isElem, ha, hb, hc]
  · simp [Expr.elementwise, isElem, ha, hb, hc]
  · intro i; simp only [evalCell, binCell, bz_length_bl]; exact bl_assoc _ _ _
  · intro idx; simp only [scalarAt, binFn]; exact GQ.mul_assoc' _ _ _
  · intro i; simp only [validCell, Bool.and_assoc]
  -- a - b = a + (-b)
  · simp [Expr.elementwise, isElem, ha, hb]
  · simp [Expr.elementwise, isElem, ha, hb]
  · intro i; simp only [evalCell, binCell, bz_length_bl, List.length_map]
  · intro idx; simp only [scalarAt, binFn, unFn]; exact GQ.sub_eq_add_neg' _ _
  · intro i; simp only [validCell]
  -- real + 1j * imag
  · simp [Expr.elementwise, isElem, ha]
  · exact ha
  · intro i
    simp only [evalCell, binCell, bz_length_bl, List.length_map, exI, rawCell, List.length_cons, List.length_nil]
    unfold bl
    by_cases h1 : (evalCell env a i).length = 1 <;> simp [h1]
  · intro idx; simp only [scalarAt, binFn, unFn, exI]; exact GQ.re_im_recompose _
  · intro i; simp only [validCell, Bool.true_and, Bool.and_self]
  -- conj (a * b)
  · simp [Expr.elementwise, isElem, ha, hb]
  · simp [Expr.elementwise, isElem, ha, hb]
  · intro i; simp only [evalCell, binCell, bz_length_bl, List.length_map]
  · intro idx; simp only [scalarAt, binFn, unFn]; exact GQ.conj_mul _ _
  · intro i; simp only [validCell]

/-- both sides of the distributive law and of the recomposition are accepted on the example fields -/
example : evalOk exEnv (.bin .mul (.leaf 3) (.bin .add (.leaf 0) (.opd exVec))) = true ∧
    evalOk exEnv (.bin .add (.bin .mul (.leaf 3) (.leaf 0)) (.bin .mul (.leaf 3) (.opd exVec))) = true ∧
    evalOk exEnv (.bin .add (.un .real (.leaf 0)) (.bin .mul (.opd exI) (.un .imag (.leaf 0)))) = true := by
  decide +kernel

end DFV.C03
