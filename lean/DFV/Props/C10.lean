import DFV.Lemmas.C10
import DFV.Lemmas.C10Examples
/-!
# C10 — HDF5 files preserve the complete state of a field

Property theorems about the model of `io/hdf5.py` (`DFV/Model/C10.lean`): the typed store
written by `h5Save`, the reader `h5Load` with the whole constructor chain it runs, the
legacy reader and the suffix dispatch.  Dimension, cell counts, number / names / order /
overlap of subregions, dtype kinds of region corners, subregion corners, tolerance factor
and data, labels, unit, values and masks are universally quantified.

`f.Inv` is what the constructors `Region.__init__`, `Mesh.__init__` (incl. the `subregions`
setter) and `Field.__init__` guarantee for any field they return; the harness evaluates the
same (decidable) predicate on the states of the real fields it writes.
-/
namespace DFV.C10
open DFV

/-! ## Writing then reading -/

/-- **Round trip, every field.**  For every field the constructors can return, reading the
file `to_file` writes succeeds and yields `loaded f` — the same state except for three
things, none of which touches a number: subregion corner arrays carry the dtype of the
corner table, integer data arrive as floats, the unsaved component-to-axis mapping is the
default one — and except for the unit string `"None"`, which collides with the encoding of
"no unit" (`unit_None_is_lost`). -/
theorem h5_roundtrip_loaded (f : TFld) (hf : f.Inv) (hu : f.unit ≠ some "None") :
    h5Load (h5Save f) = .ok (loaded f) := by
  simp only [h5Load, h5Save, ne_eq, not_true_eq_false, if_false]
  exact fieldLoad_fieldSave f hf hu

/-- **Round trip, item by item** (the sentence of the property): the field read back has
identical region corners *including their int/float dtype*, dimension names, units,
tolerance factor, cell counts, boundary conditions, subregions (names, order, corner
numbers, names/units/tolerance), component count, labels or none, unit or none, array shape,
every value as a number, real data real and complex data complex, and validity.

`_partial`: the property promises this for every unit; the hypothesis `hu` excludes the one
unit string `"None"`, for which the statement is false of the code (`unit_None_is_lost`
proves the negation).  Values are rationals here: that an `int64` beyond 2^53 does not
survive the conversion to `float64` on reading is invisible to this model and is checked on
the real code by the harness oracle. -/
theorem h5_roundtrip_partial (f : TFld) (hf : f.Inv) (hu : f.unit ≠ some "None") :
    ∃ g, h5Load (h5Save f) = .ok g ∧
      g.mesh.region = f.mesh.region ∧ g.mesh.n = f.mesh.n ∧ g.mesh.bc = f.mesh.bc ∧
      g.mesh.subs.map (fun p => (p.1, p.2.pmin.vals, p.2.pmax.vals, p.2.dims, p.2.units, p.2.tol))
        = f.mesh.subs.map (fun p => (p.1, p.2.pmin.vals, p.2.pmax.vals, p.2.dims, p.2.units, p.2.tol)) ∧
      g.nvdim = f.nvdim ∧ g.vdims = f.vdims ∧ g.unit = f.unit ∧
      g.data.shape = f.data.shape ∧ g.data.buf.vals = f.data.buf.vals ∧
      (g.data.buf.kind = .complex ↔ f.data.buf.kind = .complex) ∧
      g.valid = f.valid := by
  refine ⟨loaded f, h5_roundtrip_loaded f hf hu, rfl, rfl, rfl, ?_, rfl, rfl, rfl, rfl,
    DBuf.upcast_vals _, DBuf.upcast_complex_iff _, rfl⟩
  obtain ⟨hm, _⟩ := (TFld.inv_iff f).mp hf
  simp only [loaded, TMesh.loaded, List.map_map]
  apply List.map_congr_left
  intro p hp
  have hloss := tableKind_lossless f.mesh p hp
  simp only [Function.comp, TReg.castCorners]
  rw [NumArr.cast_vals _ _ (by tauto), NumArr.cast_vals _ _ (by tauto)]

/-- **Exact round trip.**  If the subregion corner arrays already have the dtype of the
table (e.g. everything float, or everything int), the data are not integers and the
component-to-axis mapping is the default one, the field read back *is* the field written. -/
theorem h5_roundtrip (f : TFld) (hf : f.Inv) (hu : f.unit ≠ some "None")
    (hsub : ∀ p ∈ f.mesh.subs, p.2.pmin.kind = tableKind f.mesh ∧ p.2.pmax.kind = tableKind f.mesh)
    (hdata : f.data.buf.kind ≠ .int)
    (hmap : f.vmap = defaultVmap f.nvdim f.mesh.region.dims f.vdims) :
    h5Load (h5Save f) = .ok f := by
  rw [h5_roundtrip_loaded f hf hu, loaded_eq_self f hsub hdata hmap]

/-- the state read back again satisfies what the constructors guarantee (so every theorem
here applies to it in turn) -/
theorem roundtrip_preserves_inv (f : TFld) (hf : f.Inv) : (loaded f).Inv :=
  loaded_inv f hf

/-- **Second generation is exact.**  Whatever was read from a file is a fixed point: writing
it again and reading it back returns exactly the same state (all dtypes included). -/
theorem h5_roundtrip_fixed_point (f : TFld) (hf : f.Inv) (hu : f.unit ≠ some "None") :
    h5Load (h5Save (loaded f)) = .ok (loaded f) := by
  rw [h5_roundtrip_loaded (loaded f) (loaded_inv f hf) hu, loaded_idem]

/-! ## The corner table (where integer- and float-typed corners meet) -/

/-- **Every combination of int/float corners.**  Each row of the corner table holds the two
corners of its subregion exactly — no matter which of the region's, this subregion's or any
other subregion's corner arrays are integer- or float-typed. -/
theorem corner_table_exact (m : TMesh) (p : String × TReg) (hp : p ∈ m.subs) :
    (subRow (tableKind m) p.2).vals = p.2.pmin.vals ++ p.2.pmax.vals :=
  subRow_vals m p hp

/-- the table is integer-typed only if the region's and every subregion's corners are -/
theorem corner_table_int_iff (m : TMesh) :
    tableKind m = .int ↔
      m.region.pmin.kind = .int ∧ ∀ p ∈ m.subs, p.2.pmin.kind = .int ∧ p.2.pmax.kind = .int := by
  constructor
  · intro h
    refine ⟨by rcases tableKind_region m with h' | h' <;> simp_all, ?_⟩
    intro p hp
    rcases tableKind_lossless m p hp with h' | h'
    · rw [h] at h'; cases h'
    · exact h'
  · rintro ⟨hr, hs⟩
    apply joinAll_of_all_int
    intro k hk
    simp only [List.mem_cons, List.mem_append, List.mem_map] at hk
    rcases hk with rfl | ⟨p, hp, rfl⟩ | ⟨p, hp, rfl⟩
    · exact hr
    · exact (hs p hp).1
    · exact (hs p hp).2

/-- layout of the two subregion datasets: absent iff there are no subregions; otherwise the
names in dict order, one row per subregion, each row `2·ndim` long, all of the table's dtype -/
theorem subregion_datasets (m : TMesh) (hm : m.Inv) :
    (subsSave m = none ↔ m.subs = []) ∧
    ∀ s, subsSave m = some s →
      s.names = m.subs.map (fun p => p.1) ∧ s.rows.length = m.subs.length ∧
      ∀ r ∈ s.rows, r.kind = s.kind ∧ r.length = 2 * m.region.ndim := by
  obtain ⟨_, _, _, _, _, _, hsub⟩ := (TMesh.inv_iff m).mp hm
  unfold subsSave
  constructor
  · cases hs : m.subs <;> simp
  · intro s hs
    split at hs
    · cases hs
      refine ⟨rfl, by simp, ?_⟩
      intro r hr
      simp only [List.mem_map] at hr
      obtain ⟨p, hp, rfl⟩ := hr
      obtain ⟨hl1, hl2, hk, _⟩ := (subInv_iff _ _ _).mp (hsub p hp)
      refine ⟨NumArr.cast_kind _ _, ?_⟩
      unfold subRow
      rw [NumArr.cast_length]
      cases h1 : p.2.pmin <;> cases h2 : p.2.pmax <;>
        simp_all [NumArr.append, NumArr.length, NumArr.kind, NumArr.vals] <;> omega
    · cases hs

/-! ## Unit and labels -/

/-- the unit survives its encoding as a string exactly when it is not the string `"None"` -/
theorem unit_roundtrip_iff (u : Option String) : decUnit (encUnit u) = u ↔ u ≠ some "None" :=
  decUnit_encUnit u

/-- no unit comes back as no unit -/
theorem unit_none_roundtrip : decUnit (encUnit none) = none := by
  simp [decUnit, encUnit]

/-- … and the one exception, on whole fields: a field whose unit is the string `"None"` is
read back without unit (everything else as in `h5_roundtrip_loaded`). -/
theorem unit_None_is_lost (f : TFld) (hf : f.Inv) (hu : f.unit = some "None") :
    ∃ g, h5Load (h5Save f) = .ok g ∧ g.unit = none ∧ g.unit ≠ f.unit := by
  refine ⟨{ loaded f with unit := decUnit (encUnit f.unit) }, ?_, ?_, ?_⟩
  · simp only [h5Load, h5Save, ne_eq, not_true_eq_false, if_false]
    exact fieldLoad_fieldSave_gen f hf
  · simp [hu, decUnit, encUnit]
  · simp [hu, decUnit, encUnit]

/-- component labels — absent, or any list of strings, even a label spelt `"None"` —
survive their encoding -/
theorem vdims_roundtrip (v : Option (List String)) : decVdims (encVdims v) = .ok v :=
  decVdims_encVdims v

/-! ## What the reader refuses -/

/-- a file whose `type` attribute is not `discretisedfield.Field` is rejected -/
theorem wrong_type_rejected (v t : String) (fld : H5Field) (h : t ≠ "discretisedfield.Field") :
    h5Load (.versioned v t fld) = .error .value := by
  simp [h5Load, h]

/-- a file of another layout version is rejected -/
theorem wrong_version_rejected (v : String) (fld : H5Field) (h : v ≠ "0.1") :
    ∃ e, h5Load (.versioned v "discretisedfield.Field" fld) = .error e := by
  exact ⟨.runtime, by simp [h5Load, h]⟩

/-- `pmin`/`pmax` keyword construction: region attributes whose corners are not strictly
ordered in some component are rejected (the region is never silently re-ordered) -/
theorem pminmax_unordered_rejected (h : H5Region) (a : Nat) (ha : a < h.pmin.length)
    (hge : ¬ h.pmin.vals.getD a 0 < h.pmax.vals.getD a 0) :
    regionLoad h = .error .value :=
  initKw_unordered _ _ _ _ _ a ha hge

/-- … and ordered corners of one dtype are taken as they are (`np.minimum`/`np.maximum`
change nothing), names, units and tolerance included -/
theorem region_roundtrip (r : TReg) (h : r.Inv) : regionLoad (regionSave r) = .ok r :=
  regionLoad_regionSave r h

/-! ## Legacy layout -/

/-- **Legacy files are still read.**  The reader reads every well-formed legacy file —
corners `p1`, `p2` in any order and of any dtype, any counts, any component count,
real/complex/int data — to the documented field `legacyField l` (see `legacy_field_items`). -/
theorem legacy_read (l : Legacy) (h0 : 0 < l.p1.length) (hl : l.p2.length = l.p1.length)
    (hne : ∀ a, a < l.p1.length → l.p1.vals.getD a 0 ≠ l.p2.vals.getD a 0)
    (hn : l.n.length = l.p1.length) (hpos : ∀ k ∈ l.n, 0 < k) (hdim : 1 ≤ l.dim)
    (hs : l.array.shape = l.n.map Int.toNat ++ [l.dim.toNat])
    (hb : l.array.buf.length = natProd (l.n.map Int.toNat ++ [l.dim.toNat]))
    (hsc : l.sidecar = none) :
    h5Load (.unversioned l) = .ok (legacyField l) :=
  legacyLoad_ok l h0 hl hne hn hpos hdim hs hb hsc

/-- … and with a `.subregions.json` side-car: whenever the side-car's subregions are accepted
by the mesh (`sidecarLoad` succeeds with mesh `m'`), the file is read to the same field on
that mesh; the side-car changes nothing but the subregions. -/
theorem legacy_read_sidecar (l : Legacy) (m' : TMesh) (h0 : 0 < l.p1.length) (hl : l.p2.length = l.p1.length)
    (hne : ∀ a, a < l.p1.length → l.p1.vals.getD a 0 ≠ l.p2.vals.getD a 0)
    (hn : l.n.length = l.p1.length) (hpos : ∀ k ∈ l.n, 0 < k) (hdim : 1 ≤ l.dim)
    (hs : l.array.shape = l.n.map Int.toNat ++ [l.dim.toNat])
    (hb : l.array.buf.length = natProd (l.n.map Int.toNat ++ [l.dim.toNat]))
    (hsc : sidecarLoad (legacyField l).mesh l.sidecar = .ok m') :
    h5Load (.unversioned l) = .ok { legacyField l with mesh := m' } ∧
      m'.region = (legacyField l).mesh.region ∧ m'.n = (legacyField l).mesh.n :=
  ⟨legacyLoad_ok_gen l m' h0 hl hne hn hpos hdim hs hb hsc,
   (sidecarLoad_keeps _ _ _ hsc).1, (sidecarLoad_keeps _ _ _ hsc).2.1⟩

/-- what `legacyField` is, in numbers: the region spans the element-wise minimum and maximum
of `p1`, `p2`; the values are the stored values; all cells valid; no unit -/
theorem legacy_field_items (l : Legacy) :
    (legacyField l).mesh.region.pmin.vals = List.zipWith min l.p1.vals l.p2.vals ∧
    (legacyField l).mesh.region.pmax.vals = List.zipWith max l.p1.vals l.p2.vals ∧
    (legacyField l).data.buf.vals = l.array.buf.vals ∧
    ((legacyField l).data.buf.kind = .complex ↔ l.array.buf.kind = .complex) ∧
    (∀ b ∈ (legacyField l).valid.buf, b = true) ∧ (legacyField l).unit = none := by
  refine ⟨NumArr.minimum_vals _ _, NumArr.maximum_vals _ _, DBuf.upcast_vals _, DBuf.upcast_complex_iff _, ?_, rfl⟩
  intro b hb
  simp only [legacyField, List.mem_replicate] at hb
  exact hb.2

/-! ## Suffix dispatch -/

/-- whatever suffix `to_file` accepts, `from_file` reads in the same format -/
theorem suffix_consistent (s : String) (fmt : Fmt) (h : writeFmt s = .ok fmt) : readFmt s = .ok fmt :=
  readFmt_of_writeFmt s fmt h

/-- HDF5 is chosen for exactly `.hdf5` and `.h5`, by both -/
theorem hdf5_suffixes (s : String) :
    (writeFmt s = .ok .hdf5 ↔ (s = ".hdf5" ∨ s = ".h5")) ∧ (readFmt s = .ok .hdf5 ↔ (s = ".hdf5" ∨ s = ".h5")) := by
  constructor
  · constructor
    · intro h
      unfold writeFmt at h
      split at h
      · cases h
      · split at h
        · cases h
        · split at h
          · assumption
          · cases h
    · rintro (rfl | rfl) <;> decide
  · constructor
    · intro h
      unfold readFmt at h
      split at h
      · cases h
      · split at h
        · cases h
        · split at h
          · assumption
          · cases h
    · rintro (rfl | rfl) <;> decide

/-! ## Non-vacuity: concrete instances of the hypotheses, and what the casts do -/

example : exField.Inv := by unfold TFld.Inv; decide +kernel
example : exField.unit ≠ some "None" := by decide
/-- the table is float (mixed corners) … -/
example : tableKind exField.mesh = .float := by decide
/-- … so the integer subregion comes back float-typed with the same numbers, and the exact
theorem's hypothesis fails while the item-wise one applies -/
example : loaded exField ≠ exField := by decide +kernel
example : h5Load (h5Save exField) = .ok (loaded exField) := by decide +kernel

/-- the D13 mechanism: a table typed after an integer region truncates fractional corners
(½,0,3/2,1) to (0,0,1,1); the table's own dtype keeps them -/
example : (subRow .int { pmin := .floats [1/2, 0], pmax := .floats [3/2, 1], dims := [], units := [], tol := .int 0 }).vals
    = [0, 0, 1, 1] := by decide +kernel
example : truncR (-3/2) = -1 ∧ truncR (3/2) = 1 := by decide +kernel

example : exFloat.Inv := by unfold TFld.Inv; decide +kernel
example : (∀ p ∈ exFloat.mesh.subs, p.2.pmin.kind = tableKind exFloat.mesh ∧ p.2.pmax.kind = tableKind exFloat.mesh) := by
  decide
example : exFloat.data.buf.kind ≠ .int ∧ exFloat.vmap = defaultVmap exFloat.nvdim exFloat.mesh.region.dims exFloat.vdims := by
  decide
example : h5Load (h5Save exFloat) = .ok exFloat := by decide +kernel

example : h5Load (.unversioned exLegacy) = .ok (legacyField exLegacy) := by decide +kernel
example : (legacyField exLegacy).mesh.region.pmin = .floats [0, 0] ∧ (legacyField exLegacy).data.buf = .floats [1, 2, 3, 4, 5, 6] := by
  decide +kernel

/-- unordered stored corners -/
example : regionLoad { pmin := .floats [0, 1], pmax := .floats [1, 1], dims := ["x", "y"], units := ["m", "m"], ndim := 2,
                       tol := TReg.defaultTol } = .error .value := by decide +kernel

end DFV.C10
