import DFV.Lemmas.C10
import DFV.Lemmas.C10Examples
import DFV.Lemmas.C10Num
import DFV.Lemmas.C10Str
import DFV.Lemmas.C10Series
import DFV.Lemmas.C10Inv
import DFV.Lemmas.C10Legacy
import DFV.Lemmas.C10Dict
import DFV.Lemmas.C10Weak
import DFV.Lemmas.C10Iff
import DFV.Lemmas.C10LegacyIff
import DFV.Lemmas.C10Raw
import DFV.Lemmas.C10Accept
/-!
# C10 — HDF5 files preserve the complete state of a field

Property theorems about the model of `io/hdf5.py` (`DFV/Model/C10.lean`): the typed store
written by `h5Save` (and the code-shaped writer `toHdf5`), the reader `h5Load` with the whole
constructor chain it runs, the time-series helpers (`saveStructure` / `saveData` /
`fieldLoadAt` with a location), the legacy reader with its side-car, and the suffix dispatch.
Dimension, cell counts, number / names / order / overlap of subregions, dtype kinds of region
corners, subregion corners, tolerance factor and data, labels, unit, values — as binary64 bit
patterns, NaN / inf / −0 included, under valid and invalid cells alike — and masks are
universally quantified.

`f.Inv` is what the constructors `Region.__init__`, `Mesh.__init__` (incl. the `subregions`
setter) and `Field.__init__` guarantee for EVERY field they return (`mesh_constructor_inv`,
`field_constructor_inv`) and the readers for every file (`any_file_reader_returns_inv`).  Since
repo fix 5591fed0 (D132, found by this property's round 2) the setter tests each candidate as it is
going to be stored — with the mesh region's names, units and tolerance factor
(`setter_test_is_on_stored_copy`) — so every stored subregion passes the tests again when the
reader presents it, and every constructor-built field round-trips (`constructor_field_roundtrips`).
`InvW` is `Inv` without the acceptance clause; for ARBITRARY states `h5_reread_accepts_iff` says
when the reader accepts the writer's file.  The harness evaluates the same (decidable) predicates
on the states of the real fields it writes.

Round 2 adds: the three exceptions as equivalences (`h5_roundtrip_items_iff`,
`h5_roundtrip_exact_iff`), acceptance of versioned and legacy files characterised from their
content (`versioned_accepted_iff`, `legacy_read_iff`, `legacy_sidecar_accepted_iff`), the file as
h5py shows it with entries missing / foreign / retyped (`written_entries_all_read`,
`missing_entry_refused`, `missing_subregion_datasets`, `extra_entries_ignored`,
`retyped_entry_refused`, `ndim_never_inspected`), element widths (`raw_roundtrip_widths`,
`narrow_int_values_roundtrip`) and overwriting (`overwrite_last_wins`).
-/
namespace DFV.C10
open DFV

/-! ## Writing then reading -/

/-- **The writer, code-shaped, leaves the store `h5Save f`.**  `Field._to_hdf5` creates an empty
dataset of the array's dtype and shape `(*n, nvdim)` and assigns the array at `slice(None)`;
the result is the store whose `array` dataset *is* the field's array — every entry, whatever the
validity mask says about its cell, whatever bit pattern it holds. -/
theorem toHdf5_eq_h5Save (f : TFld) (hf : f.Inv) : toHdf5 f = .ok (h5Save f) :=
  toHdf5_eq f ((TFld.inv_iff f).mp hf).2.2.1

/-- **Round trip, every field, as the code stands.**  For every field the constructors can
return — no exception — reading the file `to_file` writes succeeds and yields `reread f`:
`loaded f` with the unit passed through `str(unit)` / `"None"` and the labels through
`"None"` / the constructor default. -/
theorem h5_roundtrip_reread (f : TFld) (hf : f.Inv) : h5Load (h5Save f) = .ok (reread f) := by
  simp only [h5Load, h5Save, ne_eq, not_true_eq_false, if_false]
  exact fieldLoad_fieldSave_gen f hf

/-- **Round trip, every field.**  For every field the constructors can return, reading the
file `to_file` writes succeeds and yields `loaded f` — the same state except for three
things, none of which touches a value: subregion corner arrays carry the dtype of the
corner table, integer data arrive as floats, the unsaved component-to-axis mapping is the
default one — and except for the unit string `"None"`, which collides with the encoding of
"no unit" (`unit_None_is_lost`), and for absent labels on more than one component, which
collide with the constructor's default (`labels_none_are_lost`). -/
theorem h5_roundtrip_loaded (f : TFld) (hf : f.Inv) (hu : f.unit ≠ some "None") (hv : f.vdims = none → f.nvdim = 1) :
    h5Load (h5Save f) = .ok (loaded f) := by
  rw [h5_roundtrip_reread f hf, reread_eq_loaded f hu hv]

/-- **Round trip, item by item** (the sentence of the property): the field read back has
identical region corners *including their int/float dtype*, dimension names, units,
tolerance factor, cell counts, boundary conditions, subregions (names, order, corner
numbers, names/units/tolerance), component count, labels or none, unit or none, array shape,
every value as a bit pattern (finite numbers, −0, ±inf, NaN with sign and payload — under
valid and invalid cells alike), real data real and complex data complex, validity, and the
default component-to-axis mapping.

`_partial`: the property promises this for every field; three hypotheses exclude inputs for
which the statement is false of the code, each with a theorem proving the negation:
`hu` the unit string `"None"` (`unit_None_is_lost`, D32), `hv` absent labels on more than
one component (`labels_none_are_lost`, D34), `hi` integer data with more than 53 significant
bits (`int_values_roundtrip_iff`, `int_beyond_2p53_is_rounded`, D33). -/
theorem h5_roundtrip_partial (f : TFld) (hf : f.Inv) (hu : f.unit ≠ some "None") (hv : f.vdims = none → f.nvdim = 1)
    (hi : f.data.buf.IntSafe) :
    ∃ g, h5Load (h5Save f) = .ok g ∧
      g.mesh.region = f.mesh.region ∧ g.mesh.n = f.mesh.n ∧ g.mesh.bc = f.mesh.bc ∧
      g.mesh.subs.map (fun p => (p.1, p.2.pmin.vals, p.2.pmax.vals, p.2.dims, p.2.units, p.2.tol))
        = f.mesh.subs.map (fun p => (p.1, p.2.pmin.vals, p.2.pmax.vals, p.2.dims, p.2.units, p.2.tol)) ∧
      g.nvdim = f.nvdim ∧ g.vdims = f.vdims ∧ g.unit = f.unit ∧
      g.data.shape = f.data.shape ∧ g.data.buf.vals = f.data.buf.vals ∧
      (g.data.buf.kind = .complex ↔ f.data.buf.kind = .complex) ∧
      g.valid = f.valid ∧ g.vmap = defaultVmap f.nvdim f.mesh.region.dims f.vdims := by
  refine ⟨loaded f, h5_roundtrip_loaded f hf hu hv, rfl, rfl, rfl, ?_, rfl, rfl, rfl, rfl,
    DBuf.upcast_vals _ hi, DBuf.upcast_complex_iff _, rfl, rfl⟩
  obtain ⟨hm, _⟩ := (TFld.inv_iff f).mp hf
  simp only [loaded, TMesh.loaded, List.map_map]
  apply List.map_congr_left
  intro p hp
  have hloss := tableKind_lossless f.mesh p hp
  simp only [Function.comp, TReg.castCorners]
  rw [NumArr.cast_vals _ _ (by tauto), NumArr.cast_vals _ _ (by tauto)]

/-- **Values are bit-identical, mask or no mask.**  For float and complex data the array read
back *is* the array written — the same typed buffer, entry for entry: finite numbers, −0, ±inf
and NaNs with their sign and payload, in valid cells and in invalid ones (nothing on the path
looks at the mask) — and the mask itself is unchanged.  No hypothesis on unit or labels. -/
theorem values_bit_identical (f : TFld) (hf : f.Inv) (hk : f.data.buf.kind ≠ .int) :
    ∃ g, h5Load (h5Save f) = .ok g ∧ g.data = f.data ∧ g.valid = f.valid := by
  refine ⟨reread f, h5_roundtrip_reread f hf, ?_, rfl⟩
  show ({ f.data with buf := f.data.buf.upcast } : DArr) = f.data
  rw [DBuf.upcast_of_not_int _ hk]

/-- **Integer data: exactly the 53-bit integers survive.**  Integer data are converted to
binary64 by the reader; every value comes back as the same number iff every integer survives
the C cast `int64 → double` (`IntSafe`; `int_safe_iff_53_bits` says which those are). -/
theorem int_values_roundtrip_iff (f : TFld) (hf : f.Inv) :
    (∃ g, h5Load (h5Save f) = .ok g ∧ g.data.buf.vals = f.data.buf.vals) ↔ f.data.buf.IntSafe := by
  constructor
  · rintro ⟨g, hg, hv⟩
    rw [h5_roundtrip_reread f hf] at hg
    cases hg
    exact (DBuf.upcast_vals_iff _).mp hv
  · intro hi
    exact ⟨reread f, h5_roundtrip_reread f hf, DBuf.upcast_vals _ hi⟩

/-- which integers survive the C cast `int64 → double`: exactly those with at most 53
significant bits (every |i| ≤ 2^53 in particular, and e.g. 2^60) -/
theorem int_safe_iff_53_bits (i : Int) (hi : i.natAbs < 2 ^ 64) :
    rne53 i = i ↔ ∃ m e : Nat, m ≤ 2 ^ 53 ∧ i.natAbs = m * 2 ^ e := by
  constructor
  · exact representable_of_rne53 i hi
  · rintro ⟨m, e, hm, h⟩
    rcases Nat.lt_or_ge m (2 ^ 53) with hlt | hge
    · exact rne53_of_representable i m e hlt h
    · have : m = 2 ^ 53 := by omega
      subst this
      exact rne53_of_representable i (2 ^ 52) (e + 1) (by decide) (by rw [h, Nat.pow_succ]; ring)

/-- … and the negative statement on whole fields (D33): integer data holding 2^53 + 1 somewhere
come back with 2^53 there. -/
theorem int_beyond_2p53_is_rounded (f : TFld) (hf : f.Inv) (v : List Int) (hd : f.data.buf = .ints v) (k : Nat)
    (hk : k < v.length) (hv : v[k] = 2 ^ 53 + 1) :
    ∃ g, h5Load (h5Save f) = .ok g ∧ g.data.buf.vals[k]? = some (FV.fin (2 ^ 53), FV.fin 0) ∧
      f.data.buf.vals[k]? = some (FV.fin (2 ^ 53 + 1), FV.fin 0) := by
  refine ⟨reread f, h5_roundtrip_reread f hf, ?_, ?_⟩
  · show f.data.buf.upcast.vals[k]? = _
    rw [hd]
    simp only [DBuf.upcast, DBuf.vals, List.getElem?_map, List.getElem?_eq_getElem hk, Option.map_some, hv,
      rne53_2p53_succ]
    norm_num
  · rw [hd]
    simp only [DBuf.vals, List.getElem?_map, List.getElem?_eq_getElem hk, Option.map_some, hv]
    norm_num

/-- **Exact round trip.**  If the subregion corner arrays already have the dtype of the
table (e.g. everything float, or everything int), the data are not integers and the
component-to-axis mapping is the default one, the field read back *is* the field written. -/
theorem h5_roundtrip (f : TFld) (hf : f.Inv) (hu : f.unit ≠ some "None") (hv : f.vdims = none → f.nvdim = 1)
    (hsub : ∀ p ∈ f.mesh.subs, p.2.pmin.kind = tableKind f.mesh ∧ p.2.pmax.kind = tableKind f.mesh)
    (hdata : f.data.buf.kind ≠ .int)
    (hmap : f.vmap = defaultVmap f.nvdim f.mesh.region.dims f.vdims) :
    h5Load (h5Save f) = .ok f := by
  rw [h5_roundtrip_loaded f hf hu hv, loaded_eq_self f hsub hdata hmap]

/-- the state read back again satisfies what the constructors guarantee (so every theorem
here applies to it in turn) -/
theorem roundtrip_preserves_inv (f : TFld) (hf : f.Inv) : (loaded f).Inv :=
  loaded_inv f hf

/-- **Second generation is exact.**  Whatever was read from a file is a fixed point: writing
it again and reading it back returns exactly the same state (all dtypes included). -/
theorem h5_roundtrip_fixed_point (f : TFld) (hf : f.Inv) (hu : f.unit ≠ some "None") (hv : f.vdims = none → f.nvdim = 1) :
    h5Load (h5Save (loaded f)) = .ok (loaded f) := by
  rw [h5_roundtrip_loaded (loaded f) (loaded_inv f hf) hu hv, loaded_idem]

/-- after reading, every subregion's corner arrays carry the dtype of the corner table -/
theorem subregion_dtype_after_read (f : TFld) (p : String × TReg) (hp : p ∈ (loaded f).mesh.subs) :
    p.2.pmin.kind = tableKind f.mesh ∧ p.2.pmax.kind = tableKind f.mesh := by
  simp only [loaded, TMesh.loaded, List.mem_map] at hp
  obtain ⟨q, _, rfl⟩ := hp
  exact ⟨NumArr.cast_kind _ _, NumArr.cast_kind _ _⟩

/-! ## What the reader returns is constructor-grade -/

/-- **The reader returns constructor-grade fields only.**  Whatever `Field.from_file` returns for
a file of the versioned layout — any content, tampered or not — satisfies `Inv` (the datasets
`array` and `valid` having as many entries as their shapes say, as every HDF5 dataset has). -/
theorem reader_returns_inv (v t : String) (fld : H5Field) (g : TFld) (hawf : fld.array.buf.length = natProd fld.array.shape)
    (hvwf : fld.valid.buf.length = natProd fld.valid.shape) (h : h5Load (.versioned v t fld) = .ok g) : g.Inv := by
  simp only [h5Load] at h
  split at h
  · cases h
  · split at h
    · cases h
    · exact fieldLoadAt_inv fld .all g hawf hvwf h

/-- … hence **every field that came out of a file round-trips**: whatever `from_file` returned for
any versioned file can be written and read again, with the result `reread g`. -/
theorem file_field_roundtrips (v t : String) (fld : H5Field) (g : TFld) (hawf : fld.array.buf.length = natProd fld.array.shape)
    (hvwf : fld.valid.buf.length = natProd fld.valid.shape) (h : h5Load (.versioned v t fld) = .ok g) :
    h5Load (h5Save g) = .ok (reread g) :=
  h5_roundtrip_reread g (reader_returns_inv v t fld g hawf hvwf h)

/-! ## The corner table (where integer- and float-typed corners meet) -/

/-- **Every combination of int/float corners.**  Each row of the corner table holds the two
corners of its subregion exactly — no matter which of the region's, this subregion's or any
other subregion's corner arrays are integer- or float-typed. -/
theorem corner_table_exact (m : TMesh) (p : String × TReg) (hp : p ∈ m.subs) :
    (subRow (tableKind m) p.2).vals = p.2.pmin.vals ++ p.2.pmax.vals :=
  subRow_vals m p hp

/-- the table is integer-typed only if the region's and every subregion's corners are -/
theorem corner_table_int_iff (m : TMesh) :
    tableKind m = .int ↔
      m.region.pmin.kind = .int ∧ ∀ p ∈ m.subs, p.2.pmin.kind = .int ∧ p.2.pmax.kind = .int := by
  constructor
  · intro h
    refine ⟨by rcases tableKind_region m with h' | h' <;> simp_all, ?_⟩
    intro p hp
    rcases tableKind_lossless m p hp with h' | h'
    · rw [h] at h'; cases h'
    · exact h'
  · rintro ⟨hr, hs⟩
    apply joinAll_of_all_int
    intro k hk
    simp only [List.mem_cons, List.mem_append, List.mem_map] at hk
    rcases hk with rfl | ⟨p, hp, rfl⟩ | ⟨p, hp, rfl⟩
    · exact hr
    · exact (hs p hp).1
    · exact (hs p hp).2

/-- layout of the two subregion datasets: absent iff there are no subregions; otherwise the
names in dict order, one row per subregion, each row `2·ndim` long, all of the table's dtype -/
theorem subregion_datasets (m : TMesh) (hm : m.Inv) :
    (subsSave m = none ↔ m.subs = []) ∧
    ∀ s, subsSave m = some s →
      s.names = m.subs.map (fun p => p.1) ∧ s.rows.length = m.subs.length ∧
      ∀ r ∈ s.rows, r.kind = s.kind ∧ r.length = 2 * m.region.ndim := by
  obtain ⟨_, _, _, _, _, _, hsub⟩ := (TMesh.inv_iff m).mp hm
  unfold subsSave
  constructor
  · cases hs : m.subs <;> simp
  · intro s hs
    split at hs
    · cases hs
      refine ⟨rfl, by simp, ?_⟩
      intro r hr
      simp only [List.mem_map] at hr
      obtain ⟨p, hp, rfl⟩ := hr
      obtain ⟨hl1, hl2, hk, _⟩ := (subInv_iff _ _ _).mp (hsub p hp)
      refine ⟨NumArr.cast_kind _ _, ?_⟩
      unfold subRow
      rw [NumArr.cast_length]
      cases h1 : p.2.pmin <;> cases h2 : p.2.pmax <;>
        simp_all [NumArr.append, NumArr.length, NumArr.kind, NumArr.vals] <;> omega
    · cases hs

/-- **the mesh group round-trips** (`_MeshIO_HDF5`): region, counts, boundary conditions, and the
subregions with their names in order and their corners in the dtype of the table -/
theorem mesh_roundtrip (m : TMesh) (hm : m.Inv) : meshLoad (meshSave m) = .ok m.loaded :=
  meshLoad_meshSave m hm

/-- how the reader pairs `subregion_names` with the rows of the table (a dict comprehension): the
names it keeps are distinct, and under a name stored more than once the LAST row wins -/
theorem subregion_dict_semantics {α : Type} (ps : List (String × α)) :
    hasDup ((dictOf ps).map fun p => p.1) = false ∧ ∀ k, dictGet (dictOf ps) k = dictGet ps.reverse k :=
  ⟨hasDup_keys_dictOf ps, dictGet_dictOf ps⟩

/-! ## Unit and labels -/

/-- the unit survives its encoding as a string exactly when it is not the string `"None"` -/
theorem unit_roundtrip_iff (u : Option String) : decUnit (encUnit u) = u ↔ u ≠ some "None" :=
  decUnit_encUnit u

/-- no unit comes back as no unit -/
theorem unit_none_roundtrip : decUnit (encUnit none) = none := by
  simp [decUnit, encUnit]

/-- … and the one exception, on whole fields (D32): a field whose unit is the string `"None"` is
read back without unit. -/
theorem unit_None_is_lost (f : TFld) (hf : f.Inv) (hu : f.unit = some "None") :
    ∃ g, h5Load (h5Save f) = .ok g ∧ g.unit = none ∧ g.unit ≠ f.unit := by
  refine ⟨reread f, h5_roundtrip_reread f hf, ?_, ?_⟩
  · simp [reread, hu, decUnit, encUnit]
  · simp [reread, hu, decUnit, encUnit]

/-- component labels — absent, or any list of strings, even a label spelt `"None"` —
survive their encoding as an attribute -/
theorem vdims_roundtrip (v : Option (List String)) : decVdims (encVdims v) = .ok v :=
  decVdims_encVdims v

/-- … but absent labels do not survive the constructor the reader calls (D34): a field with
more than one component and no labels (`vdims=[]`) is read back with the default labels
`x, y, z` / `v0, v1, …` — labels it did not have. -/
theorem labels_none_are_lost (f : TFld) (hf : f.Inv) (hv : f.vdims = none) (hn : f.nvdim ≠ 1) :
    ∃ g, h5Load (h5Save f) = .ok g ∧ g.vdims = Fld.defaultVdims f.nvdim ∧ g.vdims ≠ f.vdims := by
  refine ⟨reread f, h5_roundtrip_reread f hf, ?_, ?_⟩
  · show rereadVdims f = _
    simp only [rereadVdims, hv, recodeVdims]
  · show rereadVdims f ≠ _
    simp only [rereadVdims, hv, recodeVdims, ne_eq, defaultVdims_none_iff]
    exact hn

/-- labels that are present always survive, and so do absent labels of a one-component field -/
theorem labels_roundtrip_iff (f : TFld) (hf : f.Inv) :
    (∃ g, h5Load (h5Save f) = .ok g ∧ g.vdims = f.vdims) ↔ (f.vdims = none → f.nvdim = 1) := by
  constructor
  · rintro ⟨g, hg, hv⟩ hnone
    rw [h5_roundtrip_reread f hf] at hg
    cases hg
    have : rereadVdims f = f.vdims := hv
    simp only [rereadVdims, hnone, recodeVdims, defaultVdims_none_iff] at this
    exact this
  · intro h
    refine ⟨reread f, h5_roundtrip_reread f hf, ?_⟩
    exact reread_vdims f h

/-! ## What the reader refuses -/

/-- a file whose `type` attribute is not `discretisedfield.Field` is rejected -/
theorem wrong_type_rejected (v t : String) (fld : H5Field) (h : t ≠ "discretisedfield.Field") :
    h5Load (.versioned v t fld) = .error .value := by
  simp [h5Load, h]

/-- a file of another layout version is rejected -/
theorem wrong_version_rejected (v : String) (fld : H5Field) (h : v ≠ "0.1") :
    ∃ e, h5Load (.versioned v "discretisedfield.Field" fld) = .error e := by
  exact ⟨.runtime, by simp [h5Load, h]⟩

/-- … so whatever versioned file is read successfully is a `discretisedfield.Field` file of
layout version 0.1 -/
theorem accepted_only_field_v01 (v t : String) (fld : H5Field) (g : TFld) (h : h5Load (.versioned v t fld) = .ok g) :
    t = "discretisedfield.Field" ∧ v = "0.1" := by
  simp only [h5Load] at h
  split at h
  · cases h
  · rename_i ht
    split at h
    · cases h
    · rename_i hv
      exact ⟨by simpa using ht, by simpa using hv⟩

/-- `pmin`/`pmax` keyword construction: region attributes whose corners are not strictly
ordered in some component are rejected (the region is never silently re-ordered) -/
theorem pminmax_unordered_rejected (h : H5Region) (a : Nat) (ha : a < h.pmin.length)
    (hge : ¬ h.pmin.vals.getD a 0 < h.pmax.vals.getD a 0) :
    regionLoad h = .error .value :=
  initKw_unordered _ _ _ _ _ a ha hge

/-- … and ordered corners of one dtype are taken as they are (`np.minimum`/`np.maximum`
change nothing), names, units and tolerance included -/
theorem region_roundtrip (r : TReg) (h : r.Inv) : regionLoad (regionSave r) = .ok r :=
  regionLoad_regionSave r h

/-! ## Time series: several fields in one dataset (`data_shape`, `location`) -/

/-- **Read over write.**  Writing an array into slot `t` of a dataset (`dataset[t] = array`,
`t` in `[-T, T)`) keeps shape, dtype and size of the dataset; afterwards slot `t` holds the array
(converted to the dataset's dtype) and every other slot what it held before. -/
theorem slot_read_over_write (ds ds' a : DArr) (T : Nat) (rest : List Nat) (t : Int) (hsh : ds.shape = T :: rest)
    (hwf : ds.buf.length = natProd ds.shape) (hawf : a.buf.length = natProd a.shape)
    (h : writeLoc ds (.idx t) a = .ok ds') :
    ds'.shape = ds.shape ∧ ds'.buf.kind = ds.buf.kind ∧ ds'.buf.length = natProd ds'.shape ∧
    ∃ b, a.buf.castTo ds.buf.kind = .ok b ∧
      ∀ k, k < T → readLoc ds' (.idx (k : Int)) =
        if slotOf T t = k then .ok { shape := rest, buf := b } else readLoc ds (.idx (k : Int)) := by
  obtain ⟨h1, h2, h3, b, hb, _, hsl⟩ := writeLoc_step ds ds' a T rest t hsh hwf hawf h
  refine ⟨by rw [h1, hsh], h2, h3, b, hb, ?_⟩
  intro k hk
  rw [readLoc_idx ds' T rest k h1 hk, hsl k hk, readLoc_idx ds T rest k hsh hk]
  split <;> rfl

/-- a slot write is accepted iff the index is in `[-T, T)`, the array has the slot's shape and
its dtype has a conversion path into the dataset's (real ↔ real, complex ↔ complex) -/
theorem slot_write_accepted_iff (ds a : DArr) (T : Nat) (rest : List Nat) (t : Int) (hsh : ds.shape = T :: rest) :
    (∃ ds', writeLoc ds (.idx t) a = .ok ds') ↔
      ((-(T : Int) ≤ t ∧ t < T) ∧ a.shape = rest ∧ (ds.buf.kind = .complex ↔ a.buf.kind = .complex)) := by
  constructor
  · rintro ⟨ds', h⟩
    obtain ⟨ht, hs, b, hb, _⟩ := writeLoc_idx_ok ds ds' a T rest t hsh h
    exact ⟨ht, hs, (DBuf.castTo_ok_iff _ _).mp ⟨b, hb⟩⟩
  · rintro ⟨ht, hs, hk⟩
    exact writeLoc_idx_accepts ds a T rest t hsh ht hs hk

/-- negative indices address slots from the end; indices outside `[-T, T)` are refused -/
theorem slot_index_range (ds : DArr) (T : Nat) (rest : List Nat) (hsh : ds.shape = T :: rest) :
    (∀ k, k < T → readLoc ds (.idx ((k : Int) - T)) = readLoc ds (.idx (k : Int))) ∧
    (∀ t : Int, (t < -(T : Int) ∨ (T : Int) ≤ t) → readLoc ds (.idx t) = .error .index) :=
  ⟨fun k hk => readLoc_idx_neg ds T rest k hsh hk, fun t ht => readLoc_out_of_range ds T rest t hsh ht⟩

/-- **Time series, by induction over the history of writes.**  A group created by
`_h5_save_structure(f0, (T, *n, nvdim))`, then ANY history of successful
`_h5_save_data(dataset, t)` calls (fields on meshes with `f0`'s cell counts and component
count, any order, rewrites, negative indices, int/float dtypes mixed):
`_h5_load_field(group, k)` returns, for every slot `k < T`, the field `reread (slotField …)`:
`f0`'s structure (mesh with subregions, labels, unit, validity — as the single-field reader
returns them) and as data the array written to slot `k` last, converted to the dataset's dtype —
zeros if nothing was written there (`slot_content_*` say what `slotAfter` is). -/
theorem series_roundtrip (f0 : TFld) (hf : f0.Inv) (T : Nat) (ws : List (Int × TFld)) (hws : ∀ w ∈ ws, w.2.Inv)
    (h : H5Field) (hrun : saveAll (saveStructure f0 (T :: (f0.mesh.n ++ [f0.nvdim]))) ws = .ok h) (k : Nat) (hk : k < T) :
    fieldLoadAt h (.idx (k : Int)) = .ok (reread (slotField f0 T k ws)) :=
  series_load f0 hf T ws hws h hrun k hk

/-- **a series accepts every well-formed history**: indices in `[-T, T)`, fields with `f0`'s array
shape and a dtype on `f0`'s side of the real/complex divide — then every `_h5_save_data` call
succeeds (the success hypothesis of `series_roundtrip` discharged) -/
theorem series_accepts (f0 : TFld) (T : Nat) (ws : List (Int × TFld))
    (hw : ∀ w ∈ ws, (-(T : Int) ≤ w.1 ∧ w.1 < T) ∧ w.2.Inv ∧ w.2.data.shape = f0.mesh.n ++ [f0.nvdim] ∧
      (f0.data.buf.kind = .complex ↔ w.2.data.buf.kind = .complex)) :
    ∃ h, saveAll (saveStructure f0 (T :: (f0.mesh.n ++ [f0.nvdim]))) ws = .ok h :=
  saveAll_accepts f0 T ws hw

/-- what a slot holds: a later write to the slot replaces its content (converted), a write to
another slot does not touch it … -/
theorem slot_content_append (T : Nat) (kind : DK) (k : Nat) (init : DBuf) (ws : List (Int × DArr)) (w : Int × DArr) :
    slotAfter T kind k init (ws ++ [w]) =
      if slotOf T w.1 = k then castOr kind w.2.buf (slotAfter T kind k init ws) else slotAfter T kind k init ws :=
  slotAfter_append T kind k init ws w

/-- … and a slot no write addressed holds what it held (zeros in a fresh dataset) -/
theorem slot_content_untouched (T : Nat) (kind : DK) (k : Nat) (init : DBuf) (ws : List (Int × DArr))
    (h : ∀ w ∈ ws, slotOf T w.1 ≠ k) : slotAfter T kind k init ws = init :=
  slotAfter_untouched T kind k init ws h

/-- a series whose last write to slot `k` was the field `g` of the dataset's dtype: slot `k`
reads back as `reread` of `f0`'s structure with **`g`'s array, bit for bit** -/
theorem series_last_write (f0 : TFld) (hf : f0.Inv) (T : Nat) (ws : List (Int × TFld)) (t : Int) (g : TFld)
    (hws : ∀ w ∈ ws ++ [(t, g)], w.2.Inv) (hkind : g.data.buf.kind = f0.data.buf.kind)
    (hshape : g.data.shape = f0.mesh.n ++ [f0.nvdim])
    (h : H5Field) (hrun : saveAll (saveStructure f0 (T :: (f0.mesh.n ++ [f0.nvdim]))) (ws ++ [(t, g)]) = .ok h)
    (hT : 0 < T) :
    fieldLoadAt h (.idx (slotOf T t : Int)) = .ok (reread { f0 with data := g.data }) := by
  have hk := slotOf_lt T t hT
  rw [series_load f0 hf T _ hws h hrun _ hk]
  congr 2
  unfold slotField
  congr 1
  rw [← hshape]
  congr 1
  rw [List.map_append, List.map_cons, List.map_nil, slotAfter_append]
  simp only [if_true, castOr, DBuf.castTo_of_kind _ _ hkind]

/-! ## Legacy layout -/

/-- **Legacy files are still read.**  The reader reads every well-formed legacy file —
corners `p1`, `p2` in any order and of any dtype, any counts, any component count,
real/complex/int data — to the documented field `legacyField l` (see `legacy_field_items`). -/
theorem legacy_read (l : Legacy) (h0 : 0 < l.p1.length) (hl : l.p2.length = l.p1.length)
    (hne : ∀ a, a < l.p1.length → l.p1.vals.getD a 0 ≠ l.p2.vals.getD a 0)
    (hn : l.n.length = l.p1.length) (hpos : ∀ k ∈ l.n, 0 < k) (hdim : 1 ≤ l.dim)
    (hs : l.array.shape = l.n.map Int.toNat ++ [l.dim.toNat])
    (hb : l.array.buf.length = natProd (l.n.map Int.toNat ++ [l.dim.toNat]))
    (hsc : l.sidecar = none) :
    h5Load (.unversioned l) = .ok (legacyField l) :=
  legacyLoad_ok l h0 hl hne hn hpos hdim hs hb hsc

/-- **Any corner order.**  Legacy files keep `p1`, `p2` as the user gave them.  Two legacy files
that differ only in which of the two datasets holds the smaller coordinate — axis by axis, in
any combination, the dtypes joining to the same dtype — are read to the same result (same field
or same refusal): the reader normalises the corners. -/
theorem legacy_corner_order (l l' : Legacy) (hl : l.p2.length = l.p1.length) (hl1 : l'.p1.length = l.p1.length)
    (hl2 : l'.p2.length = l.p1.length)
    (hk : NK.join l'.p1.kind l'.p2.kind = NK.join l.p1.kind l.p2.kind)
    (hsw : ∀ a, a < l.p1.length →
      (l'.p1.vals.getD a 0 = l.p1.vals.getD a 0 ∧ l'.p2.vals.getD a 0 = l.p2.vals.getD a 0) ∨
      (l'.p1.vals.getD a 0 = l.p2.vals.getD a 0 ∧ l'.p2.vals.getD a 0 = l.p1.vals.getD a 0))
    (h0 : 0 < l.p1.length)
    (hne : ∀ a, a < l.p1.length → l.p1.vals.getD a 0 ≠ l.p2.vals.getD a 0)
    (hn : l.n.length = l.p1.length) (hpos : ∀ k ∈ l.n, 0 < k) (hdim : 1 ≤ l.dim)
    (hs : l.array.shape = l.n.map Int.toNat ++ [l.dim.toNat])
    (hb : l.array.buf.length = natProd (l.n.map Int.toNat ++ [l.dim.toNat]))
    (hsc : l.sidecar = none)
    (hn' : l'.n = l.n) (hd' : l'.dim = l.dim) (ha' : l'.array = l.array) (hsc' : l'.sidecar = none) :
    h5Load (.unversioned l') = h5Load (.unversioned l) := by
  have hne' : ∀ a, a < l'.p1.length → l'.p1.vals.getD a 0 ≠ l'.p2.vals.getD a 0 := by
    intro a ha
    rw [hl1] at ha
    rcases hsw a ha with ⟨e1, e2⟩ | ⟨e1, e2⟩
    · rw [e1, e2]; exact hne a ha
    · rw [e1, e2]; exact (hne a ha).symm
  rw [legacy_read l h0 hl hne hn hpos hdim hs hb hsc,
    legacy_read l' (by rw [hl1]; exact h0) (by rw [hl1, hl2]) hne' (by rw [hn', hl1]; exact hn)
      (by rw [hn']; exact hpos) (by rw [hd']; exact hdim) (by rw [ha', hn', hd']; exact hs)
      (by rw [ha', hn', hd']; exact hb) hsc',
    legacyField_corner_order l l' hl hl1 hl2 hk hsw hn' hd' ha']

/-- … and with a `.subregions.json` side-car: whenever the side-car's subregions are accepted
by the mesh (`sidecarLoad` succeeds with mesh `m'`), the file is read to the same field on
that mesh; the side-car changes nothing but the subregions. -/
theorem legacy_read_sidecar (l : Legacy) (m' : TMesh) (h0 : 0 < l.p1.length) (hl : l.p2.length = l.p1.length)
    (hne : ∀ a, a < l.p1.length → l.p1.vals.getD a 0 ≠ l.p2.vals.getD a 0)
    (hn : l.n.length = l.p1.length) (hpos : ∀ k ∈ l.n, 0 < k) (hdim : 1 ≤ l.dim)
    (hs : l.array.shape = l.n.map Int.toNat ++ [l.dim.toNat])
    (hb : l.array.buf.length = natProd (l.n.map Int.toNat ++ [l.dim.toNat]))
    (hsc : sidecarLoad (legacyField l).mesh l.sidecar = .ok m') :
    h5Load (.unversioned l) = .ok { legacyField l with mesh := m' } ∧
      m'.region = (legacyField l).mesh.region ∧ m'.n = (legacyField l).mesh.n :=
  ⟨legacyLoad_ok_gen l m' h0 hl hne hn hpos hdim hs hb hsc,
   (sidecarLoad_keeps _ _ _ hsc).1, (sidecarLoad_keeps _ _ _ hsc).2.1⟩

/-- **A fitting side-car is accepted** (the acceptance hypothesis of `legacy_read_sidecar`
discharged with C14's completeness of the `subregions` setter).  If every box of the side-car
fits the legacy file's mesh exactly — inside, a whole number of cells long, on the cell lattice
(`C14.FitsE`) — and carries `ndim` distinct dimension names and `ndim` units, the file is read to
`legacyField l` with exactly these subregions attached: names in dict order, the corner numbers
of the side-car (int/float lists joined to one dtype), the mesh's names, units and tolerance. -/
theorem legacy_read_sidecar_fits (l : Legacy) (sc : List (String × H5Region)) (h0 : 0 < l.p1.length)
    (hl : l.p2.length = l.p1.length)
    (hne : ∀ a, a < l.p1.length → l.p1.vals.getD a 0 ≠ l.p2.vals.getD a 0)
    (hn : l.n.length = l.p1.length) (hpos : ∀ k ∈ l.n, 0 < k) (hdim : 1 ≤ l.dim)
    (hs : l.array.shape = l.n.map Int.toNat ++ [l.dim.toNat])
    (hb : l.array.buf.length = natProd (l.n.map Int.toNat ++ [l.dim.toNat]))
    (hsc : l.sidecar = some sc)
    (hwf : ∀ p ∈ sc, p.2.dims.length = l.p1.length ∧ hasDup p.2.dims = false ∧ p.2.units.length = l.p1.length)
    (hfit : ∀ p ∈ sc, C14.FitsE (legacyField l).mesh.toMesh p.2.toRegion) :
    h5Load (.unversioned l) =
      .ok { legacyField l with
            mesh := { (legacyField l).mesh with
                      subs := (dictOf (sc.map fun p => (p.1, p.2.region))).map (stampSub (legacyField l).mesh.region) } } := by
  have hminv := legacy_mesh_inv l h0 hl hne hn hpos
  have hnd : (legacyField l).mesh.region.ndim = l.p1.length := NumArr.minimum_length _ _ hl
  have := sidecarLoad_fits (legacyField l).mesh hminv sc (fun p hp => by rw [hnd]; exact hwf p hp) hfit
  exact legacyLoad_ok_gen l _ h0 hl hne hn hpos hdim hs hb (by rw [hsc]; exact this)

/-- … and the field so read is constructor-grade (`Inv`): every theorem above applies to it, e.g.
it can be saved in the current layout and read again (`h5_roundtrip_reread`). -/
theorem legacy_sidecar_field_inv (l : Legacy) (sc : List (String × H5Region)) (h0 : 0 < l.p1.length)
    (hl : l.p2.length = l.p1.length)
    (hne : ∀ a, a < l.p1.length → l.p1.vals.getD a 0 ≠ l.p2.vals.getD a 0)
    (hn : l.n.length = l.p1.length) (hpos : ∀ k ∈ l.n, 0 < k) (hdim : 1 ≤ l.dim)
    (hb : l.array.buf.length = natProd (l.n.map Int.toNat ++ [l.dim.toNat]))
    (hfit : ∀ p ∈ sc, C14.FitsE (legacyField l).mesh.toMesh p.2.toRegion) :
    ({ legacyField l with
       mesh := { (legacyField l).mesh with
                 subs := (dictOf (sc.map fun p => (p.1, p.2.region))).map (stampSub (legacyField l).mesh.region) } } : TFld).Inv :=
  legacy_sidecar_inv l sc h0 hl hne hn hpos hdim hb hfit

/-- what `legacyField` is, in numbers: the region spans the element-wise minimum and maximum
of `p1`, `p2`; the values are the stored values (integer data converted as by `rne53`: unchanged
when they have at most 53 significant bits); real stays real, complex complex; all cells valid;
no unit; no subregions -/
theorem legacy_field_items (l : Legacy) :
    (legacyField l).mesh.region.pmin.vals = List.zipWith min l.p1.vals l.p2.vals ∧
    (legacyField l).mesh.region.pmax.vals = List.zipWith max l.p1.vals l.p2.vals ∧
    (l.array.buf.IntSafe → (legacyField l).data.buf.vals = l.array.buf.vals) ∧
    (l.array.buf.kind ≠ .int → (legacyField l).data.buf = l.array.buf) ∧
    ((legacyField l).data.buf.kind = .complex ↔ l.array.buf.kind = .complex) ∧
    (∀ b ∈ (legacyField l).valid.buf, b = true) ∧ (legacyField l).unit = none ∧ (legacyField l).mesh.subs = [] := by
  refine ⟨NumArr.minimum_vals _ _, NumArr.maximum_vals _ _, DBuf.upcast_vals _, DBuf.upcast_of_not_int _,
    DBuf.upcast_complex_iff _, ?_, rfl, rfl⟩
  intro b hb
  simp only [legacyField, List.mem_replicate] at hb
  exact hb.2

/-- **The legacy reader returns a constructor-grade field** (`Inv`), … -/
theorem legacy_field_inv (l : Legacy) (h0 : 0 < l.p1.length) (hl : l.p2.length = l.p1.length)
    (hne : ∀ a, a < l.p1.length → l.p1.vals.getD a 0 ≠ l.p2.vals.getD a 0)
    (hn : l.n.length = l.p1.length) (hpos : ∀ k ∈ l.n, 0 < k) (hdim : 1 ≤ l.dim)
    (hb : l.array.buf.length = natProd (l.n.map Int.toNat ++ [l.dim.toNat])) : (legacyField l).Inv :=
  legacyField_inv l h0 hl hne hn hpos hdim hb

/-- … so **a legacy file converts**: the field read from a legacy file, written in the current
layout and read again, is exactly the same field (every item, dtypes included). -/
theorem legacy_resave_roundtrip (l : Legacy) (h0 : 0 < l.p1.length) (hl : l.p2.length = l.p1.length)
    (hne : ∀ a, a < l.p1.length → l.p1.vals.getD a 0 ≠ l.p2.vals.getD a 0)
    (hn : l.n.length = l.p1.length) (hpos : ∀ k ∈ l.n, 0 < k) (hdim : 1 ≤ l.dim)
    (hb : l.array.buf.length = natProd (l.n.map Int.toNat ++ [l.dim.toNat])) :
    h5Load (h5Save (legacyField l)) = .ok (legacyField l) := by
  apply h5_roundtrip (legacyField l) (legacyField_inv l h0 hl hne hn hpos hdim hb)
  · simp [legacyField]
  · intro hv
    exact (defaultVdims_none_iff _).mp hv
  · intro p hp
    simp [legacyField] at hp
  · show l.array.buf.upcast.kind ≠ .int
    cases l.array.buf <;> simp [DBuf.upcast, DBuf.kind]
  · rfl

/-! ## Suffix dispatch -/

/-- whatever suffix `to_file` accepts, `from_file` reads in the same format -/
theorem suffix_consistent (s : String) (fmt : Fmt) (h : writeFmt s = .ok fmt) : readFmt s = .ok fmt :=
  readFmt_of_writeFmt s fmt h

/-- HDF5 is chosen for exactly `.hdf5` and `.h5`, by both -/
theorem hdf5_suffixes (s : String) :
    (writeFmt s = .ok .hdf5 ↔ (s = ".hdf5" ∨ s = ".h5")) ∧ (readFmt s = .ok .hdf5 ↔ (s = ".hdf5" ∨ s = ".h5")) := by
  constructor
  · constructor
    · intro h
      unfold writeFmt at h
      split at h
      · cases h
      · split at h
        · cases h
        · split at h
          · assumption
          · cases h
    · rintro (rfl | rfl) <;> decide
  · constructor
    · intro h
      unfold readFmt at h
      split at h
      · cases h
      · split at h
        · cases h
        · split at h
          · assumption
          · cases h
    · rintro (rfl | rfl) <;> decide


/-! # Round 2 -/

/-! ## The three exceptions, exactly -/

/-- **The item list of the property holds iff none of the three exceptions applies.**  For every
constructor-grade field: the field read back agrees with the field written in every item the
property lists (as in `h5_roundtrip_partial`) **if and only if** the unit is not the string
`"None"` (D32), labels are present or the field has a single component (D34), and integer data
have at most 53 significant bits (D33).  `h5_roundtrip_partial` is the "if" direction. -/
theorem h5_roundtrip_items_iff (f : TFld) (hf : f.Inv) :
    (∃ g, h5Load (h5Save f) = .ok g ∧
      g.mesh.region = f.mesh.region ∧ g.mesh.n = f.mesh.n ∧ g.mesh.bc = f.mesh.bc ∧
      g.mesh.subs.map (fun p => (p.1, p.2.pmin.vals, p.2.pmax.vals, p.2.dims, p.2.units, p.2.tol))
        = f.mesh.subs.map (fun p => (p.1, p.2.pmin.vals, p.2.pmax.vals, p.2.dims, p.2.units, p.2.tol)) ∧
      g.nvdim = f.nvdim ∧ g.vdims = f.vdims ∧ g.unit = f.unit ∧
      g.data.shape = f.data.shape ∧ g.data.buf.vals = f.data.buf.vals ∧
      (g.data.buf.kind = .complex ↔ f.data.buf.kind = .complex) ∧
      g.valid = f.valid ∧ g.vmap = defaultVmap f.nvdim f.mesh.region.dims f.vdims) ↔
    (f.unit ≠ some "None" ∧ (f.vdims = none → f.nvdim = 1) ∧ f.data.buf.IntSafe) := by
  constructor
  · rintro ⟨g, hg, _, _, _, _, _, hvd, hun, _, hvals, _, _, _⟩
    rw [h5_roundtrip_reread f hf] at hg
    cases hg
    refine ⟨(decUnit_encUnit _).mp hun, ?_, (DBuf.upcast_vals_iff _).mp hvals⟩
    intro hnone
    have : rereadVdims f = f.vdims := hvd
    simp only [rereadVdims, hnone, recodeVdims, defaultVdims_none_iff] at this
    exact this
  · rintro ⟨hu, hv, hi⟩
    exact h5_roundtrip_partial f hf hu hv hi

/-- the unit, on whole fields: it comes back iff it is not the string `"None"` (D32, as an
equivalence; `unit_None_is_lost` is the negative direction) -/
theorem unit_field_roundtrip_iff (f : TFld) (hf : f.Inv) :
    (∃ g, h5Load (h5Save f) = .ok g ∧ g.unit = f.unit) ↔ f.unit ≠ some "None" := by
  constructor
  · rintro ⟨g, hg, hu⟩
    rw [h5_roundtrip_reread f hf] at hg
    cases hg
    exact (decUnit_encUnit _).mp hu
  · intro hu
    exact ⟨reread f, h5_roundtrip_reread f hf, (decUnit_encUnit _).mpr hu⟩

/-- **The exact round trip, as an equivalence.**  The field read back IS the field written —
every dtype included — iff: unit not `"None"`, labels present or one component, every subregion
corner array already in the dtype of the corner table, data not integer-typed, and the
component-to-axis mapping the default one.  (`h5_roundtrip` is the "if" direction.) -/
theorem h5_roundtrip_exact_iff (f : TFld) (hf : f.Inv) :
    h5Load (h5Save f) = .ok f ↔
      (f.unit ≠ some "None" ∧ (f.vdims = none → f.nvdim = 1) ∧
       (∀ p ∈ f.mesh.subs, p.2.pmin.kind = tableKind f.mesh ∧ p.2.pmax.kind = tableKind f.mesh) ∧
       f.data.buf.kind ≠ .int ∧ f.vmap = defaultVmap f.nvdim f.mesh.region.dims f.vdims) := by
  rw [h5_roundtrip_reread f hf, ← reread_eq_self_iff]
  constructor
  · intro h; injection h
  · intro h; rw [h]

/-! ## What the constructors guarantee for every input, and when the reader accepts the writer's file -/

/-- **The setter tests what it stores** (repo fix 5591fed0, D132).  For a valid mesh region and a
valid candidate region, the `subregions` setter's test `candOk` — rebuild the candidate with the
mesh region's names, units and tolerance factor, then: inside the region, an aggregate of cells,
aligned — is the three tests on the candidate's corner pair with the MESH's tolerance factor; the
candidate's own names, units and tolerance factor have no say; and the subregion that is stored
(`restampT`) passes the very same tests. -/
theorem setter_test_is_on_stored_copy (r : TReg) (hr : r.Inv) (n : List Nat) (s : TReg) (hs : s.Inv) (nm : String) :
    candOk r n s = subAccept r.toRegion n { s.toRegion with tol := r.tol.val } ∧
    candOk r n s = subAccept r.toRegion n (restampT r (nm, s)).2.toRegion ∧
    ∀ d u t, candOk r n { s with dims := d, units := u, tol := t } = candOk r n s := by
  refine ⟨candOk_eq r hr n s hs, candOk_eq_stampC r hr n s hs, ?_⟩
  intro d u t
  unfold candOk
  by_cases hnd : s.ndim = r.ndim
  · have hnd' : ({ s with dims := d, units := u, tol := t } : TReg).ndim = r.ndim := hnd
    rw [if_pos hnd, if_pos hnd']
  · have hnd' : ¬ ({ s with dims := d, units := u, tol := t } : TReg).ndim = r.ndim := hnd
    have hlen : s.toRegion.pmin.length ≠ r.toRegion.ndim := by
      show s.pmin.vals.length ≠ r.pmin.vals.length
      rw [NumArr.vals_length, NumArr.vals_length]
      exact hnd
    rw [if_neg hnd, if_neg hnd']
    simp only
    rw [subAccept_false_of_length _ _ _ hlen]
    exact subAccept_false_of_length r.toRegion n ({ s with dims := d, units := u, tol := t } : TReg).toRegion hlen

/-- **`Mesh.__init__` establishes the invariant `Inv`** for any region that has the region
invariant, any counts and boundary condition it accepts, and ANY dict of candidate subregions
(distinct names: dict keys), whatever names, units and tolerance factor the candidates carry:
counts positive, boundary condition lower-cased and legal, every stored subregion re-stamped with
the mesh's names, units and tolerance, corners ordered and of one dtype, and passing the setter's
three tests as it is stored. -/
theorem mesh_constructor_inv (r : TReg) (hr : r.Inv) (n : List Int) (bc : String) (subs : List (String × TReg))
    (hinv : ∀ p ∈ subs, p.2.Inv) (hnd : hasDup (subs.map fun p => p.1) = false) (m : TMesh)
    (h : TMesh.init r n bc subs = .ok m) : m.Inv :=
  TMesh.init_inv r hr n bc subs hinv hnd m h

/-- … what it stores: the region, counts, lower-cased boundary condition, and the candidates
re-stamped, in dict order -/
theorem mesh_constructor_items (r : TReg) (hr : r.Inv) (n : List Int) (bc : String) (subs : List (String × TReg))
    (hinv : ∀ p ∈ subs, p.2.Inv) (m : TMesh) (h : TMesh.init r n bc subs = .ok m) :
    m.region = r ∧ m.n = n.map Int.toNat ∧ m.bc = bc.toLower ∧ m.subs = subs.map (restampT r) ∧
    ∀ p ∈ subs, candOk r (n.map Int.toNat) p.2 = true :=
  TMesh.init_items r hr n bc subs hinv m h

/-- … and `Field.__init__` on such a mesh (any value array with as many entries as its shape
says, any labels / unit / validity it accepts) -/
theorem field_constructor_inv (m : TMesh) (hm : m.Inv) (nvdim : Option Int) (value : DArr) (vdims : Option (List String))
    (unit : Option String) (valid : Option VArr) (hwf : value.buf.length = natProd value.shape)
    (hvwf : ∀ w, valid = some w → w.buf.length = natProd w.shape) (f : TFld)
    (h : TFld.init m nvdim value vdims unit valid = .ok f) : f.Inv :=
  init_inv m hm nvdim value vdims unit valid hwf hvwf f h

/-- **Every constructor-built field round-trips** (the positive counterpart of the round-2 finding
D132): for ANY valid region — with any tolerance factor of its own —, any counts, boundary
condition, dict of candidate subregions carrying any tolerance factors, and any value / labels /
unit / validity the constructors accept, `from_file(to_file(f))` succeeds and returns `reread f`
(then `h5_roundtrip_items_iff` says which items agree). -/
theorem constructor_field_roundtrips (r : TReg) (hr : r.Inv) (n : List Int) (bc : String) (subs : List (String × TReg))
    (hinv : ∀ p ∈ subs, p.2.Inv) (hnd : hasDup (subs.map fun p => p.1) = false) (m : TMesh)
    (hm : TMesh.init r n bc subs = .ok m) (nvdim : Option Int) (value : DArr) (vdims : Option (List String))
    (unit : Option String) (valid : Option VArr) (hwf : value.buf.length = natProd value.shape)
    (hvwf : ∀ w, valid = some w → w.buf.length = natProd w.shape) (f : TFld)
    (hf : TFld.init m nvdim value vdims unit valid = .ok f) :
    h5Load (h5Save f) = .ok (reread f) :=
  h5_roundtrip_reread f (init_inv m (TMesh.init_inv r hr n bc subs hinv hnd m hm) nvdim value vdims unit valid hwf hvwf f hf)

/-- `Inv` is `InvW` (everything but the acceptance clause) plus: every stored subregion passes
the setter's three tests as it is stored -/
theorem inv_iff_invW_rereadable (f : TFld) : f.Inv ↔ f.InvW ∧ f.mesh.rereadableB = true :=
  TFld.inv_iff_weak f

/-- **For an arbitrary state: the reader accepts the file the writer leaves iff the stored
subregions pass the setter's tests.**  For every state with `InvW` (well-formed, but not
necessarily built by the fixed constructor — e.g. a mesh pickled by an older version):
`from_file(to_file(f))` succeeds — with the result `reread f` — **iff** every stored subregion
passes the three tests with the mesh's tolerance; otherwise `from_file` RAISES on the file
`to_file` wrote.  Before repo fix 5591fed0 the constructor could build such states
(`tolerant_candidate_refused`). -/
theorem h5_reread_accepts_iff (f : TFld) (hf : f.InvW) :
    (∃ g, h5Load (h5Save f) = .ok g) ↔ f.mesh.rereadableB = true := by
  rw [h5Load_h5Save_ok_iff f hf, TFld.inv_iff_weak]
  exact ⟨fun h => h.2, fun h => ⟨hf, h⟩⟩

/-- … in which case the result is `reread f` -/
theorem h5_reread_of_rereadable (f : TFld) (hf : f.InvW) (h : f.mesh.rereadableB = true) :
    h5Load (h5Save f) = .ok (reread f) :=
  h5_roundtrip_reread f ((TFld.inv_iff_weak f).mpr ⟨hf, h⟩)

/-- **The round-2 witness, after the fix.**  Region (0)–(10 nm) in 10 cells; candidate subregion
(0)–(0.9995 nm) carrying `tolerance_factor=1e-2`.  (1) On a mesh with the default tolerance the
constructor now REFUSES it (before the fix it was accepted and the file could not be read back:
the state `exTolField` has `InvW`, is not re-readable, and the reader refuses its file).  (2) On a
mesh whose REGION carries `tolerance_factor=1e-2` the candidate is accepted — whatever tolerance
it carries itself —, stored with the mesh's tolerance, the file keeps the region's tolerance
factor, and the reader — presenting the corner pair with the default tolerance, which the setter
replaces by the mesh's — accepts it: the field round-trips. -/
theorem tolerant_candidate_refused :
    (∃ e, TMesh.init exTolRegion [10] "" [("a", exTolCand)] = .error e) ∧
    (exTolField.InvW ∧ ∃ e, h5Load (h5Save exTolField) = .error e) ∧
    TMesh.init exTolRegionLoose [10] "" [("a", exTolCand)] = .ok exTolMeshLoose ∧
    TMesh.init exTolRegionLoose [10] "" [("a", { exTolCand with tol := TReg.defaultTol })] = .ok exTolMeshLoose ∧
    h5Load (h5Save exTolFieldLoose) = .ok (reread exTolFieldLoose) := by
  refine ⟨⟨.value, by decide +kernel⟩, ⟨by unfold TFld.InvW; decide +kernel, .value, by decide +kernel⟩,
    by decide +kernel, by decide +kernel, by decide +kernel⟩

/-! ## Legacy layout, from the stored items alone -/

/-- **The legacy reader, as an equivalence, for every legacy file.**  A file of the old layout
(datasets `p1`, `p2`, `n`, `dim`, `array` with as many entries as its shape says, optional
side-car) is read to `g` **iff** its stored items are well formed — at least one axis, `p1`/`p2`
equally long and different in every component (ANY order per axis, any dtypes), one positive count
per axis, `dim ≥ 1`, an array shape `_as_array` accepts: the field's shape `(*n, dim)`, the mesh's
shape `n` when `dim = 1`, or anything with last axis `dim` that broadcasts — and the side-car (if
any) is accepted by `load_subregions`; and then `g` is `legacyFieldOn`: region spanning the
element-wise min/max of `p1`, `p2` with default names, units, tolerance, the stored counts, the
array broadcast to `(*n, dim)` with integers converted to binary64, every cell valid, default
labels, no unit, the side-car's subregions. -/
theorem legacy_read_iff (l : Legacy) (hwf : l.array.buf.length = natProd l.array.shape) (g : TFld) :
    h5Load (.unversioned l) = .ok g ↔
      l.WellFormed ∧ ∃ m', sidecarLoad (legacyField l).mesh l.sidecar = .ok m' ∧ g = legacyFieldOn l m' :=
  legacyLoad_iff l hwf g

/-- … without side-car: **accepted iff well formed** (the refusal direction of `legacy_read`) -/
theorem legacy_accepted_iff (l : Legacy) (hwf : l.array.buf.length = natProd l.array.shape) (hsc : l.sidecar = none) :
    (∃ g, h5Load (.unversioned l) = .ok g) ↔ l.WellFormed := by
  constructor
  · rintro ⟨g, hg⟩
    exact ((legacyLoad_iff l hwf g).mp hg).1
  · intro h
    exact ⟨_, (legacyLoad_iff l hwf _).mpr ⟨h, (legacyField l).mesh, by rw [hsc]; rfl, rfl⟩⟩

/-- what the two `_as_array` passes make of the stored array: an array of the field's shape is
taken entry for entry (integers converted to binary64), a mesh-shaped array of a one-component
field likewise, any other accepted array is broadcast (`bcastIdx`) — and the result always has the
field's shape and as many entries -/
theorem legacy_array_conversion (val : DArr) (n : List Nat) (k : Nat) (hwf : val.buf.length = natProd val.shape) :
    (val.shape = n ++ [k] → arrAcceptB val.shape n k = true ∧ arrConv val n k = { shape := n ++ [k], buf := val.buf.upcast }) ∧
    (k = 1 → val.shape = n → arrAcceptB val.shape n k = true ∧ arrConv val n k = { shape := n ++ [1], buf := val.buf.upcast }) ∧
    (arrAcceptB val.shape n k = true →
      (arrConv val n k).shape = n ++ [k] ∧ (arrConv val n k).buf.length = natProd (n ++ [k])) := by
  refine ⟨?_, ?_, ?_⟩
  · intro hs
    exact ⟨by rw [hs]; exact arrAccept_shaped n k, arrConv_shaped val n k hs hwf⟩
  · intro hk hs
    subst hk
    refine ⟨by simp [arrAcceptB, hs], ?_⟩
    unfold arrConv
    rw [if_pos ⟨rfl, hs⟩]
  · intro hacc
    exact ⟨rfl, arrConv_wf val n k hwf hacc⟩

/-- **Side-cars accepted within tolerance.**  `mesh.load_subregions` succeeds **iff** every entry
of the side-car is a valid `Region(pmin=…, pmax=…, dims=…, units=…, tolerance_factor=…)`
(`sidecarRegions`: ordered corners, fitting names and units) and every region that remains after
dict insertion (a repeated name keeps its first position and the last value) passes the setter's
test `candOk` — the three TOLERANT tests (inside the mesh region within the region's tolerance, an
aggregate of cells within 0.1 %, aligned within 1e-12; C14's `subOk`, `C14.setter_models_agree`)
on the entry's corner pair with the MESH's tolerance factor (`setter_test_is_on_stored_copy`): the
`tolerance_factor`, names and units a side-car entry carries are immaterial — and then the mesh
carries exactly these boxes, names in dict order, corners in their common dtype, re-stamped with
the mesh's names, units and tolerance.  (`legacy_read_sidecar_fits` is the special case of boxes
that fit exactly.) -/
theorem legacy_sidecar_accepted_iff (m : TMesh) (hm : m.InvW) (sc : List (String × H5Region)) (m' : TMesh) :
    sidecarLoad m (some sc) = .ok m' ↔
      ∃ ss, sidecarRegions sc = .ok ss ∧
        (∀ p ∈ dictOf ss, candOk m.region m.n p.2 = true) ∧
        m' = { m with subs := (dictOf ss).map (stampSub m.region) } :=
  sidecarLoad_ok_iff m hm sc m'

/-- **The legacy reader returns constructor-grade fields** (`Inv`) — for EVERY legacy file it
accepts: any side-car, boxes accepted only within tolerance included, any accepted array shape. -/
theorem legacy_reader_returns_inv (l : Legacy) (hwf : l.array.buf.length = natProd l.array.shape) (g : TFld)
    (h : h5Load (.unversioned l) = .ok g) : g.Inv :=
  legacyLoad_inv l hwf g h

/-- … so **every legacy file converts**: the field of any legacy file the reader accepts can be
written in the current layout and read again, with the result `reread g` -/
theorem legacy_convert (l : Legacy) (hwf : l.array.buf.length = natProd l.array.shape) (g : TFld)
    (h : h5Load (.unversioned l) = .ok g) : h5Load (h5Save g) = .ok (reread g) :=
  h5_roundtrip_reread g (legacyLoad_inv l hwf g h)

/-! ## The file as h5py shows it: entries missing, foreign, retyped -/

/-- **Every entry the writer emits is read back, and nothing else is needed.**  The reader's
accesses (`RawFile.parse`: names looked up, presence tests, order) on the raw view of any typed
store give back that store: `rawLoad (toRaw h) = h5Load h` — whatever foreign entries `ex` the
file holds besides. -/
theorem written_entries_all_read (w : W) (ex : List String) (h : H5File) : rawLoad (h.toRaw w ex) = h5Load h :=
  rawLoad_toRaw w ex h

/-- **Round trip on the raw file, with element widths.**  For every constructor-grade field with
a value array of any element width (float16/32/64, complex64/128, int8…int64): the dataset
`array` is created with the array's width, and `from_file` returns `reread f` with width
`widen kind w` — integer and real data come back as 64-bit floats, complex data keep their width
(complex64 stays complex64). -/
theorem raw_roundtrip_widths (x : WFld) (hf : x.f.Inv) :
    (∃ fld, (rawSave x).field = some fld ∧ fld.array = some (x.w, x.f.data)) ∧
    rawLoadW (rawSave x) = .ok { f := reread x.f, w := widen x.f.data.buf.kind x.w } ∧
    (x.f.data.buf.kind = .complex → widen x.f.data.buf.kind x.w = x.w) ∧
    (x.f.data.buf.kind ≠ .complex → widen x.f.data.buf.kind x.w = .b64) := by
  refine ⟨⟨_, rfl, rfl⟩, rawLoadW_rawSave x hf, ?_, ?_⟩
  · intro h; rw [h]; rfl
  · intro h
    cases hk : x.f.data.buf.kind with
    | complex => exact absurd hk h
    | int => rfl
    | float => rfl

/-- **Narrow integers always survive** (the D33 exception cannot occur below 64 bits): integer
data of a dtype narrower than int64 whose entries lie in the dtype's range come back with every
value unchanged. -/
theorem narrow_int_values_roundtrip (x : WFld) (hf : x.f.Inv) (hw : x.w ≠ .b64) (hx : x.exactB = true) :
    ∃ g, rawLoadW (rawSave x) = .ok g ∧ g.f.data.buf.vals = x.f.data.buf.vals ∧ g.w = widen x.f.data.buf.kind x.w := by
  refine ⟨_, rawLoadW_rawSave x hf, ?_, rfl⟩
  exact DBuf.upcast_vals _ (narrow_int_safe x.w hw _ hx)

/-- second generation: the width read back is stable -/
theorem width_fixed_point (k : DK) (w : W) : widen k (widen k w) = widen k w := widen_idem k w

/-- **Foreign entries are ignored**: the reader's result does not depend on anything it does not
look up — the writer's own two stamps (`discretisedfield.__version__`, `file-creation-time-UTC`)
included, which may be removed. -/
theorem extra_entries_ignored (r : RawFile) (ex : List String) :
    rawLoadW { r with extras := ex } = rawLoadW r ∧
    ∀ x : WFld, ∀ name ∈ writerExtras, rawLoadW ((rawSave x).del name) = rawLoadW (rawSave x) := by
  refine ⟨rfl, ?_⟩
  intro x name hn
  simp only [writerExtras, List.mem_cons, List.not_mem_nil, or_false] at hn
  rcases hn with rfl | rfl <;> rfl

/-- **Every entry the reader needs is needed**: removing any one of the 18 names of
`requiredNames` (file attributes `ubermag-hdf5-file-version`, `type`; group `field` with `nvdim`,
`vdims`, `unit`, `array`, `valid`; group `mesh` with `n`, `bc`; group `region` with `pmin`,
`pmax`, `dims`, `ndim`, `units`, `tolerance_factor`) from the file of ANY field makes `from_file`
fail. -/
theorem missing_entry_refused (x : WFld) (name : String) (h : name ∈ requiredNames) :
    ∃ e, rawLoadW ((rawSave x).del name) = .error e := by
  obtain ⟨e, he⟩ := del_required_error x name h
  exact ⟨e, by unfold rawLoadW; rw [he]; rfl⟩

/-- **The two subregion datasets, exactly as the code treats them.**  Without the corner table
`subregions` (whether or not `subregion_names` is still there) the file is read as the same field
WITHOUT subregions (the reader only tests `"subregions" in h5_mesh`); without `subregion_names`
alone the reader fails iff the field has subregions (a field without subregions has neither
dataset). -/
theorem missing_subregion_datasets (x : WFld) (hf : x.f.Inv) :
    rawLoadW ((rawSave x).del "field/mesh/subregions") =
      .ok { f := reread { x.f with mesh := { x.f.mesh with subs := [] } }, w := widen x.f.data.buf.kind x.w } ∧
    ((∃ e, rawLoadW ((rawSave x).del "field/mesh/subregion_names") = .error e) ↔ x.f.mesh.subs ≠ []) := by
  constructor
  · unfold rawLoadW
    rw [del_table_eq]
    simp only [bind_ok]
    rw [h5_roundtrip_reread _ (inv_drop_subs x.f hf)]
    rfl
  · unfold rawLoadW
    rw [del_names_eq]
    by_cases hs : x.f.mesh.subs = []
    · rw [if_pos hs, parse_rawSave]
      simp only [bind_ok, h5_roundtrip_reread x.f hf]
      constructor
      · rintro ⟨e, he⟩; cases he
      · intro h; exact absurd hs h
    · rw [if_neg hs]
      exact ⟨fun _ => hs, fun _ => ⟨_, rfl⟩⟩

/-- **Retyped entries are refused**: in a file with a version attribute, if any entry the reader
looks up — except `ndim` — holds a value of another type class (a number for a string or a list of
strings, a string for a number or a numeric array, a float for an integer), `from_file` fails. -/
theorem retyped_entry_refused (r : RawFile) (hv : r.version ≠ .absent)
    (h : r.version = .other ∨ r.type = .other ∨ ∃ f, r.field = some f ∧
      (f.nvdim = .other ∨ f.vdims = .other ∨ f.unit = .other ∨ ∃ m, f.mesh = some m ∧
        (m.n = .other ∨ m.bc = .other ∨ ∃ g, m.region = some g ∧
          (g.pmin = .other ∨ g.pmax = .other ∨ g.dims = .other ∨ g.units = .other ∨ g.tol = .other)))) :
    ∃ e, rawLoadW r = .error e := by
  obtain ⟨e, he⟩ := RawFile.parse_other r hv h
  exact ⟨e, by unfold rawLoadW; rw [he]; rfl⟩

/-- … while `ndim` is only looked up: present with any content (another number, a string) the
region is built the same way; the typed reader never inspects it. -/
theorem ndim_never_inspected :
    (∀ (r : RawRegion) (a : AV Nat), a ≠ .absent →
      ({ r with ndim := a } : RawRegion).parse.bind regionLoad = ({ r with ndim := .ok 0 } : RawRegion).parse.bind regionLoad) ∧
    (∀ (v t : String) (fld : H5Field) (k : Nat),
      h5Load (.versioned v t { fld with mesh := { fld.mesh with region := { fld.mesh.region with ndim := k } } }) =
        h5Load (.versioned v t fld)) :=
  ⟨RawRegion.parse_ndim, h5Load_ndim⟩

/-! ## Which files of the versioned layout are accepted -/

/-- **Acceptance of a versioned file, from its content alone (iff).**  `from_file` accepts a file
with a version attribute **iff** `type` is `discretisedfield.Field`, the version is `0.1`, and the
group `field` is `Accepted`:
* the region attributes are well formed (`H5Region.okB`: `pmin`, `pmax` equally long, at least one
  axis, `pmin < pmax` in EVERY component — never re-ordered —, as many distinct `dims` and as many
  `units`);
* every row of the corner table splits into two halves of the region's dimension that differ in
  every component (`subsLoad` succeeds: `subsLoad_ok_iff`), and every region left after dict
  insertion of the names passes the setter's test `candOk` (the three tolerant tests with the
  stored region's tolerance factor);
* one positive count per axis; the boundary condition, lower-cased, is legal for the stored names;
* `nvdim ≥ 1`; `vdims` is a list the setter accepts (empty, or `nvdim` distinct names) or the
  string `"None"` (any other plain string is refused);
* `array` has a shape `_as_array` accepts (`(*n, nvdim)`, `n` when `nvdim = 1`, or broadcastable
  with last axis `nvdim`) and `valid` one the validity setter accepts (`n`, or broadcastable to
  `(*n, 1)` with last axis 1).
Everything else is refused.  (`reader_returns_inv` says what is returned when accepted.) -/
theorem versioned_accepted_iff (v t : String) (fld : H5Field) (hawf : fld.array.buf.length = natProd fld.array.shape) :
    (∃ g, h5Load (.versioned v t fld) = .ok g) ↔ (t = "discretisedfield.Field" ∧ v = "0.1" ∧ fld.Accepted) := by
  constructor
  · rintro ⟨g, hg⟩
    obtain ⟨ht, hv⟩ := accepted_only_field_v01 v t fld g hg
    subst ht; subst hv
    simp only [h5Load, ne_eq, not_true_eq_false, if_false] at hg
    exact ⟨rfl, rfl, (fieldLoad_ok_iff fld hawf).mp ⟨g, hg⟩⟩
  · rintro ⟨rfl, rfl, hacc⟩
    simp only [h5Load, ne_eq, not_true_eq_false, if_false]
    exact (fieldLoad_ok_iff fld hawf).mpr hacc

/-- the pieces of `Accepted`, each an equivalence on its own: the region attributes, the corner
table, the validity shape, the labels -/
theorem accepted_pieces (h : H5Region) (r : TReg) (ndim : Nat) (s : H5Subs) (vl : VArr) (n : List Nat) (k : Nat)
    (vd : Option (List String)) :
    (regionLoad h = .ok r ↔ h.okB = true ∧ r = h.region) ∧
    ((∃ ss, subsLoad ndim (some s) = .ok ss) ↔ ∀ p ∈ List.zip s.names s.rows, rowOkB ndim p.2 = true) ∧
    ((∃ v', asValid (some vl) n = .ok v') ↔ validAcceptB vl.shape n = true) ∧
    ((∃ v', vdimsSet k vd = .ok v') ↔ vdimsAcceptB k vd = true) :=
  ⟨regionLoad_ok_iff h r, subsLoad_ok_iff ndim s, asValid_ok_iff vl n, vdimsSet_ok_iff k vd⟩

/-- … and of the mesh constructor: for a valid region and valid candidate regions, `Mesh(region,
n, bc, subregions)` succeeds iff there is one positive count per axis, the lower-cased boundary
condition is legal, and every candidate passes the setter's test (`setter_test_is_on_stored_copy`) -/
theorem mesh_constructor_accepts_iff (r : TReg) (hr : r.Inv) (n : List Int) (bc : String) (subs : List (String × TReg))
    (hinv : ∀ p ∈ subs, p.2.Inv) :
    (∃ m, TMesh.init r n bc subs = .ok m) ↔
      n.length = r.ndim ∧ (∀ k ∈ n, 0 < k) ∧ Mesh.bcOk r.dims bc.toLower = true ∧
      ∀ p ∈ subs, candOk r (n.map Int.toNat) p.2 = true :=
  meshInit_ok_iff r hr n bc subs hinv

/-- **Whatever `from_file` returns for ANY HDF5 file is constructor-grade** (`Inv`): either
layout, entries missing, foreign or retyped, any side-car — provided only that every dataset has
as many entries as its shape says (`RawFile.WF`, true of every HDF5 dataset).  Hence it can be
written and read again (`h5_roundtrip_reread`). -/
theorem any_file_reader_returns_inv (r : RawFile) (hwf : r.WF) (g : WFld) (h : rawLoadW r = .ok g) : g.f.Inv :=
  rawLoadW_inv r hwf g h

/-! ## Overwriting -/

/-- **`to_file` replaces the file as a whole: the last write wins.**  Start from ANY directory
(paths holding larger files with subregions, legacy files, damaged files) and perform ANY history
of `to_file` calls; then `from_file(path)` returns, for a path written at least once, `reread` of
the field written there LAST (with the width `widen` gives) — nothing of what the path held before
shows through — and for a path never written what it returned before. -/
theorem overwrite_last_wins (fs : List (String × RawFile)) (ws : List (String × WFld)) (p : String) :
    (∀ x, lastWrite ws p = some x → x.f.Inv →
      fsRead (fsRun fs ws) p = .ok { f := reread x.f, w := widen x.f.data.buf.kind x.w }) ∧
    (lastWrite ws p = none → fsRead (fsRun fs ws) p = fsRead fs p) := by
  constructor
  · intro x hx hf
    unfold fsRead
    rw [fsGet_fsRun, hx]
    exact rawLoadW_rawSave x hf
  · intro hn
    unfold fsRead
    rw [fsGet_fsRun, hn]

/-- what `lastWrite` is: a later write to the same path replaces an earlier one, writes to other
paths do not matter -/
theorem lastWrite_append (ws : List (String × WFld)) (w : String × WFld) (p : String) :
    lastWrite (ws ++ [w]) p = if w.1 = p then some w.2 else lastWrite ws p := by
  induction ws with
  | nil => simp [lastWrite]
  | cons a t ih =>
    simp only [List.cons_append, lastWrite, ih]
    by_cases h : w.1 = p
    · simp [h]
    · simp [h]

/-! ## Non-vacuity: concrete instances of the hypotheses, and what the casts do -/

example : exField.Inv := by unfold TFld.Inv; decide +kernel
example : exField.unit ≠ some "None" := by decide
example : exField.vdims = none → exField.nvdim = 1 := by decide
example : exField.data.buf.IntSafe := by unfold DBuf.IntSafe; decide
/-- the table is float (mixed corners) … -/
example : tableKind exField.mesh = .float := by decide
/-- … so the integer subregion comes back float-typed with the same numbers, and the exact
theorem's hypothesis fails while the item-wise one applies -/
example : loaded exField ≠ exField := by decide +kernel
example : h5Load (h5Save exField) = .ok (loaded exField) := by decide +kernel
example : toHdf5 exField = .ok (h5Save exField) := by decide +kernel
/-- the NaN / inf / −0 patterns under the invalid cells come back -/
example : (loaded exField).data = exField.data ∧ exField.valid.buf.getD 1 true = false ∧
    exField.data.buf.vals.getD 2 default = (FV.nan true 7, FV.inf false) := by decide +kernel

/-- the D13 mechanism: a table typed after an integer region truncates fractional corners
(½,0,3/2,1) to (0,0,1,1); the table's own dtype keeps them -/
example : (subRow .int { pmin := .floats [1/2, 0], pmax := .floats [3/2, 1], dims := [], units := [], tol := .int 0 }).vals
    = [0, 0, 1, 1] := by decide +kernel
example : truncR (-3/2) = -1 ∧ truncR (3/2) = 1 := by decide +kernel

example : exFloat.Inv := by unfold TFld.Inv; decide +kernel
example : (∀ p ∈ exFloat.mesh.subs, p.2.pmin.kind = tableKind exFloat.mesh ∧ p.2.pmax.kind = tableKind exFloat.mesh) := by
  decide
example : exFloat.data.buf.kind ≠ .int ∧ exFloat.vmap = defaultVmap exFloat.nvdim exFloat.mesh.region.dims exFloat.vdims := by
  decide
example : h5Load (h5Save exFloat) = .ok exFloat := by decide +kernel

/-- D34: three components, no labels — written and read: labelled x, y, z -/
example : exNoLabels.Inv ∧ exNoLabels.vdims = none ∧ exNoLabels.nvdim ≠ 1 := by
  refine ⟨by unfold TFld.Inv; decide +kernel, rfl, by decide⟩
example : (h5Load (h5Save exNoLabels)).toOption.map (·.vdims) = some (some ["x", "y", "z"]) := by decide +kernel

/-- D33: the entry 2^53 + 1 comes back as 2^53 -/
example : exBigInt.Inv ∧ ¬ exBigInt.data.buf.IntSafe := by
  refine ⟨by unfold TFld.Inv; decide +kernel, by unfold DBuf.IntSafe; decide +kernel⟩
example : (h5Load (h5Save exBigInt)).toOption.map (·.data.buf) = some (.floats [.fin 5, .fin (2 ^ 53), .fin (-7)]) := by
  decide +kernel
example : rne53 (2 ^ 60) = 2 ^ 60 ∧ rne53 (-(2 ^ 53 + 3)) = -(2 ^ 53 + 4) ∧ rne53 (2 ^ 62 + 2 ^ 8) = 2 ^ 62 := by decide +kernel

example : h5Load (.unversioned exLegacy) = .ok (legacyField exLegacy) := by decide +kernel
example : (legacyField exLegacy).mesh.region.pmin = .floats [0, 0] ∧
    (legacyField exLegacy).data.buf = .floats [.fin 1, .fin 2, .fin 3, .fin 4, .fin 5, .fin 6] := by
  decide +kernel
/-- corner order: first axis exchanged, other dtype — same field -/
example : h5Load (.unversioned exLegacySwapped) = h5Load (.unversioned exLegacy) := by decide +kernel
/-- a side-car that fits: the hypotheses of `legacy_read_sidecar_fits` (one cell of the 2×1 mesh) … -/
example : C14.FitsE (legacyField exLegacySide).mesh.toMesh
    (H5Region.toRegion { pmin := .ints [0, 0], pmax := .floats [1, 1], dims := ["u", "v"], units := ["nm", "nm"], ndim := 2,
                         tol := .float (1/1000) }) := by
  refine ⟨rfl, rfl, ?_⟩
  intro a ha
  have : a = 0 ∨ a = 1 := by
    have : a < 2 := ha
    omega
  rcases this with rfl | rfl
  · exact ⟨0, 1, by decide, by decide, by decide, by decide +kernel, by decide +kernel⟩
  · exact ⟨0, 1, by decide, by decide, by decide, by decide +kernel, by decide +kernel⟩
/-- … and what the reader makes of it -/
example : (h5Load (.unversioned exLegacySide)).toOption.map (·.mesh.subs) =
    some [("left", { pmin := .floats [0, 0], pmax := .floats [1, 1], dims := ["x", "y"], units := ["m", "m"],
                     tol := TReg.defaultTol })] := by decide +kernel

/-- a series: three slots for `exFloat`, writes to slot 1, slot −1, slot 1 again (integers into
the float dataset); slot 0 reads zeros, slot 1 the last write, slot 2 the −0 / −inf patterns -/
example : ∃ h, saveAll (saveStructure exFloat [3, 3, 1]) exWrites = .ok h ∧
    (fieldLoadAt h (.idx 0)).toOption.map (·.data.buf) = some (.floats [.fin 0, .fin 0, .fin 0]) ∧
    (fieldLoadAt h (.idx 1)).toOption.map (·.data.buf) = some (.floats [.fin 4, .fin 5, .fin 6]) ∧
    (fieldLoadAt h (.idx 2)).toOption.map (·.data.buf) = some (.floats [.negZero, .inf true, .fin 9]) ∧
    (fieldLoadAt h (.idx (-3))).toOption.map (·.data.buf) = some (.floats [.fin 0, .fin 0, .fin 0]) ∧
    (fieldLoadAt h (.idx 3)).toOption = none := by
  refine ⟨_, rfl, ?_⟩
  decide +kernel
example : ∀ w ∈ exWrites, w.2.Inv := by
  intro w hw
  simp only [exWrites, List.mem_cons, List.not_mem_nil, or_false] at hw
  rcases hw with rfl | rfl | rfl <;> (unfold TFld.Inv; decide +kernel)

/-- unordered stored corners -/
example : regionLoad { pmin := .floats [0, 1], pmax := .floats [1, 1], dims := ["x", "y"], units := ["m", "m"], ndim := 2,
                       tol := TReg.defaultTol } = .error .value := by decide +kernel

/-- a tampered file the reader accepts (subregion names with a duplicate: the dict keeps the last
row under the first name) — `reader_returns_inv` applies to its result -/
example : (h5Load (.versioned "0.1" "discretisedfield.Field"
    { fieldSave exFloat with mesh := { (fieldSave exFloat).mesh with
        subs := some { names := ["a", "a"], kind := .float, rows := [.floats [1/4, 3/4], .floats [-1/4, 1/4]] } } })).toOption.map
      (fun g => (g.mesh.subs.map (·.1), g.invB)) = some (["a"], true) := by decide +kernel


/-! ### round 2 -/

/-- the hypotheses of `h5_roundtrip_items_iff` / `h5_roundtrip_exact_iff` on a field with two
overlapping subregions (mixed int/float corners), a hole in the mask and NaN/inf data: the item
list holds, the exact round trip does not (the integer subregion comes back float-typed) -/
example : exField.Inv ∧ (exField.unit ≠ some "None" ∧ (exField.vdims = none → exField.nvdim = 1) ∧ exField.data.buf.IntSafe) ∧
    ¬ (∀ p ∈ exField.mesh.subs, p.2.pmin.kind = tableKind exField.mesh ∧ p.2.pmax.kind = tableKind exField.mesh) := by
  refine ⟨by unfold TFld.Inv; decide +kernel, ⟨by decide, by decide, by unfold DBuf.IntSafe; decide⟩, by decide⟩

/-- `InvW` without `Inv`: the state the constructor built before the fix (hypothesis `hf` of
`h5_reread_accepts_iff` with the right-hand side false) -/
example : exTolField.InvW ∧ exTolField.mesh.rereadableB = false ∧ ¬ exTolField.Inv := by
  refine ⟨by unfold TFld.InvW; decide +kernel, by decide +kernel, by unfold TFld.Inv; decide +kernel⟩
/-- … and `Inv` on a mesh with two overlapping subregions, and on the mesh with a loose REGION tolerance -/
example : exField.InvW ∧ exField.mesh.rereadableB = true ∧ exTolFieldLoose.Inv := by
  refine ⟨by unfold TFld.InvW; decide +kernel, by decide +kernel, by unfold TFld.Inv; decide +kernel⟩
/-- the hypotheses of `mesh_constructor_inv` / `setter_test_is_on_stored_copy` on the tolerant candidate -/
example : exTolRegion.Inv ∧ exTolRegionLoose.Inv ∧ (∀ p ∈ [("a", exTolCand)], p.2.Inv) := by
  refine ⟨by unfold TReg.Inv; decide +kernel, by unfold TReg.Inv; decide +kernel, ?_⟩
  intro p hp
  simp only [List.mem_cons, List.not_mem_nil, or_false] at hp
  subst hp
  unfold TReg.Inv; decide +kernel
/-- the candidate's own tolerance has no say: refused on the default-tolerance mesh whatever it
carries (1e-2, 5, 1e-12), accepted on the loose mesh whatever it carries; a candidate exactly one
cell long is accepted on both -/
example : candOk exTolRegion [10] exTolCand = false ∧ candOk exTolRegion [10] { exTolCand with tol := .float 5 } = false ∧
    candOk exTolRegion [10] { exTolCand with tol := TReg.defaultTol } = false ∧
    candOk exTolRegionLoose [10] { exTolCand with tol := TReg.defaultTol } = true ∧
    candOk exTolRegion [10] { exTolCand with pmax := .floats [1/1000000000] } = true := by decide +kernel

/-- legacy files: a mesh-shaped scalar array, an array broadcast along the first axis (with −0 and
a NaN payload), unordered corners — all `WellFormed`, and what the reader returns -/
example : exLegacyScalar.WellFormed ∧ exLegacyBcast.WellFormed ∧ exLegacy.WellFormed := by
  refine ⟨⟨by decide, rfl, ?_, rfl, by decide, by decide, by decide +kernel⟩,
    ⟨by decide, rfl, ?_, rfl, by decide, by decide, by decide +kernel⟩,
    ⟨by decide, rfl, ?_, rfl, by decide, by decide, by decide +kernel⟩⟩ <;>
  · intro a ha
    have : a = 0 ∨ a = 1 := by
      have : a < 2 := ha
      omega
    rcases this with rfl | rfl <;> decide +kernel
example : (h5Load (.unversioned exLegacyScalar)).toOption.map (·.data) =
    some { shape := [2, 1, 1], buf := .floats [.fin 7, .fin (-3)] } := by decide +kernel
example : (h5Load (.unversioned exLegacyBcast)).toOption.map (·.data.buf) =
    some (.floats [.fin 1, .negZero, .nan true 5, .fin 1, .negZero, .nan true 5]) := by decide +kernel
/-- refusal: equal corner components, a zero count, an array that does not broadcast -/
example : (h5Load (.unversioned { exLegacy with p2 := .floats [2, 1] })).toOption = none ∧
    (h5Load (.unversioned { exLegacy with n := [2, 0] })).toOption = none ∧
    (h5Load (.unversioned { exLegacy with array := { shape := [3, 1, 3], buf := .ints (List.replicate 9 0) } })).toOption = none := by
  decide +kernel
/-- a side-car box that fits only within a loose tolerance (nm regime): the `tolerance_factor` the
side-car entry carries has no say, the legacy mesh has the default tolerance — refused -/
example : (h5Load (.unversioned exLegacyTolSide)).toOption = none := by decide +kernel
/-- … while the exactly fitting side-car of `exLegacySide` is re-readable -/
example : (h5Load (.unversioned exLegacySide)).toOption.map (fun g => (g.invB, g.mesh.rereadableB)) = some (true, true) := by
  decide +kernel

/-- the raw file of `exField` (two subregions, mask with a hole): its 22 entries; without `unit`
it is refused; without the corner table it is read without subregions; with foreign entries and
without the writer's stamps it is read as before; with `nvdim` a float it is refused; with `ndim`
a string it is read as before -/
example : (rawSave { f := exField, w := .b64 }).entryNames.length = 22 := by decide +kernel
example : "field@unit" ∈ requiredNames ∧ "field/mesh/region@ndim" ∈ requiredNames := by decide
example : (rawLoadW ((rawSave { f := exField, w := .b64 }).del "field@unit")).toOption = none := by decide +kernel
example : (rawLoadW ((rawSave { f := exField, w := .b64 }).del "field/mesh/subregions")).toOption.map (fun g => g.f.mesh.subs.length) = some 0 ∧
    (rawLoadW (rawSave { f := exField, w := .b64 })).toOption.map (fun g => g.f.mesh.subs.length) = some 2 ∧
    (rawLoadW ((rawSave { f := exField, w := .b64 }).del "field/mesh/subregion_names")).toOption = none := by decide +kernel
example : rawLoadW { (rawSave { f := exField, w := .b64 }) with extras := ["@foo", "other", "field/mesh/grp"] } =
    rawLoadW (rawSave { f := exField, w := .b64 }) := rfl
example : (rawLoadW ({ (rawSave { f := exField, w := .b64 }) with
    field := (rawSave { f := exField, w := .b64 }).field.map fun fl => { fl with nvdim := .other } })).toOption = none := by decide +kernel


/-- `versioned_accepted_iff` on the file of `exField` (accepted) and on tampered ones: a region
with an unordered component, a label list of the wrong length, an array with one component more,
a validity mask that does not broadcast, an upper-case boundary condition (accepted: lower-cased) -/
example : (fieldSave exField).Accepted := by
  have : ∃ g, h5Load (h5Save exField) = .ok g := ⟨loaded exField, by decide +kernel⟩
  exact ((versioned_accepted_iff _ _ _ (by decide +kernel)).mp this).2.2
example : ({ (fieldSave exField).mesh.region with pmax := .ints [2, 0] } : H5Region).okB = false ∧
    vdimsAttrAcceptB 2 (.list ["a"]) = false ∧ vdimsAttrAcceptB 2 (.str "none") = false ∧ vdimsAttrAcceptB 2 (.str "None") = true ∧
    vdimsAttrAcceptB 2 (.list []) = true ∧ arrAcceptB [4, 2, 3] [4, 2] 2 = false ∧ arrAcceptB [1, 1, 2] [4, 2] 2 = true ∧
    arrAcceptB [4, 2] [4, 2] 1 = true ∧ validAcceptB [4, 1] [4, 2] = false ∧ validAcceptB [4, 1, 1] [4, 2] = true := by
  decide +kernel

/-- widths: a complex64 field comes back complex64, a float32 / int16 field as float64; what the
exactness predicate says (2^24 + 1 is not a float32, 1/3 no binary number, the float32 nearest to
0.1 is; 65504 is the largest float16) -/
example : widen .complex .b32 = .b32 ∧ widen .float .b32 = .b64 ∧ widen .int .b16 = .b64 := by decide
example : (FFmt.ofW .b32).repQ 16777217 = false ∧ (FFmt.ofW .b32).repQ 16777216 = true ∧ (FFmt.ofW .b32).repQ (1/3) = false ∧
    (FFmt.ofW .b32).repQ (13421773/134217728) = true ∧ (FFmt.ofW .b16).repQ 65504 = true ∧ (FFmt.ofW .b16).repQ 65520 = false ∧
    (FFmt.ofW .b32).repQ (1 / 2 ^ 149) = true ∧ (FFmt.ofW .b32).repQ (1 / 2 ^ 150) = false := by decide +kernel
/-- the hypotheses of `narrow_int_values_roundtrip`: int16 data with the extremes of the type -/
example : ({ f := { exFloat with data := { shape := [3, 1], buf := .ints [-32768, 32767, 5] } }, w := .b16 } : WFld).exactB = true ∧
    ({ f := { exFloat with data := { shape := [3, 1], buf := .ints [-32769, 0, 5] } }, w := .b16 } : WFld).exactB = false := by
  decide +kernel

/-- `RawFile.WF` for the file of `exField`, and for that file with the corner table removed -/
example : (rawSave { f := exField, w := .b64 }).WF := by
  refine ⟨?_, fun wl h => by cases h⟩
  intro f hf
  cases hf
  exact ⟨fun wa h => by cases h; unfold DArr.wf; decide +kernel, fun v h => by cases h; decide +kernel⟩

/-- overwriting: `b` written once, `a` three times (first a field with two subregions, last one
without); the directory held a damaged file under `a` and a foreign one under `c` -/
example : lastWrite [("a", { f := exField, w := .b64 }), ("b", { f := exFloat, w := .b32 }), ("a", { f := exNoLabels, w := .b64 }),
      ("a", { f := exFloat, w := .b64 })] "a" = some { f := exFloat, w := .b64 } := by decide +kernel
example : (fsRead (fsRun [("a", default), ("c", default)]
      [("a", { f := exField, w := .b64 }), ("b", { f := exFloat, w := .b32 }), ("a", { f := exFloat, w := .b64 })]) "a").toOption.map
        (fun g => (g.f.mesh.subs.length, g.w)) = some (exFloat.mesh.subs.length, .b64) ∧
    (fsRead (fsRun [("a", default), ("c", default)] [("a", { f := exField, w := .b64 })]) "c").toOption = none := by decide +kernel

end DFV.C10
