import DFV.Lemmas.C13Reject
import DFV.Lemmas.C13StoreSim
import DFV.Model.C13
import DFV.Lemmas.C06Rot
import DFV.Lemmas.C06Mesh
/-!
# C13 — geometric invariants and in-place == copy after any transformation sequence

Theorems about the transformation model `DFV/Model/Transform.lean` at region, mesh and field
level: the copying form goes through the constructors (and the `bc` and subregion setters), the
in-place form assigns directly; that the two agree — periodic boundary conditions included —, that
the invariants survive every history, and that a step is rejected exactly for the malformed-argument
classes (in both forms, producing no state) are proved here, for all regions / meshes / fields (any
dimension), all argument values and all finite histories.
-/
namespace DFV.C13
open DFV DFV.T

/-- Master lemma: for a region satisfying the invariant and ANY step, either both forms
accept and end in the same state `T` (which satisfies the invariant; the in-place form
returns the receiver, the copying form leaves it untouched), or both forms reject. -/
theorem step_forms (r : Region) (hr : r.Inv) (op : Op) :
    (∃ T : Region, T.Inv ∧ T.ndim = r.ndim ∧ T.dims = r.dims ∧ stepR r (op.withInplace true) = .ok (T, T) ∧
        stepR r (op.withInplace false) = .ok (r, T)) ∨
    ((∃ e, stepR r (op.withInplace true) = .error e) ∧ (∃ e, stepR r (op.withInplace false) = .error e)) := by
  cases op with
  | translate v i =>
    simp only [Op.withInplace, stepR]
    by_cases hv : v.length = r.ndim
    · left
      obtain ⟨h1, h2⟩ := translate_forms r hr v hv
      refine ⟨_, ?_, target_ndim _ _ _ _, rfl, h1, h2⟩
      apply target_inv r hr _ _ _ hr.2.2.2.1
      intro a ha; have := hr.2.2.2.2.2 a ha; intro h; linarith
    · right
      exact ⟨⟨_, translate_reject r v hv true⟩, ⟨_, translate_reject r v hv false⟩⟩
  | scale f ref i =>
    simp only [Op.withInplace, stepR]
    by_cases hf : f.okFor r.ndim = true
    · by_cases href : (ref.getD r.center).length = r.ndim
      · by_cases hne : ∀ a, a < r.ndim → scaleLo r f (ref.getD r.center) a ≠ scaleHi r f (ref.getD r.center) a
        · left
          obtain ⟨h1, h2⟩ := scale_forms_ok r hr f ref hf href hne
          exact ⟨_, target_inv r hr _ _ _ hr.2.2.2.1 hne, target_ndim _ _ _ _, rfl, h1, h2⟩
        · right
          have : ∃ a, a < r.ndim ∧ scaleLo r f (ref.getD r.center) a = scaleHi r f (ref.getD r.center) a := by
            by_contra hc
            apply hne
            intro a ha heq
            exact hc ⟨a, ha, heq⟩
          exact scale_forms_err r f ref (Or.inr (Or.inr this))
      · right; exact scale_forms_err r f ref (Or.inr (Or.inl href))
    · right; exact scale_forms_err r f ref (Or.inl (by simpa using hf))
  | rotate90 a1 a2 k ref i =>
    simp only [Op.withInplace, stepR]
    by_cases hax : a1 = a2
    · right; exact ⟨rot_forms_err r a1 a2 k ref (Or.inl hax) true, rot_forms_err r a1 a2 k ref (Or.inl hax) false⟩
    · by_cases href : (ref.getD r.center).length = r.ndim
      · cases h1 : r.dim2index a1 with
        | error e =>
          right
          exact ⟨rot_forms_err r a1 a2 k ref (Or.inr (Or.inr (Or.inl ⟨e, h1⟩))) true,
                 rot_forms_err r a1 a2 k ref (Or.inr (Or.inr (Or.inl ⟨e, h1⟩))) false⟩
        | ok i1 =>
          cases h2 : r.dim2index a2 with
          | error e =>
            right
            exact ⟨rot_forms_err r a1 a2 k ref (Or.inr (Or.inr (Or.inr ⟨e, h2⟩))) true,
                   rot_forms_err r a1 a2 k ref (Or.inr (Or.inr (Or.inr ⟨e, h2⟩))) false⟩
          | ok i2 =>
            left
            obtain ⟨f1, f2⟩ := rot_forms_ok r hr a1 a2 k ref i1 i2 hax href h1 h2
            have hd : r.dims.length = r.ndim := hr.2.2.1
            have l1 : i1 < r.ndim := hd ▸ dim2index_lt r a1 i1 h1
            have l2 : i2 < r.ndim := hd ▸ dim2index_lt r a2 i2 h2
            refine ⟨_, target_inv r hr _ _ _ ?_ (rotCoord_ne r hr _ i1 i2 k l1 l2), target_ndim _ _ _ _, rfl, f1, f2⟩
            rw [rotUnits_length]; exact hr.2.2.2.1
      · right
        exact ⟨rot_forms_err r a1 a2 k ref (Or.inr (Or.inl href)) true,
               rot_forms_err r a1 a2 k ref (Or.inr (Or.inl href)) false⟩

theorem withInplace_self (op : Op) : op.withInplace op.inplace = op := by
  cases op <;> rfl

/-- Every accepted step preserves the invariant — of the returned object and of the receiver. -/
theorem step_inv (r : Region) (hr : r.Inv) (op : Op) (recv ret : Region)
    (h : stepR r op = .ok (recv, ret)) : recv.Inv ∧ ret.Inv := by
  rcases step_forms r hr op with ⟨T, hT, _, _, h1, h2⟩ | ⟨⟨e1, h1⟩, ⟨e2, h2⟩⟩
  · cases hb : op.inplace
    · have : op = op.withInplace false := by rw [← hb, withInplace_self]
      rw [this, h2] at h
      injection h with h; injection h with ha hb'
      subst ha; subst hb'; exact ⟨hr, hT⟩
    · have : op = op.withInplace true := by rw [← hb, withInplace_self]
      rw [this, h1] at h
      injection h with h; injection h with ha hb'
      subst ha; subst hb'; exact ⟨hT, hT⟩
  · cases hb : op.inplace
    · have : op = op.withInplace false := by rw [← hb, withInplace_self]
      rw [this, h2] at h; cases h
    · have : op = op.withInplace true := by rw [← hb, withInplace_self]
      rw [this, h1] at h; cases h

/-- In-place == copy: whenever the in-place form accepts, it returns the receiver itself
(`recv = ret`) in exactly the state the copying form returns, and the copying form leaves
the receiver untouched; whenever one form rejects so does the other. -/
theorem inplace_eq_copy (r : Region) (hr : r.Inv) (op : Op) :
    (∀ recv ret, stepR r (op.withInplace true) = .ok (recv, ret) →
        recv = ret ∧ stepR r (op.withInplace false) = .ok (r, ret)) ∧
    (∀ recv ret, stepR r (op.withInplace false) = .ok (recv, ret) →
        recv = r ∧ stepR r (op.withInplace true) = .ok (ret, ret)) ∧
    ((∃ e, stepR r (op.withInplace true) = .error e) ↔ (∃ e, stepR r (op.withInplace false) = .error e)) := by
  rcases step_forms r hr op with ⟨T, _, _, _, h1, h2⟩ | ⟨⟨e1, h1⟩, ⟨e2, h2⟩⟩
  · refine ⟨?_, ?_, ?_⟩
    · intro recv ret h; rw [h1] at h; injection h with h; injection h with ha hb
      subst ha; subst hb; exact ⟨rfl, h2⟩
    · intro recv ret h; rw [h2] at h; injection h with h; injection h with ha hb
      subst ha; subst hb; exact ⟨rfl, h1⟩
    · constructor
      · rintro ⟨e, he⟩; rw [h1] at he; cases he
      · rintro ⟨e, he⟩; rw [h2] at he; cases he
  · refine ⟨?_, ?_, ?_⟩
    · intro recv ret h; rw [h1] at h; cases h
    · intro recv ret h; rw [h2] at h; cases h
    · exact ⟨fun _ => ⟨e2, h2⟩, fun _ => ⟨e1, h1⟩⟩

/-- The invariant holds after ANY finite history of transformation calls (rejected steps
are skipped; the current object is whatever the previous call returned). -/
theorem reachable_inv (r : Region) (hr : r.Inv) (ops : List Op) : (runR r ops).Inv := by
  induction ops generalizing r with
  | nil => exact hr
  | cons op ops ih =>
    simp only [runR]
    cases h : stepR r op with
    | error e => exact ih r hr
    | ok p =>
      obtain ⟨recv, ret⟩ := p
      exact ih ret (step_inv r hr op recv ret h).2

/-- Two histories that differ only in the in-place flags of their steps end with equal
objects. -/
theorem history_forms_agree (r : Region) (hr : r.Inv) (ops : List Op) (flags : List Bool)
    (hl : flags.length = ops.length) :
    runR r (List.zipWith Op.withInplace ops flags) = runR r ops := by
  induction ops generalizing r flags with
  | nil => cases flags <;> simp [runR]
  | cons op ops ih =>
    cases flags with
    | nil => simp at hl
    | cons b bs =>
      simp only [List.zipWith_cons_cons, runR]
      have hl' : bs.length = ops.length := by simpa using hl
      have key : ∀ b' : Bool, (∃ T, T.Inv ∧ stepR r (op.withInplace b') = .ok (if b' then T else r, T) ∧
            stepR r op = .ok (if op.inplace then T else r, T)) ∨
          ((∃ e, stepR r (op.withInplace b') = .error e) ∧ (∃ e, stepR r op = .error e)) := by
        intro b'
        rcases step_forms r hr op with ⟨T, hT, _, _, h1, h2⟩ | ⟨⟨e1, h1⟩, ⟨e2, h2⟩⟩
        · left
          refine ⟨T, hT, ?_, ?_⟩
          · cases b' <;> simp [h1, h2]
          · have := withInplace_self op
            cases hb : op.inplace <;> rw [hb] at this <;> rw [← this] <;> simp [h1, h2, Op.withInplace, hb] <;>
              (cases op <;> simp_all [Op.withInplace, Op.inplace])
        · right
          refine ⟨?_, ?_⟩
          · cases b'
            · exact ⟨e2, h2⟩
            · exact ⟨e1, h1⟩
          · have := withInplace_self op
            cases hb : op.inplace <;> rw [hb] at this <;> rw [← this]
            · exact ⟨e2, h2⟩
            · exact ⟨e1, h1⟩
      rcases key b with ⟨T, hT, k1, k2⟩ | ⟨⟨e1, k1⟩, ⟨e2, k2⟩⟩
      · rw [k1, k2]; exact ih T hT bs hl'
      · rw [k1, k2]; exact ih r hr bs hl'

/-! ## mesh level -/

/-- a region step keeps the number of dimensions and the dimension names -/
theorem stepR_ndim (r : Region) (hr : r.Inv) (op : Op) (recv ret : Region) (h : stepR r op = .ok (recv, ret)) :
    ret.Inv ∧ ret.ndim = r.ndim ∧ ret.dims = r.dims := by
  rcases step_forms r hr op with ⟨T, hT, hn, hd, h1, h2⟩ | ⟨⟨e1, h1⟩, ⟨e2, h2⟩⟩
  · cases hb : op.inplace
    · have : op = op.withInplace false := by rw [← hb, withInplace_self]
      rw [this, h2] at h
      injection h with h; injection h with _ hb'
      subst hb'; exact ⟨hT, hn, hd⟩
    · have : op = op.withInplace true := by rw [← hb, withInplace_self]
      rw [this, h1] at h
      injection h with h; injection h with _ hb'
      subst hb'; exact ⟨hT, hn, hd⟩
  · cases hb : op.inplace
    · have : op = op.withInplace false := by rw [← hb, withInplace_self]
      rw [this, h2] at h; cases h
    · have : op = op.withInplace true := by rw [← hb, withInplace_self]
      rw [this, h1] at h; cases h

/-- assembling a mesh invariant from its parts -/
theorem mesh_inv_of (m : Mesh) (hr : m.region.Inv) (hl : m.n.length = m.region.ndim) (hp : ∀ k ∈ m.n, 0 < k) : m.Inv :=
  ⟨hr, hl, fun a ha => nAt_pos_of_mem m hl hp a ha⟩

/-- Mesh level: every accepted step (either form) leaves receiver and result with
`pmin < pmax`, unique names, and positive counts, one per direction; translation and
scaling keep `n`, a quarter turn swaps the two counts exactly for odd `k`. -/
theorem stepM_inv (m : Mesh) (hm : m.Inv) (op : Op) (recv ret : Mesh) (h : stepM m op = .ok (recv, ret)) :
    recv.Inv ∧ ret.Inv ∧
    (match op with
     | .rotate90 a1 a2 k _ _ => ∃ i1 i2, m.region.dim2index a1 = .ok i1 ∧ m.region.dim2index a2 = .ok i2 ∧ ret.n = rotN m.n i1 i2 k
     | _ => ret.n = m.n) := by
  obtain ⟨hr, hl, hp⟩ := hm
  have hmem := mem_pos_of_nAt m hl hp
  cases op with
  | translate v i =>
    simp only [stepM] at h
    split at h
    · cases h
    · cases h
    · rename_i x r' subs' hreg hsub
      obtain ⟨hri, hrn, _⟩ := stepR_ndim m.region hr (.translate v i) _ r' hreg
      cases i
      · simp only [Bool.false_eq_true, if_false] at h
        split at h
        · cases h
        · rename_i m' hm'
          injection h with h; injection h with ha hb
          subst ha; subst hb
          obtain ⟨e1, e2, e3, e4⟩ := mkMesh_ok _ _ _ _ _ hm'
          exact ⟨⟨hr, hl, hp⟩, mesh_inv_of _ (e1 ▸ hri) (by rw [e1, e2]; exact e3) (by rw [e2]; exact e4), e2⟩
      · simp only [if_true] at h
        injection h with h; injection h with ha hb
        subst ha; subst hb
        have hi : ({ m with region := r', subs := subs' } : Mesh).Inv :=
          mesh_inv_of _ hri (by show m.n.length = r'.ndim; rw [hrn]; exact hl) hmem
        exact ⟨hi, hi, rfl⟩
  | scale f ref i =>
    simp only [stepM] at h
    split at h
    · cases h
    · cases h
    · rename_i x r' subs' hreg hsub
      obtain ⟨hri, hrn, _⟩ := stepR_ndim m.region hr (.scale f ref i) _ r' hreg
      cases i
      · simp only [Bool.false_eq_true, if_false] at h
        split at h
        · cases h
        · rename_i m' hm'
          injection h with h; injection h with ha hb
          subst ha; subst hb
          obtain ⟨e1, e2, e3, e4⟩ := mkMesh_ok _ _ _ _ _ hm'
          exact ⟨⟨hr, hl, hp⟩, mesh_inv_of _ (e1 ▸ hri) (by rw [e1, e2]; exact e3) (by rw [e2]; exact e4), e2⟩
      · simp only [if_true] at h
        injection h with h; injection h with ha hb
        subst ha; subst hb
        have hi : ({ m with region := r', subs := subs' } : Mesh).Inv :=
          mesh_inv_of _ hri (by show m.n.length = r'.ndim; rw [hrn]; exact hl) hmem
        exact ⟨hi, hi, rfl⟩
  | rotate90 a1 a2 k ref i =>
    simp only [stepM] at h
    split at h
    · cases h
    · cases h
    · cases h
    · cases h
    · rename_i x r' subs' i1 i2 hreg hsub hi1 hi2
      obtain ⟨hri, hrn, _⟩ := stepR_ndim m.region hr (.rotate90 a1 a2 k ref i) _ r' hreg
      have hd : m.region.dims.length = m.region.ndim := hr.2.2.1
      have l1 : i1 < m.n.length := by rw [hl, ← hd]; exact dim2index_lt _ _ _ hi1
      have l2 : i2 < m.n.length := by rw [hl, ← hd]; exact dim2index_lt _ _ _ hi2
      have hrotlen : (rotN m.n i1 i2 k).length = m.n.length := by unfold rotN; split <;> simp [swapAt_length]
      have hrotpos : ∀ q ∈ rotN m.n i1 i2 k, 0 < q := by
        unfold rotN; split
        · exact mem_swapAt_pos m.n i1 i2 hmem l1 l2
        · exact hmem
      cases i
      · simp only [Bool.false_eq_true, if_false] at h
        split at h
        · cases h
        · rename_i m' hm'
          injection h with h; injection h with ha hb
          subst ha; subst hb
          obtain ⟨e1, e2, e3, e4⟩ := mkMesh_ok _ _ _ _ _ hm'
          exact ⟨⟨hr, hl, hp⟩, mesh_inv_of _ (e1 ▸ hri) (by rw [e1, e2]; exact e3) (by rw [e2]; exact e4),
            ⟨i1, i2, hi1, hi2, e2⟩⟩
      · simp only [if_true] at h
        injection h with h; injection h with ha hb
        subst ha; subst hb
        have hi : ({ m with region := r', n := rotN m.n i1 i2 k, bc := rotBc m.bc a1 a2 k, subs := subs' } : Mesh).Inv :=
          mesh_inv_of _ hri (by show (rotN m.n i1 i2 k).length = r'.ndim; rw [hrotlen, hrn]; exact hl) hrotpos
        exact ⟨hi, hi, ⟨i1, i2, hi1, hi2, rfl⟩⟩

/-- … hence after ANY finite history of mesh transformations -/
theorem reachable_inv_mesh (m : Mesh) (hm : m.Inv) (ops : List Op) : (runM m ops).Inv := by
  induction ops generalizing m with
  | nil => exact hm
  | cons op ops ih =>
    simp only [runM]
    cases h : stepM m op with
    | error e => exact ih m hm
    | ok p =>
      obtain ⟨recv, ret⟩ := p
      exact ih ret (stepM_inv m hm op recv ret h).2.1


/-! ## field level -/

/-- Field level: every accepted step keeps the mesh invariant and keeps the value and
validity arrays in the shape of the (possibly permuted) cell counts. -/
theorem stepF_inv (f : Fld) (hf : FldInv f) (op : Op) (recv ret : Fld) (h : stepF f op = .ok (recv, ret)) :
    FldInv recv ∧ FldInv ret := by
  obtain ⟨hm, hd, hv⟩ := hf
  cases op with
  | translate v i =>
    simp only [stepF] at h
    split at h
    · cases h
    · rename_i x m' hm'
      obtain ⟨_, hret, hn⟩ := stepM_inv f.mesh hm _ _ m' hm'
      simp only at hn
      injection h with h; injection h with ha hb
      subst ha; subst hb
      have hi : FldInv { f with mesh := m' } := ⟨hret, by show f.data.shape = m'.n; rw [hn]; exact hd,
        by show f.valid.shape = m'.n; rw [hn]; exact hv⟩
      cases i
      · exact ⟨⟨hm, hd, hv⟩, hi⟩
      · exact ⟨hi, hi⟩
  | scale s ref i =>
    simp only [stepF] at h
    split at h
    · cases h
    · rename_i x m' hm'
      obtain ⟨_, hret, hn⟩ := stepM_inv f.mesh hm _ _ m' hm'
      simp only at hn
      injection h with h; injection h with ha hb
      subst ha; subst hb
      have hi : FldInv { f with mesh := m' } := ⟨hret, by show f.data.shape = m'.n; rw [hn]; exact hd,
        by show f.valid.shape = m'.n; rw [hn]; exact hv⟩
      cases i
      · exact ⟨⟨hm, hd, hv⟩, hi⟩
      · exact ⟨hi, hi⟩
  | rotate90 a1 a2 k ref i =>
    simp only [stepF, rotate90F] at h
    split at h
    · cases h
    · cases h
    · cases h
    · rename_i x m' i1 i2 hm' hi1 hi2
      obtain ⟨_, hret, j1, j2, hj1, hj2, hn⟩ := stepM_inv f.mesh hm _ _ m' hm'
      rw [hi1] at hj1; rw [hi2] at hj2
      injection hj1 with hj1; injection hj2 with hj2
      subst hj1; subst hj2
      have hshape : ∀ {α} (a : NDA α), a.shape = f.mesh.n → (rot90 a i1 i2 k).shape = m'.n := by
        intro α a ha
        rw [rot90_shape, ha, hn]; rfl
      split at h
      · split at h
        · rename_i c1 c2 _ _
          injection h with h; injection h with ha hb
          subst ha; subst hb
          have hi : FldInv { f with mesh := m', data := (rot90 f.data i1 i2 k).map fun v => rotVec v c1 c2 k,
                                     valid := rot90 f.valid i1 i2 k } :=
            ⟨hret, by show (rot90 f.data i1 i2 k).shape = m'.n; exact hshape _ hd, hshape _ hv⟩
          cases i
          · exact ⟨⟨hm, hd, hv⟩, hi⟩
          · refine ⟨?_, hi⟩
            exact ⟨hret, by show (rot90 f.data i1 i2 k).shape = m'.n; exact hshape _ hd, hshape _ hv⟩
        · cases h
      · injection h with h; injection h with ha hb
        subst ha; subst hb
        have hi : FldInv { f with mesh := m', data := rot90 f.data i1 i2 k, valid := rot90 f.valid i1 i2 k } :=
          ⟨hret, hshape _ hd, hshape _ hv⟩
        cases i
        · exact ⟨⟨hm, hd, hv⟩, hi⟩
        · exact ⟨hi, hi⟩


/-! ## each step realises its documented affine map -/

/-- translation adds the vector to both corners (either form) -/
theorem translate_affine (r : Region) (hr : r.Inv) (v : List Rat) (b : Bool) (recv ret : Region)
    (h : translateR r v b = .ok (recv, ret)) (a : Nat) (ha : a < r.ndim) :
    ret.lo a = r.lo a + v.getD a 0 ∧ ret.hi a = r.hi a + v.getD a 0 := by
  by_cases hv : v.length = r.ndim
  · obtain ⟨h1, h2⟩ := translate_forms r hr v hv
    have hlt : r.lo a + v.getD a 0 < r.hi a + v.getD a 0 := by have := hr.2.2.2.2.2 a ha; linarith
    have hret : ret = target r (fun a => r.lo a + v.getD a 0) (fun a => r.hi a + v.getD a 0) r.units := by
      cases b
      · rw [h2] at h; injection h with h; injection h with _ hb; exact hb.symm
      · rw [h1] at h; injection h with h; injection h with _ hb; exact hb.symm
    rw [hret, target_lo _ _ _ _ _ ha, target_hi _ _ _ _ _ ha, min_eq_left hlt.le, max_eq_right hlt.le]
    exact ⟨rfl, rfl⟩
  · rw [translate_reject r v hv b] at h; cases h

/-- scaling maps the corner set `{x}` to `{R + s·(x − R)}` per axis (so for a negative
factor the corners swap roles), for any reference point -/
theorem scale_affine (r : Region) (hr : r.Inv) (f : Factor) (ref : Option (List Rat)) (b : Bool)
    (recv ret : Region) (h : scaleR r f ref b = .ok (recv, ret)) (a : Nat) (ha : a < r.ndim) :
    ret.lo a = min ((ref.getD r.center).getD a 0 + f.at a * (r.lo a - (ref.getD r.center).getD a 0))
                   ((ref.getD r.center).getD a 0 + f.at a * (r.hi a - (ref.getD r.center).getD a 0)) ∧
    ret.hi a = max ((ref.getD r.center).getD a 0 + f.at a * (r.lo a - (ref.getD r.center).getD a 0))
                   ((ref.getD r.center).getD a 0 + f.at a * (r.hi a - (ref.getD r.center).getD a 0)) := by
  have e1 : scaleLo r f (ref.getD r.center) a
      = (ref.getD r.center).getD a 0 + f.at a * (r.lo a - (ref.getD r.center).getD a 0) := by
    unfold scaleLo; ring
  have e2 : scaleHi r f (ref.getD r.center) a
      = (ref.getD r.center).getD a 0 + f.at a * (r.hi a - (ref.getD r.center).getD a 0) := by
    unfold scaleHi scaleLo Region.edge; ring
  have hcases := step_forms r hr (.scale f ref b)
  simp only [Op.withInplace, stepR] at hcases
  by_cases hf : f.okFor r.ndim = true
  · by_cases href : (ref.getD r.center).length = r.ndim
    · by_cases hne : ∀ a, a < r.ndim → scaleLo r f (ref.getD r.center) a ≠ scaleHi r f (ref.getD r.center) a
      · obtain ⟨h1, h2⟩ := scale_forms_ok r hr f ref hf href hne
        have hret : ret = target r (scaleLo r f (ref.getD r.center)) (scaleHi r f (ref.getD r.center)) r.units := by
          cases b
          · rw [h2] at h; injection h with h; injection h with _ hb; exact hb.symm
          · rw [h1] at h; injection h with h; injection h with _ hb; exact hb.symm
        rw [hret, target_lo _ _ _ _ _ ha, target_hi _ _ _ _ _ ha, e1, e2]
        exact ⟨rfl, rfl⟩
      · have : ∃ a, a < r.ndim ∧ scaleLo r f (ref.getD r.center) a = scaleHi r f (ref.getD r.center) a := by
          by_contra hc; apply hne; intro a ha heq; exact hc ⟨a, ha, heq⟩
        obtain ⟨⟨e, he⟩, ⟨e', he'⟩⟩ := scale_forms_err r f ref (Or.inr (Or.inr this))
        cases b
        · rw [he'] at h; cases h
        · rw [he] at h; cases h
    · obtain ⟨⟨e, he⟩, ⟨e', he'⟩⟩ := scale_forms_err r f ref (Or.inr (Or.inl href))
      cases b
      · rw [he'] at h; cases h
      · rw [he] at h; cases h
  · obtain ⟨⟨e, he⟩, ⟨e', he'⟩⟩ := scale_forms_err r f ref (Or.inl (by simpa using hf))
    cases b
    · rw [he'] at h; cases h
    · rw [he] at h; cases h

/-- **translation keeps every edge length** (either form) -/
theorem translate_keeps_edges (r : Region) (hr : r.Inv) (v : List Rat) (b : Bool) (recv ret : Region)
    (h : translateR r v b = .ok (recv, ret)) (a : Nat) (ha : a < r.ndim) :
    ret.edge a = r.edge a := by
  obtain ⟨h1, h2⟩ := translate_affine r hr v b recv ret h a ha
  unfold Region.edge; rw [h1, h2]; ring

/-- **scaling multiplies every edge length by `|s|`** — for negative factors too (the corners swap
roles, the edge stays positive), for any reference point, in either form -/
theorem scale_edges (r : Region) (hr : r.Inv) (f : Factor) (ref : Option (List Rat)) (b : Bool)
    (recv ret : Region) (h : scaleR r f ref b = .ok (recv, ret)) (a : Nat) (ha : a < r.ndim) :
    ret.edge a = |f.at a| * r.edge a := by
  obtain ⟨h1, h2⟩ := scale_affine r hr f ref b recv ret h a ha
  unfold Region.edge; rw [h1, h2, max_sub_min_eq_abs']
  have : r.lo a < r.hi a := hr.2.2.2.2.2 a ha
  rw [show ∀ R s l u : Rat, R + s * (l - R) - (R + s * (u - R)) = s * (l - u) from by intros; ring,
    abs_mul, abs_sub_comm, abs_of_pos (by linarith : (0:Rat) < r.hi a - r.lo a)]

/-- **the midpoint follows the affine map**: the centre of the scaled region is `R + s·(c − R)` for
the old centre `c`, whatever the sign of `s` and wherever `R` lies -/
theorem scale_midpoint (r : Region) (hr : r.Inv) (f : Factor) (ref : Option (List Rat)) (b : Bool)
    (recv ret : Region) (h : scaleR r f ref b = .ok (recv, ret)) (a : Nat) (ha : a < r.ndim) :
    (ret.lo a + ret.hi a) / 2 = (ref.getD r.center).getD a 0
        + f.at a * ((r.lo a + r.hi a) / 2 - (ref.getD r.center).getD a 0) := by
  obtain ⟨h1, h2⟩ := scale_affine r hr f ref b recv ret h a ha
  rw [h1, h2, min_add_max]; ring

/-- **without a reference point the region is scaled about its own centre**: the centre stays where
it is, for every factor (negative ones included), in either form -/
theorem scale_default_ref_keeps_centre (r : Region) (hr : r.Inv) (f : Factor) (b : Bool)
    (recv ret : Region) (h : scaleR r f none b = .ok (recv, ret)) (a : Nat) (ha : a < r.ndim) :
    (ret.lo a + ret.hi a) / 2 = (r.lo a + r.hi a) / 2 := by
  have hm := scale_midpoint r hr f none b recv ret h a ha
  have hc : r.center.getD a 0 = (r.lo a + r.hi a) / 2 := by
    unfold Region.center; exact getD_tab _ _ _ _ ha
  simp only [Option.getD_none] at hm
  rw [hm, hc]; ring

/-- non-vacuity (a test, not a theorem): a negative and a fractional factor about a far-away
reference point are accepted in place and give edges 3·4 and ½·8 -/
example : (match scaleR ⟨[-1, 0], [3, 8], ["x", "y"], ["m", "m"], 1/1000000000000⟩
      (.vec [-3, 1/2]) (some [100, -7]) true with
    | .ok (_, t) => decide (t.lo 0 = 391 ∧ t.hi 0 = 403 ∧ t.lo 1 = -7/2 ∧ t.hi 1 = 1/2)
    | .error _ => false) = true := by decide +kernel

/-- **any history of translations keeps dimension and every edge length**: rejected steps are skipped,
in-place and copying steps mixed freely -/
theorem translations_keep_edges (r : Region) (hr : r.Inv) (ops : List Op)
    (hall : ∀ op ∈ ops, ∃ v b, op = .translate v b) (a : Nat) (ha : a < r.ndim) :
    (runR r ops).ndim = r.ndim ∧ (runR r ops).edge a = r.edge a := by
  induction ops generalizing r with
  | nil => exact ⟨rfl, rfl⟩
  | cons op ops ih =>
    obtain ⟨v, b, rfl⟩ := hall _ (List.mem_cons_self)
    have hall' : ∀ op ∈ ops, ∃ v b, op = .translate v b := fun o ho => hall o (List.mem_cons_of_mem _ ho)
    unfold runR
    cases hstep : stepR r (.translate v b) with
    | error e => exact ih r hr hall' ha
    | ok p =>
      obtain ⟨recv, ret⟩ := p
      have hnd := stepR_ndim r hr _ recv ret hstep
      have he := translate_keeps_edges r hr v b recv ret (by simpa [stepR] using hstep) a ha
      obtain ⟨h1, h2⟩ := ih ret hnd.1 hall' (by rw [hnd.2.1]; exact ha)
      exact ⟨h1.trans hnd.2.1, h2.trans he⟩

/-- **scaling back restores the region**: a scaling followed by the scaling with the reciprocal
factors about the same reference point gives the original corners on every axis — negative factors
included (the corners swap twice), either form at either step -/
theorem scale_inverse (r : Region) (hr : r.Inv) (f g : Factor) (R : List Rat) (b b' : Bool)
    (x1 r1 x2 r2 : Region) (h1 : scaleR r f (some R) b = .ok (x1, r1))
    (h2 : scaleR r1 g (some R) b' = .ok (x2, r2)) (a : Nat) (ha : a < r.ndim)
    (hfg : g.at a * f.at a = 1) : r2.lo a = r.lo a ∧ r2.hi a = r.hi a := by
  obtain ⟨hi1, hn1, _⟩ := stepR_ndim r hr (.scale f (some R) b) x1 r1 (by simpa [stepR] using h1)
  obtain ⟨e1, e2⟩ := scale_affine r hr f (some R) b x1 r1 h1 a ha
  obtain ⟨e3, e4⟩ := scale_affine r1 hi1 g (some R) b' x2 r2 h2 a (by rw [hn1]; exact ha)
  simp only [Option.getD_some] at e1 e2 e3 e4
  have hlt : r.lo a < r.hi a := hr.2.2.2.2.2 a ha
  generalize R.getD a 0 = c at *
  generalize f.at a = s at *
  generalize g.at a = t at *
  have hs : s ≠ 0 := by rintro rfl; simp at hfg
  have key : ∀ x : Rat, c + t * (c + s * (x - c) - c) = x := by
    intro x; have : t * (s * (x - c)) = (t * s) * (x - c) := by ring
    rw [show c + s * (x - c) - c = s * (x - c) by ring, this, hfg]; ring
  rcases lt_or_gt_of_ne hs with hneg | hpos
  · have hAB : c + s * (r.hi a - c) < c + s * (r.lo a - c) := by nlinarith
    rw [min_eq_right hAB.le] at e1; rw [max_eq_left hAB.le] at e2
    rw [e1, e2, key, key] at e3 e4
    rw [e3, e4, min_eq_right hlt.le, max_eq_left hlt.le]; exact ⟨rfl, rfl⟩
  · have hAB : c + s * (r.lo a - c) < c + s * (r.hi a - c) := by nlinarith
    rw [min_eq_left hAB.le] at e1; rw [max_eq_right hAB.le] at e2
    rw [e1, e2, key, key] at e3 e4
    rw [e3, e4, min_eq_left hlt.le, max_eq_right hlt.le]; exact ⟨rfl, rfl⟩

/-- **translations add up**: two translations in a row move both corners by the sum of the vectors
(either form at either step); with `w = -v` the region is back where it was -/
theorem translate_compose (r : Region) (hr : r.Inv) (v w : List Rat) (b b' : Bool)
    (x1 r1 x2 r2 : Region) (h1 : translateR r v b = .ok (x1, r1))
    (h2 : translateR r1 w b' = .ok (x2, r2)) (a : Nat) (ha : a < r.ndim) :
    r2.lo a = r.lo a + (v.getD a 0 + w.getD a 0) ∧ r2.hi a = r.hi a + (v.getD a 0 + w.getD a 0) := by
  obtain ⟨hi1, hn1, _⟩ := stepR_ndim r hr (.translate v b) x1 r1 (by simpa [stepR] using h1)
  obtain ⟨e1, e2⟩ := translate_affine r hr v b x1 r1 h1 a ha
  obtain ⟨e3, e4⟩ := translate_affine r1 hi1 w b' x2 r2 h2 a (by rw [hn1]; exact ha)
  rw [e3, e4, e1, e2]; constructor <;> ring

/-- translating back restores the corners -/
theorem translate_inverse (r : Region) (hr : r.Inv) (v w : List Rat) (b b' : Bool)
    (x1 r1 x2 r2 : Region) (h1 : translateR r v b = .ok (x1, r1))
    (h2 : translateR r1 w b' = .ok (x2, r2)) (a : Nat) (ha : a < r.ndim)
    (hw : w.getD a 0 = - v.getD a 0) : r2.lo a = r.lo a ∧ r2.hi a = r.hi a := by
  obtain ⟨e1, e2⟩ := translate_compose r hr v w b b' x1 r1 x2 r2 h1 h2 a ha
  rw [e1, e2, hw]; constructor <;> ring

/-- a factor 1 on an axis leaves that axis' corners where they are, a factor −1 mirrors them about
the reference point (wherever it lies), in either form -/
theorem scale_unit_factors (r : Region) (hr : r.Inv) (f : Factor) (ref : Option (List Rat)) (b : Bool)
    (recv ret : Region) (h : scaleR r f ref b = .ok (recv, ret)) (a : Nat) (ha : a < r.ndim) :
    (f.at a = 1 → ret.lo a = r.lo a ∧ ret.hi a = r.hi a) ∧
    (f.at a = -1 → ret.lo a = 2 * (ref.getD r.center).getD a 0 - r.hi a ∧
                   ret.hi a = 2 * (ref.getD r.center).getD a 0 - r.lo a) := by
  obtain ⟨h1, h2⟩ := scale_affine r hr f ref b recv ret h a ha
  have hlt : r.lo a < r.hi a := hr.2.2.2.2.2 a ha
  constructor
  · intro hf
    rw [hf] at h1 h2
    rw [h1, h2, min_eq_left (by linarith), max_eq_right (by linarith)]
    constructor <;> ring
  · intro hf
    rw [hf] at h1 h2
    rw [h1, h2, min_eq_right (by linarith), max_eq_left (by linarith)]
    constructor <;> ring

/-- a zero factor on any axis is rejected by both forms -/
theorem zero_factor_rejected (r : Region) (f : Factor) (ref : Option (List Rat)) (a : Nat) (ha : a < r.ndim)
    (hz : f.at a = 0) : (∃ e, scaleR r f ref true = .error e) ∧ (∃ e, scaleR r f ref false = .error e) := by
  apply scale_forms_err
  right; right
  refine ⟨a, ha, ?_⟩
  unfold scaleHi; rw [hz]; ring


/-! ## mesh level: the step refined, in-place == copying, rejections -/
open DFV.C14

/-- **Refinement of the mesh step.**  `stepM` (written op by op, as mesh.py is) equals the uniform
description `stepMU`: apply the region step to the region and the SAME step — reference point fixed
to the mesh's (`subOp`: the given point, else the region centre) — to every subregion in order;
counts `opN` (swapped for odd `k`) and `bc` `opBc` (axis letters swapped for odd `k`); then either
assign (in place: receiver = result) or go through the constructor with the subregion setter
(copying: receiver untouched).  All mesh-level theorems below are proved from this form. -/
theorem stepM_refines (m : Mesh) (op : Op) : stepM m op = stepMU m op := stepM_eq_stepMU m op

/-- every accepted mesh step: receiver and result keep the mesh invariant, the counts are `opN`
(so translation and scaling keep `n`), and the new region is what the region step returns -/
theorem stepM_region_n (m : Mesh) (hm : m.Inv) (op : Op) (recv ret : Mesh) (h : stepM m op = .ok (recv, ret)) :
    recv.Inv ∧ ret.Inv ∧ ret.n = opN m op ∧ ∃ x, stepR m.region op = .ok (x, ret.region) :=
  stepM_keeps m hm op recv ret h

/-- "scaling keeps n" (either form, any factors, any reference point) -/
theorem scale_keeps_n (m : Mesh) (hm : m.Inv) (f : Factor) (ref : Option (List Rat)) (b : Bool) (recv ret : Mesh)
    (h : stepM m (.scale f ref b) = .ok (recv, ret)) : ret.n = m.n :=
  (stepM_keeps m hm _ recv ret h).2.2.1

/-- **scaling a mesh scales its cells by `|s|`** (counts kept, see `scale_keeps_n`): either form,
any factors (negative included), any reference point -/
theorem scale_cells (m : Mesh) (hm : m.Inv) (f : Factor) (ref : Option (List Rat)) (b : Bool) (recv ret : Mesh)
    (h : stepM m (.scale f ref b) = .ok (recv, ret)) (a : Nat) (ha : a < m.region.ndim) :
    ret.cellAt a = |f.at a| * m.cellAt a := by
  obtain ⟨_, _, _, x, hx⟩ := stepM_region_n m hm _ recv ret h
  have hn' : ret.n = m.n := scale_keeps_n m hm f ref b recv ret h
  have he := scale_edges m.region hm.1 f ref b x ret.region (by simpa [stepR] using hx) a ha
  unfold Mesh.cellAt Mesh.nAt; rw [he, hn']; ring

/-- **translating a mesh keeps counts and cells** (either form) -/
theorem translate_keeps_cells (m : Mesh) (hm : m.Inv) (v : List Rat) (b : Bool) (recv ret : Mesh)
    (h : stepM m (.translate v b) = .ok (recv, ret)) (a : Nat) (ha : a < m.region.ndim) :
    ret.n = m.n ∧ ret.cellAt a = m.cellAt a := by
  obtain ⟨_, _, hn, x, hx⟩ := stepM_region_n m hm _ recv ret h
  have hn' : ret.n = m.n := by simpa [opN] using hn
  have he := translate_keeps_edges m.region hm.1 v b x ret.region (by simpa [stepR] using hx) a ha
  refine ⟨hn', ?_⟩
  unfold Mesh.cellAt Mesh.nAt; rw [he, hn']

/-- `true` for the two steps that do not turn the object -/
def Op.noTurn : Op → Bool
  | .rotate90 .. => false
  | _ => true

/-- **any history without rotations keeps the cell counts**: translations and scalings (any factors,
any reference points, in place or copying, rejected steps skipped) never change `n` -/
theorem unturned_history_keeps_n (m : Mesh) (hm : m.Inv) (ops : List Op)
    (hall : ∀ op ∈ ops, Op.noTurn op = true) : (runM m ops).n = m.n := by
  induction ops generalizing m with
  | nil => rfl
  | cons op ops ih =>
    have hop := hall op List.mem_cons_self
    have hall' : ∀ o ∈ ops, Op.noTurn o = true := fun o ho => hall o (List.mem_cons_of_mem _ ho)
    unfold runM
    cases hstep : stepM m op with
    | error e => exact ih m hm hall'
    | ok p =>
      obtain ⟨recv, ret⟩ := p
      obtain ⟨_, hri, hn, _⟩ := stepM_region_n m hm op recv ret hstep
      have : opN m op = m.n := by cases op <;> simp_all [opN, Op.noTurn]
      exact (ih ret hri hall').trans (hn.trans this)

/-- one accepted mesh step keeps the total number of cells -/
theorem stepM_keeps_len (m : Mesh) (hm : m.Inv) (op : Op) (recv ret : Mesh) (h : stepM m op = .ok (recv, ret)) :
    ret.len = m.len := by
  obtain ⟨_, _, hn, _⟩ := stepM_region_n m hm op recv ret h
  unfold Mesh.len; rw [hn]
  cases op with
  | translate v b => rfl
  | scale f ref b => rfl
  | rotate90 a1 a2 k ref b =>
    have hnm : ¬ Malformed m.region (.rotate90 a1 a2 k ref b) := by
      intro hmal; obtain ⟨e, he⟩ := stepM_malformed m _ hmal; rw [he] at h; cases h
    simp only [Malformed, not_or, not_exists] at hnm
    obtain ⟨hne, _, h1, h2⟩ := hnm
    simp only [opN]
    cases hd1 : m.region.dim2index a1 with
    | error e => exact absurd hd1 (h1 e)
    | ok i1 =>
      cases hd2 : m.region.dim2index a2 with
      | error e => exact absurd hd2 (h2 e)
      | ok i2 =>
        obtain ⟨hl1, hg1⟩ := C06.dim2index_ok m.region a1 i1 hd1
        obtain ⟨hl2, hg2⟩ := C06.dim2index_ok m.region a2 i2 hd2
        have hlen : m.n.length = m.region.dims.length := by rw [hm.2.1]; exact hm.1.2.2.1.symm
        apply C06.natProd_rotN
        · intro he; apply hne; rw [← hg1, ← hg2, he]
        · rw [hlen]; exact hl1
        · rw [hlen]; exact hl2
        · intro k hk
          obtain ⟨i, hi, rfl⟩ := List.getElem_of_mem hk
          have := hm.2.2 i (by unfold Mesh.ndim Region.ndim; rw [← hm.1.2.2.1, ← hlen]; exact hi)
          simpa [Mesh.nAt, List.getD_eq_getElem?_getD, hi] using this

/-- **every history keeps the total number of cells**: translations, scalings and quarter turns, in
place or copying, rejected steps skipped -/
theorem history_keeps_len (m : Mesh) (hm : m.Inv) (ops : List Op) : (runM m ops).len = m.len := by
  induction ops generalizing m with
  | nil => rfl
  | cons op ops ih =>
    unfold runM
    cases hstep : stepM m op with
    | error e => exact ih m hm
    | ok p =>
      obtain ⟨recv, ret⟩ := p
      have hri := (stepM_region_n m hm op recv ret hstep).2.1
      exact (ih ret hri).trans (stepM_keeps_len m hm op recv ret hstep)

/-- helper: a name-preserving pairing has the same list of names -/
theorem forall2_names (subs subs' : List (String × Region)) (P : String × Region → String × Region → Prop)
    (h : List.Forall₂ (fun p p' => p'.1 = p.1 ∧ P p p') subs subs') : subs'.map Prod.fst = subs.map Prod.fst := by
  induction h with
  | nil => rfl
  | cons hp _ ih => simp [hp.1, ih]

/-- **every accepted mesh step keeps the subregion names, in order** (either form) -/
theorem stepM_keeps_names (m : Mesh) (op : Op) (recv ret : Mesh) (h : stepM m op = .ok (recv, ret)) :
    ret.subs.map Prod.fst = m.subs.map Prod.fst := by
  rw [stepM_eq_stepMU] at h
  unfold stepMU at h
  cases hr : stepR m.region op with
  | error e => simp [hr] at h
  | ok p =>
    cases hs : mapSubs m.subs (fun s => stepR s (subOp m op)) with
    | error e => simp [hr, hs] at h
    | ok subs' =>
      have hn := forall2_names _ _ _ (mapSubs_inv _ _ _ hs)
      simp only [hr, hs] at h
      split at h
      · injection h with h; injection h with _ h2; subst h2; exact hn
      · unfold mkMesh? at h
        cases hm : Mesh.mkN? p.2 (opN m op) (opBc m op) with
        | error e => simp [hm] at h
        | ok m0 =>
          simp only [hm] at h
          cases hset : setSubs m0 subs' with
          | error e => simp [hset] at h
          | ok m1 =>
            simp only [hset] at h
            injection h with h; injection h with _ h2; subst h2
            unfold setSubs at hset
            split at hset
            · injection hset with hset; subst hset
              simp only [List.map_map]; rw [← hn]; rfl
            · cases hset

/-- **every history keeps the subregion names, in order**: no step adds, drops, renames or reorders a
subregion (rejected steps skipped, in-place and copying steps mixed) -/
theorem history_keeps_names (m : Mesh) (ops : List Op) : (runM m ops).subs.map Prod.fst = m.subs.map Prod.fst := by
  induction ops generalizing m with
  | nil => rfl
  | cons op ops ih =>
    unfold runM
    cases hstep : stepM m op with
    | error e => exact ih m
    | ok p => exact (ih p.2).trans (stepM_keeps_names m op p.1 p.2 hstep)

/-- **"cell·n equals the region edges" after every history**: for every mesh reached by any
finite history, on every axis the count is positive and `n · cell = pmax − pmin` exactly -/
theorem cells_tile_after_history (m : Mesh) (hm : m.Inv) (ops : List Op) (a : Nat) (ha : a < (runM m ops).ndim) :
    0 < (runM m ops).nAt a ∧
    ((runM m ops).nAt a : Rat) * (runM m ops).cellAt a = (runM m ops).region.hi a - (runM m ops).region.lo a :=
  ⟨(reachable_inv_mesh m hm ops).2.2 a ha, n_mul_cell _ (reachable_inv_mesh m hm ops) a ha⟩

/-- **In-place == copying at mesh level.**  For a mesh satisfying the mesh invariant and `SubInv`:
(1) if the in-place form accepts, it returns the receiver itself (`T1 = T2`), and the copying form
returns exactly that state with `bc` lower-cased by the constructor when that `bc` is valid — and
is rejected when it is not; (2) if the copying form accepts, the receiver is untouched, the
in-place form accepts too and the returned mesh is the in-place state (bc lower-cased); (3) hence
a step rejected in place is rejected by the copying form as well.  The constructor's tolerant
re-validation of the subregions never rejects here, because the images fit exactly
(`DFV.C14.stepM_subInv`, `set_accepts_exact`).  This form needs NO hypothesis on `bc`; for well-formed
`bc` the conditional disappears: `inplace_eq_copy_mesh_complete`. -/
theorem inplace_eq_copy_mesh (m : Mesh) (hm : m.Inv) (hs : SubInv m) (op : Op) :
    (∀ T1 T2, stepM m (op.withInplace true) = .ok (T1, T2) →
        T1 = T2 ∧ stepM m (op.withInplace false) =
          if Mesh.bcOk T2.region.dims T2.bc.toLower then .ok (m, { T2 with bc := T2.bc.toLower }) else .error .value) ∧
    (∀ recv ret, stepM m (op.withInplace false) = .ok (recv, ret) →
        recv = m ∧ ∃ T, stepM m (op.withInplace true) = .ok (T, T) ∧ ret = { T with bc := T.bc.toLower }) ∧
    ((∃ e, stepM m (op.withInplace true) = .error e) → ∃ e, stepM m (op.withInplace false) = .error e) := by
  refine ⟨fun T1 T2 h => stepM_inplace_to_copy m hm hs op T1 T2 h,
          fun recv ret h => stepM_copy_to_inplace m hm hs op recv ret h, ?_⟩
  rintro ⟨e, he⟩
  cases hF : stepM m (op.withInplace false) with
  | error e' => exact ⟨e', rfl⟩
  | ok p =>
    obtain ⟨recv, ret⟩ := p
    obtain ⟨_, T, hT, _⟩ := stepM_copy_to_inplace m hm hs op recv ret hF
    rw [he] at hT; cases hT

/-- Mesh level master lemma — **periodic boundary conditions included**.  For a mesh satisfying the
mesh invariant, `SubInv` and `BcWf` (what the `bc` setter guarantees: lower-cased, letters distinct
dimension names; for periodic `bc` the single-character dimension names are lower-case — every
non-periodic `bc` qualifies, `bc_wellformed_of_nonperiodic`) and ANY step: either both forms accept
and end in the same state `T` (satisfying the three invariants again; a non-periodic `bc` is
unchanged; in-place returns the receiver, copying leaves it untouched), or both forms reject —
"rejected in both forms on exactly the same inputs".  The letter swap of a quarter turn keeps the
`bc` check and lower-casing (`DFV.C12.rotBc_keeps_bcOk`, `rotBc_lowercase`), so the constructor of
the copying form never rejects what the in-place form assigned. -/
theorem step_forms_mesh (m : Mesh) (hm : m.Inv) (hs : SubInv m) (hbc : BcWf m) (op : Op) :
    (∃ T : Mesh, T.Inv ∧ SubInv T ∧ BcWf T ∧ (PlainBc m.bc → T.bc = m.bc) ∧ stepM m (op.withInplace true) = .ok (T, T) ∧
        stepM m (op.withInplace false) = .ok (m, T)) ∨
    ((∃ e, stepM m (op.withInplace true) = .error e) ∧ (∃ e, stepM m (op.withInplace false) = .error e)) := by
  rcases stepM_forms_bc m hm hs hbc op with ⟨T, h1, h2, h3, h4, _, h5, h6⟩ | h
  · exact Or.inl ⟨T, h1, h2, h3, h4, h5, h6⟩
  · exact Or.inr h

/-- every non-periodic boundary condition (`""`, `neumann`, `dirichlet`) is well-formed, whatever
the dimension names — so the theorems stated with `BcWf` cover all of them -/
theorem bc_wellformed_of_nonperiodic (m : Mesh) (h : PlainBc m.bc) : BcWf m := bcWf_of_plain m h

/-- every accepted mesh step (either form) keeps the boundary condition well-formed, and leaves a
non-periodic one unchanged -/
theorem step_keeps_bc_wellformed (m : Mesh) (hm : m.Inv) (hs : SubInv m) (hbc : BcWf m) (op : Op) (recv ret : Mesh)
    (h : stepM m op = .ok (recv, ret)) : BcWf recv ∧ BcWf ret ∧ (PlainBc m.bc → ret.bc = m.bc) :=
  stepM_bcWf m hm hs hbc op recv ret h

/-- … hence after ANY finite history: mesh invariant, `SubInv` and well-formed `bc` together -/
theorem reachable_bc_wellformed (m : Mesh) (hm : m.Inv) (hs : SubInv m) (hbc : BcWf m) (ops : List Op) :
    (runM m ops).Inv ∧ SubInv (runM m ops) ∧ BcWf (runM m ops) := by
  induction ops generalizing m with
  | nil => exact ⟨hm, hs, hbc⟩
  | cons op ops ih =>
    simp only [runM]
    cases h : stepM m op with
    | error e => exact ih m hm hs hbc
    | ok p =>
      obtain ⟨recv, ret⟩ := p
      exact ih ret (stepM_keeps m hm op recv ret h).2.1 (stepM_subInv' m hm hs op recv ret h).2.1
        (stepM_bcWf m hm hs hbc op recv ret h).2.1

/-- Two mesh histories that differ only in the in-place flags of their steps end with equal meshes
(region, counts, bc, subregions) — periodic boundary conditions included. -/
theorem history_forms_agree_mesh (m : Mesh) (hm : m.Inv) (hs : SubInv m) (hbc : BcWf m)
    (ops : List Op) (flags : List Bool) (hl : flags.length = ops.length) :
    runM m (List.zipWith Op.withInplace ops flags) = runM m ops :=
  runM_forms_agree_bc m hm hs hbc ops flags hl

/-! ## field level: histories, in-place == copying -/

/-- The shape invariant — array of shape `(*n, nvdim)` (an `n`-shaped array of cell values), Boolean
validity of shape `n`, mesh invariant — holds after ANY finite history of field transformations. -/
theorem reachable_inv_field (f : Fld) (hf : FldInv f) (ops : List Op) : FldInv (runF f ops) := by
  induction ops generalizing f with
  | nil => exact hf
  | cons op ops ih =>
    simp only [runF]
    cases h : stepF f op with
    | error e => exact ih f hf
    | ok p =>
      obtain ⟨recv, ret⟩ := p
      exact ih ret (stepF_inv f hf op recv ret h).2

/-- the field rotation: both forms are accepted on exactly the same inputs and return the same
field; they differ only in the receiver (the result itself in place, untouched when copying) —
no hypothesis on the field -/
theorem rotate90F_forms (f : Fld) (a1 a2 : String) (k : Int) (ref : Option (List Rat)) (b b' : Bool) (x g : Fld)
    (h : rotate90F f a1 a2 k ref b = .ok (x, g)) :
    rotate90F f a1 a2 k ref b' = .ok (if b' then g else f, g) ∧ x = if b then g else f :=
  rotate90F_flag f a1 a2 k ref b b' x g h

/-- Field level master lemma: for a field satisfying `FInv` (shape invariant, `SubInv` and `BcWf` of
its mesh — periodic boundary conditions included) and ANY step, either both forms accept and end in
the same state `T` (again satisfying `FInv`; the in-place form returns the receiver, the copying
form leaves it untouched), or both forms reject. -/
theorem stepF_forms (f : Fld) (hf : FInv f) (op : Op) :
    (∃ T : Fld, FInv T ∧ stepF f (op.withInplace true) = .ok (T, T) ∧ stepF f (op.withInplace false) = .ok (f, T)) ∨
    ((∃ e, stepF f (op.withInplace true) = .error e) ∧ (∃ e, stepF f (op.withInplace false) = .error e)) := by
  obtain ⟨hfi, hs, hbc⟩ := hf
  have hmesh : ∀ (o : Op) (x : Mesh) (T : Mesh), stepM f.mesh o = .ok (x, T) → SubInv T ∧ BcWf T := by
    intro o x T h
    exact ⟨(stepM_subInv' f.mesh hfi.1 hs o x T h).2.1, (stepM_bcWf f.mesh hfi.1 hs hbc o x T h).2.1⟩
  cases op with
  | translate v i =>
    simp only [Op.withInplace, stepF]
    rcases stepM_forms_bc f.mesh hfi.1 hs hbc (.translate v i) with ⟨T, h1, h2, h3, _, _, h4, h5⟩ | ⟨⟨e1, h4⟩, ⟨e2, h5⟩⟩
    · left
      simp only [Op.withInplace] at h4 h5
      refine ⟨{ f with mesh := T }, ⟨?_, h2, h3⟩, by rw [h4]; simp, by rw [h5]; simp⟩
      exact (stepF_inv f hfi (.translate v true) _ _ (by simp only [stepF]; rw [h4])).2
    · right
      simp only [Op.withInplace] at h4 h5
      exact ⟨⟨e1, by rw [h4]⟩, ⟨e2, by rw [h5]⟩⟩
  | scale s ref i =>
    simp only [Op.withInplace, stepF]
    rcases stepM_forms_bc f.mesh hfi.1 hs hbc (.scale s ref i) with ⟨T, h1, h2, h3, _, _, h4, h5⟩ | ⟨⟨e1, h4⟩, ⟨e2, h5⟩⟩
    · left
      simp only [Op.withInplace] at h4 h5
      refine ⟨{ f with mesh := T }, ⟨?_, h2, h3⟩, by rw [h4]; simp, by rw [h5]; simp⟩
      exact (stepF_inv f hfi (.scale s ref true) _ _ (by simp only [stepF]; rw [h4])).2
    · right
      simp only [Op.withInplace] at h4 h5
      exact ⟨⟨e1, by rw [h4]⟩, ⟨e2, by rw [h5]⟩⟩
  | rotate90 a1 a2 k ref i =>
    simp only [Op.withInplace, stepF]
    cases hT : rotate90F f a1 a2 k ref true with
    | ok p =>
      obtain ⟨x, g⟩ := p
      left
      obtain ⟨g1, _⟩ := rotate90F_flag f a1 a2 k ref true true x g hT
      obtain ⟨g2, _⟩ := rotate90F_flag f a1 a2 k ref true false x g hT
      simp only [if_true] at g1
      simp only [Bool.false_eq_true, if_false] at g2
      refine ⟨g, ⟨(stepF_inv f hfi (.rotate90 a1 a2 k ref true) _ _ (by simp only [stepF]; exact g1)).2, ?_⟩, hT.symm.trans g1, g2⟩
      -- the mesh of the result is the copying-form mesh step
      have hg := hT
      unfold rotate90F at hg
      split at hg
      · cases hg
      · cases hg
      · cases hg
      · rename_i m' i1 i2 hm' _ _
        have hgm : g.mesh = m' := by
          split at hg
          · split at hg
            · injection hg with hg; injection hg with _ hb; rw [← hb]
            · cases hg
          · injection hg with hg; injection hg with _ hb; rw [← hb]
        rw [hgm]; exact hmesh _ _ _ hm'
    | error e =>
      right
      refine ⟨⟨e, rfl⟩, ?_⟩
      cases hF : rotate90F f a1 a2 k ref false with
      | error e' => exact ⟨e', rfl⟩
      | ok p =>
        obtain ⟨x, g⟩ := p
        obtain ⟨g1, _⟩ := rotate90F_flag f a1 a2 k ref false true x g hF
        rw [hT] at g1; cases g1

/-- Two field histories that differ only in the in-place flags of their steps end with equal fields
(mesh, values, validity, labels) — periodic boundary conditions included. -/
theorem history_forms_agree_field (f : Fld) (hf : FInv f) (ops : List Op) (flags : List Bool)
    (hl : flags.length = ops.length) :
    runF f (List.zipWith Op.withInplace ops flags) = runF f ops := by
  induction ops generalizing f flags with
  | nil => cases flags <;> simp [runF]
  | cons op ops ih =>
    cases flags with
    | nil => simp at hl
    | cons b bs =>
      simp only [List.zipWith_cons_cons, runF]
      have hl' : bs.length = ops.length := by simpa using hl
      rcases stepF_forms f hf op with ⟨T, hT, h4, h5⟩ | ⟨⟨e1, h4⟩, ⟨e2, h5⟩⟩
      · have k1 : ∃ x, stepF f (op.withInplace b) = .ok (x, T) := by
          cases b
          · exact ⟨_, h5⟩
          · exact ⟨_, h4⟩
        have k2 : ∃ y, stepF f op = .ok (y, T) := by
          cases hb : op.inplace
          · have : op = op.withInplace false := by rw [← hb, withInplace_self]
            rw [this]; exact ⟨_, h5⟩
          · have : op = op.withInplace true := by rw [← hb, withInplace_self]
            rw [this]; exact ⟨_, h4⟩
        obtain ⟨x, k1⟩ := k1
        obtain ⟨y, k2⟩ := k2
        rw [k1, k2]; exact ih T hT bs hl'
      · have k1 : ∃ e, stepF f (op.withInplace b) = .error e := by
          cases b
          · exact ⟨_, h5⟩
          · exact ⟨_, h4⟩
        have k2 : ∃ e, stepF f op = .error e := by
          cases hb : op.inplace
          · have : op = op.withInplace false := by rw [← hb, withInplace_self]
            rw [this]; exact ⟨_, h5⟩
          · have : op = op.withInplace true := by rw [← hb, withInplace_self]
            rw [this]; exact ⟨_, h4⟩
        obtain ⟨x, k1⟩ := k1
        obtain ⟨y, k2⟩ := k2
        rw [k1, k2]; exact ih f hf bs hl'

/-- **In-place == copying at mesh level, complete** (periodic `bc` included): for a mesh satisfying
the mesh invariant, `SubInv` and `BcWf`, whenever the in-place form accepts it returns the receiver
itself in exactly the state the copying form returns, the copying form leaves the receiver
untouched, and one form rejects iff the other does — the mesh-level mirror of `inplace_eq_copy`. -/
theorem inplace_eq_copy_mesh_complete (m : Mesh) (hm : m.Inv) (hs : SubInv m) (hbc : BcWf m) (op : Op) :
    (∀ recv ret, stepM m (op.withInplace true) = .ok (recv, ret) →
        recv = ret ∧ stepM m (op.withInplace false) = .ok (m, ret)) ∧
    (∀ recv ret, stepM m (op.withInplace false) = .ok (recv, ret) →
        recv = m ∧ stepM m (op.withInplace true) = .ok (ret, ret)) ∧
    ((∃ e, stepM m (op.withInplace true) = .error e) ↔ (∃ e, stepM m (op.withInplace false) = .error e)) := by
  rcases stepM_forms_bc m hm hs hbc op with ⟨T, _, _, _, _, _, h1, h2⟩ | ⟨⟨e1, h1⟩, ⟨e2, h2⟩⟩
  · refine ⟨?_, ?_, ?_⟩
    · intro recv ret h; rw [h1] at h; injection h with h; injection h with ha hb
      subst ha; subst hb; exact ⟨rfl, h2⟩
    · intro recv ret h; rw [h2] at h; injection h with h; injection h with ha hb
      subst ha; subst hb; exact ⟨rfl, h1⟩
    · constructor
      · rintro ⟨e, he⟩; rw [h1] at he; cases he
      · rintro ⟨e, he⟩; rw [h2] at he; cases he
  · refine ⟨?_, ?_, ?_⟩
    · intro recv ret h; rw [h1] at h; cases h
    · intro recv ret h; rw [h2] at h; cases h
    · exact ⟨fun _ => ⟨e2, h2⟩, fun _ => ⟨e1, h1⟩⟩

/-- **In-place == copying at field level, complete** (periodic `bc` included). -/
theorem inplace_eq_copy_field (f : Fld) (hf : FInv f) (op : Op) :
    (∀ recv ret, stepF f (op.withInplace true) = .ok (recv, ret) →
        recv = ret ∧ stepF f (op.withInplace false) = .ok (f, ret)) ∧
    (∀ recv ret, stepF f (op.withInplace false) = .ok (recv, ret) →
        recv = f ∧ stepF f (op.withInplace true) = .ok (ret, ret)) ∧
    ((∃ e, stepF f (op.withInplace true) = .error e) ↔ (∃ e, stepF f (op.withInplace false) = .error e)) := by
  rcases stepF_forms f hf op with ⟨T, _, h1, h2⟩ | ⟨⟨e1, h1⟩, ⟨e2, h2⟩⟩
  · refine ⟨?_, ?_, ?_⟩
    · intro recv ret h; rw [h1] at h; injection h with h; injection h with ha hb
      subst ha; subst hb; exact ⟨rfl, h2⟩
    · intro recv ret h; rw [h2] at h; injection h with h; injection h with ha hb
      subst ha; subst hb; exact ⟨rfl, h1⟩
    · constructor
      · rintro ⟨e, he⟩; rw [h1] at he; cases he
      · rintro ⟨e, he⟩; rw [h2] at he; cases he
  · refine ⟨?_, ?_, ?_⟩
    · intro recv ret h; rw [h1] at h; cases h
    · intro recv ret h; rw [h2] at h; cases h
    · exact ⟨fun _ => ⟨e2, h2⟩, fun _ => ⟨e1, h1⟩⟩

/-! ## rejected steps: exactly the malformed-argument classes, in both forms -/

/-- **A malformed call is rejected in both forms and produces no new state** — on regions, meshes
and fields alike, with NO hypothesis on the object.  The classes (`Malformed`): a translation
vector of the wrong length; a factor list of the wrong length, a reference point of the wrong
length, a zero factor (scalar or any entry of the list); equal axes, a reference point of the wrong
length, an unknown axis name (first or second); and for fields additionally (`MalformedF`) a quarter
turn of a vector field whose component-to-axis mapping misses one of the two axes.  The model's
step returns `Except`: an error carries no receiver and no result. -/
theorem malformed_rejected_both_forms (r : Region) (m : Mesh) (f : Fld) (op : Op) (b : Bool) :
    (Malformed r op → ∃ e, stepR r (op.withInplace b) = .error e) ∧
    (Malformed m.region op → ∃ e, stepM m (op.withInplace b) = .error e) ∧
    (MalformedF f op → ∃ e, stepF f (op.withInplace b) = .error e) :=
  ⟨fun h => stepR_malformed r _ ((malformed_withInplace r op b).mpr h),
   fun h => stepM_malformed m _ ((malformed_withInplace m.region op b).mpr h),
   fun h => stepF_malformed f _ ((malformedF_withInplace f op b).mpr h)⟩

/-- **Region: a step is rejected exactly for the malformed-argument classes** (either form): nothing
else is ever refused, and the flag plays no role. -/
theorem rejected_iff_malformed_region (r : Region) (hr : r.Inv) (op : Op) (b : Bool) :
    (∃ e, stepR r (op.withInplace b) = .error e) ↔ Malformed r op := by
  rw [stepR_error_iff r hr, malformed_withInplace]

/-- **Mesh: a step is rejected exactly for the malformed-argument classes** (either form; mesh
invariant, `SubInv`, well-formed `bc`): neither the steps applied to the subregions, nor the `bc`
letter swap, nor the constructor and subregion setter of the copying form ever add a rejection. -/
theorem rejected_iff_malformed_mesh (m : Mesh) (hm : m.Inv) (hs : SubInv m) (hbc : BcWf m) (op : Op) (b : Bool) :
    (∃ e, stepM m (op.withInplace b) = .error e) ↔ Malformed m.region op := by
  rw [stepM_error_iff m hm hs hbc, malformed_withInplace]

/-- **Field: a step is rejected exactly for the malformed-argument classes** (either form), the
unmapped vector field included. -/
theorem rejected_iff_malformed_field (f : Fld) (hf : FInv f) (op : Op) (b : Bool) :
    (∃ e, stepF f (op.withInplace b) = .error e) ↔ MalformedF f op := by
  rw [stepF_error_iff f hf, malformedF_withInplace]

/-- **A rejected step leaves the object as it was**, in a history: following `op :: ops` from an
object on which `op` is malformed is following `ops` from the unchanged object — region, mesh, field. -/
theorem rejected_step_skipped (r : Region) (m : Mesh) (f : Fld) (op : Op) (ops : List Op) :
    (Malformed r op → runR r (op :: ops) = runR r ops) ∧
    (Malformed m.region op → runM m (op :: ops) = runM m ops) ∧
    (MalformedF f op → runF f (op :: ops) = runF f ops) := by
  refine ⟨fun h => ?_, fun h => ?_, fun h => ?_⟩
  · obtain ⟨e, he⟩ := stepR_malformed r op h
    simp only [runR, he]
  · obtain ⟨e, he⟩ := stepM_malformed m op h
    simp only [runM, he]
  · obtain ⟨e, he⟩ := stepF_malformed f op h
    simp only [runF, he]

/-- non-vacuity of the mesh- and field-level theorems: `exP` (3-d, anisotropic, two touching
subregions, default bc) and `exM` (the same, PERIODIC in x) satisfy mesh invariant, `SubInv` and
`BcWf`; the fields `exF` / `exFM` on them satisfy `FInv`; the history `exOps` (negative-factor in-place
scale about a far point, copying odd quarter turn, in-place translation) is accepted step by step,
permutes the counts and moves the periodic direction from x to y. -/
example : exP.Inv ∧ SubInv exP ∧ BcWf exP := ⟨exP_inv, exP_subInv, bcWf_of_plain _ (Or.inl rfl)⟩
example : exM.Inv ∧ SubInv exM ∧ BcWf exM ∧ ¬ PlainBc exM.bc :=
  ⟨exM_inv, exM_subInv, bcWf_of_bcWfB exM (by decide +kernel), by unfold PlainBc; decide +kernel⟩
example : FInv exF := ⟨exF_inv, exP_subInv, bcWf_of_plain _ (Or.inl rfl)⟩
example : FInv { exF with mesh := exM } := ⟨⟨exM_inv, rfl, rfl⟩, exM_subInv, bcWf_of_bcWfB exM (by decide +kernel)⟩
example : (runM exP exOps).n = [6, 4, 1] := by decide +kernel
example : (runM exM exOps).n = [6, 4, 1] ∧ (runM exM exOps).bc = "y" := by decide +kernel
example : (runF exF exOps).mesh.n = [6, 4, 1] ∧ (runF exF exOps).data.shape = [6, 4, 1] := by decide +kernel
/-- non-vacuity of the rejection theorems: each malformed class has an instance on `exM` -/
example : Malformed exM.region (.translate [1, 2] true) ∧ Malformed exM.region (.scale (.vec [1, 0, 2]) none false) ∧
    Malformed exM.region (.scale (.scalar 2) (some [0, 0]) true) ∧ Malformed exM.region (.rotate90 "x" "x" 1 none true) ∧
    Malformed exM.region (.rotate90 "x" "w" 1 none false) ∧ ¬ Malformed exM.region (.rotate90 "x" "y" 1 none false) := by
  have hx : exM.region.dim2index "x" = .ok 0 := by decide +kernel
  have hy : exM.region.dim2index "y" = .ok 1 := by decide +kernel
  refine ⟨(by decide : [1, 2].length ≠ exM.region.ndim), Or.inr (Or.inr ⟨1, by decide, by decide +kernel⟩),
    Or.inr (Or.inl (by decide)), Or.inl rfl, Or.inr (Or.inr (Or.inr ⟨.value, by decide +kernel⟩)), ?_⟩
  simp only [Malformed, not_or, not_exists]
  refine ⟨by decide, by decide +kernel, ?_, ?_⟩
  · intro e he; rw [hx] at he; cases he
  · intro e he; rw [hy] at he; cases he

/-- non-vacuity: a concrete 3-d region satisfies the invariant, and a history mixing a
negative-factor in-place scale about a far reference point, an odd quarter turn and a
translation is accepted and ends in a state that satisfies the invariant. -/
example : (⟨[0, 0, 0], [10, 8, 6], ["x", "y", "z"], ["a", "b", "c"], 1/1000000000000⟩ : Region).invB = true := by
  decide +kernel

/-! ## round 3: the store model — who holds which Region object

`DFV/Model/C13Store.lean` models Region and Mesh OBJECTS: the constructor stores a COPY of the Region
object it is given as `region=` (repo fix 12c808de, finding D134 — before it the object was kept by
reference and shared) and COPIES of the subregion candidates (as the setter does); the in-place forms call the in-place method of the mesh's own Region objects one after the other.  The
theorems below say that the value model used everywhere else (`stepM`, `mkMesh?`, `setSubs`) is a sound
abstraction of it, which objects a statement can change, and what holds after every session. -/
open DFV.S

/-- **After ANY session** — any finite list of statements from the empty store: Region objects
created, meshes built on any Region objects (the same one for several meshes included), subregions
assigned, in-place and copying steps on meshes and on ANY Region object (also objects a mesh holds),
accepted, rejected or raising half-way — the store is good: every Region object is a proper region;
every mesh object has a region object, positive counts one per direction, a lower-cased checked `bc`,
and subregion objects that were created after its region object, carry its dimension names and are
pairwise different objects; NO Region object is the subregion of two meshes or twice of one; and the
region object of a mesh is held by no other mesh (`RegExcl`).  (Induction over the session;
`exec_good` / `exec_regExcl` are the steps.) -/
theorem store_invariant_after_any_session (sts : List Stmt) : Good (run Store.empty sts) ∧ RegExcl (run Store.empty sts) :=
  ⟨run_good Store.empty empty_good sts,
   run_regExcl Store.empty empty_good (fun i j a b ha => by simp [Store.empty] at ha) sts⟩

/-- what "good" gives for one mesh object: its Region objects are its own in the sense of `MeshOk`
(ids valid, subregion objects pairwise different and different from the region object), and its VALUE
satisfies the mesh invariant, has proper subregions with the mesh's dimension names, and a checked `bc` -/
theorem good_store_mesh (s : Store) (hg : Good s) (mo : MeshObj) (hmem : mo ∈ s.meshes) :
    MeshOk s mo ∧ (absMesh s mo).Inv ∧ SubsProper (absMesh s mo) ∧ BcInv (absMesh s mo) :=
  good_mesh s hg mo hmem

/-- **Exclusive ownership after ANY session — no discipline of the caller is needed any more.**  Since
repo fix 12c808de the constructor gives every mesh a region object of its own, as the setter always did
for the subregions; so after any session whatsoever (the same Region object as `region=` of many meshes,
the same candidate objects for many meshes, a mesh's own region or subregions as candidates or as the
`region=` of another mesh, in-place steps on anything) no Region object is reachable from two meshes,
nor twice from one: the footprints (region object + subregion objects) of different mesh objects are
disjoint and each footprint lists pairwise different objects.  What the caller can still do is move a
mesh's OWN objects through handles obtained from the mesh (`mesh.region`, `mesh.subregions[name]`):
that changes that one object and the value of that one mesh only (`region_step_frame`). -/
theorem exclusive_ownership_after_any_session (sts : List Stmt)
    (i j : Nat) (mo mo' : MeshObj) (hi : (run Store.empty sts).meshes[i]? = some mo) (hj : (run Store.empty sts).meshes[j]? = some mo') :
    (footprint mo).Nodup ∧ (i ≠ j → ∀ a, a ∈ footprint mo → a ∉ footprint mo') :=
  footprints_disjoint _ (run_good _ empty_good sts)
    (run_regExcl _ empty_good (fun i j a b ha => by simp [Store.empty] at ha) sts) i j mo mo' hi hj

/-- **Two meshes built on ONE Region object do not share it** (the witness of finding D134, now the
positive statement): after `R = Region(...); m1 = Mesh(region=R, …); m2 = Mesh(region=R, …);
m1.translate((1, 1), inplace=True)` the two meshes hold two different region objects (ids 1 and 2,
neither is `R` = id 0), `m1`'s has moved, `m2`'s and the caller's `R` have not. -/
theorem region_not_shared_witness :
    (run Store.empty [.newRegion ⟨[0, 0], [4, 2], ["x", "y"], ["m", "m"], 1/1000000000000⟩,
        .newMesh 0 [4, 2] "" [], .newMesh 0 [4, 2] "" [], .meshOp 0 (.translate [1, 1] true)]).meshes.map (·.region) = [1, 2] ∧
    (run Store.empty [.newRegion ⟨[0, 0], [4, 2], ["x", "y"], ["m", "m"], 1/1000000000000⟩,
        .newMesh 0 [4, 2] "" [], .newMesh 0 [4, 2] "" [], .meshOp 0 (.translate [1, 1] true)]).regs.map (·.pmin)
      = [[0, 0], [1, 1], [0, 0]] := by
  decide +kernel

/-- **A step on one Region object through a handle changes that object only** (good store): after
`obj.translate / scale / rotate90` in either form, accepted or not, on Region object `rid` — the caller's,
or a mesh's own obtained as `mesh.region` / `mesh.subregions[name]` — the mesh objects are the same,
every other Region object keeps its value, every mesh that does not hold `rid` keeps its value; the
copying form changes no existing object and no mesh at all. -/
theorem region_step_frame (s : Store) (hg : Good s) (rid : Nat) (op : Op) :
    (exec s (.regionOp rid op)).1.meshes = s.meshes ∧
    (∀ i, i < s.regs.length → (i ≠ rid ∨ op.inplace = false) → (exec s (.regionOp rid op)).1.reg i = s.reg i) ∧
    (∀ mo, mo ∈ s.meshes → (rid ∉ footprint mo ∨ op.inplace = false) →
      absMesh (exec s (.regionOp rid op)).1 mo = absMesh s mo) :=
  regionOp_frame s hg rid op

/-- **An accepted in-place mesh step, in the store** (good store, the mesh's `bc` well-formed): the
statement evaluates to the mesh object ITSELF, creates no object, leaves the mesh object holding the
same Region objects, and the mesh's value afterwards is EXACTLY the receiver state of the value model
`stepM` — although the store moves the Region objects one after the other, `scale` takes the default
reference point before and `rotate90` reads `self.region.centre` after the region object has been
turned (a region turned about its own centre keeps its centre), and `rotate90` assigns `bc` through the
setter (lower-casing and check, which cannot fail here). -/
theorem inplace_mesh_step_in_store (s : Store) (hg : Good s) (mid : Nat) (mo : MeshObj) (op : Op)
    (hmo : s.meshes[mid]? = some mo) (hb : BcWf (absMesh s mo)) (T1 T : Mesh)
    (h : stepM (absMesh s mo) (op.withInplace true) = .ok (T1, T)) :
    ∃ s' mo', meshInplace s mid op = (s', some (.mesh mid)) ∧ s'.regs.length = s.regs.length ∧
      (∀ i, i ∉ footprint mo → s'.reg i = s.reg i) ∧
      s'.meshes = setAt s.meshes mid mo' ∧ mo'.region = mo.region ∧ mo'.subs = mo.subs ∧ absMesh s' mo' = T := by
  obtain ⟨hok, hm, _, _⟩ := good_mesh s hg mo (List.mem_of_getElem? hmo)
  exact meshInplace_ok s mid mo op hmo hok hm hb T1 T h

/-- **A rejected in-place mesh step changes NOTHING in the store** (good store) — proved in the store
model, where an exception half-way WOULD leave objects moved: the value model rejects only when the
call on the region object raises, which happens before the first assignment; the subregion objects
accept whatever the region accepted. -/
theorem rejected_inplace_mesh_step_changes_nothing (s : Store) (hg : Good s) (mid : Nat) (mo : MeshObj) (op : Op)
    (hmo : s.meshes[mid]? = some mo) (e : Err) (h : stepM (absMesh s mo) (op.withInplace true) = .error e) :
    meshInplace s mid op = (s, none) :=
  meshInplace_err s hg mid mo op hmo e h

/-- **An in-place step on one mesh changes no other mesh and none of the caller's Region objects**
(good store, region objects exclusive — e.g. after any disciplined session): every other mesh object
is still there with the SAME value, every Region object outside the mesh's footprint is unchanged,
no object is created. -/
theorem inplace_step_frame (s : Store) (hg : Good s) (he : RegExcl s) (mid : Nat) (mo : MeshObj) (op : Op)
    (hmo : s.meshes[mid]? = some mo) (hb : BcWf (absMesh s mo)) (T1 T : Mesh)
    (h : stepM (absMesh s mo) (op.withInplace true) = .ok (T1, T)) :
    ∃ s' mo', meshInplace s mid op = (s', some (.mesh mid)) ∧ s'.meshes[mid]? = some mo' ∧ absMesh s' mo' = T ∧
      footprint mo' = footprint mo ∧
      (∀ j moj, j ≠ mid → s.meshes[j]? = some moj → s'.meshes[j]? = some moj ∧ absMesh s' moj = absMesh s moj) ∧
      (∀ i, i ∉ footprint mo → s'.reg i = s.reg i) ∧ s'.regs.length = s.regs.length :=
  meshInplace_frame s hg he mid mo op hmo hb T1 T h

/-- **The copying mesh step in the store**: accepted exactly when the value model accepts it; then ONE
mesh object is appended, its value is what `stepM` returns, it is built entirely from NEW Region
objects (nothing shared with the receiver or anybody else), and no existing object changes; a rejected
copying step changes nothing. -/
theorem copy_mesh_step_in_store (s : Store) (mid : Nat) (mo : MeshObj) (op : Op) (hmo : s.meshes[mid]? = some mo) :
    (∀ y T, stepM (absMesh s mo) (op.withInplace false) = .ok (y, T) →
      ∃ s' mo', meshCopy s mid op = (s', some (.mesh s.meshes.length)) ∧ s'.meshes = s.meshes ++ [mo'] ∧ absMesh s' mo' = T ∧
        (∀ a, a ∈ footprint mo' → s.regs.length ≤ a) ∧ (∀ j, j < s.regs.length → s'.reg j = s.reg j)) ∧
    (∀ e, stepM (absMesh s mo) (op.withInplace false) = .error e → meshCopy s mid op = (s, none)) :=
  meshCopy_sound s mid mo op hmo

/-- **Constructor and setter in the store**: `Mesh(region=<rid>, …, subregions={name: <id>})` and
`mesh.subregions = {name: <id>}` are accepted exactly when the value model (`mkMesh?` / `setSubs`) accepts
the VALUES of the named objects; a new mesh holds a NEW region object (with the value of the given one:
repo fix 12c808de) and NEW Region objects as subregions, whose values are what the value model stores (the
mesh region's names, units, tolerance); no existing Region object — the given region and the candidates
included — is changed. -/
theorem constructor_and_setter_in_store (s : Store) (rid : Nat) (n : List Nat) (bc : String) (subs : List (String × Nat))
    (hrid : rid < s.regs.length) (hids : ∀ p ∈ subs, p.2 < s.regs.length) (mid : Nat) (mo : MeshObj)
    (hmo : s.meshes[mid]? = some mo) (hmr : mo.region < s.regs.length) :
    ((∀ m', mkMesh? (s.reg rid) n bc (valsOf s subs) = .ok m' →
      ∃ s' mo', mkMeshS s rid n bc subs = .ok s' ∧ s'.meshes = s.meshes ++ [mo'] ∧ absMesh s' mo' = m' ∧
        mo'.region = s.regs.length ∧ (∀ p ∈ mo'.subs, s.regs.length < p.2) ∧ (∀ j, j < s.regs.length → s'.reg j = s.reg j)) ∧
     (∀ e, mkMesh? (s.reg rid) n bc (valsOf s subs) = .error e → ∃ e', mkMeshS s rid n bc subs = .error e')) ∧
    ((∀ m', T.setSubs (absMesh s mo) (valsOf s subs) = .ok m' →
      ∃ s' mo', exec s (.setSubs mid subs) = (s', some (.mesh mid)) ∧ s'.meshes = setAt s.meshes mid mo' ∧
        absMesh s' mo' = m' ∧ mo'.region = mo.region ∧ (∀ p ∈ mo'.subs, s.regs.length ≤ p.2) ∧
        (∀ j, j < s.regs.length → s'.reg j = s.reg j)) ∧
     (∀ e, T.setSubs (absMesh s mo) (valsOf s subs) = .error e → exec s (.setSubs mid subs) = (s, none))) :=
  ⟨mkMeshS_sound s rid n bc subs hrid hids, setSubs_sound s mid mo subs hmo hmr hids⟩

/-- **A whole history of in-place steps in the store IS the value model's history.**  Good store, region
objects exclusive, mesh object `mid` with a value satisfying `SubInv` and `BcWf`; `ops` any list of
in-place steps (rejected ones included).  After the session `[mesh.op₁(inplace=True), …]` the mesh object
is the same object holding the same Region objects and its VALUE is `runM value ops` — so
`reachable_inv_mesh`, `cells_tile_after_history`, `reachable_bc_wellformed`, `history_forms_agree_mesh`,
`DFV.C14.runM_subInv` are statements about the store; every other mesh object has its old value, every
Region object outside the mesh's footprint (the caller's objects) is unchanged, nothing was created. -/
theorem inplace_history_in_store (s : Store) (hg : Good s) (he : RegExcl s) (mid : Nat) (mo : MeshObj)
    (hmo : s.meshes[mid]? = some mo) (hs : SubInv (absMesh s mo)) (hb : BcWf (absMesh s mo)) (ops : List Op)
    (hin : ∀ op ∈ ops, op.inplace = true) :
    ∃ mo', (run s (ops.map (Stmt.meshOp mid))).meshes[mid]? = some mo' ∧
      absMesh (run s (ops.map (Stmt.meshOp mid))) mo' = runM (absMesh s mo) ops ∧ footprint mo' = footprint mo ∧
      (∀ j moj, j ≠ mid → s.meshes[j]? = some moj →
        (run s (ops.map (Stmt.meshOp mid))).meshes[j]? = some moj ∧ absMesh (run s (ops.map (Stmt.meshOp mid))) moj = absMesh s moj) ∧
      (∀ i, i ∉ footprint mo → (run s (ops.map (Stmt.meshOp mid))).reg i = s.reg i) ∧
      (run s (ops.map (Stmt.meshOp mid))).regs.length = s.regs.length :=
  inplace_history s hg he mid mo hmo hs hb ops hin

/-- non-vacuity of the store theorems: the session — two caller-made Region objects, a mesh built on the
first with the second as candidate under two names, an in-place quarter turn, a copying scale — is
accepted statement by statement: the mesh holds a copy of the region (id 2) and two different copies of
the candidate (ids 3, 4), the caller's objects (ids 0, 1) are where they were, the copy holds three new
objects. -/
example : (run Store.empty [.newRegion ⟨[0, 0], [4, 2], ["x", "y"], ["m", "s"], 1/1000000000000⟩,
    .newRegion ⟨[1, 0], [3, 1], ["x", "y"], ["m", "m"], 1/1000⟩,
    .newMesh 0 [4, 2] "x" [("a", 1), ("b", 1)], .meshOp 0 (.rotate90 "x" "y" 1 none true),
    .meshOp 0 (.scale (.scalar 2) none false)]).meshes.map (fun mo => (mo.region, mo.n, mo.bc, mo.subs))
    = [(2, [2, 4], "y", [("a", 3), ("b", 4)]), (8, [2, 4], "y", [("a", 9), ("b", 10)])] := by decide +kernel

/-- non-vacuity of `inplace_step_frame` / `inplace_history_in_store` / `DFV.C14.subInv_after_inplace_history_in_store`: the
session that builds `exM` (periodic, two touching subregions) from three caller-made Region objects ends in a
good store with exclusive region objects whose mesh object 0 has the value `exM` (which satisfies `SubInv`
and `BcWf`), held in the copies 3 (region), 4 and 5 -/
def exSession : List Stmt :=
  [.newRegion exM.region, .newRegion ⟨[2, 1, 0], [6, 3, 2], ["x", "y", "z"], ["m", "m", "m"], 1/1000⟩,
   .newRegion ⟨[6, 0, 0], [8, 6, 2], ["p", "q", "r"], ["m", "s", "K"], 1/1000000000000⟩,
   .newMesh 0 [4, 6, 1] "x" [("a", 1), ("b", 2)]]
example : Good (run Store.empty exSession) ∧ RegExcl (run Store.empty exSession) := store_invariant_after_any_session _
example : (run Store.empty exSession).meshes = [⟨3, [4, 6, 1], "x", [("a", 4), ("b", 5)]⟩] ∧
    absMesh (run Store.empty exSession) ⟨3, [4, 6, 1], "x", [("a", 4), ("b", 5)]⟩ = exM := by decide +kernel

end DFV.C13
