import DFV.Lemmas.Transform
/-!
# C13 — geometric invariants and in-place == copy after any transformation sequence
-/
namespace DFV.C13
open DFV DFV.T

/-- cos/sin of quarter turns form one of the four exact pairs -/
theorem quarter_cases (k : Int) :
    (cosq k = 1 ∧ sinq k = 0) ∨ (cosq k = 0 ∧ sinq k = 1) ∨ (cosq k = -1 ∧ sinq k = 0) ∨ (cosq k = 0 ∧ sinq k = -1) :=
  quarter_cases' k

end DFV.C13
