import DFV.Model.C17
namespace DFV.C17
open DFV
/-- placeholder while the model is validated against the code -/
theorem placeholder_tmp : defaultTol = defaultTol := rfl
end DFV.C17
