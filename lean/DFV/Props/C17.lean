import DFV.Lemmas.C17Examples
import DFV.Lemmas.C17Spacing
import DFV.Lemmas.C17Attrs
import DFV.Props.C01
/-!
# C17 — xarray export/import is lossless and uses cell centres as coordinates

Property theorems about the model of `Field.to_xarray` / `Field.from_xarray`
(`DFV/Model/C17.lean`).  Number of dimensions, corners, cell counts, dimension names, units,
tolerance factor, component count, labels, dtype tag and the values themselves (any type `α`:
the code only moves them) are universally quantified; so is the set of attribute names of
`Field` the `vdims` setter tests labels against (`[FieldAttrs]`), and the history of in-place
`field.mesh.translate/scale` calls before an export (`MeshOp` lists, by induction).  `f.WF` is
what the constructors of `Region`, `Mesh`, `Field` guarantee (plus: no spatial dimension is
called `vdims`): proved of constructor-built fields (`wf_of_constructors`), of everything the
importer returns (`import_wf`) and kept by every in-place history (`inplace_history_wf`); the
driver evaluates the same predicate on every real field of the correspondence run.
-/
namespace DFV.C17
open DFV

section
variable [FieldAttrs] {α : Type}

/-! ## Export -/

/-- **Coordinates are the cell centres, with the region's units.**  Axis `a` of the exported
DataArray is called like the region's dimension `a`, has one coordinate per cell, coordinate
`j` is the centre `pmin + (j+½)·cell` of cell `j` (the `centreAx` of C01), and its `units`
attribute is the region's unit on that axis. -/
theorem export_coords (f : XFld α) (hf : f.WF) (nm : String) (u : PyArg) (hu : u ≠ .other) :
    ∃ xa, toXarray f (.str nm) u = .ok xa ∧
      ∀ a, a < f.mesh.ndim →
        xa.axes.getD a default =
          { name := f.mesh.region.dims.getD a "", size := f.mesh.nAt a,
            coord := some { vals := tab (f.mesh.nAt a) fun j => f.mesh.centreAx a (j : Int),
                            units := some (f.mesh.region.units.getD a "") } } := by
  refine ⟨exported f nm u, ?_, fun a ha => exported_axis f hf nm u a ha⟩
  unfold toXarray
  simp only [hu, if_false]

omit [FieldAttrs] in
/-- **Every coordinate lies strictly inside its own cell** and the mesh maps it back to the
index it came from (`Mesh.point2index` per axis, C01): the exported coordinates select
exactly the cells they label. -/
theorem export_coords_index (m : Mesh) (hm : m.Inv) (a : Nat) (ha : a < m.ndim) (j : Nat) (hj : j < m.nAt a) :
    m.region.lo a + (j : Rat) * m.cellAt a < m.centreAx a (j : Int) ∧
    m.centreAx a (j : Int) < m.region.lo a + ((j : Rat) + 1) * m.cellAt a ∧
    m.indexAx a (m.centreAx a (j : Int)) = j := by
  have hc := cellAt_pos m hm a ha
  refine ⟨?_, ?_, C01.roundtrip_axis m a j hj (hm.1.2.2.2.2.2 a ha)⟩
  · unfold Mesh.centreAx; push_cast; linarith
  · unfold Mesh.centreAx; push_cast; linarith

/-- **Layout of the export**: dimensions = the region's (plus `vdims` exactly for vector
fields), the label coordinate lists the component labels, the attributes carry unit, cell
size, corners, component count (a Python int) and tolerance factor, the data are the field
array (component axis squeezed for scalar fields), name and dtype as given. -/
theorem export_layout (f : XFld α) (hf : f.WF) (nm : String) (u : PyArg) :
    (exported f nm u).dims = f.mesh.region.dims ++ (if 1 < f.nvdim then ["vdims"] else []) ∧
    (exported f nm u).vdimsCoord = (if 1 < f.nvdim then f.vdims else none) ∧
    (exported f nm u).attrs = { units := exportUnit u f.unit, cell := some f.mesh.cell,
                                pmin := some f.mesh.region.pmin, pmax := some f.mesh.region.pmax,
                                nvdim := some (.int f.nvdim), tol := some f.mesh.region.tol } ∧
    (1 < f.nvdim → (exported f nm u).data = f.data) ∧
    (f.nvdim = 1 → (exported f nm u).data.shape = f.mesh.n ∧
      ∀ i, (exported f nm u).data.get i = f.data.get (i ++ [0])) ∧
    (exported f nm u).name = nm ∧ (exported f nm u).dtype = f.dtype := by
  refine ⟨?_, rfl, rfl, ?_, ?_, rfl, rfl⟩
  · unfold XA.dims exported exportAxes
    simp only [List.map_append, map_tab]
    congr 1
    · exact tab_getD_self _ _
    · split <;> rfl
  · intro h; unfold exported exportData; simp only [h, if_true]
  · intro h
    have h1 : ¬ (1 < f.nvdim) := by omega
    have e : (exported f nm u).data = ⟨f.data.shape.dropLast, fun i => f.data.get (i ++ [0])⟩ := by
      show exportData f = _
      unfold exportData; rw [if_neg h1]
    rw [e]
    exact ⟨by show f.data.shape.dropLast = _; rw [hf.shape, List.dropLast_concat], fun _ => rfl⟩

omit [FieldAttrs] in
/-- the attribute `units` is the `unit` argument if it is a non-empty string, else the field's -/
theorem export_unit (s : String) (fu : Option String) :
    exportUnit (.str s) fu = (if s = "" then fu else some s) ∧ exportUnit .none fu = fu := ⟨rfl, rfl⟩

omit [FieldAttrs] in
/-- non-string `name` (also `None`) or non-string `unit` → `TypeError` -/
theorem export_rejects_bad_args (f : XFld α) (name unit : PyArg) (h : (∀ s, name ≠ .str s) ∨ unit = .other) :
    toXarray f name unit = .error .type := by
  unfold toXarray
  cases name with
  | str s => rcases h with h | h
             · exact absurd rfl (h s)
             · simp [h]
  | none => rfl
  | other => rfl

omit [FieldAttrs] in
/-- **The export succeeds exactly on string arguments**: `to_xarray(name, unit)` returns a
DataArray iff `name` is a string and `unit` is a string or `None` — whatever the field. -/
theorem export_ok_iff (f : XFld α) (name unit : PyArg) :
    (∃ xa, toXarray f name unit = .ok xa) ↔ (∃ s, name = .str s) ∧ unit ≠ .other := by
  constructor
  · rintro ⟨xa, h⟩
    cases name with
    | none => cases h
    | other => cases h
    | str s =>
      refine ⟨⟨s, rfl⟩, ?_⟩
      intro hu
      rw [export_rejects_bad_args f (.str s) unit (Or.inr hu)] at h
      cases h
  · rintro ⟨⟨s, rfl⟩, hu⟩
    exact ⟨exported f s unit, by unfold toXarray; simp only [hu, if_false]⟩

/-! ## Import of an export -/

/-- **Round trip.**  For every well-formed field, any name and unit argument: exporting and
importing succeeds and returns a field on the same region (corners, dimension names, units,
tolerance factor) with the same cell counts, component count, array shape, the same value at
every cell and component (hence the same flattened content), the same dtype tag — and the
same labels, provided the field is a labelled vector field or an unlabelled scalar field
(`LabelsStd`; see `xa_roundtrip_labels_iff`). -/
theorem xa_roundtrip (f : XFld α) (hf : f.WF) (nm : String) (u : PyArg) (hu : u ≠ .other) :
    ∃ xa g, toXarray f (.str nm) u = .ok xa ∧ fromXarray (.dataArray xa) = .ok g ∧
      g.mesh.region = f.mesh.region ∧ g.mesh.n = f.mesh.n ∧ g.nvdim = f.nvdim ∧
      g.data.shape = f.data.shape ∧ (∀ i, inRange f.data.shape i = true → g.data.get i = f.data.get i) ∧
      g.data.toList = f.data.toList ∧ g.dtype = f.dtype ∧ (LabelsStd f → g.vdims = f.vdims) := by
  obtain ⟨g, hg, hm, hk, hd, hv, ht, -⟩ :=
    fromXA_likeExport hf (likeExport_exported hf nm u) (fun h => by cases h)
  rw [meshAfter_export hf] at hm
  refine ⟨exported f nm u, g, ?_, hg, by rw [hm], by rw [hm], hk, hd.1, fun i hi => hd.2 i (hd.1 ▸ hi), ?_, ht, ?_⟩
  · unfold toXarray; simp only [hu, if_false]
  · apply hd.toList_eq
    intro x hx
    rw [hd.1, hf.shape, List.mem_append] at hx
    rcases hx with hx | hx
    · obtain ⟨a, ha, rfl⟩ := n_mem hf x hx
      exact hf.mesh.2.2 a ha
    · simp at hx; rw [hx]; exact hf.nvdim
  · intro hl; rw [hv]; exact (vdimsAfter_eq_iff hf).mpr hl

/-- **Exactly which labels survive.**  The imported field has the labels of the original if
and only if the original is a vector field with labels or a scalar field without: a vector
field WITHOUT labels comes back with the default labels, a scalar field WITH a label comes
back without (the exporter writes the label coordinate only for `nvdim > 1`, the importer
applies the constructor's defaults). -/
theorem xa_roundtrip_labels_iff (f : XFld α) (hf : f.WF) (nm : String) (u : PyArg) (g : XFld α)
    (hg : fromXarray (.dataArray (exported f nm u)) = .ok g) : g.vdims = f.vdims ↔ LabelsStd f := by
  obtain ⟨g', hg', -, -, -, hv, -⟩ :=
    fromXA_likeExport hf (likeExport_exported hf nm u) (fun h => by cases h)
  have : g = g' := by
    have h1 : fromXA (exported f nm u) = .ok g := hg
    rw [hg'] at h1; cases h1; rfl
  rw [this, hv]
  exact vdimsAfter_eq_iff hf

/-- the unlabelled vector field, explicitly: it comes back labelled `x,y(,z)` / `v0,v1,…` -/
theorem xa_roundtrip_unlabelled (f : XFld α) (hf : f.WF) (nm : String) (u : PyArg) (h1 : 1 < f.nvdim)
    (hn : f.vdims = none) :
    ∃ g, fromXarray (.dataArray (exported f nm u)) = .ok g ∧ g.vdims = Fld.defaultVdims f.nvdim ∧ g.vdims ≠ f.vdims := by
  obtain ⟨g, hg, -, -, -, hv, -⟩ :=
    fromXA_likeExport hf (likeExport_exported hf nm u) (fun h => by cases h)
  have hv' : g.vdims = Fld.defaultVdims f.nvdim := by
    rw [hv]; unfold vdimsAfter; simp only [h1, if_true, hn]
  refine ⟨g, hg, hv', ?_⟩
  rw [hv, hn]
  exact vdimsAfter_ne_none h1

/-- what `from_xarray` does not restore (none of it is in the property's list): the imported
field has no unit, every cell valid, the default component-to-axis mapping, no boundary
conditions and no subregions — whatever the exported field had. -/
theorem xa_not_restored (f : XFld α) (hf : f.WF) (nm : String) (u : PyArg) (g : XFld α)
    (hg : fromXarray (.dataArray (exported f nm u)) = .ok g) :
    g.unit = none ∧ g.valid = NDA.const f.mesh.n true ∧ g.mesh.bc = "" ∧ g.mesh.subs = [] ∧
    g.vmap = defaultVmap f.nvdim f.mesh.region.dims g.vdims := by
  obtain ⟨g', hg', hm, -, -, hv, -, hu, hva, hvm⟩ :=
    fromXA_likeExport hf (likeExport_exported hf nm u) (fun h => by cases h)
  have : g = g' := by
    have h1 : fromXA (exported f nm u) = .ok g := hg
    rw [hg'] at h1; cases h1; rfl
  subst this
  refine ⟨hu, hva, by rw [hm]; rfl, by rw [hm]; rfl, by rw [hvm, hv]⟩

/-! ## Import without the geometric attributes -/

/-- **Rebuild from the coordinates.**  Remove ANY subset of `cell` / `pmin` / `pmax` from an
exported DataArray (`c p q` say which).  If `cell` is removed, every axis must have at least
two cells.  Then the importer rebuilds exactly the original region (in ℚ: outermost centre
∓ half the mean spacing = the original corners) and cell counts, and values, labels and dtype
tag are as in `xa_roundtrip`. -/
theorem xa_rebuild (f : XFld α) (hf : f.WF) (nm : String) (u : PyArg) (c p q : Bool)
    (hc : c = true → ∀ a, a < f.mesh.ndim → 2 ≤ f.mesh.nAt a) :
    ∃ g, fromXarray (.dataArray (eraseGeom c p q (exported f nm u))) = .ok g ∧
      g.mesh.region = f.mesh.region ∧ g.mesh.n = f.mesh.n ∧ g.nvdim = f.nvdim ∧
      g.data.shape = f.data.shape ∧ (∀ i, inRange f.data.shape i = true → g.data.get i = f.data.get i) ∧
      g.dtype = f.dtype ∧ (LabelsStd f → g.vdims = f.vdims) := by
  obtain ⟨g, hg, hm, hk, hd, hv, ht, -⟩ :=
    fromXA_likeExport hf ((likeExport_exported hf nm u).eraseGeom c p q) hc
  rw [meshAfter_export hf] at hm
  exact ⟨g, hg, by rw [hm], by rw [hm], hk, hd.1, fun i hi => hd.2 i (hd.1 ▸ hi), ht,
    fun hl => by rw [hv]; exact (vdimsAfter_eq_iff hf).mpr hl⟩

/-- **Defaults for the remaining attributes.**  With `tolerance_factor` removed as well the
region gets the default factor (the binary64 `1e-12`); with the `units` attribute removed
from the coordinate of at least one axis (`sel` picks the dimensions) every axis gets the
default unit `m`; corners, names and cell counts are rebuilt as before. -/
theorem xa_rebuild_defaults (f : XFld α) (hf : f.WF) (nm : String) (u : PyArg) (c p q : Bool)
    (hc : c = true → ∀ a, a < f.mesh.ndim → 2 ≤ f.mesh.nAt a) (sel : String → Bool) :
    ∃ g, fromXarray (.dataArray (eraseUnits sel (eraseTol (eraseGeom c p q (exported f nm u))))) = .ok g ∧
      g.mesh.region.pmin = f.mesh.region.pmin ∧ g.mesh.region.pmax = f.mesh.region.pmax ∧
      g.mesh.region.dims = f.mesh.region.dims ∧ g.mesh.n = f.mesh.n ∧ g.mesh.region.tol = defaultTol ∧
      ((∃ a, a < f.mesh.ndim ∧ sel (f.mesh.region.dims.getD a "") = true) →
        g.mesh.region.units = List.replicate f.mesh.ndim "m") ∧
      ((∀ a, a < f.mesh.ndim → sel (f.mesh.region.dims.getD a "") = false) →
        g.mesh.region.units = f.mesh.region.units) := by
  obtain ⟨g, hg, hm, -⟩ :=
    fromXA_likeExport hf ((((likeExport_exported hf nm u).eraseGeom c p q).eraseTol).eraseUnits sel) hc
  refine ⟨g, hg, by rw [hm]; rfl, by rw [hm]; rfl, by rw [hm]; rfl, by rw [hm]; rfl, by rw [hm]; rfl, ?_, ?_⟩
  · rintro ⟨a, ha, hs⟩
    rw [hm]
    show unitsAfter f.mesh.ndim _ = _
    exact unitsAfter_erased _ _ a ha (by simp only [hs, if_true])
  · intro hs
    rw [hm]
    show unitsAfter f.mesh.ndim _ = _
    rw [← unitsAfter_export hf]
    unfold unitsAfter
    have : (tab f.mesh.ndim fun a => if sel (f.mesh.region.dims.getD a "") = true then none else uoExport f a)
        = tab f.mesh.ndim (uoExport f) := tab_congr _ _ _ fun a ha => by simp only [hs a ha, Bool.false_eq_true, if_false]
    rw [this]
    congr 1
    apply tab_congr
    intro a ha
    simp only [hs a ha, Bool.false_eq_true, if_false]

omit [FieldAttrs] in
/-- **Rebuild from coordinates, ANY DataArray** (hand-built, not necessarily exported): if the
geometric axes have distinct names and evenly spaced coordinates `v0, v0+h, …` with `h > 0`
and at least two coordinates each, and `cell`, `pmin`, `pmax` are all absent, the geometry
steps of the importer succeed and the mesh reaches exactly half a step beyond the outermost
coordinates, with one cell per coordinate, the axes' names, and the tolerance factor of the
attribute (default `1e-12`). -/
theorem rebuild_from_coords (xa : XA α) (d : Nat) (G : Nat → Axis) (hgeo : geo xa = tab d G) (hd : 0 < d)
    (v0 h : Nat → Rat) (n : Nat → Nat)
    (hval : ∀ a, a < d → (G a).values = tab (n a) fun j => v0 a + (j : Rat) * h a)
    (hh : ∀ a, a < d → 0 < h a) (hn : ∀ a, a < d → 2 ≤ n a)
    (hnames : hasDup (tab d fun a => (G a).name) = false)
    (hcell : xa.attrs.cell = none) (hpmin : xa.attrs.pmin = none) (hpmax : xa.attrs.pmax = none)
    (hshape : ∀ x ∈ xa.data.shape.dropLast, x ≠ 1) :
    ∃ m, geometryOf xa = .ok m ∧
      m.region.pmin = (tab d fun a => v0 a - h a / 2) ∧
      m.region.pmax = (tab d fun a => v0 a + ((n a : Rat) - 1) * h a + h a / 2) ∧
      m.n = tab d n ∧ m.region.dims = (tab d fun a => (G a).name) ∧
      m.region.tol = xa.attrs.tol.getD defaultTol :=
  geometry_from_coords xa d G hgeo hd v0 h n hval hh hn hnames hcell hpmin hpmax hshape

/-- **Import of a hand-built DataArray, values included.**  Evenly spaced coordinates on
distinctly named axes (at least two each), none of `cell`/`pmin`/`pmax`, an integer `nvdim = k
≥ 1`, data of shape `(*n)` (scalar) or `(*n, k)` with the `vdims` axis last, labels absent or
`k` distinct strings: the import succeeds, the mesh spans half a step beyond the outermost
coordinates with one cell per coordinate, every value sits at its own cell and component, the
dtype tag is kept, the labels are the coordinate's or the defaults. -/
theorem import_hand_built (xa : XA α) (d : Nat) (G : Nat → Axis) (hgeo : geo xa = tab d G) (hd : 0 < d)
    (v0 h : Nat → Rat) (n : Nat → Nat)
    (hval : ∀ a, a < d → (G a).values = tab (n a) fun j => v0 a + (j : Rat) * h a)
    (hh : ∀ a, a < d → 0 < h a) (hn : ∀ a, a < d → 2 ≤ n a)
    (hnames : hasDup (tab d fun a => (G a).name) = false)
    (hcell : xa.attrs.cell = none) (hpmin : xa.attrs.pmin = none) (hpmax : xa.attrs.pmax = none)
    (k : Nat) (hk : 1 ≤ k) (hnv : xa.attrs.nvdim = some (.int k)) (hvd : 1 < k → "vdims" ∈ xa.dims)
    (hshape : xa.data.shape = tab d n ++ (if 1 < k then [k] else []))
    (hlab : ∀ l, xa.vdimsCoord = some l → l.length = k ∧ hasDup l = false ∧ l.any FieldAttrs.has = false) :
    ∃ g, fromXarray (.dataArray xa) = .ok g ∧
      g.mesh.region.pmin = (tab d fun a => v0 a - h a / 2) ∧
      g.mesh.region.pmax = (tab d fun a => v0 a + ((n a : Rat) - 1) * h a + h a / 2) ∧
      g.mesh.n = tab d n ∧ g.mesh.region.dims = (tab d fun a => (G a).name) ∧ g.nvdim = k ∧
      g.data.shape = tab d n ++ [k] ∧
      (∀ i, inRange (tab d n ++ [k]) i = true → g.data.get i = xa.data.get (if 1 < k then i else i.dropLast)) ∧
      g.dtype = xa.dtype ∧
      g.vdims = (match xa.vdimsCoord with | some l => some l | none => Fld.defaultVdims k) :=
  import_hand_built_ok xa d G hgeo hd v0 h n hval hh hn hnames hcell hpmin hpmax k hk hnv hvd hshape hlab

/-- the importer is: component-count checks, then these geometry steps, then `Field(…)` -/
theorem import_factors (xa : XA α) :
    fromXarray (.dataArray xa) =
      (checkNvdim xa.attrs.nvdim xa.dims).bind fun k => (geometryOf xa).bind fun m => fieldOf xa m k :=
  fromXA_eq xa

/-! ## Rejections -/

/-- **A single-cell axis needs the `cell` attribute** — for every DataArray: no `cell`
attribute and a geometric axis with fewer than two coordinates ⇒ error. -/
theorem xa_single_cell_needs_cell (xa : XA α) (hc : xa.attrs.cell = none) (ax : Axis) (hax : ax ∈ geo xa)
    (hl : ax.values.length ≤ 1) : ∃ e, fromXarray (.dataArray xa) = .error e :=
  fromXA_single_no_cell xa hc ax hax hl

/-- … in particular for exports: a field with a single-cell axis, `cell` removed (whatever
else is removed) is rejected, while keeping `cell` is enough (`xa_rebuild` with `c = false`
has no condition on the cell counts). -/
theorem xa_export_single_cell_rejected (f : XFld α) (hf : f.WF) (nm : String) (u : PyArg) (p q : Bool)
    (a : Nat) (ha : a < f.mesh.ndim) (h1 : f.mesh.nAt a = 1) :
    ∃ e, fromXarray (.dataArray (eraseGeom true p q (exported f nm u))) = .error e := by
  have hl := (likeExport_exported hf nm u).eraseGeom true p q
  apply fromXA_single_no_cell _ (by rw [hl.cell]; rfl) (gAxis f.mesh (uoExport f) a)
  · rw [hl.geo]
    unfold tab
    exact List.mem_map.mpr ⟨a, List.mem_range.mpr ha, rfl⟩
  · rw [gAxis_values hf a ha, ap_length, h1]

/-- not a DataArray → `TypeError` -/
theorem rejects_non_dataarray : fromXarray (PyObj.other : PyObj α) = .error .type := rfl

/-- missing component count → `KeyError` -/
theorem rejects_missing_nvdim (xa : XA α) (h : xa.attrs.nvdim = none) :
    fromXarray (.dataArray xa) = .error .key := fromXA_no_nvdim xa h

/-- component count below one → `ValueError` -/
theorem rejects_nvdim_lt_one (xa : XA α) (k : Int) (h : xa.attrs.nvdim = some (.int k)) (hk : k < 1) :
    fromXarray (.dataArray xa) = .error .value := fromXA_nvdim_lt_one xa k h hk

/-- component count that is not a Python int (a float, a numpy integer) → error -/
theorem rejects_nvdim_not_int (xa : XA α) (q : Rat) (h : xa.attrs.nvdim = some (.other q)) :
    ∃ e, fromXarray (.dataArray xa) = .error e := fromXA_nvdim_not_int xa q h

/-- vector field without a `vdims` dimension → `ValueError` -/
theorem rejects_vector_without_vdims (xa : XA α) (k : Int) (h : xa.attrs.nvdim = some (.int k)) (hk : 1 < k)
    (hd : ¬ "vdims" ∈ xa.dims) : fromXarray (.dataArray xa) = .error .value :=
  fromXA_vector_no_vdims xa k h hk hd

omit [FieldAttrs] in
/-- **The component-count checks, exactly**: `from_xarray` gets past its first block of checks
with component count `k` iff the attribute `nvdim` is the Python int `k`, `k ≥ 1`, and — for
`k > 1` — the DataArray has a dimension called `vdims`.  (Missing attribute, non-int, `< 1`,
vector without component axis: each is an error, see `rejects_*`.) -/
theorem component_count_accepted_iff (nv : Option NvAttr) (dims : List String) (k : Nat) :
    checkNvdim nv dims = .ok k ↔ (1 ≤ k ∧ nv = some (.int k) ∧ (1 < k → "vdims" ∈ dims)) := by
  constructor
  · exact checkNvdim_inv nv dims k
  · rintro ⟨hk, rfl, hvd⟩
    unfold checkNvdim
    have h1 : ¬ ((k : Int) < 1) := by omega
    have h2 : ¬ (1 < (k : Int) ∧ ¬ dims.contains "vdims" = true) := by
      rintro ⟨h3, h4⟩
      exact h4 (List.contains_iff_mem.mpr (hvd (by omega)))
    simp only [h1, h2, if_false, Int.toNat_natCast]

/-- **A label that names an attribute of `Field` is rejected** (the `hasattr` test of the
`vdims` setter), for every DataArray and whatever the set of attribute names is. -/
theorem rejects_reserved_label (xa : XA α) (l : List String) (hv : xa.vdimsCoord = some l) (c : String)
    (hc : c ∈ l) (hr : FieldAttrs.has c = true) : ∃ e, fromXarray (.dataArray xa) = .error e :=
  fromXA_reserved xa l hv c hc hr

/-- **Unevenly spaced coordinates are rejected, at every length scale**: if on some geometric
axis one spacing deviates from the mean spacing by more than `1e-5·|mean|` (a purely relative
threshold), the import fails, whatever attributes are present. -/
theorem rejects_uneven (xa : XA α) (ax : Axis) (hax : ax ∈ geo xa) (j : Nat) (hj : j + 1 < ax.values.length)
    (hdev : 1/100000 * absR (meanDiff ax.values)
              < absR ((ax.values.getD (j + 1) 0 - ax.values.getD j 0) - meanDiff ax.values)) :
    ∃ e, fromXarray (.dataArray xa) = .error e :=
  fromXA_uneven xa ax hax (evenB_false_of_dev _ j hj hdev)

omit [FieldAttrs] in
/-- **The spacing test is scale-invariant**: multiplying all coordinates by any positive
factor (metres → nanometres), or shifting them, does not change whether they count as evenly
spaced … -/
theorem spacing_test_scale_invariant (s t : Rat) (hs : 0 < s) (v : List Rat) :
    evenB (v.map (s * ·)) = evenB v ∧ evenB (v.map (· + t)) = evenB v :=
  ⟨evenB_scale s hs v, evenB_shift t v⟩

omit [FieldAttrs] in
/-- … hence the importer's spacing verdict on a DataArray is the same after a change of
length unit of its coordinates (the former blindness below `1e-8`, finding D82, is gone:
see the nanometre witness below, now rejected like its metre-scale copy). -/
theorem spacing_check_scale_invariant (s : Rat) (hs : 0 < s) (xa : XA α) :
    checkSpacing (scaleCoords s xa) = checkSpacing xa :=
  checkSpacing_scale s hs xa

/-! ## The spacing test against its specification -/

omit [FieldAttrs] in
/-- **The spacing test is its specification**: the code-shaped test (`size > 1 and not
np.allclose(np.diff(v), np.diff(v).mean(), atol=0)`, negated) accepts a coordinate exactly when
every step `v[j+1] - v[j]` lies within `1e-5·|mean step|` of the mean step — a condition on the
steps relative to the step, in which neither the position nor an absolute scale occurs. -/
theorem spacing_test_spec (v : List Rat) :
    evenB v = true ↔
      ∀ j, j + 1 < v.length →
        absR ((v.getD (j + 1) 0 - v.getD j 0) - meanDiff v) ≤ 1/100000 * absR (meanDiff v) :=
  evenB_iff_spec v

omit [FieldAttrs] in
/-- the mean step the test compares with is `(last - first)/(size - 1)` (telescoping sum) -/
theorem mean_step_formula (v : List Rat) :
    meanDiff v = (v.getD (v.length - 1) 0 - v.getD 0 0) / ((v.length - 1 : Nat) : Rat) :=
  meanDiff_eq v

omit [FieldAttrs] in
/-- **Acceptance of the spacing loop, exactly**: `from_xarray` gets past the spacing loop iff
every geometric coordinate meets the specification; otherwise it raises `ValueError`. -/
theorem spacing_accept_iff (xa : XA α) :
    (checkSpacing xa = .ok () ↔
      ∀ ax ∈ geo xa, ∀ j, j + 1 < ax.values.length →
        absR ((ax.values.getD (j + 1) 0 - ax.values.getD j 0) - meanDiff ax.values)
          ≤ 1/100000 * absR (meanDiff ax.values)) ∧
    (checkSpacing xa = .ok () ∨ checkSpacing xa = .error .value) :=
  ⟨checkSpacing_iff xa, checkSpacing_ok_or_value xa⟩

omit [FieldAttrs] in
/-- **The verdict depends on the steps only**: two coordinates of the same size with the same
steps get the same verdict, wherever they lie. -/
theorem spacing_depends_on_steps_only (v w : List Rat) (hl : v.length = w.length)
    (hs : ∀ j, j + 1 < v.length → v.getD (j + 1) 0 - v.getD j 0 = w.getD (j + 1) 0 - w.getD j 0) :
    evenB v = evenB w :=
  evenB_congr_steps v w hl hs

omit [FieldAttrs] in
/-- **Translation invariance of the acceptance test on the DataArray**: moving the coordinate of
every dimension `d` by its own offset `t d` — arbitrarily far from the origin — does not change
the verdict of the spacing loop; nor does a positive affine map `x ↦ s·x + t` of one coordinate. -/
theorem spacing_check_shift_invariant (t : String → Rat) (xa : XA α) :
    checkSpacing (shiftCoords t xa) = checkSpacing xa ∧
    ∀ (s t' : Rat), 0 < s → ∀ v : List Rat, evenB (v.map fun x => s * x + t') = evenB v :=
  ⟨checkSpacing_shift t xa, fun s t' hs v => evenB_affine s t' hs v⟩

omit [FieldAttrs] in
/-- **Evenly spaced coordinates are accepted**: if every geometric coordinate is an arithmetic
progression `v0, v0+h, …` — any origin, any step (also negative or zero), any length — the
spacing loop passes. -/
theorem accepts_even (xa : XA α) (v0 h : Axis → Rat) (n : Axis → Nat)
    (hap : ∀ ax ∈ geo xa, ax.values = tab (n ax) fun j => v0 ax + (j : Rat) * h ax) :
    checkSpacing xa = .ok () := by
  rw [checkSpacing_iff]
  intro ax hax
  rw [← evenB_iff_spec, hap ax hax]
  exact evenB_ap _ _ _

/-- **Uneven coordinates are rejected wherever they lie**: if a geometric coordinate is a copy,
moved by ANY offset `t`, of values `w` one of whose steps deviates from the mean step by more
than `1e-5·|mean|`, the import fails — the offset does not enter the condition. -/
theorem rejects_uneven_translated (xa : XA α) (ax : Axis) (hax : ax ∈ geo xa) (w : List Rat) (t : Rat)
    (hv : ax.values = w.map (· + t)) (j : Nat) (hj : j + 1 < w.length)
    (hdev : 1/100000 * absR (meanDiff w) < absR ((w.getD (j + 1) 0 - w.getD j 0) - meanDiff w)) :
    ∃ e, fromXarray (.dataArray xa) = .error e := by
  apply fromXA_uneven xa ax hax
  rw [hv, evenB_shift]
  exact evenB_false_of_dev _ j hj hdev

/-- **Exact threshold for one displaced coordinate**: evenly spaced coordinates (any origin `v0`,
any step `h`) whose interior coordinate `k` is displaced by `e` pass the spacing test iff
`|e| ≤ 1e-5·|h|`; so a DataArray with such a coordinate and `|e| > 1e-5·|h|` is rejected at
every distance from the origin and every length scale. -/
theorem displaced_coordinate_threshold (v0 h : Rat) (n k : Nat) (e : Rat) (hk0 : 0 < k) (hk : k + 1 < n) :
    (evenB (tab n fun j => v0 + (j : Rat) * h + (if j = k then e else 0)) = true ↔ absR e ≤ 1/100000 * absR h) ∧
    ∀ (xa : XA α) (ax : Axis), ax ∈ geo xa →
      ax.values = (tab n fun j => v0 + (j : Rat) * h + (if j = k then e else 0)) →
      1/100000 * absR h < absR e → ∃ err, fromXarray (.dataArray xa) = .error err := by
  refine ⟨evenB_apMoved v0 h n k e hk0 hk, ?_⟩
  intro xa ax hax hv hbig
  apply fromXA_uneven xa ax hax
  rw [hv]
  cases hb : evenB (tab n fun j => v0 + (j : Rat) * h + (if j = k then e else 0)) with
  | false => rfl
  | true =>
    have := (evenB_apMoved v0 h n k e hk0 hk).mp hb
    linarith

omit [FieldAttrs] in
/-- **Exact threshold for a displaced END coordinate** (the mean step moves with it): evenly
spaced coordinates (any origin, any step `h`, `n ≥ 3`) whose last — or first — coordinate is
displaced by `e` pass iff `|e|·(n-2)/(n-1) ≤ 1e-5·|h ± e/(n-1)|` (`+` for the last, `-` for the
first); again no dependence on the origin.  Together with `displaced_coordinate_threshold` this
settles every position of the displaced coordinate. -/
theorem displaced_end_coordinate_threshold (v0 h : Rat) (n : Nat) (e : Rat) (hn : 3 ≤ n) :
    (evenB (tab n fun j => v0 + (j : Rat) * h + (if j = n - 1 then e else 0)) = true ↔
      absR (e * ((n : Rat) - 2) / ((n : Rat) - 1)) ≤ 1/100000 * absR (h + e / ((n : Rat) - 1))) ∧
    (evenB (tab n fun j => v0 + (j : Rat) * h + (if j = 0 then e else 0)) = true ↔
      absR (e * ((n : Rat) - 2) / ((n : Rat) - 1)) ≤ 1/100000 * absR (h - e / ((n : Rat) - 1))) :=
  ⟨evenB_apMoved_last v0 h n e hn, evenB_apMoved_first v0 h n e hn⟩

/-! ## Rebuild with any subset of the geometric attributes, any DataArray -/

omit [FieldAttrs] in
/-- **Rebuild from coordinates with ANY subset of `cell`/`pmin`/`pmax` present** (hand-built
DataArray, any number of dimensions): the geometric axes have distinct names and evenly spaced
coordinates `v0, v0+h, …` (`h > 0`, at least ONE coordinate); each of the three attributes is
either absent or says what the coordinates say; if `cell` is absent every axis has at least two
coordinates.  Then the geometry steps succeed and the mesh reaches exactly half a step beyond
the outermost coordinates with one cell per coordinate — in particular for single-cell axes
whenever `cell` is present (where the code can infer nothing from the coordinates). -/
theorem rebuild_from_coords_any_subset (xa : XA α) (d : Nat) (G : Nat → Axis) (hgeo : geo xa = tab d G) (hd : 0 < d)
    (v0 h : Nat → Rat) (n : Nat → Nat)
    (hval : ∀ a, a < d → (G a).values = tab (n a) fun j => v0 a + (j : Rat) * h a)
    (hh : ∀ a, a < d → 0 < h a) (hn : ∀ a, a < d → 1 ≤ n a)
    (hnames : hasDup (tab d fun a => (G a).name) = false)
    (hcell : xa.attrs.cell = none ∨ xa.attrs.cell = some (tab d h))
    (hpmin : xa.attrs.pmin = none ∨ xa.attrs.pmin = some (tab d fun a => v0 a - h a / 2))
    (hpmax : xa.attrs.pmax = none ∨ xa.attrs.pmax = some (tab d fun a => v0 a + ((n a : Rat) - 1) * h a + h a / 2))
    (hinfer : xa.attrs.cell = none → (∀ a, a < d → 2 ≤ n a) ∧ ∀ x ∈ xa.data.shape.dropLast, x ≠ 1) :
    ∃ m, geometryOf xa = .ok m ∧
      m.region.pmin = (tab d fun a => v0 a - h a / 2) ∧
      m.region.pmax = (tab d fun a => v0 a + ((n a : Rat) - 1) * h a + h a / 2) ∧
      m.n = tab d n ∧ m.region.dims = (tab d fun a => (G a).name) ∧
      m.region.tol = xa.attrs.tol.getD defaultTol :=
  geometry_from_coords_gen xa d G hgeo hd v0 h n hval hh hn hnames ⟨hcell, hpmin, hpmax, hinfer⟩

/-- **Import of a hand-built DataArray with any subset of the geometric attributes, values
included**: as `rebuild_from_coords_any_subset`, plus an integer `nvdim = k ≥ 1`, data of shape
`(*n)` / `(*n, k)`, labels absent or `k` distinct strings.  The import succeeds; the mesh is as
stated; every value sits at its own cell and component; dtype tag and labels are kept. -/
theorem import_hand_built_any_subset (xa : XA α) (d : Nat) (G : Nat → Axis) (hgeo : geo xa = tab d G) (hd : 0 < d)
    (v0 h : Nat → Rat) (n : Nat → Nat)
    (hval : ∀ a, a < d → (G a).values = tab (n a) fun j => v0 a + (j : Rat) * h a)
    (hh : ∀ a, a < d → 0 < h a) (hn : ∀ a, a < d → 1 ≤ n a)
    (hnames : hasDup (tab d fun a => (G a).name) = false)
    (hcell : xa.attrs.cell = none ∨ xa.attrs.cell = some (tab d h))
    (hpmin : xa.attrs.pmin = none ∨ xa.attrs.pmin = some (tab d fun a => v0 a - h a / 2))
    (hpmax : xa.attrs.pmax = none ∨ xa.attrs.pmax = some (tab d fun a => v0 a + ((n a : Rat) - 1) * h a + h a / 2))
    (hinfer : xa.attrs.cell = none → ∀ a, a < d → 2 ≤ n a)
    (k : Nat) (hk : 1 ≤ k) (hnv : xa.attrs.nvdim = some (.int k)) (hvd : 1 < k → "vdims" ∈ xa.dims)
    (hshape : xa.data.shape = tab d n ++ (if 1 < k then [k] else []))
    (hlab : ∀ l, xa.vdimsCoord = some l → l.length = k ∧ hasDup l = false ∧ l.any FieldAttrs.has = false) :
    ∃ g, fromXarray (.dataArray xa) = .ok g ∧
      g.mesh.region.pmin = (tab d fun a => v0 a - h a / 2) ∧
      g.mesh.region.pmax = (tab d fun a => v0 a + ((n a : Rat) - 1) * h a + h a / 2) ∧
      g.mesh.n = tab d n ∧ g.mesh.region.dims = (tab d fun a => (G a).name) ∧ g.nvdim = k ∧
      g.data.shape = tab d n ++ [k] ∧
      (∀ i, inRange (tab d n ++ [k]) i = true → g.data.get i = xa.data.get (if 1 < k then i else i.dropLast)) ∧
      g.dtype = xa.dtype ∧
      g.vdims = (match xa.vdimsCoord with | some l => some l | none => Fld.defaultVdims k) := by
  obtain ⟨m, hm, hp1, hp2, hmn, hdims, -⟩ :=
    geometry_from_coords_gen xa d G hgeo hd v0 h n hval hh hn hnames
      ⟨hcell, hpmin, hpmax, fun hc => ⟨hinfer hc, shape_no_one d n k _ hshape (hinfer hc)⟩⟩
  obtain ⟨g, hg, hgm, hgk, hgs, hgd, hgt, hgv⟩ := import_of_geometry xa d n m hm hmn k hk hnv hvd hshape hlab
  exact ⟨g, hg, by rw [hgm]; exact hp1, by rw [hgm]; exact hp2, by rw [hgm]; exact hmn, by rw [hgm]; exact hdims,
    hgk, hgs, hgd, hgt, hgv⟩

/-- **Coordinates that do not ascend cannot be rebuilt from**: without the `cell` attribute, a
geometric axis whose last coordinate is not larger than its first (descending coordinates, or a
single one) is rejected — the inferred cell size would not be positive. -/
theorem rejects_descending_without_cell (xa : XA α) (hc : xa.attrs.cell = none) (ax : Axis) (hax : ax ∈ geo xa)
    (hd : ax.values.getD (ax.values.length - 1) 0 ≤ ax.values.getD 0 0) :
    ∃ e, fromXarray (.dataArray xa) = .error e := by
  obtain ⟨e, he⟩ := geometryOf_descending xa hc ax hax hd
  show ∃ e, fromXA xa = .error e
  rw [fromXA_eq]
  cases checkNvdim xa.attrs.nvdim xa.dims with
  | error e' => exact ⟨e', rfl⟩
  | ok k =>
    simp only [Except.bind]
    rw [he]
    exact ⟨e, rfl⟩

/-- **With `cell`, `pmin` and `pmax` all present the coordinate values are only spacing-tested,
never used**: replacing them by ANY other values that pass the spacing test (reversed, shifted,
rescaled) gives the identical result — same mesh from the attributes, same values at the same
indices.  In particular a DataArray with descending coordinates and complete attributes is
accepted and its data are NOT reordered (observation; such arrays are never produced by
`to_xarray`). -/
theorem attrs_override_coordinates (vals : String → List Rat) (xa : XA α) (c p q : List Rat)
    (hc : xa.attrs.cell = some c) (hp : xa.attrs.pmin = some p) (hq : xa.attrs.pmax = some q)
    (h1 : checkSpacing xa = .ok ()) (h2 : checkSpacing (setCoordVals vals xa) = .ok ()) :
    fromXarray (.dataArray (setCoordVals vals xa)) = fromXarray (.dataArray xa) :=
  fromXA_setCoordVals vals xa c p q hc hp hq h1 h2

/-- **Exactly when an export can be rebuilt**: with any subset `c p q` of `cell`/`pmin`/`pmax`
removed from the export of a well-formed field, the import succeeds if and only if `cell` was
kept or every axis has at least two cells — the code can infer the cell size from the
coordinates of an axis iff that axis has two of them. -/
theorem xa_rebuild_iff (f : XFld α) (hf : f.WF) (nm : String) (u : PyArg) (c p q : Bool) :
    (∃ g, fromXarray (.dataArray (eraseGeom c p q (exported f nm u))) = .ok g) ↔
      (c = true → ∀ a, a < f.mesh.ndim → 2 ≤ f.mesh.nAt a) := by
  constructor
  · rintro ⟨g, hg⟩ hc a ha
    subst hc
    by_contra hlt
    have h1 : f.mesh.nAt a = 1 := by have := hf.mesh.2.2 a ha; omega
    obtain ⟨e, he⟩ := xa_export_single_cell_rejected f hf nm u p q a ha h1
    rw [he] at hg; cases hg
  · intro hc
    obtain ⟨g, hg, -⟩ := xa_rebuild f hf nm u c p q hc
    exact ⟨g, hg⟩

/-! ## The export follows the mesh as it is now (in-place changes before the export) -/

/-- **A history of in-place changes of the mesh keeps the field well-formed**: after any
sequence of `field.mesh.translate(…, inplace=True)` / `field.mesh.scale(…, inplace=True)` calls
with ARBITRARY arguments (rejected calls change nothing) the field is well-formed, on a mesh
with the same cell counts, names, units and tolerance, with the same array, labels, unit, dtype. -/
theorem inplace_history_wf (f : XFld α) (hf : f.WF) (ops : List MeshOp) :
    (f.run ops).WF ∧ (f.run ops).mesh.n = f.mesh.n ∧ (f.run ops).mesh.region.dims = f.mesh.region.dims ∧
    (f.run ops).mesh.region.units = f.mesh.region.units ∧ (f.run ops).mesh.region.tol = f.mesh.region.tol ∧
    (f.run ops).data = f.data ∧ (f.run ops).nvdim = f.nvdim ∧ (f.run ops).vdims = f.vdims ∧
    (f.run ops).unit = f.unit ∧ (f.run ops).dtype = f.dtype := by
  have h := run_same f hf ops
  exact ⟨h.wf hf, h.frame.n, h.frame.dims, h.frame.units, h.frame.tol, h.data, h.nvdim, h.vdims, h.unit, h.dtype⟩

/-- **The exported coordinates are the cell centres of the mesh as it is at the time of the
export**: after any history of in-place changes, `to_xarray` succeeds and coordinate `j` of axis
`a` is `pmin + (j+½)·cell` of the CURRENT mesh (a function of the current geometry only), with
the region's units; the geometric attributes are the current ones; the data are untouched. -/
theorem export_after_history (f : XFld α) (hf : f.WF) (ops : List MeshOp) (nm : String) (u : PyArg) (hu : u ≠ .other) :
    ∃ xa, exportAfter f ops (.str nm) u = .ok xa ∧
      (∀ a, a < f.mesh.ndim →
        xa.axes.getD a default =
          { name := f.mesh.region.dims.getD a "", size := f.mesh.nAt a,
            coord := some { vals := tab (f.mesh.nAt a) fun j => (f.run ops).mesh.centreAx a (j : Int),
                            units := some (f.mesh.region.units.getD a "") } }) ∧
      xa.attrs.cell = some (f.run ops).mesh.cell ∧ xa.attrs.pmin = some (f.run ops).mesh.region.pmin ∧
      xa.attrs.pmax = some (f.run ops).mesh.region.pmax ∧ xa.data = exportData f ∧
      xa.vdimsCoord = (if 1 < f.nvdim then f.vdims else none) := by
  have h := run_same f hf ops
  have hw := h.wf hf
  obtain ⟨xa, hxa, hax⟩ := export_coords (f.run ops) hw nm u hu
  have hx : xa = exported (f.run ops) nm u := by
    unfold toXarray at hxa
    simp only [hu, if_false] at hxa
    injection hxa with hxa; exact hxa.symm
  refine ⟨xa, hxa, ?_, by rw [hx]; rfl, by rw [hx]; rfl, by rw [hx]; rfl, ?_, ?_⟩
  · intro a ha
    have := hax a (by rw [h.frame.ndim]; exact ha)
    rw [this, h.frame.dims, h.frame.units]
    have hn : (f.run ops).mesh.nAt a = f.mesh.nAt a := by unfold Mesh.nAt; rw [h.frame.n]
    rw [hn]
  · rw [hx]
    show exportData (f.run ops) = exportData f
    unfold exportData; rw [h.nvdim, h.data]
  · rw [hx]
    show (if 1 < (f.run ops).nvdim then (f.run ops).vdims else none) = _
    rw [h.nvdim, h.vdims]

/-- **Export commutes with an in-place translation**: if `field.mesh.translate(v, inplace=True)`
is accepted, every exported coordinate of axis `a` moves by `v[a]`; names, sizes and units stay. -/
theorem export_translate_commutes (f : XFld α) (hf : f.WF) (v : List Rat) (m' ret : Mesh)
    (h : T.stepM f.mesh (.translate v true) = .ok (m', ret)) (nm : String) (u : PyArg)
    (a : Nat) (ha : a < f.mesh.ndim) :
    ((exported (f.meshStep (.translate v)) nm u).axes.getD a default).name = ((exported f nm u).axes.getD a default).name ∧
    ((exported (f.meshStep (.translate v)) nm u).axes.getD a default).units = ((exported f nm u).axes.getD a default).units ∧
    ((exported (f.meshStep (.translate v)) nm u).axes.getD a default).values.length = f.mesh.nAt a ∧
    ∀ j, j < f.mesh.nAt a →
      ((exported (f.meshStep (.translate v)) nm u).axes.getD a default).values.getD j 0
        = ((exported f nm u).axes.getD a default).values.getD j 0 + v.getD a 0 := by
  have hs := meshStep_same f hf (.translate v)
  have hw := hs.wf hf
  have ha' : a < (f.meshStep (.translate v)).mesh.ndim := by rw [hs.frame.ndim]; exact ha
  have hn : (f.meshStep (.translate v)).mesh.nAt a = f.mesh.nAt a := by unfold Mesh.nAt; rw [hs.frame.n]
  refine ⟨?_, ?_, ?_, ?_⟩
  · rw [exported_axis _ hw nm u a ha', exported_axis f hf nm u a ha, hs.frame.dims]
  · rw [exported_axis _ hw nm u a ha', exported_axis f hf nm u a ha, hs.frame.units]; rfl
  · rw [exported_values _ hw nm u a ha', tab_length, hn]
  · intro j hj
    rw [exported_values_getD _ hw nm u a ha' j (by rw [hn]; exact hj), exported_values_getD f hf nm u a ha j hj,
      meshStep_translate_eq f v m' ret h]
    exact centre_translate f.mesh v m' ret h a ha _

/-- **Export commutes with an in-place scaling**: if `field.mesh.scale(factor, reference_point,
inplace=True)` is accepted, exported coordinate `c` of axis `a` becomes `ref + s·(c - ref)` for a
positive factor `s` on that axis (`ref` = the reference point, default the region's centre); for
a negative factor the same holds with the order of the cells along the axis reversed. -/
theorem export_scale_commutes (f : XFld α) (hf : f.WF) (s : T.Factor) (ref : Option (List Rat)) (m' ret : Mesh)
    (h : T.stepM f.mesh (.scale s ref true) = .ok (m', ret)) (nm : String) (u : PyArg)
    (a : Nat) (ha : a < f.mesh.ndim) :
    ((exported (f.meshStep (.scale s ref)) nm u).axes.getD a default).values.length = f.mesh.nAt a ∧
    (0 < s.at a → ∀ j, j < f.mesh.nAt a →
      ((exported (f.meshStep (.scale s ref)) nm u).axes.getD a default).values.getD j 0
        = (refOf f.mesh.region ref).getD a 0 + s.at a *
            (((exported f nm u).axes.getD a default).values.getD j 0 - (refOf f.mesh.region ref).getD a 0)) ∧
    (s.at a < 0 → ∀ j, j < f.mesh.nAt a →
      ((exported (f.meshStep (.scale s ref)) nm u).axes.getD a default).values.getD j 0
        = (refOf f.mesh.region ref).getD a 0 + s.at a *
            (((exported f nm u).axes.getD a default).values.getD (f.mesh.nAt a - 1 - j) 0
              - (refOf f.mesh.region ref).getD a 0)) := by
  have hs := meshStep_same f hf (.scale s ref)
  have hw := hs.wf hf
  have ha' : a < (f.meshStep (.scale s ref)).mesh.ndim := by rw [hs.frame.ndim]; exact ha
  have hn : (f.meshStep (.scale s ref)).mesh.nAt a = f.mesh.nAt a := by unfold Mesh.nAt; rw [hs.frame.n]
  refine ⟨?_, ?_, ?_⟩
  · rw [exported_values _ hw nm u a ha', tab_length, hn]
  · intro hpos j hj
    rw [exported_values_getD _ hw nm u a ha' j (by rw [hn]; exact hj), exported_values_getD f hf nm u a ha j hj,
      meshStep_scale_eq f s ref m' ret h]
    exact centre_scale_pos f.mesh s ref m' ret h a ha hf.mesh hpos _
  · intro hneg j hj
    rw [exported_values_getD _ hw nm u a ha' j (by rw [hn]; exact hj),
      exported_values_getD f hf nm u a ha (f.mesh.nAt a - 1 - j) (by omega), meshStep_scale_eq f s ref m' ret h]
    have := centre_scale_neg f.mesh s ref m' ret h a ha hf.mesh hneg (j : Int)
    rw [this]
    have e : ((f.mesh.nAt a - 1 - j : Nat) : Int) = (f.mesh.nAt a : Int) - 1 - (j : Int) := by omega
    rw [e]

/-- **In-place calls on a mesh without subregions are accepted** (so the two theorems above are
not vacuous and the history really moves the mesh): a translation by a vector of the right
length, and a scaling by non-zero factors about a reference point of the right length. -/
theorem inplace_accepted (f : XFld α) (hf : f.WF) (hsub : f.mesh.subs = []) :
    (∀ v : List Rat, v.length = f.mesh.ndim → ∃ m', T.stepM f.mesh (.translate v true) = .ok (m', m')) ∧
    (∀ (s : T.Factor) (ref : Option (List Rat)), s.okFor f.mesh.ndim = true →
      (refOf f.mesh.region ref).length = f.mesh.ndim → (∀ a, a < f.mesh.ndim → s.at a ≠ 0) →
      ∃ m', T.stepM f.mesh (.scale s ref true) = .ok (m', m')) :=
  ⟨fun v hv => translate_accepted f.mesh hf.mesh hsub v hv,
   fun s ref h1 h2 h3 => scale_accepted f.mesh hf.mesh hsub s ref h1 h2 h3⟩

/-- **Round trip after a history**: export after any sequence of in-place changes of the mesh,
then import: the region is the CURRENT one (corners, names, units, tolerance), cell counts,
component count, every value, dtype tag and (for `LabelsStd` fields) labels are the field's. -/
theorem xa_roundtrip_after_history (f : XFld α) (hf : f.WF) (ops : List MeshOp) (nm : String) (u : PyArg) (hu : u ≠ .other) :
    ∃ xa g, exportAfter f ops (.str nm) u = .ok xa ∧ fromXarray (.dataArray xa) = .ok g ∧
      g.mesh.region = (f.run ops).mesh.region ∧ g.mesh.n = f.mesh.n ∧ g.nvdim = f.nvdim ∧
      g.data.shape = f.data.shape ∧ (∀ i, inRange f.data.shape i = true → g.data.get i = f.data.get i) ∧
      g.dtype = f.dtype ∧ (LabelsStd f → g.vdims = f.vdims) := by
  have h := run_same f hf ops
  obtain ⟨xa, g, h1, h2, h3, h4, h5, h6, h7, -, h9, h10⟩ := xa_roundtrip (f.run ops) (h.wf hf) nm u hu
  refine ⟨xa, g, h1, h2, h3, by rw [h4, h.frame.n], by rw [h5, h.nvdim], by rw [h6, h.data], ?_, by rw [h9, h.dtype], ?_⟩
  · intro i hi
    have := h7 i (by rw [h.data]; exact hi)
    rw [this, h.data]
  · intro hl
    have hl' : LabelsStd (f.run ops) := by
      unfold LabelsStd at hl ⊢
      rw [h.nvdim, h.vdims]; exact hl
    rw [h10 hl', h.vdims]

/-! ## What the importer returns is well-formed; import ∘ export is the identity on it -/

/-- **Every field `from_xarray` returns is well-formed** — for EVERY DataArray (no hypothesis on
coordinates or attributes): a well-formed region named after the geometric dimensions (none of
them `vdims`), positive cell counts, array of shape `(*n, nvdim)`, `nvdim ≥ 1` equal to the
attribute, labels absent or `nvdim` distinct strings none of which names an attribute of `Field`;
no boundary conditions, subregions or unit, every cell valid, the DataArray's dtype.  Hence the
hypothesis `WF` of the export theorems is discharged for imported fields.  (`hdef`: when the
DataArray has no label coordinate the constructor's default labels `x, y, z, v0, …` are used
unchecked; they are not attributes of `Field` — verified on the real class by the harness.) -/
theorem import_wf (xa : XA α) (g : XFld α) (h : fromXarray (.dataArray xa) = .ok g)
    (hdef : xa.vdimsCoord = none → ∀ k l, Fld.defaultVdims k = some l → l.any FieldAttrs.has = false) :
    g.WF ∧ g.mesh.region.dims = (geo xa).map Axis.name ∧ g.mesh.bc = "" ∧ g.mesh.subs = [] ∧
    xa.attrs.nvdim = some (.int g.nvdim) ∧ g.dtype = xa.dtype ∧ g.unit = none ∧
    g.valid = NDA.const g.mesh.n true :=
  fromXA_wf xa g h hdef

/-- **Import ∘ export is the identity on imported fields**: for every DataArray the importer
accepts, exporting the result and importing again returns the same mesh (exactly: region, cell
counts, no bc, no subregions), component count, values, dtype tag, unit, validity and — when the
imported field is a labelled vector or an unlabelled scalar field — labels and mapping. -/
theorem import_export_import (xa : XA α) (g : XFld α) (h : fromXarray (.dataArray xa) = .ok g)
    (hdef : xa.vdimsCoord = none → ∀ k l, Fld.defaultVdims k = some l → l.any FieldAttrs.has = false)
    (nm : String) (u : PyArg) :
    ∃ g', fromXarray (.dataArray (exported g nm u)) = .ok g' ∧ g'.mesh = g.mesh ∧ g'.nvdim = g.nvdim ∧
      g'.data.shape = g.data.shape ∧ (∀ i, inRange g.data.shape i = true → g'.data.get i = g.data.get i) ∧
      g'.dtype = g.dtype ∧ g'.unit = g.unit ∧ g'.valid = g.valid ∧
      (LabelsStd g → g'.vdims = g.vdims ∧ g'.vmap = defaultVmap g.nvdim g.mesh.region.dims g.vdims) := by
  obtain ⟨hw, -, hbc, hsub, -, -, hun, hva⟩ := fromXA_wf xa g h hdef
  obtain ⟨g', hg', hm, hk, hd, hv, ht, hu', hva', hvm⟩ :=
    fromXA_likeExport hw (likeExport_exported hw nm u) (fun hc => by cases hc)
  rw [meshAfter_export hw] at hm
  refine ⟨g', hg', ?_, hk, hd.1, fun i hi => hd.2 i (hd.1 ▸ hi), ht, by rw [hu', hun], by rw [hva', hva], ?_⟩
  · rw [hm]
    cases hgm : g.mesh with
    | mk r n bc subs =>
      rw [hgm] at hbc hsub
      simp only at hbc hsub
      rw [hbc, hsub]
  · intro hl
    have := (vdimsAfter_eq_iff hw).mpr hl
    exact ⟨by rw [hv, this], by rw [hvm, this]⟩

/-- **Constructor-built fields are well-formed** (the hypothesis `WF` of the export theorems,
discharged): `Region(p1, p2, dims, units)`, `Mesh(region, n, bc)`, an array accepted by
`_as_array`, labels accepted by the `vdims` setter, `nvdim ≥ 1`, no dimension called `vdims`. -/
theorem wf_of_constructors (p1 p2 : List Rat) (d : List String) (units : Option (List String)) (tol : Rat)
    (r : Region) (hr : Region.mk? p1 p2 (some d) units tol = .ok r) (n : List Nat) (bc : String) (m : Mesh)
    (hm : Mesh.mkN? r n bc = .ok m) (k : Nat) (hk : 1 ≤ k) (val dat : NDA α) (hd : asArray val m.n k = .ok dat)
    (vc vd : Option (List String)) (hv : vdimsSet k vc = .ok vd) (hnovd : ¬ "vdims" ∈ d)
    (hdef : vc = none → ∀ k l, Fld.defaultVdims k = some l → l.any FieldAttrs.has = false)
    (valid : NDA Bool) (vmap : List (String × String)) (unit : Option String) (dtype : String) :
    ({ mesh := m, nvdim := k, data := dat, valid := valid, vdims := vd, vmap := vmap, unit := unit, dtype := dtype }
      : XFld α).WF := by
  obtain ⟨hri, hrd⟩ := regionMk_inv _ _ _ _ _ _ hr
  obtain ⟨hmi, hmr, -⟩ := mkN_inv r hri n bc m hm
  exact { mesh := hmi, nvdim := hk, shape := asArray_shape _ _ _ _ hd,
          novd := by show ¬ "vdims" ∈ m.region.dims; rw [hmr, hrd]; exact hnovd,
          labels := vdimsSet_inv k vc vd hv hdef }

end

/-! ## Non-vacuity and witnesses -/

section
attribute [local instance] exAttrs


example : exF.WF := exF_wf
example : exS.WF := exS_wf
example : LabelsStd exF ∧ LabelsStd exS := by unfold LabelsStd; decide
/-- the exported coordinates of the 3-d example: x has 3 centres, the single-cell axis y one -/
example : ((exported exF "field" .none).axes.map Axis.values) = [[-1/2, 1/2, 3/2], [1/4], [5/8, 7/8], [0, 1]] := by
  decide +kernel
example : (exported exF "field" .none).dims = ["x", "y", "z", "vdims"] := by decide +kernel
/-- round trip of the 3-d example: same mesh apart from bc -/
example : (fromXarray (.dataArray (exported exF "field" .none))).toOption.map (fun g => (g.mesh, g.vdims, g.data.toList))
    = some ({ exF.mesh with bc := "" }, some ["a", "b"], exF.data.toList) := by decide +kernel
/-- `exS` meets the hypothesis of `xa_rebuild` with everything removed … -/
example : ∀ a, a < exS.mesh.ndim → 2 ≤ exS.mesh.nAt a := by decide
example : (fromXarray (.dataArray (eraseGeom true true true (exported exS "s" .none)))).toOption.map (fun g => g.mesh)
    = some exS.mesh := by decide +kernel
/-- … while `exF` has a single-cell axis: rejected without `cell`, rebuilt with it -/
example : (fromXarray (.dataArray (eraseGeom true false false (exported exF "f" .none)))).toOption.map (fun g => g.mesh)
    = none := by decide +kernel
example : (fromXarray (.dataArray (eraseGeom false true true (exported exF "f" .none)))).toOption.map (fun g => g.mesh)
    = some { exF.mesh with bc := "" } := by decide +kernel
/-- `import_hand_built` applies to `exHand` (default index 0,1,2 on x; t = 10, 10.5; two
components): mesh from (-½, 9¾) to (2½, 10¾), 3×2 cells -/
example : ∃ g, fromXarray (.dataArray exHand) = .ok g ∧ g.mesh.region.pmin = [-1/2, 39/4] ∧
    g.mesh.region.pmax = [5/2, 43/4] ∧ g.mesh.n = [3, 2] ∧ g.vdims = some ["x", "y"] := by
  obtain ⟨g, hg, h1, h2, h3, -, -, -, -, -, h4⟩ :=
    import_hand_built exHand 2 (fun a => (geo exHand).getD a default) (by decide +kernel) (by decide)
      (fun a => [0, 10].getD a 0) (fun a => [1, 1/2].getD a 0) (fun a => [3, 2].getD a 0)
      (by decide +kernel) (by decide +kernel) (by decide) (by decide +kernel) rfl rfl rfl 2 (by decide) rfl
      (fun _ => by decide) (by decide) (fun l h => by cases h)
  refine ⟨g, hg, ?_, ?_, ?_, ?_⟩
  · rw [h1]; decide +kernel
  · rw [h2]; decide +kernel
  · rw [h3]; decide
  · rw [h4]; decide

/-- former D82 witness (regression): coordinates 0, 1 nm, 5 nm are rejected exactly like the
same coordinates in metres, of which they are a rescaling -/
example : (fromXarray (.dataArray exNm)).toOption.map (fun g => g.mesh.n) = none := by decide +kernel
example : (fromXarray (.dataArray exM)).toOption.map (fun g => g.mesh.n) = none := by decide +kernel
example : (scaleCoords (1/1000000000) exM).axes = exNm.axes := by decide +kernel
/-- hypotheses of `rejects_uneven` on the nanometre witness (spacings 1 nm and 4 nm, mean 2.5 nm) -/
example : (1 : Rat)/100000 * absR (meanDiff [0, 1/1000000000, 5/1000000000])
    < absR ((1/1000000000 - 0) - meanDiff [0, 1/1000000000, 5/1000000000]) := by
  decide +kernel
/-- an unlabelled vector field and a labelled scalar field are not `LabelsStd` -/
example : ¬ LabelsStd { exF with vdims := none } := by unfold LabelsStd; decide
example : ¬ LabelsStd { exS with vdims := some ["s"] } := by unfold LabelsStd; decide

/-! ### non-vacuity of the theorems on spacing, subsets, histories, the importer's range -/

/-- `import_hand_built_any_subset` on `exOne`: single-cell axis x = [3] with `cell = (2, ½)`,
`pmax` present, `pmin` absent: mesh from (2, 9¾) to (4, 10¾), 1×2 cells -/
example : ∃ g, fromXarray (.dataArray exOne) = .ok g ∧ g.mesh.region.pmin = [2, 39/4] ∧
    g.mesh.region.pmax = [4, 43/4] ∧ g.mesh.n = [1, 2] := by
  obtain ⟨g, hg, h1, h2, h3, -⟩ :=
    import_hand_built_any_subset exOne 2 (fun a => (geo exOne).getD a default) (by decide +kernel) (by decide)
      (fun a => [3, 10].getD a 0) (fun a => [2, 1/2].getD a 0) (fun a => [1, 2].getD a 0)
      (by decide +kernel) (by decide +kernel) (by decide) (by decide +kernel)
      (Or.inr (by decide +kernel)) (Or.inl rfl) (Or.inr (by decide +kernel)) (fun h => by cases h)
      1 (by decide) rfl (fun h => by omega) (by decide) (fun l h => by cases h)
  refine ⟨g, hg, ?_, ?_, ?_⟩
  · rw [h1]; decide +kernel
  · rw [h2]; decide +kernel
  · rw [h3]; decide

/-- a far-away copy of the uneven witness: offset 10^12 -/
example : (1 : Rat)/100000 * absR (meanDiff [0, 1, 5]) < absR (([0, 1, 5].getD (0 + 1) 0 - [0, 1, 5].getD 0 0) - meanDiff [0, 1, 5]) := by
  decide +kernel
example : ([0, 1, 5] : List Rat).map (· + 1000000000000) = [1000000000000, 1000000000001, 1000000000005] := by decide +kernel

/-- displaced interior coordinate: threshold exactly at 1e-5 of the step -/
example : evenB (tab 5 fun j => (7 : Rat) + (j : Rat) * (1/4) + (if j = 2 then 1/400000 else 0)) = true := by decide +kernel
example : evenB (tab 5 fun j => (7 : Rat) + (j : Rat) * (1/4) + (if j = 2 then 1/399999 else 0)) = false := by decide +kernel

example : (exportAfter exS exOps).toOption.map (fun xa => (xa.axes.map Axis.values, xa.attrs.pmin, xa.attrs.pmax, xa.attrs.cell))
    = some ([[-3/4, 1/4, 5/4], [99/8, 101/8]], some [-5/4, 49/4], some [7/4, 51/4], some [1, 1/4]) := by decide +kernel

example : ∃ m', T.stepM exS.mesh (.translate [1, 2] true) = .ok (m', m') := (inplace_accepted exS exS_wf rfl).1 _ rfl
example : ∃ m', T.stepM exS.mesh (.scale (.vec [-2, 1/2]) none true) = .ok (m', m') :=
  (inplace_accepted exS exS_wf rfl).2 _ _ rfl rfl (by decide +kernel)

/-- the constructor's final test is reachable: a cell larger than the region, 1e16 from the origin
(the shared `Mesh.mkCell?` has the `n >= 1` test itself since repo fix 5c501c0e was modelled there) -/
example : (Mesh.mkCell? { pmin := [10000000000000000], pmax := [10000000000000002], dims := ["x"], units := ["m"], tol := defaultTol } [10000]).toOption.map (·.n) = none := by decide +kernel
example : (mkCellNow? { pmin := [10000000000000000], pmax := [10000000000000002], dims := ["x"], units := ["m"], tol := defaultTol } [10000]).toOption.map (·.n) = none := by decide +kernel

example : Region.mk? [0, 3] [1, 1] (some ["x", "t"]) none (1/10) = .ok { pmin := [0, 1], pmax := [1, 3], dims := ["x", "t"], units := ["m", "m"], tol := 1/10 } := by decide +kernel
example : Mesh.mkN? { pmin := [0, 1], pmax := [1, 3], dims := ["x", "t"], units := ["m", "m"], tol := 1/10 } [2, 3] "" = .ok { region := { pmin := [0, 1], pmax := [1, 3], dims := ["x", "t"], units := ["m", "m"], tol := 1/10 }, n := [2, 3], bc := "", subs := [] } := by decide +kernel


/-- the importer accepts `exHand` (hypothesis of `import_wf` / `import_export_import`) -/
example : (fromXarray (.dataArray exHand)).toOption.isSome = true := by decide +kernel

/-- the hypothesis `hdef` of `import_wf` / `import_export_import` / `wf_of_constructors` holds
for the sample attribute set, whose attribute names do occur as labels in `exReserved` -/
example : ∀ k l, Fld.defaultVdims k = some l → l.any FieldAttrs.has = false := exAttrs_defaults
example : FieldAttrs.has "mesh" = true ∧ (fromXarray (.dataArray exReserved)).toOption.isSome = false := by decide +kernel
example : ∃ g, fromXarray (.dataArray exHand) = .ok g ∧ g.WF := by
  have hs : (fromXarray (.dataArray exHand)).toOption.isSome = true := by decide +kernel
  cases h : fromXarray (.dataArray exHand) with
  | error e => rw [h] at hs; cases hs
  | ok g => exact ⟨g, rfl, (import_wf exHand g h (fun _ => exAttrs_defaults)).1⟩

/-- descending coordinates: rejected without `cell` (`exDesc` minus its attributes), accepted
unreordered with complete attributes — the result is the one for the ascending coordinates -/
example : (fromXarray (.dataArray (eraseGeom true true true exDesc))).toOption.isSome = false := by decide +kernel
example : checkSpacing exDesc = .ok () ∧ checkSpacing (setCoordVals (fun _ => [1, 2, 3]) exDesc) = .ok () := by decide +kernel
example : (fromXarray (.dataArray exDesc)).toOption.map (fun g => (g.mesh.region.pmin, g.mesh.n, g.data.toList))
    = some ([1/2], [3], [0, 10, 20]) := by decide +kernel

/-- displaced last coordinate, `n = 3`, step 1: `e = 2/99999` is exactly on the threshold
(`|e|/2 = 1e-5·(1 + e/2)`), a slightly larger displacement is rejected -/
example : evenB (tab 3 fun j => (100 : Rat) + (j : Rat) * 1 + (if j = 3 - 1 then 2/99999 else 0)) = true := by decide +kernel
example : evenB (tab 3 fun j => (100 : Rat) + (j : Rat) * 1 + (if j = 3 - 1 then 2/99998 else 0)) = false := by decide +kernel

end

end DFV.C17
