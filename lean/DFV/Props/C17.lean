import DFV.Lemmas.C17Examples
import DFV.Lemmas.C17Examples2
import DFV.Lemmas.C17Spacing
import DFV.Lemmas.C17Attrs
import DFV.Lemmas.C17Fast
import DFV.Lemmas.C17Idem
import DFV.Lemmas.C17Bare
import DFV.Props.C01
/-!
# C17 — xarray export/import is lossless and uses cell centres as coordinates

Property theorems about the model of `Field.to_xarray` / `Field.from_xarray`
(`DFV/Model/C17.lean`).  Number of dimensions, corners, cell counts, dimension names, units,
tolerance factor, component count, labels, dtype tag and the values themselves (any type `α`:
the code only moves them) are universally quantified; so is the set of attribute names of
`Field` the `vdims` setter tests labels against (`[FieldAttrs]`), and the history of in-place
`field.mesh.translate/scale` calls before an export (`MeshOp` lists, by induction).  `f.WF` is
what the constructors of `Region`, `Mesh`, `Field` guarantee (plus: no spatial dimension is
called `vdims`): proved of constructor-built fields (`wf_of_constructors`), of everything the
importer returns (`import_wf`) and kept by every in-place history (`inplace_history_wf`); the
driver evaluates the same predicate on every real field of the correspondence run.
-/
namespace DFV.C17
open DFV

section
variable [FieldAttrs] {α : Type}

/-! ## Export -/

/-- **Coordinates are the cell centres, with the region's units.**  Axis `a` of the exported
DataArray is called like the region's dimension `a`, has one coordinate per cell, coordinate
`j` is the centre `pmin + (j+½)·cell` of cell `j` (the `centreAx` of C01), and its `units`
attribute is the region's unit on that axis. -/
theorem export_coords (f : XFld α) (hf : f.WF) (nm : String) (u : PyArg) (hu : u ≠ .other) :
    ∃ xa, toXarray f (.str nm) u = .ok xa ∧
      ∀ a, a < f.mesh.ndim →
        xa.axes.getD a default =
          { name := f.mesh.region.dims.getD a "", size := f.mesh.nAt a,
            coord := some { vals := tab (f.mesh.nAt a) fun j => f.mesh.centreAx a (j : Int),
                            units := some (f.mesh.region.units.getD a "") } } := by
  refine ⟨exported f nm u, ?_, fun a ha => exported_axis f hf nm u a ha⟩
  unfold toXarray
  simp only [hu, if_false]

omit [FieldAttrs] in
/-- **Every coordinate lies strictly inside its own cell** and the mesh maps it back to the
index it came from (`Mesh.point2index` per axis, C01): the exported coordinates select
exactly the cells they label. -/
theorem export_coords_index (m : Mesh) (hm : m.Inv) (a : Nat) (ha : a < m.ndim) (j : Nat) (hj : j < m.nAt a) :
    m.region.lo a + (j : Rat) * m.cellAt a < m.centreAx a (j : Int) ∧
    m.centreAx a (j : Int) < m.region.lo a + ((j : Rat) + 1) * m.cellAt a ∧
    m.indexAx a (m.centreAx a (j : Int)) = j := by
  have hc := cellAt_pos m hm a ha
  refine ⟨?_, ?_, C01.roundtrip_axis m a j hj (hm.1.2.2.2.2.2 a ha)⟩
  · unfold Mesh.centreAx; push_cast; linarith
  · unfold Mesh.centreAx; push_cast; linarith

/-- **Layout of the export**: dimensions = the region's (plus `vdims` exactly for vector
fields), the label coordinate lists the component labels, the attributes carry unit, cell
size, corners, component count (a Python int) and tolerance factor, the data are the field
array (component axis squeezed for scalar fields), name and dtype as given. -/
theorem export_layout (f : XFld α) (hf : f.WF) (nm : String) (u : PyArg) :
    (exported f nm u).dims = f.mesh.region.dims ++ (if 1 < f.nvdim then ["vdims"] else []) ∧
    (exported f nm u).vdimsCoord = (if 1 < f.nvdim then f.vdims else none) ∧
    (exported f nm u).attrs = { units := exportUnit u f.unit, cell := some f.mesh.cell,
                                pmin := some f.mesh.region.pmin, pmax := some f.mesh.region.pmax,
                                nvdim := some (.int f.nvdim), tol := some f.mesh.region.tol } ∧
    (1 < f.nvdim → (exported f nm u).data = f.data) ∧
    (f.nvdim = 1 → (exported f nm u).data.shape = f.mesh.n ∧
      ∀ i, (exported f nm u).data.get i = f.data.get (i ++ [0])) ∧
    (exported f nm u).name = nm ∧ (exported f nm u).dtype = f.dtype := by
  refine ⟨?_, rfl, rfl, ?_, ?_, rfl, rfl⟩
  · unfold XA.dims exported exportAxes
    simp only [List.map_append, map_tab]
    congr 1
    · exact tab_getD_self _ _
    · split <;> rfl
  · intro h; unfold exported exportData; simp only [h, if_true]
  · intro h
    have h1 : ¬ (1 < f.nvdim) := by omega
    have e : (exported f nm u).data = ⟨f.data.shape.dropLast, fun i => f.data.get (i ++ [0])⟩ := by
      show exportData f = _
      unfold exportData; rw [if_neg h1]
    rw [e]
    exact ⟨by show f.data.shape.dropLast = _; rw [hf.shape, List.dropLast_concat], fun _ => rfl⟩

omit [FieldAttrs] in
/-- the attribute `units` is the `unit` argument if it is a non-empty string, else the field's -/
theorem export_unit (s : String) (fu : Option String) :
    exportUnit (.str s) fu = (if s = "" then fu else some s) ∧ exportUnit .none fu = fu := ⟨rfl, rfl⟩

omit [FieldAttrs] in
/-- non-string `name` (also `None`) or non-string `unit` → `TypeError` -/
theorem export_rejects_bad_args (f : XFld α) (name unit : PyArg) (h : (∀ s, name ≠ .str s) ∨ unit = .other) :
    toXarray f name unit = .error .type := by
  unfold toXarray
  cases name with
  | str s => rcases h with h | h
             · exact absurd rfl (h s)
             · simp [h]
  | none => rfl
  | other => rfl

omit [FieldAttrs] in
/-- **The export succeeds exactly on string arguments**: `to_xarray(name, unit)` returns a
DataArray iff `name` is a string and `unit` is a string or `None` — whatever the field. -/
theorem export_ok_iff (f : XFld α) (name unit : PyArg) :
    (∃ xa, toXarray f name unit = .ok xa) ↔ (∃ s, name = .str s) ∧ unit ≠ .other := by
  constructor
  · rintro ⟨xa, h⟩
    cases name with
    | none => cases h
    | other => cases h
    | str s =>
      refine ⟨⟨s, rfl⟩, ?_⟩
      intro hu
      rw [export_rejects_bad_args f (.str s) unit (Or.inr hu)] at h
      cases h
  · rintro ⟨⟨s, rfl⟩, hu⟩
    exact ⟨exported f s unit, by unfold toXarray; simp only [hu, if_false]⟩

/-! ## Import of an export -/

/-- **Round trip.**  For every well-formed field, any name and unit argument: exporting and
importing succeeds and returns a field on the same region (corners, dimension names, units,
tolerance factor) with the same cell counts, component count, array shape, the same value at
every cell and component (hence the same flattened content), the same dtype tag — and the
same labels, provided the field is a labelled vector field or an unlabelled scalar field
(`LabelsStd`; see `xa_roundtrip_labels_iff`). -/
theorem xa_roundtrip (f : XFld α) (hf : f.WF) (nm : String) (u : PyArg) (hu : u ≠ .other) :
    ∃ xa g, toXarray f (.str nm) u = .ok xa ∧ fromXarray (.dataArray xa) = .ok g ∧
      g.mesh.region = f.mesh.region ∧ g.mesh.n = f.mesh.n ∧ g.nvdim = f.nvdim ∧
      g.data.shape = f.data.shape ∧ (∀ i, inRange f.data.shape i = true → g.data.get i = f.data.get i) ∧
      g.data.toList = f.data.toList ∧ g.dtype = f.dtype ∧ (LabelsStd f → g.vdims = f.vdims) := by
  obtain ⟨g, hg, hm, hk, hd, hv, ht, -⟩ :=
    fromXA_likeExport hf (likeExport_exported hf nm u) (fun h => by cases h)
  rw [meshAfter_export hf] at hm
  refine ⟨exported f nm u, g, ?_, hg, by rw [hm], by rw [hm], hk, hd.1, fun i hi => hd.2 i (hd.1 ▸ hi), ?_, ht, ?_⟩
  · unfold toXarray; simp only [hu, if_false]
  · apply hd.toList_eq
    intro x hx
    rw [hd.1, hf.shape, List.mem_append] at hx
    rcases hx with hx | hx
    · obtain ⟨a, ha, rfl⟩ := n_mem hf x hx
      exact hf.mesh.2.2 a ha
    · simp at hx; rw [hx]; exact hf.nvdim
  · intro hl; rw [hv]; exact (vdimsAfter_eq_iff hf).mpr hl

/-- **Exactly which labels survive.**  The imported field has the labels of the original if
and only if the original is a vector field with labels or a scalar field without: a vector
field WITHOUT labels comes back with the default labels, a scalar field WITH a label comes
back without (the exporter writes the label coordinate only for `nvdim > 1`, the importer
applies the constructor's defaults). -/
theorem xa_roundtrip_labels_iff (f : XFld α) (hf : f.WF) (nm : String) (u : PyArg) (g : XFld α)
    (hg : fromXarray (.dataArray (exported f nm u)) = .ok g) : g.vdims = f.vdims ↔ LabelsStd f := by
  obtain ⟨g', hg', -, -, -, hv, -⟩ :=
    fromXA_likeExport hf (likeExport_exported hf nm u) (fun h => by cases h)
  have : g = g' := by
    have h1 : fromXA (exported f nm u) = .ok g := hg
    rw [hg'] at h1; cases h1; rfl
  rw [this, hv]
  exact vdimsAfter_eq_iff hf

/-- the unlabelled vector field, explicitly: it comes back labelled `x,y(,z)` / `v0,v1,…` -/
theorem xa_roundtrip_unlabelled (f : XFld α) (hf : f.WF) (nm : String) (u : PyArg) (h1 : 1 < f.nvdim)
    (hn : f.vdims = none) :
    ∃ g, fromXarray (.dataArray (exported f nm u)) = .ok g ∧ g.vdims = Fld.defaultVdims f.nvdim ∧ g.vdims ≠ f.vdims := by
  obtain ⟨g, hg, -, -, -, hv, -⟩ :=
    fromXA_likeExport hf (likeExport_exported hf nm u) (fun h => by cases h)
  have hv' : g.vdims = Fld.defaultVdims f.nvdim := by
    rw [hv]; unfold vdimsAfter; simp only [h1, if_true, hn]
  refine ⟨g, hg, hv', ?_⟩
  rw [hv, hn]
  exact vdimsAfter_ne_none h1

/-- what `from_xarray` does not restore (none of it is in the property's list): the imported
field has no unit, every cell valid, the default component-to-axis mapping, no boundary
conditions and no subregions — whatever the exported field had. -/
theorem xa_not_restored (f : XFld α) (hf : f.WF) (nm : String) (u : PyArg) (g : XFld α)
    (hg : fromXarray (.dataArray (exported f nm u)) = .ok g) :
    g.unit = none ∧ g.valid = NDA.const f.mesh.n true ∧ g.mesh.bc = "" ∧ g.mesh.subs = [] ∧
    g.vmap = defaultVmap f.nvdim f.mesh.region.dims g.vdims := by
  obtain ⟨g', hg', hm, -, -, hv, -, hu, hva, hvm⟩ :=
    fromXA_likeExport hf (likeExport_exported hf nm u) (fun h => by cases h)
  have : g = g' := by
    have h1 : fromXA (exported f nm u) = .ok g := hg
    rw [hg'] at h1; cases h1; rfl
  subst this
  refine ⟨hu, hva, by rw [hm]; rfl, by rw [hm]; rfl, by rw [hvm, hv]⟩

/-! ## Import without the geometric attributes -/

/-- **Rebuild from the coordinates.**  Remove ANY subset of `cell` / `pmin` / `pmax` from an
exported DataArray (`c p q` say which).  If `cell` is removed, every axis must have at least
two cells.  Then the importer rebuilds exactly the original region (in ℚ: outermost centre
∓ half the mean spacing = the original corners) and cell counts, and values, labels and dtype
tag are as in `xa_roundtrip`. -/
theorem xa_rebuild (f : XFld α) (hf : f.WF) (nm : String) (u : PyArg) (c p q : Bool)
    (hc : c = true → ∀ a, a < f.mesh.ndim → 2 ≤ f.mesh.nAt a) :
    ∃ g, fromXarray (.dataArray (eraseGeom c p q (exported f nm u))) = .ok g ∧
      g.mesh.region = f.mesh.region ∧ g.mesh.n = f.mesh.n ∧ g.nvdim = f.nvdim ∧
      g.data.shape = f.data.shape ∧ (∀ i, inRange f.data.shape i = true → g.data.get i = f.data.get i) ∧
      g.dtype = f.dtype ∧ (LabelsStd f → g.vdims = f.vdims) := by
  obtain ⟨g, hg, hm, hk, hd, hv, ht, -⟩ :=
    fromXA_likeExport hf ((likeExport_exported hf nm u).eraseGeom c p q) hc
  rw [meshAfter_export hf] at hm
  exact ⟨g, hg, by rw [hm], by rw [hm], hk, hd.1, fun i hi => hd.2 i (hd.1 ▸ hi), ht,
    fun hl => by rw [hv]; exact (vdimsAfter_eq_iff hf).mpr hl⟩

/-- **Defaults for the remaining attributes.**  With `tolerance_factor` removed as well the
region gets the default factor (the binary64 `1e-12`); with the `units` attribute removed
from the coordinate of at least one axis (`sel` picks the dimensions) every axis gets the
default unit `m`; corners, names and cell counts are rebuilt as before. -/
theorem xa_rebuild_defaults (f : XFld α) (hf : f.WF) (nm : String) (u : PyArg) (c p q : Bool)
    (hc : c = true → ∀ a, a < f.mesh.ndim → 2 ≤ f.mesh.nAt a) (sel : String → Bool) :
    ∃ g, fromXarray (.dataArray (eraseUnits sel (eraseTol (eraseGeom c p q (exported f nm u))))) = .ok g ∧
      g.mesh.region.pmin = f.mesh.region.pmin ∧ g.mesh.region.pmax = f.mesh.region.pmax ∧
      g.mesh.region.dims = f.mesh.region.dims ∧ g.mesh.n = f.mesh.n ∧ g.mesh.region.tol = defaultTol ∧
      ((∃ a, a < f.mesh.ndim ∧ sel (f.mesh.region.dims.getD a "") = true) →
        g.mesh.region.units = List.replicate f.mesh.ndim "m") ∧
      ((∀ a, a < f.mesh.ndim → sel (f.mesh.region.dims.getD a "") = false) →
        g.mesh.region.units = f.mesh.region.units) := by
  obtain ⟨g, hg, hm, -⟩ :=
    fromXA_likeExport hf ((((likeExport_exported hf nm u).eraseGeom c p q).eraseTol).eraseUnits sel) hc
  refine ⟨g, hg, by rw [hm]; rfl, by rw [hm]; rfl, by rw [hm]; rfl, by rw [hm]; rfl, by rw [hm]; rfl, ?_, ?_⟩
  · rintro ⟨a, ha, hs⟩
    rw [hm]
    show unitsAfter f.mesh.ndim _ = _
    exact unitsAfter_erased _ _ a ha (by simp only [hs, if_true])
  · intro hs
    rw [hm]
    show unitsAfter f.mesh.ndim _ = _
    rw [← unitsAfter_export hf]
    unfold unitsAfter
    have : (tab f.mesh.ndim fun a => if sel (f.mesh.region.dims.getD a "") = true then none else uoExport f a)
        = tab f.mesh.ndim (uoExport f) := tab_congr _ _ _ fun a ha => by simp only [hs a ha, Bool.false_eq_true, if_false]
    rw [this]
    congr 1
    apply tab_congr
    intro a ha
    simp only [hs a ha, Bool.false_eq_true, if_false]

omit [FieldAttrs] in
/-- **Rebuild from coordinates, ANY DataArray** (hand-built, not necessarily exported): if the
geometric axes have distinct names and evenly spaced coordinates `v0, v0+h, …` with `h > 0`
and at least two coordinates each, and `cell`, `pmin`, `pmax` are all absent, the geometry
steps of the importer succeed and the mesh reaches exactly half a step beyond the outermost
coordinates, with one cell per coordinate, the axes' names, and the tolerance factor of the
attribute (default `1e-12`). -/
theorem rebuild_from_coords (xa : XA α) (d : Nat) (G : Nat → Axis) (hgeo : geo xa = tab d G) (hd : 0 < d)
    (v0 h : Nat → Rat) (n : Nat → Nat)
    (hval : ∀ a, a < d → (G a).values = tab (n a) fun j => v0 a + (j : Rat) * h a)
    (hh : ∀ a, a < d → 0 < h a) (hn : ∀ a, a < d → 2 ≤ n a)
    (hnames : hasDup (tab d fun a => (G a).name) = false)
    (hcell : xa.attrs.cell = none) (hpmin : xa.attrs.pmin = none) (hpmax : xa.attrs.pmax = none)
    (hshape : ∀ x ∈ xa.data.shape.dropLast, x ≠ 1) :
    ∃ m, geometryOf xa = .ok m ∧
      m.region.pmin = (tab d fun a => v0 a - h a / 2) ∧
      m.region.pmax = (tab d fun a => v0 a + ((n a : Rat) - 1) * h a + h a / 2) ∧
      m.n = tab d n ∧ m.region.dims = (tab d fun a => (G a).name) ∧
      m.region.tol = xa.attrs.tol.getD defaultTol :=
  geometry_from_coords xa d G hgeo hd v0 h n hval hh hn hnames hcell hpmin hpmax hshape

/-- **Import of a hand-built DataArray, values included.**  Evenly spaced coordinates on
distinctly named axes (at least two each), none of `cell`/`pmin`/`pmax`, an integer `nvdim = k
≥ 1`, data of shape `(*n)` (scalar) or `(*n, k)` with the `vdims` axis last, labels absent or
`k` distinct strings: the import succeeds, the mesh spans half a step beyond the outermost
coordinates with one cell per coordinate, every value sits at its own cell and component, the
dtype tag is kept, the labels are the coordinate's or the defaults. -/
theorem import_hand_built (xa : XA α) (d : Nat) (G : Nat → Axis) (hgeo : geo xa = tab d G) (hd : 0 < d)
    (v0 h : Nat → Rat) (n : Nat → Nat)
    (hval : ∀ a, a < d → (G a).values = tab (n a) fun j => v0 a + (j : Rat) * h a)
    (hh : ∀ a, a < d → 0 < h a) (hn : ∀ a, a < d → 2 ≤ n a)
    (hnames : hasDup (tab d fun a => (G a).name) = false)
    (hcell : xa.attrs.cell = none) (hpmin : xa.attrs.pmin = none) (hpmax : xa.attrs.pmax = none)
    (k : Nat) (hk : 1 ≤ k) (hnv : xa.attrs.nvdim = some (.int k)) (hvd : 1 < k → "vdims" ∈ xa.dims)
    (hshape : xa.data.shape = tab d n ++ (if 1 < k then [k] else []))
    (hlab : ∀ l, xa.vdimsCoord = some l → l.length = k ∧ hasDup l = false ∧ l.any FieldAttrs.has = false) :
    ∃ g, fromXarray (.dataArray xa) = .ok g ∧
      g.mesh.region.pmin = (tab d fun a => v0 a - h a / 2) ∧
      g.mesh.region.pmax = (tab d fun a => v0 a + ((n a : Rat) - 1) * h a + h a / 2) ∧
      g.mesh.n = tab d n ∧ g.mesh.region.dims = (tab d fun a => (G a).name) ∧ g.nvdim = k ∧
      g.data.shape = tab d n ++ [k] ∧
      (∀ i, inRange (tab d n ++ [k]) i = true → g.data.get i = xa.data.get (if 1 < k then i else i.dropLast)) ∧
      g.dtype = xa.dtype ∧
      g.vdims = (match xa.vdimsCoord with | some l => some l | none => Fld.defaultVdims k) :=
  import_hand_built_ok xa d G hgeo hd v0 h n hval hh hn hnames hcell hpmin hpmax k hk hnv hvd hshape hlab

/-- the importer is: component-count checks, then these geometry steps, then `Field(…)` -/
theorem import_factors (xa : XA α) :
    fromXarray (.dataArray xa) =
      (checkNvdim xa.attrs.nvdim xa.dims).bind fun k => (geometryOf xa).bind fun m => fieldOf xa m k :=
  fromXA_eq xa

/-! ## Rejections -/

/-- **A single-cell axis needs the `cell` attribute** — for every DataArray: no `cell`
attribute and a geometric axis with fewer than two coordinates ⇒ error. -/
theorem xa_single_cell_needs_cell (xa : XA α) (hc : xa.attrs.cell = none) (ax : Axis) (hax : ax ∈ geo xa)
    (hl : ax.values.length ≤ 1) : ∃ e, fromXarray (.dataArray xa) = .error e :=
  fromXA_single_no_cell xa hc ax hax hl

/-- … in particular for exports: a field with a single-cell axis, `cell` removed (whatever
else is removed) is rejected, while keeping `cell` is enough (`xa_rebuild` with `c = false`
has no condition on the cell counts). -/
theorem xa_export_single_cell_rejected (f : XFld α) (hf : f.WF) (nm : String) (u : PyArg) (p q : Bool)
    (a : Nat) (ha : a < f.mesh.ndim) (h1 : f.mesh.nAt a = 1) :
    ∃ e, fromXarray (.dataArray (eraseGeom true p q (exported f nm u))) = .error e := by
  have hl := (likeExport_exported hf nm u).eraseGeom true p q
  apply fromXA_single_no_cell _ (by rw [hl.cell]; rfl) (gAxis f.mesh (uoExport f) a)
  · rw [hl.geo]
    unfold tab
    exact List.mem_map.mpr ⟨a, List.mem_range.mpr ha, rfl⟩
  · rw [gAxis_values hf a ha, ap_length, h1]

/-- not a DataArray → `TypeError` -/
theorem rejects_non_dataarray : fromXarray (PyObj.other : PyObj α) = .error .type := rfl

/-- missing component count → `KeyError` -/
theorem rejects_missing_nvdim (xa : XA α) (h : xa.attrs.nvdim = none) :
    fromXarray (.dataArray xa) = .error .key := fromXA_no_nvdim xa h

/-- component count below one → `ValueError` -/
theorem rejects_nvdim_lt_one (xa : XA α) (k : Int) (h : xa.attrs.nvdim = some (.int k)) (hk : k < 1) :
    fromXarray (.dataArray xa) = .error .value := fromXA_nvdim_lt_one xa k h hk

/-- component count that is not a Python int (a float, a numpy integer) → error -/
theorem rejects_nvdim_not_int (xa : XA α) (q : Rat) (h : xa.attrs.nvdim = some (.other q)) :
    ∃ e, fromXarray (.dataArray xa) = .error e := fromXA_nvdim_not_int xa q h

/-- vector field without a `vdims` dimension → `ValueError` -/
theorem rejects_vector_without_vdims (xa : XA α) (k : Int) (h : xa.attrs.nvdim = some (.int k)) (hk : 1 < k)
    (hd : ¬ "vdims" ∈ xa.dims) : fromXarray (.dataArray xa) = .error .value :=
  fromXA_vector_no_vdims xa k h hk hd

omit [FieldAttrs] in
/-- **The component-count checks, exactly**: `from_xarray` gets past its first block of checks
with component count `k` iff the attribute `nvdim` is the Python int `k`, `k ≥ 1`, and — for
`k > 1` — the DataArray has a dimension called `vdims`.  (Missing attribute, non-int, `< 1`,
vector without component axis: each is an error, see `rejects_*`.) -/
theorem component_count_accepted_iff (nv : Option NvAttr) (dims : List String) (k : Nat) :
    checkNvdim nv dims = .ok k ↔ (1 ≤ k ∧ nv = some (.int k) ∧ (1 < k → "vdims" ∈ dims)) := by
  constructor
  · exact checkNvdim_inv nv dims k
  · rintro ⟨hk, rfl, hvd⟩
    unfold checkNvdim
    have h1 : ¬ ((k : Int) < 1) := by omega
    have h2 : ¬ (1 < (k : Int) ∧ ¬ dims.contains "vdims" = true) := by
      rintro ⟨h3, h4⟩
      exact h4 (List.contains_iff_mem.mpr (hvd (by omega)))
    simp only [h1, h2, if_false, Int.toNat_natCast]

/-- **A label that names an attribute of `Field` is rejected** (the `hasattr` test of the
`vdims` setter), for every DataArray and whatever the set of attribute names is. -/
theorem rejects_reserved_label (xa : XA α) (l : List String) (hv : xa.vdimsCoord = some l) (c : String)
    (hc : c ∈ l) (hr : FieldAttrs.has c = true) : ∃ e, fromXarray (.dataArray xa) = .error e :=
  fromXA_reserved xa l hv c hc hr

/-- **Unevenly spaced coordinates are rejected, at every length scale**: if on some geometric
axis one spacing deviates from the mean spacing by more than `1e-5·|mean|` (a purely relative
threshold), the import fails, whatever attributes are present. -/
theorem rejects_uneven (xa : XA α) (ax : Axis) (hax : ax ∈ geo xa) (j : Nat) (hj : j + 1 < ax.values.length)
    (hdev : 1/100000 * absR (meanDiff ax.values)
              < absR ((ax.values.getD (j + 1) 0 - ax.values.getD j 0) - meanDiff ax.values)) :
    ∃ e, fromXarray (.dataArray xa) = .error e :=
  fromXA_uneven xa ax hax (evenB_false_of_dev _ j hj hdev)

omit [FieldAttrs] in
/-- **The spacing test is scale-invariant**: multiplying all coordinates by any positive
factor (metres → nanometres), or shifting them, does not change whether they count as evenly
spaced … -/
theorem spacing_test_scale_invariant (s t : Rat) (hs : 0 < s) (v : List Rat) :
    evenB (v.map (s * ·)) = evenB v ∧ evenB (v.map (· + t)) = evenB v :=
  ⟨evenB_scale s hs v, evenB_shift t v⟩

omit [FieldAttrs] in
/-- … hence the importer's spacing verdict on a DataArray is the same after a change of
length unit of its coordinates (the former blindness below `1e-8`, finding D82, is gone:
see the nanometre witness below, now rejected like its metre-scale copy). -/
theorem spacing_check_scale_invariant (s : Rat) (hs : 0 < s) (xa : XA α) :
    checkSpacing (scaleCoords s xa) = checkSpacing xa :=
  checkSpacing_scale s hs xa

/-! ## The spacing test against its specification -/

omit [FieldAttrs] in
/-- **The spacing test is its specification**: the code-shaped test (`size > 1 and not
np.allclose(np.diff(v), np.diff(v).mean(), atol=0)`, negated) accepts a coordinate exactly when
every step `v[j+1] - v[j]` lies within `1e-5·|mean step|` of the mean step — a condition on the
steps relative to the step, in which neither the position nor an absolute scale occurs. -/
theorem spacing_test_spec (v : List Rat) :
    evenB v = true ↔
      ∀ j, j + 1 < v.length →
        absR ((v.getD (j + 1) 0 - v.getD j 0) - meanDiff v) ≤ 1/100000 * absR (meanDiff v) :=
  evenB_iff_spec v

omit [FieldAttrs] in
/-- the mean step the test compares with is `(last - first)/(size - 1)` (telescoping sum) -/
theorem mean_step_formula (v : List Rat) :
    meanDiff v = (v.getD (v.length - 1) 0 - v.getD 0 0) / ((v.length - 1 : Nat) : Rat) :=
  meanDiff_eq v

omit [FieldAttrs] in
/-- **Acceptance of the spacing loop, exactly**: `from_xarray` gets past the spacing loop iff
every geometric coordinate meets the specification; otherwise it raises `ValueError`. -/
theorem spacing_accept_iff (xa : XA α) :
    (checkSpacing xa = .ok () ↔
      ∀ ax ∈ geo xa, ∀ j, j + 1 < ax.values.length →
        absR ((ax.values.getD (j + 1) 0 - ax.values.getD j 0) - meanDiff ax.values)
          ≤ 1/100000 * absR (meanDiff ax.values)) ∧
    (checkSpacing xa = .ok () ∨ checkSpacing xa = .error .value) :=
  ⟨checkSpacing_iff xa, checkSpacing_ok_or_value xa⟩

omit [FieldAttrs] in
/-- **The verdict depends on the steps only**: two coordinates of the same size with the same
steps get the same verdict, wherever they lie. -/
theorem spacing_depends_on_steps_only (v w : List Rat) (hl : v.length = w.length)
    (hs : ∀ j, j + 1 < v.length → v.getD (j + 1) 0 - v.getD j 0 = w.getD (j + 1) 0 - w.getD j 0) :
    evenB v = evenB w :=
  evenB_congr_steps v w hl hs

omit [FieldAttrs] in
/-- **Translation invariance of the acceptance test on the DataArray**: moving the coordinate of
every dimension `d` by its own offset `t d` — arbitrarily far from the origin — does not change
the verdict of the spacing loop; nor does a positive affine map `x ↦ s·x + t` of one coordinate. -/
theorem spacing_check_shift_invariant (t : String → Rat) (xa : XA α) :
    checkSpacing (shiftCoords t xa) = checkSpacing xa ∧
    ∀ (s t' : Rat), 0 < s → ∀ v : List Rat, evenB (v.map fun x => s * x + t') = evenB v :=
  ⟨checkSpacing_shift t xa, fun s t' hs v => evenB_affine s t' hs v⟩

omit [FieldAttrs] in
/-- **Evenly spaced coordinates are accepted**: if every geometric coordinate is an arithmetic
progression `v0, v0+h, …` — any origin, any step (also negative or zero), any length — the
spacing loop passes. -/
theorem accepts_even (xa : XA α) (v0 h : Axis → Rat) (n : Axis → Nat)
    (hap : ∀ ax ∈ geo xa, ax.values = tab (n ax) fun j => v0 ax + (j : Rat) * h ax) :
    checkSpacing xa = .ok () := by
  rw [checkSpacing_iff]
  intro ax hax
  rw [← evenB_iff_spec, hap ax hax]
  exact evenB_ap _ _ _

/-- **Uneven coordinates are rejected wherever they lie**: if a geometric coordinate is a copy,
moved by ANY offset `t`, of values `w` one of whose steps deviates from the mean step by more
than `1e-5·|mean|`, the import fails — the offset does not enter the condition. -/
theorem rejects_uneven_translated (xa : XA α) (ax : Axis) (hax : ax ∈ geo xa) (w : List Rat) (t : Rat)
    (hv : ax.values = w.map (· + t)) (j : Nat) (hj : j + 1 < w.length)
    (hdev : 1/100000 * absR (meanDiff w) < absR ((w.getD (j + 1) 0 - w.getD j 0) - meanDiff w)) :
    ∃ e, fromXarray (.dataArray xa) = .error e := by
  apply fromXA_uneven xa ax hax
  rw [hv, evenB_shift]
  exact evenB_false_of_dev _ j hj hdev

/-- **Exact threshold for one displaced coordinate**: evenly spaced coordinates (any origin `v0`,
any step `h`) whose interior coordinate `k` is displaced by `e` pass the spacing test iff
`|e| ≤ 1e-5·|h|`; so a DataArray with such a coordinate and `|e| > 1e-5·|h|` is rejected at
every distance from the origin and every length scale. -/
theorem displaced_coordinate_threshold (v0 h : Rat) (n k : Nat) (e : Rat) (hk0 : 0 < k) (hk : k + 1 < n) :
    (evenB (tab n fun j => v0 + (j : Rat) * h + (if j = k then e else 0)) = true ↔ absR e ≤ 1/100000 * absR h) ∧
    ∀ (xa : XA α) (ax : Axis), ax ∈ geo xa →
      ax.values = (tab n fun j => v0 + (j : Rat) * h + (if j = k then e else 0)) →
      1/100000 * absR h < absR e → ∃ err, fromXarray (.dataArray xa) = .error err := by
  refine ⟨evenB_apMoved v0 h n k e hk0 hk, ?_⟩
  intro xa ax hax hv hbig
  apply fromXA_uneven xa ax hax
  rw [hv]
  cases hb : evenB (tab n fun j => v0 + (j : Rat) * h + (if j = k then e else 0)) with
  | false => rfl
  | true =>
    have := (evenB_apMoved v0 h n k e hk0 hk).mp hb
    linarith

omit [FieldAttrs] in
/-- **Exact threshold for a displaced END coordinate** (the mean step moves with it): evenly
spaced coordinates (any origin, any step `h`, `n ≥ 3`) whose last — or first — coordinate is
displaced by `e` pass iff `|e|·(n-2)/(n-1) ≤ 1e-5·|h ± e/(n-1)|` (`+` for the last, `-` for the
first); again no dependence on the origin.  Together with `displaced_coordinate_threshold` this
settles every position of the displaced coordinate. -/
theorem displaced_end_coordinate_threshold (v0 h : Rat) (n : Nat) (e : Rat) (hn : 3 ≤ n) :
    (evenB (tab n fun j => v0 + (j : Rat) * h + (if j = n - 1 then e else 0)) = true ↔
      absR (e * ((n : Rat) - 2) / ((n : Rat) - 1)) ≤ 1/100000 * absR (h + e / ((n : Rat) - 1))) ∧
    (evenB (tab n fun j => v0 + (j : Rat) * h + (if j = 0 then e else 0)) = true ↔
      absR (e * ((n : Rat) - 2) / ((n : Rat) - 1)) ≤ 1/100000 * absR (h - e / ((n : Rat) - 1))) :=
  ⟨evenB_apMoved_last v0 h n e hn, evenB_apMoved_first v0 h n e hn⟩

/-! ## Rebuild with any subset of the geometric attributes, any DataArray -/

omit [FieldAttrs] in
/-- **Rebuild from coordinates with ANY subset of `cell`/`pmin`/`pmax` present** (hand-built
DataArray, any number of dimensions): the geometric axes have distinct names and evenly spaced
coordinates `v0, v0+h, …` (`h > 0`, at least ONE coordinate); each of the three attributes is
either absent or says what the coordinates say; if `cell` is absent every axis has at least two
coordinates.  Then the geometry steps succeed and the mesh reaches exactly half a step beyond
the outermost coordinates with one cell per coordinate — in particular for single-cell axes
whenever `cell` is present (where the code can infer nothing from the coordinates). -/
theorem rebuild_from_coords_any_subset (xa : XA α) (d : Nat) (G : Nat → Axis) (hgeo : geo xa = tab d G) (hd : 0 < d)
    (v0 h : Nat → Rat) (n : Nat → Nat)
    (hval : ∀ a, a < d → (G a).values = tab (n a) fun j => v0 a + (j : Rat) * h a)
    (hh : ∀ a, a < d → 0 < h a) (hn : ∀ a, a < d → 1 ≤ n a)
    (hnames : hasDup (tab d fun a => (G a).name) = false)
    (hcell : xa.attrs.cell = none ∨ xa.attrs.cell = some (tab d h))
    (hpmin : xa.attrs.pmin = none ∨ xa.attrs.pmin = some (tab d fun a => v0 a - h a / 2))
    (hpmax : xa.attrs.pmax = none ∨ xa.attrs.pmax = some (tab d fun a => v0 a + ((n a : Rat) - 1) * h a + h a / 2))
    (hinfer : xa.attrs.cell = none → (∀ a, a < d → 2 ≤ n a) ∧ ∀ x ∈ xa.data.shape.dropLast, x ≠ 1) :
    ∃ m, geometryOf xa = .ok m ∧
      m.region.pmin = (tab d fun a => v0 a - h a / 2) ∧
      m.region.pmax = (tab d fun a => v0 a + ((n a : Rat) - 1) * h a + h a / 2) ∧
      m.n = tab d n ∧ m.region.dims = (tab d fun a => (G a).name) ∧
      m.region.tol = xa.attrs.tol.getD defaultTol :=
  geometry_from_coords_gen xa d G hgeo hd v0 h n hval hh hn hnames ⟨hcell, hpmin, hpmax, hinfer⟩

/-- **Import of a hand-built DataArray with any subset of the geometric attributes, values
included**: as `rebuild_from_coords_any_subset`, plus an integer `nvdim = k ≥ 1`, data of shape
`(*n)` / `(*n, k)`, labels absent or `k` distinct strings.  The import succeeds; the mesh is as
stated; every value sits at its own cell and component; dtype tag and labels are kept. -/
theorem import_hand_built_any_subset (xa : XA α) (d : Nat) (G : Nat → Axis) (hgeo : geo xa = tab d G) (hd : 0 < d)
    (v0 h : Nat → Rat) (n : Nat → Nat)
    (hval : ∀ a, a < d → (G a).values = tab (n a) fun j => v0 a + (j : Rat) * h a)
    (hh : ∀ a, a < d → 0 < h a) (hn : ∀ a, a < d → 1 ≤ n a)
    (hnames : hasDup (tab d fun a => (G a).name) = false)
    (hcell : xa.attrs.cell = none ∨ xa.attrs.cell = some (tab d h))
    (hpmin : xa.attrs.pmin = none ∨ xa.attrs.pmin = some (tab d fun a => v0 a - h a / 2))
    (hpmax : xa.attrs.pmax = none ∨ xa.attrs.pmax = some (tab d fun a => v0 a + ((n a : Rat) - 1) * h a + h a / 2))
    (hinfer : xa.attrs.cell = none → ∀ a, a < d → 2 ≤ n a)
    (k : Nat) (hk : 1 ≤ k) (hnv : xa.attrs.nvdim = some (.int k)) (hvd : 1 < k → "vdims" ∈ xa.dims)
    (hshape : xa.data.shape = tab d n ++ (if 1 < k then [k] else []))
    (hlab : ∀ l, xa.vdimsCoord = some l → l.length = k ∧ hasDup l = false ∧ l.any FieldAttrs.has = false) :
    ∃ g, fromXarray (.dataArray xa) = .ok g ∧
      g.mesh.region.pmin = (tab d fun a => v0 a - h a / 2) ∧
      g.mesh.region.pmax = (tab d fun a => v0 a + ((n a : Rat) - 1) * h a + h a / 2) ∧
      g.mesh.n = tab d n ∧ g.mesh.region.dims = (tab d fun a => (G a).name) ∧ g.nvdim = k ∧
      g.data.shape = tab d n ++ [k] ∧
      (∀ i, inRange (tab d n ++ [k]) i = true → g.data.get i = xa.data.get (if 1 < k then i else i.dropLast)) ∧
      g.dtype = xa.dtype ∧
      g.vdims = (match xa.vdimsCoord with | some l => some l | none => Fld.defaultVdims k) := by
  obtain ⟨m, hm, hp1, hp2, hmn, hdims, -⟩ :=
    geometry_from_coords_gen xa d G hgeo hd v0 h n hval hh hn hnames
      ⟨hcell, hpmin, hpmax, fun hc => ⟨hinfer hc, shape_no_one d n k _ hshape (hinfer hc)⟩⟩
  obtain ⟨g, hg, hgm, hgk, hgs, hgd, hgt, hgv⟩ := import_of_geometry xa d n m hm hmn k hk hnv hvd hshape hlab
  exact ⟨g, hg, by rw [hgm]; exact hp1, by rw [hgm]; exact hp2, by rw [hgm]; exact hmn, by rw [hgm]; exact hdims,
    hgk, hgs, hgd, hgt, hgv⟩

/-- **Coordinates that do not ascend cannot be rebuilt from**: without the `cell` attribute, a
geometric axis whose last coordinate is not larger than its first (descending coordinates, or a
single one) is rejected — the inferred cell size would not be positive. -/
theorem rejects_descending_without_cell (xa : XA α) (hc : xa.attrs.cell = none) (ax : Axis) (hax : ax ∈ geo xa)
    (hd : ax.values.getD (ax.values.length - 1) 0 ≤ ax.values.getD 0 0) :
    ∃ e, fromXarray (.dataArray xa) = .error e := by
  obtain ⟨e, he⟩ := geometryOf_descending xa hc ax hax hd
  show ∃ e, fromXA xa = .error e
  rw [fromXA_eq]
  cases checkNvdim xa.attrs.nvdim xa.dims with
  | error e' => exact ⟨e', rfl⟩
  | ok k =>
    simp only [Except.bind]
    rw [he]
    exact ⟨e, rfl⟩

/-- **With `cell`, `pmin` and `pmax` all present the coordinate values are only spacing-tested,
never used**: replacing them by ANY other values that pass the spacing test (reversed, shifted,
rescaled) gives the identical result — same mesh from the attributes, same values at the same
indices.  In particular a DataArray with descending coordinates and complete attributes is
accepted and its data are NOT reordered (observation; such arrays are never produced by
`to_xarray`). -/
theorem attrs_override_coordinates (vals : String → List Rat) (xa : XA α) (c p q : List Rat)
    (hc : xa.attrs.cell = some c) (hp : xa.attrs.pmin = some p) (hq : xa.attrs.pmax = some q)
    (h1 : checkSpacing xa = .ok ()) (h2 : checkSpacing (setCoordVals vals xa) = .ok ()) :
    fromXarray (.dataArray (setCoordVals vals xa)) = fromXarray (.dataArray xa) :=
  fromXA_setCoordVals vals xa c p q hc hp hq h1 h2

/-- **Exactly when an export can be rebuilt**: with any subset `c p q` of `cell`/`pmin`/`pmax`
removed from the export of a well-formed field, the import succeeds if and only if `cell` was
kept or every axis has at least two cells — the code can infer the cell size from the
coordinates of an axis iff that axis has two of them. -/
theorem xa_rebuild_iff (f : XFld α) (hf : f.WF) (nm : String) (u : PyArg) (c p q : Bool) :
    (∃ g, fromXarray (.dataArray (eraseGeom c p q (exported f nm u))) = .ok g) ↔
      (c = true → ∀ a, a < f.mesh.ndim → 2 ≤ f.mesh.nAt a) := by
  constructor
  · rintro ⟨g, hg⟩ hc a ha
    subst hc
    by_contra hlt
    have h1 : f.mesh.nAt a = 1 := by have := hf.mesh.2.2 a ha; omega
    obtain ⟨e, he⟩ := xa_export_single_cell_rejected f hf nm u p q a ha h1
    rw [he] at hg; cases hg
  · intro hc
    obtain ⟨g, hg, -⟩ := xa_rebuild f hf nm u c p q hc
    exact ⟨g, hg⟩

/-! ## The export follows the mesh as it is now (in-place changes before the export) -/

/-- **A history of in-place changes of the mesh keeps the field well-formed**: after any
sequence of `field.mesh.translate(…, inplace=True)` / `field.mesh.scale(…, inplace=True)` calls
with ARBITRARY arguments (rejected calls change nothing) the field is well-formed, on a mesh
with the same cell counts, names, units and tolerance, with the same array, labels, unit, dtype. -/
theorem inplace_history_wf (f : XFld α) (hf : f.WF) (ops : List MeshOp) :
    (f.run ops).WF ∧ (f.run ops).mesh.n = f.mesh.n ∧ (f.run ops).mesh.region.dims = f.mesh.region.dims ∧
    (f.run ops).mesh.region.units = f.mesh.region.units ∧ (f.run ops).mesh.region.tol = f.mesh.region.tol ∧
    (f.run ops).data = f.data ∧ (f.run ops).nvdim = f.nvdim ∧ (f.run ops).vdims = f.vdims ∧
    (f.run ops).unit = f.unit ∧ (f.run ops).dtype = f.dtype := by
  have h := run_same f hf ops
  exact ⟨h.wf hf, h.frame.n, h.frame.dims, h.frame.units, h.frame.tol, h.data, h.nvdim, h.vdims, h.unit, h.dtype⟩

/-- **The exported coordinates are the cell centres of the mesh as it is at the time of the
export**: after any history of in-place changes, `to_xarray` succeeds and coordinate `j` of axis
`a` is `pmin + (j+½)·cell` of the CURRENT mesh (a function of the current geometry only), with
the region's units; the geometric attributes are the current ones; the data are untouched. -/
theorem export_after_history (f : XFld α) (hf : f.WF) (ops : List MeshOp) (nm : String) (u : PyArg) (hu : u ≠ .other) :
    ∃ xa, exportAfter f ops (.str nm) u = .ok xa ∧
      (∀ a, a < f.mesh.ndim →
        xa.axes.getD a default =
          { name := f.mesh.region.dims.getD a "", size := f.mesh.nAt a,
            coord := some { vals := tab (f.mesh.nAt a) fun j => (f.run ops).mesh.centreAx a (j : Int),
                            units := some (f.mesh.region.units.getD a "") } }) ∧
      xa.attrs.cell = some (f.run ops).mesh.cell ∧ xa.attrs.pmin = some (f.run ops).mesh.region.pmin ∧
      xa.attrs.pmax = some (f.run ops).mesh.region.pmax ∧ xa.data = exportData f ∧
      xa.vdimsCoord = (if 1 < f.nvdim then f.vdims else none) := by
  have h := run_same f hf ops
  have hw := h.wf hf
  obtain ⟨xa, hxa, hax⟩ := export_coords (f.run ops) hw nm u hu
  have hx : xa = exported (f.run ops) nm u := by
    unfold toXarray at hxa
    simp only [hu, if_false] at hxa
    injection hxa with hxa; exact hxa.symm
  refine ⟨xa, hxa, ?_, by rw [hx]; rfl, by rw [hx]; rfl, by rw [hx]; rfl, ?_, ?_⟩
  · intro a ha
    have := hax a (by rw [h.frame.ndim]; exact ha)
    rw [this, h.frame.dims, h.frame.units]
    have hn : (f.run ops).mesh.nAt a = f.mesh.nAt a := by unfold Mesh.nAt; rw [h.frame.n]
    rw [hn]
  · rw [hx]
    show exportData (f.run ops) = exportData f
    unfold exportData; rw [h.nvdim, h.data]
  · rw [hx]
    show (if 1 < (f.run ops).nvdim then (f.run ops).vdims else none) = _
    rw [h.nvdim, h.vdims]

/-- **Export commutes with an in-place translation**: if `field.mesh.translate(v, inplace=True)`
is accepted, every exported coordinate of axis `a` moves by `v[a]`; names, sizes and units stay. -/
theorem export_translate_commutes (f : XFld α) (hf : f.WF) (v : List Rat) (m' ret : Mesh)
    (h : T.stepM f.mesh (.translate v true) = .ok (m', ret)) (nm : String) (u : PyArg)
    (a : Nat) (ha : a < f.mesh.ndim) :
    ((exported (f.meshStep (.translate v)) nm u).axes.getD a default).name = ((exported f nm u).axes.getD a default).name ∧
    ((exported (f.meshStep (.translate v)) nm u).axes.getD a default).units = ((exported f nm u).axes.getD a default).units ∧
    ((exported (f.meshStep (.translate v)) nm u).axes.getD a default).values.length = f.mesh.nAt a ∧
    ∀ j, j < f.mesh.nAt a →
      ((exported (f.meshStep (.translate v)) nm u).axes.getD a default).values.getD j 0
        = ((exported f nm u).axes.getD a default).values.getD j 0 + v.getD a 0 := by
  have hs := meshStep_same f hf (.translate v)
  have hw := hs.wf hf
  have ha' : a < (f.meshStep (.translate v)).mesh.ndim := by rw [hs.frame.ndim]; exact ha
  have hn : (f.meshStep (.translate v)).mesh.nAt a = f.mesh.nAt a := by unfold Mesh.nAt; rw [hs.frame.n]
  refine ⟨?_, ?_, ?_, ?_⟩
  · rw [exported_axis _ hw nm u a ha', exported_axis f hf nm u a ha, hs.frame.dims]
  · rw [exported_axis _ hw nm u a ha', exported_axis f hf nm u a ha, hs.frame.units]; rfl
  · rw [exported_values _ hw nm u a ha', tab_length, hn]
  · intro j hj
    rw [exported_values_getD _ hw nm u a ha' j (by rw [hn]; exact hj), exported_values_getD f hf nm u a ha j hj,
      meshStep_translate_eq f v m' ret h]
    exact centre_translate f.mesh v m' ret h a ha _

/-- **Export commutes with an in-place scaling**: if `field.mesh.scale(factor, reference_point,
inplace=True)` is accepted, exported coordinate `c` of axis `a` becomes `ref + s·(c - ref)` for a
positive factor `s` on that axis (`ref` = the reference point, default the region's centre); for
a negative factor the same holds with the order of the cells along the axis reversed. -/
theorem export_scale_commutes (f : XFld α) (hf : f.WF) (s : T.Factor) (ref : Option (List Rat)) (m' ret : Mesh)
    (h : T.stepM f.mesh (.scale s ref true) = .ok (m', ret)) (nm : String) (u : PyArg)
    (a : Nat) (ha : a < f.mesh.ndim) :
    ((exported (f.meshStep (.scale s ref)) nm u).axes.getD a default).values.length = f.mesh.nAt a ∧
    (0 < s.at a → ∀ j, j < f.mesh.nAt a →
      ((exported (f.meshStep (.scale s ref)) nm u).axes.getD a default).values.getD j 0
        = (refOf f.mesh.region ref).getD a 0 + s.at a *
            (((exported f nm u).axes.getD a default).values.getD j 0 - (refOf f.mesh.region ref).getD a 0)) ∧
    (s.at a < 0 → ∀ j, j < f.mesh.nAt a →
      ((exported (f.meshStep (.scale s ref)) nm u).axes.getD a default).values.getD j 0
        = (refOf f.mesh.region ref).getD a 0 + s.at a *
            (((exported f nm u).axes.getD a default).values.getD (f.mesh.nAt a - 1 - j) 0
              - (refOf f.mesh.region ref).getD a 0)) := by
  have hs := meshStep_same f hf (.scale s ref)
  have hw := hs.wf hf
  have ha' : a < (f.meshStep (.scale s ref)).mesh.ndim := by rw [hs.frame.ndim]; exact ha
  have hn : (f.meshStep (.scale s ref)).mesh.nAt a = f.mesh.nAt a := by unfold Mesh.nAt; rw [hs.frame.n]
  refine ⟨?_, ?_, ?_⟩
  · rw [exported_values _ hw nm u a ha', tab_length, hn]
  · intro hpos j hj
    rw [exported_values_getD _ hw nm u a ha' j (by rw [hn]; exact hj), exported_values_getD f hf nm u a ha j hj,
      meshStep_scale_eq f s ref m' ret h]
    exact centre_scale_pos f.mesh s ref m' ret h a ha hf.mesh hpos _
  · intro hneg j hj
    rw [exported_values_getD _ hw nm u a ha' j (by rw [hn]; exact hj),
      exported_values_getD f hf nm u a ha (f.mesh.nAt a - 1 - j) (by omega), meshStep_scale_eq f s ref m' ret h]
    have := centre_scale_neg f.mesh s ref m' ret h a ha hf.mesh hneg (j : Int)
    rw [this]
    have e : ((f.mesh.nAt a - 1 - j : Nat) : Int) = (f.mesh.nAt a : Int) - 1 - (j : Int) := by omega
    rw [e]

/-- **In-place calls on a mesh without subregions are accepted** (so the two theorems above are
not vacuous and the history really moves the mesh): a translation by a vector of the right
length, and a scaling by non-zero factors about a reference point of the right length. -/
theorem inplace_accepted (f : XFld α) (hf : f.WF) (hsub : f.mesh.subs = []) :
    (∀ v : List Rat, v.length = f.mesh.ndim → ∃ m', T.stepM f.mesh (.translate v true) = .ok (m', m')) ∧
    (∀ (s : T.Factor) (ref : Option (List Rat)), s.okFor f.mesh.ndim = true →
      (refOf f.mesh.region ref).length = f.mesh.ndim → (∀ a, a < f.mesh.ndim → s.at a ≠ 0) →
      ∃ m', T.stepM f.mesh (.scale s ref true) = .ok (m', m')) :=
  ⟨fun v hv => translate_accepted f.mesh hf.mesh hsub v hv,
   fun s ref h1 h2 h3 => scale_accepted f.mesh hf.mesh hsub s ref h1 h2 h3⟩

/-- **Round trip after a history**: export after any sequence of in-place changes of the mesh,
then import: the region is the CURRENT one (corners, names, units, tolerance), cell counts,
component count, every value, dtype tag and (for `LabelsStd` fields) labels are the field's. -/
theorem xa_roundtrip_after_history (f : XFld α) (hf : f.WF) (ops : List MeshOp) (nm : String) (u : PyArg) (hu : u ≠ .other) :
    ∃ xa g, exportAfter f ops (.str nm) u = .ok xa ∧ fromXarray (.dataArray xa) = .ok g ∧
      g.mesh.region = (f.run ops).mesh.region ∧ g.mesh.n = f.mesh.n ∧ g.nvdim = f.nvdim ∧
      g.data.shape = f.data.shape ∧ (∀ i, inRange f.data.shape i = true → g.data.get i = f.data.get i) ∧
      g.dtype = f.dtype ∧ (LabelsStd f → g.vdims = f.vdims) := by
  have h := run_same f hf ops
  obtain ⟨xa, g, h1, h2, h3, h4, h5, h6, h7, -, h9, h10⟩ := xa_roundtrip (f.run ops) (h.wf hf) nm u hu
  refine ⟨xa, g, h1, h2, h3, by rw [h4, h.frame.n], by rw [h5, h.nvdim], by rw [h6, h.data], ?_, by rw [h9, h.dtype], ?_⟩
  · intro i hi
    have := h7 i (by rw [h.data]; exact hi)
    rw [this, h.data]
  · intro hl
    have hl' : LabelsStd (f.run ops) := by
      unfold LabelsStd at hl ⊢
      rw [h.nvdim, h.vdims]; exact hl
    rw [h10 hl', h.vdims]

/-! ## What the importer returns is well-formed; import ∘ export is the identity on it -/

/-- **Every field `from_xarray` returns is well-formed** — for EVERY DataArray (no hypothesis on
coordinates or attributes): a well-formed region named after the geometric dimensions (none of
them `vdims`), positive cell counts, array of shape `(*n, nvdim)`, `nvdim ≥ 1` equal to the
attribute, labels absent or `nvdim` distinct strings none of which names an attribute of `Field`;
no boundary conditions, subregions or unit, every cell valid, the DataArray's dtype.  Hence the
hypothesis `WF` of the export theorems is discharged for imported fields.  (`hdef`: when the
DataArray has no label coordinate the constructor's default labels `x, y, z, v0, …` are used
unchecked; they are not attributes of `Field` — verified on the real class by the harness.) -/
theorem import_wf (xa : XA α) (g : XFld α) (h : fromXarray (.dataArray xa) = .ok g)
    (hdef : xa.vdimsCoord = none → ∀ k l, Fld.defaultVdims k = some l → l.any FieldAttrs.has = false) :
    g.WF ∧ g.mesh.region.dims = (geo xa).map Axis.name ∧ g.mesh.bc = "" ∧ g.mesh.subs = [] ∧
    xa.attrs.nvdim = some (.int g.nvdim) ∧ g.dtype = xa.dtype ∧ g.unit = none ∧
    g.valid = NDA.const g.mesh.n true :=
  fromXA_wf xa g h hdef

/-- **Import ∘ export is the identity on imported fields**: for every DataArray the importer
accepts, exporting the result and importing again returns the same mesh (exactly: region, cell
counts, no bc, no subregions), component count, values, dtype tag, unit, validity and — when the
imported field is a labelled vector or an unlabelled scalar field — labels and mapping. -/
theorem import_export_import (xa : XA α) (g : XFld α) (h : fromXarray (.dataArray xa) = .ok g)
    (hdef : xa.vdimsCoord = none → ∀ k l, Fld.defaultVdims k = some l → l.any FieldAttrs.has = false)
    (nm : String) (u : PyArg) :
    ∃ g', fromXarray (.dataArray (exported g nm u)) = .ok g' ∧ g'.mesh = g.mesh ∧ g'.nvdim = g.nvdim ∧
      g'.data.shape = g.data.shape ∧ (∀ i, inRange g.data.shape i = true → g'.data.get i = g.data.get i) ∧
      g'.dtype = g.dtype ∧ g'.unit = g.unit ∧ g'.valid = g.valid ∧
      (LabelsStd g → g'.vdims = g.vdims ∧ g'.vmap = defaultVmap g.nvdim g.mesh.region.dims g.vdims) := by
  obtain ⟨hw, -, hbc, hsub, -, -, hun, hva⟩ := fromXA_wf xa g h hdef
  obtain ⟨g', hg', hm, hk, hd, hv, ht, hu', hva', hvm⟩ :=
    fromXA_likeExport hw (likeExport_exported hw nm u) (fun hc => by cases hc)
  rw [meshAfter_export hw] at hm
  refine ⟨g', hg', ?_, hk, hd.1, fun i hi => hd.2 i (hd.1 ▸ hi), ht, by rw [hu', hun], by rw [hva', hva], ?_⟩
  · rw [hm]
    cases hgm : g.mesh with
    | mk r n bc subs =>
      rw [hgm] at hbc hsub
      simp only at hbc hsub
      rw [hbc, hsub]
  · intro hl
    have := (vdimsAfter_eq_iff hw).mpr hl
    exact ⟨by rw [hv, this], by rw [hvm, this]⟩

/-- **Constructor-built fields are well-formed** (the hypothesis `WF` of the export theorems,
discharged): `Region(p1, p2, dims, units)`, `Mesh(region, n, bc)`, an array accepted by
`_as_array`, labels accepted by the `vdims` setter, `nvdim ≥ 1`, no dimension called `vdims`. -/
theorem wf_of_constructors (p1 p2 : List Rat) (d : List String) (units : Option (List String)) (tol : Rat)
    (r : Region) (hr : Region.mk? p1 p2 (some d) units tol = .ok r) (n : List Nat) (bc : String) (m : Mesh)
    (hm : Mesh.mkN? r n bc = .ok m) (k : Nat) (hk : 1 ≤ k) (val dat : NDA α) (hd : asArray val m.n k = .ok dat)
    (vc vd : Option (List String)) (hv : vdimsSet k vc = .ok vd) (hnovd : ¬ "vdims" ∈ d)
    (hdef : vc = none → ∀ k l, Fld.defaultVdims k = some l → l.any FieldAttrs.has = false)
    (valid : NDA Bool) (vmap : List (String × String)) (unit : Option String) (dtype : String) :
    ({ mesh := m, nvdim := k, data := dat, valid := valid, vdims := vd, vmap := vmap, unit := unit, dtype := dtype }
      : XFld α).WF := by
  obtain ⟨hri, hrd⟩ := regionMk_inv _ _ _ _ _ _ hr
  obtain ⟨hmi, hmr, -⟩ := mkN_inv r hri n bc m hm
  exact { mesh := hmi, nvdim := hk, shape := asArray_shape _ _ _ _ hd,
          novd := by show ¬ "vdims" ∈ m.region.dims; rw [hmr, hrd]; exact hnovd,
          labels := vdimsSet_inv k vc vd hv hdef }

end

/-! ## Second extension round: exact acceptance of the importer, idempotence, more on the spacing test -/

section
variable [FieldAttrs] {α : Type}

/-! ### what the correspondence run executes -/

/-- **The linear-time forms the driver runs are the functions the theorems are about**: the
one-pass `np.diff`, its mean and the spacing test built from them equal the pointwise
definitions for every coordinate, and the importer that uses them equals `fromXarray` on every
argument — so DataArrays with axes of thousands of cells are compared against the very model
these theorems describe. -/
theorem fast_import_eq (o : PyObj α) (v : List Rat) :
    fromXarrayFast o = fromXarray o ∧
    diffsL v = diffs v ∧ meanDiffL v = meanDiff v ∧ evenFast v = evenB v :=
  ⟨fromXarrayFast_eq o, diffsL_eq v, meanDiffL_eq v, evenFast_eq v⟩

/-! ### the spacing test -/

omit [FieldAttrs] in
/-- **Invariance under ANY non-zero factor** — also a negative one (the same axis pointing the
other way): the verdict on `s·v` is the verdict on `v`, for one coordinate and for the spacing loop
over a DataArray; the factor `0` (all coordinates collapsed onto one point) always passes. -/
theorem spacing_test_any_factor (s : Rat) (v : List Rat) (xa : XA α) :
    (s ≠ 0 → evenB (v.map (s * ·)) = evenB v) ∧
    (s ≠ 0 → checkSpacing (scaleCoords s xa) = checkSpacing xa) ∧
    evenB (v.map ((0 : Rat) * ·)) = true :=
  ⟨fun hs => evenB_scale_ne s hs v, fun hs => checkSpacing_scale_ne s hs xa, evenB_scale_zero v⟩

omit [FieldAttrs] in
/-- **Reversal invariance**: a coordinate read backwards gets the same verdict (descending
coordinates are "evenly spaced" exactly when their ascending copy is). -/
theorem spacing_test_reversal_invariant (v : List Rat) : evenB v.reverse = evenB v := evenB_reverse v

omit [FieldAttrs] in
/-- **What accepted coordinates look like.**  If a coordinate passes the spacing test then, with
`m` its mean step: every step `d` satisfies `(1 − 1e-5)·m² ≤ d·m ≤ (1 + 1e-5)·m²` (i.e. `d/m` lies
in `[1 − 1e-5, 1 + 1e-5]`); hence the coordinate is constant (`m = 0`), strictly increasing
(`m > 0`) or strictly decreasing (`m < 0`) — never a mixture. -/
theorem spacing_accepted_monotone (v : List Rat) (h : evenB v = true) :
    (∀ j, j + 1 < v.length →
      (1 - 1/100000) * (meanDiff v * meanDiff v) ≤ (v.getD (j + 1) 0 - v.getD j 0) * meanDiff v ∧
      (v.getD (j + 1) 0 - v.getD j 0) * meanDiff v ≤ (1 + 1/100000) * (meanDiff v * meanDiff v)) ∧
    (meanDiff v = 0 → ∀ j, j + 1 < v.length → v.getD (j + 1) 0 = v.getD j 0) ∧
    (0 < meanDiff v → ∀ j, j + 1 < v.length → v.getD j 0 < v.getD (j + 1) 0) ∧
    (meanDiff v < 0 → ∀ j, j + 1 < v.length → v.getD (j + 1) 0 < v.getD j 0) := by
  have hs := (evenB_iff_spec v).mp h
  exact ⟨fun j hj => evenSpec_step_bounds v hs j hj, evenSpec_monotone v hs⟩

omit [FieldAttrs] in
/-- any two coordinates pass the spacing test (their single step is the mean step) — equal or
descending ones too; what happens to those is decided later, by `Region` and `Mesh` -/
theorem spacing_two_coordinates (a b : Rat) : evenB [a, b] = true := evenB_two a b

/-! ### exact acceptance of each step, with the refusal classes -/

omit [FieldAttrs] in
/-- **The component-count checks, refusal classes**: `KeyError` iff the attribute is absent;
`TypeError` iff it is a non-int number `≥ 1`; `ValueError` iff it is a number `< 1` (int or not) or
an int `> 1` without a `vdims` dimension.  (Acceptance: `component_count_accepted_iff`.) -/
theorem component_count_refusal_iff (nv : Option NvAttr) (dims : List String) :
    (checkNvdim nv dims = .error .key ↔ nv = none) ∧
    (checkNvdim nv dims = .error .type ↔ ∃ q, nv = some (.other q) ∧ 1 ≤ q) ∧
    (checkNvdim nv dims = .error .value ↔
      (∃ q, nv = some (.other q) ∧ q < 1) ∨
      (∃ k : Int, nv = some (.int k) ∧ (k < 1 ∨ (1 < k ∧ ¬ "vdims" ∈ dims)))) :=
  checkNvdim_err_iff nv dims

omit [FieldAttrs] in
/-- **Cell sizes: taken or inferred, exactly.**  The step succeeds iff the `cell` attribute is
present, or `xa.values.shape[:-1]` contains no 1 and every geometric coordinate has at least two
values; the result is the attribute, else the mean step of every coordinate (`cellUsed`).
Refusals: `KeyError` iff `cell` is absent and `xa.values.shape[:-1]` contains a 1 (for a scalar
field that slice does NOT include the last geometric axis); `ValueError` iff `cell` is absent,
there is no such 1, and some coordinate has fewer than two values (the NaN cell `Mesh` refuses).
So a single-cell axis always requires the attribute. -/
theorem cell_inference_iff (xa : XA α) (c : List Rat) :
    (cellOf xa = .ok c ↔
      (xa.attrs.cell = none → (∀ x ∈ xa.data.shape.dropLast, x ≠ 1) ∧ ∀ ax ∈ geo xa, 2 ≤ ax.values.length) ∧
      c = cellUsed xa) ∧
    (cellOf xa = .error .key ↔ xa.attrs.cell = none ∧ 1 ∈ xa.data.shape.dropLast) ∧
    (cellOf xa = .error .value ↔ xa.attrs.cell = none ∧ ¬ 1 ∈ xa.data.shape.dropLast ∧
      ∃ ax ∈ geo xa, ax.values.length ≤ 1) :=
  ⟨cellOf_ok_iff xa c, (cellOf_err_iff xa).1, (cellOf_err_iff xa).2⟩

omit [FieldAttrs] in
/-- **Corners: taken or inferred, exactly.**  Each corner is the attribute if present (whatever
the coordinates say), else first coordinate − half a cell (`pmin`) / last coordinate + half a cell
(`pmax`), axis by axis over `zip(dims, cell)`; inferring fails (`IndexError`) iff some paired
coordinate has no value at all. -/
theorem corner_inference_iff (xa : XA α) (p : List Rat) :
    (p1Of xa (cellUsed xa) = .ok p ↔
      (xa.attrs.pmin = none → ∀ q ∈ List.zip (geo xa) (cellUsed xa), q.1.values ≠ []) ∧ p = p1Used xa) ∧
    (p2Of xa (cellUsed xa) = .ok p ↔
      (xa.attrs.pmax = none → ∀ q ∈ List.zip (geo xa) (cellUsed xa), q.1.values ≠ []) ∧ p = p2Used xa) ∧
    (∀ e, p1Of xa (cellUsed xa) = .error e → e = .index) ∧
    (xa.attrs.pmin = none → p1Used xa = List.zipWith (fun a c => a.values.getD 0 0 - c / 2) (geo xa) (cellUsed xa)) ∧
    (xa.attrs.pmax = none →
      p2Used xa = List.zipWith (fun a c => a.values.getD (a.values.length - 1) 0 + c / 2) (geo xa) (cellUsed xa)) ∧
    (∀ q, xa.attrs.pmin = some q → p1Used xa = q) ∧ (∀ q, xa.attrs.pmax = some q → p2Used xa = q) := by
  refine ⟨p1Of_ok_iff xa p, p2Of_ok_iff xa p, fun e h => p1Of_err xa e h, ?_, ?_, ?_, ?_⟩
  · intro h; unfold p1Used; rw [h]
  · intro h; unfold p2Used; rw [h]
  · intro q h; unfold p1Used; rw [h]
  · intro q h; unfold p2Used; rw [h]

omit [FieldAttrs] in
/-- **The geometry steps of `from_xarray`, from the inputs alone — acceptance and result.**
For EVERY DataArray (hand-built, attributes complete, partly or wholly absent, consistent with the
coordinates or not, any number of dimensions, single-cell axes included) the geometry steps build
mesh `m` if and only if
* every geometric coordinate meets the spacing specification;
* `cell` is present, or it can be inferred (no 1 in `xa.values.shape[:-1]`, two values per coordinate);
* `pmin`, `pmax` are present or every coordinate has a value;
* the corners used (`p1Used`, `p2Used`: attribute, else outermost coordinate ∓ half a cell) have
  the same non-zero length, one entry per geometric dimension, the dimension names are distinct
  and the corners differ on every axis — the acceptance condition of `Region` (C01);
* the cell sizes used (`cellUsed`: attribute, else mean steps) are one positive number per axis,
  none exceeds its edge by more than the comparison tolerance, every edge is within
  `min(cell)/1000` of a whole number `≥ 1` of cells — the acceptance condition of `Mesh` (C01);
and `m` is the mesh on `regionUsed` (componentwise min / max of the corners used, the dimension
names, the coordinates' units if ALL have them else `m`, tolerance factor = attribute or `1e-12`)
whose counts are those whole numbers, without boundary conditions or subregions.  Attributes that
are present override the coordinates; no hypothesis on any intermediate result. -/
theorem import_geometry_ok_iff (xa : XA α) (m : Mesh) :
    geometryOf xa = .ok m ↔
      (∀ ax ∈ geo xa, ∀ j, j + 1 < ax.values.length →
        absR ((ax.values.getD (j + 1) 0 - ax.values.getD j 0) - meanDiff ax.values)
          ≤ 1/100000 * absR (meanDiff ax.values)) ∧
      (xa.attrs.cell = none → (∀ x ∈ xa.data.shape.dropLast, x ≠ 1) ∧ ∀ ax ∈ geo xa, 2 ≤ ax.values.length) ∧
      (xa.attrs.pmin = none → ∀ q ∈ List.zip (geo xa) (cellUsed xa), q.1.values ≠ []) ∧
      (xa.attrs.pmax = none → ∀ q ∈ List.zip (geo xa) (cellUsed xa), q.1.values ≠ []) ∧
      ((p1Used xa).length = (p2Used xa).length ∧ (p1Used xa).length ≠ 0 ∧ (geo xa).length = (p1Used xa).length ∧
        hasDup ((geo xa).map Axis.name) = false ∧
        ∀ a, a < (p1Used xa).length → (p1Used xa).getD a 0 ≠ (p2Used xa).getD a 0) ∧
      ((cellUsed xa).length = (p1Used xa).length ∧ (∀ c ∈ cellUsed xa, 0 < c) ∧
        ∀ a, a < (p1Used xa).length → (cellUsed xa).getD a 0 - (regionUsed xa).edge a
          ≤ C01.band (regionUsed xa) ((regionUsed xa).lo a + (cellUsed xa).getD a 0)) ∧
      m.region = { regionUsed xa with tol := xa.attrs.tol.getD defaultTol } ∧ m.bc = "" ∧ m.subs = [] ∧
      m.n.length = (p1Used xa).length ∧
      ∀ a, a < (p1Used xa).length → 1 ≤ m.nAt a ∧
        |(regionUsed xa).edge a - (m.nAt a : Rat) * (cellUsed xa).getD a 0| ≤ listMin (cellUsed xa) / 1000 :=
  geometryOf_ok_iff_inputs xa m

omit [FieldAttrs] in
/-- the region of `import_geometry_ok_iff`, spelled out: corners = componentwise min / max of the
corners used, names = the geometric dimensions, units = the coordinates' if every geometric
coordinate has a `units` attribute and `m` on every axis otherwise, default tolerance factor -/
theorem import_region_formula (xa : XA α) :
    (regionUsed xa).pmin = (tab (p1Used xa).length fun a => min ((p1Used xa).getD a 0) ((p2Used xa).getD a 0)) ∧
    (regionUsed xa).pmax = (tab (p1Used xa).length fun a => max ((p1Used xa).getD a 0) ((p2Used xa).getD a 0)) ∧
    (regionUsed xa).dims = (geo xa).map Axis.name ∧ (regionUsed xa).tol = defaultTol ∧
    ((∀ ax ∈ geo xa, ax.units ≠ none) → (regionUsed xa).units = (geo xa).map fun a => a.units.getD "") ∧
    ((∃ ax ∈ geo xa, ax.units = none) → (regionUsed xa).units = List.replicate (geo xa).length "m") := by
  refine ⟨rfl, rfl, rfl, rfl, ?_, ?_⟩
  · intro h
    show unitsUsed xa = _
    unfold unitsUsed
    have : (geo xa).any (fun a => a.units.isNone) = false := by
      rw [List.any_eq_false]
      intro ax hax
      have := h ax hax
      cases hu : ax.units with
      | none => exact absurd hu this
      | some u => simp
    rw [this]; rfl
  · rintro ⟨ax, hax, hu⟩
    show unitsUsed xa = _
    unfold unitsUsed
    have : (geo xa).any (fun a => a.units.isNone) = true :=
      List.any_eq_true.mpr ⟨ax, hax, by rw [hu]; rfl⟩
    rw [this]; rfl

/-- **`from_xarray` accepts exactly …**: a DataArray is imported iff for some `k` and `m` the
component-count checks pass with `k` (`component_count_accepted_iff`), the geometry steps build `m`
(`import_geometry_ok_iff`), the data fit: they have the mesh's shape (scalar field) or last axis
`k` and broadcast to `(*m.n, k)` by numpy's rule (`DataFits`), and the label coordinate is absent,
empty, or `k` distinct strings none of which names an attribute of `Field` (`LabelsOk`).  Every
condition is on the input. -/
theorem import_ok_iff (xa : XA α) :
    (∃ g, fromXarray (.dataArray xa) = .ok g) ↔
      ∃ (k : Nat) (m : Mesh), (1 ≤ k ∧ xa.attrs.nvdim = some (.int (k : Int)) ∧ (1 < k → "vdims" ∈ xa.dims)) ∧
        geometryOf xa = .ok m ∧ DataFits (valOf xa k).shape m.n k ∧ LabelsOk k xa.vdimsCoord :=
  fromXA_ok_iff xa

omit [FieldAttrs] in
/-- the two conditions of `import_ok_iff` on data and labels are the acceptance conditions of
`_as_array` and of the `vdims` setter, index level: shapes broadcast iff aligned at the last axis
every source length is 1 or the target's -/
theorem data_fits_iff (val : NDA α) (n : List Nat) (k : Nat) :
    ((∃ d, asArray val n k = .ok d) ↔
      (k = 1 ∧ val.shape = n) ∨
      (val.shape.getLast? = some k ∧ val.shape.length ≤ (n ++ [k]).length ∧
        ∀ a, a < val.shape.length →
          val.shape.getD a 0 = 1 ∨ val.shape.getD a 0 = (n ++ [k]).getD (a + ((n ++ [k]).length - val.shape.length)) 0)) :=
  asArray_ok_iff val n k

/-- … and the labels: the `vdims` setter accepts a label coordinate iff it is absent, empty, or
`k` distinct strings none of which names an attribute of `Field` -/
theorem labels_ok_iff (k : Nat) (vc : Option (List String)) :
    (∃ vd, vdimsSet k vc = .ok vd) ↔
      ∀ l, vc = some l → l = [] ∨ (l.length = k ∧ hasDup l = false ∧ l.any FieldAttrs.has = false) :=
  vdimsSet_ok_iff k vc

/-- **The mesh and the values of EVERY accepted DataArray.**  Whenever `from_xarray` returns a
field `g`: its region is `regionUsed` with the tolerance factor of the attribute (default
`1e-12`), its counts are the whole numbers of cells the edges hold, `nvdim` is the attribute; and
if the data have the mesh's shape (no broadcasting) every value sits at its own cell and component —
whatever the attributes say about the geometry and wherever the coordinates lie. -/
theorem import_result_formula (xa : XA α) (g : XFld α) (h : fromXarray (.dataArray xa) = .ok g) :
    g.mesh.region = { regionUsed xa with tol := xa.attrs.tol.getD defaultTol } ∧
    g.mesh.n.length = (p1Used xa).length ∧
    (∀ a, a < (p1Used xa).length → 1 ≤ g.mesh.nAt a ∧
      |(regionUsed xa).edge a - (g.mesh.nAt a : Rat) * (cellUsed xa).getD a 0| ≤ listMin (cellUsed xa) / 1000) ∧
    xa.attrs.nvdim = some (.int g.nvdim) ∧
    (xa.data.shape = g.mesh.n ++ (if 1 < g.nvdim then [g.nvdim] else []) →
      g.data.shape = g.mesh.n ++ [g.nvdim] ∧
      ∀ i, inRange (g.mesh.n ++ [g.nvdim]) i = true →
        g.data.get i = xa.data.get (if 1 < g.nvdim then i else i.dropLast)) := by
  have h' : fromXA xa = .ok g := h
  have hv := fromXA_values xa g h'
  rw [fromXA_eq, bind_ok_iff] at h'
  obtain ⟨k, h1, h'⟩ := h'
  rw [bind_ok_iff] at h'
  obtain ⟨m, h2, h3⟩ := h'
  have hm : g.mesh = m ∧ g.nvdim = k := by
    unfold fieldOf at h3
    rw [bind_ok_iff] at h3
    obtain ⟨d1, -, h3⟩ := h3
    rw [bind_ok_iff] at h3
    obtain ⟨d, -, h3⟩ := h3
    rw [bind_ok_iff] at h3
    obtain ⟨vd, -, h3⟩ := h3
    injection h3 with h3
    rw [← h3]
    exact ⟨rfl, rfl⟩
  obtain ⟨-, -, -, -, -, -, c1, -, -, c4, c5⟩ := (geometryOf_ok_iff_inputs xa m).mp h2
  rw [hm.1, hm.2]
  refine ⟨c1, c4, c5, (checkNvdim_inv _ _ _ h1).2.1, ?_⟩
  rw [← hm.1, ← hm.2]
  exact hv

/-- **The values of EVERY accepted DataArray, broadcasting included.**  Entry `i` of the imported
array is the entry of `np.expand_dims(xa.values, -1)` (scalar) / `xa.values` (vector) that numpy's
broadcasting into `(*n, nvdim)` reads: aligned at the last axis, the entry with the same index on
every source axis of the target's length and index 0 on every source axis of length 1 (attributes
that contradict the data shape are accepted when this is possible: one value fills n cells); a
scalar array that has exactly the mesh's shape after the expansion is taken as it is. -/
theorem import_values_formula (xa : XA α) (g : XFld α) (h : fromXarray (.dataArray xa) = .ok g) :
    g.data.shape = g.mesh.n ++ [g.nvdim] ∧
    ∀ i, inRange (g.mesh.n ++ [g.nvdim]) i = true →
      g.data.get i =
        if g.nvdim = 1 ∧ (valOf xa g.nvdim).shape = g.mesh.n then (valOf xa g.nvdim).get i.dropLast
        else (valOf xa g.nvdim).get
          (tab (valOf xa g.nvdim).shape.length fun a =>
            if (valOf xa g.nvdim).shape.getD a 0 = 1 then 0
            else i.getD (a + ((g.mesh.n ++ [g.nvdim]).length - (valOf xa g.nvdim).shape.length)) 0) :=
  fromXA_values_gen xa g h

omit [FieldAttrs] in
/-- **The attribute-free class, exactly** ("importing a DataArray that lacks the geometric
attributes rebuilds the mesh from its evenly spaced coordinates, half a cell beyond the outermost
centres").  A DataArray with none of `cell`, `pmin`, `pmax` — hand-built or not, any number of
dimensions — gets through the geometry steps iff it has at least one geometric dimension, the
dimension names are distinct, `xa.values.shape[:-1]` contains no 1, and every geometric coordinate
has at least two values, meets the spacing specification and ascends (first < last).  The mesh is
then `bareMesh`: exactly one cell per coordinate value, from `first − mean/2` to `last + mean/2`
on every axis, for ANY accepted coordinates — evenly spaced within the tolerance of the test, not
only exact progressions (the mean step is `(last − first)/(N − 1)`, so the edge `last − first +
mean` is exactly `N` mean steps and the count is `N` whatever the individual steps are). -/
theorem attribute_free_import_iff (xa : XA α) (hc : xa.attrs.cell = none) (hp : xa.attrs.pmin = none)
    (hq : xa.attrs.pmax = none) (m : Mesh) :
    geometryOf xa = .ok m ↔
      (geo xa ≠ [] ∧ hasDup ((geo xa).map Axis.name) = false ∧ (∀ x ∈ xa.data.shape.dropLast, x ≠ 1) ∧
        ∀ ax ∈ geo xa, 2 ≤ ax.values.length ∧
          (∀ j, j + 1 < ax.values.length →
            absR ((ax.values.getD (j + 1) 0 - ax.values.getD j 0) - meanDiff ax.values)
              ≤ 1/100000 * absR (meanDiff ax.values)) ∧
          ax.values.getD 0 0 < ax.values.getD (ax.values.length - 1) 0) ∧
      m = bareMesh xa :=
  bare_geometry_iff xa ⟨hc, hp, hq⟩ m

omit [FieldAttrs] in
/-- `bareMesh`, field by field: corners half a mean step beyond the outermost coordinates, one
cell per coordinate value, the dimensions' names, units as in `import_region_formula`, tolerance
factor = attribute or default, no boundary conditions, no subregions -/
theorem attribute_free_mesh (xa : XA α) :
    (bareMesh xa).region.pmin = ((geo xa).map fun a => a.values.getD 0 0 - meanDiff a.values / 2) ∧
    (bareMesh xa).region.pmax = ((geo xa).map fun a => a.values.getD (a.values.length - 1) 0 + meanDiff a.values / 2) ∧
    (bareMesh xa).n = ((geo xa).map fun a => a.values.length) ∧
    (bareMesh xa).region.dims = (geo xa).map Axis.name ∧ (bareMesh xa).region.units = unitsUsed xa ∧
    (bareMesh xa).region.tol = xa.attrs.tol.getD defaultTol ∧ (bareMesh xa).bc = "" ∧ (bareMesh xa).subs = [] :=
  ⟨rfl, rfl, rfl, rfl, rfl, rfl, rfl, rfl⟩

/-! ### the export as input of the inference; idempotence -/

/-- **What the importer's inference finds in an export**: for every well-formed field the
exported coordinates pass the spacing loop; on every axis the first coordinate minus half a cell is
`pmin`, the last plus half a cell is `pmax`, and from two cells on the mean step IS the cell size —
the three facts the attribute-free reconstruction rests on. -/
theorem export_feeds_inference (f : XFld α) (hf : f.WF) (nm : String) (u : PyArg) :
    checkSpacing (exported f nm u) = .ok () ∧
    ∀ a, a < f.mesh.ndim →
      ((exported f nm u).axes.getD a default).values.getD 0 0 - f.mesh.cellAt a / 2 = f.mesh.region.lo a ∧
      ((exported f nm u).axes.getD a default).values.getD
          (((exported f nm u).axes.getD a default).values.length - 1) 0 + f.mesh.cellAt a / 2 = f.mesh.region.hi a ∧
      (2 ≤ f.mesh.nAt a → meanDiff ((exported f nm u).axes.getD a default).values = f.mesh.cellAt a) :=
  exported_inference f hf nm u

/-- **Export ∘ import ∘ export = export, up to the `units` attribute**: import the export of a
well-formed field and export the result with any name / unit arguments: same axes (names, sizes,
every coordinate value, coordinate units), same geometric attributes, component count and
tolerance factor, same data at every index, same dtype tag; the label coordinate is the original's
exactly for `LabelsStd` fields (else the defaults the importer assigned); only the attribute
`units` is lost (`from_xarray` does not restore the field's unit) unless given again. -/
theorem export_import_export_idem (f : XFld α) (hf : f.WF) (nm : String) (u : PyArg) (nm' : String) (u' : PyArg) :
    ∃ g, fromXarray (.dataArray (exported f nm u)) = .ok g ∧
      (exported g nm' u').axes = (exported f nm u).axes ∧
      (exported g nm' u').attrs = { (exported f nm u).attrs with units := exportUnit u' none } ∧
      (LabelsStd f → (exported g nm' u').vdimsCoord = (exported f nm u).vdimsCoord) ∧
      (exported g nm' u').data.shape = (exported f nm u).data.shape ∧
      (∀ i, inRange (exported f nm u).data.shape i = true →
        (exported g nm' u').data.get i = (exported f nm u).data.get i) ∧
      (exported g nm' u').dtype = (exported f nm u).dtype ∧ (exported g nm' u').name = nm' := by
  obtain ⟨g, h1, h2, h3, -, h5, h6, h7, h8⟩ := export_import_export f hf nm u nm' u'
  exact ⟨g, h1, h2, h3, h5, h6.1, fun i hi => h6.2 i (h6.1 ▸ hi), h7, h8⟩

/-- **The round trip succeeds exactly when no spatial dimension is called `vdims`**: for a field
that meets every other clause of well-formedness (mesh invariant, `nvdim ≥ 1`, array shape, legal
labels), `from_xarray(to_xarray(f))` returns a field iff `vdims` is not among the region's
dimension names — the importer takes every dimension of that name for the component axis and
`Region` then finds fewer names than corner entries.  So `WF`'s clause `novd` is sharp. -/
theorem roundtrip_iff_no_vdims_dim (f : XFld α) (hm : f.mesh.Inv) (hk : 1 ≤ f.nvdim)
    (hs : f.data.shape = f.mesh.n ++ [f.nvdim])
    (hl : ∀ l, f.vdims = some l → l.length = f.nvdim ∧ hasDup l = false ∧ l.any FieldAttrs.has = false)
    (nm : String) (u : PyArg) :
    (∃ g, fromXarray (.dataArray (exported f nm u)) = .ok g) ↔ ¬ "vdims" ∈ f.mesh.region.dims := by
  constructor
  · rintro ⟨g, hg⟩ hv
    have hg' : fromXA (exported f nm u) = .ok g := hg
    rw [fromXA_eq, bind_ok_iff] at hg'
    obtain ⟨k, -, hg'⟩ := hg'
    rw [bind_ok_iff] at hg'
    obtain ⟨m, h2, -⟩ := hg'
    exact vdims_dim_not_importable f hm hv nm u m h2
  · intro hv
    have hf : f.WF := { mesh := hm, nvdim := hk, shape := hs, novd := hv, labels := hl }
    obtain ⟨g, hg, -⟩ := fromXA_likeExport hf (likeExport_exported hf nm u) (fun h => by cases h)
    exact ⟨g, hg⟩

omit [FieldAttrs] in
/-- **Exactly which in-place calls are accepted** on a mesh without subregions (the hypothesis
`h` of `export_translate_commutes` / `export_scale_commutes`, from the inputs): a translation iff the
vector has one entry per axis; a scaling iff the factor is a number or one per axis, the reference
point (default: the centre) has one entry per axis, and no factor is zero. -/
theorem inplace_accepted_iff (m : Mesh) (hm : m.Inv) (hsub : m.subs = []) :
    (∀ v : List Rat, (∃ m' ret, T.stepM m (.translate v true) = .ok (m', ret)) ↔ v.length = m.ndim) ∧
    (∀ (s : T.Factor) (ref : Option (List Rat)), (∃ m' ret, T.stepM m (.scale s ref true) = .ok (m', ret)) ↔
      (s.okFor m.ndim = true ∧ (refOf m.region ref).length = m.ndim ∧ ∀ a, a < m.ndim → s.at a ≠ 0)) :=
  inplace_accepted_iff' m hm hsub

end

/-! ## Non-vacuity and witnesses -/

section
attribute [local instance] exAttrs


example : exF.WF := exF_wf
example : exS.WF := exS_wf
example : LabelsStd exF ∧ LabelsStd exS := by unfold LabelsStd; decide
/-- the exported coordinates of the 3-d example: x has 3 centres, the single-cell axis y one -/
example : ((exported exF "field" .none).axes.map Axis.values) = [[-1/2, 1/2, 3/2], [1/4], [5/8, 7/8], [0, 1]] := by
  decide +kernel
example : (exported exF "field" .none).dims = ["x", "y", "z", "vdims"] := by decide +kernel
/-- round trip of the 3-d example: same mesh apart from bc -/
example : (fromXarray (.dataArray (exported exF "field" .none))).toOption.map (fun g => (g.mesh, g.vdims, g.data.toList))
    = some ({ exF.mesh with bc := "" }, some ["a", "b"], exF.data.toList) := by decide +kernel
/-- `exS` meets the hypothesis of `xa_rebuild` with everything removed … -/
example : ∀ a, a < exS.mesh.ndim → 2 ≤ exS.mesh.nAt a := by decide
example : (fromXarray (.dataArray (eraseGeom true true true (exported exS "s" .none)))).toOption.map (fun g => g.mesh)
    = some exS.mesh := by decide +kernel
/-- … while `exF` has a single-cell axis: rejected without `cell`, rebuilt with it -/
example : (fromXarray (.dataArray (eraseGeom true false false (exported exF "f" .none)))).toOption.map (fun g => g.mesh)
    = none := by decide +kernel
example : (fromXarray (.dataArray (eraseGeom false true true (exported exF "f" .none)))).toOption.map (fun g => g.mesh)
    = some { exF.mesh with bc := "" } := by decide +kernel
/-- `import_hand_built` applies to `exHand` (default index 0,1,2 on x; t = 10, 10.5; two
components): mesh from (-½, 9¾) to (2½, 10¾), 3×2 cells -/
example : ∃ g, fromXarray (.dataArray exHand) = .ok g ∧ g.mesh.region.pmin = [-1/2, 39/4] ∧
    g.mesh.region.pmax = [5/2, 43/4] ∧ g.mesh.n = [3, 2] ∧ g.vdims = some ["x", "y"] := by
  obtain ⟨g, hg, h1, h2, h3, -, -, -, -, -, h4⟩ :=
    import_hand_built exHand 2 (fun a => (geo exHand).getD a default) (by decide +kernel) (by decide)
      (fun a => [0, 10].getD a 0) (fun a => [1, 1/2].getD a 0) (fun a => [3, 2].getD a 0)
      (by decide +kernel) (by decide +kernel) (by decide) (by decide +kernel) rfl rfl rfl 2 (by decide) rfl
      (fun _ => by decide) (by decide) (fun l h => by cases h)
  refine ⟨g, hg, ?_, ?_, ?_, ?_⟩
  · rw [h1]; decide +kernel
  · rw [h2]; decide +kernel
  · rw [h3]; decide
  · rw [h4]; decide

/-- former D82 witness (regression): coordinates 0, 1 nm, 5 nm are rejected exactly like the
same coordinates in metres, of which they are a rescaling -/
example : (fromXarray (.dataArray exNm)).toOption.map (fun g => g.mesh.n) = none := by decide +kernel
example : (fromXarray (.dataArray exM)).toOption.map (fun g => g.mesh.n) = none := by decide +kernel
example : (scaleCoords (1/1000000000) exM).axes = exNm.axes := by decide +kernel
/-- hypotheses of `rejects_uneven` on the nanometre witness (spacings 1 nm and 4 nm, mean 2.5 nm) -/
example : (1 : Rat)/100000 * absR (meanDiff [0, 1/1000000000, 5/1000000000])
    < absR ((1/1000000000 - 0) - meanDiff [0, 1/1000000000, 5/1000000000]) := by
  decide +kernel
/-- an unlabelled vector field and a labelled scalar field are not `LabelsStd` -/
example : ¬ LabelsStd { exF with vdims := none } := by unfold LabelsStd; decide
example : ¬ LabelsStd { exS with vdims := some ["s"] } := by unfold LabelsStd; decide

/-! ### non-vacuity of the theorems on spacing, subsets, histories, the importer's range -/

/-- `import_hand_built_any_subset` on `exOne`: single-cell axis x = [3] with `cell = (2, ½)`,
`pmax` present, `pmin` absent: mesh from (2, 9¾) to (4, 10¾), 1×2 cells -/
example : ∃ g, fromXarray (.dataArray exOne) = .ok g ∧ g.mesh.region.pmin = [2, 39/4] ∧
    g.mesh.region.pmax = [4, 43/4] ∧ g.mesh.n = [1, 2] := by
  obtain ⟨g, hg, h1, h2, h3, -⟩ :=
    import_hand_built_any_subset exOne 2 (fun a => (geo exOne).getD a default) (by decide +kernel) (by decide)
      (fun a => [3, 10].getD a 0) (fun a => [2, 1/2].getD a 0) (fun a => [1, 2].getD a 0)
      (by decide +kernel) (by decide +kernel) (by decide) (by decide +kernel)
      (Or.inr (by decide +kernel)) (Or.inl rfl) (Or.inr (by decide +kernel)) (fun h => by cases h)
      1 (by decide) rfl (fun h => by omega) (by decide) (fun l h => by cases h)
  refine ⟨g, hg, ?_, ?_, ?_⟩
  · rw [h1]; decide +kernel
  · rw [h2]; decide +kernel
  · rw [h3]; decide

/-- a far-away copy of the uneven witness: offset 10^12 -/
example : (1 : Rat)/100000 * absR (meanDiff [0, 1, 5]) < absR (([0, 1, 5].getD (0 + 1) 0 - [0, 1, 5].getD 0 0) - meanDiff [0, 1, 5]) := by
  decide +kernel
example : ([0, 1, 5] : List Rat).map (· + 1000000000000) = [1000000000000, 1000000000001, 1000000000005] := by decide +kernel

/-- displaced interior coordinate: threshold exactly at 1e-5 of the step -/
example : evenB (tab 5 fun j => (7 : Rat) + (j : Rat) * (1/4) + (if j = 2 then 1/400000 else 0)) = true := by decide +kernel
example : evenB (tab 5 fun j => (7 : Rat) + (j : Rat) * (1/4) + (if j = 2 then 1/399999 else 0)) = false := by decide +kernel

example : (exportAfter exS exOps).toOption.map (fun xa => (xa.axes.map Axis.values, xa.attrs.pmin, xa.attrs.pmax, xa.attrs.cell))
    = some ([[-3/4, 1/4, 5/4], [99/8, 101/8]], some [-5/4, 49/4], some [7/4, 51/4], some [1, 1/4]) := by decide +kernel

example : ∃ m', T.stepM exS.mesh (.translate [1, 2] true) = .ok (m', m') := (inplace_accepted exS exS_wf rfl).1 _ rfl
example : ∃ m', T.stepM exS.mesh (.scale (.vec [-2, 1/2]) none true) = .ok (m', m') :=
  (inplace_accepted exS exS_wf rfl).2 _ _ rfl rfl (by decide +kernel)

/-- the constructor's final test is reachable: a cell larger than the region, 1e16 from the origin
(the shared `Mesh.mkCell?` has the `n >= 1` test itself since repo fix 5c501c0e was modelled there) -/
example : (Mesh.mkCell? { pmin := [10000000000000000], pmax := [10000000000000002], dims := ["x"], units := ["m"], tol := defaultTol } [10000]).toOption.map (·.n) = none := by decide +kernel
example : (mkCellNow? { pmin := [10000000000000000], pmax := [10000000000000002], dims := ["x"], units := ["m"], tol := defaultTol } [10000]).toOption.map (·.n) = none := by decide +kernel

example : Region.mk? [0, 3] [1, 1] (some ["x", "t"]) none (1/10) = .ok { pmin := [0, 1], pmax := [1, 3], dims := ["x", "t"], units := ["m", "m"], tol := 1/10 } := by decide +kernel
example : Mesh.mkN? { pmin := [0, 1], pmax := [1, 3], dims := ["x", "t"], units := ["m", "m"], tol := 1/10 } [2, 3] "" = .ok { region := { pmin := [0, 1], pmax := [1, 3], dims := ["x", "t"], units := ["m", "m"], tol := 1/10 }, n := [2, 3], bc := "", subs := [] } := by decide +kernel


/-- the importer accepts `exHand` (hypothesis of `import_wf` / `import_export_import`) -/
example : (fromXarray (.dataArray exHand)).toOption.isSome = true := by decide +kernel

/-- the hypothesis `hdef` of `import_wf` / `import_export_import` / `wf_of_constructors` holds
for the sample attribute set, whose attribute names do occur as labels in `exReserved` -/
example : ∀ k l, Fld.defaultVdims k = some l → l.any FieldAttrs.has = false := exAttrs_defaults
example : FieldAttrs.has "mesh" = true ∧ (fromXarray (.dataArray exReserved)).toOption.isSome = false := by decide +kernel
example : ∃ g, fromXarray (.dataArray exHand) = .ok g ∧ g.WF := by
  have hs : (fromXarray (.dataArray exHand)).toOption.isSome = true := by decide +kernel
  cases h : fromXarray (.dataArray exHand) with
  | error e => rw [h] at hs; cases hs
  | ok g => exact ⟨g, rfl, (import_wf exHand g h (fun _ => exAttrs_defaults)).1⟩

/-- descending coordinates: rejected without `cell` (`exDesc` minus its attributes), accepted
unreordered with complete attributes — the result is the one for the ascending coordinates -/
example : (fromXarray (.dataArray (eraseGeom true true true exDesc))).toOption.isSome = false := by decide +kernel
example : checkSpacing exDesc = .ok () ∧ checkSpacing (setCoordVals (fun _ => [1, 2, 3]) exDesc) = .ok () := by decide +kernel
example : (fromXarray (.dataArray exDesc)).toOption.map (fun g => (g.mesh.region.pmin, g.mesh.n, g.data.toList))
    = some ([1/2], [3], [0, 10, 20]) := by decide +kernel

/-- displaced last coordinate, `n = 3`, step 1: `e = 2/99999` is exactly on the threshold
(`|e|/2 = 1e-5·(1 + e/2)`), a slightly larger displacement is rejected -/
example : evenB (tab 3 fun j => (100 : Rat) + (j : Rat) * 1 + (if j = 3 - 1 then 2/99999 else 0)) = true := by decide +kernel
example : evenB (tab 3 fun j => (100 : Rat) + (j : Rat) * 1 + (if j = 3 - 1 then 2/99998 else 0)) = false := by decide +kernel

/-! ### non-vacuity, second round: 4-d arrays with single-cell axes, contradicting attributes, refusal classes, long coordinates -/

/-- `import_ok_iff` / `import_geometry_ok_iff` / `import_result_formula` on `ex4` (4-d, single-cell
axes `y` and `w`, three labelled components, only `cell` present): corners = outermost coordinate ∓
half the cell ATTRIBUTE, units from the coordinates, tolerance factor from the attribute, every
value at its place -/
example : (fromXarray (.dataArray ex4)).toOption.map (fun g => (g.mesh.region.pmin, g.mesh.region.pmax, g.mesh.n))
    = some ([0, 3, -5/4, 2], [4, 7, 1/4, 12], [2, 1, 3, 1]) := by decide +kernel
example : (fromXarray (.dataArray ex4)).toOption.map (fun g => (g.mesh.region.units, g.mesh.region.tol, g.vdims, g.data.toList))
    = some (["nm", "nm", "", "s"], 1/1000, some ["a", "b", "c"], List.range 18) := by decide +kernel
example : (cellUsed ex4, p1Used ex4, p2Used ex4) = ([2, 4, 1/2, 10], [0, 3, -5/4, 2], [4, 7, 1/4, 12]) := by decide +kernel
example : (geometryOf ex4).toOption.map (·.n) = some [2, 1, 3, 1] := by decide +kernel
/-- the same array without `cell`: `KeyError` (a 1 among `shape[:-1]`), by `cell_inference_iff` -/
example : ex4NoCell.attrs.cell = none ∧ 1 ∈ ex4NoCell.data.shape.dropLast := by decide
example : (cellOf ex4NoCell).toOption = none ∧ (fromXarray (.dataArray ex4NoCell)).toOption.isSome = false := by decide +kernel
/-- the two refusal classes of the cell inference: single FIRST axis → `KeyError`; single LAST axis
of a scalar field (not in `shape[:-1]`) → `ValueError` -/
example : cellOf exFirstSingle = .error .key ∧ cellOf exLastSingle = .error .value := by
  constructor
  · exact (cell_inference_iff exFirstSingle []).2.1.mpr (by decide)
  · refine (cell_inference_iff exLastSingle []).2.2.mpr ⟨rfl, by decide, ?_⟩
    exact ⟨_, List.mem_cons_of_mem _ (List.mem_singleton.mpr rfl), by decide⟩
/-- attributes that contradict the coordinates win: coordinates 0, 1, 2 but `cell = 2`, `pmin = 10`,
`pmax = 16` → 3 cells of size 2 from 10 to 16, the data unmoved -/
example : (fromXarray (.dataArray exContra)).toOption.map (fun g => (g.mesh.region.pmin, g.mesh.region.pmax, g.mesh.n, g.data.toList))
    = some ([10], [16], [3], [7, 8, 9]) := by decide +kernel
/-- … but they must agree with the data shape: `cell = 1` gives a mesh of 6 cells (the geometry steps
succeed), into which the 3 values do not broadcast (`DataFits` fails) -/
example : (geometryOf exContraShape).toOption.map (·.n) = some [6] ∧
    (fromXarray (.dataArray exContraShape)).toOption.isSome = false := by decide +kernel

/-- component-count refusal classes -/
example : (checkNvdim none ["x"]).toOption = none ∧ (checkNvdim (some (.int 3)) ["x", "vdims"]).toOption = some 3 := by decide
example : checkNvdim (some (.other (3/2))) ["x"] = .error .type :=
  (component_count_refusal_iff _ _).2.1.mpr ⟨3/2, rfl, by decide +kernel⟩
example : checkNvdim (some (.int 2)) ["x", "y"] = .error .value :=
  (component_count_refusal_iff _ _).2.2.mpr (Or.inr ⟨2, rfl, Or.inr ⟨by decide, by decide⟩⟩)

/-- the linear-time forms on a coordinate of 1000 values: evenly spaced, mean step ¼ -/
example : evenFast exLong = true ∧ meanDiffL exLong = 1/4 := by decide +kernel
example : (fromXarrayFast (.dataArray ex4)).toOption.map (·.mesh) = (fromXarray (.dataArray ex4)).toOption.map (·.mesh) := by
  rw [(fast_import_eq (.dataArray ex4) []).1]

/-- spacing test: reversal and a negative factor keep the verdict (accepted and rejected) -/
example : evenB [3, 2, 1] = true ∧ evenB [5, 1, 0] = false ∧ evenB ([0, 1, 5].map ((-2 : Rat) * ·)) = false ∧
    evenB ([1, 2, 3].map ((-2 : Rat) * ·)) = true ∧ evenB [4, 4] = true ∧ evenB [9, -9] = true := by decide +kernel
/-- hypothesis of `spacing_accepted_monotone` on a slightly uneven accepted coordinate (steps 1 and
1 + 1/200000, mean 1 + 1/400000): strictly increasing -/
example : evenB [0, 1, 2 + 1/200000] = true ∧ 0 < meanDiff [0, 1, 2 + 1/200000] := by decide +kernel

/-- export ∘ import ∘ export on the 3-d example: the second export (other name, unit given again)
has the axes, label coordinate and data of the first -/
example : (fromXarray (.dataArray (exported exF "field" .none))).toOption.map
      (fun g => (decide ((exported g "again" (.str "T")).axes = (exported exF "field" .none).axes),
                 (exported g "again" (.str "T")).vdimsCoord, (exported g "again" (.str "T")).data.toList))
    = some (true, some ["a", "b"], (exported exF "field" .none).data.toList) := by
  decide +kernel
example : (fromXarray (.dataArray (exported exF "field" .none))).toOption.map
      (fun g => ((exported g "again" (.str "T")).attrs.units, (exported g "again" (.str "T")).attrs.cell))
    = some (some "T", some [1, 1/2, 1/4]) := by
  decide +kernel
/-- the exported coordinates of `exF` feed the inference: first − cell/2 = pmin, mean step = cell on `x` -/
example : ((exported exF "f" .none).axes.getD 0 default).values.getD 0 0 - exF.mesh.cellAt 0 / 2 = exF.mesh.region.lo 0 ∧
    meanDiff ((exported exF "f" .none).axes.getD 0 default).values = exF.mesh.cellAt 0 := by decide +kernel

/-- in-place calls `inplace_accepted_iff` refuses on `exS` (2-d, no subregions): wrong length, factor 0 -/
example : (T.stepM exS.mesh (.translate [1] true)).toOption.isSome = false ∧
    (T.stepM exS.mesh (.scale (.scalar 0) none true)).toOption.isSome = false ∧
    (T.stepM exS.mesh (.scale (.vec [2, -1/2]) (some [0, 0]) true)).toOption.isSome = true := by decide +kernel

/-- `roundtrip_iff_no_vdims_dim`: `exS` with its second dimension renamed `vdims` is exported but not imported -/
example : (fromXarray (.dataArray (exported { exS with mesh := { exS.mesh with region := { exS.mesh.region with dims := ["u", "vdims"] } } } "s" .none))).toOption.isSome = false := by
  decide +kernel

/-- `import_values_formula` with real broadcasting: ONE data value on a coordinate of one point, attributes that say
"3 cells from 10 to 16": accepted, the value fills the three cells -/
example : (fromXarray (.dataArray { exContra with axes := [{ name := "x", size := 1, coord := some { vals := [0], units := none } }],
                                                    data := ⟨[1], fun _ => 42⟩ })).toOption.map (fun g => (g.mesh.n, g.data.toList))
    = some ([3], [42, 42, 42]) := by decide +kernel

/-- `attribute_free_import_iff` on coordinates that are evenly spaced only WITHIN the tolerance
(steps 1 and 1 + 1/200000): accepted, three cells, corners half a MEAN step (1 + 1/400000) beyond -/
example : (geometryOf ({ exM with axes := [{ name := "x", size := 3, coord := some { vals := [0, 1, 2 + 1/200000], units := none } }] } : XA Nat)).toOption.map
      (fun m => (m.n, m.region.pmin, m.region.pmax))
    = some ([3], [-(1 + 1/400000)/2], [2 + 1/200000 + (1 + 1/400000)/2]) := by decide +kernel
/-- … and `exHand` (no attributes, default index on `x`) is the mesh `bareMesh` describes -/
example : (geometryOf exHand).toOption = some (bareMesh exHand) := by decide +kernel

end

end DFV.C17
