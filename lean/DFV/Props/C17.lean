import DFV.Lemmas.C17Examples
import DFV.Props.C01
/-!
# C17 — xarray export/import is lossless and uses cell centres as coordinates

Property theorems about the model of `Field.to_xarray` / `Field.from_xarray`
(`DFV/Model/C17.lean`).  Number of dimensions, corners, cell counts, dimension names, units,
tolerance factor, component count, labels, dtype tag and the values themselves (any type `α`:
the code only moves them) are universally quantified.  `f.WF` is what the constructors of
`Region`, `Mesh`, `Field` guarantee (plus: no spatial dimension is called `vdims`); the
driver evaluates the same predicate on every real field of the correspondence run.
-/
namespace DFV.C17
open DFV

variable {α : Type}

/-! ## Export -/

/-- **Coordinates are the cell centres, with the region's units.**  Axis `a` of the exported
DataArray is called like the region's dimension `a`, has one coordinate per cell, coordinate
`j` is the centre `pmin + (j+½)·cell` of cell `j` (the `centreAx` of C01), and its `units`
attribute is the region's unit on that axis. -/
theorem export_coords (f : XFld α) (hf : f.WF) (nm : String) (u : PyArg) (hu : u ≠ .other) :
    ∃ xa, toXarray f (.str nm) u = .ok xa ∧
      ∀ a, a < f.mesh.ndim →
        xa.axes.getD a default =
          { name := f.mesh.region.dims.getD a "", size := f.mesh.nAt a,
            coord := some { vals := tab (f.mesh.nAt a) fun j => f.mesh.centreAx a (j : Int),
                            units := some (f.mesh.region.units.getD a "") } } := by
  refine ⟨exported f nm u, ?_, fun a ha => exported_axis f hf nm u a ha⟩
  unfold toXarray
  simp only [hu, if_false]

/-- **Every coordinate lies strictly inside its own cell** and the mesh maps it back to the
index it came from (`Mesh.point2index` per axis, C01): the exported coordinates select
exactly the cells they label. -/
theorem export_coords_index (m : Mesh) (hm : m.Inv) (a : Nat) (ha : a < m.ndim) (j : Nat) (hj : j < m.nAt a) :
    m.region.lo a + (j : Rat) * m.cellAt a < m.centreAx a (j : Int) ∧
    m.centreAx a (j : Int) < m.region.lo a + ((j : Rat) + 1) * m.cellAt a ∧
    m.indexAx a (m.centreAx a (j : Int)) = j := by
  have hc := cellAt_pos m hm a ha
  refine ⟨?_, ?_, C01.roundtrip_axis m a j hj (hm.1.2.2.2.2.2 a ha)⟩
  · unfold Mesh.centreAx; push_cast; linarith
  · unfold Mesh.centreAx; push_cast; linarith

/-- **Layout of the export**: dimensions = the region's (plus `vdims` exactly for vector
fields), the label coordinate lists the component labels, the attributes carry unit, cell
size, corners, component count (a Python int) and tolerance factor, the data are the field
array (component axis squeezed for scalar fields), name and dtype as given. -/
theorem export_layout (f : XFld α) (hf : f.WF) (nm : String) (u : PyArg) :
    (exported f nm u).dims = f.mesh.region.dims ++ (if 1 < f.nvdim then ["vdims"] else []) ∧
    (exported f nm u).vdimsCoord = (if 1 < f.nvdim then f.vdims else none) ∧
    (exported f nm u).attrs = { units := exportUnit u f.unit, cell := some f.mesh.cell,
                                pmin := some f.mesh.region.pmin, pmax := some f.mesh.region.pmax,
                                nvdim := some (.int f.nvdim), tol := some f.mesh.region.tol } ∧
    (1 < f.nvdim → (exported f nm u).data = f.data) ∧
    (f.nvdim = 1 → (exported f nm u).data.shape = f.mesh.n ∧
      ∀ i, (exported f nm u).data.get i = f.data.get (i ++ [0])) ∧
    (exported f nm u).name = nm ∧ (exported f nm u).dtype = f.dtype := by
  refine ⟨?_, rfl, rfl, ?_, ?_, rfl, rfl⟩
  · unfold XA.dims exported exportAxes
    simp only [List.map_append, map_tab]
    congr 1
    · exact tab_getD_self _ _
    · split <;> rfl
  · intro h; unfold exported exportData; simp only [h, if_true]
  · intro h
    have h1 : ¬ (1 < f.nvdim) := by omega
    have e : (exported f nm u).data = ⟨f.data.shape.dropLast, fun i => f.data.get (i ++ [0])⟩ := by
      show exportData f = _
      unfold exportData; rw [if_neg h1]
    rw [e]
    exact ⟨by show f.data.shape.dropLast = _; rw [hf.shape, List.dropLast_concat], fun _ => rfl⟩

/-- the attribute `units` is the `unit` argument if it is a non-empty string, else the field's -/
theorem export_unit (s : String) (fu : Option String) :
    exportUnit (.str s) fu = (if s = "" then fu else some s) ∧ exportUnit .none fu = fu := ⟨rfl, rfl⟩

/-- non-string `name` (also `None`) or non-string `unit` → `TypeError` -/
theorem export_rejects_bad_args (f : XFld α) (name unit : PyArg) (h : (∀ s, name ≠ .str s) ∨ unit = .other) :
    toXarray f name unit = .error .type := by
  unfold toXarray
  cases name with
  | str s => rcases h with h | h
             · exact absurd rfl (h s)
             · simp [h]
  | none => rfl
  | other => rfl

/-! ## Import of an export -/

/-- **Round trip.**  For every well-formed field, any name and unit argument: exporting and
importing succeeds and returns a field on the same region (corners, dimension names, units,
tolerance factor) with the same cell counts, component count, array shape, the same value at
every cell and component (hence the same flattened content), the same dtype tag — and the
same labels, provided the field is a labelled vector field or an unlabelled scalar field
(`LabelsStd`; see `xa_roundtrip_labels_iff`). -/
theorem xa_roundtrip (f : XFld α) (hf : f.WF) (nm : String) (u : PyArg) (hu : u ≠ .other) :
    ∃ xa g, toXarray f (.str nm) u = .ok xa ∧ fromXarray (.dataArray xa) = .ok g ∧
      g.mesh.region = f.mesh.region ∧ g.mesh.n = f.mesh.n ∧ g.nvdim = f.nvdim ∧
      g.data.shape = f.data.shape ∧ (∀ i, inRange f.data.shape i = true → g.data.get i = f.data.get i) ∧
      g.data.toList = f.data.toList ∧ g.dtype = f.dtype ∧ (LabelsStd f → g.vdims = f.vdims) := by
  obtain ⟨g, hg, hm, hk, hd, hv, ht, -⟩ :=
    fromXA_likeExport hf (likeExport_exported hf nm u) (fun h => by cases h)
  rw [meshAfter_export hf] at hm
  refine ⟨exported f nm u, g, ?_, hg, by rw [hm], by rw [hm], hk, hd.1, fun i hi => hd.2 i (hd.1 ▸ hi), ?_, ht, ?_⟩
  · unfold toXarray; simp only [hu, if_false]
  · apply hd.toList_eq
    intro x hx
    rw [hd.1, hf.shape, List.mem_append] at hx
    rcases hx with hx | hx
    · obtain ⟨a, ha, rfl⟩ := n_mem hf x hx
      exact hf.mesh.2.2 a ha
    · simp at hx; rw [hx]; exact hf.nvdim
  · intro hl; rw [hv]; exact (vdimsAfter_eq_iff hf).mpr hl

/-- **Exactly which labels survive.**  The imported field has the labels of the original if
and only if the original is a vector field with labels or a scalar field without: a vector
field WITHOUT labels comes back with the default labels, a scalar field WITH a label comes
back without (the exporter writes the label coordinate only for `nvdim > 1`, the importer
applies the constructor's defaults). -/
theorem xa_roundtrip_labels_iff (f : XFld α) (hf : f.WF) (nm : String) (u : PyArg) (g : XFld α)
    (hg : fromXarray (.dataArray (exported f nm u)) = .ok g) : g.vdims = f.vdims ↔ LabelsStd f := by
  obtain ⟨g', hg', -, -, -, hv, -⟩ :=
    fromXA_likeExport hf (likeExport_exported hf nm u) (fun h => by cases h)
  have : g = g' := by
    have h1 : fromXA (exported f nm u) = .ok g := hg
    rw [hg'] at h1; cases h1; rfl
  rw [this, hv]
  exact vdimsAfter_eq_iff hf

/-- the unlabelled vector field, explicitly: it comes back labelled `x,y(,z)` / `v0,v1,…` -/
theorem xa_roundtrip_unlabelled (f : XFld α) (hf : f.WF) (nm : String) (u : PyArg) (h1 : 1 < f.nvdim)
    (hn : f.vdims = none) :
    ∃ g, fromXarray (.dataArray (exported f nm u)) = .ok g ∧ g.vdims = Fld.defaultVdims f.nvdim ∧ g.vdims ≠ f.vdims := by
  obtain ⟨g, hg, -, -, -, hv, -⟩ :=
    fromXA_likeExport hf (likeExport_exported hf nm u) (fun h => by cases h)
  have hv' : g.vdims = Fld.defaultVdims f.nvdim := by
    rw [hv]; unfold vdimsAfter; simp only [h1, if_true, hn]
  refine ⟨g, hg, hv', ?_⟩
  rw [hv, hn]
  exact vdimsAfter_ne_none h1

/-- what `from_xarray` does not restore (none of it is in the property's list): the imported
field has no unit, every cell valid, the default component-to-axis mapping, no boundary
conditions and no subregions — whatever the exported field had. -/
theorem xa_not_restored (f : XFld α) (hf : f.WF) (nm : String) (u : PyArg) (g : XFld α)
    (hg : fromXarray (.dataArray (exported f nm u)) = .ok g) :
    g.unit = none ∧ g.valid = NDA.const f.mesh.n true ∧ g.mesh.bc = "" ∧ g.mesh.subs = [] ∧
    g.vmap = defaultVmap f.nvdim f.mesh.region.dims g.vdims := by
  obtain ⟨g', hg', hm, -, -, hv, -, hu, hva, hvm⟩ :=
    fromXA_likeExport hf (likeExport_exported hf nm u) (fun h => by cases h)
  have : g = g' := by
    have h1 : fromXA (exported f nm u) = .ok g := hg
    rw [hg'] at h1; cases h1; rfl
  subst this
  refine ⟨hu, hva, by rw [hm]; rfl, by rw [hm]; rfl, by rw [hvm, hv]⟩

/-! ## Import without the geometric attributes -/

/-- **Rebuild from the coordinates.**  Remove ANY subset of `cell` / `pmin` / `pmax` from an
exported DataArray (`c p q` say which).  If `cell` is removed, every axis must have at least
two cells.  Then the importer rebuilds exactly the original region (in ℚ: outermost centre
∓ half the mean spacing = the original corners) and cell counts, and values, labels and dtype
tag are as in `xa_roundtrip`. -/
theorem xa_rebuild (f : XFld α) (hf : f.WF) (nm : String) (u : PyArg) (c p q : Bool)
    (hc : c = true → ∀ a, a < f.mesh.ndim → 2 ≤ f.mesh.nAt a) :
    ∃ g, fromXarray (.dataArray (eraseGeom c p q (exported f nm u))) = .ok g ∧
      g.mesh.region = f.mesh.region ∧ g.mesh.n = f.mesh.n ∧ g.nvdim = f.nvdim ∧
      g.data.shape = f.data.shape ∧ (∀ i, inRange f.data.shape i = true → g.data.get i = f.data.get i) ∧
      g.dtype = f.dtype ∧ (LabelsStd f → g.vdims = f.vdims) := by
  obtain ⟨g, hg, hm, hk, hd, hv, ht, -⟩ :=
    fromXA_likeExport hf ((likeExport_exported hf nm u).eraseGeom c p q) hc
  rw [meshAfter_export hf] at hm
  exact ⟨g, hg, by rw [hm], by rw [hm], hk, hd.1, fun i hi => hd.2 i (hd.1 ▸ hi), ht,
    fun hl => by rw [hv]; exact (vdimsAfter_eq_iff hf).mpr hl⟩

/-- **Defaults for the remaining attributes.**  With `tolerance_factor` removed as well the
region gets the default factor (the binary64 `1e-12`); with the `units` attribute removed
from the coordinate of at least one axis (`sel` picks the dimensions) every axis gets the
default unit `m`; corners, names and cell counts are rebuilt as before. -/
theorem xa_rebuild_defaults (f : XFld α) (hf : f.WF) (nm : String) (u : PyArg) (c p q : Bool)
    (hc : c = true → ∀ a, a < f.mesh.ndim → 2 ≤ f.mesh.nAt a) (sel : String → Bool) :
    ∃ g, fromXarray (.dataArray (eraseUnits sel (eraseTol (eraseGeom c p q (exported f nm u))))) = .ok g ∧
      g.mesh.region.pmin = f.mesh.region.pmin ∧ g.mesh.region.pmax = f.mesh.region.pmax ∧
      g.mesh.region.dims = f.mesh.region.dims ∧ g.mesh.n = f.mesh.n ∧ g.mesh.region.tol = defaultTol ∧
      ((∃ a, a < f.mesh.ndim ∧ sel (f.mesh.region.dims.getD a "") = true) →
        g.mesh.region.units = List.replicate f.mesh.ndim "m") ∧
      ((∀ a, a < f.mesh.ndim → sel (f.mesh.region.dims.getD a "") = false) →
        g.mesh.region.units = f.mesh.region.units) := by
  obtain ⟨g, hg, hm, -⟩ :=
    fromXA_likeExport hf ((((likeExport_exported hf nm u).eraseGeom c p q).eraseTol).eraseUnits sel) hc
  refine ⟨g, hg, by rw [hm]; rfl, by rw [hm]; rfl, by rw [hm]; rfl, by rw [hm]; rfl, by rw [hm]; rfl, ?_, ?_⟩
  · rintro ⟨a, ha, hs⟩
    rw [hm]
    show unitsAfter f.mesh.ndim _ = _
    exact unitsAfter_erased _ _ a ha (by simp only [hs, if_true])
  · intro hs
    rw [hm]
    show unitsAfter f.mesh.ndim _ = _
    rw [← unitsAfter_export hf]
    unfold unitsAfter
    have : (tab f.mesh.ndim fun a => if sel (f.mesh.region.dims.getD a "") = true then none else uoExport f a)
        = tab f.mesh.ndim (uoExport f) := tab_congr _ _ _ fun a ha => by simp only [hs a ha, Bool.false_eq_true, if_false]
    rw [this]
    congr 1
    apply tab_congr
    intro a ha
    simp only [hs a ha, Bool.false_eq_true, if_false]

/-- **Rebuild from coordinates, ANY DataArray** (hand-built, not necessarily exported): if the
geometric axes have distinct names and evenly spaced coordinates `v0, v0+h, …` with `h > 0`
and at least two coordinates each, and `cell`, `pmin`, `pmax` are all absent, the geometry
steps of the importer succeed and the mesh reaches exactly half a step beyond the outermost
coordinates, with one cell per coordinate, the axes' names, and the tolerance factor of the
attribute (default `1e-12`). -/
theorem rebuild_from_coords (xa : XA α) (d : Nat) (G : Nat → Axis) (hgeo : geo xa = tab d G) (hd : 0 < d)
    (v0 h : Nat → Rat) (n : Nat → Nat)
    (hval : ∀ a, a < d → (G a).values = tab (n a) fun j => v0 a + (j : Rat) * h a)
    (hh : ∀ a, a < d → 0 < h a) (hn : ∀ a, a < d → 2 ≤ n a)
    (hnames : hasDup (tab d fun a => (G a).name) = false)
    (hcell : xa.attrs.cell = none) (hpmin : xa.attrs.pmin = none) (hpmax : xa.attrs.pmax = none)
    (hshape : ∀ x ∈ xa.data.shape.dropLast, x ≠ 1) :
    ∃ m, geometryOf xa = .ok m ∧
      m.region.pmin = (tab d fun a => v0 a - h a / 2) ∧
      m.region.pmax = (tab d fun a => v0 a + ((n a : Rat) - 1) * h a + h a / 2) ∧
      m.n = tab d n ∧ m.region.dims = (tab d fun a => (G a).name) ∧
      m.region.tol = xa.attrs.tol.getD defaultTol :=
  geometry_from_coords xa d G hgeo hd v0 h n hval hh hn hnames hcell hpmin hpmax hshape

/-- **Import of a hand-built DataArray, values included.**  Evenly spaced coordinates on
distinctly named axes (at least two each), none of `cell`/`pmin`/`pmax`, an integer `nvdim = k
≥ 1`, data of shape `(*n)` (scalar) or `(*n, k)` with the `vdims` axis last, labels absent or
`k` distinct strings: the import succeeds, the mesh spans half a step beyond the outermost
coordinates with one cell per coordinate, every value sits at its own cell and component, the
dtype tag is kept, the labels are the coordinate's or the defaults. -/
theorem import_hand_built (xa : XA α) (d : Nat) (G : Nat → Axis) (hgeo : geo xa = tab d G) (hd : 0 < d)
    (v0 h : Nat → Rat) (n : Nat → Nat)
    (hval : ∀ a, a < d → (G a).values = tab (n a) fun j => v0 a + (j : Rat) * h a)
    (hh : ∀ a, a < d → 0 < h a) (hn : ∀ a, a < d → 2 ≤ n a)
    (hnames : hasDup (tab d fun a => (G a).name) = false)
    (hcell : xa.attrs.cell = none) (hpmin : xa.attrs.pmin = none) (hpmax : xa.attrs.pmax = none)
    (k : Nat) (hk : 1 ≤ k) (hnv : xa.attrs.nvdim = some (.int k)) (hvd : 1 < k → "vdims" ∈ xa.dims)
    (hshape : xa.data.shape = tab d n ++ (if 1 < k then [k] else []))
    (hlab : ∀ l, xa.vdimsCoord = some l → l.length = k ∧ hasDup l = false) :
    ∃ g, fromXarray (.dataArray xa) = .ok g ∧
      g.mesh.region.pmin = (tab d fun a => v0 a - h a / 2) ∧
      g.mesh.region.pmax = (tab d fun a => v0 a + ((n a : Rat) - 1) * h a + h a / 2) ∧
      g.mesh.n = tab d n ∧ g.mesh.region.dims = (tab d fun a => (G a).name) ∧ g.nvdim = k ∧
      g.data.shape = tab d n ++ [k] ∧
      (∀ i, inRange (tab d n ++ [k]) i = true → g.data.get i = xa.data.get (if 1 < k then i else i.dropLast)) ∧
      g.dtype = xa.dtype ∧
      g.vdims = (match xa.vdimsCoord with | some l => some l | none => Fld.defaultVdims k) :=
  import_hand_built_ok xa d G hgeo hd v0 h n hval hh hn hnames hcell hpmin hpmax k hk hnv hvd hshape hlab

/-- the importer is: component-count checks, then these geometry steps, then `Field(…)` -/
theorem import_factors (xa : XA α) :
    fromXarray (.dataArray xa) =
      (checkNvdim xa.attrs.nvdim xa.dims).bind fun k => (geometryOf xa).bind fun m => fieldOf xa m k :=
  fromXA_eq xa

/-! ## Rejections -/

/-- **A single-cell axis needs the `cell` attribute** — for every DataArray: no `cell`
attribute and a geometric axis with fewer than two coordinates ⇒ error. -/
theorem xa_single_cell_needs_cell (xa : XA α) (hc : xa.attrs.cell = none) (ax : Axis) (hax : ax ∈ geo xa)
    (hl : ax.values.length ≤ 1) : ∃ e, fromXarray (.dataArray xa) = .error e :=
  fromXA_single_no_cell xa hc ax hax hl

/-- … in particular for exports: a field with a single-cell axis, `cell` removed (whatever
else is removed) is rejected, while keeping `cell` is enough (`xa_rebuild` with `c = false`
has no condition on the cell counts). -/
theorem xa_export_single_cell_rejected (f : XFld α) (hf : f.WF) (nm : String) (u : PyArg) (p q : Bool)
    (a : Nat) (ha : a < f.mesh.ndim) (h1 : f.mesh.nAt a = 1) :
    ∃ e, fromXarray (.dataArray (eraseGeom true p q (exported f nm u))) = .error e := by
  have hl := (likeExport_exported hf nm u).eraseGeom true p q
  apply fromXA_single_no_cell _ (by rw [hl.cell]; rfl) (gAxis f.mesh (uoExport f) a)
  · rw [hl.geo]
    unfold tab
    exact List.mem_map.mpr ⟨a, List.mem_range.mpr ha, rfl⟩
  · rw [gAxis_values hf a ha, ap_length, h1]

/-- not a DataArray → `TypeError` -/
theorem rejects_non_dataarray : fromXarray (PyObj.other : PyObj α) = .error .type := rfl

/-- missing component count → `KeyError` -/
theorem rejects_missing_nvdim (xa : XA α) (h : xa.attrs.nvdim = none) :
    fromXarray (.dataArray xa) = .error .key := fromXA_no_nvdim xa h

/-- component count below one → `ValueError` -/
theorem rejects_nvdim_lt_one (xa : XA α) (k : Int) (h : xa.attrs.nvdim = some (.int k)) (hk : k < 1) :
    fromXarray (.dataArray xa) = .error .value := fromXA_nvdim_lt_one xa k h hk

/-- component count that is not a Python int (a float, a numpy integer) → error -/
theorem rejects_nvdim_not_int (xa : XA α) (q : Rat) (h : xa.attrs.nvdim = some (.other q)) :
    ∃ e, fromXarray (.dataArray xa) = .error e := fromXA_nvdim_not_int xa q h

/-- vector field without a `vdims` dimension → `ValueError` -/
theorem rejects_vector_without_vdims (xa : XA α) (k : Int) (h : xa.attrs.nvdim = some (.int k)) (hk : 1 < k)
    (hd : ¬ "vdims" ∈ xa.dims) : fromXarray (.dataArray xa) = .error .value :=
  fromXA_vector_no_vdims xa k h hk hd

/-- **Unevenly spaced coordinates are rejected, at every length scale**: if on some geometric
axis one spacing deviates from the mean spacing by more than `1e-5·|mean|` (a purely relative
threshold), the import fails, whatever attributes are present. -/
theorem rejects_uneven (xa : XA α) (ax : Axis) (hax : ax ∈ geo xa) (j : Nat) (hj : j + 1 < ax.values.length)
    (hdev : 1/100000 * absR (meanDiff ax.values)
              < absR ((ax.values.getD (j + 1) 0 - ax.values.getD j 0) - meanDiff ax.values)) :
    ∃ e, fromXarray (.dataArray xa) = .error e :=
  fromXA_uneven xa ax hax (evenB_false_of_dev _ j hj hdev)

/-- **The spacing test is scale-invariant**: multiplying all coordinates by any positive
factor (metres → nanometres), or shifting them, does not change whether they count as evenly
spaced … -/
theorem spacing_test_scale_invariant (s t : Rat) (hs : 0 < s) (v : List Rat) :
    evenB (v.map (s * ·)) = evenB v ∧ evenB (v.map (· + t)) = evenB v :=
  ⟨evenB_scale s hs v, evenB_shift t v⟩

/-- … hence the importer's spacing verdict on a DataArray is the same after a change of
length unit of its coordinates (the former blindness below `1e-8`, finding D82, is gone:
see the nanometre witness below, now rejected like its metre-scale copy). -/
theorem spacing_check_scale_invariant (s : Rat) (hs : 0 < s) (xa : XA α) :
    checkSpacing (scaleCoords s xa) = checkSpacing xa :=
  checkSpacing_scale s hs xa

/-! ## Non-vacuity and witnesses -/

example : exF.WF := exF_wf
example : exS.WF := exS_wf
example : LabelsStd exF ∧ LabelsStd exS := by unfold LabelsStd; decide
/-- the exported coordinates of the 3-d example: x has 3 centres, the single-cell axis y one -/
example : ((exported exF "field" .none).axes.map Axis.values) = [[-1/2, 1/2, 3/2], [1/4], [5/8, 7/8], [0, 1]] := by
  decide +kernel
example : (exported exF "field" .none).dims = ["x", "y", "z", "vdims"] := by decide +kernel
/-- round trip of the 3-d example: same mesh apart from bc -/
example : (fromXarray (.dataArray (exported exF "field" .none))).toOption.map (fun g => (g.mesh, g.vdims, g.data.toList))
    = some ({ exF.mesh with bc := "" }, some ["a", "b"], exF.data.toList) := by decide +kernel
/-- `exS` meets the hypothesis of `xa_rebuild` with everything removed … -/
example : ∀ a, a < exS.mesh.ndim → 2 ≤ exS.mesh.nAt a := by decide
example : (fromXarray (.dataArray (eraseGeom true true true (exported exS "s" .none)))).toOption.map (fun g => g.mesh)
    = some exS.mesh := by decide +kernel
/-- … while `exF` has a single-cell axis: rejected without `cell`, rebuilt with it -/
example : (fromXarray (.dataArray (eraseGeom true false false (exported exF "f" .none)))).toOption.map (fun g => g.mesh)
    = none := by decide +kernel
example : (fromXarray (.dataArray (eraseGeom false true true (exported exF "f" .none)))).toOption.map (fun g => g.mesh)
    = some { exF.mesh with bc := "" } := by decide +kernel
/-- `import_hand_built` applies to `exHand` (default index 0,1,2 on x; t = 10, 10.5; two
components): mesh from (-½, 9¾) to (2½, 10¾), 3×2 cells -/
example : ∃ g, fromXarray (.dataArray exHand) = .ok g ∧ g.mesh.region.pmin = [-1/2, 39/4] ∧
    g.mesh.region.pmax = [5/2, 43/4] ∧ g.mesh.n = [3, 2] ∧ g.vdims = some ["x", "y"] := by
  obtain ⟨g, hg, h1, h2, h3, -, -, -, -, -, h4⟩ :=
    import_hand_built exHand 2 (fun a => (geo exHand).getD a default) (by decide +kernel) (by decide)
      (fun a => [0, 10].getD a 0) (fun a => [1, 1/2].getD a 0) (fun a => [3, 2].getD a 0)
      (by decide +kernel) (by decide +kernel) (by decide) (by decide +kernel) rfl rfl rfl 2 (by decide) rfl
      (fun _ => by decide) (by decide) (fun l h => by cases h)
  refine ⟨g, hg, ?_, ?_, ?_, ?_⟩
  · rw [h1]; decide +kernel
  · rw [h2]; decide +kernel
  · rw [h3]; decide
  · rw [h4]; decide

/-- former D82 witness (regression): coordinates 0, 1 nm, 5 nm are rejected exactly like the
same coordinates in metres, of which they are a rescaling -/
example : (fromXarray (.dataArray exNm)).toOption.map (fun g => g.mesh.n) = none := by decide +kernel
example : (fromXarray (.dataArray exM)).toOption.map (fun g => g.mesh.n) = none := by decide +kernel
example : (scaleCoords (1/1000000000) exM).axes = exNm.axes := by decide +kernel
/-- hypotheses of `rejects_uneven` on the nanometre witness (spacings 1 nm and 4 nm, mean 2.5 nm) -/
example : (1 : Rat)/100000 * absR (meanDiff [0, 1/1000000000, 5/1000000000])
    < absR ((1/1000000000 - 0) - meanDiff [0, 1/1000000000, 5/1000000000]) := by
  decide +kernel
/-- an unlabelled vector field and a labelled scalar field are not `LabelsStd` -/
example : ¬ LabelsStd { exF with vdims := none } := by unfold LabelsStd; decide
example : ¬ LabelsStd { exS with vdims := some ["s"] } := by unfold LabelsStd; decide

end DFV.C17
