import DFV.Lemmas.C08Ex
/-!
# C08 — validity masks follow the data through every operation that keeps or maps cells

Property theorems about the validity model of `DFV/Model/C08.lean`.  Programs (compositions of
public `Field` operations), input masks, shapes, indices, pad widths, turn counts and setter
arguments are universally quantified; nothing is bounded.

`eval` is the code-shaped evaluator (every node transforms the whole mask array the way
`field.py` does and stores a new buffer through the validity setter), `spec` the index-level
reading, `evalS` the same evaluation over an abstract store of buffers (ownership).
-/
namespace DFV.C08
open DFV

/-! ## Programs: the code-shaped evaluation is the index-level reading -/

/-- **Refinement, all programs.**  Whenever a composition of operations is accepted, the mask
it produces has the predicted shape and, at every cell of the result, the value obtained by
pulling the cell back through the index maps of the operations to the input fields and
AND-ing (`spec`).  By induction over programs; every index map is shown to read inside its
source array. -/
theorem valid_program (env : Nat → Mask) (p : Prog) (m : Mask) (h : eval env p = .ok m) :
    m.shape = shapeOf env p ∧ ∀ j, inRange m.shape j = true → m.get j = spec env p j :=
  eval_spec env p m h

example : run (.map (.rot 0 1 1) (.binF (.leaf 0) (.un (.leaf 1))))
    = some ([3, 2], [false, false, false, false, true, true]) := by decide

/-- **AND of the leaves.**  For a composition without a setter step, a result cell is valid
exactly when every input-field cell it depends on (`deps`: the cells reached through the index
maps) is valid; a cell created by constant padding is invalid. -/
theorem valid_leaf_and (env : Nat → Mask) (p : Prog) (hp : setterFree p = true) (m : Mask)
    (h : eval env p = .ok m) (j : List Nat) (hj : inRange m.shape j = true) :
    m.get j = match deps env p j with
      | some l => l.all fun kj => (env kj.1).get kj.2
      | none => false := by
  rw [(eval_spec env p m h).2 j hj]
  exact spec_deps env p hp j

example : deps exEnv (.map (.rot 0 1 1) (.binF (.leaf 0) (.un (.leaf 1)))) [2, 1] = some [(0, [1, 0]), (1, [1, 0])] := by
  decide

/-! ## Unary and binary operations -/

/-- **Pass-through.**  `-f`, `abs(f)`, `f.norm`, `f.orientation`, component access, `real`,
`imag`, `conjugate`, `phase`, `abs`, `diff` (hence every component of `grad`) return the
operand's validity: same shape, same value at every cell. -/
theorem valid_unary (env : Nat → Mask) (p : Prog) (m : Mask) (h : eval env (.un p) = .ok m) :
    ∃ m0, eval env p = .ok m0 ∧ m.shape = m0.shape ∧ ∀ j, inRange m0.shape j = true → m.get j = m0.get j := by
  simp only [eval] at h
  split at h
  · cases h
  · rename_i m0 hm0
    simp only [Except.ok.injEq] at h; subst h
    exact ⟨m0, hm0, rfl, fun j hj => own_get m0 j hj⟩

example : run (.un (.leaf 0)) = some ([2, 3], [true, false, true, true, true, false]) := by decide

/-- **Binary, field with field.**  Every operator, `dot`, `cross`, `angle` and `<<` between two
fields returns the cell-wise AND of both validities (and is rejected when the shapes differ). -/
theorem valid_binary_fields (env : Nat → Mask) (p q : Prog) (m : Mask) (h : eval env (.binF p q) = .ok m) :
    ∃ a b, eval env p = .ok a ∧ eval env q = .ok b ∧ a.shape = b.shape ∧ m.shape = a.shape ∧
      ∀ j, inRange a.shape j = true → m.get j = (a.get j && b.get j) := by
  simp only [eval] at h
  split at h
  · cases h
  · rename_i a ha
    split at h
    · cases h
    · rename_i b hb
      split at h
      · rename_i hab
        simp only [Except.ok.injEq] at h; subst h
        exact ⟨a, b, ha, hb, hab, rfl, fun j hj => own_get (NDA.zipWith and a b) j hj⟩
      · cases h

example : run (.binF (.leaf 0) (.leaf 1)) = some ([2, 3], [true, false, false, true, false, false]) := by decide
example : run (.binF (.leaf 0) (.map (.take 0 0) (.leaf 1))) = none := by decide

/-- **Binary, field with a number / vector / array.**  The result has the field's own validity. -/
theorem valid_binary_other (env : Nat → Mask) (p : Prog) (m : Mask) (h : eval env (.binC p) = .ok m) :
    ∃ m0, eval env p = .ok m0 ∧ m.shape = m0.shape ∧ ∀ j, inRange m0.shape j = true → m.get j = m0.get j := by
  simp only [eval] at h
  split at h
  · cases h
  · rename_i m0 hm0
    simp only [Except.ok.injEq] at h; subst h
    exact ⟨m0, hm0, rfl, fun j hj => own_get m0 j hj⟩

/-- **Both orders.**  `a ∘ b` and `b ∘ a` (e.g. scalar field with vector field and vector field
with scalar field) carry the same validity. -/
theorem valid_binary_comm (env : Nat → Mask) (p q : Prog) (m : Mask) (h : eval env (.binF p q) = .ok m) :
    ∃ m', eval env (.binF q p) = .ok m' ∧ m'.shape = m.shape ∧
      ∀ j, inRange m.shape j = true → m'.get j = m.get j := by
  obtain ⟨a, b, ha, hb, hab, hm, hg⟩ := valid_binary_fields env p q m h
  refine ⟨own (NDA.zipWith and b a), ?_, ?_, ?_⟩
  · simp only [eval, ha, hb, if_pos hab.symm]
  · show b.shape = m.shape
    rw [hm, hab]
  · intro j hj
    rw [hm] at hj
    rw [own_get (NDA.zipWith and b a) j (by show inRange b.shape j = true; rw [← hab]; exact hj), hg j hj]
    exact Bool.and_comm _ _

/-- **Self-combination.**  Combining results derived from ONE field (divergence, curl,
Laplacian, `grad`: sums and stacks of derivatives of components) gives that field's validity. -/
theorem valid_binary_idem (env : Nat → Mask) (p : Prog) (m : Mask) (h : eval env (.binF p p) = .ok m) :
    ∃ m0, eval env p = .ok m0 ∧ m.shape = m0.shape ∧ ∀ j, inRange m0.shape j = true → m.get j = m0.get j := by
  obtain ⟨a, b, ha, hb, _, hm, hg⟩ := valid_binary_fields env p p m h
  rw [ha] at hb
  simp only [Except.ok.injEq] at hb; subst hb
  exact ⟨a, ha, hm, fun j hj => by rw [hg j hj, Bool.and_self]⟩

/-! ## Selection, extraction, padding, resampling, quarter turns -/

/-- **Mapped.**  `sel`, `field[region]`, `pad`, `resample`, `rotate90`: the validity of result
cell `j` is the validity of the source cell `op.src j` — a cell INSIDE the source array — or
`False` where constant padding created the cell. -/
theorem valid_mapped (env : Nat → Mask) (op : MapOp) (p : Prog) (m : Mask) (h : eval env (.map op p) = .ok m) :
    ∃ m0, eval env p = .ok m0 ∧ op.ok m0.shape = true ∧ m.shape = op.shape m0.shape ∧
      ∀ j, inRange m.shape j = true →
        match op.src m0.shape j with
        | some i => inRange m0.shape i = true ∧ m.get j = m0.get i
        | none => m.get j = false := by
  simp only [eval] at h
  split at h
  · cases h
  · rename_i m0 hm0
    split at h
    · rename_i hok
      simp only [Except.ok.injEq] at h; subst h
      have hsh : (op.apply m0 false).shape = op.shape m0.shape := apply_shape op m0 false
      refine ⟨m0, hm0, hok, hsh, fun j hj => ?_⟩
      have hj1 : inRange (op.apply m0 false).shape j = true := hj
      have hj2 : inRange (op.shape m0.shape) j = true := by rw [← hsh]; exact hj1
      have hget := apply_get op m0 false hok j hj2
      rw [← own_get (op.apply m0 false) j hj1] at hget
      cases hsrc : op.src m0.shape j with
      | none => rw [hsrc] at hget; exact hget
      | some i => rw [hsrc] at hget; exact ⟨src_inRange op m0.shape hok j hj2 i hsrc, hget⟩
    · cases h

example : run (.map (.pad .reflect [(1, 0), (0, 2)]) (.leaf 0))
    = some ([3, 5], [true, true, false, true, true, true, false, true, false, true, true, true, false, true, true]) := by
  decide
example : run (.map (.resample [4, 2]) (.leaf 0)) = some ([4, 2], [true, true, true, true, true, false, true, false]) := by
  decide +kernel

/-- **Exactly as the data.**  The array call of each mapping operation is one function for any
entry type: applied to the array of (value, validity) pairs it returns, at every cell, the pair
of what it returns on the values and on the validities — the validity stays attached to the
value it belongs to. -/
theorem mapped_with_data {τ : Type} (op : MapOp) (data : NDA τ) (valid : Mask) (fd : τ)
    (hsh : valid.shape = data.shape) (hok : op.ok data.shape = true) (j : List Nat)
    (hj : inRange (op.shape data.shape) j = true) :
    (op.apply (NDA.zipWith Prod.mk data valid) (fd, false)).get j =
      ((op.apply data fd).get j, (op.apply valid false).get j) :=
  apply_zip op data valid fd hsh hok j hj

/-- **Quarter turns.**  NumPy's `rot90` (flips and an axis swap) moves entries by the explicit
index map `rotSrc`, for every turn count and axis pair. -/
theorem rot90_moves_mask {α : Type} (x : NDA α) (p q : Nat) (k : Int) (hpq : p ≠ q) (hp : p < x.shape.length)
    (hq : q < x.shape.length) (j : List Nat) (hj : j.length = x.shape.length) :
    (T.rot90 x p q k).get j = x.get (rotSrc x.shape p q k j) := by
  rw [T.rot90_get, srcIdx_eq_rotSrc _ _ _ _ _ hpq hp hq hj]

/-- **Padding keeps the original cells.**  In every mode the cells of the unpadded field keep
their validity (result cell `j` inside the original block reads source cell `j − front width`). -/
theorem pad_keeps_inside (mode : PadMode) (w : List (Nat × Nat)) (s j : List Nat) (hj : j.length = s.length)
    (hin : ∀ b, b < s.length → (w.getD b (0, 0)).1 ≤ j.getD b 0 ∧ j.getD b 0 < (w.getD b (0, 0)).1 + s.getD b 0) :
    (MapOp.pad mode w).src s j = some (tab s.length fun b => j.getD b 0 - (w.getD b (0, 0)).1) :=
  pad_src_inside mode w s j hj hin

example : (MapOp.pad .wrap [(2, 1)]).src [3] [4] = some [2] ∧ (MapOp.pad .wrap [(2, 1)]).src [3] [0] = some [1] ∧
    (MapOp.pad .constant [(2, 1)]).src [3] [0] = none := by decide

/-- **Resampling is geometry-free.**  The nearest source cell computed on the real cell-centre
coordinates of any edge `[lo, lo+E]` (`E > 0`) is the one computed on the unit interval. -/
theorem resample_geometry_free (lo E : Rat) (hE : 0 < E) (n n' j : Nat) :
    nearestUpTo (fun k => lo + ((k : Rat) + 1 / 2) * (E / (n : Rat))) (lo + ((j : Rat) + 1 / 2) * (E / (n' : Rat))) (n - 1)
      = nearest n n' j := by
  unfold nearest
  simp only [centre_affine]
  exact nearestUpTo_affine (centre01 n) (centre01 n' j) lo E hE (n - 1)

example : nearest 2 3 1 = 1 := by decide +kernel  -- tie between both source cells: the larger index

/-! ## File round trips -/

/-- **VTK / HDF5.**  Writing a field and reading it back returns the same validity (VTK: integers
in first-index-fastest order, cast back to Booleans; HDF5: a Boolean dataset). -/
theorem valid_file_roundtrip (m : Mask) (i : List Nat) (h : inRange m.shape i = true) :
    (vtkRead m.shape (vtkWrite m)).get i = m.get i ∧ (h5Read m.shape (h5Write m)).get i = m.get i :=
  ⟨vtk_roundtrip_get m i h, h5_roundtrip_get m i h⟩

example : (match eval exEnv3 (.vtk (.leaf 0)) with
    | .ok m => some m.toList
    | .error _ => none) = some [true, false, false, true] := by decide
example : vtkWrite (exEnv3 0) = [1, 0, 0, 1] := by decide
example : run (.vtk (.leaf 0)) = none := by decide  -- only 3-d fields can be written to VTK

/-! ## The setter -/

/-- **Boolean array of the mesh shape.**  Whatever is assigned (`None`, a number, an array, a
callable, `'norm'`), if the setter accepts it the stored mask has shape `n` (entries are `Bool`
by type) and holds, at every cell, the value the specification assigns (`specMask`). -/
theorem setter_shape_bool (n : List Nat) (s : MSpec) (m : Mask) (h : setMask n s = .ok m) :
    m.shape = n ∧ ∀ j, inRange n j = true → m.get j = specMask n s j :=
  setMask_spec n s m h

/-- an array of the mesh shape (bool, int or float entries): valid where the entry is non-zero -/
theorem setter_array (n : List Nat) (a : NDA Rat) (ha : a.shape = n) :
    ∃ m, setMask n (.arr a) = .ok m ∧ m.shape = n ∧
      ∀ j, inRange n j = true → (m.get j = true ↔ a.get j ≠ 0) := by
  refine ⟨own ⟨n, fun j => decide (a.get j ≠ 0)⟩, by simp only [setMask, if_pos ha], rfl, fun j hj => ?_⟩
  rw [own_get ⟨n, fun j => decide (a.get j ≠ 0)⟩ j hj]
  simp

/-- an array with a trailing axis of length 1 that broadcasts to the mesh: accepted, and every
cell reads an entry inside the given array -/
theorem setter_broadcast (n : List Nat) (a : NDA Rat) (h1 : a.shape ≠ n) (h2 : a.shape.getLast? = some 1)
    (h3 : bcastOk a.shape (n ++ [1]) = true) :
    ∃ m, setMask n (.arr a) = .ok m ∧ m.shape = n ∧
      ∀ j, inRange n j = true →
        inRange a.shape (bcastIdx a.shape (n ++ [1]) (j ++ [0])) = true ∧
        (m.get j = true ↔ a.get (bcastIdx a.shape (n ++ [1]) (j ++ [0])) ≠ 0) := by
  refine ⟨own ⟨n, fun j => decide (a.get (bcastIdx a.shape (n ++ [1]) (j ++ [0])) ≠ 0)⟩, ?_, rfl,
    fun j hj => ⟨?_, ?_⟩⟩
  · simp only [setMask]
    rw [if_neg h1, if_neg (by rw [h2]; simp), if_neg (by rw [h3]; simp)]
  · exact bcastIdx_inRange _ _ _ h3 (inRange_snoc_one n j hj)
  · rw [own_get ⟨n, fun j => decide (a.get (bcastIdx a.shape (n ++ [1]) (j ++ [0])) ≠ 0)⟩ j hj]
    simp

example : bcastOk [3, 1, 1] ([2, 3, 4] ++ [1]) = true := by decide
example : bcastIdx [3, 1, 1] ([2, 3, 4] ++ [1]) ([1, 2, 3] ++ [0]) = [2, 0, 0] := by decide

/-- wrong shapes and unsupported arguments are rejected (nothing is stored) -/
theorem setter_rejects (n : List Nat) (a : NDA Rat) (h1 : a.shape ≠ n)
    (h2 : a.shape.getLast? ≠ some 1 ∨ bcastOk a.shape (n ++ [1]) = false) :
    setMask n (.arr a) = .error .value ∧ setMask n .bad = .error .type := by
  refine ⟨?_, rfl⟩
  simp only [setMask, if_neg h1]
  rcases h2 with h2 | h2
  · rw [if_pos h2]
  · split
    · rfl
    · simp [h2]

example : (NDA.const [2, 2] (1 : Rat)).shape ≠ [2, 3] ∧ (NDA.const [2, 2] (1 : Rat)).shape.getLast? ≠ some 1 := by decide
example : (NDA.const [5, 1] (1 : Rat)).shape.getLast? = some 1 ∧ bcastOk [5, 1] ([2, 3] ++ [1]) = false := by decide

/-- **`'norm'`.**  Exactly the cells whose stored value has squared length above `atol² = 1e-16`
are valid — a cell whose components are each below the threshold is valid when their
combined length exceeds it. -/
theorem setter_norm (f g : Fld) (h : setValid f .norm = .ok g) (j : List Nat) (hj : inRange f.mesh.n j = true) :
    (g.valid.get j = true ↔ atol * atol < sumSq (f.data.get j)) := by
  obtain ⟨m, hm, rfl⟩ := setValid_ok f g .norm h
  have := (setMask_spec _ _ m hm).2 j hj
  show m.get j = true ↔ _
  rw [this]
  simp [specMask, toMSpec]

/-- the threshold on the length itself: for a length `r ≥ 0` (any relative tolerance, since the
comparison value is 0), `~np.isclose(r, 0)` holds exactly when `r² > atol²` -/
theorem norm_threshold (r rtol : Rat) (hr : 0 ≤ r) :
    (!Region.isclose r 0 rtol atol) = decide (atol * atol < r * r) :=
  not_isclose_zero_iff r rtol hr

example : (match setValid exFld .norm with
    | .ok g => some g.valid.toList
    | .error _ => none) = some [false, true] := by decide +kernel
example : sumSq [6 / 1000000000, 9 / 1000000000] > atol * atol ∧ (9 : Rat) / 1000000000 ≤ atol := by
  simp only [sumSq, atol]; norm_num

/-- **Stored values untouched.**  An accepted assignment changes nothing but the mask: values,
mesh, component count, labels, mapping and unit are the operand's; the new mask has the mesh
shape. -/
theorem setValid_keeps_data (f g : Fld) (s : VSpec) (h : setValid f s = .ok g) :
    g.data = f.data ∧ g.mesh = f.mesh ∧ g.nvdim = f.nvdim ∧ g.vdims = f.vdims ∧ g.vmap = f.vmap ∧
      g.unit = f.unit ∧ g.valid.shape = f.mesh.n := by
  obtain ⟨m, hm, rfl⟩ := setValid_ok f g s h
  exact ⟨rfl, rfl, rfl, rfl, rfl, rfl, (setMask_spec _ _ m hm).1⟩

/-- a callable is asked at the CENTRE of every cell; the truth value of its answer is stored -/
theorem setValid_func_centres (f g : Fld) (fn : List Rat → Bool) (h : setValid f (.func fn) = .ok g)
    (j : List Nat) (hj : inRange f.mesh.n j = true) : g.valid.get j = fn (f.mesh.centre j) := by
  obtain ⟨m, hm, rfl⟩ := setValid_ok f g (.func fn) h
  exact (setMask_spec _ _ m hm).2 j hj

example : (match setValid exFld (.func fun p => decide (p.getD 0 0 < 1)) with
    | .ok g => some g.valid.toList
    | .error _ => none) = some [true, false] := by decide +kernel

/-- assigning validity to a result forgets the result's previous mask: only its shape matters -/
theorem setter_forgets (env : Nat → Mask) (s : MSpec) (p q : Prog) (a b : Mask) (ha : eval env p = .ok a)
    (hb : eval env q = .ok b) (hs : a.shape = b.shape) : eval env (.setv s p) = eval env (.setv s q) := by
  simp only [eval, ha, hb, hs]

/-! ## Ownership (modelled requirement; observed on the code with `np.shares_memory` and
write-through probes) -/

/-- **A result's validity is its own.**  In the store model every operation that builds a field
allocates the buffer of its mask: unless the program is the input field itself (`aliasOf`: only
unary plus returns its operand, known finding D7), the result's buffer is one allocated during
the evaluation — none of the buffers that existed before — and the old buffers are still there,
unchanged, as a prefix of the store. -/
theorem result_owns_validity (env : Nat → Mask) (addr : Nat → Nat) (p : Prog) (st st' : Store) (a : Nat)
    (h : evalS env addr p st = .ok (a, st')) (hp : aliasOf p = none) :
    st.length ≤ a ∧ a < st'.length ∧ ∃ ext, st' = st ++ ext := by
  obtain ⟨h1, h2, _⟩ := evalS_store env addr p st a st' h
  exact ⟨(h2 hp).1, (h2 hp).2, h1⟩

/-- the buffer the result owns holds exactly the mask the evaluator computes (C order) -/
theorem result_buffer_holds_mask (env : Nat → Mask) (addr : Nat → Nat) (p : Prog) (st st' : Store) (a : Nat)
    (h : evalS env addr p st = .ok (a, st')) (hp : aliasOf p = none) :
    ∃ m, eval env p = .ok m ∧ st'.getD a [] = m.toList :=
  evalS_content env addr p st a st' h hp

/-- **Write-through probe.**  Changing an entry of the result's mask afterwards leaves every
buffer that existed before the evaluation — in particular every operand's mask — as it was. -/
theorem write_leaves_operands (env : Nat → Mask) (addr : Nat → Nat) (p : Prog) (st st' : Store) (a : Nat)
    (h : evalS env addr p st = .ok (a, st')) (hp : aliasOf p = none) (k : Nat) (v : Bool) (b : Nat)
    (hb : b < st.length) : (write st' a k v).getD b [] = st.getD b [] := by
  obtain ⟨h1, h2, ⟨ext, rfl⟩⟩ := result_owns_validity env addr p st st' a h hp
  rw [write_other _ _ _ _ _ (by omega)]
  simp only [List.getD_eq_getElem?_getD]
  rw [List.getElem?_append_left hb]

/-- **Unary plus (code as it stands, D7).**  `+f` is `f`: the result's mask IS the operand's
buffer, so a write through the result changes the operand. -/
theorem unary_plus_aliases (env : Nat → Mask) (addr : Nat → Nat) (k : Nat) (st : Store) :
    evalS env addr (.pos (.leaf k)) st = .ok (addr k, st) := rfl

example : (match evalS exEnv id (.binF (.un (.leaf 0)) (.pos (.leaf 1))) [(exEnv 0).toList, (exEnv 1).toList] with
    | .ok r => some (r.1, r.2.length)
    | .error _ => none) = some (3, 4) := by decide
example : (write [[true, false]] 0 1 true).getD 0 [] = [true, true] := by decide
example : aliasOf (.un (.pos (.leaf 0))) = none ∧ aliasOf (.pos (.pos (.leaf 3))) = some 3 := by decide

end DFV.C08
